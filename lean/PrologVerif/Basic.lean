/-
  PrologVerif.Basic — abstract terms and the wire format of the line protocol.

  Core Lean only (linked into the driver executable).

  Terms are a mutual pair (Term / Args) rather than a nested `List Term` so that
  structural recursion, `DecidableEq` and mutual induction all work in the kernel.
-/
namespace PrologVerif

mutual
  inductive Term where
    | var  (v : Nat)
    | atom (s : String)
    | int  (i : Int)
    | flt  (bits : UInt64)
    | str  (id : Nat)                       -- stream handle
    | app  (f : String) (as : Args)         -- compound, arity = as.length ≥ 1 for well-formed terms
  inductive Args where
    | nil
    | cons (t : Term) (ts : Args)
end

deriving instance DecidableEq for Term, Args

instance : Inhabited Term := ⟨.atom "[]"⟩
instance : Inhabited Args := ⟨.nil⟩

def Args.toList : Args → List Term
  | .nil => []
  | .cons t ts => t :: ts.toList

def Args.ofList : List Term → Args
  | [] => .nil
  | t :: ts => .cons t (Args.ofList ts)

def Args.length : Args → Nat
  | .nil => 0
  | .cons _ ts => ts.length + 1

@[simp] theorem Args.toList_ofList (l : List Term) : (Args.ofList l).toList = l := by
  induction l with
  | nil => rfl
  | cons t ts ih => simp [Args.ofList, Args.toList, ih]

@[simp] theorem Args.ofList_toList : (as : Args) → Args.ofList as.toList = as
  | .nil => rfl
  | .cons t ts => by simp [Args.ofList, Args.toList, Args.ofList_toList ts]

@[simp] theorem Args.length_toList : (as : Args) → as.toList.length = as.length
  | .nil => rfl
  | .cons _ ts => by simp [Args.toList, Args.length, Args.length_toList ts]

mutual
  def Term.size : Term → Nat
    | .app _ as => 1 + Args.size as
    | _ => 1
  def Args.size : Args → Nat
    | .nil => 0
    | .cons t ts => Term.size t + Args.size ts
end

/-- convenience constructors -/
def Term.mk (f : String) (as : List Term) : Term :=
  match as with
  | [] => .atom f
  | _ => .app f (Args.ofList as)

def Term.nilT : Term := .atom "[]"
def Term.consT (h t : Term) : Term := .app "." (.cons h (.cons t .nil))
def Term.list (xs : List Term) (tail : Term := Term.nilT) : Term :=
  xs.foldr Term.consT tail

mutual
  /-- elements of the list prefix of a term and its final tail (what `ListIterator` walks) -/
  def Term.spine : Term → List Term × Term
    | .app f as => if f = "." then Args.spineArgs (.app f as) as else ([], .app f as)
    | t => ([], t)
  def Args.spineArgs (whole : Term) : Args → List Term × Term
    | .cons h (.cons t .nil) => let r := Term.spine t; (h :: r.1, r.2)
    | _ => ([], whole)
end

def indexOf? (xs : List Nat) (v : Nat) : Option Nat :=
  let rec go : List Nat → Nat → Option Nat
    | [], _ => none
    | x :: xs, i => if x = v then some i else go xs (i + 1)
  go xs 0

mutual
  /-- rename variables by first occurrence; `seen` lists the variables met so far -/
  def Term.canonAux : Term → List Nat → Term × List Nat
    | .var v, seen =>
      match indexOf? seen v with
      | some i => (.var i, seen)
      | none => (.var seen.length, seen ++ [v])
    | .app f as, seen => let r := Args.canonAux as seen; (.app f r.1, r.2)
    | t, seen => (t, seen)
  def Args.canonAux : Args → List Nat → Args × List Nat
    | .nil, seen => (.nil, seen)
    | .cons t ts, seen =>
      let r := Term.canonAux t seen
      let r' := Args.canonAux ts r.2
      (.cons r.1 r'.1, r'.2)
end

/-- canonical form used when printing: variables renamed 0,1,2… by first occurrence -/
def Term.canon (t : Term) : Term := (t.canonAux []).1

/-! ## Wire format

  One term = a sequence of space-separated tokens in prefix order:
    `V<n>`           variable
    `A<enc>`         atom (enc: bytes outside [A-Za-z0-9] and `_+-*/<>=.:^~@#$&?!\` as %XX of the UTF-8 bytes)
    `I<decimal>`     integer
    `F<16 hex>`      float bits
    `S<n>`           stream
    `C<n>:<enc>`     compound with n ≥ 1 arguments, followed by the n arguments
-/

def hexDigit (n : Nat) : Char :=
  if n < 10 then Char.ofNat (48 + n) else Char.ofNat (87 + n)

def hexVal (c : Char) : Option Nat :=
  if '0' ≤ c ∧ c ≤ '9' then some (c.toNat - 48)
  else if 'a' ≤ c ∧ c ≤ 'f' then some (c.toNat - 87)
  else if 'A' ≤ c ∧ c ≤ 'F' then some (c.toNat - 55)
  else none

def isPlain (b : UInt8) : Bool :=
  (48 ≤ b && b ≤ 57) || (65 ≤ b && b ≤ 90) || (97 ≤ b && b ≤ 122)
  || "_+-*/<>=.:^~@#$&?!\\".toList.any (fun c => c.toNat == b.toNat)

def encName (s : String) : String :=
  String.ofList <| s.toUTF8.toList.flatMap fun b =>
    if isPlain b then [Char.ofNat b.toNat]
    else ['%', hexDigit (b.toNat / 16), hexDigit (b.toNat % 16)]

def decBytes : List Char → Option (List UInt8)
  | [] => some []
  | '%' :: a :: b :: rest => do
      let x ← hexVal a
      let y ← hexVal b
      let r ← decBytes rest
      pure (UInt8.ofNat (x * 16 + y) :: r)
  | '%' :: _ => none
  | c :: rest => do
      let r ← decBytes rest
      pure (UInt8.ofNat c.toNat :: r)

def decName (cs : List Char) : Option String := do
  let bs ← decBytes cs
  String.fromUTF8? (ByteArray.mk bs.toArray)

def natOfChars (cs : List Char) : Option Nat :=
  if cs.isEmpty then none else
  cs.foldl (fun acc c => do
    let a ← acc
    if '0' ≤ c ∧ c ≤ '9' then some (a * 10 + (c.toNat - 48)) else none) (some 0)

def intOfChars : List Char → Option Int
  | '-' :: cs => (natOfChars cs).map fun n => - (Int.ofNat n)
  | cs => (natOfChars cs).map Int.ofNat

def hexOfChars (cs : List Char) : Option Nat :=
  if cs.isEmpty then none else
  cs.foldl (fun acc c => do
    let a ← acc
    let d ← hexVal c
    some (a * 16 + d)) (some 0)

def hex16 (n : UInt64) : String :=
  let ds := Nat.toDigits 16 n.toNat
  String.ofList (List.replicate (16 - ds.length) '0' ++ ds)

mutual
  def Term.enc : Term → List String
    | .var v => ["V" ++ toString v]
    | .atom s => ["A" ++ encName s]
    | .int i => ["I" ++ toString i]
    | .flt b => ["F" ++ hex16 b]
    | .str n => ["S" ++ toString n]
    | .app f as => ("C" ++ toString (Args.length as) ++ ":" ++ encName f) :: Args.enc as
  def Args.enc : Args → List String
    | .nil => []
    | .cons t ts => Term.enc t ++ Args.enc ts
end

def Term.wire (t : Term) : String := " ".intercalate t.enc

def splitColon (cs : List Char) : List Char × List Char :=
  (cs.takeWhile (· != ':'), (cs.dropWhile (· != ':')).drop 1)

mutual
  /-- parse one term from a token list; fuel = number of tokens is always enough -/
  def decTerm : Nat → List String → Option (Term × List String)
    | 0, _ => none
    | _, [] => none
    | fuel + 1, tok :: rest =>
      match tok.toList with
      | 'V' :: cs => (natOfChars cs).map fun n => (.var n, rest)
      | 'A' :: cs => (decName cs).map fun s => (.atom s, rest)
      | 'I' :: cs => (intOfChars cs).map fun i => (.int i, rest)
      | 'F' :: cs => (hexOfChars cs).map fun n => (.flt (UInt64.ofNat n), rest)
      | 'S' :: cs => (natOfChars cs).map fun n => (.str n, rest)
      | 'C' :: cs =>
        let (a, b) := splitColon cs
        match natOfChars a, decName b with
        | some n, some f =>
          match decArgs fuel n rest with
          | some (as, rest') => some (.app f as, rest')
          | none => none
        | _, _ => none
      | _ => none
  def decArgs : Nat → Nat → List String → Option (Args × List String)
    | _, 0, toks => some (.nil, toks)
    | 0, _ + 1, _ => none
    | fuel + 1, n + 1, toks =>
      match decTerm fuel toks with
      | some (t, rest) =>
        match decArgs fuel n rest with
        | some (ts, rest') => some (.cons t ts, rest')
        | none => none
      | none => none
end

def words (s : String) : List String :=
  (s.splitOn " ").filter (· ≠ "")

/-- parse a whole string holding exactly one term -/
def Term.ofWire (s : String) : Option Term :=
  let toks := words s
  match decTerm (2 * toks.length + 2) toks with
  | some (t, []) => some t
  | _ => none

/-- parse as many terms as the token list holds -/
def decTerms (fuel : Nat) (toks : List String) : Option (List Term) :=
  match fuel with
  | 0 => none
  | fuel + 1 =>
    if toks.isEmpty then some [] else
    match decTerm (2 * toks.length + 2) toks with
    | some (t, rest) => (decTerms fuel rest).map (t :: ·)
    | none => none

def trimSp (cs : List Char) : List Char :=
  let ws := fun (c : Char) => c == ' ' || c == '\n' || c == '\r' || c == '\t'
  ((cs.dropWhile ws).reverse.dropWhile ws).reverse

/-- split a protocol line on the field separator `|` -/
def fields (s : String) : List String :=
  (s.splitOn "|").map fun f => String.ofList (trimSp f.toList)

end PrologVerif
