/-
  P2: `writeq` with operators reads back — assembly.
-/
import PrologVerif.Proofs.OpRoundtripParse6
import PrologVerif.Proofs.Ops
set_option linter.unusedSimpArgs false
set_option linter.unusedVariables false
namespace PrologVerif.Write
open PrologVerif PrologVerif.Lexer PrologVerif.Ops PrologVerif.Read

/-- the invariant of the operator table (every table reachable from the default table through op/3,
    Properties/C18) implies what the round trip needs -/
theorem tableOK_of_valid {ops : Table} (h : Valid ops) : tableOK ops = true := by
  unfold tableOK
  rw [List.all_eq_true]
  intro o ho
  have hr := (h.range o ho).2
  have hnb := h.noBrackets o ho
  have hip := h.noInfixPostfix o.name
  simp only [Bool.and_eq_true, decide_eq_true_eq, Bool.not_eq_true', Bool.and_eq_false_iff,
    decide_eq_false_iff_not]
  refine ⟨⟨⟨⟨⟨hr, ?_⟩, ?_⟩, ?_⟩, ?_⟩, hnb⟩
  · by_cases hc : o.spec.cls = .inf
    · right
      cases hd : definedInClass ops o.name .post with
      | false => rfl
      | true =>
        exfalso
        refine hip ⟨?_, hd⟩
        rw [definedInClass_iff]
        exact ⟨o, ho, rfl, hc⟩
    · exact .inl hc
  · by_cases hc : o.spec.cls = .post
    · right
      cases hd : definedInClass ops o.name .inf with
      | false => rfl
      | true =>
        exfalso
        refine hip ⟨hd, ?_⟩
        rw [definedInClass_iff]
        exact ⟨o, ho, rfl, hc⟩
    · exact .inl hc
  · intro hn
    have := h.comma o ho hn
    rw [this]
    exact ⟨rfl, rfl⟩
  · intro hn
    exact h.bar o ho hn

/-- the decidable check that the text of `writeq(T)` followed by ` .` lexes to the expected tokens -/
def lexOK (e : Env) (G : UInt64 → GText) (ops : Table) (t : Term) : Bool :=
  decide ((tokens e.cfg ((writeq e ops t ++ [' ', '.']).length + 1) (Lexer.ofList (writeq e ops t ++ [' ', '.']))).1 =
    qt e G t (qopts ops) ++ [⟨.end_, ['.']⟩])

/-- the reader half of P2: if the text lexes to the tokens `qt`, `read_term` returns the term -/
theorem readTerm_writeq_of_lexOK (e : Env) (G : UInt64 → GText) (P : UInt64 → Bool) (he : EnvOK e G P) (hs : SignOK G P)
    (ops : Table) (hops : tableOK ops = true) (dq : DoubleQuotes) (t : Term) (hw : wfTerm t = true)
    (hn : numsOK P t = true) (hlex : lexOK e G ops t = true) :
    readTerm e.cfg ops dq (writeq e ops t ++ [' ', '.']) = .ok t.canon :=
  readTerm_of_tokens e G P ops dq he hs hops t hw hn _ (by simpa [lexOK] using hlex)

end PrologVerif.Write
