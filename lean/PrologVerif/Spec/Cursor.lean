/-
  Spec/Cursor.lean — what C19 demands of an input stream, independent of buffering:

    the source bytes, ONE index, and whether end_of_file has been delivered.

  * a get delivers the character / byte at the index and advances the index by its encoded length;
    a peek delivers the same and leaves the cursor alone;
  * read_term runs the term reader from the index and advances to just behind the end token
    (its look-ahead is not consumed); at a clean end of input it delivers end_of_file;
  * reading at the end delivers end_of_file / -1 and marks it delivered (the stream is `past`);
    an input operation on a stream that is past first follows eof_action: `error` raises
    permission_error(input, past_end_of_stream, S), `eof_code` delivers the end again, `reset` makes the
    stream not-past and tries again;
  * position = index; end_of_stream is `past` iff end_of_file was delivered, `at` only if no input
    remains, `not` otherwise (an implementation that cannot know that it is at the end may say `not`).

  `check` decides whether an observed result is acceptable at a cursor and gives the next cursor;
  `judge` folds it over queries.  The driver uses exactly these functions to judge the real code.
-/
import PrologVerif.Model.StreamTypes
namespace PrologVerif.Stream.Spec

structure SCfg where
  bytes : List Nat
  typ : StreamType
  action : EofAction

structure Cursor where
  idx : Nat := 0
  delivered : Bool := false
  deriving DecidableEq, Repr

/-- an input operation on a stream that is past its end first follows the eof action -/
def pastAction (a : EofAction) (cu : Cursor) : Option Err × Cursor :=
  if cu.delivered then
    match a with
    | .error => (some .pastEOS, cu)
    | .eofCode => (none, cu)
    | .reset => (none, { cu with delivered := false })
  else (none, cu)

def advance (consume : Bool) (n : Nat) (cu : Cursor) : Cursor :=
  if consume then { cu with idx := cu.idx + n } else cu

def deliverEOF (consume : Bool) (cu : Cursor) : Cursor :=
  if consume then { cu with delivered := true } else cu

/-- get_char (consume) / peek_char -/
def readChar (c : SCfg) (consume : Bool) (cu : Cursor) : Result × Cursor :=
  match pastAction c.action cu with
  | (some e, cu) => (.err e, cu)
  | (none, cu) =>
    if c.typ ≠ .text then (.err .binaryStream, cu)
    else if cu.idx < c.bytes.length then
      let d := decodeRune (c.bytes.drop cu.idx)
      if d.1 = runeError then (.err .reprChar, advance consume d.2 cu)
      else (.char d.1, advance consume d.2 cu)
    else (.eof, deliverEOF consume cu)

/-- get_byte (consume) / peek_byte -/
def readByte (c : SCfg) (consume : Bool) (cu : Cursor) : Result × Cursor :=
  match pastAction c.action cu with
  | (some e, cu) => (.err e, cu)
  | (none, cu) =>
    if c.typ ≠ .binary then (.err .textStream, cu)
    else
      match c.bytes[cu.idx]? with
      | some b => (.byte b, advance consume 1 cu)
      | none => (.eofByte, deliverEOF consume cu)

/-- run the term reader over the bytes: its verdict and the number of bytes it consumed
    (the rune it stops on is its look-ahead and is not consumed) -/
def scan {σ : Type} (sc : Scanner σ) : Nat → σ → List Nat → Nat → Option EOFOut × Nat
  | 0, _, _, n => (none, n)
  | fuel + 1, st, bytes, n =>
    match bytes with
    | [] => (some (sc.eof st), n)
    | _ :: _ =>
      let d := decodeRune bytes
      match sc.step st d.1 with
      | .inl st' => scan sc fuel st' (bytes.drop d.2) (n + d.2)
      | .inr o => (some (.out o), n)

/-- read_term -/
def readTerm {σ : Type} (c : SCfg) (sc : Scanner σ) (cu : Cursor) : Result × Cursor :=
  match pastAction c.action cu with
  | (some e, cu) => (.err e, cu)
  | (none, cu) =>
    if c.typ ≠ .text then (.err .binaryStream, cu)
    else
      match scan sc (c.bytes.length + 2) sc.init (c.bytes.drop cu.idx) 0 with
      | (some (.out (.term t)), n) => (.term t, { cu with idx := cu.idx + n })
      | (some (.out .syntaxErr), n) => (.err .syntax, { cu with idx := cu.idx + n })
      | (some .endOfFile, n) => (.eof, { cu with idx := cu.idx + n, delivered := true })
      | (none, _) => (.err .other, cu)

/-- which end_of_stream values a stream at this cursor may report -/
def eosOk (c : SCfg) (cu : Cursor) : EOS → Bool
  | .past => cu.delivered
  | .at => decide (cu.idx = c.bytes.length) && !cu.delivered
  | .not => !cu.delivered

/-- is `r` an acceptable result of `op` at `cu`?  If so, the cursor afterwards. -/
def check {σ : Type} (c : SCfg) (sc : Scanner σ) (op : Op) (cu : Cursor) (r : Result) : Option Cursor :=
  let exact (p : Result × Cursor) : Option Cursor := if r = p.1 then some p.2 else none
  match op with
  | .getChar => exact (readChar c true cu)
  | .peekChar => exact (readChar c false cu)
  | .getByte => exact (readByte c true cu)
  | .peekByte => exact (readByte c false cu)
  | .readTerm => exact (readTerm c sc cu)
  | .atEnd =>
    match r with
    | .bool true => if cu.idx = c.bytes.length then some cu else none
    | .bool false => if cu.delivered then none else some cu
    | _ => none
  | .propPos => if r = .pos cu.idx then some cu else none
  | .propEos =>
    match r with
    | .eos e => if eosOk c cu e then some cu else none
    | _ => none

/-- one query (a conjunction): every result acceptable in turn; an error ends the conjunction -/
def judgeConj {σ : Type} (c : SCfg) (sc : Scanner σ) : List Op → List Result → Cursor → Option Cursor
  | [], [], cu => some cu
  | o :: os, r :: rs, cu =>
    match check c sc o cu r with
    | none => none
    | some cu' => if r.isErr then (if rs = [] then some cu' else none) else judgeConj c sc os rs cu'
  | _, _, _ => none

/-- a sequence of queries on the same stream -/
def judge {σ : Type} (c : SCfg) (sc : Scanner σ) : List (List Op) → List (List Result) → Cursor → Option Cursor
  | [], [], cu => some cu
  | q :: qs, r :: rs, cu =>
    match judgeConj c sc q r cu with
    | none => none
    | some cu' => judge c sc qs rs cu'
  | _, _, _ => none

end PrologVerif.Stream.Spec
