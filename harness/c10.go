package main

// C10: the compiled form of a clause (c10.compile) — random clause terms, built through every
// constructor path and with some variables bound at assertion time, are compiled by the REAL
// compiler (hook VerifCompile) and compared instruction for instruction, variable table and stored
// term included, with the Lean model of clause.go.

import (
	"fmt"
	"math/rand"
	"strings"
	"time"

	"github.com/ichiban/prolog/engine"
)

func init() {
	register(&stream{name: "c10.compile", gen: genC10Compile, run: runC10Compile})
}

func (g *termGen) goal(d int) *gt {
	switch k := g.r.Intn(20); {
	case k < 2:
		return gAtom("!")
	case k < 4:
		return gVar(g.r.Intn(g.nvars))
	case k < 6:
		return gAtom(pick(g.r, []string{"true", "fail", "foo", "nl"}))
	case k < 7 && d > 0:
		return gApp(",", gApp(",", g.goal(d-1), g.goal(d-1)), g.goal(d-1)) // left-nested: stays one goal
	case k < 9 && d > 0:
		return gApp(";", gApp("->", g.goal(d-1), g.goal(d-1)), g.goal(d-1))
	case k < 10 && d > 0:
		return gApp("\\+", g.goal(d-1))
	case k < 11:
		return pick(g.r, []*gt{gInt(1), gFlt(1.5)}) // not callable
	default:
		n := 1 + g.r.Intn(3)
		args := make([]*gt, n)
		for i := range args {
			args[i] = g.term(2)
		}
		return gApp(pick(g.r, []string{"q", "r", "=", "call", "findall"}), args...)
	}
}

func (g *termGen) seq(d int) *gt {
	n := 1 + g.r.Intn(4)
	gs := make([]*gt, n)
	for i := range gs {
		gs[i] = g.goal(d)
	}
	t := gs[n-1]
	for i := n - 2; i >= 0; i-- {
		t = gApp(",", gs[i], t)
	}
	return t
}

func genC10Compile(r *rand.Rand, n int, tier string) []string {
	var out []string
	for i := 0; i < n; i++ {
		g := &termGen{r: r, nvars: 1 + r.Intn(6)}
		var head *gt
		if r.Intn(6) == 0 {
			head = gAtom("p")
		} else {
			k := 1 + r.Intn(3)
			args := make([]*gt, k)
			for j := range args {
				args[j] = g.term(3)
			}
			head = gApp("p", args...)
		}
		if r.Intn(25) == 0 {
			head = pick(r, []*gt{gInt(3), gVar(0), g.list(2)})
		}
		clause := head
		if r.Intn(5) > 0 {
			body := g.seq(2)
			for r.Intn(4) == 0 {
				body = gApp(";", g.seq(2), body) // top-level disjunction: one compiled clause per disjunct
			}
			clause = gApp(":-", head, body)
		}
		// some variables are bound when the clause is asserted
		var binds []string
		for v := 0; v < g.nvars; v++ {
			if r.Intn(4) == 0 {
				g2 := &termGen{r: r, nvars: g.nvars}
				t := g2.term(2)
				if gtOccurs(v, t) {
					continue
				}
				binds = append(binds, fmt.Sprintf("%d=%s", v, t))
			}
		}
		rec := make([]byte, 1+r.Intn(4))
		for j := range rec {
			rec[j] = c02Recipes[r.Intn(len(c02Recipes))]
		}
		out = append(out, fmt.Sprintf("%s | %s | %s", rec, clause, strings.Join(binds, " & ")))
	}
	return out
}

func runC10Compile(payload string) string {
	f := strings.Split(payload, " | ")
	rec, cl, bindS := f[0], f[1], ""
	if len(f) > 2 {
		bindS = f[2]
	}
	i, _ := newInterp("")
	vars := map[int]engine.Variable{}
	reps := map[string]bool{}
	var pre []engine.Term
	var lvars []engine.Variable
	b := &builder{i: i, vars: vars, recipe: rec, reps: reps, pre: &pre, lvars: &lvars}
	t := b.build(parseGT(cl))
	nbound := 0
	if strings.TrimSpace(bindS) != "" {
		for _, bs := range strings.Split(bindS, " & ") {
			kv := strings.SplitN(bs, "=", 2)
			var v int
			fmt.Sscanf(kv[0], "%d", &v)
			// cyclic bindings would make the clause infinite: bind only if the variable stays acyclic
			pre = append(pre, compound("=", b.variable(v), b.build(parseGT(kv[1]))))
			nbound++
		}
	}
	goal := engine.Term(atom("true"))
	for k := len(pre) - 1; k >= 0; k-- {
		goal = compound(",", pre[k], goal)
	}
	out := "setup-failed"
	_, err := solve(&i.VM, goal, 1, 5*time.Second, func(env *engine.Env) bool {
		okAcyclic := false
		_, _ = engine.AcyclicTerm(&i.VM, t, func(*engine.Env) *engine.Promise { okAcyclic = true; return engine.Bool(true) }, env).Force(ctxBg())
		if !okAcyclic {
			out = "cyclic"
			return false
		}
		vn := newVarNamer()
		ann := wire(engine.VerifRepTree(t, env), nil, vn)
		for _, l := range lvars {
			reps[engine.VerifTermRep(env.Resolve(l))] = true
		}
		cs, cerr := engine.VerifCompile(t, env)
		if cerr != nil {
			out = ann + " ;;; " + errWire(cerr)
			return false
		}
		var parts []string
		for _, c := range cs {
			var code []string
			for _, in := range c.Code {
				if in.Operand == nil {
					code = append(code, in.Op)
				} else {
					code = append(code, in.Op+" "+wire(in.Operand, nil, vn))
				}
			}
			var vs []string
			for _, v := range c.Vars {
				vs = append(vs, wire(v, nil, vn))
			}
			parts = append(parts, fmt.Sprintf("%s/%d vars=[%s] code=[%s] raw=%s", encName(c.Name), c.Arity,
				strings.Join(vs, " "), strings.Join(code, ", "), wire(c.Raw, nil, vn)))
		}
		out = ann + " ;;; " + strings.Join(parts, " ;; ")
		return false
	})
	if err != nil {
		out = "setup-" + errWire(err)
	}
	var rs []string
	for r := range reps {
		rs = append(rs, strings.ReplaceAll(r, " ", ""))
	}
	repTag := strings.Join(rs, "+")
	if repTag == "" {
		repTag = "none"
	}
	nt := 0
	if strings.Contains(cl, "C2::-") && (nbound > 0 || strings.Count(cl, "V0") > 1) {
		nt = 1
	}
	kind := "ok"
	if strings.Contains(out, ";;; err") {
		kind = "error"
	} else if !strings.Contains(out, ";;;") {
		kind = out
	}
	return out + fmt.Sprintf(" ### nt=%d bound=%d reps=%s result=%s", nt, nbound, repTag, strings.Fields(kind)[0])
}
