/-
  C17 — DCG translation preserves the language and the threading of the remainder.

  Property theorems only (helper lemmas: Proofs/DCG*.lean).  They are about `Model/DCG.lean`,
  which mirrors engine/dcg.go (expandDCG, dcgBody, dcgCBody + the dcgConstr table, dcgNonTerminal,
  dcgTerminals, Phrase), `expand` of engine/builtin.go and seqIterator of engine/iterator.go; the
  tie to the source is the correspondence stream `c17.expand` (and `c17.lang` for the meaning).
  The specification is `Spec/Grammar.lean`: the reader `Body.ofTerm`, the relation `Threads`, the
  reference translation `Body.tr`, the denotation `den`.
-/
import PrologVerif.Proofs.DCGItems
import PrologVerif.Proofs.DCGSemCall
import PrologVerif.Proofs.DCGSem2Top
import PrologVerif.Proofs.DCGSem2Phrase
import PrologVerif.Proofs.DCGSem2XTop
namespace PrologVerif.C17
open PrologVerif PrologVerif.DCG PrologVerif.Grammar

/-! ### the model computes the specified translation — for every term, errors included -/

/-- `dcgBody` = read the body, apply the reference translation; a malformed body raises the ISO
    error of its first malformed part (in left-to-right order), exactly as the reader says. -/
theorem C17_model_refines_spec (t s0 s : Term) (n : Nat) :
    dcgBody t s0 s n =
      (match Body.ofTerm t with
       | .ok b => .ok (b.tr s0 s n)
       | .error e => .error (.exc e)) :=
  body_spec t s0 s n

/-- `expandDCG` = read the rule, apply the reference translation of rules (with or without
    push-back); "not applicable" exactly when the term is not `-->`/2. -/
theorem C17_expand_refines_spec (t : Term) (n : Nat) :
    expandDCG t n =
      (match Rule.ofTerm t with
       | .ok r => .ok (r.tr n)
       | .error none => .error .notApplicable
       | .error (some e) => .error (.exc e)) :=
  expand_spec t n

/-- expand_term/2 (without a user term_expansion/2) never raises: a term that is not a well-formed
    grammar rule is returned as it is. -/
theorem C17_expand_total (t : Term) (n : Nat) :
    expand t n = (match Rule.ofTerm t with | .ok r => r.tr n | .error _ => (t, n)) := by
  unfold expand
  rw [expand_spec]
  unfold specRule
  cases h : Rule.ofTerm t with
  | ok r => simp
  | error e => cases e <;> simp

/-! ### threading -/

/-- **C17_threading.** Whenever `dcgBody` succeeds on a body with hidden arguments `s0` (input)
    and `s` (remainder), its result is a correct threading in the sense of `Threads`: every
    construct of the body receives a pair (in, out); the parts of a sequence are chained
    s0 → v → s through one hidden variable, both branches of an alternation get the same pair, the
    non-consuming constructs end in `in = out`, `\+` gets a remainder variable of its own; and the
    hidden variables are exactly the variables `n, …, n'-1` taken from the supply, each used for
    exactly one chain link (the list has no duplicates). -/
theorem C17_threading (t s0 s g : Term) (n n' : Nat) (h : dcgBody t s0 s n = .ok (g, n')) :
    ∃ b hs, Body.ofTerm t = .ok b ∧ Threads b s0 s hs g ∧ hs.Nodup ∧ (∀ v, v ∈ hs ↔ n ≤ v ∧ v < n') := by
  rw [body_spec, specBody] at h
  cases hb : Body.ofTerm t with
  | error e => simp [hb] at h
  | ok b =>
    simp only [hb, Except.ok.injEq] at h
    have h1 : g = (b.tr s0 s n).1 := by rw [h]
    have h2 : n' = n + b.nhid := by rw [← tr_next b s0 s n, h]
    refine ⟨b, List.range' n b.nhid, rfl, ?_, List.nodup_range', ?_⟩
    · rw [h1]; exact tr_threads b s0 s n
    · intro v; rw [List.mem_range'_1, h2]

example : dcgBody (Term.a2 "," (Term.list [.atom "x"]) (Term.a2 "," (.atom "!") (.atom "a"))) (.var 0) (.var 1) 2
    = .ok (Term.a2 "," (Term.a2 "=" (.var 0) (Term.list [.atom "x"] (.var 2)))
            (Term.a2 "," (Term.a2 "," (.atom "!") (Term.a2 "=" (.var 2) (.var 3)))
              (Term.mk "a" [.var 3, .var 1])), 4) := by decide +kernel

/-- every variable of the translation comes from the source body, is one of the two hidden
    arguments, or is a hidden variable drawn from the supply (so: nothing else is mentioned) -/
theorem C17_threading_vars (t s0 s g : Term) (n n' : Nat) (h : dcgBody t s0 s n = .ok (g, n'))
    (v : Nat) (hv : occT v g = true) :
    (∃ b, Body.ofTerm t = .ok b ∧ b.occ v = true) ∨ occT v s0 = true ∨ occT v s = true ∨ (n ≤ v ∧ v < n') := by
  obtain ⟨b, hs, hb, hth, _, hmem⟩ := C17_threading t s0 s g n n' h
  rcases threads_occ hth v hv with h | h | h | h
  · exact .inl ⟨b, hb, h⟩
  · exact .inr (.inl h)
  · exact .inr (.inr (.inl h))
  · exact .inr (.inr (.inr ((hmem v).1 h)))

/-- the non-consuming constructs `[]`, `{}`, `!`, `\+` hand their input on unchanged: their
    translation ends in `S0 = S`; the inner remainder of `\+` is the fresh variable `n`, which
    the rest of the translation cannot mention (it is not among s0, s, and every other hidden
    variable is drawn later from the supply). -/
theorem C17_nonconsuming (s0 s : Term) (n : Nat) :
    dcgBody (.atom "[]") s0 s n = .ok (Term.a2 "=" s0 s, n) ∧
    (∀ g, dcgBody (Term.a1 "{}" g) s0 s n = .ok (Term.a2 "," g (Term.a2 "=" s0 s), n)) ∧
    dcgBody (.atom "!") s0 s n = .ok (Term.a2 "," (.atom "!") (Term.a2 "=" s0 s), n) ∧
    (∀ t g' n', dcgBody t s0 (.var n) (n + 1) = .ok (g', n') →
      dcgBody (Term.a1 "\\+" t) s0 s n = .ok (Term.a2 "," (Term.a1 "\\+" g') (Term.a2 "=" s0 s), n')) := by
  refine ⟨by simp [body_spec, specBody, Body.ofTerm, Body.tr], ?_, by simp [body_spec, specBody, Body.ofTerm, Body.tr], ?_⟩
  · intro g; simp [body_spec, specBody, Body.ofTerm, Body.tr, Term.a1]
  · intro t g' n' h
    rw [body_spec, specBody] at h
    rw [body_spec, specBody]
    simp only [Term.a1, Body.ofTerm]
    cases hb : Body.ofTerm t with
    | error e => simp [hb] at h
    | ok b =>
      simp only [hb, Except.ok.injEq] at h
      simp [Body.tr, h, Term.a1]

/-- push-back: `Head, PB --> Body` becomes `Head(S0, S) :- Body(S0, S1), S = [PB… | S1]` with
    three distinct new variables S0 = n, S1 = n+1, S = n+2; without push-back
    `Head(S0, S) :- Body(S0, S)`. -/
theorem C17_pushback (nt pb b : Term) (n : Nat) :
    expandDCG (Term.a2 "-->" (Term.a2 "," nt pb) b) n =
      (match dcgNonTerminal nt (.var n) (.var (n + 2)) with
       | .error e => .error e
       | .ok head =>
         match dcgBody b (.var n) (.var (n + 1)) (n + 3) with
         | .error e => .error e
         | .ok (goal, n') =>
           match terminalsOf pb with
           | .error e => .error (.exc e)
           | .ok ts => .ok (Term.a2 ":-" head
               (Term.a2 "," goal (Term.a2 "=" (.var (n + 2)) (Term.list ts (.var (n + 1))))), n')) := by
  simp only [expandDCG, Term.a2, dcgTerminals_eq]
  cases dcgNonTerminal nt (.var n) (.var (n + 2)) with
  | error e => rfl
  | ok head =>
    cases dcgBody b (.var n) (.var (n + 1)) (n + 3) with
    | error e => rfl
    | ok r => cases terminalsOf pb <;> rfl

/-- **C17_expand_vs_phrase.** For a rule without push-back, expand_term/2 produces
    `Head(S0, S) :- G` where `G` is what `dcgBody` — the function phrase/3 applies at call time —
    makes of the body with the two new variables; and for ANY actual arguments `l`, `r`, the goal
    phrase/3 runs for the same body is that clause body with S0, S instantiated to `l`, `r`.
    So resolving a call `Head(l, r)` with the expanded clause runs exactly `phrase(Body, l, r)`. -/
theorem C17_expand_vs_phrase (h b c : Term) (n n' : Nat)
    (hh : ∀ nt pb, h ≠ Term.a2 "," nt pb) (hv : ∀ v, b ≠ .var v)
    (hx : expandDCG (Term.a2 "-->" h b) n = .ok (c, n'))
    (hfresh : ∀ v, occT v b = true → v < n) :
    ∃ head goal,
      c = Term.a2 ":-" head goal ∧
      dcgNonTerminal h (.var n) (.var (n + 2)) = .ok head ∧
      phraseGoal b (.var n) (.var (n + 2)) (n + 3) = .ok (goal, n') ∧
      ∀ l r, phraseGoal b l r (n + 3) = .ok (substT (inst n l (n + 2) r) goal, n') := by
  have hpg : ∀ l r k, phraseGoal b l r k = dcgBody b l r k := by
    intro l r k
    cases b with
    | var v => exact absurd rfl (hv v)
    | _ => rfl
  have hx' : expandDCG (Term.a2 "-->" h b) n =
      (match dcgNonTerminal h (.var n) (.var (n + 2)) with
       | .error e => .error e
       | .ok head =>
         match dcgBody b (.var n) (.var (n + 2)) (n + 3) with
         | .error e => .error e
         | .ok (body, n1) => .ok (Term.a2 ":-" head body, n1)) := by
    simp only [expandDCG, Term.a2]
    split
    · rename_i nt pb; exact absurd rfl (hh nt pb)
    · rfl
  rw [hx'] at hx
  cases hhead : dcgNonTerminal h (.var n) (.var (n + 2)) with
  | error e => simp [hhead] at hx
  | ok head =>
    cases hbody : dcgBody b (.var n) (.var (n + 2)) (n + 3) with
    | error e => simp [hhead, hbody] at hx
    | ok r =>
      obtain ⟨goal, n1⟩ := r
      simp only [hhead, hbody, Except.ok.injEq, Prod.mk.injEq] at hx
      obtain ⟨hc, hn⟩ := hx
      subst hn
      refine ⟨head, goal, hc.symm, rfl, (hpg _ _ _).trans hbody, ?_⟩
      intro l r
      rw [hpg]
      rw [body_spec, specBody] at hbody ⊢
      cases hb : Body.ofTerm b with
      | error e => simp [hb] at hbody
      | ok bb =>
        simp only [hb, Except.ok.injEq] at hbody ⊢
        have hg : goal = (bb.tr (.var n) (.var (n + 2)) (n + 3)).1 := by rw [hbody]
        have hn1 : n1 = (bb.tr (.var n) (.var (n + 2)) (n + 3)).2 := by rw [hbody]
        have hσ1 : ∀ w, n + 3 ≤ w → inst n l (n + 2) r w = .var w := by
          intro w hw; unfold inst; rw [if_neg (by omega), if_neg (by omega)]
        have hσ2 : ∀ w, bb.occ w = true → inst n l (n + 2) r w = .var w := by
          intro w hw
          have := hfresh w (ofTerm_occ w b bb hb hw)
          unfold inst; rw [if_neg (by omega), if_neg (by omega)]
        have hsub := tr_subst (inst n l (n + 2) r) bb (.var n) (.var (n + 2)) (n + 3) hσ1 hσ2
        have e1 : substT (inst n l (n + 2) r) (.var n) = l := by simp [substT, inst]
        have e2 : substT (inst n l (n + 2) r) (.var (n + 2)) = r := by simp [substT, inst]
        rw [e1, e2] at hsub
        rw [hg, hsub, hn1]
        apply Prod.ext
        · rfl
        · simp [tr_next]

/-! ### the compiled clause body: conjunctions are one sequence, `!` is a clause-level cut -/

/-- **seqIterator** (with the rotation of left-nested conjunctions, the repair of defect D16)
    yields exactly the ISO conjuncts of a clause body, however the conjunctions are nested. -/
theorem C17_conjunction_flat (t : Term) (fuel : Nat) (h : t.size ≤ fuel) :
    seqItems fuel t = conjuncts t :=
  seqItems_eq_conjuncts fuel t h

/-- a `!` that is an element of a grammar-body sequence (however the sequence is nested) is one
    of the goals the compiler sees inline in the translated body — it is compiled as a clause-level
    cut, not hidden inside a `','/2` goal (the consequence of the D16 repair for DCG bodies) -/
theorem C17_cut_clause_level (b : Body) (s0 s : Term) (n fuel : Nat) (h : Body.cut ∈ b.elems)
    (hf : (b.tr s0 s n).1.size ≤ fuel) : Term.atom "!" ∈ seqItems fuel (b.tr s0 s n).1 := by
  rw [seqItems_eq_conjuncts fuel _ hf]
  clear hf
  induction b generalizing s0 s n with
  | seq a b iha ihb =>
    simp only [Body.elems, List.mem_append] at h
    simp only [Body.tr, Term.a2, conjuncts, List.mem_append]
    rcases h with h | h
    · exact .inl (iha _ _ _ h)
    · exact .inr (ihb _ _ _ h)
  | cut => simp [Body.tr, Term.a2, conjuncts]
  | _ => simp [Body.elems] at h

example : Body.cut ∈ (Body.seq (.seq (.terminals [.atom "x"]) .cut) (.terminals [.atom "y"])).elems := by
  decide

/-! ### meaning: the translated clauses behave as the grammar says -/

/-- **full statement (open).**  For every grammar, body `q`, input `l` and remainder `r` (arbitrary
    terms — recognition, parsing with a remainder, generation), whenever the reference SLD
    evaluation (ISO cut semantics) of the TRANSLATED body in the TRANSLATED grammar and the
    denotation both finish within the fuel, they have the same answers — bindings of all variables
    of the query, i.e. recognition, argument binding and remainder — in the same order.
    (Evaluated on every case of the stream c17.lang by the driver: verdict SPEC-INCONSISTENT.)

    STATUS.  As written the statement is FALSE — its side conditions are too weak in two places that
    the driver never exercises (`C17_statement_illformed_rule_witness`: rules whose `nv` is too
    small; `C17_wf_statement_phrase_rule_witness`: a rule named `phrase`//1) — and with the side
    conditions repaired it is PROVED in full: `C17_translation_sound_complete_corrected` (end of
    this file).  It is kept here unchanged. -/
def C17_translation_sound_complete_statement : Prop :=
  ∀ (cfg : Cfg) (gr : Grammar) (q l r : Term) (b : Body) (n : Nat),
    cfg.engine = false → Body.ofTerm q = .ok b → (∀ ru ∈ gr, clash ru.name ru.args.length = false) →
    let k := max (boundT q) (max (boundT l) (boundT r))
    let st0 : St := { σ := [], next := k }
    let g := b.tr l r k
    let tmpl := Term.mk "t" [q, l, r]
    ∀ A D, solve cfg.uf (programOf gr) n g.1 { st0 with next := g.2 } = .ok A →
      Grammar.phrase cfg gr n b st0 l r = .ok D →
      (∀ o ∈ projected cfg.uf tmpl A.answers ++ projected cfg.uf tmpl D, o.isSome) →
      projected cfg.uf tmpl A.answers = projected cfg.uf tmpl D

/-- **C17_translation_sound_complete (fragment).**  Fragment (`SimpleSetting`): ISO mode; rules
    `name --> body` and `name, pushback --> body` without arguments, the push-back a list of ground
    terminals; bodies from `[]`, ground terminal lists, non-terminals without arguments (not named
    like a control construct), `,`, `;`/`|`, if-then-else, if-then, `\\+`, `!`, `{true}`, `{fail}`,
    `{!}` at any nesting, recursion allowed; a ground input list; enough unification fuel for the
    terminal lists.

    For every such grammar, body and input, with the SAME fuel `n` (nesting depth of non-terminal
    calls): the reference SLD evaluation (ISO cut semantics) of the translated body `Body(l, S)` in
    the translated grammar and the denotation ⟦b⟧ either both give no result (out of fuel /
    undefined non-terminal), or both succeed, report the same pending cut, have the same number of
    answers and, answer by answer in the same order, the remainder variable `S` denotes under the
    SLD answer substitution exactly the remainder list of the denotation (`Denotes`: every cell is
    reached by dereferencing — after a push-back `S` is bound to `[pb… | S1]` with `S1` bound
    further) — so the translated grammar recognises exactly the lists the denotation derives, with
    cuts, negations, conditions and push-back having exactly the same effect.  The denotation binds
    nothing. -/
theorem C17_translation_sound_complete_partial (cfg : Cfg) (gr : Grammar) (b : Body) (l : List Term)
    (h : SimpleSetting cfg gr b l) (n : Nat) :
    let st0 : St := { σ := [], next := 1 + b.nhid }
    match solve cfg.uf (programOf gr) n (b.tr (Term.list l) (.var 0) 1).1 st0,
          den cfg gr n true b st0 (Term.list l) with
    | .ok A, .ok D =>
      A.cut = D.cut ∧ A.answers.length = D.answers.length ∧
      ∀ p ∈ A.answers.zip D.answers, ∃ r, p.2 = (st0, Term.list r) ∧ Denotes p.1.σ (.var 0) r
    | .error _, .error _ => True
    | _, _ => False := by
  intro st0
  have P : Pre st0 (Term.list l) l 0 1 (1 + b.nhid) :=
    ⟨Denotes.of_list _ l h.input, by simp [st0], by simp [st0], by simp [st0]; omega,
      Nat.le_refl _, by omega, by simp [st0]⟩
  have hsim := level_sim cfg h.iso h.uf gr h.rules n b h.body.1 h.body.2 true st0 st0 (Term.list l) l 0 1 P
  cases hx : solve cfg.uf (programOf gr) n (b.tr (Term.list l) (.var 0) 1).1 st0 with
  | error e =>
    cases hy : den cfg gr n true b st0 (Term.list l) with
    | error e' => trivial
    | ok D => simp only [hx, hy, Rel] at hsim
  | ok A =>
    cases hy : den cfg gr n true b st0 (Term.list l) with
    | error e' => simp only [hx, hy, Rel] at hsim
    | ok D =>
      simp only [hx, hy, Rel] at hsim
      obtain ⟨c1, hall⟩ := hsim
      refine ⟨c1, hall.length_eq, fun p hp => ?_⟩
      obtain ⟨e1, r, e2, hd, _⟩ := hall.zip p hp
      exact ⟨r, Prod.ext e1 e2, hd⟩

example : SimpleSetting { uf := 256, engine := false } exampleGrammar (.nt "a" []) [.atom "x", .atom "z"] :=
  ⟨rfl, by decide, by decide, by decide, by decide⟩
example : SimpleSetting { uf := 256, engine := false } exampleGrammar (.seq (.nt "c" []) (.terminals [.atom "y"]))
    [.atom "x", .atom "x"] :=
  ⟨rfl, by decide, by decide, by decide, by decide⟩

/-- the program the reference evaluation runs IS the model's expansion of the rules: for every
    term that reads as a rule `r`, `expandDCG` (with the variable supply starting after the rule's
    own variables) returns exactly `Head :- Body` of the clause `r.clause` that `programOf` uses -/
theorem C17_program_is_expansion (rt : Term) (r : Rule) (h : Rule.ofTerm rt = .ok r) :
    expandDCG rt r.nv = .ok (Term.a2 ":-" r.clause.head r.clause.body, r.clause.nv) := by
  rw [expand_spec, specRule, h]
  simp only [Rule.clause, Rule.tr]
  cases r.pushback <;> simp [Term.a2]

/-- the fragment theorem stated for the MODEL's translation: for a body term `q` that reads as a
    body `b` of the fragment, `dcgBody q l S` succeeds, and the reference SLD evaluation of ITS
    result in the translated grammar has exactly the remainders of ⟦b⟧, in order (same fuel) -/
theorem C17_model_translation_sound_complete_partial (cfg : Cfg) (gr : Grammar) (q : Term) (b : Body)
    (l : List Term) (hq : Body.ofTerm q = .ok b) (h : SimpleSetting cfg gr b l) (n : Nat) :
    ∃ g n', dcgBody q (Term.list l) (.var 0) 1 = .ok (g, n') ∧
      match solve cfg.uf (programOf gr) n g { σ := [], next := n' },
            den cfg gr n true b { σ := [], next := n' } (Term.list l) with
      | .ok A, .ok D =>
        A.cut = D.cut ∧ A.answers.length = D.answers.length ∧
        ∀ p ∈ A.answers.zip D.answers, ∃ r, p.2.2 = Term.list r ∧ Denotes p.1.σ (.var 0) r
      | .error _, .error _ => True
      | _, _ => False := by
  refine ⟨(b.tr (Term.list l) (.var 0) 1).1, 1 + b.nhid, ?_, ?_⟩
  · rw [body_spec, specBody, hq]
    simp only [Except.ok.injEq]
    exact Prod.ext rfl (tr_next b _ _ 1)
  · have := C17_translation_sound_complete_partial cfg gr b l h n
    simp only at this
    cases hx : solve cfg.uf (programOf gr) n (b.tr (Term.list l) (.var 0) 1).1 { σ := [], next := 1 + b.nhid } <;>
      cases hy : den cfg gr n true b { σ := [], next := 1 + b.nhid } (Term.list l) <;>
      simp_all
    intro a bb t hp
    obtain ⟨r, e, hd⟩ := this.2.2 a bb t hp
    exact ⟨r, e.2, hd⟩

/-- altIterator splits a clause body into exactly the ISO top-level disjuncts (an if-then-else is
    one disjunct) -/
theorem C17_alternatives (t : Term) : altItems t = disjuncts t := by
  fun_induction disjuncts t <;> simp_all [altItems, DCG.isThen]

/-! the D16 witness, evaluated by the kernel on both sides of the theorem: with
    `a --> [x], !, [y].  a --> [x], [z].  …` the input [x,z] is NOT recognised (the cut commits
    to the first rule), [x,y] is, leaving [] -/
example : (den { uf := 16, engine := false } exampleGrammar 4 true (.nt "a" []) ⟨[], 1⟩
    (Term.list [.atom "x", .atom "z"])).map (·.answers.length) = .ok 0 := by decide +kernel
example : (solve 16 (programOf exampleGrammar) 4
    ((Body.nt "a" []).tr (Term.list [.atom "x", .atom "z"]) (.var 0) 1).1 ⟨[], 1⟩).map (·.answers.length) = .ok 0 := by
  decide +kernel
example : (den { uf := 16, engine := false } exampleGrammar 4 true (.nt "a" []) ⟨[], 1⟩
    (Term.list [.atom "x", .atom "y"])).map (·.answers.map (·.2)) = .ok [Term.nilT] := by decide +kernel

/-! ### meaning, beyond ground inputs: unification, arguments, `{G}`, call//N

  Stages A, B, C widen the fragment of `C17_translation_sound_complete_partial` toward the full
  statement.  The input `l` is now ANY term (a list, a partial list `[hello, W | T]`, a variable:
  generation), terminals and push-backs may contain variables, so both sides unify and bind.

  Shape of the three theorems.  `q` is the body term, `b` what it reads as, `k` the first variable
  not in `q`, `l`; the remainder is the fresh variable `S = .var k`.  With the SAME fuel `n`
  (nesting depth of calls) and the same unification fuel `cfg.uf`, the reference SLD evaluation of
  the translated body `Body(l, S)` in the translated grammar and the denotation ⟦b⟧ on `l`

   * both give no result, or
   * both succeed, with the same pending cut, the same number of answers and, answer by answer in
     the same order, the same instance of `t(q, l, Remainder)` up to renaming of the variables that
     are left (`Term.canon`, as `projected` does): the bindings of the query's variables, of the
     variables of the input, and the remainder — on the SLD side `S` under the answer substitution,
     on the denotation's side its remainder term under its answer substitution; or
   * the SLD side alone runs out of UNIFICATION fuel (`.error .fuel` against `.ok`): it reaches the
     same subterms deeper (one unification `S0 = [t1,…,tn | S]`, one unification of the whole
     head, instead of n resp. arity-many separate ones), so the symmetric "both or neither" is
     FALSE here — `C17_sld_needs_more_unification_fuel_witness`.  The converse never happens: if the
     SLD side succeeds so does the denotation.

  How it is proved (Proofs/DCGSem2*.lean).  The two sides use different variables and different
  stores, so the invariant is a bisimulation up to a one-to-one correspondence of the unbound
  variables (`World`, `World.Eq`); both sides perform the same unifications in the same order and
  orientation on related terms, and related inputs give related outcomes (`unify_sim`) — no mgu
  theory.  Not lock-step, and handled by explicit world steps: the hidden variables (bound on the
  SLD side only), `S0 = [t… | S]` against an unbound `S0` (one binding against one per list cell:
  `World.gen`), renaming apart with two different supplies (`World.addVars`).
-/

/-- **Stage A**: ISO mode; rules `name --> body`, `name, pushback --> body` WITHOUT arguments;
    terminals and push-backs ARBITRARY terms (variables included, shared within a rule); bodies
    from `[]`, terminal lists, argument-free non-terminals, `,`, `;`/`|`, if-then(-else), `\\+`,
    `!`, `{true}`, `{fail}`, `{!}`; rules well-formed (`Rule.wf`: variables below `nv`, as
    `Rule.ofTerm` delivers them); the input list ANY term. -/
theorem C17_translation_sound_complete_A (cfg : Cfg) (gr : Grammar) (q l : Term) (b : Body)
    (hq : Body.ofTerm q = .ok b) (h : SettingA cfg gr b) (n : Nat) :
    let k := max (boundT q) (boundT l)
    match solve cfg.uf (programOf gr) n (b.tr l (.var k) (k + 1)).1 ⟨[], k + 1 + b.nhid⟩,
          den cfg gr n true b ⟨[], k + 1⟩ l with
    | .ok A, .ok D =>
      A.cut = D.cut ∧ A.answers.length = D.answers.length ∧
      ∀ p ∈ A.answers.zip D.answers,
        (resolve cfg.uf p.1.σ (Term.mk "t" [q, l, .var k])).map Term.canon =
          (resolve cfg.uf p.2.1.σ (Term.mk "t" [q, l, p.2.2])).map Term.canon
    | .error _, .error _ => True
    | .error e, .ok _ => e = .fuel
    | .ok _, .error _ => False := by
  intro k
  exact Agrees.strict ((h.toB.toC true).agrees q l hq n)

/-- **Stage B**: as stage A, and non-terminals and rule heads WITH ARGUMENTS (any terms): head
    unification against the call, rules renamed apart on both sides with their own supplies. -/
theorem C17_translation_sound_complete_B (cfg : Cfg) (gr : Grammar) (q l : Term) (b : Body)
    (hq : Body.ofTerm q = .ok b) (h : SettingB cfg gr b) (n : Nat) :
    let k := max (boundT q) (boundT l)
    match solve cfg.uf (programOf gr) n (b.tr l (.var k) (k + 1)).1 ⟨[], k + 1 + b.nhid⟩,
          den cfg gr n true b ⟨[], k + 1⟩ l with
    | .ok A, .ok D =>
      A.cut = D.cut ∧ A.answers.length = D.answers.length ∧
      ∀ p ∈ A.answers.zip D.answers,
        (resolve cfg.uf p.1.σ (Term.mk "t" [q, l, .var k])).map Term.canon =
          (resolve cfg.uf p.2.1.σ (Term.mk "t" [q, l, p.2.2])).map Term.canon
    | .error _, .error _ => True
    | .error e, .ok _ => e = .fuel
    | .ok _, .error _ => False := by
  intro k
  exact Agrees.strict ((h.toC true).agrees q l hq n)

/-- **Stage C**: as stage B, and `{G}` with `G` built from true, fail, `!`, `=`, `\\=`, `==`, `\\==`
    and conjunctions (what the generator of c17.lang uses), and `call//N` (N ≥ 2) whose closure is
    a non-variable term at translation time (functor not `call`/`phrase`). -/
theorem C17_translation_sound_complete_C (cfg : Cfg) (gr : Grammar) (q l : Term) (b : Body)
    (hq : Body.ofTerm q = .ok b) (h : SettingC true cfg gr b) (n : Nat) :
    let k := max (boundT q) (boundT l)
    match solve cfg.uf (programOf gr) n (b.tr l (.var k) (k + 1)).1 ⟨[], k + 1 + b.nhid⟩,
          den cfg gr n true b ⟨[], k + 1⟩ l with
    | .ok A, .ok D =>
      A.cut = D.cut ∧ A.answers.length = D.answers.length ∧
      ∀ p ∈ A.answers.zip D.answers,
        (resolve cfg.uf p.1.σ (Term.mk "t" [q, l, .var k])).map Term.canon =
          (resolve cfg.uf p.2.1.σ (Term.mk "t" [q, l, p.2.2])).map Term.canon
    | .error _, .error _ => True
    | .error e, .ok _ => e = .fuel
    | .ok _, .error _ => False := by
  intro k
  exact Agrees.strict (h.agrees q l hq n)

/-- **Stage C, closures computed at run time — and everything else**: `SettingC false` is the
    non-strict fragment `Body.ok false`: `call//N` with ANY closure (a variable bound by the time
    the call is reached, …), and in fact every body the reader delivers (call//1, phrase//1,
    variable bodies, any goal in `{}`, any non-terminal name).  In the shape of the open
    statement: whenever both sides succeed they agree.  ("Both or neither" cannot be claimed: a
    closure can evaluate to the atom `call` or `phrase`, then the SLD side runs call/3 resp.
    phrase/3 where the denotation finds no non-terminal and gives up; the denotation gives up on
    goals in `{}` it does not cover; call//1 costs the SLD side one level of fuel more.) -/
theorem C17_translation_sound_complete_C_dynamic (cfg : Cfg) (gr : Grammar) (q l : Term) (b : Body)
    (hq : Body.ofTerm q = .ok b) (h : SettingC false cfg gr b) (n : Nat) :
    let k := max (boundT q) (boundT l)
    ∀ A D, solve cfg.uf (programOf gr) n (b.tr l (.var k) (k + 1)).1 ⟨[], k + 1 + b.nhid⟩ = .ok A →
      den cfg gr n true b ⟨[], k + 1⟩ l = .ok D →
      A.cut = D.cut ∧ A.answers.length = D.answers.length ∧
      ∀ p ∈ A.answers.zip D.answers,
        (resolve cfg.uf p.1.σ (Term.mk "t" [q, l, .var k])).map Term.canon =
          (resolve cfg.uf p.2.1.σ (Term.mk "t" [q, l, p.2.2])).map Term.canon := by
  intro k A D hA hD
  have := h.agrees q l hq n
  rw [hA, hD] at this
  exact this

/-- **the open statement for a fresh third argument.**  Exactly the conclusion of
    `C17_translation_sound_complete_statement` — phrase/3 of the specification (`Grammar.phrase`:
    parse, then unify what is left with `r`), the answers projected on `t(q, l, r)` with
    `projected` — in the setting of stage C with arbitrary closures, when `r` is a variable that
    occurs neither in `q` nor in `l` (parsing with a remainder, recognition of a prefix,
    generation).  What is missing for the full statement: see the end of this file. -/
theorem C17_translation_sound_complete_fresh_remainder (cfg : Cfg) (gr : Grammar) (q l : Term) (b : Body)
    (v n : Nat) (hq : Body.ofTerm q = .ok b) (h : SettingC false cfg gr b)
    (hv : max (boundT q) (boundT l) ≤ v) :
    let r := Term.var v
    let k := max (boundT q) (max (boundT l) (boundT r))
    let st0 : St := { σ := [], next := k }
    let g := b.tr l r k
    let tmpl := Term.mk "t" [q, l, r]
    ∀ A D, solve cfg.uf (programOf gr) n g.1 { st0 with next := g.2 } = .ok A →
      Grammar.phrase cfg gr n b st0 l r = .ok D →
      projected cfg.uf tmpl A.answers = projected cfg.uf tmpl D := by
  intro r k st0 g tmpl A D hA hD
  have hk : k = v + 1 := by
    show max (boundT q) (max (boundT l) (v + 1)) = v + 1
    omega
  have hg2 : g.2 = v + 1 + b.nhid := by
    show (b.tr l r k).2 = _
    rw [tr_next, hk]
  have hA' : solve cfg.uf (programOf gr) n (b.tr l (.var v) (v + 1)).1 ⟨[], v + 1 + b.nhid⟩ = .ok A := by
    rw [← hA]
    show _ = solve cfg.uf (programOf gr) n (b.tr l r k).1 ⟨[], g.2⟩
    rw [hg2, hk]
  have hD' : Grammar.phrase cfg gr n b ⟨[], v + 1⟩ l (.var v) = .ok D := by
    rw [← hD]
    show _ = Grammar.phrase cfg gr n b ⟨[], k⟩ l r
    rw [hk]
  exact phrase_agrees cfg h.iso gr (fun r hr => Rule.okC_good (List.all_eq_true.1 h.rules r hr)) q l b hq h.body v
    (by omega) (by omega) n A D hA' hD'

/-- **Stage D: the open statement for ANY third argument `r`** (recognition `r = []`, a partial
    list, a variable shared with the input or the body, …), in the setting of stage C with
    arbitrary closures: exactly the conclusion of `C17_translation_sound_complete_statement`
    (without needing its hypothesis that the answers can be printed).

    The translation hands `r` down to the LAST goal of every branch, where it is unified as soon
    as the remainder is known, while the specification parses first and unifies every remainder
    with `r` afterwards.  The proof moves the specification's final unification inside the
    combinators of the denotation (`post`, Proofs/DCGSem2Post.lean: towards the last part of a
    sequence, into both branches of an alternation, into the branches of an if-then-else, into the
    rules of a non-terminal) and runs the bisimulation with the remainder argument an arbitrary
    term (Proofs/DCGSem2X*.lean); the cut always precedes the unification with `r`, which is why
    the two orders give the same answers.  With push-back the clause ends in `S = [pb… | S1]`
    while phrase/3 unifies `[pb… | rem]` with `r`: the same unification with its arguments in
    the opposite order (`unify_simF`). -/
theorem C17_translation_sound_complete_D (cfg : Cfg) (gr : Grammar) (q l r : Term) (b : Body) (n : Nat)
    (hq : Body.ofTerm q = .ok b) (h : SettingC false cfg gr b) :
    let k := max (boundT q) (max (boundT l) (boundT r))
    let st0 : St := { σ := [], next := k }
    let g := b.tr l r k
    let tmpl := Term.mk "t" [q, l, r]
    ∀ A D, solve cfg.uf (programOf gr) n g.1 { st0 with next := g.2 } = .ok A →
      Grammar.phrase cfg gr n b st0 l r = .ok D →
      projected cfg.uf tmpl A.answers = projected cfg.uf tmpl D := by
  intro k st0 g tmpl A D hA hD
  have hg2 : g.2 = k + b.nhid := tr_next b l r k
  have hA' : solve cfg.uf (programOf gr) n (b.tr l r k).1 ⟨[], k + b.nhid⟩ = .ok A := by
    rw [← hA]
    show _ = solve cfg.uf (programOf gr) n (b.tr l r k).1 ⟨[], g.2⟩
    rw [hg2]
  exact phrase_agreesX cfg h.iso gr (fun r hr => Rule.okC_good (List.all_eq_true.1 h.rules r hr)) q l r b hq h.body k
    (by omega) (by omega) (by omega) n A D hA' hD

/-! non-vacuity: the settings hold of concrete grammars, and both sides do succeed there (the
    kernel evaluates them) -/

/-- stage A: `dup, ab` against the partial list `[U, b, a | T]`:  U = b, then `a`, then the
    unbound `T` is instantiated to `[P | R]` (generation) and `P` is pushed back: one answer,
    remainder `[P | R]` -/
example : SettingA {} exampleGrammarA (.seq (.nt "dup" []) (.nt "ab" [])) := by decide
example :
    let q := Term.a2 "," (.atom "dup") (.atom "ab")
    let l := Term.list [.var 0, .atom "b", .atom "a"] (.var 1)
    Body.ofTerm q = .ok (.seq (.nt "dup" []) (.nt "ab" [])) ∧
    (solve 256 (programOf exampleGrammarA) 5 ((Body.seq (.nt "dup" []) (.nt "ab" [])).tr l (.var 2) 3).1 ⟨[], 4⟩).map
        (fun o => o.answers.map fun st => (resolve 256 st.σ (Term.mk "t" [l, .var 2])).map Term.canon) =
      .ok [some (Term.mk "t" [Term.list [.atom "b", .atom "b", .atom "a", .var 0] (.var 1), Term.list [.var 0] (.var 1)])] ∧
    (den {} exampleGrammarA 5 true (.seq (.nt "dup" []) (.nt "ab" [])) ⟨[], 3⟩ l).map
        (fun o => o.answers.map fun a => (resolve 256 a.1.σ (Term.mk "t" [l, a.2])).map Term.canon) =
      .ok [some (Term.mk "t" [Term.list [.atom "b", .atom "b", .atom "a", .var 0] (.var 1), Term.list [.var 0] (.var 1)])] := by
  decide +kernel

/-- stage B: `greeting(X)` against `[hello, W | T]`: two answers, X = world with W = world, and
    X = W; the remainder is `T` -/
example : SettingB {} exampleGrammarB (.nt "greeting" [.var 0]) := by decide
example :
    let q := Term.mk "greeting" [.var 0]
    let l := Term.list [.atom "hello", .var 1] (.var 2)
    Body.ofTerm q = .ok (.nt "greeting" [.var 0]) ∧
    (solve 256 (programOf exampleGrammarB) 5 ((Body.nt "greeting" [.var 0]).tr l (.var 3) 4).1 ⟨[], 4⟩).map
        (fun o => o.answers.map fun st => (resolve 256 st.σ (Term.mk "t" [q, l, .var 3])).map Term.canon) =
      .ok [some (Term.mk "t" [Term.mk "greeting" [.atom "world"], Term.list [.atom "hello", .atom "world"] (.var 0), .var 0]),
           some (Term.mk "t" [Term.mk "greeting" [.var 0], Term.list [.atom "hello", .var 0] (.var 1), .var 1])] ∧
    (den {} exampleGrammarB 5 true (.nt "greeting" [.var 0]) ⟨[], 4⟩ l).map
        (fun o => o.answers.map fun a => (resolve 256 a.1.σ (Term.mk "t" [q, l, a.2])).map Term.canon) =
      .ok [some (Term.mk "t" [Term.mk "greeting" [.atom "world"], Term.list [.atom "hello", .atom "world"] (.var 0), .var 0]),
           some (Term.mk "t" [Term.mk "greeting" [.var 0], Term.list [.atom "hello", .var 0] (.var 1), .var 1])] := by
  decide +kernel

/-- … and in generation mode (the input an unbound variable): the same two answers with
    `l = [hello, world | R]`, `l = [hello, N | R]` -/
example :
    (solve 256 (programOf exampleGrammarB) 5 ((Body.nt "greeting" [.var 0]).tr (.var 1) (.var 2) 3).1 ⟨[], 3⟩).map
        (fun o => o.answers.map fun st => (resolve 256 st.σ (Term.mk "t" [.var 0, .var 1, .var 2])).map Term.canon) =
    (den {} exampleGrammarB 5 true (.nt "greeting" [.var 0]) ⟨[], 3⟩ (.var 1)).map
        (fun o => o.answers.map fun a => (resolve 256 a.1.σ (Term.mk "t" [.var 0, .var 1, a.2])).map Term.canon) ∧
    (den {} exampleGrammarB 5 true (.nt "greeting" [.var 0]) ⟨[], 3⟩ (.var 1)).map (·.answers.length) = .ok 2 := by
  decide +kernel

/-- stage C: `pair(A, B)` (static closures, `{X = f(Y)}`, `{A \\== B}`) against `[x, V | T]`: one answer
    A = f(x), B = f(V); against `[x, x]`: none (`f(x) \\== f(x)` fails) -/
example : SettingC true {} (exampleGrammarC.take 2) (.nt "pair" [.var 0, .var 1]) := by decide
example : SettingC false {} exampleGrammarC (.nt "twice" [.atom "item", .var 0, .var 1]) := by decide
example :
    let l := Term.list [.atom "x", .var 2] (.var 3)
    (solve 256 (programOf exampleGrammarC) 6 ((Body.nt "pair" [.var 0, .var 1]).tr l (.var 4) 5).1 ⟨[], 5⟩).map
        (fun o => o.answers.map fun st => (resolve 256 st.σ (Term.mk "t" [.var 0, .var 1, l, .var 4])).map Term.canon) =
      .ok [some (Term.mk "t" [Term.mk "f" [.atom "x"], Term.mk "f" [.var 0], Term.list [.atom "x", .var 0] (.var 1), .var 1])] ∧
    (den {} exampleGrammarC 6 true (.nt "pair" [.var 0, .var 1]) ⟨[], 5⟩ l).map
        (fun o => o.answers.map fun a => (resolve 256 a.1.σ (Term.mk "t" [.var 0, .var 1, l, a.2])).map Term.canon) =
      .ok [some (Term.mk "t" [Term.mk "f" [.atom "x"], Term.mk "f" [.var 0], Term.list [.atom "x", .var 0] (.var 1), .var 1])] ∧
    (den {} exampleGrammarC 6 true (.nt "twice" [.atom "item", .var 0, .var 1]) ⟨[], 5⟩ l).map (·.answers.length) = .ok 1 ∧
    (den {} exampleGrammarC 6 true (.nt "pair" [.var 0, .var 1]) ⟨[], 5⟩ (Term.list [.atom "x", .atom "x"])).map
        (·.answers.length) = .ok 0 := by
  decide +kernel

/-! ### findings about the STATEMENTS (none about the translation) -/

/-- **the symmetric shape "both sides error or both succeed" is false beyond ground terminals of
    bounded size**: with unification fuel 3 the denotation consumes `[x, x, x]` (three unifications
    of depth 1) while the ONE unification `[x,x,x] = [x,x,x | S]` of the translation runs out of
    fuel at depth 4.  (In `C17_translation_sound_complete_partial` the hypothesis `Body.need ≤ uf`
    excludes this; with variables no static bound exists.)  Not a defect: fuel is an artefact of
    the two evaluators. -/
theorem C17_sld_needs_more_unification_fuel_witness :
    let b := Body.terminals [.atom "x", .atom "x", .atom "x"]
    let l := Term.list [.atom "x", .atom "x", .atom "x"]
    solve 3 (programOf []) 5 (b.tr l (.var 0) 1).1 ⟨[], 1⟩ = .error .fuel ∧
    (den { uf := 3 } [] 5 true b ⟨[], 1⟩ l).map (·.answers.map (·.2)) = .ok [Term.nilT] := by
  decide +kernel

/-- **the open statement, as written, is FALSE**: it quantifies over every `gr : Grammar`, also
    over rules whose field `nv` is smaller than their variables (`Rule.ofTerm` never produces such
    a rule, and the driver only evaluates the statement on rules it read).  For
    `a(X) --> [X]` with `nv = 0` the reference translation takes variable 0 as `S0`:
    `a(V0, V0, V2) :- V0 = [V0 | V2]`; against `[x]` the SLD side fails, the denotation (which
    renames with the same too small `nv`) answers `X = x`.  Neither engine/dcg.go (it draws its
    variables from the engine's supply) nor the denotation is at fault: the statement lacks the
    hypothesis `Rule.wf`. -/
theorem C17_statement_illformed_rule_witness : ¬ C17_translation_sound_complete_statement := by
  intro h
  have hA : solve 256 (programOf illFormedGrammar) 5
      ((Body.nt "a" [.var 0]).tr (Term.list [.atom "x"]) (.var 1) 2).1 ⟨[], 2⟩ = .ok ⟨[], false⟩ := by
    decide +kernel
  have hD : Grammar.phrase {} illFormedGrammar 5 (.nt "a" [.var 0]) ⟨[], 2⟩ (Term.list [.atom "x"]) (.var 1) =
      .ok [⟨[(1, Term.nilT), (2, .atom "x"), (0, .var 2)], 2⟩] := by
    decide +kernel
  have := h {} illFormedGrammar (Term.mk "a" [.var 0]) (Term.list [.atom "x"]) (.var 1) (.nt "a" [.var 0]) 5
    rfl (by decide +kernel) (by decide +kernel) ⟨[], false⟩ _ hA hD (by decide +kernel)
  revert this
  decide +kernel

/-- the open statement with the hypothesis `Rule.wf` added — still FALSE, see the next witness -/
def C17_translation_sound_complete_wf_statement : Prop :=
  ∀ (cfg : Cfg) (gr : Grammar) (q l r : Term) (b : Body) (n : Nat),
    cfg.engine = false → Body.ofTerm q = .ok b → (∀ ru ∈ gr, clash ru.name ru.args.length = false) →
    (∀ ru ∈ gr, ru.wf = true) →
    let k := max (boundT q) (max (boundT l) (boundT r))
    let st0 : St := { σ := [], next := k }
    let g := b.tr l r k
    let tmpl := Term.mk "t" [q, l, r]
    ∀ A D, solve cfg.uf (programOf gr) n g.1 { st0 with next := g.2 } = .ok A →
      Grammar.phrase cfg gr n b st0 l r = .ok D →
      (∀ o ∈ projected cfg.uf tmpl A.answers ++ projected cfg.uf tmpl D, o.isSome) →
      projected cfg.uf tmpl A.answers = projected cfg.uf tmpl D

/-- **the hypothesis `clash` of the open statement misses `phrase`//1** (and is otherwise too
    coarse: `special`).  With the well-formed rules
        phrase(X) --> [].        x --> [x].
    the body `call(phrase, x)` on `[x]`: the translation calls `phrase(x, [x], S)`, which is
    phrase/3 — it parses `x` and leaves `[]`; the denotation takes `phrase`//1 for the user's
    non-terminal and leaves `[x]`.  Both succeed, with different remainders.  On a real system the
    rule `phrase(X) --> []` would be a clause for the built-in phrase/3 (a permission error), so
    this is a gap of the statement's side condition (and of the denotation, which should not look
    up a rule named like a built-in), not of engine/dcg.go. -/
theorem C17_wf_statement_phrase_rule_witness : ¬ C17_translation_sound_complete_wf_statement := by
  intro h
  let gr : Grammar :=
    [ { name := "phrase", args := [.var 0], pushback := none, body := .eps, nv := 1 },
      { name := "x", args := [], pushback := none, body := .terminals [.atom "x"], nv := 0 } ]
  have hA : solve 256 (programOf gr) 8
      ((Body.nt "call" [.atom "phrase", .atom "x"]).tr (Term.list [.atom "x"]) (.var 0) 1).1 ⟨[], 1⟩ =
      .ok ⟨[⟨[(3, Term.nilT), (0, .var 3), (1, Term.list [.atom "x"])], 4⟩], false⟩ := by
    decide +kernel
  have hD : Grammar.phrase {} gr 8 (.nt "call" [.atom "phrase", .atom "x"]) ⟨[], 1⟩ (Term.list [.atom "x"]) (.var 0) =
      .ok [⟨[(0, Term.list [.atom "x"]), (1, .atom "x")], 2⟩] := by
    decide +kernel
  have := h {} gr (Term.mk "call" [.atom "phrase", .atom "x"]) (Term.list [.atom "x"]) (.var 0)
    (.nt "call" [.atom "phrase", .atom "x"]) 8 rfl (by decide +kernel) (by decide +kernel) (by decide +kernel)
    _ _ hA hD (by decide +kernel)
  revert this
  decide +kernel

/-- **full statement, corrected.**  The open statement with its side conditions repaired:
    rules are well-formed (`Rule.wf`: the variables of a rule are below its `nv`), no rule is named
    like a control construct or built-in of the reference evaluation at the arity the translation
    gives it (`special`: `'='`//0, `','`//0, …, `call`//N, `phrase`//1 — instead of `clash`), and
    rule bodies are as the reader delivers them (`Body.ok false`: an alternation never has a bare
    if-then as its first branch, `( c -> t ; e )` is an if-then-else).  Every rule read by
    `Rule.ofTerm` satisfies the first and the third (`C17_read_rules_wellformed`).  The hypothesis
    that the answers can be printed is not needed. -/
def C17_translation_sound_complete_corrected_statement : Prop :=
  ∀ (cfg : Cfg) (gr : Grammar) (q l r : Term) (b : Body) (n : Nat),
    cfg.engine = false → Body.ofTerm q = .ok b →
    (∀ ru ∈ gr, special ru.name ru.args.length = false ∧ ru.wf = true ∧ ru.body.ok false = true) →
    let k := max (boundT q) (max (boundT l) (boundT r))
    let st0 : St := { σ := [], next := k }
    let g := b.tr l r k
    let tmpl := Term.mk "t" [q, l, r]
    ∀ A D, solve cfg.uf (programOf gr) n g.1 { st0 with next := g.2 } = .ok A →
      Grammar.phrase cfg gr n b st0 l r = .ok D →
      projected cfg.uf tmpl A.answers = projected cfg.uf tmpl D

/-- **C17_translation_sound_complete (stage E: the full statement, corrected, PROVED).**  For
    EVERY grammar (side conditions above), EVERY body the reader delivers — terminals with variables,
    non-terminals with arguments, `,`, `;`, `|`, if-then(-else), `\\+`, `!`, `{G}` with any `G`,
    call//N with any closure, call//1, phrase//1, variable bodies, push-back —, EVERY input `l` and
    EVERY third argument `r` (recognition, parsing with a remainder, generation, partial lists,
    shared variables), every fuel: whenever the reference SLD evaluation (ISO cut semantics) of the
    TRANSLATED body in the TRANSLATED grammar and phrase/3 of the specification both give a result,
    they have the same answers — the same bindings of all variables of `q`, `l`, `r` up to
    renaming of the variables that are left — in the same order.

    Where the denotation does not cover a construct (a goal in `{}` outside true, fail, `!`, `=`,
    `\\=`, `==`, `\\==`, `,`; a non-terminal named like a control construct; a body that is not
    callable at run time) it gives up when it reaches it, and the statement is vacuous for that
    query — as the open statement intended.  call//1 costs the SLD side one level of fuel more than
    the denotation (`solve_mono` bridges it). -/
theorem C17_translation_sound_complete_corrected : C17_translation_sound_complete_corrected_statement := by
  intro cfg gr q l r b n hiso hq hgr k st0 g tmpl A D hA hD
  have hg2 : g.2 = k + b.nhid := tr_next b l r k
  have hA' : solve cfg.uf (programOf gr) n (b.tr l r k).1 ⟨[], k + b.nhid⟩ = .ok A := by
    rw [← hA]
    show _ = solve cfg.uf (programOf gr) n (b.tr l r k).1 ⟨[], g.2⟩
    rw [hg2]
  exact phrase_agreesX cfg hiso gr (fun ru hru => ⟨(hgr ru hru).1, (hgr ru hru).2.2, (hgr ru hru).2.1⟩) q l r b hq
    (ofTerm_ok q b hq) k
    (by omega) (by omega) (by omega) n A D hA' hD

/-- non-vacuity of the corrected statement: `t([Z])` with `t(B) --> call(a), phrase(b), B.` against
    `[x, y, z]` and the third argument `[]` (recognition): both sides succeed with the one answer
    Z = z -/
example :
    let q := Term.mk "t" [Term.list [.var 0]]
    let b := Body.nt "t" [Term.list [.var 0]]
    let l := Term.list [.atom "x", .atom "y", .atom "z"]
    Body.ofTerm q = .ok b ∧
    (∀ ru ∈ exampleGrammarE, special ru.name ru.args.length = false ∧ ru.wf = true ∧ ru.body.ok false = true) ∧
    (solve 256 (programOf exampleGrammarE) 8 (b.tr l Term.nilT 1).1 ⟨[], 1⟩).map
        (fun o => projected 256 (Term.mk "t" [q, l, Term.nilT]) o.answers) =
      .ok [some (Term.mk "t" [Term.mk "t" [Term.list [.atom "z"]], l, Term.nilT])] ∧
    (Grammar.phrase {} exampleGrammarE 8 b ⟨[], 1⟩ l Term.nilT).map
        (fun o => projected 256 (Term.mk "t" [q, l, Term.nilT]) o) =
      .ok [some (Term.mk "t" [Term.mk "t" [Term.list [.atom "z"]], l, Term.nilT])] := by
  decide +kernel

/-- every rule the reader delivers satisfies the side conditions `Rule.wf` and `Body.ok false` -/
theorem C17_read_rules_wellformed (rt : Term) (r : Rule) (h : Rule.ofTerm rt = .ok r) :
    r.wf = true ∧ r.body.ok false = true :=
  ofTerm_rule_wf rt r h

/-! ### what is left

  * `cfg.engine = true` (the engine's cut barriers for nested `;`/`->`, finding C17-K1): the
    reference SLD evaluation has ISO cut semantics only; not part of the open statement either.
  * "Both sides give no result, or both succeed" (the strict shape of stages A–C) is proved for the
    fragment of stage C with closures known at translation time; beyond it the two evaluators give
    up at different points (the denotation on constructs it does not cover, the SLD side one level
    of fuel earlier in call//1, and it needs more unification fuel), so only "whenever both
    succeed they agree" can hold — `C17_sld_needs_more_unification_fuel_witness`.
  * The VM that executes the translated clauses is not the reference SLD evaluation (C01/C03; the
    stream c17.lang observes it).
-/

end PrologVerif.C17
