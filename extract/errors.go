package main

// ErrorAtoms.lean: the vocabulary tables and the constructors of engine/exception.go
// (plus the one error term built outside it: Catch's system_error wrapper, and the
// format string of promise.go panicError), read from the Go syntax tree.

import (
	"fmt"
	"go/ast"
	"go/parser"
	"go/token"
	"path/filepath"
	"sort"
	"strconv"
	"strings"
)

func init() {
	extractors = append(extractors, extractor{file: "ErrorAtoms.lean", run: genErrorAtoms})
}

// atomConstants maps Go identifiers `atomX = NewAtom("x")` of the engine package to their text.
func atomConstants(repo string) (map[string]string, error) {
	fset := token.NewFileSet()
	out := map[string]string{}
	files, err := filepath.Glob(filepath.Join(repo, "engine", "*.go"))
	if err != nil {
		return nil, err
	}
	for _, fn := range files {
		if strings.HasSuffix(fn, "_test.go") {
			continue
		}
		f, err := parser.ParseFile(fset, fn, nil, 0)
		if err != nil {
			return nil, err
		}
		for _, d := range f.Decls {
			gd, ok := d.(*ast.GenDecl)
			if !ok || gd.Tok != token.VAR {
				continue
			}
			for _, s := range gd.Specs {
				vs := s.(*ast.ValueSpec)
				for i, n := range vs.Names {
					if i >= len(vs.Values) {
						continue
					}
					if s, ok := newAtomLit(vs.Values[i]); ok {
						out[n.Name] = s
					}
				}
			}
		}
	}
	return out, nil
}

// newAtomLit recognises NewAtom("lit").
func newAtomLit(e ast.Expr) (string, bool) {
	c, ok := e.(*ast.CallExpr)
	if !ok || len(c.Args) != 1 {
		return "", false
	}
	id, ok := c.Fun.(*ast.Ident)
	if !ok || id.Name != "NewAtom" {
		return "", false
	}
	bl, ok := c.Args[0].(*ast.BasicLit)
	if !ok || bl.Kind != token.STRING {
		return "", false
	}
	s, err := strconv.Unquote(bl.Value)
	if err != nil {
		return "", false
	}
	return s, true
}

type errCtor struct {
	name   string   // Go function
	outer  string   // functor of the whole term ("error")
	formal string   // functor / atom of the formal
	args   []string // argument expressions of the formal, as Go source identifiers
	ctx    string   // second argument of error/2 as Go source
}

func genErrorAtoms(repo string) (string, error) {
	atoms, err := atomConstants(repo)
	if err != nil {
		return "", err
	}
	fset := token.NewFileSet()
	f, err := parser.ParseFile(fset, filepath.Join(repo, "engine", "exception.go"), nil, 0)
	if err != nil {
		return "", err
	}
	atomOf := func(e ast.Expr) (string, error) {
		if s, ok := newAtomLit(e); ok {
			return s, nil
		}
		id, ok := e.(*ast.Ident)
		if !ok {
			return "", fmt.Errorf("not an atom constant: %T", e)
		}
		s, ok := atoms[id.Name]
		if !ok {
			return "", fmt.Errorf("unknown atom constant %s", id.Name)
		}
		return s, nil
	}

	// 1. tables  var xAtoms = [...]Atom{ k: atomY, ... }  and their const blocks (for the order)
	tables := map[string][]string{}
	constOrder := map[string]int{}
	for _, d := range f.Decls {
		gd, ok := d.(*ast.GenDecl)
		if !ok {
			continue
		}
		if gd.Tok == token.CONST {
			n := 0
			for _, s := range gd.Specs {
				for _, name := range s.(*ast.ValueSpec).Names {
					constOrder[name.Name] = n
					n++
				}
			}
		}
		if gd.Tok != token.VAR {
			continue
		}
		for _, s := range gd.Specs {
			vs := s.(*ast.ValueSpec)
			if len(vs.Names) != 1 || len(vs.Values) != 1 || !strings.HasSuffix(vs.Names[0].Name, "Atoms") {
				continue
			}
			cl, ok := vs.Values[0].(*ast.CompositeLit)
			if !ok {
				continue
			}
			type kv struct {
				k int
				v string
			}
			var kvs []kv
			for _, el := range cl.Elts {
				p, ok := el.(*ast.KeyValueExpr)
				if !ok {
					return "", fmt.Errorf("%s: element without key", vs.Names[0].Name)
				}
				k, ok := p.Key.(*ast.Ident)
				if !ok {
					return "", fmt.Errorf("%s: key is not an identifier", vs.Names[0].Name)
				}
				ord, ok := constOrder[k.Name]
				if !ok {
					return "", fmt.Errorf("%s: unknown key %s", vs.Names[0].Name, k.Name)
				}
				a, err := atomOf(p.Value)
				if err != nil {
					return "", fmt.Errorf("%s: %v", vs.Names[0].Name, err)
				}
				kvs = append(kvs, kv{ord, a})
			}
			sort.Slice(kvs, func(i, j int) bool { return kvs[i].k < kvs[j].k })
			var vals []string
			for i, p := range kvs {
				if p.k != i {
					return "", fmt.Errorf("%s: table has a hole at index %d (a zero Atom would be used)", vs.Names[0].Name, i)
				}
				vals = append(vals, p.v)
			}
			tables[vs.Names[0].Name] = vals
		}
	}
	want := []string{"validTypeAtoms", "validDomainAtoms", "objectTypeAtoms", "operationAtoms", "permissionTypeAtoms", "flagAtoms", "resourceAtoms", "exceptionalValueAtoms"}
	for _, w := range want {
		if len(tables[w]) == 0 {
			return "", fmt.Errorf("table %s not found in exception.go", w)
		}
	}
	if len(tables) != len(want) {
		var names []string
		for n := range tables {
			names = append(names, n)
		}
		sort.Strings(names)
		return "", fmt.Errorf("exception.go has tables %v, expected exactly %v", names, want)
	}

	// 2. constructors: every function whose body builds  atomError.Apply(F, C)
	var ctors []errCtor
	for _, d := range f.Decls {
		fd, ok := d.(*ast.FuncDecl)
		if !ok || fd.Body == nil {
			continue
		}
		var found []*ast.CallExpr
		ast.Inspect(fd.Body, func(n ast.Node) bool {
			c, ok := n.(*ast.CallExpr)
			if !ok {
				return true
			}
			sel, ok := c.Fun.(*ast.SelectorExpr)
			if !ok || sel.Sel.Name != "Apply" {
				return true
			}
			if id, ok := sel.X.(*ast.Ident); ok && id.Name == "atomError" {
				found = append(found, c)
				return false
			}
			return true
		})
		for _, c := range found {
			if len(c.Args) != 2 {
				return "", fmt.Errorf("%s: error/%d built", fd.Name.Name, len(c.Args))
			}
			ct := errCtor{name: fd.Name.Name, outer: "error", ctx: exprSrc(c.Args[1])}
			switch fe := c.Args[0].(type) {
			case *ast.Ident:
				a, err := atomOf(fe)
				if err != nil {
					return "", fmt.Errorf("%s: %v", fd.Name.Name, err)
				}
				ct.formal = a
			case *ast.CallExpr:
				sel, ok := fe.Fun.(*ast.SelectorExpr)
				if !ok || sel.Sel.Name != "Apply" {
					return "", fmt.Errorf("%s: formal is not atom.Apply(...)", fd.Name.Name)
				}
				a, err := atomOf(sel.X)
				if err != nil {
					return "", fmt.Errorf("%s: %v", fd.Name.Name, err)
				}
				ct.formal = a
				for _, x := range fe.Args {
					ct.args = append(ct.args, exprSrc(x))
				}
			default:
				return "", fmt.Errorf("%s: unexpected formal %T", fd.Name.Name, fe)
			}
			ctors = append(ctors, ct)
		}
	}
	if len(ctors) < 9 {
		return "", fmt.Errorf("only %d error constructors found in exception.go", len(ctors))
	}

	// 3. typed wrappers: func xError(v someEnum, ...) Exception { return XError(v.Term(), ...) }
	//    -> (wrapper, exported constructor, [table per enum-typed parameter])
	type wrapper struct {
		name, calls string
		tables      []string
	}
	var wrappers []wrapper
	for _, d := range f.Decls {
		fd, ok := d.(*ast.FuncDecl)
		if !ok || fd.Body == nil || fd.Recv != nil || len(fd.Body.List) != 1 {
			continue
		}
		rs, ok := fd.Body.List[0].(*ast.ReturnStmt)
		if !ok || len(rs.Results) != 1 {
			continue
		}
		c, ok := rs.Results[0].(*ast.CallExpr)
		if !ok {
			continue
		}
		callee, ok := c.Fun.(*ast.Ident)
		if !ok || !strings.HasSuffix(callee.Name, "Error") || !ast.IsExported(callee.Name) {
			continue
		}
		w := wrapper{name: fd.Name.Name, calls: callee.Name}
		ptype := map[string]string{}
		for _, fl := range fd.Type.Params.List {
			for _, n := range fl.Names {
				ptype[n.Name] = exprSrc(fl.Type)
			}
		}
		for _, a := range c.Args {
			// v.Term()
			if ce, ok := a.(*ast.CallExpr); ok {
				if sel, ok := ce.Fun.(*ast.SelectorExpr); ok && sel.Sel.Name == "Term" {
					if id, ok := sel.X.(*ast.Ident); ok {
						t := ptype[id.Name] + "Atoms"
						if _, ok := tables[t]; !ok {
							return "", fmt.Errorf("%s: no table %s", fd.Name.Name, t)
						}
						w.tables = append(w.tables, t)
					}
				}
			}
		}
		if len(w.tables) > 0 {
			wrappers = append(wrappers, w)
		}
	}

	// 4. error terms built outside exception.go (atomError.Apply in other engine files), and panicError's format
	var outside []string
	panicFmt := ""
	files, _ := filepath.Glob(filepath.Join(repo, "engine", "*.go"))
	sort.Strings(files)
	for _, fn := range files {
		base := filepath.Base(fn)
		if strings.HasSuffix(fn, "_test.go") || base == "exception.go" || strings.HasPrefix(base, "verif_hooks") {
			continue
		}
		g, err := parser.ParseFile(fset, fn, nil, 0)
		if err != nil {
			return "", err
		}
		for _, d := range g.Decls {
			fd, ok := d.(*ast.FuncDecl)
			if !ok || fd.Body == nil {
				continue
			}
			ast.Inspect(fd.Body, func(n ast.Node) bool {
				c, ok := n.(*ast.CallExpr)
				if !ok {
					return true
				}
				if sel, ok := c.Fun.(*ast.SelectorExpr); ok && sel.Sel.Name == "Apply" {
					if id, ok := sel.X.(*ast.Ident); ok && id.Name == "atomError" && len(c.Args) == 2 {
						formal := exprSrc(c.Args[0])
						if s, ok := newAtomLit(c.Args[0]); ok {
							formal = s
						}
						outside = append(outside, base+":"+fd.Name.Name+":"+formal)
					}
				}
				if sel, ok := c.Fun.(*ast.SelectorExpr); ok && sel.Sel.Name == "Errorf" && fd.Name.Name == "panicError" && len(c.Args) > 0 {
					if bl, ok := c.Args[0].(*ast.BasicLit); ok {
						panicFmt, _ = strconv.Unquote(bl.Value)
					}
				}
				return true
			})
		}
	}
	if panicFmt == "" {
		return "", fmt.Errorf("promise.go panicError format string not found")
	}

	var sb strings.Builder
	sb.WriteString("namespace PrologVerif.Generated.ErrorAtoms\n\n")
	for _, w := range want {
		fmt.Fprintf(&sb, "/-- engine/exception.go `%s`, in index order -/\ndef %s : List String := [%s]\n\n", w, w, leanStrings(tables[w]))
	}
	sb.WriteString("/-- every function of exception.go that builds `atomError.Apply(F, C)`:\n    (Go function, functor of F, argument expressions of F, context expression) -/\n")
	sb.WriteString("def constructors : List (String × String × List String × String) := [\n")
	for i, c := range ctors {
		sep := ","
		if i == len(ctors)-1 {
			sep = ""
		}
		fmt.Fprintf(&sb, "  (%s, %s, [%s], %s)%s\n", leanString(c.name), leanString(c.formal), leanStrings(c.args), leanString(c.ctx), sep)
	}
	sb.WriteString("]\n\n")
	sb.WriteString("/-- typed wrappers: (Go function, exported constructor it calls, vocabulary table of each enum argument) -/\n")
	sb.WriteString("def wrappers : List (String × String × List String) := [\n")
	for i, w := range wrappers {
		sep := ","
		if i == len(wrappers)-1 {
			sep = ""
		}
		fmt.Fprintf(&sb, "  (%s, %s, [%s])%s\n", leanString(w.name), leanString(w.calls), leanStrings(w.tables), sep)
	}
	sb.WriteString("]\n\n")
	sb.WriteString("/-- `atomError.Apply(…)` sites outside exception.go: file:function:formal -/\n")
	fmt.Fprintf(&sb, "def outsideSites : List String := [%s]\n\n", leanStrings(outside))
	fmt.Fprintf(&sb, "/-- format string of promise.go `panicError` -/\ndef panicFormat : String := %s\n\n", leanString(panicFmt))
	sb.WriteString("end PrologVerif.Generated.ErrorAtoms\n")
	return sb.String(), nil
}

func leanStrings(xs []string) string {
	q := make([]string, len(xs))
	for i, x := range xs {
		q[i] = leanString(x)
	}
	return strings.Join(q, ", ")
}

func exprSrc(e ast.Expr) string {
	switch e := e.(type) {
	case *ast.Ident:
		return e.Name
	case *ast.SelectorExpr:
		return exprSrc(e.X) + "." + e.Sel.Name
	case *ast.CallExpr:
		var as []string
		for _, a := range e.Args {
			as = append(as, exprSrc(a))
		}
		return exprSrc(e.Fun) + "(" + strings.Join(as, ",") + ")"
	case *ast.BasicLit:
		return e.Value
	case *ast.StarExpr:
		return "*" + exprSrc(e.X)
	}
	return fmt.Sprintf("<%T>", e)
}
