/-
  Refine, part 11 — the search: the recursive depth-first search of the VM's promises
  (`DFSG.dfsP` / `dfsAlts` over `VM.sem F`) against the reference interpreter's `solve` /
  `solveAlts`, by induction on the fuel of the search.  Whenever both terminate, the answers
  recorded by the VM are those of the reference, in order, and the search ends the same way.
-/
import PrologVerif.Proofs.RefineContRun
import PrologVerif.Proofs.ForceDFSGConv
namespace PrologVerif.Refine
open PrologVerif PrologVerif.VM PrologVerif.DecompileCompile PrologVerif.Activation
  PrologVerif.RefineITree PrologVerif.RefineRobinson PrologVerif.VMScoped
  PrologVerif.Promise PrologVerif.DFSG PrologVerif.ForceDFSGConv

/-! ### the reference interpreter, unfolded -/

theorem solveAlts_clause (prog : List Term) (n d nv : Nat) (g c : Term) (as : List SLD.Alt) (rest : List SLD.Frame)
    (q : Term) (limit : Nat) :
    SLD.solveAlts false prog (n + 1) d nv (.clause g c :: as) rest q limit =
      match SLD.unify n g (SLD.headBody (SLD.shift nv c)).1 with
      | .undefined => none
      | .fail => (SLD.solveAlts false prog n d nv as rest q (limit - 0)).map (SLD.Res.prepend [])
      | .mgu θ =>
        match SLD.solve false prog n (d + 1) (nv + SLD.maxVar c)
            ((SLD.bodyFrames false (SLD.headBody (SLD.shift nv c)).2 d ++ rest).map (SLD.Frame.subst θ))
            (Robinson.applySubst θ q) limit with
        | none => none
        | some r =>
          match r.stop with
          | .exhausted => (SLD.solveAlts false prog n d nv as rest q (limit - r.answers.length)).map (SLD.Res.prepend r.answers)
          | .cut c' => some { r with stop := if c' = d then .exhausted else .cut c' }
          | _ => some r := by
  rw [SLD.solveAlts]
  rfl

theorem headBody_shift_rule (nv : Nat) (h b : Term) :
    SLD.headBody (SLD.shift nv (SLD.rule h b)) = (SLD.shift nv h, SLD.shift nv b) := by
  simp [SLD.rule, SLD.mk2, SLD.shift, SLD.shiftArgs, SLD.headBody]

theorem conjuncts_leaf (t : Term) (h : ∀ a b, t ≠ .app "," (.cons a (.cons b .nil))) :
    SLD.conjuncts t = [SLD.wrapVar t] := by
  unfold SLD.conjuncts
  split
  · rename_i a b; exact absurd rfl (h a b)
  · rfl

theorem conjuncts_shift (k : Nat) (b : Term) : SLD.conjuncts (SLD.shift k b) = (SLD.conjuncts b).map (SLD.shift k) := by
  fun_induction SLD.conjuncts b with
  | case1 a b iha ihb =>
    simp only [SLD.shift, SLD.shiftArgs, SLD.conjuncts, List.map_append, iha, ihb]
  | case2 t hne =>
    have : ∀ a b, SLD.shift k t ≠ .app "," (.cons a (.cons b .nil)) := by
      intro a b heq
      cases t with
      | app f as =>
        simp only [SLD.shift, Term.app.injEq] at heq
        obtain ⟨rfl, has⟩ := heq
        cases as with
        | nil => simp [SLD.shiftArgs] at has
        | cons x xs => cases xs with
          | nil => simp [SLD.shiftArgs] at has
          | cons y ys => cases ys with
            | nil => exact hne x y rfl
            | cons _ _ => simp [SLD.shiftArgs] at has
      | _ => simp [SLD.shift] at heq
    rw [conjuncts_leaf _ this]
    cases t <;> simp [SLD.shift, SLD.wrapVar, SLD.call1, SLD.shiftArgs]

theorem prepend_nil (r : SLD.Res) : SLD.Res.prepend [] r = r := by
  cases r; simp [SLD.Res.prepend]

/-! ### what the search has to deliver -/

structure Match (tmpl : Term) (max : Nat) (prog : List Term) (ans0 : List Term) (m m' : MS)
    (sig : SigG Err) (r : SLD.Res) : Prop where
  ans : ∃ new, m'.user.answers = new ++ ans0 ∧ Forall2 (AnsRel tmpl) new.reverse r.answers
  stop : (sig = .exhausted none ∧ r.stop = .exhausted ∧ m'.user.answers.length < max) ∨
         (sig = .found ∧ r.stop = .full) ∨
         (∃ F c1 c2 ex, sig = .raised (.exc (errT F c1)) none ∧ r.stop = .raised (errT F c2) ex)
  st : StOK prog m'
  nvar : m.user.nextVar ≤ m'.user.nextVar

theorem Match.from {tmpl : Term} {max : Nat} {prog : List Term} {ans0 : List Term} {m0 m m' : MS}
    {sig : SigG Err} {r : SLD.Res} (h : Match tmpl max prog ans0 m m' sig r)
    (hn : m0.user.nextVar ≤ m.user.nextVar) : Match tmpl max prog ans0 m0 m' sig r :=
  ⟨h.ans, h.stop, h.st, Nat.le_trans hn h.nvar⟩

theorem stOK_tick {prog : List Term} {m : MS} (h : StOK prog m) : StOK prog (tick m) := h
theorem stOK_bump {prog : List Term} {m : MS} (h : StOK prog m) (N' : Nat) : StOK prog (bump m N') := h

def TPk (tmpl : Term) (max : Nat) (prog : List Term) (F k : Nat) : Prop :=
  ∀ (p : Pr) (live : List Nat) (m : MS) (sig : SigG Err) (m' : MS),
    dfsP (VM.sem F) 0 k p live m = some (sig, m') →
    ∀ (ans0 : List Term) (r : SLD.Res), PSpec tmpl max prog p m ans0 r → StOK prog m → ans0.length < max →
      sig = .illScoped ∨ Match tmpl max prog ans0 m m' sig r

/-- the thunk of the clause `c` first, then the frame with the thunks of `cs` -/
def TAk (tmpl : Term) (max : Nat) (prog : List Term) (F k : Nat) : Prop :=
  ∀ (c : Term) (cs : List Term) (id : Nat) (g g2 : Term) (K : Cont) (env : Env) (R : List SLD.Frame) (q : Term)
    (nv n d : Nat) (r : SLD.Res) (live : List Nat) (m : MS) (sig : SigG Err) (m' : MS) (ans0 : List Term),
    dfsAlts (VM.sem F) 0 k (Thunk.clause (clauseOf c) (argList g) K env id)
      { id := id, delayed := cs.map (fun c => Thunk.clause (clauseOf c) (argList g) K env id) } live m = some (sig, m') →
    m.user.answers = ans0 →
    (∀ c' ∈ c :: cs, hornClause c' = true ∧ headKey c' = (functorName g, (argList g).length)) →
    Shape g →
    SimAt tmpl max K env m.user.nextVar R q nv (fun σ π D => InD D g ∧ g2 = img σ π g) →
    SLD.solveAlts false (progS prog) n d nv ((c :: cs).map (fun c => .clause g2 (ruleOf c))) R q (max - ans0.length) = some r →
    StOK prog m → ans0.length < max →
    sig = .illScoped ∨ Match tmpl max prog ans0 m m' sig r

/-- the thunk of the bootstrap clause `true.`, then the empty frame -/
def TDk (tmpl : Term) (max : Nat) (prog : List Term) (F k : Nat) : Prop :=
  ∀ (ct : Clause) (id : Nat) (K : Cont) (env : Env) (R : List SLD.Frame) (q : Term)
    (nv n d : Nat) (r : SLD.Res) (live : List Nat) (m : MS) (sig : SigG Err) (m' : MS) (ans0 : List Term),
    dfsAlts (VM.sem F) 0 k (Thunk.clause ct [] K env id) { id := id, delayed := [] } live m = some (sig, m') →
    m.user.answers = ans0 → ct.code = [.exit] → ct.vars = [] →
    SimAt tmpl max K env m.user.nextVar R q nv (fun _ _ _ => True) →
    SLD.solve false (progS prog) n d nv R q (max - ans0.length) = some r →
    StOK prog m → ans0.length < max →
    sig = .illScoped ∨ Match tmpl max prog ans0 m m' sig r

section
variable {tmpl : Term} {max : Nat} {prog : List Term} {F : Nat}

theorem leaf_ok' {k : Nat} {p : Pr} {live : List Nat} {m : MS} (hd : p.delayed = []) (he : p.err = none) :
    dfsP (VM.sem F) 0 (k + 1) p live m = some (if p.ok then .found else .exhausted none, tick m) :=
  dfsP_leaf_ok _ _ _ p live m hd he

theorem leaf_err' {k : Nat} {p : Pr} {live : List Nat} {m : MS} {e : Err} (hd : p.delayed = []) (he : p.err = some e) :
    dfsP (VM.sem F) 0 (k + 1) p live m = some (.raised e none, tick m) :=
  dfsP_leaf_err _ _ _ p live m e hd he

theorem ill_id' {k : Nat} {p : Pr} {live : List Nat} {m : MS} {t : Thunk} {ts : List Thunk}
    (hd : p.delayed = t :: ts) (hid : p.id ≠ 0 ∧ live.contains p.id) :
    dfsP (VM.sem F) 0 (k + 1) p live m = some (.illScoped, tick m) :=
  dfsP_ill_id _ _ _ p live m t ts hd hid

theorem nocut' {k : Nat} {p : Pr} {live : List Nat} {m : MS} {t : Thunk} {ts : List Thunk}
    (hd : p.delayed = t :: ts) (hid : ¬ (p.id ≠ 0 ∧ live.contains p.id)) (hc : p.cutParent = none) :
    dfsP (VM.sem F) 0 (k + 1) p live m
      = dfsAlts (VM.sem F) 0 k t (afterChild { p with cutParent := none }) live (tick m) :=
  dfsP_nocut _ _ _ p live m t ts hd hid hc

theorem body_grel {σ' : Subst} {π' : Nat → Nat} {D' : Nat → Prop} {θ : List (Nat × Term)} {nv d : Nat}
    {G1 Bs : List Term}
    (h : Forall2 (fun g1 bg => InD D' g1 ∧ img σ' π' g1 = (SLD.shift nv bg).subst (substOf θ)) G1 Bs) :
    GRel σ' π' D' G1 (Bs.map (fun bg => SLD.Frame.subst θ (SLD.Frame.goal (SLD.shift nv bg) d))) := by
  induction h with
  | nil => exact .nil
  | cons hd _ ih =>
    refine .cons ⟨hd.1, d, ?_⟩ ih
    simp only [SLD.Frame.subst, applySubst_eq, hd.2]

/-- the search below a promise that came out of a thunk, then the frame that stayed behind -/
theorem after_child {k : Nat} (ihP : TPk tmpl max prog F k) {t : Thunk} {f q0 : Pr} {live : List Nat}
    {m m1 : MS} {sig : SigG Err} {m' : MS} {ans0 : List Term} {r1 : SLD.Res}
    (hda : dfsAlts (VM.sem F) 0 (k + 1) t f live m = some (sig, m'))
    (hev : (VM.sem F).evalThunk 0 t m = some (q0, m1))
    (hspec : PSpec tmpl max prog q0 m1 ans0 r1) (hst1 : StOK prog m1) (hlt : ans0.length < max)
    (hrec : f.recover = none) :
    sig = .illScoped ∨
    (∃ m2, Match tmpl max prog ans0 m1 m2 (.exhausted none) r1 ∧ dfsP (VM.sem F) 0 k f live m2 = some (sig, m')) ∨
    (Match tmpl max prog ans0 m1 m' sig r1 ∧ sig ≠ .exhausted none) := by
  cases hq : dfsP (VM.sem F) 0 k q0 (push f.id live) m1 with
  | none => rw [dfsAlts_child_none hev hq] at hda; cases hda
  | some pr2 =>
    obtain ⟨sig1, m2⟩ := pr2
    rcases ihP q0 _ m1 sig1 m2 hq ans0 r1 hspec hst1 hlt with hill | hm
    · subst hill
      rw [dfsAlts_pass hev hq (by simp) (by simp)] at hda
      simp only [absorb, Option.some.injEq, Prod.mk.injEq] at hda
      exact Or.inl hda.1.symm
    · rcases hm.stop with ⟨hs1, _, _⟩ | ⟨hs1, _⟩ | ⟨F', c1, c2, ex, hs1, _⟩
      · subst hs1
        rw [dfsAlts_exh hev hq] at hda
        exact Or.inr (Or.inl ⟨m2, hm, hda⟩)
      · subst hs1
        rw [dfsAlts_pass hev hq (by simp) (by simp)] at hda
        simp only [absorb, Option.some.injEq, Prod.mk.injEq] at hda
        obtain ⟨rfl, rfl⟩ := hda
        exact Or.inr (Or.inr ⟨hm, by simp⟩)
      · subst hs1
        rw [dfsAlts_raised_none hev hq hrec] at hda
        simp only [Option.some.injEq, Prod.mk.injEq] at hda
        obtain ⟨rfl, rfl⟩ := hda
        exact Or.inr (Or.inr ⟨hm, by simp⟩)

theorem td_succ {k : Nat} (ihP : TPk tmpl max prog F k) (hprog : ∀ c ∈ prog, hornClause c = true) :
    TDk tmpl max prog F (k + 1) := by
  intro ct id K env R q nv n d r live m sig m' ans0 hda hans hcode hvars hsim hs hst hlt
  cases hev : evalThunk F (Thunk.clause ct [] K env id) m with
  | none => rw [dfsAlts_thunk_none (sem := VM.sem F) (by exact hev)] at hda; cases hda
  | some pr =>
    obtain ⟨q0, m1⟩ := pr
    -- the thunk: no variables, `exit`: the continuation is applied
    have hcont : ∃ fuel, applyCont fuel K env m = some (q0, m1) := by
      cases F with
      | zero => simp [evalThunk] at hev
      | succ F' =>
        rw [evalThunk_clause, hcode, hvars] at hev
        simp only [List.length_nil, Nat.add_zero, bump_self] at hev
        cases F' with
        | zero => simp [exec_zero] at hev
        | succ F'' =>
          rw [show freshL m.user.nextVar 0 = [] from rfl, body_done] at hev
          exact ⟨F'', hev⟩
    obtain ⟨fuel, hcont⟩ := hcont
    subst hans
    obtain ⟨hspec, hst1, hnv1⟩ := cont_run tmpl max prog hprog fuel K env m q0 m1 hcont R q nv hsim hst n d r hs
    rcases after_child ihP hda (by exact hev) hspec hst1 hlt rfl with hill | ⟨m2, hm, hf⟩ | ⟨hm, _⟩
    · exact Or.inl hill
    · -- the empty frame: exhausted
      right
      cases k with
      | zero => simp [dfsP] at hf
      | succ k' =>
        rw [leaf_ok' rfl rfl] at hf
        simp only [Option.some.injEq, Prod.mk.injEq] at hf
        obtain ⟨rfl, rfl⟩ := hf
        exact (show Match tmpl max prog m.user.answers m1 (tick m2) (.exhausted none) r from
          ⟨hm.ans, hm.stop, hm.st, hm.nvar⟩).from hnv1
    · exact Or.inr (hm.from hnv1)

theorem ta_succ {k : Nat} (ihP : TPk tmpl max prog F k) (hprog : ∀ c ∈ prog, hornClause c = true) :
    TAk tmpl max prog F (k + 1) := by
  intro c cs id g g2 K env R q nv n d r live m sig m' ans0 hda hans hcs hshape hsim hs hst hlt
  cases n with
  | zero => rw [solveAlts_zero] at hs; cases hs
  | succ n' =>
  have hc := hcs c (by simp)
  obtain ⟨_, hcr⟩ := clauseOf_spec c hc.1
  rw [List.map_cons, solveAlts_clause] at hs
  simp only [ruleOf, headBody_shift_rule] at hs
  cases hev : evalThunk F (Thunk.clause (clauseOf c) (argList g) K env id) m with
  | none => rw [dfsAlts_thunk_none (sem := VM.sem F) (by exact hev)] at hda; cases hda
  | some pr =>
  obtain ⟨q0, m1⟩ := pr
  obtain ⟨N, σ, π, D, G, hN, hW, hcg, hgr, hq', hgD, hg2⟩ := hsim
  subst hg2
  have hkey : functorName g = functorName (SLD.headBody c).1 ∧
      (argList g).length = (argList (SLD.headBody c).1).length := by
    have := hc.2
    simp only [headKey, Prod.mk.injEq] at this
    exact ⟨this.1.symm, this.2.symm⟩
  -- the remaining alternatives, from a later state
  have hrest : ∀ (m2 : MS) (r' : SLD.Res) (ans1 : List Term), m2.user.answers = ans1 → m.user.nextVar ≤ m2.user.nextVar →
      SLD.solveAlts false (progS prog) n' d nv (cs.map (fun c => .clause (img σ π g) (ruleOf c))) R q (max - ans1.length) = some r' →
      PSpec tmpl max prog { id := id, delayed := cs.map (fun c => Thunk.clause (clauseOf c) (argList g) K env id) } m2 ans1 r' := by
    intro m2 r' ans1 h1 h2 h3
    exact .alts h1 (fun c' hc' => hcs c' (by simp [hc'])) hshape
      ⟨N, σ, π, D, G, Nat.le_trans hN h2, hW, hcg, hgr, hq', hgD, rfl⟩ h3
  unfold SLD.unify at hs
  rcases thunk_head (max := max) hcr hW F g K id m (q0, m1) hN hgD hshape hkey hev with
    ⟨N', hN', hres, hnomgu⟩ | ⟨fuel', env', N', K1, Bs, hN', hcont, hBs, hnoclash, hok⟩
  · -- the head unification fails on the VM
    simp only [Prod.mk.injEq] at hres
    obtain ⟨rfl, rfl⟩ := hres
    cases hr : Robinson.solve n' [(img σ π g, SLD.shift nv (SLD.headBody c).1)] [] with
    | mgu θ => exact absurd hr (hnomgu _ _)
    | clash =>
      rw [hr] at hs
      simp only [Nat.sub_zero, Option.map_eq_some_iff] at hs
      obtain ⟨r', hr', rfl⟩ := hs
      rw [prepend_nil]
      cases k with
      | zero =>
        rw [dfsAlts_child_none (sem := VM.sem F) (q := failP) (m1 := bump m N') (by exact hev) (by simp [dfsP])] at hda
        cases hda
      | succ k' =>
        have hq : dfsP (VM.sem F) 0 (k' + 1) failP (push id live) (bump m N') = some (.exhausted none, tick (bump m N')) := by
          rw [leaf_ok' rfl rfl]; rfl
        rw [dfsAlts_exh (sem := VM.sem F) (by exact hev) hq] at hda
        subst hans
        rcases ihP _ _ _ _ _ hda m.user.answers r' (hrest (tick (bump m N')) r' _ rfl hN' hr') hst hlt with hill | hm
        · exact Or.inl hill
        · exact Or.inr (hm.from hN')
    | occurs => rw [hr] at hs; simp at hs
    | outOfFuel => rw [hr] at hs; simp at hs
  · -- the head unification succeeds on the VM
    cases hr : Robinson.solve n' [(img σ π g, SLD.shift nv (SLD.headBody c).1)] [] with
    | clash => exact absurd hr (hnoclash _)
    | occurs => rw [hr] at hs; simp at hs
    | outOfFuel => rw [hr] at hs; simp at hs
    | mgu θ =>
      rw [hr] at hs
      simp only at hs
      obtain ⟨σ', π', D', G1, hW', hDD', heq, hcgK1, hbody⟩ := hok n' θ hr
      -- the reference solves the body followed by the rest
      cases hs1 : SLD.solve false (progS prog) n' (d + 1) (nv + SLD.maxVar (SLD.rule (SLD.headBody c).1 (SLD.headBody c).2))
          ((SLD.bodyFrames false (SLD.shift nv (SLD.headBody c).2) d ++ R).map (SLD.Frame.subst θ))
          (Robinson.applySubst θ q) (max - ans0.length) with
      | none => rw [hs1] at hs; simp at hs
      | some r1 =>
        rw [hs1] at hs
        simp only at hs
        subst hans
        -- the VM's continuation against that resolvent
        have hgrR : GRel σ' π' D' G (R.map (SLD.Frame.subst θ)) := hgr.step hDD' θ heq
        have hq1 : Robinson.applySubst θ q = img σ' π' tmpl := by
          rw [applySubst_eq, hq', heq tmpl hW.tmplD]
        have hspec1 : PSpec tmpl max prog q0 m1 m.user.answers r1 ∧ StOK prog m1 ∧ N' ≤ m1.user.nextVar := by
          rcases hBs with hBs | ⟨hBs, hb⟩
          · -- a rule: the body goals in front
            have hgr1 : GRel σ' π' D' (G1 ++ G)
                ((SLD.bodyFrames false (SLD.shift nv (SLD.headBody c).2) d ++ R).map (SLD.Frame.subst θ)) := by
              rw [List.map_append]
              refine Forall2.append ?_ hgrR
              simp only [SLD.bodyFrames, conjuncts_shift, hBs, Bool.false_eq_true, if_false, List.map_map]
              exact body_grel hbody
            exact cont_run tmpl max prog hprog fuel' K1 env' (bump m N') q0 m1 hcont _ _ _
              ⟨N', σ', π', D', G1 ++ G, Nat.le_refl _, hW', hcgK1 G hcg, hgr1, hq1, trivial⟩
              (stOK_bump hst N') n' (d + 1) r1 hs1
          · -- a fact: the reference runs the body `true`
            subst hBs
            cases hbody
            have e1 : (SLD.bodyFrames false (SLD.shift nv (SLD.headBody c).2) d ++ R).map (SLD.Frame.subst θ) =
                SLD.Frame.goal (.atom "true") d :: R.map (SLD.Frame.subst θ) := by
              rw [hb]
              simp [SLD.bodyFrames, SLD.shift, SLD.conjuncts, SLD.wrapVar, SLD.Frame.subst, applySubst_eq, Term.subst]
            rw [e1] at hs1
            cases n' with
            | zero => rw [solve_zero] at hs1; cases hs1
            | succ n'' =>
              rw [solve_true] at hs1
              exact cont_run tmpl max prog hprog fuel' K1 env' (bump m N') q0 m1 hcont _ _ _
                ⟨N', σ', π', D', G, Nat.le_refl _, hW', by simpa using hcgK1 G hcg, hgrR, hq1, trivial⟩
                (stOK_bump hst N') n'' (d + 1) r1 hs1
        obtain ⟨hspec, hst1, hnv1⟩ := hspec1
        have hmm1 : m.user.nextVar ≤ m1.user.nextVar := Nat.le_trans hN' hnv1
        rcases after_child ihP hda (by exact hev) hspec hst1 hlt rfl with hill | ⟨m2, hm, hf⟩ | ⟨hm, hne⟩
        · exact Or.inl hill
        · -- exhausted: the next alternatives
          rcases hm.stop with ⟨_, hstop, hlen⟩ | ⟨h1, _⟩ | ⟨_, _, _, _, h1, _⟩
          · rw [hstop] at hs
            simp only [Option.map_eq_some_iff] at hs
            obtain ⟨r', hr', rfl⟩ := hs
            obtain ⟨new1, hnew1, hfa1⟩ := hm.ans
            have hl1 : new1.length = r1.answers.length := by
              have := hfa1.length_eq; simpa using this
            have hlim : max - m.user.answers.length - r1.answers.length = max - m2.user.answers.length := by
              rw [hnew1, List.length_append]; omega
            rw [hlim] at hr'
            rcases ihP _ _ _ _ _ hf m2.user.answers r'
              (hrest m2 r' _ rfl (Nat.le_trans hmm1 hm.nvar) hr') hm.st hlen with hill | hm2
            · exact Or.inl hill
            · right
              obtain ⟨new2, hnew2, hfa2⟩ := hm2.ans
              refine ⟨⟨new2 ++ new1, by rw [hnew2, hnew1, List.append_assoc], ?_⟩, ?_, hm2.st,
                Nat.le_trans hmm1 (Nat.le_trans hm.nvar hm2.nvar)⟩
              · rw [List.reverse_append]
                exact hfa1.append hfa2
              · exact hm2.stop
          · cases h1
          · cases h1
        · -- found / raised: the remaining alternatives are not tried
          right
          rcases hm.stop with ⟨h1, _, _⟩ | ⟨_, hstop⟩ | ⟨_, _, _, _, _, hstop⟩
          · exact absurd h1 hne
          · rw [hstop] at hs
            simp only [Option.some.injEq] at hs
            subst hs
            exact hm.from hmm1
          · rw [hstop] at hs
            simp only [Option.some.injEq] at hs
            subst hs
            exact hm.from hmm1

theorem tp_succ {k : Nat} (ihA : TAk tmpl max prog F k) (ihD : TDk tmpl max prog F k) :
    TPk tmpl max prog F (k + 1) := by
  intro p live m sig m' hd ans0 r hspec hst hlt
  cases hspec with
  | fail hans =>
    rw [leaf_ok' rfl rfl] at hd
    simp only [Option.some.injEq, Prod.mk.injEq] at hd
    obtain ⟨rfl, rfl⟩ := hd
    exact Or.inr ⟨⟨[], (by show m.user.answers = [] ++ ans0; simpa using hans), .nil⟩, Or.inl ⟨rfl, rfl, by rw [show (tick m).user.answers = m.user.answers from rfl, hans]; exact hlt⟩,
      stOK_tick hst, Nat.le_refl _⟩
  | @answer _ _ a q hans hrel =>
    by_cases hc : (a :: ans0).length ≥ max
    · rw [if_pos hc] at hd
      rw [leaf_ok' rfl rfl] at hd
      simp only [Option.some.injEq, Prod.mk.injEq] at hd
      obtain ⟨rfl, rfl⟩ := hd
      have h1 : max - ans0.length = 1 := by simp only [List.length_cons] at hc; omega
      refine Or.inr ⟨⟨[a], (by show m.user.answers = [a] ++ ans0; simpa using hans), .cons hrel .nil⟩, Or.inr (Or.inl ⟨rfl, by simp [h1]⟩),
        stOK_tick hst, Nat.le_refl _⟩
    · rw [if_neg hc] at hd
      rw [leaf_ok' rfl rfl] at hd
      simp only [Option.some.injEq, Prod.mk.injEq] at hd
      obtain ⟨rfl, rfl⟩ := hd
      have h1 : max - ans0.length ≠ 1 := by simp only [List.length_cons] at hc; omega
      refine Or.inr ⟨⟨[a], (by show m.user.answers = [a] ++ ans0; simpa using hans), .cons hrel .nil⟩, Or.inl ⟨rfl, by simp [h1], ?_⟩,
        stOK_tick hst, Nat.le_refl _⟩
      rw [show (tick m).user.answers = m.user.answers from rfl, hans]
      simp only [List.length_cons] at hc ⊢
      omega
  | @err _ _ F' c1 c2 hans =>
    rw [leaf_err' rfl rfl] at hd
    simp only [Option.some.injEq, Prod.mk.injEq] at hd
    obtain ⟨rfl, rfl⟩ := hd
    exact Or.inr ⟨⟨[], (by show m.user.answers = [] ++ ans0; simpa using hans), .nil⟩, Or.inr (Or.inr ⟨F', c1, c2, [], rfl, rfl⟩),
      stOK_tick hst, Nat.le_refl _⟩
  | @alts _ _ id cs g g2 K env R q nv n d _ hans hcs hshape hsim hs =>
    cases cs with
    | nil =>
      rw [leaf_ok' rfl rfl] at hd
      simp only [Option.some.injEq, Prod.mk.injEq] at hd
      obtain ⟨rfl, rfl⟩ := hd
      cases n with
      | zero => rw [List.map_nil, solveAlts_zero] at hs; cases hs
      | succ n' =>
        rw [List.map_nil, solveAlts_nil] at hs
        simp only [SLD.failed, Option.some.injEq] at hs
        subst hs
        exact Or.inr ⟨⟨[], (by show m.user.answers = [] ++ ans0; simpa using hans), .nil⟩, Or.inl ⟨rfl, rfl, by rw [show (tick m).user.answers = m.user.answers from rfl, hans]; exact hlt⟩,
          stOK_tick hst, Nat.le_refl _⟩
    | cons c cs' =>
      by_cases hid : (id ≠ 0 ∧ live.contains id)
      · rw [ill_id' rfl hid] at hd
        simp only [Option.some.injEq, Prod.mk.injEq] at hd
        exact Or.inl hd.1.symm
      · rw [nocut' rfl hid rfl] at hd
        have hf : afterChild ({ ({ id := id, delayed := (c :: cs').map (fun c => Thunk.clause (clauseOf c) (argList g) K env id) } : Pr) with cutParent := none }) =
            ({ id := id, delayed := cs'.map (fun c => Thunk.clause (clauseOf c) (argList g) K env id) } : Pr) := by
          simp [afterChild]
        rw [hf] at hd
        simp only [List.map_cons] at hd
        rcases ihA c cs' id g g2 K env R q nv n d r live (tick m) sig m' ans0 hd hans hcs hshape hsim hs
          (stOK_tick hst) hlt with hill | hm
        · exact Or.inl hill
        · exact Or.inr (hm.from (Nat.le_refl _))
  | @direct _ _ id ct K env R q nv n d _ hans hcode hvars hsim hs =>
    by_cases hid : (id ≠ 0 ∧ live.contains id)
    · rw [ill_id' rfl hid] at hd
      simp only [Option.some.injEq, Prod.mk.injEq] at hd
      exact Or.inl hd.1.symm
    · rw [nocut' rfl hid rfl] at hd
      have hf : afterChild ({ ({ id := id, delayed := [Thunk.clause ct [] K env id] } : Pr) with cutParent := none }) =
          ({ id := id, delayed := [] } : Pr) := by
        simp [afterChild]
      rw [hf] at hd
      rcases ihD ct id K env R q nv n d r live (tick m) sig m' ans0 hd hans hcode hvars hsim hs
        (stOK_tick hst) hlt with hill | hm
      · exact Or.inl hill
      · exact Or.inr (hm.from (Nat.le_refl _))

theorem tp_zero : TPk tmpl max prog F 0 := by
  intro p live m sig m' hd
  simp [dfsP] at hd

theorem ta_zero : TAk tmpl max prog F 0 := by
  intro c cs id g g2 K env R q nv n d r live m sig m' ans0 hda
  simp [dfsAlts] at hda

theorem td_zero : TDk tmpl max prog F 0 := by
  intro ct id K env R q nv n d r live m sig m' ans0 hda
  simp [dfsAlts] at hda

theorem t_all (hprog : ∀ c ∈ prog, hornClause c = true) : ∀ k : Nat,
    TPk tmpl max prog F k ∧ TAk tmpl max prog F k ∧ TDk tmpl max prog F k
  | 0 => ⟨tp_zero, ta_zero, td_zero⟩
  | k + 1 =>
    have ih := t_all hprog k
    ⟨tp_succ ih.2.1 ih.2.2, ta_succ ih.1 hprog, td_succ ih.1 hprog⟩

end

end PrologVerif.Refine
