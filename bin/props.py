"""Per-property configuration of bin/check (streams, sizes, trusted base). See DESIGN.md §6."""

COMMON_TRUSTED = [
    "Lean 4.33.0 kernel (thorough tier: re-checked with leanchecker); axioms allowed in property theorems: propext, Classical.choice, Quot.sound only (audited on every run by PrologVerif/Audit.lean); no sorry/admit/native_decide/bv_decide/own axioms (grep on every run)",
    "hand-written Lean model mirrors the Go code: CHECKED by the correspondence streams (differential testing, bounded by the generators; distributions are in this file), not proved",
    "/verif/extract (regenerated facts / translated definitions) and /verif/harness (in-process runner, canonicalisation: variables renamed by first occurrence, map-ordered output sorted, error context dropped)",
    "Go compiler/runtime and standard library behave as documented",
]

NOT_APPLICABLE = {}

PROPS = {
    "C15": dict(
        level_text="Proof: Parser.termOf/SetPlaceholder, unDoubleQuote (the escape regexp), the operand level of the reader with the placeholder queue (term0, term0Atom, functionalNotation, list, Parser.Term; empty operator table, pre-tokenised input) and convertAssign* with explicit integer widths are modelled in Lean. Kernel-checked for ALL inputs: un-quoting the double-quoted literal of any string gives the string back (C15_unDoubleQuote_escape); for every Go value (all integer widths, floats, strings over all of Unicode, nested slices) and every double_quotes setting termOf yields exactly the term the reader produces for the value's literal (C15_termOf_is_literal, C15_string_is_data); parsing commutes with instantiating the argument queue, i.e. the result for any arguments is one template computed from the text alone with the arguments plugged into holes, never inspected (C15_placeholder_is_data, C15_placeholder_template, C15_query_template); the number of arguments a text accepts is unique, more is 'too many arguments' (C15_placeholder_count; 'fewer gives exactly not-enough-arguments' is kept as an open statement), unsupported kinds are rejected before parsing (C15_unsupported_is_error); for every destination type of the property convertAssign stores a value that is exactly the answer's and within the type, or fails (C15_scan_exact_or_error, C15_scan_out_of_range_is_error, C15_scan_unsupported_is_error); the pinned conversions violate this (C15_scan_exact_or_error_pinned_witness = D15, C15_scan_float32_pinned_witness = D20, both repaired in the repo). Tied to the Go code by c15.args (API with placeholders vs the text with the values' literals written by an independent printer, compared with ==/2 inside Prolog, vs model and specification) and c15.scan (every destination type x answers on and around each range).",
        level_note="Trusted: Lean kernel; the hand-written model (checked by differential runs, not proved); the reader is modelled at operand level with an empty operator table and on tokens (lexer and operators belong to C05/C06; the stream exercises the real lexer+parser, operator-free templates only); Go strings are assumed valid UTF-8; int is 64 bits; float32 destinations store the nearest single-precision value (C15_scan_float32_rounds: rounding is inherent to the type and not claimed exact; overflow to an infinity was a defect, D20, repaired); whether a list is held as charList/codeList (and hence scans into a string) is a parameter of the model.",
        technique="Lean 4 structural induction over Go values/terms/fuel (naturality of the parser in its argument queue; literal reader; exactness of conversions) + differential runs against the real API with an independent literal printer",
        lean_module="PrologVerif.Properties.C15",
        ns="PrologVerif.C15",
        streams=[dict(name="c15.args", quick=4000, thorough=40000),
                 dict(name="c15.scan", quick=6000, thorough=60000)],
        rule="c15.args: systematic part = every string of a 100-entry list (quotes, backslashes, '.', ':-', '%', newlines, NUL, controls, BOM, non-BMP, syntax-looking text), every boundary integer of every width, floats incl. +-0, subnormals, extremes, each as p(?) under chars/codes/atom; random part = operator-free templates (compounds, lists with tails, parentheses, double-quoted tokens) with 0..8 placeholders and random values (strings from the list or over random Unicode scalars, ints of all widths, float64/float32, typed slices/arrays, nested slices, unsupported kinds), 1 in 8 with a count mismatch; non-trivial = at least one placeholder filled and the literal comparison ran. c15.scan: every integer/any/string/float destination x 32 boundary integers (struct and map path, also inside slices), plus random destination types (30) x answers, 70% of them of the kind the destination expects; non-trivial = Scan stored a value. One PRNG (VERIF_SEED); distinct = distinct case text",
        trusted=[
            "modelled (hand-written, correspondence-checked): engine/parser.go SetPlaceholder, termOf, unDoubleQuote/doubleQuotedUnescape, term0, term0Atom (placeholder step), functionalNotation, list, openClose, integer, Parser.Term (end and left-over checks); solutions.go convertAssign, convertAssignAny/String/Int*/Float*/Slice",
            "not modelled: the lexer and the operator part of the reader (C05/C06); Scan's struct/map reflection (observed: both paths are driven); Scanner/TermString; invalid UTF-8 in Go strings",
            "the literal printer of the harness (strings: only double quote and backslash escaped; numbers; bracket lists) is independent of the code under test; it is mirrored by Model/Api `escape`/`litToks`",
        ],
        modelled={"hand_modelled": ["Parser.SetPlaceholder", "Parser.termOf", "unDoubleQuote", "Parser.term0", "Parser.term0Atom", "Parser.functionalNotation", "Parser.list", "Parser.openClose", "Parser.Term", "integer", "convertAssign*"],
                  "regenerated": [], "observed_only": ["Lexer", "operators in templates", "Solutions.Scan reflection", "Solution.Scan"]},
        assumptions=["Go strings passed as arguments are valid UTF-8", "int is 64 bits wide", "templates are operator-free terms in canonical syntax (the reader model has an empty operator table)"],
    ),
    "C12": dict(
        level_text="Proof: the more/next handshake between Solutions.Next/Scan/Err/Close (solutions.go) and the search goroutine of QueryContext (interpreter.go) is modelled in Lean as a small-step transition system (consumer pc, producer pc, the two channels with Go's buffered/rendezvous/close semantics, the query abstracted as an arbitrary outcome stream Nat -> answer|exhausted|error). For ALL outcome streams (finite, erroring, infinite), ALL call sequences and ALL schedules (every enabled goroutine step is allowed) the kernel checks: an inductive invariant with five boundary shapes (C12_boundary_invariant, C12_no_panic), deadlock freedom and a step bound of 8 per call under every schedule (C12_no_block, C12_no_block_bounded, C12_maximal_run_finished), refinement of the sequential iterator specification Spec/Iter (C12_refines_iter, C12_refines_iter_finished, C12_schedule_independent), that after Close no search step happens and the producer exits within 2 of its own steps (C12_close_stops), that the producer never searches ahead (C12_no_speculation), and independence of two Solutions (C12_interleave). The protocol of the pinned tree is kept as a variant and shown to deadlock (C12_no_block_pinned_witness = D14, repaired in the repo). The model is tied to the Go code by c12.seq (exhaustive call sequences up to length 5, thorough 7, x 8 query shapes + random longer ones, each call under a 2 s watchdog on the real Solutions; return values, tick counter = goals run, goroutine count) and c12.inter (two open Solutions of one interpreter, interleaved).",
        level_note="Trusted: Lean kernel; the hand-written transition system mirrors the Go code and Go's channel semantics (checked by the differential streams, not proved); one 'searching' step stands for the whole search for the next outcome, which is assumed to terminate (a diverging goal such as 'repeat, fail' makes Next diverge, that is not a protocol block); context cancellation is C13; scheduler fairness/real time are observed by the watchdog only.",
        technique="Lean 4 inductive invariant + progress/measure proof over a two-goroutine transition system (all schedules) + refinement of a sequential specification; exhaustive small-scope differential runs with watchdog on the real code",
        lean_module="PrologVerif.Properties.C12",
        ns="PrologVerif.C12",
        streams=[dict(name="c12.seq", quick=3000, thorough=20000, j=1),
                 dict(name="c12.inter", quick=2000, thorough=10000, j=1)],
        rule="c12.seq: EVERY call sequence of length <= 5 (thorough: <= 7) over {Next,Scan,Err,Close} x queries {0..3 answers, error after 0..2 answers, infinite}, plus random sequences of length 6..14 on queries with up to 6 answers / error after up to 4 / infinite; c12.inter: every interleaving of total length <= 3 (thorough: <= 4) on two Solutions x 16 query pairs, plus random ones of length 4..12. One PRNG (VERIF_SEED). Non-trivial (c12.seq) = at least one call is made after a Next returned false or after a successful Close (the states where the pinned code blocks); (c12.inter) = the consumer switches between the two Solutions at least twice. distinct = distinct case text",
        trusted=[
            "modelled (hand-written, correspondence-checked): interpreter.go QueryContext (goroutine, channels), solutions.go Next/Close/Err and the env/closed/done fields; Scan is modelled as reading the current answer",
            "assumed: Go channel semantics (buffered send/receive, rendezvous, close) as in the Go memory model; each search for the next outcome terminates; one consumer goroutine",
            "observed only: wall-clock promptness (2 s watchdog per call), runtime.NumGoroutine, the tick side-effect counter",
        ],
        modelled={"hand_modelled": ["Interpreter.QueryContext (goroutine body)", "Solutions.Next", "Solutions.Close", "Solutions.Err", "Solutions.Scan (as read of env)"],
                  "regenerated": [], "observed_only": ["engine.Call/Force (the search)", "goroutine exit", "convertAssign (see C15)"]},
        assumptions=["each search for the next outcome terminates (divergence of the goal itself is not a protocol block)",
                     "all calls on one Solutions are made from one goroutine", "the context is never cancelled (C13)"],
    ),
    "C18": dict(
        level_text="Proof: the operator-table state machine (Op/validateOp/CurrentOp and the operators methods) is modelled in Lean; for ALL histories of op/3 calls with arbitrary argument terms the ISO invariant (C18_inv), atomicity of failed updates (C18_atomic), the exact effect of successful updates (C18_update_exact: latest wins, 0 removes, other classes kept) and exactness of current_op/3 (C18_current_op_exact) are kernel-checked theorems, the default table being regenerated from bootstrap.pl. The model is tied to the Go code by the c18.hist correspondence stream (impl vs model, plus an independent executable ISO specification as oracle, plus reader/writer probes).",
        level_note="Trusted: Lean kernel; the hand-written model of Op/validateOp/CurrentOp (checked by differential runs, not proved); harness canonicalisation; reader/writer use of the table is only probed, not modelled. Pattern variables of current_op/3 assumed pairwise distinct.",
        technique="Lean 4 invariant proof by induction over op/3 histories + regenerated default table + model/implementation correspondence",
        lean_module="PrologVerif.Properties.C18",
        ns="PrologVerif.C18",
        streams=[dict(name="c18.hist", quick=3000, thorough=40000)],
        rule="histories of 1..8 operations over op/3 (valid and invalid priorities, specifiers, names, lists with invalid members, partial lists, special names , | [] {}), current_op/3 in every instantiation pattern, and a reader/writer probe; generated from one PRNG (VERIF_SEED); non-trivial = at least two op/3 calls in the history changed the table, or one changed it and another was rejected; distinct = distinct case text",
        trusted=[
            "modelled (hand-written, correspondence-checked): engine/builtin.go Op, validateOp, appendUniqNewAtom, CurrentOp; engine/parser.go operators.define/remove/definedInClass; ListIterator as used by Op",
            "regenerated from source on every run: the default operator table = the op/3 directives of bootstrap.pl read by the real parser (Generated/Bootstrap.lean); C18_default_valid is re-proved against it by kernel evaluation",
            "not modelled: the reader and writer themselves (only probed: 'a n b', 'n a', 'a n' parse / writeq(n(a,b)), writeq(n(a)) print according to the table); Go map iteration order (answers compared as sets)",
        ],
        modelled={"hand_modelled": ["Op", "validateOp", "appendUniqNewAtom", "CurrentOp", "operators.define", "operators.remove", "operators.definedInClass"],
                  "regenerated": ["bootstrap.pl op/3 directives"], "observed_only": ["Parser (probe)", "WriteCompound (probe)"]},
        assumptions=["pattern variables of current_op/3 calls are pairwise distinct (the model matches argument-wise)"],
    ),
}
