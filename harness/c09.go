package main

// C09: histories of database updates interleaved with open calls and open retracts.
//
// Case format: see lean/PrologVerif/Driver/C09.lean.  Two realisations on the real engine:
//   - interleaved: every iterator (oc/or) is a *prolog.Solutions of the ONE interpreter, stepped with
//     Next in the order the history says (not LIFO);
//   - nested: `nest` commands become findall(T, (G1, G2, ...), L) run through engine.Call, i.e.
//     failure-driven loops whose goals update the predicate being enumerated.

import (
	"fmt"
	"math/rand"
	"sort"
	"strconv"
	"strings"
	"time"

	"github.com/ichiban/prolog"
	"github.com/ichiban/prolog/engine"
)

func init() {
	register(&stream{name: "c09.hist", gen: genC09, run: runC09})
}

// ---------------------------------------------------------------------------------------------
// generator
// ---------------------------------------------------------------------------------------------

// gt_c09 is a generated term (kept apart from engine terms so that variable numbers are explicit).
type gt_c09 struct {
	k    byte // 'V', 'A', 'I', 'C'
	s    string
	n    int64
	args []*gt_c09
}

func gv(n int) *gt_c09                { return &gt_c09{k: 'V', n: int64(n)} }
func ga(s string) *gt_c09             { return &gt_c09{k: 'A', s: s} }
func gi(n int64) *gt_c09              { return &gt_c09{k: 'I', n: n} }
func gc(f string, as ...*gt_c09) *gt_c09  { return &gt_c09{k: 'C', s: f, args: as} }
func grule(h, b *gt_c09) *gt_c09          { return gc(":-", h, b) }

func (t *gt_c09) wire() string {
	switch t.k {
	case 'V':
		return "V" + strconv.FormatInt(t.n, 10)
	case 'A':
		return "A" + encName(t.s)
	case 'I':
		return "I" + strconv.FormatInt(t.n, 10)
	default:
		parts := []string{fmt.Sprintf("C%d:%s", len(t.args), encName(t.s))}
		for _, a := range t.args {
			parts = append(parts, a.wire())
		}
		return strings.Join(parts, " ")
	}
}

func (t *gt_c09) vars(acc []int) []int {
	switch t.k {
	case 'V':
		for _, v := range acc {
			if v == int(t.n) {
				return acc
			}
		}
		return append(acc, int(t.n))
	case 'C':
		for _, a := range t.args {
			acc = a.vars(acc)
		}
	}
	return acc
}

type c09gen struct {
	r       *rand.Rand
	nextCV  int // clause variables: 100, 101, ... (unique in the case)
	nextPV  int // pattern variables: 0, 1, ... (unique in the case)
	focus   string
	rules   []*gt_c09 // rules asserted so far in this case
	size    map[string]int // upper bound of the number of clauses per predicate (bounds the work of nested goals)
}

func gtPI(t *gt_c09) string {
	if t.k == 'C' && t.s == ":-" && len(t.args) == 2 {
		t = t.args[0]
	}
	switch t.k {
	case 'A':
		return t.s + "/0"
	case 'C':
		return fmt.Sprintf("%s/%d", t.s, len(t.args))
	}
	return "?"
}

// c09AnswerBound: an upper bound of the number of answers the clauses made of c give (for the work estimate)
func c09AnswerBound(c *gt_c09) int {
	var body func(b *gt_c09) int
	body = func(b *gt_c09) int {
		if b.k == 'C' && len(b.args) == 2 {
			switch b.s {
			case ";":
				if l := b.args[0]; l.k == 'C' && l.s == "->" && len(l.args) == 2 {
					x, y := body(l.args[1]), body(b.args[1])
					if x > y {
						return x
					}
					return y
				}
				return body(b.args[0]) + body(b.args[1])
			case ",":
				return body(b.args[0]) * body(b.args[1])
			case "->":
				return body(b.args[1])
			}
		}
		return 1
	}
	if c.k == 'C' && c.s == ":-" && len(c.args) == 2 {
		return body(c.args[1])
	}
	return 1
}

func (g *c09gen) grow(c *gt_c09, n int) {
	g.size[gtPI(c)] += c09AnswerBound(c) * n
}

var c09Consts = []*gt_c09{ga("a"), ga("b"), gi(1), gi(2), ga("a"), ga("b"), gi(1), gi(2),
	gtList(ga("a"), gc("k", ga("b"))), gtList(gc("k", gi(1)), gc("k", ga("a"))), gc("k", ga("a"))}

func (g *c09gen) constant() *gt_c09 { return pick(g.r, c09Consts) }

// pred picks a predicate of the universe, mostly the focus predicate of this case.
func (g *c09gen) pred() (string, int) {
	if g.r.Intn(10) < 7 {
		switch g.focus {
		case "p":
			return "p", 1
		case "q":
			return "q", 2
		}
	}
	switch k := g.r.Intn(10); {
	case k < 5:
		return "p", 1
	case k < 9:
		return "q", 2
	default:
		return "r", 0
	}
}

func mk(name string, args []*gt_c09) *gt_c09 {
	if len(args) == 0 {
		return ga(name)
	}
	return gc(name, args...)
}

// head of a clause to be asserted at top level: constants and clause variables (fresh, unique).
func (g *c09gen) clauseHead() *gt_c09 {
	name, ar := g.pred()
	args := make([]*gt_c09, ar)
	for i := range args {
		if g.r.Intn(10) < 6 {
			args[i] = g.constant()
		} else if i > 0 && args[0].k == 'V' && g.r.Intn(2) == 0 {
			args[i] = args[0] // q(X, X)
		} else {
			args[i] = gv(g.nextCV)
			g.nextCV++
		}
	}
	return mk(name, args)
}

// bodyAtom: true, fail, X = constant, X = Y over the variables of the head
func (g *c09gen) bodyAtom(hv []*gt_c09) *gt_c09 {
	k := g.r.Intn(8)
	switch {
	case k < 2:
		return ga("true")
	case k < 3:
		return ga("fail")
	case len(hv) == 0:
		return gc("=", g.constant(), g.constant())
	case k < 7 || len(hv) < 2:
		return gc("=", pick(g.r, hv), g.constant())
	default:
		return gc("=", hv[0], hv[1])
	}
}

// alternative: what ONE stored clause executes — a conjunction of atoms, sometimes an if-then-else or a
// nested disjunction (more than one answer from one clause)
func (g *c09gen) alternative(hv []*gt_c09) *gt_c09 {
	switch k := g.r.Intn(20); {
	case k < 11:
		return g.bodyAtom(hv)
	case k < 14:
		return gc(",", g.bodyAtom(hv), g.bodyAtom(hv))
	case k < 17:
		return gc(";", gc("->", g.bodyAtom(hv), g.bodyAtom(hv)), g.bodyAtom(hv)) // one clause
	default:
		return gc(",", g.bodyAtom(hv), gc(";", g.bodyAtom(hv), g.bodyAtom(hv))) // one clause, up to two answers
	}
}

// wrapBody: a fact, a rule, or a rule whose body is a top-level disjunction of 2-3 alternatives: compile
// stores ONE CLAUSE PER ALTERNATIVE, all with the same source term; only calls tell them apart.
func (g *c09gen) wrapBody(h *gt_c09) *gt_c09 {
	c := g.wrapBody0(h)
	if c.k == 'C' && c.s == ":-" {
		g.rules = append(g.rules, c)
	}
	return c
}

// patVariant: the term with its variables replaced by fresh pattern variables
func (g *c09gen) patVariant(t *gt_c09) *gt_c09 {
	m := map[int64]*gt_c09{}
	var walk func(t *gt_c09) *gt_c09
	walk = func(t *gt_c09) *gt_c09 {
		switch t.k {
		case 'V':
			if _, ok := m[t.n]; !ok {
				m[t.n] = g.pvar()
			}
			return m[t.n]
		case 'C':
			args := make([]*gt_c09, len(t.args))
			for i, a := range t.args {
				args[i] = walk(a)
			}
			return &gt_c09{k: 'C', s: t.s, args: args}
		}
		return t
	}
	return walk(t)
}

func (g *c09gen) wrapBody0(h *gt_c09) *gt_c09 {
	var hv []*gt_c09
	for _, v := range h.vars(nil) {
		hv = append(hv, gv(v))
	}
	switch k := g.r.Intn(20); {
	case k < 9:
		return h
	case k < 11:
		return grule(h, ga("true"))
	case k < 13:
		return grule(h, g.alternative(hv))
	case k < 14:
		return grule(h, gc(";", ga("true"), ga("true")))
	default:
		n := 2 + g.r.Intn(2)
		alts := make([]*gt_c09, n)
		for i := range alts {
			alts[i] = g.alternative(hv)
		}
		b := alts[n-1]
		for i := n - 2; i >= 0; i-- {
			b = gc(";", alts[i], b)
		}
		return grule(h, b)
	}
}

// a clause that must be rejected (or hits a procedure that cannot be modified)
func (g *c09gen) badClause() *gt_c09 {
	switch g.r.Intn(10) {
	case 0:
		return gv(g.fresh())
	case 1:
		return gi(3)
	case 2:
		return grule(gv(g.fresh()), ga("true"))
	case 3:
		return grule(gi(3), ga("true"))
	case 4:
		return grule(g.clauseHead(), gi(1))
	case 5:
		return grule(g.clauseHead(), gc(",", ga("true"), gi(1)))
	case 6:
		return grule(g.clauseHead(), gc(";", ga("true"), gi(1)))
	case 7:
		return gc("s", gi(3))
	case 8:
		return gc("member", ga("a"), ga("b"))
	default:
		return grule(gc("atom_length", ga("a"), gi(1)), ga("true"))
	}
}

func (g *c09gen) fresh() int { g.nextCV++; return g.nextCV - 1 }

// variant returns the same clause with fresh clause variables (a duplicate up to renaming: on the engine
// every asserted clause has variables of its own).
func (g *c09gen) variant(t *gt_c09) *gt_c09 {
	m := map[int64]int{}
	var walk func(t *gt_c09) *gt_c09
	walk = func(t *gt_c09) *gt_c09 {
		switch t.k {
		case 'V':
			if _, ok := m[t.n]; !ok {
				m[t.n] = g.fresh()
			}
			return gv(m[t.n])
		case 'C':
			args := make([]*gt_c09, len(t.args))
			for i, a := range t.args {
				args[i] = walk(a)
			}
			return &gt_c09{k: 'C', s: t.s, args: args}
		}
		return t
	}
	return walk(t)
}

func (g *c09gen) pvar() *gt_c09 { g.nextPV++; return gv(g.nextPV - 1) }

// goal / retract pattern
func (g *c09gen) pattern(forRetract bool) *gt_c09 {
	if forRetract && len(g.rules) > 0 && g.r.Intn(6) == 0 {
		// retract((H :- B)) with the body of a rule of this case spelt out (a disjunction, an if-then-else ...)
		return g.patVariant(pick(g.r, g.rules))
	}
	if g.r.Intn(25) == 0 {
		switch g.r.Intn(6) {
		case 0:
			if forRetract {
				return g.pvar()
			}
			return gc("zz", g.pvar()) // unknown procedure
		case 1:
			if forRetract {
				return gi(3)
			}
			return gc("zz", g.pvar())
		case 2:
			if forRetract {
				return grule(g.pvar(), ga("true"))
			}
			return gc("s", g.pvar())
		case 3:
			return gc("s", g.pvar()) // static: callable, not retractable
		case 4:
			if forRetract {
				return gc("member", g.pvar(), g.pvar())
			}
			return gc("s", gi(2))
		default:
			return gc("zz", g.pvar()) // retract: fails; call: existence error
		}
	}
	name, ar := g.pred()
	args := make([]*gt_c09, ar)
	for i := range args {
		if g.r.Intn(20) < 9 {
			args[i] = g.constant()
		} else if i > 0 && args[0].k == 'V' && g.r.Intn(3) == 0 {
			args[i] = args[0]
		} else {
			args[i] = g.pvar()
		}
	}
	h := mk(name, args)
	if forRetract {
		switch k := g.r.Intn(10); {
		case k < 2:
			return grule(h, g.pvar())
		case k < 3:
			return grule(h, ga("true"))
		}
	}
	return h
}

func (g *c09gen) piTerm() *gt_c09 {
	if g.r.Intn(4) == 0 {
		switch g.r.Intn(9) {
		case 0:
			return g.pvar()
		case 1:
			return gc("/", ga("p"), g.pvar())
		case 2:
			return gc("/", g.pvar(), gi(1))
		case 3:
			return gc("/", ga("p"), ga("a"))
		case 4:
			return gc("/", ga("p"), gi(-1))
		case 5:
			return gc("/", gi(3), gi(1))
		case 6:
			return ga("p")
		case 7:
			return gc("/", ga("s"), gi(1))
		default:
			return gc("/", ga("zz"), gi(0))
		}
	}
	name, ar := g.pred()
	return gc("/", ga(name), gi(int64(ar)))
}

// rep: how the harness passes the argument of the operation (see c09Represent); "" = as a literal term
func (g *c09gen) rep() string {
	if g.r.Intn(20) < 11 {
		return ""
	}
	return fmt.Sprintf("@%d", 1+g.r.Intn(6))
}

// withRep puts a representation mode behind the operation word of a command
func (g *c09gen) withRep(cmd string) string {
	k := strings.IndexByte(cmd, ' ')
	if k < 0 {
		return cmd
	}
	return cmd[:k] + g.rep() + cmd[k:]
}

func (g *c09gen) update() string {
	return g.withRep(g.update0())
}

func (g *c09gen) update0() string {
	switch k := g.r.Intn(100); {
	case k < 6:
		return pick(g.r, []string{"az ", "aa "}) + g.badClause().wire()
	case k < 50:
		c := g.wrapBody(g.clauseHead())
		g.grow(c, 1)
		return "az " + c.wire()
	case k < 80:
		c := g.wrapBody(g.clauseHead())
		g.grow(c, 1)
		return "aa " + c.wire()
	case k < 88:
		return "ab " + g.piTerm().wire()
	default:
		if g.r.Intn(12) == 0 {
			return "ra " + pick(g.r, []*gt_c09{g.pvar(), gi(3), gc("s", g.pvar())}).wire()
		}
		return "ra " + g.pattern(false).wire()
	}
}

// nested: findall(T, (G1, ..., Gn), L).  Asserted clauses may hold variables of the goal (bound or not at
// that moment; some are guarded by atomic/1): a stored clause's variables are its own (D10 repaired).
func (g *c09gen) nested() string {
	for try := 0; try < 30; try++ {
		savePV := g.nextPV
		saveCV := g.nextCV
		text, ok := g.nestedTry()
		if ok {
			return text
		}
		g.nextPV, g.nextCV = savePV, saveCV
	}
	v := g.pvar()
	return "nest " + gc("t", v).wire() + " & c " + gc("p", v).wire()
}

// nestedTry generates a candidate and estimates its work: mult = product of the sizes of the predicates
// iterated so far.  Rejected: more than 150 activations of any goal; an assert into a predicate that an
// iterator other than the first one enumerates (that iterator is re-opened per outer solution and would
// see the database double every time).
func (g *c09gen) nestedTry() (string, bool) {
	mult := 1
	nIter := 0
	reopened := map[string]bool{}
	growth := map[string]int{}
	okSoFar := true
	noteIter := func(t *gt_c09) {
		pi := gtPI(t)
		if nIter > 0 {
			reopened[pi] = true
		}
		nIter++
		sz := g.size[pi]
		if sz < 1 {
			sz = 1
		}
		mult *= sz
		if mult > 150 {
			okSoFar = false
		}
	}
	noteAssert := func(c *gt_c09) {
		pi := gtPI(c)
		growth[pi] += c09AnswerBound(c) * mult
	}
	n := 2 + g.r.Intn(4)
	var goals []string
	var pvars []*gt_c09
	bound := []*gt_c09{} // pattern variables that may be bound by an earlier goal
	addVars := func(t *gt_c09) {
		for _, v := range t.vars(nil) {
			seen := false
			for _, b := range bound {
				if int(b.n) == v {
					seen = true
				}
			}
			if !seen {
				bound = append(bound, gv(v))
				pvars = append(pvars, gv(v))
			}
		}
	}
	iterPattern := func(forRetract bool) *gt_c09 {
		t := g.pattern(forRetract)
		// reuse an earlier variable now and then:  p(X), retract(p(X))
		if len(bound) > 0 && g.r.Intn(3) == 0 && t.k == 'C' {
			t = &gt_c09{k: 'C', s: t.s, args: append([]*gt_c09(nil), t.args...)}
			if t.s == ":-" {
				h := t.args[0]
				if h.k == 'C' {
					h = &gt_c09{k: 'C', s: h.s, args: append([]*gt_c09(nil), h.args...)}
					h.args[g.r.Intn(len(h.args))] = pick(g.r, bound)
					t.args[0] = h
				}
			} else {
				t.args[g.r.Intn(len(t.args))] = pick(g.r, bound)
			}
		}
		return t
	}
	for i := 0; i < n; i++ {
		k := g.r.Intn(100)
		if i == 0 {
			k = g.r.Intn(45) // start with an iterator
		}
		switch {
		case k < 25:
			t := iterPattern(false)
			goals = append(goals, "c"+g.rep()+" "+t.wire())
			addVars(t)
			noteIter(t)
		case k < 45:
			t := iterPattern(true)
			goals = append(goals, "r"+g.rep()+" "+t.wire())
			addVars(t)
			noteIter(t)
		case k < 85:
			// assert: ground clause, or a fact over guarded pattern variables
			name, ar := g.pred()
			args := make([]*gt_c09, ar)
			useVar := len(bound) > 0 && g.r.Intn(2) == 0
			var guards []string
			unguarded := false
			for j := range args {
				if useVar && g.r.Intn(2) == 0 {
					v := pick(g.r, bound)
					args[j] = v
					if g.r.Intn(2) == 0 {
						guards = append(guards, "at "+v.wire())
					} else {
						unguarded = true
					}
				} else {
					args[j] = g.constant()
				}
			}
			c := mk(name, args)
			if len(guards) == 0 || unguarded {
				c = g.wrapBody(c)
			}
			goals = append(goals, guards...)
			goals = append(goals, g.withRep(pick(g.r, []string{"az ", "az ", "aa "})+c.wire()))
			noteAssert(c)
		case k < 90:
			goals = append(goals, "ab"+g.rep()+" "+g.piTerm().wire())
		case k < 97:
			t := g.pattern(false)
			goals = append(goals, "ra"+g.rep()+" "+t.wire()) // its variables stay unbound
		default:
			goals = append(goals, pick(g.r, []string{"az ", "aa "})+g.badClause().wire())
		}
	}
	for pi := range growth {
		if reopened[pi] {
			okSoFar = false
		}
	}
	if !okSoFar {
		return "", false
	}
	for pi, n := range growth {
		g.size[pi] += n
	}
	tmpl := mk("t", pvars)
	return "nest " + tmpl.wire() + " & " + strings.Join(goals, " & "), true
}

func genC09Case(r *rand.Rand, tier string) string {
	g := &c09gen{r: r, nextCV: 100, focus: pick(r, []string{"p", "p", "q", "any"}), size: map[string]int{"s/1": 2}}
	var cmds []string
	// setup: a few clauses, duplicates and variables likely
	for i, n := 0, 1+r.Intn(5); i < n; i++ {
		c := g.wrapBody(g.clauseHead())
		cmds = append(cmds, g.withRep("az "+c.wire()))
		g.grow(c, 1)
		if r.Intn(4) == 0 {
			cmds = append(cmds, "az "+g.variant(c).wire()) // duplicate (up to renaming)
			g.grow(c, 1)
		}
	}
	mode := r.Intn(10)
	maxOps := 12
	if tier == "thorough" {
		maxOps = 18
	}
	switch {
	case mode < 6: // interleaved
		var its []int
		nOps := 3 + r.Intn(maxOps-2)
		for i := 0; i < nOps; i++ {
			k := r.Intn(100)
			switch {
			case (k < 25 || len(its) == 0) && len(its) < 4:
				id := len(its)
				its = append(its, id)
				if r.Intn(2) == 0 {
					cmds = append(cmds, fmt.Sprintf("oc%s %d %s", g.rep(), id, g.pattern(false).wire()))
				} else {
					cmds = append(cmds, fmt.Sprintf("or%s %d %s", g.rep(), id, g.pattern(true).wire()))
				}
				if r.Intn(10) < 7 {
					cmds = append(cmds, fmt.Sprintf("nx %d", id))
				}
			case k < 60:
				cmds = append(cmds, fmt.Sprintf("nx %d", pick(r, its)))
			case k < 64:
				cmds = append(cmds, fmt.Sprintf("cl %d", pick(r, its)))
			case k < 94:
				cmds = append(cmds, g.update())
			default:
				cmds = append(cmds, "ls")
			}
		}
	case mode < 9: // nested
		for i, n := 0, 1+r.Intn(2); i < n; i++ {
			cmds = append(cmds, g.nested())
			if r.Intn(3) == 0 {
				cmds = append(cmds, "ls")
			}
		}
	default: // mixed: a nested goal while iterators are open
		cmds = append(cmds, fmt.Sprintf("oc 0 %s", g.pattern(false).wire()), "nx 0")
		cmds = append(cmds, fmt.Sprintf("or 1 %s", g.pattern(true).wire()), "nx 1")
		cmds = append(cmds, g.nested(), "nx 0", "nx 1", g.update(), "nx 1", "nx 0")
	}
	return strings.Join(cmds, " ; ")
}

// c09Exhaustive: every history of at most 4 operations over one predicate with three clauses (one
// duplicated), two open retracts and one open call — all interleavings, LIFO or not.
func c09Exhaustive() []string {
	setup := "az C1:p I1 ; az C1:p I2 ; az C1:p I1"
	x := gv(100)
	alphabet := []string{"or 0 C1:p V0", "or 1 C1:p I1", "oc 2 C1:p V1", "nx 0", "nx 1", "nx 2",
		"aa C1:p I0", "az C1:p I1", "ab C2:/ Ap I1", "ra C1:p I1",
		// one assert = several clauses, in the order of the alternatives
		"aa " + grule(gc("p", x), gc(";", gc("=", x, gi(5)), gc("=", x, gi(1)))).wire(),
		"az " + grule(gc("p", x), gc(";", gc("=", x, gi(1)), gc(";", ga("fail"), gc("=", x, gi(7))))).wire()}
	var out []string
	var rec func(prefix []string, depth int)
	rec = func(prefix []string, depth int) {
		if len(prefix) > 0 {
			out = append(out, setup+" ; "+strings.Join(prefix, " ; "))
		}
		if depth == 0 {
			return
		}
		for _, a := range alphabet {
			rec(append(append([]string(nil), prefix...), a), depth-1)
		}
	}
	rec(nil, 4)
	return out
}

func genC09(r *rand.Rand, n int, tier string) []string {
	out := make([]string, 0, n)
	if tier == "thorough" {
		out = append(out, c09Exhaustive()...)
	}
	for i := 0; i < n; i++ {
		out = append(out, genC09Case(r, tier))
	}
	return out
}

// ---------------------------------------------------------------------------------------------
// runner
// ---------------------------------------------------------------------------------------------

var c09Universe = []struct {
	name  string
	arity int
}{{"p", 1}, {"q", 2}, {"r", 0}, {"s", 1}}

// plText renders a term as Prolog text in canonical (functional) notation.
func plText(t engine.Term, names map[engine.Variable]string) string {
	switch t := t.(type) {
	case engine.Variable:
		if n, ok := names[t]; ok {
			return n
		}
		n := fmt.Sprintf("V%d", len(names))
		names[t] = n
		return n
	case engine.Atom:
		return plAtom(t.String())
	case engine.Integer:
		if t < 0 {
			return fmt.Sprintf("(%d)", int64(t))
		}
		return fmt.Sprintf("%d", int64(t))
	case engine.Compound:
		args := make([]string, t.Arity())
		for i := range args {
			args[i] = plText(t.Arg(i), names)
		}
		return plAtom(t.Functor().String()) + "(" + strings.Join(args, ",") + ")"
	}
	panic(fmt.Sprintf("plText: unsupported %T", t))
}

func plAtom(s string) string {
	plain := s != "" && s[0] >= 'a' && s[0] <= 'z'
	for i := 0; plain && i < len(s); i++ {
		c := s[i]
		plain = c == '_' || (c >= '0' && c <= '9') || (c >= 'a' && c <= 'z') || (c >= 'A' && c <= 'Z')
	}
	if plain {
		return s
	}
	return "'" + strings.NewReplacer(`\`, `\\`, `'`, `\'`).Replace(s) + "'"
}

// termCapture receives a solution's binding as a term (prolog.Scanner).
type termCapture struct {
	t   engine.Term
	env *engine.Env
}

func (c *termCapture) Scan(_ *engine.VM, t engine.Term, env *engine.Env) error {
	c.t, c.env = t, env
	return nil
}

type c09iter struct {
	mode    int
	retract bool
	term    engine.Term
	pi      string
	sols    *prolog.Solutions
	state   int // 0 pending, 1 running, 2 done
}

func c09PI(t engine.Term) string {
	if c, ok := t.(engine.Compound); ok && c.Functor().String() == ":-" && c.Arity() == 2 {
		t = c.Arg(0)
	}
	switch t := t.(type) {
	case engine.Atom:
		return t.String() + "/0"
	case engine.Compound:
		return fmt.Sprintf("%s/%d", t.Functor().String(), t.Arity())
	}
	return "?"
}

func c09List(i *prolog.Interpreter) string {
	procs := map[string]engine.VerifProc{}
	for _, p := range i.VM.VerifProcedures() {
		procs[fmt.Sprintf("%s/%d", p.Name, p.Arity)] = p
	}
	var parts []string
	for _, u := range c09Universe {
		key := fmt.Sprintf("%s/%d", u.name, u.arity)
		p, ok := procs[key]
		if !ok {
			parts = append(parts, key+":U[]")
			continue
		}
		var hook []string
		for _, c := range p.Clauses {
			hook = append(hook, wire(c09Rulify(c.Raw), nil, newVarNamer()))
		}
		if !p.Dynamic {
			parts = append(parts, key+":S["+strings.Join(hook, ", ")+"]")
			continue
		}
		// dynamic: clause/2 + findall/3
		args := make([]engine.Term, u.arity)
		for j := range args {
			args[j] = engine.NewVariable()
		}
		h, b, l := atom(u.name).Apply(args...), engine.NewVariable(), engine.NewVariable()
		var rows []string
		failed := ""
		_, err := solve(&i.VM, compound("findall", compound(":-", h, b), compound("clause", h, b), l), 1, 10*time.Second,
			func(env *engine.Env) bool {
				it := engine.ListIterator{List: l, Env: env}
				for it.Next() {
					rows = append(rows, wire(it.Current(), env, newVarNamer()))
				}
				return false
			})
		if err != nil {
			failed = " LISTING-ERROR " + errWire(err)
		} else if strings.Join(rows, ", ") != strings.Join(hook, ", ") {
			failed = " LISTING-MISMATCH hook=[" + strings.Join(hook, ", ") + "]"
		}
		parts = append(parts, key+":D["+strings.Join(rows, ", ")+"]"+failed)
	}
	return "ls " + strings.Join(parts, " ")
}

func c09Rulify(t engine.Term) engine.Term {
	if c, ok := t.(engine.Compound); ok && c.Functor().String() == ":-" && c.Arity() == 2 {
		return t
	}
	return compound(":-", t, atom("true"))
}


// c09Represent: the same abstract argument t in another Go representation — through variables that earlier
// goals of the SAME conjunction bind (the builtin then gets an unresolved variable plus the environment).
//   1 the whole argument through a variable          C = T, op(C)
//   2 through a chain of two variables               C = C0, C0 = T, op(C)
//   3 the head through a variable                    H = Head, op((H :- B))
//   4 the body through a variable                    B = Body, op((Head :- B))
//   5 the arguments of the head / the parts of Name/Arity through variables
func c09Represent(m int, t engine.Term) (pre []engine.Term, arg engine.Term) {
	eq := func(a, b engine.Term) engine.Term { return compound("=", a, b) }
	whole := func() ([]engine.Term, engine.Term) {
		c := engine.NewVariable()
		return []engine.Term{eq(c, t)}, c
	}
	viaArgs := func(h engine.Term) ([]engine.Term, engine.Term) {
		c, ok := h.(engine.Compound)
		if !ok {
			return nil, nil
		}
		var pre []engine.Term
		args := make([]engine.Term, c.Arity())
		for i := range args {
			v := engine.NewVariable()
			pre = append(pre, eq(v, c.Arg(i)))
			args[i] = v
		}
		return pre, c.Functor().Apply(args...)
	}
	rule, isRule := t.(engine.Compound)
	isRule = isRule && rule.Functor().String() == ":-" && rule.Arity() == 2
	if m == 6 {
		// 6 DEEP: every list cell chain becomes a slice-backed list (what the reader builds) and every atomic
		//   leaf below the arguments of the head is reached through a variable   V = b, op(p([a, k(V)]))
		var pre []engine.Term
		var walk func(t engine.Term, depth int) engine.Term
		walk = func(t engine.Term, depth int) engine.Term {
			switch x := t.(type) {
			case engine.Compound:
				var elems []engine.Term
				it := engine.ListIterator{List: x}
				for it.Next() {
					elems = append(elems, it.Current())
				}
				if it.Err() == nil && len(elems) > 0 {
					for k := range elems {
						elems[k] = walk(elems[k], depth+1)
					}
					return engine.List(elems...)
				}
				args := make([]engine.Term, x.Arity())
				for k := range args {
					args[k] = walk(x.Arg(k), depth+1)
				}
				return x.Functor().Apply(args...)
			case engine.Atom, engine.Integer:
				if depth >= 2 {
					v := engine.NewVariable()
					pre = append(pre, eq(v, t))
					return v
				}
			}
			return t
		}
		if isRule {
			h := walk(rule.Arg(0), 0)
			return pre, compound(":-", h, rule.Arg(1))
		}
		a := walk(t, 0)
		return pre, a
	}
	switch m {
	case 1:
		return whole()
	case 2:
		c, c0 := engine.NewVariable(), engine.NewVariable()
		return []engine.Term{eq(c, c0), eq(c0, t)}, c
	case 3:
		if isRule {
			h := engine.NewVariable()
			return []engine.Term{eq(h, rule.Arg(0))}, compound(":-", h, rule.Arg(1))
		}
	case 4:
		if isRule {
			b := engine.NewVariable()
			return []engine.Term{eq(b, rule.Arg(1))}, compound(":-", rule.Arg(0), b)
		}
		return whole()
	}
	if m >= 3 {
		if isRule {
			if pre, h := viaArgs(rule.Arg(0)); h != nil {
				return pre, compound(":-", h, rule.Arg(1))
			}
		} else if pre, h := viaArgs(t); h != nil {
			return pre, h
		}
		return whole()
	}
	return nil, t
}

func c09Mode(word string) (string, int) {
	if k := strings.IndexByte(word, '@'); k >= 0 {
		m, err := strconv.Atoi(word[k+1:])
		must(err)
		return word[:k], m
	}
	return word, 0
}

func c09Conj(goals []engine.Term) engine.Term {
	conj := goals[len(goals)-1]
	for j := len(goals) - 2; j >= 0; j-- {
		conj = compound(",", goals[j], conj)
	}
	return conj
}

func runC09(payload string) string {
	i, _ := newInterp("")
	must(i.Exec(":- dynamic(p/1).\ns(1).\ns(2).\n"))
	reached := map[int64]bool{}
	i.Register1(engine.NewAtom("$mark"), func(_ *engine.VM, n engine.Term, k engine.Cont, env *engine.Env) *engine.Promise {
		if v, ok := env.Resolve(n).(engine.Integer); ok {
			reached[int64(v)] = true
		}
		return k(env)
	})

	iters := map[int]*c09iter{}
	var res []string
	updOpen, errs, nests, steps, reps := 0, 0, 0, 0, 0
	mode := map[string]bool{}

	openOn := func(pi string, except *c09iter) bool {
		for _, it := range iters {
			if it != except && it.state == 1 && it.pi == pi {
				return true
			}
		}
		return false
	}
	oneShot := func(goal engine.Term) string {
		r := solveOnce(&i.VM, goal)
		if strings.HasPrefix(r, "err") || strings.HasPrefix(r, "panic") {
			errs++
		}
		return r
	}
	defer func() {
		for _, it := range iters {
			if it.sols != nil && it.state == 1 {
				_ = it.sols.Close()
			}
		}
	}()

	for _, cmd := range strings.Split(payload, " ; ") {
		f := strings.SplitN(strings.TrimSpace(cmd), " ", 2)
		arg := ""
		if len(f) > 1 {
			arg = f[1]
		}
		rep := 0
		f[0], rep = c09Mode(f[0])
		if rep > 0 {
			reps++
		}
		switch f[0] {
		case "az", "aa", "ab", "ra":
			ts, err := newTermDecoder().terms(arg)
			must(err)
			name := map[string]string{"az": "assertz", "aa": "asserta", "ab": "abolish", "ra": "retractall"}[f[0]]
			pi := c09PI(ts[0])
			if f[0] == "ab" {
				if c, ok := ts[0].(engine.Compound); ok && c.Arity() == 2 {
					pi = fmt.Sprintf("%v/%v", c.Arg(0), c.Arg(1))
				}
			}
			pre, a := c09Represent(rep, ts[0])
			r := oneShot(c09Conj(append(pre, compound(name, a)))) // ONE top-level conjunction
			if r == "true" && openOn(pi, nil) {
				updOpen++
			}
			res = append(res, r)
		case "oc", "or":
			g := strings.SplitN(arg, " ", 2)
			k, err := strconv.Atoi(g[0])
			must(err)
			ts, err := newTermDecoder().terms(g[1])
			must(err)
			iters[k] = &c09iter{retract: f[0] == "or", term: ts[0], pi: c09PI(ts[0]), mode: rep}
			res = append(res, "-")
			mode["inter"] = true
		case "nx":
			k, err := strconv.Atoi(arg)
			must(err)
			it := iters[k]
			if it == nil || it.state == 2 {
				res = append(res, "done")
				break
			}
			steps++
			if it.state == 0 {
				names := map[engine.Variable]string{}
				pre, a := c09Represent(it.mode, it.term)
				text := ""
				for _, g := range pre {
					text += plText(g, names) + ", "
				}
				at := plText(a, names)
				if it.retract {
					text += "retract(" + at + "), R = " + at + "."
				} else {
					text += at + ", R = " + at + "."
				}
				sols, err := i.Query(text)
				must(err)
				it.sols, it.state = sols, 1
			}
			if it.sols.Next() {
				m := map[string]termCapture{}
				must(it.sols.Scan(m))
				c := m["R"]
				res = append(res, "ans "+wire(c.t, c.env, newVarNamer()))
				if it.retract && openOn(it.pi, it) {
					updOpen++
				}
			} else {
				it.state = 2
				if err := it.sols.Err(); err != nil {
					errs++
					res = append(res, errWire(err))
				} else {
					res = append(res, "no")
				}
			}
		case "cl":
			k, err := strconv.Atoi(arg)
			must(err)
			if it := iters[k]; it != nil {
				if it.state == 1 {
					_ = it.sols.Close()
				}
				it.state = 2
			}
			res = append(res, "-")
		case "ls":
			res = append(res, c09List(i))
		case "nest":
			nests++
			mode["nest"] = true
			parts := strings.Split(arg, " & ")
			d := newTermDecoder()
			ts, err := d.terms(parts[0])
			must(err)
			tmpl := ts[0]
			var goals []engine.Term
			type upd struct {
				mark int64
				pi   string
			}
			var iterPIs []string // iterator goals so far (they are open when a later goal runs)
			var upds []upd
			anyOuter := func(pi string) bool { return openOn(pi, nil) }
			for gi, gs := range parts[1:] {
				g := strings.SplitN(strings.TrimSpace(gs), " ", 2)
				ts, err := d.terms(g[1])
				must(err)
				t := ts[0]
				mark := compound("$mark", engine.Integer(gi))
				pi := c09PI(t)
				gmode := 0
				g[0], gmode = c09Mode(g[0])
				if gmode > 0 {
					reps++
				}
				gpre, ga := c09Represent(gmode, t)
				goals = append(goals, gpre...)
				switch g[0] {
				case "c":
					goals = append(goals, ga)
					iterPIs = append(iterPIs, pi)
				case "r":
					goals = append(goals, compound("retract", ga), mark)
					for _, ip := range iterPIs {
						if ip == pi {
							upds = append(upds, upd{int64(gi), pi})
						}
					}
					if anyOuter(pi) {
						upds = append(upds, upd{int64(gi), pi})
					}
					iterPIs = append(iterPIs, pi)
				case "az", "aa", "ra", "ab":
					name := map[string]string{"az": "assertz", "aa": "asserta", "ab": "abolish", "ra": "retractall"}[g[0]]
					if g[0] == "ab" {
						if c, ok := t.(engine.Compound); ok && c.Arity() == 2 {
							pi = fmt.Sprintf("%v/%v", c.Arg(0), c.Arg(1))
						}
					}
					goals = append(goals, compound(name, ga), mark)
					for _, ip := range iterPIs {
						if ip == pi {
							upds = append(upds, upd{int64(gi), pi})
						}
					}
					if anyOuter(pi) {
						upds = append(upds, upd{int64(gi), pi})
					}
				case "at":
					goals = append(goals, compound("atomic", ga))
				default:
					panic("bad nested goal " + g[0])
				}
			}
			conj := goals[len(goals)-1]
			for j := len(goals) - 2; j >= 0; j-- {
				conj = compound(",", goals[j], conj)
			}
			for k := range reached {
				delete(reached, k)
			}
			l := engine.NewVariable()
			var rows []string
			_, err = solve(&i.VM, compound("findall", tmpl, conj, l), 1, 20*time.Second, func(env *engine.Env) bool {
				it := engine.ListIterator{List: l, Env: env}
				for it.Next() {
					rows = append(rows, wire(it.Current(), env, newVarNamer()))
				}
				return false
			})
			for _, u := range upds {
				if reached[u.mark] {
					updOpen++
					break
				}
			}
			if err != nil {
				errs++
				res = append(res, errWire(err))
			} else {
				res = append(res, "sols ["+strings.Join(rows, ", ")+"]")
			}
		default:
			panic("bad command " + f[0])
		}
	}
	res = append(res, c09List(i))
	nt := 0
	if updOpen > 0 {
		nt = 1
	}
	var ms []string
	for m := range mode {
		ms = append(ms, m)
	}
	sort.Strings(ms)
	m := strings.Join(ms, "+")
	if m == "" {
		m = "seq"
	}
	bucket := func(n int) string {
		switch {
		case n == 0:
			return "0"
		case n <= 2:
			return "1-2"
		case n <= 5:
			return "3-5"
		default:
			return "6+"
		}
	}
	// asserts of a rule whose body is a top-level disjunction: one assert = several stored clauses
	multiA, multiZ := 0, 0
	for _, cmd := range strings.FieldsFunc(payload, func(r rune) bool { return r == ';' || r == '&' }) {
		f := strings.Fields(cmd)
		if len(f) >= 4 && f[1] == "C2::-" {
			// skip the head, look at the functor of the body
			k, need := 2, 1
			for need > 0 && k < len(f) {
				need--
				if strings.HasPrefix(f[k], "C") {
					if n, err := strconv.Atoi(f[k][1:strings.IndexByte(f[k], ':')]); err == nil {
						need += n
					}
				}
				k++
			}
			if k < len(f) && f[k] == "C2:%3b" && !(k+1 < len(f) && f[k+1] == "C2:->") {
				switch w, _ := c09Mode(f[0]); w {
				case "aa":
					multiA++
				case "az":
					multiZ++
				}
			}
		}
	}
	return strings.Join(res, " ; ") + fmt.Sprintf(" ### nt=%d mode=%s upd_while_open=%s errors=%s steps=%s asserta_block=%s assertz_block=%s through_variables=%s", nt, m, bucket(updOpen), bucket(errs), bucket(steps), bucket(multiA), bucket(multiZ), bucket(reps))
}
