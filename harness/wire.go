package main

import (
	"fmt"
	"math"
	"strconv"
	"strings"

	"github.com/ichiban/prolog/engine"
)

// ---------------------------------------------------------------------------
// wire format (see lean/PrologVerif/Basic.lean)
// ---------------------------------------------------------------------------

func encName(s string) string {
	var sb strings.Builder
	for i := 0; i < len(s); i++ {
		b := s[i]
		if (b >= '0' && b <= '9') || (b >= 'A' && b <= 'Z') || (b >= 'a' && b <= 'z') || strings.IndexByte("_+-*/<>=.:^~@#$&?!\\", b) >= 0 {
			sb.WriteByte(b)
		} else {
			fmt.Fprintf(&sb, "%%%02x", b)
		}
	}
	return sb.String()
}

func decName(s string) (string, error) {
	var sb strings.Builder
	for i := 0; i < len(s); i++ {
		if s[i] == '%' {
			if i+2 >= len(s) {
				return "", fmt.Errorf("bad escape in %q", s)
			}
			n, err := strconv.ParseUint(s[i+1:i+3], 16, 8)
			if err != nil {
				return "", err
			}
			sb.WriteByte(byte(n))
			i += 2
		} else {
			sb.WriteByte(s[i])
		}
	}
	return sb.String(), nil
}

// varNamer renames variables by first occurrence.
type varNamer struct {
	m map[engine.Variable]int
}

func newVarNamer() *varNamer { return &varNamer{m: map[engine.Variable]int{}} }

func (vn *varNamer) name(v engine.Variable) int {
	if n, ok := vn.m[v]; ok {
		return n
	}
	n := len(vn.m)
	vn.m[v] = n
	return n
}

// encTerm writes the resolved term in wire format. raw=true keeps variable numbers.
func encTerm(sb *strings.Builder, t engine.Term, env *engine.Env, vn *varNamer) {
	if sb.Len() > 0 {
		sb.WriteByte(' ')
	}
	switch t := env.Resolve(t).(type) {
	case engine.Variable:
		if vn == nil {
			fmt.Fprintf(sb, "V%d", int64(t))
		} else {
			fmt.Fprintf(sb, "V%d", vn.name(t))
		}
	case engine.Atom:
		sb.WriteString("A" + encName(t.String()))
	case engine.Integer:
		fmt.Fprintf(sb, "I%d", int64(t))
	case engine.Float:
		fmt.Fprintf(sb, "F%016x", math.Float64bits(float64(t)))
	case engine.Compound:
		fmt.Fprintf(sb, "C%d:%s", t.Arity(), encName(t.Functor().String()))
		for i := 0; i < t.Arity(); i++ {
			encTerm(sb, t.Arg(i), env, vn)
		}
	case *engine.Stream:
		sb.WriteString("S0")
	default:
		fmt.Fprintf(sb, "A%s", encName(fmt.Sprintf("$unknown(%T)", t)))
	}
}

func wire(t engine.Term, env *engine.Env, vn *varNamer) string {
	var sb strings.Builder
	encTerm(&sb, t, env, vn)
	return sb.String()
}

// wireRaw: no env, no renaming (for generated case terms)
func wireRaw(t engine.Term) string { return wire(t, nil, nil) }

// decTerm parses one term from tokens; variables V<n> are mapped through vars (created on demand).
type termDecoder struct {
	vars map[int]engine.Variable
}

func newTermDecoder() *termDecoder { return &termDecoder{vars: map[int]engine.Variable{}} }

func (d *termDecoder) variable(n int) engine.Variable {
	if v, ok := d.vars[n]; ok {
		return v
	}
	v := engine.NewVariable()
	d.vars[n] = v
	return v
}

func (d *termDecoder) dec(toks []string) (engine.Term, []string, error) {
	if len(toks) == 0 {
		return nil, nil, fmt.Errorf("unexpected end of tokens")
	}
	tok, rest := toks[0], toks[1:]
	if tok == "" {
		return nil, nil, fmt.Errorf("empty token")
	}
	body := tok[1:]
	switch tok[0] {
	case 'V':
		n, err := strconv.Atoi(body)
		if err != nil {
			return nil, nil, err
		}
		return d.variable(n), rest, nil
	case 'A':
		s, err := decName(body)
		if err != nil {
			return nil, nil, err
		}
		return engine.NewAtom(s), rest, nil
	case 'I':
		n, err := strconv.ParseInt(body, 10, 64)
		if err != nil {
			return nil, nil, err
		}
		return engine.Integer(n), rest, nil
	case 'F':
		n, err := strconv.ParseUint(body, 16, 64)
		if err != nil {
			return nil, nil, err
		}
		return engine.Float(math.Float64frombits(n)), rest, nil
	case 'C':
		i := strings.IndexByte(body, ':')
		if i < 0 {
			return nil, nil, fmt.Errorf("bad compound token %q", tok)
		}
		n, err := strconv.Atoi(body[:i])
		if err != nil {
			return nil, nil, err
		}
		f, err := decName(body[i+1:])
		if err != nil {
			return nil, nil, err
		}
		args := make([]engine.Term, n)
		for j := 0; j < n; j++ {
			var a engine.Term
			a, rest, err = d.dec(rest)
			if err != nil {
				return nil, nil, err
			}
			args[j] = a
		}
		return engine.NewAtom(f).Apply(args...), rest, nil
	}
	return nil, nil, fmt.Errorf("bad token %q", tok)
}

func (d *termDecoder) terms(s string) ([]engine.Term, error) {
	toks := strings.Fields(s)
	var out []engine.Term
	for len(toks) > 0 {
		t, rest, err := d.dec(toks)
		if err != nil {
			return nil, err
		}
		out = append(out, t)
		toks = rest
	}
	return out, nil
}
