/-
  quote / unquote: the scanner of the escape pattern undoes `quote` character by character.
-/
import PrologVerif.Model.Write
set_option linter.unusedSimpArgs false
set_option linter.unusedVariables false
namespace PrologVerif.Write
open PrologVerif PrologVerif.Lexer

variable (cfg : Cfg)

/-! ## characters -/

theorem sq_ne (c : Char) (h : isSingleQuotedCharacter cfg c = true) : c ≠ '\'' ∧ c ≠ '\\' ∧ c ≠ '\n' := by
  refine ⟨?_, ?_, ?_⟩ <;> intro e <;> subst e
  · have : isSingleQuotedCharacter cfg '\'' = false := rfl
    simp [this] at h
  · have : isSingleQuotedCharacter cfg '\\' = false := rfl
    simp [this] at h
  · have : isSingleQuotedCharacter cfg '\n' = false := rfl
    simp [this] at h

/-- a lower-case hexadecimal digit as `fmt.Sprintf("%x")` prints it -/
def HexD (d : Char) : Prop := ∃ k, k < 16 ∧ d = hexDigitLower k

theorem hexDigitLower_facts (k : Nat) (h : k < 16) :
    isHexAscii (hexDigitLower k) = true ∧ hexDigitVal (hexDigitLower k) = k ∧ hexDigitLower k ≠ '\\' ∧
    isHexadecimalDigitChar cfg (hexDigitLower k) = true := by
  have h16 : k = 0 ∨ k = 1 ∨ k = 2 ∨ k = 3 ∨ k = 4 ∨ k = 5 ∨ k = 6 ∨ k = 7 ∨ k = 8 ∨ k = 9 ∨ k = 10 ∨
      k = 11 ∨ k = 12 ∨ k = 13 ∨ k = 14 ∨ k = 15 := by omega
  rcases h16 with h|h|h|h|h|h|h|h|h|h|h|h|h|h|h|h <;> subst h <;>
    exact ⟨rfl, rfl, by decide, rfl⟩

/-- value of a digit string, as `strconv.ParseInt(s, 16, …)` computes it -/
def hexVal (ds : List Char) : Nat := ds.foldl (fun acc c => acc * 16 + hexDigitVal c) 0

theorem foldl_hex (ds : List Char) (a : Nat) :
    ds.foldl (fun acc c => acc * 16 + hexDigitVal c) a = a * 16 ^ ds.length + hexVal ds := by
  induction ds generalizing a with
  | nil => simp [hexVal]
  | cons d ds ih =>
    simp only [List.foldl_cons, List.length_cons, hexVal]
    rw [ih, ih (0 * 16 + hexDigitVal d)]
    simp [Nat.pow_succ, Nat.add_mul, Nat.mul_assoc, Nat.mul_comm 16, Nat.add_assoc]

theorem hexVal_append (xs ys : List Char) : hexVal (xs ++ ys) = hexVal xs * 16 ^ ys.length + hexVal ys := by
  unfold hexVal
  rw [List.foldl_append, foldl_hex]
  rfl

theorem hexDigitsAux_spec (fuel n : Nat) (acc : List Char) (h : n < 16 ^ fuel) (hf : 0 < fuel) :
    ∃ ds, hexDigitsAux fuel n acc = ds ++ acc ∧ ds ≠ [] ∧ (∀ d ∈ ds, HexD d) ∧ hexVal ds = n := by
  induction fuel generalizing n acc with
  | zero => omega
  | succ fuel ih =>
    unfold hexDigitsAux
    split
    · rename_i hlt
      refine ⟨[hexDigitLower n], rfl, by simp, ?_, ?_⟩
      · intro d hd; simp at hd; exact ⟨n, hlt, hd⟩
      · simp [hexVal, (hexDigitLower_facts Cfg.ascii n hlt).2.1]
    · rename_i hge
      have hn : n / 16 < 16 ^ fuel := by
        rw [Nat.div_lt_iff_lt_mul (by decide)]
        rw [Nat.pow_succ] at h; exact h
      have hfu : 0 < fuel := by
        rcases fuel with _ | f
        · simp at h; omega
        · omega
      obtain ⟨ds, h1, h2, h3, h4⟩ := ih (n / 16) (hexDigitLower (n % 16) :: acc) hn hfu
      have hm : n % 16 < 16 := Nat.mod_lt _ (by decide)
      refine ⟨ds ++ [hexDigitLower (n % 16)], by simp [h1], by simp, ?_, ?_⟩
      · intro d hd
        simp at hd
        rcases hd with hd | hd
        · exact h3 d hd
        · exact ⟨n % 16, hm, hd⟩
      · rw [hexVal_append, h4]
        simp [hexVal, (hexDigitLower_facts Cfg.ascii _ hm).2.1]
        omega

theorem hexDigits_spec (n : Nat) (h : n < 16 ^ 8) :
    hexDigits n ≠ [] ∧ (∀ d ∈ hexDigits n, HexD d) ∧ hexVal (hexDigits n) = n := by
  obtain ⟨ds, h1, h2, h3, h4⟩ := hexDigitsAux_spec 8 n [] h (by decide)
  simp only [List.append_nil] at h1
  unfold hexDigits
  rw [h1]
  exact ⟨h2, h3, h4⟩

theorem char_valid' (c : Char) : c.toNat < 55296 ∨ 57343 < c.toNat ∧ c.toNat < 1114112 := c.valid

theorem char_lt (c : Char) : c.toNat < 16 ^ 8 := by
  have := char_valid' c
  omega

/-! ## the scanner on the output of `quote` -/

theorem scan_norm_plain (q c : Char) (cs : List Char) (h1 : c ≠ q) (h2 : c ≠ '\\') :
    scan q .norm (c :: cs) = .ch c :: scan q .norm cs := by
  simp [scan, h1, h2]

theorem scan_hex (q : Char) (ds acc rest : List Char) (hds : ∀ d ∈ ds, isHexAscii d = true)
    (hne : acc ++ ds ≠ []) :
    scan q (.hex acc) (ds ++ '\\' :: rest) = .num 16 (acc ++ ds) :: scan q .norm rest := by
  induction ds generalizing acc with
  | nil =>
    have : isHexAscii '\\' = false := rfl
    simp at hne
    simp [scan, this, hne]
  | cons d ds ih =>
    have hd := hds d (by simp)
    simp only [List.cons_append, scan, hd, if_true]
    rw [ih (acc ++ [d]) (fun x hx => hds x (by simp [hx])) (by simp)]
    simp

theorem runeOfNat_toNat (c : Char) : runeOfNat c.toNat = c := by
  unfold runeOfNat
  have hv : c.toNat.isValidChar := c.valid
  have := Char.ofNat_toNat c
  unfold Char.ofNat at this
  simp only [hv, dite_true] at this ⊢
  exact this

theorem hexDigits_noBad (c : Char) :
    (hexDigits c.toNat).any (fun d => decide (hexDigitVal d ≥ 16)) = false := by
  obtain ⟨h1, h2, h3⟩ := hexDigits_spec c.toNat (char_lt c)
  rw [List.any_eq_false]
  intro d hd
  obtain ⟨k, hk, rfl⟩ := h2 d hd
  simp [(hexDigitLower_facts Cfg.ascii k hk).2.1]; omega

theorem hexDigits_fold (c : Char) :
    (hexDigits c.toNat).foldl (fun acc c => acc * 16 + hexDigitVal c) 0 = c.toNat :=
  (hexDigits_spec c.toNat (char_lt c)).2.2

theorem parseIntBase_hexDigits (c : Char) : parseIntBase 16 (hexDigits c.toNat) = c.toNat := by
  unfold parseIntBase
  simp only [hexDigits_noBad, hexDigits_fold]
  have := char_valid' c
  have h : ¬ (c.toNat ≥ 2147483648) := by omega
  simp [h]

/-- the numeric escape `quote` writes for `c` is valid and denotes `c` -/
theorem num_hexDigits (c : Char) :
    (Item.num 16 (hexDigits c.toNat)).char = c ∧ (Item.num 16 (hexDigits c.toNat)).ok = true := by
  constructor
  · simp [Item.char, parseIntBase_hexDigits, runeOfNat_toNat]
  · have hv : c.toNat.isValidChar := c.valid
    simp [Item.ok, hexDigits_noBad, hexDigits_fold, hv]

/-- one escape sequence of `quotedIdentEscape` is one match of the pattern, denoting the character -/
theorem scan_escape (c : Char) (rest : List Char) :
    ∃ it, scan '\'' .norm (quotedIdentEscape c ++ rest) = it :: scan '\'' .norm rest ∧ it.char = c ∧ it.ok = true := by
  unfold quotedIdentEscape
  repeat' split
  all_goals first
    | (rename_i h; subst h; exact ⟨.ch _, by simp [scan, symbolicEscape], rfl, rfl⟩)
    | skip
  · -- hexadecimal
    obtain ⟨h1, h2, h3⟩ := hexDigits_spec c.toNat (char_lt c)
    refine ⟨.num 16 (hexDigits c.toNat), ?_, (num_hexDigits c).1, (num_hexDigits c).2⟩
    have hx : symbolicEscape 'x' = none := rfl
    have e : ('\\' :: 'x' :: hexDigits c.toNat ++ ['\\']) ++ rest =
        '\\' :: 'x' :: (hexDigits c.toNat ++ '\\' :: rest) := by simp
    rw [e, show scan '\'' .norm ('\\' :: 'x' :: (hexDigits c.toNat ++ '\\' :: rest)) =
        scan '\'' (.hex []) (hexDigits c.toNat ++ '\\' :: rest) by simp [scan, hx]]
    rw [scan_hex _ _ _ _ (fun d hd => by
      obtain ⟨k, hk, rfl⟩ := h2 d hd
      exact (hexDigitLower_facts Cfg.ascii k hk).1) (by simpa using h1)]
    simp

/-- scanning the body `quote` writes: one item per character of the atom -/
theorem scan_quoteBody (s rest : List Char) :
    ∃ items, scan '\'' .norm (quoteBody cfg s ++ rest) = items ++ scan '\'' .norm rest ∧
      items.map Item.char = s ∧ items.all Item.ok = true := by
  induction s with
  | nil => exact ⟨[], by simp [quoteBody], rfl, rfl⟩
  | cons c s ih =>
    obtain ⟨items, h1, h2, h3⟩ := ih
    unfold quoteBody
    split
    · rename_i hsq
      obtain ⟨hq, hb, _⟩ := sq_ne cfg c hsq
      refine ⟨.ch c :: items, ?_, by simp [h2, Item.char], by simp [h3, Item.ok]⟩
      have e : [c] ++ quoteBody cfg s ++ rest = c :: (quoteBody cfg s ++ rest) := by simp
      rw [e, scan_norm_plain _ _ _ hq hb, h1]
      simp
    · obtain ⟨it, e1, e2, e3⟩ := scan_escape c (quoteBody cfg s ++ rest)
      refine ⟨it :: items, ?_, by simp [h2, e2], by simp [h3, e3]⟩
      rw [List.append_assoc, e1, h1]
      simp

theorem stripEnds_quote (s : List Char) : stripEnds (quote cfg s) = quoteBody cfg s := by
  simp [stripEnds, quote, List.dropLast_concat]

/-- (a) `unquote ∘ quote = id` -/
theorem unquote_quote (s : List Char) : unquote (quote cfg s) = s := by
  obtain ⟨items, h1, h2, h3⟩ := scan_quoteBody cfg s []
  simp only [List.append_nil] at h1
  simp [unquote, unescapeFrom, stripEnds_quote, h1, scan, h2]

/-- the escape sequences `quote` writes are all valid -/
theorem validEscapeSequences_quote (s : List Char) : validEscapeSequences (quote cfg s) = true := by
  obtain ⟨items, h1, h2, h3⟩ := scan_quoteBody cfg s []
  simp only [List.append_nil] at h1
  simp only [validEscapeSequences, stripEnds_quote, h1, scan, List.append_nil]
  exact h3

end PrologVerif.Write
