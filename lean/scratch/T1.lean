import PrologVerif.Proofs.Solutions
namespace PrologVerif.Solutions
open PrologVerif.Iter

theorem inv_pStep {q : Query} {s s' : Sys} (h : Inv q s) (hs : pStep q s = some s') : Inv q s' := by
  obtain ⟨ho, hc, hd, he, hsh⟩ := h
  rcases s with ⟨todo, hist, out, c, env, closed, done, more, moreClosed, nextClosed, p, pos, work, perr⟩
  simp only [specState] at *
  generalize hit : (run q hist).1 = it at *
  cases p <;> simp only [pStep, recvMore] at hs
  all_goals cases c <;> simp [Shape, Quiet] at hsh
  all_goals (repeat' split at hs)
  all_goals simp at hs
  all_goals subst hs
  all_goals (constructor <;> simp_all [Shape, specState, Quiet])
end PrologVerif.Solutions
