/-
  Reference semantics of a promise tree: the textbook recursive depth-first, left-to-right search
  with a cut barrier and catch/throw, written as a recursive function returning a signal — not as
  a stack machine.  `live` lists what is still pending on the path to the root, innermost first:
  the ids of delay nodes (their remaining alternatives) and, offset by `catchBase`, the catch
  frames.  A cut discards everything newer than its parent — choice points AND catch frames: in the
  engine this is how a cut in the continuation of an exited catch/3 removes that catch (a cut inside
  the goal of catch/3 itself can never do so, because Call gives the goal its own cut parent).
-/
import PrologVerif.Model.PTree
namespace PrologVerif.DFS
open PrologVerif.PTree

def catchBase : Nat := 1000000

inductive Sig where
  | found                -- a success leaf was reached: the search stops
  | failed               -- the subtree is exhausted
  | cutTo (c : Nat)      -- exhausted, and the alternatives of every node up to and including c are discarded
  | raised (e : Nat) (live : List Nat)  -- an error is travelling up; `live` = what was pending when it was raised
  | illScoped            -- a cut whose parent is not a live ancestor (outside the spec's domain)
  deriving DecidableEq, Repr

mutual
  def dfs : Nat → PT → List Nat → St → Option (Sig × St)
    | 0, _, _, _ => none
    | _ + 1, .ok, _, s => some (.found, s)
    | _ + 1, .fail, _, s => some (.failed, s)
    | _ + 1, .err e, live, s => some (.raised e live, s)
    | n + 1, .log k x, live, s => dfs n x live { s with trace := k :: s.trace }
    | n + 1, .set f b x, live, s => dfs n x live { s with flags := (f, b) :: s.flags }
    | n + 1, .delay id alts, live, s => dfsAlts n id alts (id :: live) { s with created := id :: s.created }
    | n + 1, .cut parent k, live, s =>
      let c := if s.created.contains parent then parent else 0
      if live.contains c then
        -- everything created since c was called is discarded, c's own remaining alternatives included;
        -- c itself stays as the barrier for later cuts of the same clause
        match dfs n k (live.dropWhile (· ≠ c)) s with
        | none => none
        | some (.failed, s') => some (.cutTo c, s')
        | some r => some r
      else some (.illScoped, s)
    | n + 1, .catch_ flag hs k, live, s =>
      match dfs n k ((catchBase + flag) :: live) s with
      | none => none
      | some (.raised e lv, s') =>
        -- it intercepts iff its frame has not been cut away and its flag says "active" at the
        -- moment the error arrives
        if lv.contains (catchBase + flag) && s'.flag flag then
          match hs.find e with
          | some t => dfs n t live s'
          | none => some (.raised e lv, s')
        else some (.raised e lv, s')
      | some r => some r
    | n + 1, .rep k, live, s =>
      match dfs n k live s with
      | none => none
      | some (.failed, s') => dfs n (.rep k) live s'
      | some r => some r
  def dfsAlts : Nat → Nat → PTs → List Nat → St → Option (Sig × St)
    | 0, _, _, _, _ => none
    | _ + 1, _, .nil, _, s => some (.failed, s)
    | n + 1, id, .cons t ts, live, s =>
      match dfs n t live s with
      | none => none
      | some (.failed, s') => dfsAlts n id ts live s'
      | some (.cutTo c, s') => if c = id then some (.failed, s') else some (.cutTo c, s')
      | some r => some r
end

end PrologVerif.DFS
