/-
  Proofs/StreamOrder.lean — "nothing lost, nothing delivered twice" spelled out for the bytes a
  binary stream delivers: the specification's judgement implies that the bytes handed out by the
  get_byte goals are, in program order, a prefix of the source.  Used by C19_bytes_in_order.
-/
import PrologVerif.Spec.Cursor
import PrologVerif.Proofs.StreamUtf8
namespace PrologVerif.Stream
open Spec

variable {σ : Type}

/-- the bytes delivered by the get_byte goals of one query, in program order -/
def gotBytesConj : List Op → List Result → List Nat
  | .getByte :: os, .byte b :: rs => b :: gotBytesConj os rs
  | _ :: os, _ :: rs => gotBytesConj os rs
  | _, _ => []

/-- … of a sequence of queries -/
def gotBytes : List (List Op) → List (List Result) → List Nat
  | q :: qs, r :: rs => gotBytesConj q r ++ gotBytes qs rs
  | _, _ => []

theorem pastAction_idx' (a : EofAction) (cu : Cursor) : (pastAction a cu).2.idx = cu.idx := by
  unfold pastAction; split
  · cases a <;> rfl
  · rfl

/-- the result a passing `check` accepted, for the operations whose result the specification fixes -/
theorem check_exact_getChar (c : SCfg) (sc : Scanner σ) (cu cu' : Cursor) (r : Result)
    (h : Spec.check c sc .getChar cu r = some cu') : Spec.readChar c true cu = (r, cu') := by
  simp only [Spec.check] at h
  split at h
  · rename_i heq; simp at h; rw [heq, ← h]
  · simp at h

theorem check_exact_peekChar (c : SCfg) (sc : Scanner σ) (cu cu' : Cursor) (r : Result)
    (h : Spec.check c sc .peekChar cu r = some cu') : Spec.readChar c false cu = (r, cu') := by
  simp only [Spec.check] at h
  split at h
  · rename_i heq; simp at h; rw [heq, ← h]
  · simp at h

theorem check_exact_getByte (c : SCfg) (sc : Scanner σ) (cu cu' : Cursor) (r : Result)
    (h : Spec.check c sc .getByte cu r = some cu') : Spec.readByte c true cu = (r, cu') := by
  simp only [Spec.check] at h
  split at h
  · rename_i heq; simp at h; rw [heq, ← h]
  · simp at h

theorem check_exact_peekByte (c : SCfg) (sc : Scanner σ) (cu cu' : Cursor) (r : Result)
    (h : Spec.check c sc .peekByte cu r = some cu') : Spec.readByte c false cu = (r, cu') := by
  simp only [Spec.check] at h
  split at h
  · rename_i heq; simp at h; rw [heq, ← h]
  · simp at h

theorem check_exact_readTerm (c : SCfg) (sc : Scanner σ) (cu cu' : Cursor) (r : Result)
    (h : Spec.check c sc .readTerm cu r = some cu') : Spec.readTerm c sc cu = (r, cu') := by
  simp only [Spec.check] at h
  split at h
  · rename_i heq; simp at h; rw [heq, ← h]
  · simp at h

theorem readChar_binary_idx (c : SCfg) (hb : c.typ = .binary) (consume : Bool) (cu : Cursor) :
    (Spec.readChar c consume cu).2.idx = cu.idx := by
  have hpi := pastAction_idx' c.action cu
  unfold Spec.readChar
  split
  · rename_i heq; rw [heq] at hpi; exact hpi
  · rename_i heq; rw [heq] at hpi
    rw [if_pos (by rw [hb]; decide)]; exact hpi

theorem readTerm_binary_idx (c : SCfg) (hb : c.typ = .binary) (sc : Scanner σ) (cu : Cursor) :
    (Spec.readTerm c sc cu).2.idx = cu.idx := by
  have hpi := pastAction_idx' c.action cu
  unfold Spec.readTerm
  split
  · rename_i heq; rw [heq] at hpi; exact hpi
  · rename_i heq; rw [heq] at hpi
    rw [if_pos (by rw [hb]; decide)]; exact hpi

theorem readByte_peek_idx (c : SCfg) (cu : Cursor) : (Spec.readByte c false cu).2.idx = cu.idx := by
  have hpi := pastAction_idx' c.action cu
  unfold Spec.readByte
  split
  · rename_i heq; rw [heq] at hpi; exact hpi
  · rename_i heq; rw [heq] at hpi
    split
    · exact hpi
    · split <;> simpa [advance, deliverEOF] using hpi

/-- get_byte on a binary stream: the byte at the cursor and one step forward, or no step -/
theorem readByte_get_binary (c : SCfg) (hb : c.typ = .binary) (cu : Cursor) :
    (∃ b, (Spec.readByte c true cu).1 = .byte b ∧ c.bytes[cu.idx]? = some b ∧ (Spec.readByte c true cu).2.idx = cu.idx + 1) ∨
    ((∀ b, (Spec.readByte c true cu).1 ≠ .byte b) ∧ (Spec.readByte c true cu).2.idx = cu.idx) := by
  have hpi := pastAction_idx' c.action cu
  unfold Spec.readByte
  split
  · rename_i heq; rw [heq] at hpi
    right; exact ⟨by intro b; simp, hpi⟩
  · rename_i cu1 heq; rw [heq] at hpi
    simp only at hpi
    rw [if_neg (by rw [hb]; decide)]
    cases hx : c.bytes[cu1.idx]? with
    | some x =>
      left
      refine ⟨x, rfl, ?_, ?_⟩
      · rw [← hpi]; exact hx
      · simp [advance, hpi]
    | none =>
      right
      exact ⟨by intro b; simp, by simpa [deliverEOF] using hpi⟩

/-- on a binary stream, an accepted result either is a byte delivered by get_byte — then it is the
    byte at the cursor and the cursor advances by one — or leaves the index where it was -/
theorem check_binary (c : SCfg) (hb : c.typ = .binary) (sc : Scanner σ) (o : Op) (cu cu' : Cursor) (r : Result)
    (h : Spec.check c sc o cu r = some cu') :
    (∃ b, o = .getByte ∧ r = .byte b ∧ c.bytes[cu.idx]? = some b ∧ cu'.idx = cu.idx + 1) ∨
    ((∀ b, ¬ (o = .getByte ∧ r = .byte b)) ∧ cu'.idx = cu.idx) := by
  cases o with
  | getChar =>
    right; refine ⟨by intro b hh; exact absurd hh.1 (by decide), ?_⟩
    have := check_exact_getChar c sc cu cu' r h
    have h2 := readChar_binary_idx c hb true cu
    rw [this] at h2; exact h2
  | peekChar =>
    right; refine ⟨by intro b hh; exact absurd hh.1 (by decide), ?_⟩
    have := check_exact_peekChar c sc cu cu' r h
    have h2 := readChar_binary_idx c hb false cu
    rw [this] at h2; exact h2
  | readTerm =>
    right; refine ⟨by intro b hh; exact absurd hh.1 (by decide), ?_⟩
    have := check_exact_readTerm c sc cu cu' r h
    have h2 := readTerm_binary_idx c hb sc cu
    rw [this] at h2; exact h2
  | peekByte =>
    right; refine ⟨by intro b hh; exact absurd hh.1 (by decide), ?_⟩
    have := check_exact_peekByte c sc cu cu' r h
    have h2 := readByte_peek_idx c cu
    rw [this] at h2; exact h2
  | getByte =>
    have := check_exact_getByte c sc cu cu' r h
    have h2 := readByte_get_binary c hb cu
    rw [this] at h2
    rcases h2 with ⟨b, h3, h4, h5⟩ | ⟨h3, h4⟩
    · left; exact ⟨b, rfl, h3, h4, h5⟩
    · right; exact ⟨by intro b hh; exact h3 b hh.2, h4⟩
  | atEnd =>
    right; refine ⟨by intro b hh; exact absurd hh.1 (by decide), ?_⟩
    simp only [Spec.check] at h
    split at h
    · split at h <;> simp at h; rw [h]
    · split at h <;> simp at h; rw [h]
    · simp at h
  | propPos =>
    right; refine ⟨by intro b hh; exact absurd hh.1 (by decide), ?_⟩
    simp only [Spec.check] at h
    split at h <;> simp at h; rw [h]
  | propEos =>
    right; refine ⟨by intro b hh; exact absurd hh.1 (by decide), ?_⟩
    simp only [Spec.check] at h
    split at h
    · split at h <;> simp at h; rw [h]
    · simp at h

theorem gotBytesConj_cons_other (o : Op) (r : Result) (os : List Op) (rs : List Result)
    (h : ∀ b, ¬ (o = .getByte ∧ r = .byte b)) :
    gotBytesConj (o :: os) (r :: rs) = gotBytesConj os rs := by
  cases o <;> cases r <;> simp_all [gotBytesConj]

theorem take_drop_step (l : List Nat) (i k : Nat) (b : Nat) (hb : l[i]? = some b) (hk : i + 1 ≤ k) :
    (l.drop i).take (k - i) = b :: (l.drop (i + 1)).take (k - (i + 1)) := by
  have hlt : i < l.length := by
    by_cases h : i < l.length
    · exact h
    · have : l[i]? = none := by simp; omega
      rw [this] at hb; exact absurd hb (by simp)
  have hbe : l[i] = b := by
    have := List.getElem?_eq_getElem hlt
    rw [this] at hb; exact Option.some.inj hb
  rw [List.drop_eq_getElem_cons hlt, hbe]
  have : k - i = (k - (i + 1)) + 1 := by omega
  rw [this, List.take_succ_cons]

/-- one query: the bytes its get_byte goals delivered are the source bytes between the cursors -/
theorem judgeConj_bytes (c : SCfg) (hb : c.typ = .binary) (sc : Scanner σ) :
    ∀ (ops : List Op) (rs : List Result) (cu cu' : Cursor), Spec.judgeConj c sc ops rs cu = some cu' →
      cu.idx ≤ cu'.idx ∧ gotBytesConj ops rs = (c.bytes.drop cu.idx).take (cu'.idx - cu.idx) := by
  intro ops
  induction ops with
  | nil =>
    intro rs cu cu' h
    cases rs with
    | nil => simp [Spec.judgeConj] at h; subst h; simp [gotBytesConj]
    | cons r rs => simp [Spec.judgeConj] at h
  | cons o os ih =>
    intro rs cu cu' h
    cases rs with
    | nil => simp [Spec.judgeConj] at h
    | cons r rs =>
      simp only [Spec.judgeConj] at h
      cases hck : Spec.check c sc o cu r with
      | none => simp [hck] at h
      | some cu1 =>
        simp only [hck] at h
        have hrest : cu1.idx ≤ cu'.idx ∧ gotBytesConj os rs = (c.bytes.drop cu1.idx).take (cu'.idx - cu1.idx) := by
          by_cases he : r.isErr = true
          · simp only [he, if_true] at h
            split at h
            · rename_i hrs
              simp at h; subst h; subst hrs
              refine ⟨Nat.le_refl _, ?_⟩
              cases os <;> simp [gotBytesConj]
            · simp at h
          · simp only [he] at h
            exact ih rs cu1 cu' h
        rcases check_binary c hb sc o cu cu1 r hck with ⟨b, ho, hr, hbyte, hidx⟩ | ⟨hno, hidx⟩
        · subst ho; subst hr
          refine ⟨by omega, ?_⟩
          simp only [gotBytesConj]
          rw [hrest.2, hidx]
          exact (take_drop_step c.bytes cu.idx cu'.idx b hbyte (by omega)).symm
        · refine ⟨by omega, ?_⟩
          rw [gotBytesConj_cons_other o r os rs hno, hrest.2, hidx]

theorem take_drop_append (l : List Nat) (i j k : Nat) (h1 : i ≤ j) (h2 : j ≤ k) :
    (l.drop i).take (j - i) ++ (l.drop j).take (k - j) = (l.drop i).take (k - i) := by
  have hj : j = i + (j - i) := by omega
  have : l.drop j = (l.drop i).drop (j - i) := by rw [List.drop_drop]; congr 1
  rw [this]
  have hk : k - i = (j - i) + (k - j) := by omega
  rw [hk, List.take_add]

/-- a sequence of queries -/
theorem judge_bytes (c : SCfg) (hb : c.typ = .binary) (sc : Scanner σ) :
    ∀ (prog : List (List Op)) (rs : List (List Result)) (cu cu' : Cursor), Spec.judge c sc prog rs cu = some cu' →
      cu.idx ≤ cu'.idx ∧ gotBytes prog rs = (c.bytes.drop cu.idx).take (cu'.idx - cu.idx) := by
  intro prog
  induction prog with
  | nil =>
    intro rs cu cu' h
    cases rs with
    | nil => simp [Spec.judge] at h; subst h; simp [gotBytes]
    | cons r rs => simp [Spec.judge] at h
  | cons q qs ih =>
    intro rs cu cu' h
    cases rs with
    | nil => simp [Spec.judge] at h
    | cons r rs =>
      simp only [Spec.judge] at h
      cases hj : Spec.judgeConj c sc q r cu with
      | none => simp [hj] at h
      | some cu1 =>
        simp only [hj] at h
        obtain ⟨l1, e1⟩ := judgeConj_bytes c hb sc q r cu cu1 hj
        obtain ⟨l2, e2⟩ := ih rs cu1 cu' h
        refine ⟨by omega, ?_⟩
        simp only [gotBytes]
        rw [e1, e2]
        exact take_drop_append c.bytes cu.idx cu1.idx cu'.idx l1 l2

/-! ### characters of a text stream -/

/-- the characters delivered by the get_char goals of one query, in program order -/
def gotCharsConj : List Op → List Result → List Nat
  | .getChar :: os, .char r :: rs => r :: gotCharsConj os rs
  | _ :: os, _ :: rs => gotCharsConj os rs
  | _, _ => []

def gotChars : List (List Op) → List (List Result) → List Nat
  | q :: qs, r :: rs => gotCharsConj q r ++ gotChars qs rs
  | _, _ => []

/-- the UTF-8 text of a list of characters -/
def encAll (rs : List Nat) : List Nat := (rs.map encodeRune).flatten

/-- characters that get_char can deliver: scalar values other than U+FFFD -/
def GoodRunes (rs : List Nat) : Prop := ∀ r ∈ rs, validRune r ∧ r ≠ runeError

theorem encAll_append (a b : List Nat) : encAll (a ++ b) = encAll a ++ encAll b := by
  simp [encAll]

theorem encAll_drop (rs : List Nat) (k : Nat) :
    (encAll rs).drop (encAll (rs.take k)).length = encAll (rs.drop k) := by
  have : encAll rs = encAll (rs.take k) ++ encAll (rs.drop k) := by
    rw [← encAll_append, List.take_append_drop]
  rw [this, List.drop_left]

theorem encodeRune_ne_nil (r : Nat) : encodeRune r ≠ [] := by
  unfold encodeRune; repeat' split
  all_goals simp

theorem take_succ_eq (rs : List Nat) (k : Nat) (h : k < rs.length) : rs.take (k + 1) = rs.take k ++ [rs[k]] := by
  rw [List.take_add_one, List.getElem?_eq_getElem h]; rfl

theorem encAll_take_succ (rs : List Nat) (k : Nat) (h : k < rs.length) :
    (encAll (rs.take (k + 1))).length = (encAll (rs.take k)).length + (encodeRune rs[k]).length := by
  rw [take_succ_eq rs k h, encAll_append]
  simp [encAll]

theorem readChar_peek_idx (c : SCfg) (cu : Cursor) : (Spec.readChar c false cu).2.idx = cu.idx := by
  have hpi := pastAction_idx' c.action cu
  unfold Spec.readChar
  split
  · rename_i heq; rw [heq] at hpi; exact hpi
  · rename_i heq; rw [heq] at hpi
    split
    · exact hpi
    · split
      · simp only; split <;> simpa [advance] using hpi
      · simpa [deliverEOF] using hpi

theorem readByte_text_idx (c : SCfg) (ht : c.typ = .text) (consume : Bool) (cu : Cursor) :
    (Spec.readByte c consume cu).2.idx = cu.idx := by
  have hpi := pastAction_idx' c.action cu
  unfold Spec.readByte
  split
  · rename_i heq; rw [heq] at hpi; exact hpi
  · rename_i heq; rw [heq] at hpi
    rw [if_pos (by rw [ht]; decide)]; exact hpi

/-- get_char on a text stream whose source is the encoding of `runes`, with the cursor behind the
    first `k` of them: it delivers the next one and steps behind it, or (at the end) steps nowhere -/
theorem readChar_get_text (c : SCfg) (ht : c.typ = .text) (runes : List Nat) (hg : GoodRunes runes)
    (hsrc : c.bytes = encAll runes) (cu : Cursor) (k : Nat) (hk : k ≤ runes.length)
    (hidx : cu.idx = (encAll (runes.take k)).length) :
    (∃ (h : k < runes.length), (Spec.readChar c true cu).1 = .char runes[k] ∧
        (Spec.readChar c true cu).2.idx = (encAll (runes.take (k + 1))).length) ∨
    ((∀ r, (Spec.readChar c true cu).1 ≠ .char r) ∧ (Spec.readChar c true cu).2.idx = cu.idx) := by
  have hpi := pastAction_idx' c.action cu
  unfold Spec.readChar
  split
  · rename_i heq; rw [heq] at hpi
    right; exact ⟨by intro r; simp, hpi⟩
  · rename_i cu1 heq; rw [heq] at hpi
    simp only at hpi
    rw [if_neg (by rw [ht]; decide)]
    by_cases hlt : k < runes.length
    · -- the next character
      have hdrop : c.bytes.drop cu1.idx = encodeRune runes[k] ++ encAll (runes.drop (k + 1)) := by
        rw [hpi, hidx, hsrc, encAll_drop, List.drop_eq_getElem_cons hlt]
        unfold encAll
        rw [List.map_cons, List.flatten_cons]
      have hgood := hg runes[k] (List.getElem_mem hlt)
      have hdec := decodeRune_encodeRune runes[k] hgood.1 (encAll (runes.drop (k + 1)))
      have hidxlt : cu1.idx < c.bytes.length := by
        by_cases hl : cu1.idx < c.bytes.length
        · exact hl
        · have : c.bytes.drop cu1.idx = [] := by apply List.drop_eq_nil_of_le; omega
          rw [this] at hdrop
          have hl0 := congrArg List.length hdrop
          simp at hl0
          have hne := encodeRune_ne_nil runes[k]
          have : (encodeRune runes[k]).length ≠ 0 := fun h0 => hne (List.eq_nil_of_length_eq_zero h0)
          omega
      left
      refine ⟨hlt, ?_⟩
      rw [if_pos hidxlt]
      simp only [hdrop, hdec, if_neg hgood.2]
      refine ⟨trivial, ?_⟩
      simp only [advance, if_true]
      rw [encAll_take_succ runes k hlt, hpi, hidx]
    · -- the end of the source
      have hke : k = runes.length := by omega
      have hend : ¬ cu1.idx < c.bytes.length := by
        rw [hpi, hidx, hsrc, hke, List.take_length]; omega
      right
      rw [if_neg hend]
      exact ⟨by intro r; simp, by simpa [deliverEOF] using hpi⟩

theorem gotCharsConj_cons_other (o : Op) (r : Result) (os : List Op) (rs : List Result)
    (h : ∀ x, ¬ (o = .getChar ∧ r = .char x)) :
    gotCharsConj (o :: os) (r :: rs) = gotCharsConj os rs := by
  cases o <;> cases r <;> simp_all [gotCharsConj]

/-- one goal other than read_term on such a text stream -/
theorem check_text (c : SCfg) (ht : c.typ = .text) (runes : List Nat) (hg : GoodRunes runes)
    (hsrc : c.bytes = encAll runes) (sc : Scanner σ) (o : Op) (hnr : o ≠ .readTerm) (cu cu' : Cursor) (r : Result)
    (k : Nat) (hk : k ≤ runes.length) (hidx : cu.idx = (encAll (runes.take k)).length)
    (h : Spec.check c sc o cu r = some cu') :
    (∃ (hl : k < runes.length), o = .getChar ∧ r = .char runes[k] ∧ cu'.idx = (encAll (runes.take (k + 1))).length) ∨
    ((∀ x, ¬ (o = .getChar ∧ r = .char x)) ∧ cu'.idx = cu.idx) := by
  cases o with
  | readTerm => exact absurd rfl hnr
  | getChar =>
    have := check_exact_getChar c sc cu cu' r h
    have h2 := readChar_get_text c ht runes hg hsrc cu k hk hidx
    rw [this] at h2
    rcases h2 with ⟨hl, h3, h4⟩ | ⟨h3, h4⟩
    · left; exact ⟨hl, rfl, h3, h4⟩
    · right; exact ⟨by intro x hh; exact h3 x hh.2, h4⟩
  | peekChar =>
    right; refine ⟨by intro b hh; exact absurd hh.1 (by decide), ?_⟩
    have := check_exact_peekChar c sc cu cu' r h
    have h2 := readChar_peek_idx c cu
    rw [this] at h2; exact h2
  | getByte =>
    right; refine ⟨by intro b hh; exact absurd hh.1 (by decide), ?_⟩
    have := check_exact_getByte c sc cu cu' r h
    have h2 := readByte_text_idx c ht true cu
    rw [this] at h2; exact h2
  | peekByte =>
    right; refine ⟨by intro b hh; exact absurd hh.1 (by decide), ?_⟩
    have := check_exact_peekByte c sc cu cu' r h
    have h2 := readByte_text_idx c ht false cu
    rw [this] at h2; exact h2
  | atEnd =>
    right; refine ⟨by intro b hh; exact absurd hh.1 (by decide), ?_⟩
    simp only [Spec.check] at h
    split at h
    · split at h <;> simp at h; rw [h]
    · split at h <;> simp at h; rw [h]
    · simp at h
  | propPos =>
    right; refine ⟨by intro b hh; exact absurd hh.1 (by decide), ?_⟩
    simp only [Spec.check] at h
    split at h <;> simp at h; rw [h]
  | propEos =>
    right; refine ⟨by intro b hh; exact absurd hh.1 (by decide), ?_⟩
    simp only [Spec.check] at h
    split at h
    · split at h <;> simp at h; rw [h]
    · simp at h

theorem take_drop_step' (l : List Nat) (i k : Nat) (hi : i < l.length) (hk : i + 1 ≤ k) :
    (l.drop i).take (k - i) = l[i] :: (l.drop (i + 1)).take (k - (i + 1)) :=
  take_drop_step l i k l[i] (List.getElem?_eq_getElem hi) hk

/-- one query without read_term: the characters its get_char goals delivered are the next characters -/
theorem judgeConj_chars (c : SCfg) (ht : c.typ = .text) (runes : List Nat) (hg : GoodRunes runes)
    (hsrc : c.bytes = encAll runes) (sc : Scanner σ) :
    ∀ (ops : List Op) (rs : List Result) (cu cu' : Cursor) (k : Nat), .readTerm ∉ ops → k ≤ runes.length →
      cu.idx = (encAll (runes.take k)).length → Spec.judgeConj c sc ops rs cu = some cu' →
      ∃ k', k ≤ k' ∧ k' ≤ runes.length ∧ cu'.idx = (encAll (runes.take k')).length ∧
        gotCharsConj ops rs = (runes.drop k).take (k' - k) := by
  intro ops
  induction ops with
  | nil =>
    intro rs cu cu' k _ hk hidx h
    cases rs with
    | nil => simp [Spec.judgeConj] at h; subst h; exact ⟨k, Nat.le_refl _, hk, hidx, by simp [gotCharsConj]⟩
    | cons r rs => simp [Spec.judgeConj] at h
  | cons o os ih =>
    intro rs cu cu' k hnr hk hidx h
    cases rs with
    | nil => simp [Spec.judgeConj] at h
    | cons r rs =>
      simp only [Spec.judgeConj] at h
      have hno : o ≠ .readTerm := by intro he; apply hnr; rw [he]; simp
      have hnr' : Op.readTerm ∉ os := by intro hm; apply hnr; simp [hm]
      cases hck : Spec.check c sc o cu r with
      | none => simp [hck] at h
      | some cu1 =>
        simp only [hck] at h
        -- the rest of the conjunction, from whatever cursor index k1 the first goal leaves
        have hrest : ∀ k1, k1 ≤ runes.length → cu1.idx = (encAll (runes.take k1)).length →
            ∃ k', k1 ≤ k' ∧ k' ≤ runes.length ∧ cu'.idx = (encAll (runes.take k')).length ∧
              gotCharsConj os rs = (runes.drop k1).take (k' - k1) := by
          intro k1 hk1 hidx1
          by_cases he : r.isErr = true
          · simp only [he, if_true] at h
            split at h
            · rename_i hrs
              simp at h; subst h; subst hrs
              refine ⟨k1, Nat.le_refl _, hk1, hidx1, ?_⟩
              cases os <;> simp [gotCharsConj]
            · simp at h
          · simp only [he] at h
            exact ih rs cu1 cu' k1 hnr' hk1 hidx1 h
        rcases check_text c ht runes hg hsrc sc o hno cu cu1 r k hk hidx hck with ⟨hl, ho, hr, hidx1⟩ | ⟨hnone, hidx1⟩
        · subst ho; subst hr
          obtain ⟨k', h1, h2, h3, h4⟩ := hrest (k + 1) (by omega) hidx1
          refine ⟨k', by omega, h2, h3, ?_⟩
          simp only [gotCharsConj]
          rw [h4]
          exact (take_drop_step' runes k k' hl (by omega)).symm
        · obtain ⟨k', h1, h2, h3, h4⟩ := hrest k hk (by rw [hidx1]; exact hidx)
          refine ⟨k', h1, h2, h3, ?_⟩
          rw [gotCharsConj_cons_other o r os rs hnone, h4]

theorem judge_chars (c : SCfg) (ht : c.typ = .text) (runes : List Nat) (hg : GoodRunes runes)
    (hsrc : c.bytes = encAll runes) (sc : Scanner σ) :
    ∀ (prog : List (List Op)) (rs : List (List Result)) (cu cu' : Cursor) (k : Nat),
      (∀ q ∈ prog, .readTerm ∉ q) → k ≤ runes.length →
      cu.idx = (encAll (runes.take k)).length → Spec.judge c sc prog rs cu = some cu' →
      ∃ k', k ≤ k' ∧ k' ≤ runes.length ∧ cu'.idx = (encAll (runes.take k')).length ∧
        gotChars prog rs = (runes.drop k).take (k' - k) := by
  intro prog
  induction prog with
  | nil =>
    intro rs cu cu' k _ hk hidx h
    cases rs with
    | nil => simp [Spec.judge] at h; subst h; exact ⟨k, Nat.le_refl _, hk, hidx, by simp [gotChars]⟩
    | cons r rs => simp [Spec.judge] at h
  | cons q qs ih =>
    intro rs cu cu' k hnr hk hidx h
    cases rs with
    | nil => simp [Spec.judge] at h
    | cons r rs =>
      simp only [Spec.judge] at h
      cases hj : Spec.judgeConj c sc q r cu with
      | none => simp [hj] at h
      | some cu1 =>
        simp only [hj] at h
        obtain ⟨k1, a1, a2, a3, a4⟩ := judgeConj_chars c ht runes hg hsrc sc q r cu cu1 k (hnr q (by simp)) hk hidx hj
        obtain ⟨k', b1, b2, b3, b4⟩ := ih rs cu1 cu' k1 (fun q' hq' => hnr q' (by simp [hq'])) a2 a3 h
        refine ⟨k', by omega, b2, b3, ?_⟩
        simp only [gotChars]
        rw [a4, b4]
        exact take_drop_append runes k k1 k' a1 b1

end PrologVerif.Stream
