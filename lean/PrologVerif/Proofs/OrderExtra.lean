/-
  Two refinements of the order theorems:
  * "identical modulo float ==" has a canonical form: replace every -0.0 by 0.0;
  * a comparison that does not reach two distinct unbound variables is independent of how the
    variables are numbered (the part of the standard order ISO leaves implementation dependent).
-/
import PrologVerif.Proofs.OrderModel
namespace PrologVerif.OrderProofs
open PrologVerif PrologVerif.Order PrologVerif.OrderSpec

theorem key_iff (F G : Nat) (hF : F < 2 ^ 64) (hG : G < 2 ^ 64) :
    ((if 2 ^ 63 ≤ F then -((F % 2 ^ 63 : Nat) : Int) else ((F % 2 ^ 63 : Nat) : Int))
      = (if 2 ^ 63 ≤ G then -((G % 2 ^ 63 : Nat) : Int) else ((G % 2 ^ 63 : Nat) : Int)))
    ↔ (if F = 2 ^ 63 then 0 else F) = (if G = 2 ^ 63 then 0 else G) := by
  split <;> split <;> split <;> split <;> omega

/-- two bit patterns lie at the same point of the real line iff they are equal up to the sign of zero -/
theorem floatKey_eq_iff (f g : UInt64) : floatKey f = floatKey g ↔ normBits f = normBits g := by
  have h := key_iff f.toNat g.toNat f.toNat_lt g.toNat_lt
  unfold floatKey
  rw [h]
  have e1 : ∀ b : UInt64, b = 0x8000000000000000 ↔ b.toNat = 2 ^ 63 := by
    intro b; rw [← UInt64.toNat_inj]; rfl
  unfold normBits
  rw [← UInt64.toNat_inj]
  by_cases h1 : f = 0x8000000000000000 <;> by_cases h2 : g = 0x8000000000000000 <;>
    simp only [h1, h2, if_true, if_false] <;> simp_all

mutual
  theorem identical_iff_normZero : ∀ x y : Term, noNaN x = true → noNaN y = true →
      (identical x y = true ↔ normZero x = normZero y)
    | .var v, y => by cases y <;> simp [identical, normZero]
    | .flt f, y => by
      cases y <;> simp [identical, normZero, noNaN]
      intro h1 h2; simp [h1, h2, floatKey_eq_iff]
    | .int i, y => by cases y <;> simp [identical, normZero]
    | .atom a, y => by cases y <;> simp [identical, normZero]
    | .str s, y => by cases y <;> simp [identical, normZero]
    | .app f as, y => by
      cases y with
      | app g bs =>
        simp only [identical, normZero, noNaN, Bool.and_eq_true, beq_iff_eq, Term.app.injEq]
        intro hx hy
        rw [identicalArgs_iff_normZero as bs hx hy]
      | _ => simp [identical, normZero]
  theorem identicalArgs_iff_normZero : ∀ as bs : Args, noNaNArgs as = true → noNaNArgs bs = true →
      (identicalArgs as bs = true ↔ normZeroArgs as = normZeroArgs bs)
    | .nil, bs => by cases bs <;> simp [identicalArgs, normZeroArgs]
    | .cons a as, bs => by
      cases bs with
      | nil => simp [identicalArgs, normZeroArgs]
      | cons b bs =>
        simp only [identicalArgs, normZeroArgs, noNaNArgs, Bool.and_eq_true, Args.cons.injEq]
        intro ⟨h1, h2⟩ ⟨h3, h4⟩
        rw [identical_iff_normZero a b h1 h3, identicalArgs_iff_normZero as bs h2 h4]
end

/-! ### independence of the numbering of variables -/

theorem renameVarsArgs_length (ρ : Nat → Nat) : ∀ as : Args, (renameVarsArgs ρ as).length = as.length
  | .nil => rfl
  | .cons _ ts => by simp [renameVarsArgs, Args.length, renameVarsArgs_length ρ ts]

mutual
  theorem noNaN_rename (ρ : Nat → Nat) : ∀ x : Term, noNaN (renameVars ρ x) = noNaN x
    | .var _ => rfl
    | .flt _ => rfl
    | .int _ => rfl
    | .atom _ => rfl
    | .str _ => rfl
    | .app f as => by simp [renameVars, noNaN, noNaNArgs_rename ρ as]
  theorem noNaNArgs_rename (ρ : Nat → Nat) : ∀ as : Args, noNaNArgs (renameVarsArgs ρ as) = noNaNArgs as
    | .nil => rfl
    | .cons t ts => by simp [renameVarsArgs, noNaNArgs, noNaN_rename ρ t, noNaNArgs_rename ρ ts]
end

mutual
  theorem std_rename (ρ : Nat → Nat) : ∀ x y : Term, noNaN x = true → noNaN y = true →
      hingesOnVars x y = false →
      stdCompare (renameVars ρ x) (renameVars ρ y) = stdCompare x y
    | .var v, y => by
      cases y <;> simp [renameVars, stdCompare, rank, hingesOnVars]
      intro _ _ h; subst h; simp [cmpOfLt]
    | .flt f, y => by cases y <;> simp [renameVars, stdCompare, rank]
    | .int i, y => by cases y <;> simp [renameVars, stdCompare, rank]
    | .atom a, y => by cases y <;> simp [renameVars, stdCompare, rank]
    | .str s, y => by cases y <;> simp [renameVars, stdCompare, rank]
    | .app f as, y => by
      cases y with
      | app g bs =>
        simp only [renameVars, stdCompare, hingesOnVars, renameVarsArgs_length, noNaN]
        intro hx hy h
        by_cases hc : as.length = bs.length ∧ f = g
        · simp only [hc, and_self, if_true] at h
          rw [stdArgs_rename ρ as bs hx hy h]
        · simp only [hc, if_false] at h
          have : cmpOfLt (· < ·) as.length bs.length ≠ .eq ∨ cmpCodePoints f.toList g.toList ≠ .eq := by
            by_cases hl : as.length = bs.length
            · right; rw [Ne, cmpText_spec_eq_iff]; intro e; exact hc ⟨hl, e⟩
            · left; rw [Ne, cmpOfLt_nat_eq]; exact hl
          rcases this with h1 | h1
          · cases h2 : cmpOfLt (· < ·) as.length bs.length <;> simp_all [Ordering.then]
          · cases h2 : cmpOfLt (· < ·) as.length bs.length <;>
              cases h3 : cmpCodePoints f.toList g.toList <;> simp_all [Ordering.then]
      | _ => simp [renameVars, stdCompare, rank]
  theorem stdArgs_rename (ρ : Nat → Nat) : ∀ as bs : Args, noNaNArgs as = true → noNaNArgs bs = true →
      hingesOnVarsArgs as bs = false →
      stdCompareArgs (renameVarsArgs ρ as) (renameVarsArgs ρ bs) = stdCompareArgs as bs
    | .nil, bs => by cases bs <;> simp [renameVarsArgs, stdCompareArgs]
    | .cons a as, bs => by
      cases bs with
      | nil => simp [renameVarsArgs, stdCompareArgs]
      | cons b bs =>
        simp only [renameVarsArgs, stdCompareArgs, hingesOnVarsArgs, noNaNArgs, Bool.and_eq_true]
        intro ⟨ha, has⟩ ⟨hb, hbs⟩ h
        by_cases h1 : hingesOnVars a b = true
        · simp [h1] at h
        · simp only [h1] at h
          have h1' : hingesOnVars a b = false := by simpa using h1
          rw [std_rename ρ a b ha hb h1']
          by_cases h2 : identical a b = true
          · simp only [h2, if_true] at h
            rw [stdArgs_rename ρ as bs has hbs (by simpa using h)]
          · -- decided at this argument: a and b are not identical, so not `=`
            have : stdCompare a b ≠ .eq := fun e => h2 (identical_of_std_eq a b ha hb e)
            cases h3 : stdCompare a b <;> simp_all [Ordering.then]
end

/-! ### small facts used by the sort theorems -/

theorem compare_eq_std_on (l : List Term) (h : ∀ t ∈ l, noNaN t = true) :
    ∀ x ∈ l, ∀ y ∈ l, Order.compare x y = stdCompare x y :=
  fun x hx y hy => compare_eq_std x y (h x hx) (h y hy)

theorem callOrderOp_eq (n : Nat) (t1 t2 : Term) :
    callOrderOp n "@<" t1 t2 = some (if Order.compare (headArgs n t1 t2).1 (headArgs n t1 t2).2 = .lt then 1 else 0) ∧
    callOrderOp n "@=<" t1 t2 = some (if Order.compare (headArgs n t1 t2).1 (headArgs n t1 t2).2 ≠ .gt then 1 else 0) ∧
    callOrderOp n "@>" t1 t2 = some (if Order.compare (headArgs n t1 t2).1 (headArgs n t1 t2).2 = .gt then 1 else 0) ∧
    callOrderOp n "@>=" t1 t2 = some (if Order.compare (headArgs n t1 t2).1 (headArgs n t1 t2).2 ≠ .lt then 1 else 0) ∧
    callOrderOp n "==" t1 t2 = some (if Order.compare (headArgs n t1 t2).1 (headArgs n t1 t2).2 = .eq then 1 else 0) ∧
    callOrderOp n "\\==" t1 t2 = some (if Order.compare (headArgs n t1 t2).1 (headArgs n t1 t2).2 ≠ .eq then 1 else 0) := by
  have inner : Order.compare (headArgs (n + 2) (headArgs n t1 t2).1 (headArgs n t1 t2).2).1
      (headArgs (n + 2) (headArgs n t1 t2).1 (headArgs n t1 t2).2).2
      = Order.compare (headArgs n t1 t2).1 (headArgs n t1 t2).2 := by
    cases t1 <;> cases t2 <;>
      simp [headArgs, Order.compare, compareVar, compareFloat, compareInt, compareAtom, compareStream]
    rename_i a b
    by_cases e : a = b
    · simp [e, headArgs, cmpNat, Order.compare, compareVar]
    · simp [e, headArgs, cmpNat, Order.compare, compareVar]
  refine ⟨?_, ?_, ?_, ?_, ?_, ?_⟩ <;>
    simp only [callOrderOp, solveOp, orderClauses, Term.a1, Term.a2, Term.a3, List.foldl, inner] <;>
    generalize Order.compare (headArgs n t1 t2).1 (headArgs n t1 t2).2 = o <;>
    cases o <;> simp [orderAtom]

end PrologVerif.OrderProofs
