/-
  Stream c20.load: sequences of loads (Exec) on one interpreter.

  payload :=  [ "fs " NAME " = " items { " ;; " NAME " = " items } " // " ]  load { " // " load }
  load    :=  "load " items [ " @cut " N " " K " " F " " WHERE ]
  items   :=  item { " ; " item }
  item    :=  "t " term            a read term (clause or directive)
           |  "g " src " => " exp  a DCG rule: source term and its expansion
           |  "x " kind            text that is a syntax error
           |  "c " kind            a comment (no read result)
  @cut: the text is truncated at byte N; the generator (which lays the text out) says that the
  first K read items survive and whether (F = 1) the text then ends inside an item.

  output  :=  result " " listing { " // " result " " listing }
-/
import PrologVerif.Driver.Common
import PrologVerif.Model.Text
import PrologVerif.Spec.Load
import PrologVerif.Model.Files
namespace PrologVerif.Driver.C20
open PrologVerif PrologVerif.Load PrologVerif.Driver
open PrologVerif.DB (PI piArg unify shift maxVar)

/-! ### the oracle for goal directives (side-effect free) -/

def isFact : Term → Bool
  | .app ":-" (.cons _ (.cons _ .nil)) => false
  | _ => true

def evalGoal (procs : Procs) (g : Term) : GoalResult :=
  match g with
  | .atom "true" => .ok
  | .atom "fail" => .failed
  | .var _ => .raisedIso instErr
  | .int _ | .flt _ | .str _ => .raisedIso (typeErr "callable" g)
  | .app "throw" (.cons t .nil) =>
    match t with
    | .var _ => .raisedIso instErr
    | .app "error" (.cons f (.cons _ .nil)) => .raisedIso f
    | _ => .raisedBall t
  | .app "=" (.cons a (.cons b .nil)) => if (unify 64 [] a b).isSome then .ok else .failed
  | _ =>
    match piArg g with
    | .error e => .raisedIso e
    | .ok pi =>
      match procs.get pi with
      | some (.user u) =>
        if u.clauses.any (fun c => isFact c && (unify 64 [] g (shift (maxVar g) c)).isSome) then .ok else .failed
      | some .builtin => .ok
      | none => .raisedIso (existenceErr "procedure" pi.term)

def call : Call := fun procs g => (procs, evalGoal procs g)

/-! ### parsing -/

inductive PItem where
  | read (i : Item)
  | comment

def parseItem (s : String) : Option PItem :=
  let (w, rest) := headWord s
  match w with
  | "t" => match parseTerms rest with
    | some [t] => some (.read (.term t))
    | _ => none
  | "g" => match rest.splitOn " => " with
    | [_, e] => match parseTerms e with
      | some [t] => some (.read (.term t))
      | _ => none
    | _ => none
  | "x" => some (.read .syntaxError)
  | "c" => some .comment
  | _ => none

def parseItems (s : String) : Option (List Item) :=
  let parts := ((s.splitOn " ; ").map trim).filter (· ≠ "")
  (parts.mapM parseItem).map fun ps => ps.filterMap fun | .read i => some i | .comment => none

def natOf (s : String) : Option Nat := natOfChars s.toList

/-- the items a load reads: all of them, or the first K followed by a fault -/
def parseLoad (s : String) : Option (List Item) :=
  let (w, rest) := headWord s
  if w ≠ "load" then none else
  match rest.splitOn " @cut " with
  | [its] => parseItems its
  | [its, cut] =>
    match (cut.splitOn " ").filter (· ≠ ""), parseItems its with
    | _ :: k :: f :: _, some items =>
      match natOf k with
      | some k => some (items.take k ++ (if f == "1" then [Item.syntaxError] else []))
      | none => none
    | _, _ => none
  | _ => none

def parseFS (s : String) : Option (List (String × List Item)) :=
  ((s.splitOn " ;; ").map trim).mapM fun f =>
    match f.splitOn " = " with
    | [n, its] => (parseItems its).map fun is => (trim n, is)
    | [n] => some (trim n, [])
    | _ => none

def mkFS (files : List (String × List Item)) : FS := fun n => files.lookup n

/-! ### printing -/

def plainAtom (s : String) : Bool :=
  match s.toList with
  | c :: cs => c.isLower && cs.all (fun c => c.isAlphanum || c == '_')
  | [] => false

def flagsOf (u : UProc) : String :=
  String.ofList [if u.isPublic then 'p' else '-', if u.dynamic then 'd' else '-',
    if u.multifile then 'm' else '-', if u.discontiguous then 'c' else '-']

def showTable (ps : Procs) : String :=
  let rows := ps.filterMap fun
    | (pi, .user u) =>
      some (encName pi.name ++ "/" ++ toString pi.arity ++ ":" ++ flagsOf u ++ bracket (u.clauses.map fun c => c.canon.wire))
    | _ => none
  "{" ++ ", ".intercalate (sortStrings rows) ++ "}"

def showErr : LoadErr → String
  | .syntax => "syntax"
  | .iso f => "err " ++ f.canon.wire
  | .ball t => "ball " ++ t.canon.wire
  | .discontiguous pi => "discontiguous " ++ encName pi.name ++ "/" ++ toString pi.arity
  | .failedDirective => "failed_directive"
  | .failedInit => "failed_init"
  | .outOfFuel => "OUT-OF-FUEL"

/-! ### model and specification over a sequence of loads -/

def runModel (fs : FS) (loads : List (List Item)) : List String :=
  (loads.foldl (fun (acc : Procs × List String) items =>
    let (ps, e) := Compile fs call 100000 acc.1 items
    (ps, acc.2 ++ [(match e with | none => "ok" | some e => showErr e) ++ " " ++ showTable ps])) ([], [])).2

/-- the specification is about include-free texts: splice the files in (an `include` directive
    flushes like any directive: it is replaced by `:- true`; a missing file is a fault) -/
def splice (fs : FS) : Nat → List Item → List Item
  | 0, _ => [.syntaxError]
  | _ + 1, [] => []
  | fuel + 1, .term (.app ":-" (.cons (.app "include" (.cons f .nil)) .nil)) :: rest =>
    match f with
    | .atom n =>
      match fs n with
      | some items => .term (Term.a1 ":-" (.atom "true")) :: splice fs fuel (items ++ rest)
      | none => [.syntaxError]
    | _ => [.syntaxError]
  | fuel + 1, i :: rest => i :: splice fs fuel rest

def judge (fs : FS) (loads : List (List Item)) (impl : List String) : String :=
  let rec go : List (List Item) → List String → Procs → String → Nat → String
    | [], [], _, _, _ => "ok"
    | items :: ls, out :: outs, ps, before, i =>
      let res := (headWord out).1
      let res := if res == "err" || res == "ball" || res == "discontiguous" then "error" else res
      match specLoad (fun p g => evalGoal p g == .ok) ps (splice fs 100000 items) with
      | .rejected =>
        if res == "ok" then s!"FAIL load #{i}: the text has a fault, the load must fail; it succeeded"
        else if ¬ out.endsWith (" " ++ before) then
          s!"FAIL load #{i}: a failed load must leave every definition as it was: before {before}"
        else go ls outs ps before (i + 1)
      | .loaded table initOk =>
        let want := showTable table
        if initOk ∧ res ≠ "ok" then s!"FAIL load #{i}: the text has no fault, the load must succeed; got {out}"
        else if ¬ initOk ∧ res == "ok" then s!"FAIL load #{i}: an initialization goal does not succeed, Exec must report it"
        else if ¬ out.endsWith (" " ++ want) then s!"FAIL load #{i}: definitions after the load differ from the text's clauses in source order: want {want}"
        else go ls outs table want (i + 1)
    | _, _, _, _, _ => "FAIL output length mismatch"
  go loads impl [] "{}" 0

def handler : Handler := fun payload impl =>
  let payload := match payload.splitOn " @tag " with
    | p :: _ => p
    | [] => payload
  let parts := (payload.splitOn " // ").map trim
  let (files, loadStrs) := match parts with
    | p :: rest => if p.startsWith "fs " then (parseFS (String.ofList (p.toList.drop 3)), rest) else (some [], parts)
    | [] => (some [], [])
  match files, loadStrs.mapM parseLoad with
  | some files, some loads =>
    let fs := mkFS files
    (" // ".intercalate (runModel fs loads), judge fs loads ((impl.splitOn " // ").map trim))
  | _, _ => ("BAD-PAYLOAD", "-")

/-! ## stream c20.files: histories of file loads over a file system that changes

  payload :=  step { " // " step }
  step    :=  "w " NAME " = " items     write (create / replace) a file
                                        optionally with a fault plan between NAME and "=":
                                        !open KIND | !read BYTE K INSIDE | !dir | !stat SIZE
           |  "rm " NAME                remove a file
           |  "q " term                 the query  ?- consult(Term).
           |  "load " items             Exec of a text
  output  :=  per step: "-" for w/rm, otherwise  result " " listing
-/

open PrologVerif.Files in
def parseStep (s : String) : Option Files.Step :=
  let (w, rest) := headWord s
  match w with
  | "w" =>
    -- w NAME [!open KIND | !read BYTE K INSIDE | !dir | !stat SIZE] = items
    let (lhs, its) := match rest.splitOn " = " with
      | [l, i] => (l, i)
      | [l] => ((l.splitOn " =").headD l, "")
      | _ => ("", "BAD")
    let fault : Option Files.Fault := match (lhs.splitOn " ").filter (· ≠ "") with
      | [_] => some .none
      | [_, "!open", _] => some .openFails
      | [_, "!read", _, k, f] => (natOf k).map fun k => .readFails k (f == "1")
      | [_, "!dir"] => some .directory
      | [_, "!stat", _] => some .none
      | _ => none
    match (lhs.splitOn " ").filter (· ≠ ""), fault, parseItems its with
    | n :: _, some fl, some is => some (Files.Step.write n ⟨is, fl⟩)
    | _, _, _ => none
  | "rm" => some (.remove (trim rest))
  | "q" =>
    match parseTerms rest with
    | some [t] => some (.consult t)
    | _ => none
  | "load" => (parseItems rest).map Files.Step.exec
  | _ => none

def filesEval : Files.Eval := fun p g => evalGoal p g

def runFiles (pol : Files.Policy) (steps : List Files.Step) : List String :=
  (steps.foldl (fun (acc : Files.World × List String) st =>
    let (w, e) := Files.step pol filesEval 100000 acc.1 st
    let out := match st with
      | .write _ _ | .remove _ => "-"
      | _ => (match e with | none => "ok" | some e => showErr e) ++ " " ++ showTable w.vm.procs
    (w, acc.2 ++ [out])) (Files.World.empty, [])).2

def judgeFiles (want got : List String) : String :=
  let rec go : List String → List String → Nat → String
    | [], [], _ => "ok"
    | w :: ws, g :: gs, i =>
      if w == g then go ws gs (i + 1)
      else s!"FAIL step #{i}: a failed load leaves no trace and a loaded file is not loaded again; the specification gives `{w}`, implementation gave `{g}`"
    | _, _, _ => "FAIL output length mismatch"
  go want got 0

def filesHandler : Handler := fun payload impl =>
  let payload := match payload.splitOn " @tag " with
    | p :: _ => p
    | [] => payload
  match ((payload.splitOn " // ").map trim).mapM parseStep with
  | some steps =>
    (" // ".intercalate (runFiles .code steps), judgeFiles (runFiles .spec steps) ((impl.splitOn " // ").map trim))
  | none => ("BAD-PAYLOAD", "-")

end PrologVerif.Driver.C20
