/-
  Proofs/DCGSem2Sim — the relation between the two stores of the semantic preservation proof of
  C17 beyond ground inputs.

  The reference SLD evaluation of the translated program and the denotation use DIFFERENT
  variables (the SLD side has the hidden difference-list variables and renames clauses with its own
  supply; the denotation creates a variable for every list cell it generates) and DIFFERENT stores
  (the SLD side binds `S0 ↦ [t1,…,tn | S]` at once, the denotation `S0 ↦ [t1 | R1], R1 ↦ …`).
  So equal stores do not follow "by congruence"; the invariant is a bisimulation:

    `W.Eq t u` — under the SLD store `t` and under the denotation's store `u` are THE SAME
    (possibly infinite: no occurs check) tree, up to the correspondence `W.ρ` between the unbound
    variables of the two sides, which is one-to-one.

  `W.Eq` is the greatest relation such that dereferencing both terms gives related variables,
  equal constants, or compound terms with the same functor and related arguments (`Eq_unfold`);
  technically the intersection of its finite approximations `Sim W k`.

  Both sides perform the same unifications, in the same order and orientation, on related terms;
  `unify_sim` shows that related inputs give related outcomes and a world that extends the
  previous one (`Step`: all related pairs stay related).  No mgu theory is needed.
-/
import PrologVerif.Proofs.DCGSemCall
namespace PrologVerif.Grammar
open PrologVerif

/-! ### relations on terms -/

/-- argument lists related element by element -/
inductive ArgsRel (R : Term → Term → Prop) : Args → Args → Prop
  | nil : ArgsRel R .nil .nil
  | cons {a b : Term} {as bs : Args} : R a b → ArgsRel R as bs → ArgsRel R (.cons a as) (.cons b bs)

theorem ArgsRel.mono {R R' : Term → Term → Prop} {as bs : Args} (h : ArgsRel R as bs)
    (f : ∀ a b, R a b → R' a b) : ArgsRel R' as bs := by
  induction h with
  | nil => exact .nil
  | cons r _ ih => exact .cons (f _ _ r) ih

/-- one layer: related variables, equal constants, or the same functor with related arguments -/
inductive Sim1 (ρ : Nat → Nat → Prop) (R : Term → Term → Prop) : Term → Term → Prop
  | var {a b : Nat} : ρ a b → Sim1 ρ R (.var a) (.var b)
  | atom (a : String) : Sim1 ρ R (.atom a) (.atom a)
  | int (i : Int) : Sim1 ρ R (.int i) (.int i)
  | flt (b : UInt64) : Sim1 ρ R (.flt b) (.flt b)
  | str (i : Nat) : Sim1 ρ R (.str i) (.str i)
  | app {f : String} {as bs : Args} : ArgsRel R as bs → Sim1 ρ R (.app f as) (.app f bs)

theorem Sim1.mono {ρ ρ' : Nat → Nat → Prop} {R R' : Term → Term → Prop} {t u : Term}
    (h : Sim1 ρ R t u) (g : ∀ a b, ρ a b → ρ' a b) (f : ∀ a b, R a b → R' a b) : Sim1 ρ' R' t u := by
  cases h with
  | var r => exact .var (g _ _ r)
  | atom a => exact .atom a
  | int i => exact .int i
  | flt b => exact .flt b
  | str i => exact .str i
  | app h => exact .app (h.mono f)

theorem Sim1.isVar_eq {ρ : Nat → Nat → Prop} {R : Term → Term → Prop} {t u : Term} (h : Sim1 ρ R t u) :
    isVar t = isVar u := by
  cases h <;> rfl

/-- the two sides of the simulation: the store of the SLD evaluation, the store of the
    denotation, the correspondence of their unbound variables, and the two variable supplies -/
structure World where
  σS : Subst
  σD : Subst
  ρ : Nat → Nat → Prop
  nS : Nat
  nD : Nat

/-- finite approximations of the bisimulation -/
def Sim (W : World) : Nat → Term → Term → Prop
  | 0, _, _ => True
  | k + 1, t, u => Sim1 W.ρ (Sim W k) (walk W.σS t) (walk W.σD u)

/-- the same tree on both sides, up to the correspondence of the unbound variables -/
def World.Eq (W : World) (t u : Term) : Prop := ∀ k, Sim W k t u

theorem Sim.down (W : World) : ∀ (k : Nat) (t u : Term), Sim W (k + 1) t u → Sim W k t u
  | 0, _, _, _ => trivial
  | k + 1, t, u, h => by
    unfold Sim at h ⊢
    exact h.mono (fun _ _ r => r) (fun a b r => Sim.down W k a b r)

theorem Sim.le (W : World) {k j : Nat} (hjk : j ≤ k) {t u : Term} (h : Sim W k t u) : Sim W j t u := by
  induction hjk with
  | refl => exact h
  | step _ ih => exact ih (Sim.down W _ _ _ h)

theorem argsRel_forall {W : World} : ∀ {as bs : Args}, (∀ j, ArgsRel (Sim W j) as bs) → ArgsRel W.Eq as bs
  | .nil, .nil, _ => .nil
  | .nil, .cons _ _, h => by cases h 0
  | .cons _ _, .nil, h => by cases h 0
  | .cons a as, .cons b bs, h => by
    refine .cons (fun j => ?_) (argsRel_forall (fun j => ?_))
    · cases h j with | cons r _ => exact r
    · cases h j with | cons _ r => exact r

/-- `W.Eq` is a fixed point: dereference both sides, compare one layer -/
theorem World.Eq_unfold (W : World) (t u : Term) :
    W.Eq t u ↔ Sim1 W.ρ W.Eq (walk W.σS t) (walk W.σD u) := by
  constructor
  · intro h
    have h1 : Sim1 W.ρ (Sim W 0) (walk W.σS t) (walk W.σD u) := h 1
    have hall : ∀ j, Sim1 W.ρ (Sim W j) (walk W.σS t) (walk W.σD u) := fun j => h (j + 1)
    revert h1 hall
    generalize walk W.σS t = a
    generalize walk W.σD u = b
    intro h1 hall
    cases h1 with
    | var r => exact .var r
    | atom a => exact .atom a
    | int i => exact .int i
    | flt b => exact .flt b
    | str i => exact .str i
    | app _ =>
      refine .app (argsRel_forall (fun j => ?_))
      cases hall j with | app r => exact r
  · intro h k
    cases k with
    | zero => trivial
    | succ k => exact h.mono (fun _ _ r => r) (fun a b r => r k)

theorem World.Eq.of_walk {W : World} {t u t' u' : Term} (h : W.Eq t' u')
    (e1 : walk W.σS t = walk W.σS t') (e2 : walk W.σD u = walk W.σD u') : W.Eq t u := by
  rw [World.Eq_unfold] at h ⊢
  rw [e1, e2]; exact h

/-! ### touched variables, good worlds, steps -/

/-- a variable of the SLD side that is bound or corresponds to a variable of the other side -/
def World.TS (W : World) (v : Nat) : Prop := (∃ p ∈ W.σS, p.1 = v) ∨ ∃ b, W.ρ v b
def World.TD (W : World) (v : Nat) : Prop := (∃ p ∈ W.σD, p.1 = v) ∨ ∃ a, W.ρ a v

/-- the correspondence is one-to-one; everything touched is below the supply -/
structure World.Good (W : World) : Prop where
  fn : ∀ a b b', W.ρ a b → W.ρ a b' → b = b'
  inj : ∀ a a' b, W.ρ a b → W.ρ a' b → a = a'
  scS : ∀ v, W.TS v → v < W.nS
  scD : ∀ v, W.TD v → v < W.nD
  /-- corresponding variables are unbound on both sides -/
  unb : ∀ a b, W.ρ a b → (∀ p ∈ W.σS, p.1 ≠ a) ∧ (∀ p ∈ W.σD, p.1 ≠ b)

/-- `W'` comes after `W`: related pairs stay related, the stores are extended, and on the SLD side
    only variables that were touched before, are allowed by `P`, or are new get touched -/
structure Step (W W' : World) (P : Nat → Prop) : Prop where
  eq : ∀ t u, W.Eq t u → W'.Eq t u
  extS : ∃ Δ, W'.σS = Δ ++ W.σS
  extD : ∃ Δ, W'.σD = Δ ++ W.σD
  nS : W.nS ≤ W'.nS
  nD : W.nD ≤ W'.nD
  tS : ∀ v, W'.TS v → W.TS v ∨ P v ∨ W.nS ≤ v
  tD : ∀ v, W'.TD v → W.TD v ∨ W.nD ≤ v

theorem Step.refl (W : World) (P : Nat → Prop) : Step W W P :=
  ⟨fun _ _ h => h, ⟨[], rfl⟩, ⟨[], rfl⟩, Nat.le_refl _, Nat.le_refl _, fun _ h => .inl h, fun _ h => .inl h⟩

theorem Step.trans {W W' W'' : World} {P P' Q : Nat → Prop} (h1 : Step W W' P) (h2 : Step W' W'' P')
    (hP : ∀ v, P v → Q v) (hP' : ∀ v, P' v → Q v) : Step W W'' Q := by
  obtain ⟨Δ1, e1⟩ := h1.extS
  obtain ⟨Δ2, e2⟩ := h2.extS
  obtain ⟨Δ3, e3⟩ := h1.extD
  obtain ⟨Δ4, e4⟩ := h2.extD
  refine ⟨fun t u h => h2.eq t u (h1.eq t u h), ⟨Δ2 ++ Δ1, by rw [e2, e1, List.append_assoc]⟩,
    ⟨Δ4 ++ Δ3, by rw [e4, e3, List.append_assoc]⟩, Nat.le_trans h1.nS h2.nS, Nat.le_trans h1.nD h2.nD, ?_, ?_⟩
  · intro v hv
    rcases h2.tS v hv with h | h | h
    · rcases h1.tS v h with h | h | h
      · exact .inl h
      · exact .inr (.inl (hP v h))
      · exact .inr (.inr h)
    · exact .inr (.inl (hP' v h))
    · exact .inr (.inr (Nat.le_trans h1.nS h))
  · intro v hv
    rcases h2.tD v hv with h | h
    · exact h1.tD v h
    · exact .inr (Nat.le_trans h1.nD h)

/-- … the frame of the second step may also consist of variables that are new for `W` -/
theorem Step.trans' {W W' W'' : World} {P P' Q : Nat → Prop} (h1 : Step W W' P) (h2 : Step W' W'' P')
    (hP : ∀ v, P v → Q v) (hP' : ∀ v, P' v → Q v ∨ W.nS ≤ v) : Step W W'' Q := by
  obtain ⟨Δ1, e1⟩ := h1.extS
  obtain ⟨Δ2, e2⟩ := h2.extS
  obtain ⟨Δ3, e3⟩ := h1.extD
  obtain ⟨Δ4, e4⟩ := h2.extD
  refine ⟨fun t u h => h2.eq t u (h1.eq t u h), ⟨Δ2 ++ Δ1, by rw [e2, e1, List.append_assoc]⟩,
    ⟨Δ4 ++ Δ3, by rw [e4, e3, List.append_assoc]⟩, Nat.le_trans h1.nS h2.nS, Nat.le_trans h1.nD h2.nD, ?_, ?_⟩
  · intro v hv
    rcases h2.tS v hv with h | h | h
    · rcases h1.tS v h with h | h | h
      · exact .inl h
      · exact .inr (.inl (hP v h))
      · exact .inr (.inr h)
    · rcases hP' v h with h | h
      · exact .inr (.inl h)
      · exact .inr (.inr h)
    · exact .inr (.inr (Nat.le_trans h1.nS h))
  · intro v hv
    rcases h2.tD v hv with h | h
    · exact h1.tD v h
    · exact .inr (Nat.le_trans h1.nD h)

theorem Step.mono {W W' : World} {P Q : Nat → Prop} (h : Step W W' P) (hP : ∀ v, P v → Q v) : Step W W' Q :=
  h.trans (Step.refl W' P) hP hP

/-- an untouched variable is unbound -/
theorem World.unbS {W : World} {v : Nat} (h : ¬ W.TS v) : ∀ p ∈ W.σS, p.1 ≠ v :=
  fun p hp e => h (.inl ⟨p, hp, e⟩)
theorem World.unbD {W : World} {v : Nat} (h : ¬ W.TD v) : ∀ p ∈ W.σD, p.1 ≠ v :=
  fun p hp e => h (.inl ⟨p, hp, e⟩)

theorem World.walkS_untouched {W : World} {v : Nat} (h : ¬ W.TS v) : walk W.σS (.var v) = .var v :=
  walk_unbound _ _ (W.unbS h)
theorem World.walkD_untouched {W : World} {v : Nat} (h : ¬ W.TD v) : walk W.σD (.var v) = .var v :=
  walk_unbound _ _ (W.unbD h)

/-- a variable not touched before, not allowed and not new stays untouched -/
theorem Step.untouched {W W' : World} {P : Nat → Prop} (h : Step W W' P) {v : Nat}
    (h1 : ¬ W.TS v) (h2 : ¬ P v) (h3 : v < W.nS) : ¬ W'.TS v := by
  intro hv
  rcases h.tS v hv with h | h | h
  · exact h1 h
  · exact h2 h
  · omega

/-- what a related pair dereferences to when the SLD side is an unbound variable -/
theorem World.Eq.var_left {W : World} {t u : Term} {a : Nat} (h : W.Eq t u) (e : walk W.σS t = .var a) :
    ∃ b, walk W.σD u = .var b ∧ W.ρ a b := by
  have h1 := (W.Eq_unfold t u).1 h
  rw [e] at h1
  revert h1
  generalize walk W.σD u = w
  intro h1
  cases h1 with
  | var r => exact ⟨_, rfl, r⟩

theorem World.Eq.touchedS {W : World} {t u : Term} {a : Nat} (h : W.Eq t u) (e : walk W.σS t = .var a) :
    W.TS a := by
  obtain ⟨b, _, r⟩ := h.var_left e
  exact .inr ⟨b, r⟩

/-! ### walking through an extension -/

theorem walk_keys (Δ : Subst) (v : Nat) (h : ∀ p ∈ Δ, p.1 ≠ v) : walk Δ (.var v) = .var v :=
  walk_unbound Δ v h

/-- **persistence.**  `W'` extends the stores of `W` by `ΔS`, `ΔD`.  If every pair of corresponding
    variables of `W` is still related in `W'` after walking through the new bindings — this may be
    assumed for all old related pairs one level down — then all related pairs stay related. -/
theorem persist {W W' : World} {ΔS ΔD : Subst} (hS : W'.σS = ΔS ++ W.σS) (hD : W'.σD = ΔD ++ W.σD)
    (H : ∀ x y, W.ρ x y → ∀ k, (∀ t u, W.Eq t u → Sim W' k t u) →
      Sim1 W'.ρ (Sim W' k) (walk ΔS (.var x)) (walk ΔD (.var y))) :
    ∀ t u, W.Eq t u → W'.Eq t u := by
  intro t u h k
  induction k generalizing t u with
  | zero => trivial
  | succ k ih =>
    unfold Sim
    rw [hS, hD, walk_append, walk_append]
    have h1 := (W.Eq_unfold t u).1 h
    revert h1
    generalize walk W.σS t = a
    generalize walk W.σD u = b
    intro h1
    cases h1 with
    | var r => exact H _ _ r k (fun t u h => ih t u h)
    | atom a => rw [walk_nonvar _ _ rfl, walk_nonvar _ _ rfl]; exact .atom a
    | int i => rw [walk_nonvar _ _ rfl, walk_nonvar _ _ rfl]; exact .int i
    | flt b => rw [walk_nonvar _ _ rfl, walk_nonvar _ _ rfl]; exact .flt b
    | str i => rw [walk_nonvar _ _ rfl, walk_nonvar _ _ rfl]; exact .str i
    | app r =>
      rw [walk_nonvar _ _ rfl, walk_nonvar _ _ rfl]
      exact .app (r.mono (fun a b r => ih a b r))

/-! ### the elementary steps -/

theorem walk_single (v : Nat) (u : Term) (x : Nat) :
    walk [(v, u)] (.var x) = if x = v then u else .var x := by
  simp [walk]

/-- both sides bind corresponding variables to related (dereferenced) terms -/
def World.bindPar (W : World) (aS : Nat) (uS : Term) (aD : Nat) (uD : Term) : World :=
  { W with σS := (aS, uS) :: W.σS, σD := (aD, uD) :: W.σD, ρ := fun x y => W.ρ x y ∧ x ≠ aS }

theorem World.bindPar_ok {W : World} (hW : W.Good) {aS aD : Nat} {uS uD : Term} (ha : W.ρ aS aD)
    (hu : Sim1 W.ρ W.Eq uS uD) (hne : uS ≠ .var aS) :
    (W.bindPar aS uS aD uD).Good ∧ Step W (W.bindPar aS uS aD uD) (fun _ => False) := by
  have tS : ∀ v, (W.bindPar aS uS aD uD).TS v → W.TS v := by
    intro v hv
    rcases hv with ⟨p, hp, e⟩ | ⟨b, r, _⟩
    · simp only [World.bindPar, List.mem_cons] at hp
      rcases hp with rfl | hp
      · exact .inr ⟨aD, e ▸ ha⟩
      · exact .inl ⟨p, hp, e⟩
    · exact .inr ⟨b, r⟩
  have tD : ∀ v, (W.bindPar aS uS aD uD).TD v → W.TD v := by
    intro v hv
    rcases hv with ⟨p, hp, e⟩ | ⟨a, r, _⟩
    · simp only [World.bindPar, List.mem_cons] at hp
      rcases hp with rfl | hp
      · exact .inr ⟨aS, e ▸ ha⟩
      · exact .inl ⟨p, hp, e⟩
    · exact .inr ⟨a, r⟩
  have hunb : ∀ a b, (W.bindPar aS uS aD uD).ρ a b →
      (∀ p ∈ (W.bindPar aS uS aD uD).σS, p.1 ≠ a) ∧ (∀ p ∈ (W.bindPar aS uS aD uD).σD, p.1 ≠ b) := by
    intro a b r
    have hb : b ≠ aD := fun e => r.2 (hW.inj _ _ _ r.1 (e ▸ ha))
    constructor
    · intro p hp
      simp only [World.bindPar, List.mem_cons] at hp
      rcases hp with rfl | hp
      · exact fun e => r.2 e.symm
      · exact (hW.unb a b r.1).1 p hp
    · intro p hp
      simp only [World.bindPar, List.mem_cons] at hp
      rcases hp with rfl | hp
      · exact fun e => hb e.symm
      · exact (hW.unb a b r.1).2 p hp
  refine ⟨⟨fun a b b' h h' => hW.fn a b b' h.1 h'.1, fun a a' b h h' => hW.inj a a' b h.1 h'.1,
    fun v hv => hW.scS v (tS v hv), fun v hv => hW.scD v (tD v hv), hunb⟩,
    ⟨?_, ⟨[(aS, uS)], rfl⟩, ⟨[(aD, uD)], rfl⟩, Nat.le_refl _, Nat.le_refl _,
      fun v hv => .inl (tS v hv), fun v hv => .inl (tD v hv)⟩⟩
  refine persist (ΔS := [(aS, uS)]) (ΔD := [(aD, uD)]) rfl rfl ?_
  intro x y r k Hk
  rw [walk_single, walk_single]
  by_cases hx : x = aS
  · subst hx
    have hy : y = aD := hW.fn _ _ _ r ha
    subst hy
    simp only [if_true]
    cases hu with
    | var r' => exact .var ⟨r', fun e => hne (by rw [e])⟩
    | atom a => exact .atom a
    | int i => exact .int i
    | flt b => exact .flt b
    | str i => exact .str i
    | app r' => exact .app (r'.mono (fun a b h => Hk a b h))
  · have hy : y ≠ aD := fun e => hx (hW.inj _ _ _ (e ▸ r) ha)
    simp only [hx, hy, if_false]
    exact .var ⟨r, hx⟩

/-- the SLD side binds an untouched variable (a hidden variable) -/
def World.bindS (W : World) (s : Nat) (u : Term) : World := { W with σS := (s, u) :: W.σS }

theorem World.bindS_ok {W : World} (hW : W.Good) {s : Nat} (u : Term) (hs : ¬ W.TS s) (hlt : s < W.nS) :
    (W.bindS s u).Good ∧ Step W (W.bindS s u) (fun v => v = s) := by
  have tS : ∀ v, (W.bindS s u).TS v → W.TS v ∨ v = s := by
    intro v hv
    rcases hv with ⟨p, hp, e⟩ | ⟨b, r⟩
    · simp only [World.bindS, List.mem_cons] at hp
      rcases hp with rfl | hp
      · exact .inr e.symm
      · exact .inl (.inl ⟨p, hp, e⟩)
    · exact .inl (.inr ⟨b, r⟩)
  have hunb : ∀ a b, (W.bindS s u).ρ a b →
      (∀ p ∈ (W.bindS s u).σS, p.1 ≠ a) ∧ (∀ p ∈ (W.bindS s u).σD, p.1 ≠ b) := by
    intro a b r
    refine ⟨fun p hp => ?_, (hW.unb a b r).2⟩
    simp only [World.bindS, List.mem_cons] at hp
    rcases hp with rfl | hp
    · exact fun e => hs (.inr ⟨b, by have e' : s = a := e; rw [e']; exact r⟩)
    · exact (hW.unb a b r).1 p hp
  refine ⟨⟨hW.fn, hW.inj, fun v hv => ?_, hW.scD, hunb⟩,
    ⟨?_, ⟨[(s, u)], rfl⟩, ⟨[], rfl⟩, Nat.le_refl _, Nat.le_refl _, fun v hv => ?_, fun v hv => .inl hv⟩⟩
  · rcases tS v hv with h | h
    · exact hW.scS v h
    · subst h; exact hlt
  · refine persist (ΔS := [(s, u)]) (ΔD := []) rfl rfl ?_
    intro x y r k _
    have hx : x ≠ s := fun e => hs (.inr ⟨y, e ▸ r⟩)
    rw [walk_single]
    simp only [hx, if_false, walk]
    exact .var r
  · rcases tS v hv with h | h
    · exact .inl h
    · exact .inr (.inl h)

/-- after binding the untouched `s` to the dereferenced form of `t`, `s` is what `t` is -/
theorem World.bindS_eq {W : World} {s : Nat} {t r : Term} (hs : ¬ W.TS s)
    (hne : walk W.σS t ≠ .var s) (h : (W.bindS s (walk W.σS t)).Eq t r) :
    (W.bindS s (walk W.σS t)).Eq (.var s) r := by
  refine h.of_walk ?_ rfl
  show walk ((s, walk W.σS t) :: W.σS) (.var s) = walk ((s, walk W.σS t) :: W.σS) t
  rw [walk_bind _ _ _ (W.unbS hs)]
  simp only [walk]
  split
  · rename_i w hw
    split
    · rfl
    · rename_i hws; rw [hw]
  · rename_i hnv; exact (by cases hh : walk W.σS t <;> simp_all [hne])

/-- the SLD side binds a variable `a` that has a partner to an untouched variable `s`, which takes
    its place in the correspondence (`X = S` with `X` unbound: the left variable is bound) -/
def World.swapS (W : World) (a s : Nat) : World :=
  { W with σS := (a, .var s) :: W.σS, ρ := fun x y => (W.ρ x y ∧ x ≠ a) ∨ (x = s ∧ W.ρ a y) }

theorem World.swapS_ok {W : World} (hW : W.Good) {a s aD : Nat} (ha : W.ρ a aD) (hs : ¬ W.TS s)
    (hlt : s < W.nS) : (W.swapS a s).Good ∧ Step W (W.swapS a s) (fun v => v = s) := by
  have hsρ : ∀ y, ¬ W.ρ s y := fun y r => hs (.inr ⟨y, r⟩)
  have tS : ∀ v, (W.swapS a s).TS v → W.TS v ∨ v = s := by
    intro v hv
    rcases hv with ⟨p, hp, e⟩ | ⟨b, r⟩
    · simp only [World.swapS, List.mem_cons] at hp
      rcases hp with rfl | hp
      · exact .inl (.inr ⟨aD, e ▸ ha⟩)
      · exact .inl (.inl ⟨p, hp, e⟩)
    · rcases r with r | r
      · exact .inl (.inr ⟨b, r.1⟩)
      · exact .inr r.1
  have tD : ∀ v, (W.swapS a s).TD v → W.TD v := by
    intro v hv
    rcases hv with ⟨p, hp, e⟩ | ⟨x, r⟩
    · exact .inl ⟨p, hp, e⟩
    · rcases r with r | r
      · exact .inr ⟨x, r.1⟩
      · exact .inr ⟨a, r.2⟩
  have hunb : ∀ x y, (W.swapS a s).ρ x y →
      (∀ p ∈ (W.swapS a s).σS, p.1 ≠ x) ∧ (∀ p ∈ (W.swapS a s).σD, p.1 ≠ y) := by
    intro x y r
    rcases r with r | r
    · refine ⟨fun p hp => ?_, (hW.unb x y r.1).2⟩
      simp only [World.swapS, List.mem_cons] at hp
      rcases hp with rfl | hp
      · exact fun e => r.2 e.symm
      · exact (hW.unb x y r.1).1 p hp
    · refine ⟨fun p hp => ?_, (hW.unb a y r.2).2⟩
      simp only [World.swapS, List.mem_cons] at hp
      rcases hp with rfl | hp
      · exact fun e => hsρ aD (by rw [← r.1, ← e]; exact ha)
      · exact fun e => hs (.inl ⟨p, hp, by rw [e, r.1]⟩)
  refine ⟨⟨?_, ?_, fun v hv => ?_, fun v hv => hW.scD v (tD v hv), hunb⟩,
    ⟨?_, ⟨[(a, .var s)], rfl⟩, ⟨[], rfl⟩, Nat.le_refl _, Nat.le_refl _, fun v hv => ?_, fun v hv => .inl (tD v hv)⟩⟩
  · intro x b b' h h'
    rcases h with h | h <;> rcases h' with h' | h'
    · exact hW.fn _ _ _ h.1 h'.1
    · exact absurd (h'.1 ▸ h.1) (hsρ b)
    · exact absurd (h.1 ▸ h'.1) (hsρ b')
    · exact hW.fn _ _ _ h.2 h'.2
  · intro x x' b h h'
    rcases h with h | h <;> rcases h' with h' | h'
    · exact hW.inj _ _ _ h.1 h'.1
    · exact absurd (hW.inj _ _ _ h.1 h'.2) h.2
    · exact absurd (hW.inj _ _ _ h'.1 h.2) h'.2
    · rw [h.1, h'.1]
  · rcases tS v hv with h | h
    · exact hW.scS v h
    · subst h; exact hlt
  · refine persist (ΔS := [(a, .var s)]) (ΔD := []) rfl rfl ?_
    intro x y r k _
    rw [walk_single]
    simp only [walk]
    by_cases hx : x = a
    · subst hx; simp only [if_true]; exact .var (.inr ⟨rfl, r⟩)
    · simp only [hx, if_false]; exact .var (.inl ⟨r, hx⟩)
  · rcases tS v hv with h | h
    · exact .inl h
    · exact .inr (.inl h)

theorem World.swapS_eq {W : World} {a s : Nat} {t r : Term} (hs : ¬ W.TS s) (hta : walk W.σS t = .var a)
    (has : a ≠ s) (h : (W.swapS a s).Eq t r) : (W.swapS a s).Eq (.var s) r := by
  refine h.of_walk ?_ rfl
  show walk ((a, .var s) :: W.σS) (.var s) = walk ((a, .var s) :: W.σS) t
  simp only [walk, hta, W.walkS_untouched hs, if_true]
  simp [Ne.symm has]

/-- new variables, pairwise corresponding (renaming a rule apart on both sides) -/
def World.addVars (W : World) (nv cS cD : Nat) : World :=
  { W with ρ := fun x y => W.ρ x y ∨ ∃ v, v < nv ∧ x = v + W.nS ∧ y = v + W.nD,
           nS := W.nS + cS, nD := W.nD + cD }

theorem World.addVars_ok {W : World} (hW : W.Good) {nv cS cD : Nat} (hS : nv ≤ cS) (hD : nv ≤ cD) :
    (W.addVars nv cS cD).Good ∧ Step W (W.addVars nv cS cD) (fun _ => False) := by
  have tS : ∀ v, (W.addVars nv cS cD).TS v → W.TS v ∨ (W.nS ≤ v ∧ v < W.nS + nv) := by
    intro v hv
    rcases hv with ⟨p, hp, e⟩ | ⟨b, r | ⟨w, hw, e1, _⟩⟩
    · exact .inl (.inl ⟨p, hp, e⟩)
    · exact .inl (.inr ⟨b, r⟩)
    · exact .inr (by omega)
  have tD : ∀ v, (W.addVars nv cS cD).TD v → W.TD v ∨ (W.nD ≤ v ∧ v < W.nD + nv) := by
    intro v hv
    rcases hv with ⟨p, hp, e⟩ | ⟨b, r | ⟨w, hw, _, e1⟩⟩
    · exact .inl (.inl ⟨p, hp, e⟩)
    · exact .inl (.inr ⟨b, r⟩)
    · exact .inr (by omega)
  have hunb : ∀ a b, (W.addVars nv cS cD).ρ a b →
      (∀ p ∈ (W.addVars nv cS cD).σS, p.1 ≠ a) ∧ (∀ p ∈ (W.addVars nv cS cD).σD, p.1 ≠ b) := by
    intro a b r
    rcases r with r | ⟨w, hw, e1, e2⟩
    · exact hW.unb a b r
    · constructor
      · intro p hp e
        have := hW.scS _ (.inl ⟨p, hp, e⟩); omega
      · intro p hp e
        have := hW.scD _ (.inl ⟨p, hp, e⟩); omega
  refine ⟨⟨?_, ?_, fun v hv => ?_, fun v hv => ?_, hunb⟩,
    ⟨?_, ⟨[], rfl⟩, ⟨[], rfl⟩, Nat.le_add_right _ _, Nat.le_add_right _ _, fun v hv => ?_, fun v hv => ?_⟩⟩
  · intro x b b' h h'
    rcases h with h | ⟨w, hw, e1, e2⟩ <;> rcases h' with h' | ⟨w', hw', e1', e2'⟩
    · exact hW.fn _ _ _ h h'
    · have := hW.scS x (.inr ⟨b, h⟩); omega
    · have := hW.scS x (.inr ⟨b', h'⟩); omega
    · omega
  · intro x x' b h h'
    rcases h with h | ⟨w, hw, e1, e2⟩ <;> rcases h' with h' | ⟨w', hw', e1', e2'⟩
    · exact hW.inj _ _ _ h h'
    · have := hW.scD b (.inr ⟨x, h⟩); omega
    · have := hW.scD b (.inr ⟨x', h'⟩); omega
    · omega
  · show v < W.nS + cS
    rcases tS v hv with h | h
    · have := hW.scS v h; omega
    · omega
  · show v < W.nD + cD
    rcases tD v hv with h | h
    · have := hW.scD v h; omega
    · omega
  · refine persist (ΔS := []) (ΔD := []) rfl rfl ?_
    intro x y r k _
    simp only [walk]
    exact .var (.inl r)
  · rcases tS v hv with h | h
    · exact .inl h
    · exact .inr (.inr h.1)
  · rcases tD v hv with h | h
    · exact .inl h
    · exact .inr h.1

theorem World.addVars_TS {W : World} {nv cS cD v : Nat} (hv : (W.addVars nv cS cD).TS v) :
    W.TS v ∨ (W.nS ≤ v ∧ v < W.nS + nv) := by
  rcases hv with ⟨p, hp, e⟩ | ⟨b, r | ⟨w, hw, e1, _⟩⟩
  · exact .inl (.inl ⟨p, hp, e⟩)
  · exact .inl (.inr ⟨b, r⟩)
  · exact .inr (by omega)

theorem World.addVars_eq {W : World} (hW : W.Good) {nv cS cD : Nat} (v : Nat) (hv : v < nv) :
    (W.addVars nv cS cD).Eq (.var (v + W.nS)) (.var (v + W.nD)) := by
  rw [World.Eq_unfold]
  have h1 : walk W.σS (.var (v + W.nS)) = .var (v + W.nS) :=
    walk_unbound _ _ (fun p hp e => by have := hW.scS _ (.inl ⟨p, hp, e⟩); omega)
  have h2 : walk W.σD (.var (v + W.nD)) = .var (v + W.nD) :=
    walk_unbound _ _ (fun p hp e => by have := hW.scD _ (.inl ⟨p, hp, e⟩); omega)
  show Sim1 _ _ (walk W.σS _) (walk W.σD _)
  rw [h1, h2]
  exact .var (.inr ⟨v, hv, rfl, rfl⟩)

end PrologVerif.Grammar
