/-
  P2: the reader on the leaves (variables, numbers, atoms) and on the bracketing constructs
  (`{…}`, lists, functional notation) of the text `writeq` emits.
-/
import PrologVerif.Proofs.OpRoundtripParse1
set_option linter.unusedSimpArgs false
set_option linter.unusedVariables false
namespace PrologVerif.Write
open PrologVerif PrologVerif.Lexer PrologVerif.Ops PrologVerif.Read

/-! ## leaves -/

/-- a number token -/
theorem parses_number (ops : Table) (dq : DoubleQuotes) (mp : Nat) (t : Token) (n : Term) (rest : List Token)
    (hk : isNumberKind t.kind = true) (hn : numberTerm false t = .ok n) (vs : Vars) (nv : Nat) :
    ParsesAs ops dq mp [t] rest n vs nv vs nv := by
  refine parses_primary (by simp) ?_ ?_
  · intro b; exact prefix_number ops dq mp t hk b rest vs nv
  · intro fuel b hf
    obtain ⟨F, rfl⟩ : ∃ F, fuel = F + 1 := ⟨fuel - 1, by simp at hf; omega⟩
    simpa using term0_number ops dq F mp t n hk hn b rest vs nv

/-- `-` and a number token -/
theorem parses_minus_number (ops : Table) (dq : DoubleQuotes) (mp : Nat) (t : Token) (n : Term) (rest : List Token)
    (hk : isNumberKind t.kind = true) (hn : numberTerm true t = .ok n) (vs : Vars) (nv : Nat) :
    ParsesAs ops dq mp [minusTok, t] rest n vs nv vs nv := by
  refine parses_primary (by simp) ?_ ?_
  · intro b; exact prefix_minus_number ops dq mp t hk b rest vs nv
  · intro fuel b hf
    obtain ⟨F, rfl⟩ : ∃ F, fuel = F + 2 := ⟨fuel - 2, by simp at hf; omega⟩
    simpa [minusTok] using term0_minus_number ops dq F mp t n hk hn b rest vs nv

/-- a variable -/
theorem parses_var (e : Env) (G : UInt64 → GText) (P : UInt64 → Bool) (he : EnvOK e G P) (ops : Table)
    (dq : DoubleQuotes) (mp : Nat) (v : Nat) (rest : List Token) (vs : Vars) (nv : Nat) (seen : List Nat)
    (hv : VarsOK e vs nv seen) :
    ∃ vs' nv', ParsesAs ops dq mp [⟨.variable, e.varName v⟩] rest ((Term.var v).canonAux seen).1 vs nv vs' nv' ∧
      VarsOK e vs' nv' ((Term.var v).canonAux seen).2 := by
  have hvar : ∀ b, ∃ vs' nv', «variable» (e.varName v) ⟨⟨.variable, e.varName v⟩ :: b, rest, vs, nv⟩ =
      (.ok ((Term.var v).canonAux seen).1, ⟨⟨.variable, e.varName v⟩ :: b, rest, vs', nv'⟩) ∧
      VarsOK e vs' nv' ((Term.var v).canonAux seen).2 :=
    fun b => variable_spec e he.varInj v (he.varShape v).2 _ _ vs nv seen hv
  -- the resulting variable table does not depend on `b`
  obtain ⟨vs', nv', h0, hv'⟩ := hvar []
  refine ⟨vs', nv', parses_primary (by simp) ?_ ?_, hv'⟩
  · intro b
    simp [«prefix», Read.op, Read.atom, Read.name, Read.next, Read.backup]
  · intro fuel b hf
    obtain ⟨F, rfl⟩ : ∃ F, fuel = F + 1 := ⟨fuel - 1, by simp at hf; omega⟩
    have h1 : «variable» (e.varName v) ⟨⟨.variable, e.varName v⟩ :: b, rest, vs, nv⟩ =
        (.ok ((Term.var v).canonAux seen).1, ⟨⟨.variable, e.varName v⟩ :: b, rest, vs', nv'⟩) := by
      simp only [«variable»] at h0 ⊢
      split at h0
      · split
        · simp_all
        · simp_all
      · split at h0 <;> simp_all
    simp [term0, Read.next, h1]

/-! ## atoms -/

/-- what may follow an operand: an operator token or a closing token — never `(`, never a number -/
def FollowTok (t : Token) : Prop :=
  t.kind = .letterDigit ∨ t.kind = .graphic ∨ t.kind = .quoted ∨ t.kind = .semicolon ∨ t.kind = .cut ∨
  t.kind = .comma ∨ t.kind = .bar ∨ t.kind = .close ∨ t.kind = .closeList ∨ t.kind = .closeCurly ∨ t.kind = .end_

theorem FollowTok.facts {t : Token} (h : FollowTok t) : t.kind ≠ .openCT ∧ isNumberKind t.kind = false := by
  rcases h with h | h | h | h | h | h | h | h | h | h | h <;> simp [h, isNumberKind]

theorem HardStop.follow {t : Token} (h : HardStop t) : FollowTok t := by
  rcases h with h | h | h | h <;> simp [FollowTok, h]

theorem term0Atom_leaf {s : List Char} {toks : List Token} (h : AtomToks s toks) (ops : Table)
    (dq : DoubleQuotes) (fuel mp : Nat) (nxt : Token) (hs : FollowTok nxt)
    (b r : List Token) (vs : Vars) (nv : Nat) :
    term0Atom ops dq (fuel + 2) mp ⟨b, toks ++ nxt :: r, vs, nv⟩ =
      if mp < 1201 ∧ defined ops (String.ofList s) = true
      then (.error .expectation, Read.backup ⟨toks.reverse ++ b, nxt :: r, vs, nv⟩)
      else (.ok (.atom (String.ofList s)), ⟨toks.reverse ++ b, nxt :: r, vs, nv⟩) := by
  obtain ⟨h1, h2⟩ := hs.facts
  simp only [term0Atom, atom_atomToks h]
  by_cases hm : String.ofList s = "-" <;>
    simp [hm, Read.next, Read.backup, h1, h2, functionalNotation]

/-- an atom that is not an operator, as an operand -/
theorem parses_atom_nd {s : List Char} {toks : List Token} (h : AtomToks s toks) (ops : Table)
    (dq : DoubleQuotes) (mp : Nat) (hd : defined ops (String.ofList s) = false) (nxt : Token) (hs : FollowTok nxt)
    (r : List Token) (vs : Vars) (nv : Nat) :
    ParsesAs ops dq mp toks (nxt :: r) (.atom (String.ofList s)) vs nv vs nv := by
  have hl := atomToks_length h
  refine parses_primary hl ?_ ?_
  · intro b
    exact prefix_atom_noPre h dq mp (opOf_none_of_not_defined ops _ _ hd) nxt b r vs nv
  · intro fuel b hf
    obtain ⟨F, rfl⟩ : ∃ F, fuel = F + 3 := ⟨fuel - 3, by omega⟩
    rw [term0_atomToks h, term0Atom_leaf h ops dq F mp nxt hs]
    simp [hd]

theorem term_fails_hard (ops : Table) (dq : DoubleQuotes) (fuel mp : Nat) (stop : Token) (hs : HardStop stop)
    (b r : List Token) (vs : Vars) (nv : Nat) :
    term ops dq (fuel + 3) mp ⟨b, stop :: r, vs, nv⟩ = (.error .expectation, ⟨b, stop :: r, vs, nv⟩) := by
  have hp := prefix_of_op_err (ops := ops) (op_hard hs dq mp b r vs nv)
  have ha := atom_hard hs dq b r vs nv
  rcases hs with hk | hk | hk | hk <;>
    simp [term, hp, term0, term0Atom, Read.next, Read.backup, hk, ha]

/-- any atom (operator or not) before a closing token, where the context allows priority 1201: inside
    brackets, inside `{…}`, at the top -/
theorem parses_atom_top {s : List Char} {toks : List Token} (h : AtomToks s toks) (ops : Table)
    (dq : DoubleQuotes) (stop : Token) (hs : HardStop stop) (r : List Token) (vs : Vars) (nv : Nat) :
    ParsesAs ops dq 1201 toks (stop :: r) (.atom (String.ofList s)) vs nv vs nv := by
  have hl := atomToks_length h
  have hf := hs.follow
  have h0 : ∀ F b, term0 ops dq (F + 3) 1201 ⟨b, toks ++ stop :: r, vs, nv⟩ =
      (.ok (.atom (String.ofList s)), ⟨toks.reverse ++ b, stop :: r, vs, nv⟩) := by
    intro F b
    rw [term0_atomToks h, term0Atom_leaf h ops dq F 1201 stop hf]
    simp
  by_cases hb : isBracketAtom s
  · refine parses_primary hl (fun b => prefix_bracket h hb ops dq 1201 b _ vs nv) ?_
    intro fuel b hfu
    obtain ⟨F, rfl⟩ : ∃ F, fuel = F + 3 := ⟨fuel - 3, by omega⟩
    exact h0 F b
  cases hpre : (opOf ops (String.ofList s) .pre).filter (fun o => o.pri ≤ 1201) with
  | none =>
    refine parses_primary hl ?_ ?_
    · intro b
      rw [prefix_atom_other h hb ops dq 1201 stop hf.facts.1 hf.facts.2, hpre]
    · intro fuel b hfu
      obtain ⟨F, rfl⟩ : ∃ F, fuel = F + 3 := ⟨fuel - 3, by omega⟩
      exact h0 F b
  | some o =>
    obtain ⟨t, rfl⟩ := atomToks_single h hb
    refine ⟨hl, ?_⟩
    intro fuel b hfu
    simp only [List.length_cons, List.length_nil] at hfu
    obtain ⟨F, rfl⟩ : ∃ F, fuel = F + 4 := ⟨fuel - 4, by omega⟩
    refine ⟨1, by simp, ?_⟩
    have hp := prefix_atom_other h hb ops dq 1201 stop hf.facts.1 hf.facts.2 b r vs nv
    rw [hpre] at hp
    have hfail := term_fails_hard ops dq F (bindingPriorities o).2 stop hs ([t].reverse ++ b) r vs nv
    have h0' := h0 F b
    simp only [List.singleton_append] at hp h0'
    simp only [term, List.singleton_append, hp, hfail]
    simp only [List.reverse_cons, List.reverse_nil, List.nil_append, List.singleton_append, Read.backup, h0']
    exact (infixLoop_stopAt (stopAt_hard hs ops dq 1201 r) (F + 2) _ _ _ _).symm

/-! ## `{…}` -/

def openCurlyTok : Token := ⟨.openCurly, ['{']⟩
def closeCurlyTok : Token := ⟨.closeCurly, ['}']⟩
def openListTok : Token := ⟨.openList, ['[']⟩
def closeListTok : Token := ⟨.closeList, [']']⟩

theorem op_openCurly (dq : DoubleQuotes) (mp : Nat) (x0 : Token) (hx : x0.kind ≠ .closeCurly)
    (b r : List Token) (vs : Vars) (nv : Nat) :
    Read.op dq mp ⟨b, openCurlyTok :: x0 :: r, vs, nv⟩ = (.error .expectation, ⟨b, openCurlyTok :: x0 :: r, vs, nv⟩) := by
  simp [Read.op, Read.atom, Read.name, Read.next, Read.backup, openCurlyTok, hx]

theorem op_openList (dq : DoubleQuotes) (mp : Nat) (x0 : Token) (hx : x0.kind ≠ .closeList)
    (b r : List Token) (vs : Vars) (nv : Nat) :
    Read.op dq mp ⟨b, openListTok :: x0 :: r, vs, nv⟩ = (.error .expectation, ⟨b, openListTok :: x0 :: r, vs, nv⟩) := by
  simp [Read.op, Read.atom, Read.name, Read.next, Read.backup, openListTok, hx]

/-- `{ X }` -/
theorem parses_curly {ops : Table} {dq : DoubleQuotes} {mp : Nat} {x0 : Token} {X rest : List Token} {t : Term}
    {vs : Vars} {nv : Nat} {vs' : Vars} {nv' : Nat} (hx : x0.kind ≠ .closeCurly)
    (h : ParsesAs ops dq 1201 (x0 :: X) (closeCurlyTok :: rest) t vs nv vs' nv') :
    ParsesAs ops dq mp (openCurlyTok :: (x0 :: X ++ [closeCurlyTok])) rest (.app "{}" (.cons t .nil)) vs nv vs' nv' := by
  obtain ⟨hl, h⟩ := h
  refine parses_primary (by simp) ?_ ?_
  · intro b
    exact prefix_of_op_err (op_openCurly dq mp x0 hx b _ vs nv)
  · intro fuel b hf
    simp only [List.length_cons, List.length_append, List.length_nil] at hf
    obtain ⟨F, rfl⟩ : ∃ F, fuel = F + 3 := ⟨fuel - 3, by omega⟩
    obtain ⟨k, hk, e1⟩ := h (F + 1) (openCurlyTok :: b) (by simp only [List.length_cons]; omega)
    simp only [List.length_cons] at hk
    obtain ⟨G, hG⟩ : ∃ G, F + 1 - k = G + 1 := ⟨F - k, by omega⟩
    have hst : StopAt ops dq 1201 (closeCurlyTok :: rest) := stopAt_hard (.inr (.inr (.inl rfl))) ops dq 1201 rest
    rw [hG, infixLoop_stopAt hst] at e1
    simp only [List.cons_append] at e1
    have hck : closeCurlyTok.kind = .closeCurly := rfl
    have hok : openCurlyTok.kind = .openCurly := rfl
    simp [term0, Read.next, Read.backup, hok, hx, curlyBracketedTerm, e1, hck, Read.apply, Term.mk, Args.ofList]

/-! ## arguments and list elements -/

/-- the tokens after an argument or a list element -/
def ArgStop (t : Token) : Prop := t = commaTok ∨ t = closeTok ∨ t = barTok ∨ t = closeListTok

theorem ArgStop.kind {t : Token} (h : ArgStop t) :
    t.kind = .comma ∨ t.kind = .close ∨ t.kind = .bar ∨ t.kind = .closeList := by
  rcases h with rfl | rfl | rfl | rfl
  · exact .inl rfl
  · exact .inr (.inl rfl)
  · exact .inr (.inr (.inl rfl))
  · exact .inr (.inr (.inr rfl))

theorem ArgStop.follow {t : Token} (h : ArgStop t) : FollowTok t := by
  rcases h.kind with h | h | h | h <;> simp [FollowTok, h]

/-- an argument ends at `,` `)` `|` `]` (priority 999; `|` is at most an infix operator above 1000) -/
theorem stopAt_argStop {ops : Table} (hops : tableOK ops = true) {stop : Token} (h : ArgStop stop)
    (dq : DoubleQuotes) (r : List Token) : StopAt ops dq 999 (stop :: r) := by
  rcases h with rfl | rfl | rfl | rfl
  · intro b vs nv
    exact infix_of_op_err (op_commaTok_lt dq 999 (by decide) b r vs nv)
  · exact stopAt_hard (.inr (.inl rfl)) ops dq 999 r
  · refine stopAt_opTok (s := ['|']) (.inr (.inr ⟨rfl, rfl⟩)) dq 999 ?_ ?_ r
    · intro o ho
      have := (opFacts hops ho).bar rfl
      omega
    · intro o ho
      have := ((opFacts hops ho).bar rfl).1
      cases this
  · exact stopAt_hard (.inr (.inr (.inr rfl))) ops dq 999 r

/-- `arg` reads `X` as `t` -/
def ArgParsesAs (ops : Table) (dq : DoubleQuotes) (X rest : List Token) (t : Term)
    (vs : Vars) (nv : Nat) (vs' : Vars) (nv' : Nat) : Prop :=
  ∀ (fuel : Nat) (b : List Token), 8 * X.length + 1 ≤ fuel →
    arg ops dq fuel ⟨b, X ++ rest, vs, nv⟩ = (.ok t, ⟨X.reverse ++ b, rest, vs', nv'⟩)

/-- where `arg` is `term(999)` -/
theorem argParses_of_parses {ops : Table} {dq : DoubleQuotes} {X rest : List Token} {t : Term}
    {vs : Vars} {nv : Nat} {vs' : Vars} {nv' : Nat}
    (harg : ∀ fuel b, arg ops dq (fuel + 1) ⟨b, X ++ rest, vs, nv⟩ = term ops dq fuel 999 ⟨b, X ++ rest, vs, nv⟩)
    (h : ParsesAs ops dq 999 X rest t vs nv vs' nv') (hst : StopAt ops dq 999 rest) :
    ArgParsesAs ops dq X rest t vs nv vs' nv' := by
  obtain ⟨hl, h⟩ := h
  intro fuel b hf
  obtain ⟨F, rfl⟩ : ∃ F, fuel = F + 1 := ⟨fuel - 1, by omega⟩
  obtain ⟨k, hk, e1⟩ := h F b (by omega)
  obtain ⟨G, hG⟩ : ∃ G, F - k = G + 1 := ⟨F - k - 1, by omega⟩
  rw [harg, e1, hG, infixLoop_stopAt hst]

/-- an atom as an argument: an operator atom before `,` `)` `|` `]` is taken as it is -/
theorem argParses_atom {s : List Char} {toks : List Token} (h : AtomToks s toks) {ops : Table}
    (hops : tableOK ops = true) (dq : DoubleQuotes) {stop : Token} (hs : ArgStop stop)
    (r : List Token) (vs : Vars) (nv : Nat) :
    ArgParsesAs ops dq toks (stop :: r) (.atom (String.ofList s)) vs nv vs nv := by
  by_cases hd : defined ops (String.ofList s) = true
  · intro fuel b hf
    obtain ⟨F, rfl⟩ : ∃ F, fuel = F + 1 := ⟨fuel - 1, by omega⟩
    simp only [arg, atom_atomToks h]
    rcases hs.kind with hk | hk | hk | hk <;> simp [hd, Read.next, Read.backup, hk]
  · have hd' : defined ops (String.ofList s) = false := by simpa using hd
    refine argParses_of_parses ?_ (parses_atom_nd h ops dq 999 hd' stop hs.follow r vs nv)
      (stopAt_argStop hops hs dq r)
    intro fuel b
    simp only [arg, atom_atomToks h, hd, Bool.false_eq_true, if_false]
    change term ops dq fuel 999 (rewind ⟨toks.reverse ++ b, stop :: r, vs, nv⟩) = _
    rw [rewind_atomToks h]

/-! ## functional notation -/

/-- the `for` loop of `functionalNotation` on the remaining arguments and `)` -/
def ArgsLoopAs (ops : Table) (dq : DoubleQuotes) (X rest : List Token) (ts : List Term)
    (vs : Vars) (nv : Nat) (vs' : Vars) (nv' : Nat) : Prop :=
  ∀ (fuel : Nat) (functor : String) (acc : List Term) (b : List Token), 8 * X.length + 1 ≤ fuel →
    argsLoop ops dq fuel functor acc ⟨b, X ++ closeTok :: rest, vs, nv⟩ =
      (.ok (Read.apply functor (acc ++ ts)), ⟨closeTok :: (X.reverse ++ b), rest, vs', nv'⟩)

theorem argsLoop_nil (ops : Table) (dq : DoubleQuotes) (rest : List Token) (vs : Vars) (nv : Nat) :
    ArgsLoopAs ops dq [] rest [] vs nv vs nv := by
  intro fuel functor acc b hf
  obtain ⟨F, rfl⟩ : ∃ F, fuel = F + 1 := ⟨fuel - 1, by omega⟩
  have hck : closeTok.kind = .close := rfl
  simp [argsLoop, Read.next, hck]

theorem argsLoop_cons {ops : Table} {dq : DoubleQuotes} {A T rest : List Token} {a : Term} {ts : List Term}
    {vs : Vars} {nv : Nat} {vs1 : Vars} {nv1 : Nat} {vs2 : Vars} {nv2 : Nat}
    (ha : ArgParsesAs ops dq A (T ++ closeTok :: rest) a vs nv vs1 nv1)
    (ht : ArgsLoopAs ops dq T rest ts vs1 nv1 vs2 nv2) :
    ArgsLoopAs ops dq (commaTok :: (A ++ T)) rest (a :: ts) vs nv vs2 nv2 := by
  intro fuel functor acc b hf
  simp only [List.length_cons, List.length_append] at hf
  obtain ⟨F, rfl⟩ : ∃ F, fuel = F + 1 := ⟨fuel - 1, by omega⟩
  have e1 := ha F (commaTok :: b) (by omega)
  have e2 := ht F functor (acc ++ [a]) (A.reverse ++ commaTok :: b) (by omega)
  have e0 : commaTok :: (A ++ T) ++ closeTok :: rest = commaTok :: (A ++ (T ++ closeTok :: rest)) := by simp
  have hck : commaTok.kind = .comma := rfl
  rw [e0]
  simp only [argsLoop, Read.next, hck, e1, e2]
  simp

/-- `f(a1, …, an)` -/
theorem parses_functional {ops : Table} {dq : DoubleQuotes} {mp : Nat} {s : List Char} {F A T rest : List Token}
    {a : Term} {ts : List Term} {vs : Vars} {nv : Nat} {vs1 : Vars} {nv1 : Nat} {vs2 : Vars} {nv2 : Nat}
    (hat : AtomToks s F)
    (ha : ArgParsesAs ops dq A (T ++ closeTok :: rest) a vs nv vs1 nv1)
    (ht : ArgsLoopAs ops dq T rest ts vs1 nv1 vs2 nv2) :
    ParsesAs ops dq mp (F ++ openTok false :: (A ++ T ++ [closeTok])) rest (Read.apply (String.ofList s) (a :: ts))
      vs nv vs2 nv2 := by
  have hl := atomToks_length hat
  have hoc : (openTok false).kind = .openCT := rfl
  have e0 : F ++ openTok false :: (A ++ T ++ [closeTok]) ++ rest =
      F ++ openTok false :: (A ++ (T ++ closeTok :: rest)) := by simp
  refine parses_primary (by simp; omega) ?_ ?_
  · intro b
    rw [e0]
    exact prefix_atom_openCT hat ops dq mp (openTok false) hoc b _ vs nv
  · intro fuel b hf
    simp only [List.length_cons, List.length_append, List.length_nil] at hf
    obtain ⟨N, rfl⟩ : ∃ N, fuel = N + 4 := ⟨fuel - 4, by omega⟩
    have e1 := ha (N + 1) (openTok false :: (F.reverse ++ b)) (by omega)
    have e2 := ht (N + 1) (String.ofList s) [a] (A.reverse ++ openTok false :: (F.reverse ++ b)) (by omega)
    have hfn : functionalNotation ops dq (N + 2) (String.ofList s)
        ⟨F.reverse ++ b, openTok false :: (A ++ (T ++ closeTok :: rest)), vs, nv⟩ =
        (.ok (Read.apply (String.ofList s) (a :: ts)),
          ⟨closeTok :: (T.reverse ++ (A.reverse ++ openTok false :: (F.reverse ++ b))), rest, vs2, nv2⟩) := by
      simp only [functionalNotation, Read.next, hoc, if_true, e1, e2]
      simp
    have hnum : isNumberKind Kind.openCT = false := rfl
    have happ : ∀ p, (match Read.apply (String.ofList s) (a :: ts) with
        | .atom _ => (if mp < 1201 ∧ defined ops (String.ofList s) = true then
            ((.error .expectation, Read.backup p) : Except PErr Term × PState)
            else (.ok (Read.apply (String.ofList s) (a :: ts)), p))
        | _ => (.ok (Read.apply (String.ofList s) (a :: ts)), p)) =
        (.ok (Read.apply (String.ofList s) (a :: ts)), p) := by
      intro p; simp [Read.apply, Term.mk]
    rw [e0, term0_atomToks hat]
    simp only [term0Atom, atom_atomToks hat]
    by_cases hm : String.ofList s = "-"
    · rw [if_pos hm]
      simp only [Read.next, hoc, hnum, Bool.false_eq_true, if_false, backup_cons, hfn]
      simp [Read.apply, Term.mk]
    · rw [if_neg hm]
      simp only [hfn]
      simp [Read.apply, Term.mk]

/-! ## lists -/

/-- the `for` loop of `list` on the remaining elements, the tail and `]` -/
def ListLoopAs (ops : Table) (dq : DoubleQuotes) (X rest : List Token) (tl : Term)
    (vs : Vars) (nv : Nat) (vs' : Vars) (nv' : Nat) : Prop :=
  ∀ (fuel : Nat) (acc : List Term) (b : List Token), 8 * X.length + 2 ≤ fuel →
    listLoop ops dq fuel acc ⟨b, X ++ closeListTok :: rest, vs, nv⟩ =
      (.ok (Term.list acc tl), ⟨closeListTok :: (X.reverse ++ b), rest, vs', nv'⟩)

theorem listLoop_nil (ops : Table) (dq : DoubleQuotes) (rest : List Token) (vs : Vars) (nv : Nat) :
    ListLoopAs ops dq [] rest Term.nilT vs nv vs nv := by
  intro fuel acc b hf
  obtain ⟨F, rfl⟩ : ∃ F, fuel = F + 1 := ⟨fuel - 1, by omega⟩
  have hck : closeListTok.kind = .closeList := rfl
  simp [listLoop, Read.next, hck]

theorem list_snoc (acc : List Term) (a tl : Term) : Term.list (acc ++ [a]) tl = Term.list acc (Term.consT a tl) := by
  simp [Term.list, List.foldr_append]

theorem listLoop_cons {ops : Table} {dq : DoubleQuotes} {A L rest : List Token} {a tl : Term}
    {vs : Vars} {nv : Nat} {vs1 : Vars} {nv1 : Nat} {vs2 : Vars} {nv2 : Nat}
    (ha : ArgParsesAs ops dq A (L ++ closeListTok :: rest) a vs nv vs1 nv1)
    (ht : ListLoopAs ops dq L rest tl vs1 nv1 vs2 nv2) :
    ListLoopAs ops dq (commaTok :: (A ++ L)) rest (Term.consT a tl) vs nv vs2 nv2 := by
  intro fuel acc b hf
  simp only [List.length_cons, List.length_append] at hf
  obtain ⟨F, rfl⟩ : ∃ F, fuel = F + 1 := ⟨fuel - 1, by omega⟩
  have e1 := ha F (commaTok :: b) (by omega)
  have e2 := ht F (acc ++ [a]) (A.reverse ++ commaTok :: b) (by omega)
  have e0 : commaTok :: (A ++ L) ++ closeListTok :: rest = commaTok :: (A ++ (L ++ closeListTok :: rest)) := by simp
  have hck : commaTok.kind = .comma := rfl
  rw [e0]
  simp only [listLoop, Read.next, hck, e1, e2, list_snoc]
  simp

theorem listLoop_bar {ops : Table} {dq : DoubleQuotes} {A rest : List Token} {tl : Term}
    {vs : Vars} {nv : Nat} {vs1 : Vars} {nv1 : Nat}
    (ha : ArgParsesAs ops dq A (closeListTok :: rest) tl vs nv vs1 nv1) :
    ListLoopAs ops dq (barTok :: A) rest tl vs nv vs1 nv1 := by
  intro fuel acc b hf
  simp only [List.length_cons] at hf
  obtain ⟨F, rfl⟩ : ∃ F, fuel = F + 1 := ⟨fuel - 1, by omega⟩
  have e1 := ha F (barTok :: b) (by omega)
  have hck : barTok.kind = .bar := rfl
  have hcl : closeListTok.kind = .closeList := rfl
  simp only [List.cons_append, listLoop, Read.next, hck, e1, hcl]
  simp

/-- `[a1, …, an | tl]` -/
theorem parses_list {ops : Table} {dq : DoubleQuotes} {mp : Nat} {x0 : Token} {A L rest : List Token}
    {a tl : Term} {vs : Vars} {nv : Nat} {vs1 : Vars} {nv1 : Nat} {vs2 : Vars} {nv2 : Nat}
    (hx : x0.kind ≠ .closeList)
    (ha : ArgParsesAs ops dq (x0 :: A) (L ++ closeListTok :: rest) a vs nv vs1 nv1)
    (ht : ListLoopAs ops dq L rest tl vs1 nv1 vs2 nv2) :
    ParsesAs ops dq mp (openListTok :: (x0 :: A ++ L ++ [closeListTok])) rest (Term.consT a tl) vs nv vs2 nv2 := by
  have e0 : openListTok :: (x0 :: A ++ L ++ [closeListTok]) ++ rest =
      openListTok :: x0 :: (A ++ (L ++ closeListTok :: rest)) := by simp
  refine parses_primary (by simp) ?_ ?_
  · intro b
    rw [e0]
    exact prefix_of_op_err (op_openList dq mp x0 hx b _ vs nv)
  · intro fuel b hf
    simp only [List.length_cons, List.length_append, List.length_nil] at hf
    obtain ⟨N, rfl⟩ : ∃ N, fuel = N + 3 := ⟨fuel - 3, by omega⟩
    have e1 := ha (N + 1) (openListTok :: b) (by simp only [List.length_cons]; omega)
    have e2 := ht (N + 1) [a] ((x0 :: A).reverse ++ openListTok :: b) (by omega)
    simp only [List.cons_append] at e1
    have hok : openListTok.kind = .openList := rfl
    rw [e0]
    simp only [term0, Read.next, hok, hx, if_false, backup_cons, list, e1, e2]
    simp [Term.list]

end PrologVerif.Write
