/-
  Exact results of `Token()` on the texts the writer emits: names, variables, integers, punctuation,
  the end token — whatever follows, as long as the following character cannot extend the token.
-/
import PrologVerif.Proofs.LexQuoted
import PrologVerif.Proofs.IntRoundtrip
set_option linter.unusedSimpArgs false
set_option linter.unusedVariables false
namespace PrologVerif.Write
open PrologVerif PrologVerif.Lexer

variable (cfg : Cfg)

/-- the first character of `tail`, if any, satisfies `p` -/
def HeadIs (p : Char → Prop) (tail : List Char) : Prop := ∀ t, tail.head? = some t → p t

theorem HeadIs.nil (p : Char → Prop) : HeadIs p [] := by intro t h; simp at h
theorem HeadIs.cons {p : Char → Prop} {t : Char} {ts : List Char} (h : p t) : HeadIs p (t :: ts) := by
  intro t' h'; simp at h'; subst h'; exact h

/-- `Token()` on a text that starts with a character that is neither layout nor the start of a
    comment goes straight to `token` -/
theorem lexToken_start (hconv : ∀ c, cfg.conv c = c) (c : Char) (r hist chunk : List Char) (ring : Ring)
    (h1 : isLayoutChar cfg c = false) (h2 : c ≠ '%') (h3 : c ≠ '/') :
    lexToken cfg ⟨hist, c :: r, chunk, ring⟩ =
      token cfg (2 * (c :: r).length + 7) false ⟨hist, c :: r, [], ring.read.unread⟩ := by
  simp only [lexToken, tokenFuel, show 2 * (c :: r).length + 8 = (2 * (c :: r).length + 7) + 1 from rfl,
    layoutTextSequence, next, rawNext, hconv, h1, h2, h3, Bool.false_eq_true, if_false, backup]

/-! ## loops -/

theorem letterDigitToken_run (hconv : ∀ c, cfg.conv c = c) (w : List Char) :
    ∀ (fuel : Nat) (l : Lexer) (tail : List Char), (∀ x ∈ w, isAlphanumericChar cfg x = true) →
      l.rest = w ++ tail → HeadIs (fun t => isAlphanumericChar cfg t = false) tail → w.length + 1 ≤ fuel →
      ∃ l', letterDigitToken cfg fuel l = .ok (⟨.letterDigit, l.chunk ++ w⟩, l') ∧ l'.rest = tail := by
  induction w with
  | nil =>
    intro fuel l tail _ hl ht hf
    rcases l with ⟨hist, r, chunk, ring⟩
    simp only [List.nil_append] at hl
    subst r
    obtain ⟨fuel, rfl⟩ : ∃ f, fuel = f + 1 := ⟨fuel - 1, by simp at hf; omega⟩
    cases tail with
    | nil => exact ⟨_, by simp [letterDigitToken, next, rawNext, emit]; rfl, rfl⟩
    | cons t tail =>
      have := ht t rfl
      exact ⟨_, by simp [letterDigitToken, next, rawNext, emit, hconv, this, backup]; rfl, rfl⟩
  | cons x w ih =>
    intro fuel l tail hw hl ht hf
    rcases l with ⟨hist, r, chunk, ring⟩
    simp only [List.cons_append] at hl
    subst hl
    obtain ⟨fuel, rfl⟩ : ∃ f, fuel = f + 1 := ⟨fuel - 1, by simp at hf; omega⟩
    have hx := hw x (by simp)
    obtain ⟨l', h1, h2⟩ := ih fuel (accept ⟨x :: hist, w ++ tail, chunk, ring.read⟩ x) tail
      (fun y hy => hw y (by simp [hy])) rfl ht (by simp at hf ⊢; omega)
    refine ⟨l', ?_, h2⟩
    simp only [letterDigitToken, next, rawNext, hconv, hx, if_true]
    simpa [accept] using h1

theorem variableToken_run (hconv : ∀ c, cfg.conv c = c) (w : List Char) :
    ∀ (fuel : Nat) (l : Lexer) (tail : List Char), (∀ x ∈ w, isAlphanumericChar cfg x = true) →
      l.rest = w ++ tail → HeadIs (fun t => isAlphanumericChar cfg t = false) tail → w.length + 1 ≤ fuel →
      ∃ l', variableToken cfg fuel l = .ok (⟨.variable, l.chunk ++ w⟩, l') ∧ l'.rest = tail := by
  induction w with
  | nil =>
    intro fuel l tail _ hl ht hf
    rcases l with ⟨hist, r, chunk, ring⟩
    simp only [List.nil_append] at hl
    subst r
    obtain ⟨fuel, rfl⟩ : ∃ f, fuel = f + 1 := ⟨fuel - 1, by simp at hf; omega⟩
    cases tail with
    | nil => exact ⟨_, by simp [variableToken, next, rawNext, emit]; rfl, rfl⟩
    | cons t tail =>
      have := ht t rfl
      exact ⟨_, by simp [variableToken, next, rawNext, emit, hconv, this, backup]; rfl, rfl⟩
  | cons x w ih =>
    intro fuel l tail hw hl ht hf
    rcases l with ⟨hist, r, chunk, ring⟩
    simp only [List.cons_append] at hl
    subst hl
    obtain ⟨fuel, rfl⟩ : ∃ f, fuel = f + 1 := ⟨fuel - 1, by simp at hf; omega⟩
    have hx := hw x (by simp)
    obtain ⟨l', h1, h2⟩ := ih fuel (accept ⟨x :: hist, w ++ tail, chunk, ring.read⟩ x) tail
      (fun y hy => hw y (by simp [hy])) rfl ht (by simp at hf ⊢; omega)
    refine ⟨l', ?_, h2⟩
    simp only [variableToken, next, rawNext, hconv, hx, if_true]
    simpa [accept] using h1

/-- graphic character or backslash: what `graphicToken` keeps reading -/
def isGraphicOrBs (c : Char) : Bool := isGraphicChar c || decide (c = '\\')

theorem graphicToken_run (hconv : ∀ c, cfg.conv c = c) (w : List Char) :
    ∀ (fuel : Nat) (l : Lexer) (tail : List Char), (∀ x ∈ w, isGraphicOrBs x = true) →
      l.rest = w ++ tail → HeadIs (fun t => isGraphicOrBs t = false) tail → w.length + 1 ≤ fuel →
      ∃ l', graphicToken cfg fuel l = .ok (⟨.graphic, l.chunk ++ w⟩, l') ∧ l'.rest = tail := by
  induction w with
  | nil =>
    intro fuel l tail _ hl ht hf
    rcases l with ⟨hist, r, chunk, ring⟩
    simp only [List.nil_append] at hl
    subst r
    obtain ⟨fuel, rfl⟩ : ∃ f, fuel = f + 1 := ⟨fuel - 1, by simp at hf; omega⟩
    cases tail with
    | nil => exact ⟨_, by simp [graphicToken, next, rawNext, emit]; rfl, rfl⟩
    | cons t tail =>
      have := ht t rfl
      simp only [isGraphicOrBs, Bool.or_eq_false_iff, decide_eq_false_iff_not] at this
      exact ⟨_, by simp [graphicToken, next, rawNext, emit, hconv, this.1, this.2, backup]; rfl, rfl⟩
  | cons x w ih =>
    intro fuel l tail hw hl ht hf
    rcases l with ⟨hist, r, chunk, ring⟩
    simp only [List.cons_append] at hl
    subst hl
    obtain ⟨fuel, rfl⟩ : ∃ f, fuel = f + 1 := ⟨fuel - 1, by simp at hf; omega⟩
    have hx := hw x (by simp)
    simp only [isGraphicOrBs, Bool.or_eq_true, decide_eq_true_eq] at hx
    obtain ⟨l', h1, h2⟩ := ih fuel (accept ⟨x :: hist, w ++ tail, chunk, ring.read⟩ x) tail
      (fun y hy => hw y (by simp [hy])) rfl ht (by simp at hf ⊢; omega)
    refine ⟨l', ?_, h2⟩
    simp only [graphicToken, next, rawNext, hconv, hx, if_true]
    simpa [accept] using h1

/-! ## single tokens in context -/

/-- `x` followed by `tail` is delivered by `Token()` as the token `tok`, and `tail` is what remains
    (whatever the lexer has consumed before and whatever the state of the ring buffer) -/
def LexTok (x : List Char) (tok : Token) (tail : List Char) : Prop :=
  ∀ hist chunk ring, ∃ l', lexToken cfg ⟨hist, x ++ tail, chunk, ring⟩ = .ok (tok, l') ∧ l'.rest = tail

/-- `quote s` is one quoted token unless another quote follows -/
theorem lexTok_quote (hconv : ∀ c, cfg.conv c = c) (s tail : List Char) (ht : tail.head? ≠ some '\'') :
    LexTok cfg (quote cfg s) ⟨.quoted, quote cfg s⟩ tail :=
  fun hist chunk ring => lexToken_quote cfg hconv s tail _ rfl ht

/-- shape of an atom text that is a letter-digit token -/
def LDName (s : List Char) : Prop :=
  ∃ c w, s = c :: w ∧ isLayoutChar cfg c = false ∧ isSmallLetterChar cfg c = true ∧
    ∀ x ∈ w, isAlphanumericChar cfg x = true

theorem small_ne (c : Char) (h : isSmallLetterChar cfg c = true) : c ≠ '%' ∧ c ≠ '/' := by
  constructor <;> intro e <;> subst e
  · have : isSmallLetterChar cfg '%' = false := rfl
    simp [this] at h
  · have : isSmallLetterChar cfg '/' = false := rfl
    simp [this] at h

theorem lexTok_ldName (hconv : ∀ c, cfg.conv c = c) (s tail : List Char) (hs : LDName cfg s)
    (ht : HeadIs (fun t => isAlphanumericChar cfg t = false) tail) :
    LexTok cfg s ⟨.letterDigit, s⟩ tail := by
  obtain ⟨c, w, rfl, hl, hsm, hw⟩ := hs
  intro hist chunk ring
  obtain ⟨h2, h3⟩ := small_ne cfg c hsm
  rw [List.cons_append, lexToken_start cfg hconv c _ hist chunk ring hl h2 h3]
  obtain ⟨l', e1, e2⟩ := letterDigitToken_run cfg hconv w (2 * (c :: (w ++ tail)).length + 7)
    (accept ⟨c :: hist, w ++ tail, [], ring.read.unread.read⟩ c) tail hw rfl ht (by simp; omega)
  refine ⟨l', ?_, e2⟩
  simp only [token, next, rawNext, hconv, hsm, if_true]
  simpa [accept] using e1

/-- shape of an atom text that is a graphic token (the conditions are the lexer's own decisions, in
    its order: not layout, not a small letter, `.` not followed by layout or `%`, `/` not followed by `*`) -/
def GraphicName (s : List Char) : Prop :=
  ∃ c w, s = c :: w ∧ (∀ x ∈ c :: w, isGraphicOrBs x = true) ∧ isLayoutChar cfg c = false ∧
    isSmallLetterChar cfg c = false ∧
    (c = '/' → w.head? ≠ some '*') ∧
    (c = '.' → ∃ c2 w2, w = c2 :: w2 ∧ isLayoutChar cfg c2 = false)

theorem gbs_ne (c : Char) (h : isGraphicOrBs c = true) : c ≠ '%' := by
  intro e; subst e
  have : isGraphicOrBs '%' = false := rfl
  simp [this] at h

theorem lexTok_graphicName (hconv : ∀ c, cfg.conv c = c) (s tail : List Char) (hs : GraphicName cfg s)
    (ht : HeadIs (fun t => isGraphicOrBs t = false) tail) :
    LexTok cfg s ⟨.graphic, s⟩ tail := by
  obtain ⟨c, w, rfl, hg, hl, hsm, hslash, hdot⟩ := hs
  intro hist chunk ring
  have hc := hg c (by simp)
  have hw : ∀ x ∈ w, isGraphicOrBs x = true := fun x hx => hg x (by simp [hx])
  have hpc := gbs_ne c hc
  by_cases hsl : c = '/'
  · -- `/`: through commentOpen
    subst hsl
    have hstar := hslash rfl
    cases hwt : w ++ tail with
    | nil =>
      obtain ⟨l', e1, e2⟩ := graphicToken_run cfg hconv w (2 * ('/' :: (w ++ tail)).length + 6)
        (accept ⟨'/' :: hist, w ++ tail, [], ring.read⟩ '/') tail hw rfl ht (by simp at hwt; simp [hwt])
      refine ⟨l', ?_, e2⟩
      simp only [lexToken, tokenFuel, show 2 * ('/' :: w ++ tail).length + 8 =
          (2 * ('/' :: (w ++ tail)).length + 6) + 1 + 1 from rfl,
        List.cons_append, layoutTextSequence, commentOpen, next, rawNext, hconv, hl, Bool.false_eq_true, if_false,
        show ('/' : Char) ≠ '%' by decide, if_true]
      rw [hwt] at e1 ⊢
      simpa [accept] using e1
    | cons c2 r =>
      have h2 : c2 ≠ '*' := by
        cases w with
        | nil =>
          simp only [List.nil_append] at hwt
          have := ht c2 (by simp [hwt])
          intro e; subst e
          have hh : isGraphicOrBs '*' = true := rfl
          simp [hh] at this
        | cons x w' =>
          simp only [List.cons_append, List.cons.injEq] at hwt
          obtain ⟨rfl, _⟩ := hwt
          simpa using hstar
      obtain ⟨l', e1, e2⟩ := graphicToken_run cfg hconv w (2 * ('/' :: (w ++ tail)).length + 6)
        (accept ⟨'/' :: hist, w ++ tail, [], ring.read.read.unread⟩ '/') tail hw rfl ht
        (by have : w.length ≤ (w ++ tail).length := by simp
            simp; omega)
      refine ⟨l', ?_, e2⟩
      simp only [lexToken, tokenFuel, show 2 * ('/' :: w ++ tail).length + 8 =
          (2 * ('/' :: (w ++ tail)).length + 6) + 1 + 1 from rfl,
        List.cons_append, layoutTextSequence, commentOpen, next, rawNext, hconv, hl, Bool.false_eq_true, if_false,
        show ('/' : Char) ≠ '%' by decide, if_true]
      rw [hwt] at e1 ⊢
      simp only [h2, if_false, backup]
      simpa [accept] using e1
  · rw [List.cons_append, lexToken_start cfg hconv c _ hist chunk ring hl hpc hsl]
    by_cases hd : c = '.'
    · -- `.` followed by something that does not end a clause
      subst hd
      obtain ⟨c2, w2, rfl, hl2⟩ := hdot rfl
      have hp2 := gbs_ne c2 (hw c2 (by simp))
      obtain ⟨l', e1, e2⟩ := graphicToken_run cfg hconv (c2 :: w2) (2 * ('.' :: (c2 :: w2 ++ tail)).length + 7)
        ⟨'.' :: hist, c2 :: w2 ++ tail, ['.'], ring.read.unread.read.read.unread⟩ tail hw rfl ht (by simp; omega)
      refine ⟨l', ?_, e2⟩
      simp only [token, next, rawNext, hconv, hsm, Bool.false_eq_true, if_false, if_true, wasEndChar, accept,
        List.cons_append, hl2, hp2, decide_false, Bool.or_self, backup, List.nil_append]
      simpa using e1
    · obtain ⟨l', e1, e2⟩ := graphicToken_run cfg hconv w (2 * (c :: (w ++ tail)).length + 7)
        (accept ⟨c :: hist, w ++ tail, [], ring.read.unread.read⟩ c) tail hw rfl ht (by simp; omega)
      refine ⟨l', ?_, e2⟩
      simp only [isGraphicOrBs, Bool.or_eq_true, decide_eq_true_eq] at hc
      simp only [token, next, rawNext, hconv, hsm, Bool.false_eq_true, if_false, hd, hc, if_true]
      simpa [accept] using e1

/-- a solo character is a token of its own, whatever follows -/
theorem lexTok_solo (hconv : ∀ c, cfg.conv c = c) (c : Char) (tail : List Char)
    (hc : c = ';' ∨ c = '!' ∨ c = '[' ∨ c = ']' ∨ c = '{' ∨ c = '}' ∨ c = ',' ∨ c = ')' ∨ c = '|') :
    LexTok cfg [c] ⟨soloTokenKind c, [c]⟩ tail := by
  intro hist chunk ring
  refine ⟨⟨c :: hist, tail, [c], ring.read.unread.read⟩, ?_, rfl⟩
  rcases hc with h|h|h|h|h|h|h|h|h <;> subst h <;>
    (rw [List.singleton_append, lexToken_start cfg hconv _ _ hist chunk ring rfl (by decide) (by decide)]
     simp only [token, next, rawNext, hconv]
     rfl)

/-- `(` directly after a token is the "open ct" token -/
theorem lexTok_openCT (hconv : ∀ c, cfg.conv c = c) (tail : List Char) :
    LexTok cfg ['('] ⟨.openCT, ['(']⟩ tail := by
  intro hist chunk ring
  refine ⟨⟨'(' :: hist, tail, ['('], ring.read.unread.read⟩, ?_, rfl⟩
  rw [List.singleton_append, lexToken_start cfg hconv _ _ hist chunk ring rfl (by decide) (by decide)]
  simp only [token, next, rawNext, hconv]
  rfl

/-- ` .` at the end of the text is the end token -/
theorem lexTok_end (hconv : ∀ c, cfg.conv c = c) : LexTok cfg [' ', '.'] ⟨.end_, ['.']⟩ [] := by
  intro hist chunk ring
  refine ⟨⟨'.' :: ' ' :: hist, [], ['.'], ring.read.read.unread.read⟩, ?_, rfl⟩
  have h1 : isLayoutChar cfg ' ' = true := rfl
  have h2 : isLayoutChar cfg '.' = false := rfl
  have h3 : isSmallLetterChar cfg '.' = false := rfl
  simp [lexToken, tokenFuel, layoutTextSequence, next, rawNext, hconv, h1, h2, h3, backup, token, wasEndChar, accept, emit]

/-- a variable name as the writer prints it: `_` followed by alphanumerics -/
def VarName (s : List Char) : Prop := ∃ w, s = '_' :: w ∧ ∀ x ∈ w, isAlphanumericChar cfg x = true

theorem lexTok_varName (hconv : ∀ c, cfg.conv c = c) (s tail : List Char) (hs : VarName cfg s)
    (ht : HeadIs (fun t => isAlphanumericChar cfg t = false) tail) :
    LexTok cfg s ⟨.variable, s⟩ tail := by
  obtain ⟨w, rfl, hw⟩ := hs
  intro hist chunk ring
  rw [List.cons_append, lexToken_start cfg hconv '_' _ hist chunk ring rfl (by decide) (by decide)]
  obtain ⟨l', e1, e2⟩ := variableToken_run cfg hconv w (2 * ('_' :: (w ++ tail)).length + 7)
    (accept ⟨'_' :: hist, w ++ tail, [], ring.read.unread.read⟩ '_') tail hw rfl ht (by simp; omega)
  refine ⟨l', ?_, e2⟩
  have c1 : isSmallLetterChar cfg '_' = false := rfl
  have c2 : isGraphicChar '_' = false := rfl
  simp only [token, next, rawNext, hconv, c1, c2, Bool.false_eq_true, if_false,
    show ('_' : Char) ≠ '.' by decide, show ('_' : Char) ≠ '\\' by decide, show ('_' : Char) ≠ '\'' by decide,
    or_self, true_or, if_true]
  simpa [accept] using e1

/-! ## integers -/

/-- what may follow the digits of an integer without being taken for a part of the number -/
def IntTail (t : Char) : Prop :=
  isDecimalDigitChar t = false ∧ t ≠ '.' ∧ t ≠ '\'' ∧ t ≠ 'b' ∧ t ≠ 'o' ∧ t ≠ 'x'

theorem integerConstant_run (hconv : ∀ c, cfg.conv c = c) (ds : List Char) :
    ∀ (fuel : Nat) (l : Lexer) (tail : List Char), (∀ d ∈ ds, DecD d) →
      l.rest = ds ++ tail → HeadIs IntTail tail → ds.length + 1 ≤ fuel →
      ∃ l', integerConstant cfg fuel l = .ok (⟨.integer, l.chunk ++ ds⟩, l') ∧ l'.rest = tail := by
  induction ds with
  | nil =>
    intro fuel l tail _ hl ht hf
    rcases l with ⟨hist, r, chunk, ring⟩
    simp only [List.nil_append] at hl
    subst r
    obtain ⟨fuel, rfl⟩ : ∃ f, fuel = f + 1 := ⟨fuel - 1, by simp at hf; omega⟩
    cases tail with
    | nil => exact ⟨_, by simp [integerConstant, next, rawNext, emit]; rfl, rfl⟩
    | cons t tail =>
      obtain ⟨h1, h2, _⟩ := ht t rfl
      exact ⟨_, by simp [integerConstant, next, rawNext, emit, hconv, h1, h2, backup]; rfl, rfl⟩
  | cons x w ih =>
    intro fuel l tail hw hl ht hf
    rcases l with ⟨hist, r, chunk, ring⟩
    simp only [List.cons_append] at hl
    subst hl
    obtain ⟨fuel, rfl⟩ : ∃ f, fuel = f + 1 := ⟨fuel - 1, by simp at hf; omega⟩
    have hx := (decD_not x (hw x (by simp))).2.2.2.2.2
    obtain ⟨l', h1, h2⟩ := ih fuel (accept ⟨x :: hist, w ++ tail, chunk, ring.read⟩ x) tail
      (fun y hy => hw y (by simp [hy])) rfl ht (by simp at hf ⊢; omega)
    refine ⟨l', ?_, h2⟩
    simp only [integerConstant, next, rawNext, hconv, hx, if_true]
    simpa [accept] using h1

theorem decD_class (d : Char) (h : DecD d) :
    isLayoutChar cfg d = false ∧ d ≠ '%' ∧ d ≠ '/' ∧ isSmallLetterChar cfg d = false ∧ d ≠ '.' ∧
    isGraphicChar d = false ∧ d ≠ '\\' ∧ d ≠ '\'' ∧ d ≠ '_' ∧ isCapitalLetterChar cfg d = false ∧
    isDecimalDigitChar d = true := by
  obtain ⟨k, hk, rfl⟩ := h
  have h10 : k = 0 ∨ k = 1 ∨ k = 2 ∨ k = 3 ∨ k = 4 ∨ k = 5 ∨ k = 6 ∨ k = 7 ∨ k = 8 ∨ k = 9 := by omega
  rcases h10 with h|h|h|h|h|h|h|h|h|h <;> subst h <;>
    exact ⟨rfl, by decide, by decide, rfl, by decide, rfl, by decide, by decide, by decide, rfl, rfl⟩

/-- a non-empty string of decimal digits is one integer token -/
theorem lexTok_digits (hconv : ∀ c, cfg.conv c = c) (ds tail : List Char) (hne : ds ≠ [])
    (hds : ∀ d ∈ ds, DecD d) (ht : HeadIs IntTail tail) :
    LexTok cfg ds ⟨.integer, ds⟩ tail := by
  obtain ⟨d, w, rfl⟩ := List.exists_cons_of_ne_nil hne
  intro hist chunk ring
  obtain ⟨c1, c2, c3, c4, c5, c6, c7, c8, c9, c10, c11⟩ := decD_class cfg d (hds d (by simp))
  have hw : ∀ x ∈ w, DecD x := fun x hx => hds x (by simp [hx])
  rw [List.cons_append, lexToken_start cfg hconv d _ hist chunk ring c1 c2 c3]
  simp only [token, next, rawNext, hconv, c4, c5, c6, c7, c8, c9, c10, c11, Bool.false_eq_true, if_false,
    or_self, if_true, integerToken]
  by_cases h0 : d = '0'
  · subst h0
    simp only [if_true, accept, List.nil_append]
    cases hwt : w ++ tail with
    | nil =>
      obtain ⟨l', e1, e2⟩ := integerConstant_run cfg hconv w (2 * ('0' :: (w ++ tail)).length + 7)
        ⟨'0' :: hist, w ++ tail, ['0'], ring.read.unread.read⟩ tail hw rfl ht (by simp at hwt; simp [hwt])
      refine ⟨l', ?_, e2⟩
      rw [hwt] at e1
      simpa using e1
    | cons r rest =>
      have hr : r ≠ '\'' ∧ r ≠ 'b' ∧ r ≠ 'o' ∧ r ≠ 'x' := by
        cases w with
        | nil =>
          simp only [List.nil_append] at hwt
          obtain ⟨_, _, a, b, c, d⟩ := ht r (by simp [hwt])
          exact ⟨a, b, c, d⟩
        | cons x w' =>
          simp only [List.cons_append, List.cons.injEq] at hwt
          obtain ⟨rfl, _⟩ := hwt
          obtain ⟨a, b, c, d, _⟩ := decD_not x (hw x (by simp))
          exact ⟨a, b, c, d⟩
      obtain ⟨l', e1, e2⟩ := integerConstant_run cfg hconv w (2 * ('0' :: (w ++ tail)).length + 7)
        ⟨'0' :: hist, w ++ tail, ['0'], ring.read.unread.read.read.unread⟩ tail hw rfl ht
        (by have : w.length ≤ (w ++ tail).length := by simp
            simp; omega)
      refine ⟨l', ?_, e2⟩
      rw [hwt] at e1
      simp only [next, rawNext, hconv, hr.1, hr.2.1, hr.2.2.1, hr.2.2.2, if_false, backup]
      simpa using e1
  · obtain ⟨l', e1, e2⟩ := integerConstant_run cfg hconv w (2 * (d :: (w ++ tail)).length + 7)
      (accept ⟨d :: hist, w ++ tail, [], ring.read.unread.read⟩ d) tail hw rfl ht (by simp; omega)
    refine ⟨l', ?_, e2⟩
    simp only [h0, if_false]
    simpa [accept] using e1

end PrologVerif.Write
