/-
  Refine, part 6 — the program on both sides: the procedure table the VM builds when the clauses
  of a Horn program are asserted one by one (`VMScoped.initState`), and the clause list the
  reference interpreter resolves against (`prog.flatMap splitClause ++ library`), related clause by
  clause, in database order (`CRel`).
-/
import PrologVerif.Proofs.RefineCont
import PrologVerif.Proofs.VMScopedDefs
namespace PrologVerif.Refine
open PrologVerif PrologVerif.VM PrologVerif.DecompileCompile PrologVerif.Activation PrologVerif.VMScoped

variable {fl : Bool}

/-- the compiled clause `cl` is the clause with head `h` and body `b` (`true` for a fact) -/
inductive CRel (fl : Bool) : Clause → Term → Term → Prop
  | rule {cl : Clause} {h b : Term} {hargs : RepList} {bops : List Op} {gs : List Rep} :
      HeadLayout h cl hargs → cl.code = headCode hargs {} ++ Op.enter :: (bops ++ [Op.exit]) →
      BodySem cl.vars bops gs → gs.map goalTerm = SLD.conjuncts b →
      (∀ g ∈ gs, g = .atom "!" ∨ stepGoal fl (goalTerm g) = true) → CRel fl cl h b
  | fact {cl : Clause} {h : Term} {hargs : RepList} :
      HeadLayout h cl hargs → cl.code = headCode hargs {} ++ [Op.exit] → CRel fl cl h (.atom "true")

theorem CRel.name {cl : Clause} {h b : Term} (hr : CRel fl cl h b) :
    cl.name = functorName h ∧ cl.arity = (argList h).length := by
  cases hr with
  | rule hl _ _ _ _ => exact ⟨hl.name, hl.arity⟩
  | fact hl _ => exact ⟨hl.name, hl.arity⟩

/-- every clause of the fragment compiles to exactly one clause, related to its head and body -/
theorem horn_crel (c : Term) (hc : clauseC fl c = true) :
    ∃ cl, compile (toRep c) = .ok [cl] ∧ CRel fl cl (SLD.headBody c).1 (SLD.headBody c).2 := by
  by_cases hr : ∃ h b, c = .app ":-" (.cons h (.cons b .nil))
  · obtain ⟨h, b, rfl⟩ := hr
    obtain ⟨cl, hargs, bops, gs, hcomp, hl, hcode, hsem, hgs, hg⟩ := horn_rule_layout h b hc
    exact ⟨cl, hcomp, .rule hl hcode hsem hgs hg⟩
  · have hne : ∀ h b, c ≠ .app ":-" (.cons h (.cons b .nil)) := fun h b heq => hr ⟨h, b, heq⟩
    obtain ⟨cl, hargs, hcomp, hl, hcode⟩ := horn_fact_layout c hc hne
    have hhb : SLD.headBody c = (c, .atom "true") := by
      unfold SLD.headBody
      split
      · exact absurd rfl (hne _ _)
      · rfl
    rw [hhb]
    exact ⟨cl, hcomp, .fact hl hcode⟩

theorem forall2_of_index {α β : Type} {R : α → β → Prop} : ∀ {as : List α} {bs : List β},
    as.length = bs.length → (∀ (i : Nat) a b, as[i]? = some a → bs[i]? = some b → R a b) → Forall2 R as bs
  | [], [], _, _ => .nil
  | [], _ :: _, h, _ => by simp at h
  | _ :: _, [], h, _ => by simp at h
  | a :: as, b :: bs, h, hR =>
    .cons (hR 0 a b rfl rfl) (forall2_of_index (by simpa using h) (fun i a' b' ha hb => hR (i + 1) a' b' (by simpa using ha) (by simpa using hb)))

/-- **a rule whose body has several alternatives** compiles to one clause per alternative, each
    related to the head and that alternative -/
theorem rule_layouts (h b : Term) (hwh : wfT h = true) (hwb : wfT b = true) (hh : headOK h = true)
    (hds : ∀ dj ∈ SLD.disjuncts b, bodyS fl dj = true) :
    ∃ cs, compile (toRep (.app ":-" (.cons h (.cons b .nil)))) = .ok cs ∧
      Forall2 (fun cl dj => CRel fl cl h dj) cs (SLD.disjuncts b) := by
  obtain ⟨hch, hwfh, hname, hargs, _⟩ := hornHead_toRep hh hwh
  have hwfb := toRep_wf b hwb
  have hrep : toRep (.app ":-" (.cons h (.cons b .nil))) =
      .compound ":-" (.cons (toRep h) (.cons (toRep b) .nil)) := by
    rw [toRep_app_ne_dot _ _ (by decide)]; rfl
  rw [hrep]
  have halt := altBodies_disj b
  cases hcomp : compile (.compound ":-" (.cons (toRep h) (.cons (toRep b) .nil))) with
  | error e =>
    exfalso
    obtain ⟨alt, hm, g, hg, hcg⟩ := (error_statement (toRep h) (toRep b) hwfh hwfb hch).1 ⟨e, hcomp⟩
    rw [halt, List.mem_map] at hm
    obtain ⟨dj, hdj, rfl⟩ := hm
    rw [(bodyOK_goals dj (hds dj hdj) g hg).1] at hcg
    cases hcg
  | ok cs =>
    obtain ⟨hlen, _⟩ := rule_statement (toRep h) (toRep b) cs hwfh hwfb hch hcomp
    refine ⟨cs, rfl, forall2_of_index (by rw [hlen, halt, List.length_map]) ?_⟩
    intro i cl dj hcl hdj
    have hdjm : dj ∈ SLD.disjuncts b := List.mem_of_getElem? hdj
    have ha : (altBodies (toRep b))[i]? = some (toRep dj) := by
      rw [halt, List.getElem?_map, hdj]; rfl
    obtain ⟨bops, hcode, hsem, hpre, hnd, hn, har⟩ :=
      rule_clause_layout (toRep h) (toRep b) cs hwfh hwfb hch hcomp i cl (toRep dj) hcl ha
    refine .rule (hargs := headArgs (toRep h))
      ⟨wfs_headArgs _ hwfh, hpre, hnd, by rw [hn, hname], ?_, hargs, hh⟩ hcode hsem (seqGoals_toRep dj) ?_
    · rw [har, ← hargs, absArgs_toList_length]
    · intro g hg
      exact (bodyOK_goals dj (hds dj hdjm) g hg).2

/-- the clause a term of the fragment compiles to -/
def clauseOf (c : Term) : Clause :=
  match compile (toRep c) with
  | .ok (c1 :: _) => c1
  | _ => ⟨"", 0, .atom "", [], []⟩

theorem clauseOf_spec (c : Term) (hc : clauseC fl c = true) :
    compile (toRep c) = .ok [clauseOf c] ∧ CRel fl (clauseOf c) (SLD.headBody c).1 (SLD.headBody c).2 := by
  obtain ⟨cl, hcomp, hr⟩ := horn_crel c hc
  have : clauseOf c = cl := by simp [clauseOf, hcomp]
  rw [this]
  exact ⟨hcomp, hr⟩

theorem hornHead_user {h : Term} (hh : hornHead h = true) :
    userPred (functorName h) (argList h).length = true := by
  cases h with
  | atom f => simpa [hornHead, functorName, argList] using hh
  | app f as =>
    simp only [hornHead, Bool.and_eq_true] at hh
    simpa [functorName, argList] using hh.2
  | _ => simp [hornHead] at hh

/-- predicate indicator of the head of a clause term -/
def headKey (c : Term) : String × Nat :=
  (functorName (SLD.headBody c).1, (argList (SLD.headBody c).1).length)

theorem hornHead_functor {h : Term} (hh : hornHead h = true) :
    SLD.functor h = some (functorName h, argList h) := by
  cases h <;> simp_all [hornHead, SLD.functor, functorName, argList]

theorem sameProc_horn (f : String) (n : Nat) (c : Term) (hc : clauseS fl c = true) :
    SLD.sameProc f n c = decide (headKey c = (f, n)) := by
  simp only [clauseS, Bool.and_eq_true] at hc
  simp only [SLD.sameProc, hornHead_functor hc.1.2, headKey]
  by_cases h1 : functorName (SLD.headBody c).1 = f <;> by_cases h2 : (argList (SLD.headBody c).1).length = n <;>
    simp [h1, h2]

/-! ## the VM's procedure table -/

theorem lookup_filter_ne {α β : Type} [BEq α] [LawfulBEq α] [DecidableEq α] (k k' : α) (hne : k' ≠ k) :
    ∀ l : List (α × β), (l.filter (fun e => decide (e.1 ≠ k))).lookup k' = l.lookup k'
  | [] => rfl
  | (a, b) :: l => by
    have ih := lookup_filter_ne k k' hne l
    by_cases ha : a = k
    · subst ha
      have : (k' == a) = false := by simpa using hne
      simp only [List.filter_cons, ne_eq, not_true_eq_false, decide_false, Bool.false_eq_true, if_false,
        List.lookup, this]
      exact ih
    · by_cases hk : k' = a
      · subst hk
        simp [ha, List.lookup]
      · have : (k' == a) = false := by simpa using hk
        simp only [List.filter_cons, ne_eq, ha, not_false_eq_true, decide_true, if_true, List.lookup, this]
        exact ih

theorem lookupProc_setProc (s : St) (f : String) (n : Nat) (p : Proc) (g : String) (k : Nat) :
    lookupProc (setProc s f n p) g k = if (g, k) = (f, n) then some p else lookupProc s g k := by
  unfold lookupProc setProc
  by_cases h : (g, k) = (f, n)
  · rw [if_pos h, h]
    simp [List.lookup]
  · rw [if_neg h]
    have : ((g, k) == (f, n)) = false := by simpa using h
    simp only [List.lookup, this]
    exact lookup_filter_ne (f, n) (g, k) h s.procs

/-- clauses of a procedure (none for an unknown one) -/
def clausesOf (s : St) (f : String) (n : Nat) : List Clause :=
  match lookupProc s f n with
  | some p => p.clauses
  | none => []

theorem assertStep_horn (s : St) (c : Term) (hc : clauseS fl c = true) :
    assertStep s c =
      setProc s (clauseOf c).name (clauseOf c).arity
        { (lookupProc s (clauseOf c).name (clauseOf c).arity).getD { dynamic := true } with
          clauses := ((lookupProc s (clauseOf c).name (clauseOf c).arity).getD { dynamic := true }).clauses ++ [clauseOf c] } := by
  unfold assertStep
  rw [(clauseOf_spec c (clauseC_of_S hc)).1]

theorem clauseOf_key (c : Term) (hc : clauseS fl c = true) :
    ((clauseOf c).name, (clauseOf c).arity) = headKey c := by
  obtain ⟨h1, h2⟩ := (clauseOf_spec c (clauseC_of_S hc)).2.name
  simp [headKey, h1, h2]

/-- **the table after asserting a Horn program**: for every predicate indicator, whether it is
    defined and with which clauses, in terms of the program clauses with that head, in order -/
theorem foldl_assert (f : String) (n : Nat) : ∀ (prog : List Term) (s : St), (∀ c ∈ prog, clauseS fl c = true) →
    clausesOf (prog.foldl assertStep s) f n =
      clausesOf s f n ++ (prog.filter (fun c => decide (headKey c = (f, n)))).map clauseOf ∧
    ((lookupProc (prog.foldl assertStep s) f n).isSome =
      ((lookupProc s f n).isSome || !(prog.filter (fun c => decide (headKey c = (f, n)))).isEmpty))
  | [], s, _ => by simp
  | c :: prog, s, h => by
    have hc := h c (by simp)
    obtain ⟨ih1, ih2⟩ := foldl_assert f n prog (assertStep s c) (fun c' hc' => h c' (by simp [hc']))
    rw [List.foldl_cons, ih1, ih2]
    have hkey := clauseOf_key c hc
    rw [assertStep_horn s c hc]
    by_cases hk : headKey c = (f, n)
    · have hk' : ((clauseOf c).name, (clauseOf c).arity) = (f, n) := by rw [hkey, hk]
      simp only [Prod.mk.injEq] at hk'
      obtain ⟨hk1, hk2⟩ := hk'
      rw [hk1, hk2]
      simp only [clausesOf, lookupProc_setProc, if_true, List.filter_cons, hk, decide_true,
        List.map_cons, Option.isSome_some, Bool.true_or, List.isEmpty_cons, Bool.not_false, Bool.or_true, and_true]
      cases lookupProc s f n <;> simp
    · have hk' : ¬ (f, n) = ((clauseOf c).name, (clauseOf c).arity) := by
        rw [hkey]; exact fun e => hk e.symm
      simp only [clausesOf, lookupProc_setProc, if_neg hk', List.filter_cons, hk, decide_false]
      simp

theorem loadClauses_nil (s : St) : loadClauses s [] = s := rfl

theorem initState_eq (prog : List Term) : initState prog none = prog.foldl assertStep { bootState with cancelAt := none } := by
  simp only [initState, loadClauses_nil]

theorem lookupProc_cancel (s : St) (c : Option Nat) (f : String) (n : Nat) :
    lookupProc { s with cancelAt := c } f n = lookupProc s f n := rfl

/-- a user predicate after loading: unknown iff no clause of the program has that head; otherwise
    its clauses are the compiled forms of those clauses, in order -/
theorem lookup_user (prog : List Term) (hp : ∀ c ∈ prog, clauseS fl c = true) (f : String) (n : Nat)
    (hu : userPred f n = true) :
    (lookupProc (initState prog none) f n = none ↔ prog.filter (fun c => decide (headKey c = (f, n))) = []) ∧
    (∀ p, lookupProc (initState prog none) f n = some p →
      p.clauses = (prog.filter (fun c => decide (headKey c = (f, n)))).map clauseOf) := by
  have hboot : lookupProc { bootState with cancelAt := none } f n = none := by
    simp only [userPred, Bool.and_eq_true, Option.isNone_iff_eq_none] at hu
    rw [lookupProc_cancel]; exact hu.2
  obtain ⟨h1, h2⟩ := foldl_assert f n prog { bootState with cancelAt := none } hp
  rw [initState_eq]
  simp only [clausesOf, hboot, Option.isSome_none, Bool.false_or, List.nil_append] at h1 h2
  constructor
  · constructor
    · intro hn
      rw [hn] at h2
      simpa using h2
    · intro he
      rw [he] at h2
      cases hl : lookupProc (List.foldl assertStep { bootState with cancelAt := none } prog) f n with
      | none => rfl
      | some p => rw [hl] at h2; simp at h2
  · intro p hl
    rw [hl] at h1
    exact h1

/-- predicates the program does not define keep their bootstrap definition -/
theorem lookup_other (prog : List Term) (hp : ∀ c ∈ prog, clauseS fl c = true) (f : String) (n : Nat)
    (hu : userPred f n = false) :
    lookupProc (initState prog none) f n = lookupProc bootState f n := by
  have hnil : prog.filter (fun c => decide (headKey c = (f, n))) = [] := by
    rw [List.filter_eq_nil_iff]
    intro c hc
    simp only [decide_eq_true_eq]
    intro hk
    have hcs := hp c hc
    simp only [clauseS, Bool.and_eq_true] at hcs
    have := (hornHead_user hcs.1.2)
    simp only [headKey, Prod.mk.injEq] at hk
    rw [hk.1, hk.2, hu] at this
    cases this
  obtain ⟨h1, h2⟩ := foldl_assert f n prog { bootState with cancelAt := none } hp
  rw [initState_eq]
  simp only [hnil, List.map_nil, List.append_nil, List.isEmpty_nil, Bool.not_true, Bool.or_false,
    lookupProc_cancel] at h1 h2
  -- same clauses, same definedness: and the Proc record itself is untouched — go through the fold again
  clear h1 h2
  have key : ∀ (prog : List Term) (s : St), (∀ c ∈ prog, clauseS fl c = true) →
      prog.filter (fun c => decide (headKey c = (f, n))) = [] →
      lookupProc (prog.foldl assertStep s) f n = lookupProc s f n := by
    intro prog
    induction prog with
    | nil => intro s _ _; rfl
    | cons c prog ih =>
      intro s hp hnil
      have hc := hp c (by simp)
      have hk : headKey c ≠ (f, n) := by
        intro hk
        simp [hk] at hnil
      rw [List.foldl_cons, ih (assertStep s c) (fun c' hc' => hp c' (by simp [hc']))
        (by simpa [List.filter_cons, hk] using hnil), assertStep_horn s c hc, lookupProc_setProc]
      have hk' : ¬ (f, n) = ((clauseOf c).name, (clauseOf c).arity) := by
        rw [clauseOf_key c hc]; exact fun e => hk e.symm
      rw [if_neg hk']
  rw [key prog _ hp hnil, lookupProc_cancel]

/-! ## the reference's clause list -/

/-- the clause as the reference stores it: `Head :- Body` -/
def ruleOf (c : Term) : Term := SLD.rule (SLD.headBody c).1 (SLD.headBody c).2

theorem splitClause_horn (c : Term) (hc : clauseS fl c = true) : SLD.splitClause c = [ruleOf c] := by
  simp only [clauseS, Bool.and_eq_true] at hc
  simp [SLD.splitClause, disjuncts_horn _ hc.2, ruleOf]

theorem headBody_rule (h b : Term) : SLD.headBody (SLD.rule h b) = (h, b) := rfl

theorem sameProc_ruleOf (f : String) (n : Nat) (c : Term) : SLD.sameProc f n (ruleOf c) = SLD.sameProc f n c := by
  simp [SLD.sameProc, ruleOf, headBody_rule]

theorem sameProc_of_functor {c : Term} {f : String} {n : Nat} {g : String} {as : List Term}
    (h : SLD.functor (SLD.headBody c).1 = some (g, as)) : SLD.sameProc f n c = (g == f && as.length == n) := by
  simp [SLD.sameProc, h]

theorem sameProc_library (f : String) (n : Nat) (hf : f ∉ reservedNames) :
    SLD.library.filter (SLD.sameProc f n) = [] := by
  have h1 : ("member" == f) = false := by
    simp only [beq_eq_false_iff_ne, ne_eq]; intro e; exact hf (e ▸ (by decide))
  have h2 : ("append" == f) = false := by
    simp only [beq_eq_false_iff_ne, ne_eq]; intro e; exact hf (e ▸ (by decide))
  rw [List.filter_eq_nil_iff]
  intro c hc
  simp only [SLD.library, List.mem_cons, List.not_mem_nil, or_false] at hc
  rcases hc with rfl | rfl | rfl | rfl
  · rw [sameProc_of_functor (g := "member") (as := _) rfl, h1]; simp
  · rw [sameProc_of_functor (g := "member") (as := _) rfl, h1]; simp
  · rw [sameProc_of_functor (g := "append") (as := _) rfl, h2]; simp
  · rw [sameProc_of_functor (g := "append") (as := _) rfl, h2]; simp

/-- the reference's clauses for a user predicate: the program clauses with that head, in order -/
theorem sld_filter (prog : List Term) (hp : ∀ c ∈ prog, clauseS fl c = true) (f : String) (n : Nat)
    (hf : f ∉ reservedNames) :
    (prog.flatMap SLD.splitClause ++ SLD.library).filter (SLD.sameProc f n) =
      (prog.filter (fun c => decide (headKey c = (f, n)))).map ruleOf := by
  rw [List.filter_append, sameProc_library f n hf, List.append_nil]
  induction prog with
  | nil => rfl
  | cons c prog ih =>
    have hc := hp c (by simp)
    rw [List.flatMap_cons, List.filter_append, ih (fun c' hc' => hp c' (by simp [hc'])),
      splitClause_horn c hc, List.filter_cons, List.filter_cons, sameProc_ruleOf, sameProc_horn f n c hc]
    by_cases hk : headKey c = (f, n) <;> simp [hk]

end PrologVerif.Refine
