/-
  Refine, part 10 — `cont_run`: applying a continuation of the VM that is related to a resolvent of
  the reference yields a promise specified (`PSpec`) by the reference's result on that resolvent.
-/
import PrologVerif.Proofs.RefineRun
import PrologVerif.Proofs.RefineCallSim
import PrologVerif.Proofs.RefineCtl
namespace PrologVerif.Refine
open PrologVerif PrologVerif.VM PrologVerif.DecompileCompile PrologVerif.Activation
  PrologVerif.RefineITree PrologVerif.RefineRobinson PrologVerif.VMScoped

theorem closed_indicator (f : String) (n : Nat) :
    ∀ x, (Term.app "/" (.cons (.atom f) (.cons (.int n) .nil))).hasVar x = false := by
  intro x; simp [Term.hasVar, Args.hasVar]

theorem closed_existence (f : String) (n : Nat) :
    Closed' (existenceErr "procedure" (.app "/" (.cons (.atom f) (.cons (.int n) .nil)))) := by
  intro x; simp [existenceErr, Term.a2, Term.hasVar, Args.hasVar]

theorem sld_existence (f : String) (n : Nat) :
    SLD.existenceErr f n =
      errT (existenceErr "procedure" (.app "/" (.cons (.atom f) (.cons (.int n) .nil)))) (.var 0) := rfl

theorem userPred_true : userPred "true" 0 = false := by
  simp [userPred, reservedNames]

theorem toW3 {fl : Bool} {tmpl : Term} {max : Nat} {prog : List Term} {lv : Lv} {d : Nat} {p : Pr} {m : MS}
    {ans0 : List Term} {r : SLD.Res} {A B : Prop} (h : PSpec fl mo tmpl max prog lv d p m ans0 r ∧ A ∧ B) :
    PSpecW fl mo tmpl max prog lv d p m ans0 r ∧ A ∧ B := ⟨h.1.toW, h.2⟩

/-- the compiled clauses and their clause terms as the alternatives of a call -/
theorem items_of {R : Clause → Term → Prop} {f : Term → Option SLD.Alt} {cls : List Clause} {rs : List Term}
    (h : Forall2 R cls rs) :
    ∃ its : List Item, its.map (·.1) = cls ∧ its.filterMap (·.2.2) = rs.filterMap f ∧
      ∀ it ∈ its, R it.1 it.2.1 ∧ it.2.2 = f it.2.1 ∧ it.2.1 ∈ rs := by
  induction h with
  | nil => exact ⟨[], rfl, rfl, fun _ h => by simp at h⟩
  | @cons cl r cls' rs' hd _ ih =>
    obtain ⟨its, h1, h2, h3⟩ := ih
    refine ⟨(cl, r, f r) :: its, by simp [h1], ?_, ?_⟩
    · simp only [List.filterMap_cons]
      cases f r <;> simp [h2]
    · intro it hit
      rcases List.mem_cons.1 hit with rfl | hit
      · exact ⟨hd, rfl, by simp⟩
      · obtain ⟨a, b, c⟩ := h3 it hit
        exact ⟨a, b, by simp [c]⟩

/-- a call of a user predicate (`arrive` past the builtin dispatch) -/
theorem call_user {fl : Bool} {tmpl : Term} {max : Nat} {prog : List Term} (hprog : ∀ c ∈ prog, clauseS fl c = true)
    {N : Nat} {env1 : Env} {σ1 : Subst} {π : Nat → Nat} {D : Nat → Prop} {nv : Nat}
    (hW1 : SimW tmpl N env1 σ1 π D nv) {K' : Cont} {G' : List (Term × Nat)} (hcg' : ContGoals fl mo tmpl max K' G')
    {lv : Lv} {R' : List SLD.Frame} (hgr' : GRel mo lv σ1 π D G' R') (hco' : CutsOK lv G')
    {q : Term} (hq : q = img σ1 π tmpl)
    {g : Term} (hgD : InD D g) (hshape : Shape g)
    (hu : userPred (functorName g) (argList g).length = true)
    {m : MS} (hN : N ≤ m.user.nextVar) (hst : StOK prog m) {p : Pr} {m1 : MS}
    (harr1 : ∀ pr, lookupProc m.user (functorName g) (argList g).length = some pr →
      clausesCall pr.clauses (argList g) K' env1 m = (p, m1))
    (harr2 : lookupProc m.user (functorName g) (argList g).length = none →
      mkErr (existenceErr "procedure"
        (.app "/" (.cons (.atom (functorName g)) (.cons (.int (argList g).length) .nil)))) env1 m = (p, m1))
    {n' d l : Nat} {r : SLD.Res}
    (hs : SLD.solve false (progS prog) (n' + 1) d nv (.goal (img σ1 π g) l :: R') q
      (max - m.user.answers.length) = some r) :
    PSpecW fl mo tmpl max prog lv d p m1 m.user.answers r ∧ StOK prog m1 ∧ m.user.nextVar ≤ m1.user.nextVar := by
  have hres : functorName g ∉ reservedNames := reserved_not_user hu
  obtain ⟨args2, hfun, hlen⟩ := functor_img (σ := σ1) (π := π) hshape
  rw [solve_user _ _ _ _ _ _ _ _ _ _ _ hfun hres, hlen] at hs
  have hfil := sld_filter prog hprog (functorName g) (argList g).length hres
  unfold progS at hs
  rw [hfil] at hs
  obtain ⟨hnone, hsome⟩ := lookup_user prog hprog (functorName g) (argList g).length hu
  rw [lookupProc_stOK hst] at harr1 harr2
  cases hl : lookupProc (initState prog none) (functorName g) (argList g).length with
  | none =>
    have harr := harr2 hl
    rw [hnone.1 hl] at hs
    simp only [List.flatMap_nil, List.map_nil, SLD.raise, Option.some.injEq] at hs
    subst hs
    obtain ⟨c1, N', hN', hmk⟩ := mkErr_closed _ (closed_existence (functorName g) (argList g).length) env1 m
    rw [hmk] at harr
    simp only [Prod.mk.injEq] at harr
    obtain ⟨rfl, rfl⟩ := harr
    rw [sld_existence]
    exact toW3 ⟨.err rfl, hst, hN'⟩
  | some pr =>
    have harr := harr1 pr hl
    have hcl := hsome pr hl
    generalize hcs0 : prog.filter (fun c => decide (headKey c = (functorName g, (argList g).length))) = cs0 at hs hcl hnone
    have hcs0m : ∀ c ∈ cs0, c ∈ prog ∧ headKey c = (functorName g, (argList g).length) := by
      intro c hc
      rw [← hcs0, List.mem_filter] at hc
      exact ⟨hc.1, by simpa using hc.2⟩
    have hF : Forall2 (fun cl r => CRel fl cl (SLD.headBody r).1 (SLD.headBody r).2) (cs0.flatMap compiled)
        (cs0.flatMap SLD.splitClause) :=
      Forall2.flatMap cs0 (fun c hc => (compile_split c (hprog c (hcs0m c hc).1)).2)
    obtain ⟨its, h1, h2, h3⟩ := items_of (f := fun r => some (SLD.Alt.clause (img σ1 π g) (ruleOf r))) hF
    have hp : p = ({ id := m.user.nextId, delayed := its.map (fun it => Thunk.clause it.1 (argList g) K' env1 m.user.nextId) } : Pr) := by
      have : p = (clausesCall pr.clauses (argList g) K' env1 m).1 := by rw [harr]
      rw [this, hcl, ← h1]
      simp [clausesCall, freshId, List.map_map, Function.comp_def]
    have hm1 : m1 = { m with user := { m.user with nextId := m.user.nextId + 1 } } := by
      have : m1 = (clausesCall pr.clauses (argList g) K' env1 m).2 := by rw [harr]
      rw [this]; rfl
    have hne : cs0 ≠ [] := by
      intro he
      rw [hnone.2 he] at hl
      cases hl
    have hrs : ∀ r ∈ cs0.flatMap SLD.splitClause, ∃ c ∈ cs0, r ∈ SLD.splitClause c := by
      intro r hr
      rw [List.mem_flatMap] at hr
      exact hr
    have hs' : SLD.solveAlts false (prog.flatMap SLD.splitClause ++ SLD.library) n' d nv
        (its.filterMap (·.2.2)) R' q (max - m.user.answers.length) = some r := by
      rw [h2]
      have hfm : (cs0.flatMap SLD.splitClause).filterMap (fun r => some (SLD.Alt.clause (img σ1 π g) (ruleOf r))) =
          (cs0.flatMap SLD.splitClause).map (SLD.Alt.clause (img σ1 π g)) := by
        rw [List.filterMap_eq_map']
        apply List.map_congr_left
        intro r hr
        obtain ⟨c, _, hrc⟩ := hrs r hr
        rw [ruleOf_split hrc]
      rw [hfm]
      cases hrs0 : cs0.flatMap SLD.splitClause with
      | nil =>
        exfalso
        cases cs0 with
        | nil => exact hne rfl
        | cons c0 cs1 =>
          rw [List.flatMap_cons] at hrs0
          have := List.append_eq_nil_iff.1 hrs0
          simp only [SLD.splitClause, List.map_eq_nil_iff] at this
          exact disjuncts_ne_nil _ this.1
      | cons r0 rs0 =>
        rw [hrs0] at hs
        exact hs
    rw [hp, hm1]
    refine toW3 ⟨.alts rfl (Nat.pos_iff_ne_zero.1 hst.2.1) hshape ?_ hs', hst.nextId, Nat.le_refl _⟩
    refine ⟨N, σ1, π, D, G', hN, hW1, hcg', hgr', hco', hq, hgD, altsRel_of_forall ?_⟩
    intro it hit
    obtain ⟨hR, halt, hmem⟩ := h3 it hit
    obtain ⟨c, hc, hrc⟩ := hrs _ hmem
    rw [halt]
    refine .prog hR ?_
    show headKey it.2.1 = goalKey g
    have : headKey it.2.1 = headKey c := by simp only [headKey, split_head hrc]
    rw [this]
    exact (hcs0m c hc).2

/-- a call of a control construct that bootstrap.pl defines by clauses -/
theorem call_boot {fl : Bool} {tmpl : Term} {max : Nat} {prog : List Term} (hprog : ∀ c ∈ prog, clauseS fl c = true)
    {N : Nat} {env1 : Env} {σ1 : Subst} {π : Nat → Nat} {D : Nat → Prop} {nv : Nat}
    (hW1 : SimW tmpl N env1 σ1 π D nv) {K' : Cont} {G' : List (Term × Nat)} (hcg' : ContGoals fl mo tmpl max K' G')
    {lv : Lv} {R' : List SLD.Frame} (hgr' : GRel mo lv σ1 π D G' R') (hco' : CutsOK lv G')
    {q : Term} (hq : q = img σ1 π tmpl)
    {g : Term} (hgD : InD D g) (hshape : Shape g)
    (hu : userPred (functorName g) (argList g).length = false)
    {its : List Item}
    (hboot : ∃ pr, lookupProc bootState (functorName g) (argList g).length = some pr ∧
      pr.clauses = its.map (fun it => it.1))
    {m : MS} (hN : N ≤ m.user.nextVar) (hst : StOK prog m) {p : Pr} {m1 : MS}
    (harr1 : ∀ pr, lookupProc m.user (functorName g) (argList g).length = some pr →
      clausesCall pr.clauses (argList g) K' env1 m = (p, m1))
    {n d : Nat} {r : SLD.Res} (hrel : AltsRel fl σ1 π D nv d g its)
    (hs : SLD.solveAlts false (progS prog) n d nv (its.filterMap (·.2.2)) R' q
      (max - m.user.answers.length) = some r) :
    PSpecW fl mo tmpl max prog lv d p m1 m.user.answers r ∧ StOK prog m1 ∧ m.user.nextVar ≤ m1.user.nextVar := by
  obtain ⟨pr, hpr, hcl⟩ := hboot
  have hl : lookupProc m.user (functorName g) (argList g).length = some pr := by
    rw [lookupProc_stOK hst, lookup_other prog hprog _ _ hu, hpr]
  have harr := harr1 pr hl
  have hp : p = ({ id := m.user.nextId, delayed := its.map (fun it => Thunk.clause it.1 (argList g) K' env1 m.user.nextId) } : Pr) := by
    have : p = (clausesCall pr.clauses (argList g) K' env1 m).1 := by rw [harr]
    rw [this]
    simp [clausesCall, freshId, hcl, List.map_map, Function.comp_def]
  have hm1 : m1 = { m with user := { m.user with nextId := m.user.nextId + 1 } } := by
    have : m1 = (clausesCall pr.clauses (argList g) K' env1 m).2 := by rw [harr]
    rw [this]; rfl
  rw [hp, hm1]
  exact toW3 ⟨.alts rfl (Nat.pos_iff_ne_zero.1 hst.2.1) hshape ⟨N, σ1, π, D, G', hN, hW1, hcg', hgr', hco', hq, hgD, hrel⟩ hs,
    hst.nextId, Nat.le_refl _⟩

/-- a clause `call/1` compiles for the instantiated goal `g'` (for the top-level disjunct `dj`)
    against the reference's frames for that disjunct: the variables of `g'` become relevant variables -/
theorem call_item {fl : Bool} {tmpl : Term} {N : Nat} {env : Env} {σ : Subst} {π : Nat → Nat} {D : Nat → Prop}
    {nv d : Nat} {g' dj : Term} {cl : Clause} (hW : SimW tmpl N env σ π D nv)
    (hgv : ∀ v, g'.hasVar v = true → RV σ D v)
    (hdv : ∀ v, dj.hasVar v = true → g'.hasVar v = true) (hcr : CRel fl cl (qHead g') dj) :
    AltRel fl σ π (fun v => D v ∨ RV σ D v) nv d (qHead g') cl (SLD.rule (qHead g') dj)
      (some (.frames (SLD.bodyFrames false (dj.rename π) d))) := by
  obtain ⟨hW2, hrv2⟩ := simW_addRV hW
  have hσg : ∀ v, g'.hasVar v = true → σ v = .var v := by
    intro v hv'
    obtain ⟨w, _, hwv⟩ := hgv v hv'
    exact hW.mg.mgu.fixes hwv
  have hπg : ∀ v, g'.hasVar v = true → π v < nv := fun v hv' => hW.bnd v (hgv v hv')
  have himg_g : ∀ t : Term, (∀ v, t.hasVar v = true → g'.hasVar v = true) → img σ π t = t.rename π := by
    intro t ht
    have : t.subst σ = t.subst (fun v => .var v) := subst_congr t _ _ (fun v hv' => hσg v (ht v hv'))
    simp only [img, this, Term.subst_id]
  have hcv : ∀ x, CV (SLD.rule (qHead g') dj) x → g'.hasVar x = true := by
    rintro x (hx | hx)
    · exact (qHead_hasVar g' x).1 hx
    · exact hdv x hx
  have hcast : ∀ Fs : List SLD.Frame, AltRel fl σ π (fun v => D v ∨ RV σ D v) nv d (qHead g') cl (SLD.rule (qHead g') dj)
      (some (.frames (Fs ++ ([] : List Nat).map skipF))) →
      AltRel fl σ π (fun v => D v ∨ RV σ D v) nv d (qHead g') cl (SLD.rule (qHead g') dj) (some (.frames Fs)) := by
    intro Fs h; simpa using h
  apply hcast
  refine .frames (fun x => π x + nv) (2 * nv) (tauC g' π nv) [] hcr rfl (by omega)
    (fun x y hx hy hxy => hW.inj x y (hgv x (hcv x hx)) (hgv y (hcv y hy))
      (by have : π x + nv = π y + nv := hxy
          omega))
    (fun x u hx hu => by
      have := hW.bnd u ((hrv2 u).1 hu)
      show π u ≠ π x + nv
      omega)
    (fun x hx => by
      have := hπg x (hcv x hx)
      show π x + nv < 2 * nv
      omega)
    (by
      show MguLike (img σ π (qHead g')) ((qHead g').rename (fun x => π x + nv)) (tauC g' π nv)
      rw [himg_g _ (fun v hv' => (qHead_hasVar g' v).1 hv')]
      exact tauC_mgu hπg (qHead_hasVar g'))
    (fun s hs' => tauC_b hs')
    (fun x hx z hz => by
      have h1 := tauC_a (g := g') (π := π) (nv := nv) (t := .var x)
        (fun w hw' => by simp only [Term.hasVar, beq_iff_eq] at hw'; subst hw'; exact hcv _ hx)
      simp only [Term.rename, Term.subst] at h1
      rw [h1] at hz
      simp only [Term.hasVar, beq_iff_eq] at hz
      subst hz
      exact hπg x (hcv x hx))
    ?_
  show FrRel _ d (SLD.conjuncts dj) (SLD.bodyFrames false (dj.rename π) d)
  simp only [SLD.bodyFrames, Bool.false_eq_true, if_false, conjuncts_rename, List.map_map]
  have key : ∀ Bs : List Term, (∀ bg ∈ Bs, ∀ v, bg.hasVar v = true → g'.hasVar v = true) →
      FrRel (fun bg => (bg.rename (fun x => π x + nv)).subst (tauC g' π nv)) d Bs
        (Bs.map ((fun x => SLD.Frame.goal x d) ∘ Term.rename π)) := by
    intro Bs
    induction Bs with
    | nil => intro _; exact .nil
    | cons bg Bs ih =>
      intro hB
      have := FrRel.cons (inst := fun bg => (bg.rename (fun x => π x + nv)).subst (tauC g' π nv)) (d := d) (bg := bg) d
        (fun _ => rfl) (ih (fun b hb' => hB b (by simp [hb'])))
      simp only [tauC_a (fun v hv' => hB bg (by simp) v hv')] at this
      exact this
  exact key _ (fun bg hbg v hv' => hdv v (conjuncts_vars hbg hv'))

/-- the clauses `call/1` compiles for the instantiated goal `g'`, one per top-level disjunct, against
    the alternatives of the reference's `call(g')` -/
theorem call_items {fl : Bool} {tmpl : Term} {N : Nat} {env : Env} {σ : Subst} {π : Nat → Nat} {D : Nat → Prop}
    {nv : Nat} (d : Nat) {g' : Term} (hW : SimW tmpl N env σ π D nv)
    (hgv : ∀ v, g'.hasVar v = true → RV σ D v) {cs : List Clause}
    (hrel : Forall2 (fun cl dj => CRel fl cl (qHead g') dj) cs (SLD.disjuncts g')) :
    SimW tmpl N env σ π (fun v => D v ∨ RV σ D v) nv ∧ InD (fun v => D v ∨ RV σ D v) (qHead g') ∧
    ∃ its : List Item, its.map (·.1) = cs ∧
      its.filterMap (·.2.2) = (SLD.disjuncts (g'.rename π)).map (fun x => .frames (SLD.bodyFrames false x d)) ∧
      AltsRel fl σ π (fun v => D v ∨ RV σ D v) nv d (qHead g') its := by
  obtain ⟨hW2, _⟩ := simW_addRV hW
  refine ⟨hW2, fun v hv' => Or.inr (hgv v ((qHead_hasVar g' v).1 hv')), ?_⟩
  rw [disjuncts_rename, List.map_map]
  have key : ∀ (cs : List Clause) (ds : List Term), (∀ dj ∈ ds, ∀ v, dj.hasVar v = true → g'.hasVar v = true) →
      Forall2 (fun cl dj => CRel fl cl (qHead g') dj) cs ds →
      ∃ its : List Item, its.map (·.1) = cs ∧
        its.filterMap (·.2.2) = ds.map ((fun x => SLD.Alt.frames (SLD.bodyFrames false x d)) ∘ Term.rename π) ∧
        AltsRel fl σ π (fun v => D v ∨ RV σ D v) nv d (qHead g') its := by
    intro cs ds hds h
    induction h with
    | nil => exact ⟨[], rfl, rfl, .nil⟩
    | @cons cl dj cs' ds' hd _ ih =>
      obtain ⟨its, h1, h2, h3⟩ := ih (fun dj' hdj' => hds dj' (by simp [hdj']))
      refine ⟨(cl, SLD.rule (qHead g') dj, some (.frames (SLD.bodyFrames false (dj.rename π) d))) :: its, ?_, ?_, ?_⟩
      · simp [h1]
      · simp [h2]
      · exact .cons (call_item hW hgv (hds dj (by simp)) hd) h3
  exact key cs _ (fun dj hdj v hv' => disjuncts_vars hdj hv') hrel

theorem cont_run {fl : Bool} (tmpl : Term) (max : Nat) (prog : List Term) (hprog : ∀ c ∈ prog, clauseS fl c = true) :
    ∀ (fuel : Nat) (K : Cont) (env : Env) (m : MS) (p : Pr) (m1 : MS),
      applyCont fuel K env m = some (p, m1) → (fl = true → ResFine fl (p, m1)) →
      ∀ (lv : Lv) (R : List SLD.Frame) (q : Term) (nv : Nat),
        SimAt fl mo tmpl max lv K env m.user.nextVar R q nv (fun _ _ _ => True) → StOK prog m →
        ∀ (n d : Nat) (r : SLD.Res),
          SLD.solve false (progS prog) n d nv R q (max - m.user.answers.length) = some r →
          PSpecW fl mo tmpl max prog lv d p m1 m.user.answers r ∧ StOK prog m1 ∧ m.user.nextVar ≤ m1.user.nextVar := by
  intro fuel
  induction fuel using Nat.strongRecOn with
  | _ fuel ih =>
  intro K env m p m1 hrun hfine lv R q nv hsim hst n d r hs
  obtain ⟨N, σ, π, D, G, hN, hW, hcg, hgr, hco, hq, _⟩ := hsim
  induction hgr generalizing n d r with
  | skip l0 _ ihs =>
    -- a `call(true)` of the reference: one call deeper
    obtain ⟨n1, r1, hs1, rfl⟩ := solve_skip_some hs
    obtain ⟨h1, h2, h3⟩ := ihs n1 (d + 1) r1 hs1 hcg hco
    exact ⟨h1.wrap, h2, h3⟩
  | nil hR =>
    cases n with
    | zero => rw [solve_zero] at hs; cases hs
    | succ n' =>
    rcases cont_step hcg fuel env m (p, m1) hrun with ⟨hG, hres⟩ | ⟨g, cpg, G', K', fuel', hG, _⟩ |
      ⟨cp, G', pc, vars, k, hG, _⟩
    rotate_left
    · cases hG
    · cases hG
    rcases hres with ⟨hmo, hres⟩ | ⟨hmo, hres⟩
    · -- an answer
      subst hmo
      have hR' : _ = [] := hR
      subst hR'
      rw [solve_nil] at hs
      simp only [Option.some.injEq] at hs
      subst hs
      simp only [Prod.mk.injEq] at hres
      obtain ⟨rfl, rfl⟩ := hres
      refine ⟨?_, hst, Nat.le_refl _⟩
      have := PSpec.answer (fl := fl) (mo := none) (tmpl := tmpl) (max := max) (prog := prog) (lv := lv) (d := d) (m := recordAnswer tmpl env m)
        (ans0 := m.user.answers) (a := app env tmpl) (q := q) rfl rfl (hq ▸ ansRel_of_sim hW)
      exact this.toW
    · -- the search nested in `\\+` found a solution: the reference cuts and fails
      cases mo with
      | none => cases hmo
      | some dN =>
      obtain ⟨l, Rout, rfl⟩ := hR
      have := solve_tail_some hs
      subst this
      simp only [Prod.mk.injEq] at hres
      obtain ⟨rfl, rfl⟩ := hres
      exact ⟨(PSpec.done rfl rfl).toW, hst, Nat.le_refl _⟩
  | @cons g0 G' fr R' hhd hgr' _ =>
  cases n with
  | zero => rw [solve_zero] at hs; cases hs
  | succ n' =>
  rcases cont_step hcg fuel env m (p, m1) hrun with ⟨hG, hres⟩ | ⟨g, cpg, G'', K', fuel', hG, hcg', hf', hhg, harr⟩ |
    ⟨cp, G'', pc, vars, k, hG, hcg', hres⟩
  · cases hG
  rotate_left
  · -- the cut
    simp only [List.cons.injEq] at hG
    obtain ⟨rfl, rfl⟩ := hG
    obtain ⟨_, l, hfr, hl⟩ := hhd
    rcases hfr with rfl | ⟨⟨x, hx⟩, _⟩
    rotate_left
    · cases hx
    simp only [Prod.mk.injEq] at hres
    obtain ⟨rfl, rfl⟩ := hres
    rw [show img σ π (Term.atom "!") = .atom "!" from rfl, solve_cut] at hs
    simp only [Option.map_eq_some_iff] at hs
    obtain ⟨r', hr', rfl⟩ := hs
    refine toW3 ⟨.cut rfl (hl rfl) hN hW hcg' hgr' hco.tail hq ?_ hr', hst, Nat.le_refl _⟩
    intro it hit hcut l' hl'
    exact (List.pairwise_cons.1 hco.2).1 it hit rfl hcut l l' (hl rfl) hl'
  · -- a goal
    simp only [List.cons.injEq] at hG
    obtain ⟨rfl, rfl⟩ := hG
    obtain ⟨hgD, l, hfr, _⟩ := hhd
    suffices main : ∀ (n' d l : Nat) (r : SLD.Res),
        SLD.solve false (progS prog) (n' + 1) d nv (.goal (img σ π g) l :: R') q (max - m.user.answers.length) = some r →
        PSpecW fl mo tmpl max prog lv d p m1 m.user.answers r ∧ StOK prog m1 ∧ m.user.nextVar ≤ m1.user.nextVar by
      rcases hfr with rfl | ⟨⟨x, rfl⟩, rfl⟩
      · exact main n' d l r hs
      · -- the reference calls `call(call(G))`: one call deeper
        obtain ⟨n1, r1, hs1, rfl⟩ := solve_callw_some (c := img σ π x) hs
        cases n1 with
        | zero => rw [solve_zero] at hs1; cases hs1
        | succ n2 =>
          obtain ⟨h1, h2, h3⟩ := main n2 (d + 1) d r1 hs1
          exact ⟨h1.wrap, h2, h3⟩
    clear hs hfr
    intro n' d l r hs
    have hco' : CutsOK lv G' := hco.tail
    cases fuel' with
    | zero => simp [arrive] at harr
    | succ f =>
    have harr0 := harr
    rw [arrive_succ'] at harr
    -- `arrive` rebinds the context variable
    obtain ⟨hW1, hsame⟩ := simW_rebind hW
      (.app "/" (.cons (.atom (functorName g)) (.cons (.int (argList g).length) .nil)))
      (closed_indicator _ _) (by simp)
    generalize hσ1 : (fun u => if u = 0 then Term.app "/" (.cons (.atom (functorName g)) (.cons (.int (argList g).length) .nil)) else σ u) = σ1 at hW1 hsame
    generalize henv1 : env.bind varContext (.app "/" (.cons (.atom (functorName g)) (.cons (.int (argList g).length) .nil))) = env1 at harr
    have henv1' : env.bind 0 (.app "/" (.cons (.atom (functorName g)) (.cons (.int (argList g).length) .nil))) = env1 := henv1
    rw [henv1'] at hW1
    have himg : ∀ t, InD D t → img σ1 π t = img σ π t := fun t ht => by simp only [img, hsame t ht]
    have hgr1 : GRel mo lv σ1 π D G' R' := GRel.congr hgr' himg
    have hq1 : q = img σ1 π tmpl := by rw [himg tmpl hW.tmplD]; exact hq
    rw [← himg g hgD] at hs
    cases f with
    | zero =>
      -- no fuel for the builtin dispatch
      simp [builtin] at harr
    | succ f' =>
    rcases stepGoal_cases hhg with hhg | ⟨hfl, hctl⟩
    rotate_left
    · cases hctl with
      | ite c t e hx =>
        -- if-then-else: the three clauses of `;`/2
        subst hx
        subst hfl
        simp only [functorName, argList, Args.toList] at harr
        rw [builtin_semi] at harr
        have hig : img σ1 π (.app ";" (.cons (.app "->" (.cons c (.cons t .nil))) (.cons e .nil))) =
            .app ";" (.cons (.app "->" (.cons (img σ1 π c) (.cons (img σ1 π t) .nil))) (.cons (img σ1 π e) .nil)) := rfl
        rw [hig, solve_ite] at hs
        let θ0 : Subst := fun x => if x = 0 then img σ1 π c else if x = 1 then img σ1 π t else img σ1 π e
        refine call_boot (its := [(clauseOf ite1, ite1, some (.frames [.goal (SLD.call1 (img σ1 π c)) d, .goal (.atom "!") d,
              .goal (SLD.call1 (img σ1 π t)) l])),
            (clauseOf ite2, ite2, some (.frames [.goal (SLD.call1 (img σ1 π e)) l])), (clauseOf disj3, disj3, none)])
          hprog hW1 hcg' hgr1 hco' hq1 hgD (Or.inr ⟨_, _, rfl, by simp [Args.length]⟩) userPred_semi
          (by obtain ⟨p0, h1, h2⟩ := boot_semi; exact ⟨p0, h1, by simpa using h2⟩) hN hst ?_ ?_ hs
        · intro pr hpr
          simp only [functorName, argList, Args.toList] at hpr
          rw [hpr] at harr
          simpa [functorName, argList, Args.toList] using harr
        · refine .cons ?_ (.vcut ?_ rfl rfl)
          · have := altRel_match (fl := true) (d := d) (θ0 := θ0) [] hW1 hgD clauseC_ite1 rfl (by rw [hig]; rfl) bv_ite1
              (.cons d (fun _ => rfl) (.cons d (fun _ => rfl) (.cons l (fun h => by cases h) .nil)))
            exact this
          · have := altRel_match (fl := true) (d := d) (θ0 := θ0) [] hW1 hgD clauseC_ite2 rfl (by rw [hig]; rfl) bv_ite2
              (.cons d (fun _ => rfl) (.cons l (fun h => by cases h) .nil))
            exact this
      | neg x hx =>
        -- `\\+ G`: the VM calls `G` in a search of its own; the reference: `(call(G) -> fail ; true)`
        subst hx
        simp only [functorName, argList, Args.toList] at harr
        rw [builtin_neg] at harr
        simp only [Option.some.injEq, Prod.mk.injEq] at harr
        obtain ⟨rfl, rfl⟩ := harr
        have hig : img σ1 π (.app "\\+" (.cons x .nil)) = .app "\\+" (.cons (img σ1 π x) .nil) := rfl
        rw [hig] at hs
        cases n' with
        | zero =>
          exfalso
          rw [SLD.solve] at hs
          · simp [SLD.functor, Args.toList, SLD.builtin, solve_zero] at hs
          · intro v hv; cases hv
        | succ n'' =>
        rw [solve_neg] at hs
        have hxD : InD D x := fun v hv => hgD v (by simp [Term.hasVar, Args.hasVar, hv])
        exact toW3 ⟨.neg rfl (Nat.pos_iff_ne_zero.1 hst.2.1) hfl
          ⟨N, σ1, π, D, G', hN, hW1, hcg', hgr1, hco', hq1, hxD, rfl⟩ hs, hst.nextId, Nat.le_refl _⟩
      | once x hx =>
        -- once/1: `once(P) :- P, !.`; the reference: `(call(P) -> true)`
        subst hx
        subst hfl
        simp only [functorName, argList, Args.toList] at harr
        rw [builtin_once] at harr
        have hig : img σ1 π (.app "once" (.cons x .nil)) = .app "once" (.cons (img σ1 π x) .nil) := rfl
        rw [hig] at hs
        cases n' with
        | zero =>
          exfalso
          rw [SLD.solve] at hs
          · simp [SLD.functor, Args.toList, SLD.builtin, solve_zero] at hs
          · intro v hv; cases hv
        | succ n'' =>
        rw [solve_once] at hs
        let θ0 : Subst := fun _ => img σ1 π x
        refine call_boot (its := [(clauseOf once1, once1, some (.frames ([.goal (SLD.call1 (SLD.call1 (img σ1 π x))) d,
              .goal (.atom "!") d] ++ [l].map skipF)))])
          hprog hW1 hcg' hgr1 hco' hq1 hgD (Or.inr ⟨_, _, rfl, by simp [Args.length]⟩) userPred_once
          (by obtain ⟨p0, h1, h2⟩ := boot_once; exact ⟨p0, h1, by simpa using h2⟩) hN hst ?_ ?_ hs
        · intro pr hpr
          simp only [functorName, argList, Args.toList] at hpr
          rw [hpr] at harr
          simpa [functorName, argList, Args.toList] using harr
        · refine .cons ?_ .nil
          exact altRel_match (fl := true) (d := d) (θ0 := θ0) [l] hW1 hgD clauseC_once1 rfl (by rw [hig]; rfl) bv_once1
            (.callw d (.cons d (fun _ => rfl) .nil))
      | ifthen c t hx =>
        subst hx
        subst hfl
        simp only [functorName, argList, Args.toList] at harr
        rw [builtin_arrow] at harr
        have hig : img σ1 π (.app "->" (.cons c (.cons t .nil))) =
            .app "->" (.cons (img σ1 π c) (.cons (img σ1 π t) .nil)) := rfl
        rw [hig, solve_ifthen] at hs
        let θ0 : Subst := fun x => if x = 0 then img σ1 π c else img σ1 π t
        refine call_boot (its := [(clauseOf ifthen1, ifthen1, some (.frames [.goal (SLD.call1 (img σ1 π c)) d, .goal (.atom "!") d,
              .goal (SLD.call1 (img σ1 π t)) l]))])
          hprog hW1 hcg' hgr1 hco' hq1 hgD (Or.inr ⟨_, _, rfl, by simp [Args.length]⟩) userPred_arrow
          (by obtain ⟨p0, h1, h2⟩ := boot_arrow; exact ⟨p0, h1, by simpa using h2⟩) hN hst ?_ ?_ hs
        · intro pr hpr
          simp only [functorName, argList, Args.toList] at hpr
          rw [hpr] at harr
          simpa [functorName, argList, Args.toList] using harr
        · refine .cons ?_ .nil
          have := altRel_match (fl := true) (d := d) (θ0 := θ0) [] hW1 hgD clauseC_ifthen1 rfl (by rw [hig]; rfl) bv_ifthen1
            (.cons d (fun _ => rfl) (.cons d (fun _ => rfl) (.cons l (fun h => by cases h) .nil)))
          exact this
      | disj a b hx ha =>
        -- a disjunction as a goal: the three clauses of `;`/2 — the heads of the two if-then-else
        -- clauses clash, `P ; Q :- call((P ; Q))` is a wrapper: the reference runs `call((a ; b))`'s body
        subst hx
        subst hfl
        simp only [functorName, argList, Args.toList] at harr
        rw [builtin_semi] at harr
        have hig : img σ1 π (.app ";" (.cons a (.cons b .nil))) =
            .app ";" (.cons (img σ1 π a) (.cons (img σ1 π b) .nil)) := rfl
        rw [hig, solve_disj_goal _ _ _ _ _ _ _ _ _ _ (disjHead_img σ1 π ha)] at hs
        obtain ⟨p0, hp0, hcl0⟩ := boot_semi
        have hlk : lookupProc m.user ";" 2 = some p0 := by
          rw [lookupProc_stOK hst, lookup_other prog hprog _ _ userPred_semi, hp0]
        simp only [List.length_cons, List.length_nil] at harr
        rw [hlk] at harr
        simp only [Option.some.injEq] at harr
        have hp : p = ({ id := m.user.nextId, delayed := ([(clauseOf ite1, ite1, none), (clauseOf ite2, ite2, none)] : List Item).map (fun it => Thunk.clause it.1 (argList (.app ";" (.cons a (.cons b .nil)))) K' env1 m.user.nextId) ++ [Thunk.clause (clauseOf disj3) (argList (.app ";" (.cons a (.cons b .nil)))) K' env1 m.user.nextId] } : Pr) := by
          have : p = (clausesCall p0.clauses [a, b] K' env1 m).1 := by rw [harr]
          rw [this, hcl0]
          simp [clausesCall, freshId, argList, Args.toList]
        have hm1 : m1 = { m with user := { m.user with nextId := m.user.nextId + 1 } } := by
          have : m1 = (clausesCall p0.clauses [a, b] K' env1 m).2 := by rw [harr]
          rw [this]; rfl
        rw [hp, hm1]
        let θ0 : Subst := fun x => if x = 0 then img σ1 π a else img σ1 π b
        have hclash : ∀ x y z : Term, ∃ n, Robinson.solve n
            [(img σ1 π (.app ";" (.cons a (.cons b .nil))),
              .app ";" (.cons (.app "->" (.cons x (.cons y .nil))) (.cons z .nil)))] [] = .clash :=
          fun x y z => ⟨2, by rw [hig]; exact clash_ite (disjHead_img σ1 π ha) x y z⟩
        have hwr := altRel_match (fl := true) (d := d) (θ0 := θ0) [] hW1 hgD clauseC_disj3 rfl (by rw [hig]; rfl) bv_disj3
          (.cons l (fun h => by cases h) .nil)
        exact toW3 ⟨.wrap (its := [(clauseOf ite1, ite1, none), (clauseOf ite2, ite2, none)])
          (Fs := [.goal (SLD.call1 (.app ";" (.cons (img σ1 π a) (.cons (img σ1 π b) .nil)))) l])
          rfl (Nat.pos_iff_ne_zero.1 hst.2.1) (Or.inr ⟨_, _, rfl, by simp [Args.length]⟩)
          ⟨N, σ1, π, D, G', hN, hW1, hcg', hgr1, hco', hq1, hgD,
            .cons (altRel_dead hW1 clauseC_ite1 rfl bv_ite1 (hclash _ _ _))
              (.cons (altRel_dead hW1 clauseC_ite2 rfl bv_ite2 (hclash _ _ _)) .nil),
            rfl, hwr, wrapBody_disj3⟩ hs, hst.nextId, Nat.le_refl _⟩
      | callN x e es hx hl =>
        -- call/N, 2 ≤ N ≤ 8: the goal is built from the closure and the additional arguments
        subst hx
        have hxD : InD D x := fun v hv => hgD v (by simp [Term.hasVar, Args.hasVar, hv])
        have hexD : ∀ t ∈ e :: es.toList, InD D t := by
          intro t ht v hv
          apply hgD v
          have : (Args.cons e es).hasVar v = true := by
            rw [← Args.ofList_toList (Args.cons e es), hasVar_ofList_iff]
            exact ⟨t, by simpa [Args.toList] using ht, hv⟩
          simp only [Term.hasVar, Args.hasVar, Bool.or_eq_true] at this ⊢
          exact Or.inr this
        have hok : callNOK fl env1 x (e :: es.toList) := by
          have := (hfine hfl).2 (f' + 1 + 1) x e es.toList K' env m
            (by simpa [functorName, argList, Args.toList] using harr0)
          rw [← henv1']
          simpa [functorName, argList, Args.toList, indicator, varContext] using this
        obtain ⟨g0, hres, hcase⟩ := hok
        simp only [functorName, argList, Args.toList] at harr
        have hr : res env1 x = g0 := by simp [res, hres]
        have hsub : g0.subst σ1 = x.subst σ1 := resolve_sol inner env1 x g0 σ1 hres hW1.mg.mgu.sol
        have hig : img σ1 π (.app "call" (.cons x (.cons e es))) =
            .app "call" (.cons (img σ1 π x) (.cons (img σ1 π e) ((es.subst σ1).rename π))) := rfl
        rw [hig] at hs
        have hix0 : img σ1 π x = img σ1 π g0 := by simp only [img, hsub]
        have hes : ((es.subst σ1).rename π).toList = es.toList.map (img σ1 π) := by
          rw [Args.rename, toList_subst, toList_subst, List.map_map]; rfl
        have hl' : ((es.subst σ1).rename π).length ≤ 6 := by
          rw [Args.rename, Args.length_subst, Args.length_subst]; exact hl
        rcases hcase with ⟨v, rfl⟩ | ⟨hnone, hnv0⟩ | ⟨G, g', hadd, happ, hw, hb⟩
        · -- an unbound variable: instantiation error on both sides
          rw [builtin_callN_var _ _ _ _ _ _ _ v hr] at harr
          obtain ⟨c1, N', hN', hmk⟩ := mkErr_closed instErr (fun _ => rfl) env1 m
          rw [hmk] at harr
          simp only [Option.some.injEq, Prod.mk.injEq] at harr
          obtain ⟨rfl, rfl⟩ := harr
          have hσv : σ1 v = .var v := hW1.mg.mgu.idUnbound v (resolve_var_unbound inner env1 x v hres)
          have hix : img σ1 π x = .var (π v) := by
            simp only [img, ← hsub, Term.subst, hσv]; rfl
          rw [hix, solve_callN_none _ _ _ _ _ _ _ _ _ _ _ hl' (by simp [SLD.addArgs, SLD.functor])] at hs
          simp only [SLD.raise, notCallableErr, Option.some.injEq] at hs
          subst hs
          exact toW3 ⟨.err (F := instErr) (c2 := .var 0) rfl, hst, hN'⟩
        · -- a number or a string: type_error(callable, _) on both sides
          rw [builtin_callN_none _ _ _ _ _ _ _ g0 hr hnone hnv0] at harr
          obtain ⟨hcl, haddS, hmatch⟩ := addArgsVM_none hnone hnv0
          obtain ⟨c1, N', hN', hmk⟩ := mkErr_closed (typeErr "callable" g0)
            (fun z => by simp [typeErr, Term.a2, Term.hasVar, Args.hasVar, hcl z]) env1 m
          rw [hmk] at harr
          simp only [Option.some.injEq, Prod.mk.injEq] at harr
          obtain ⟨rfl, rfl⟩ := harr
          have hix : img σ1 π x = g0 := by
            rw [hix0]; simp only [img, closed_subst hcl]; exact closed_subst hcl _
          rw [hix, solve_callN_none _ _ _ _ _ _ _ _ _ _ _ hl' (haddS _), hmatch] at hs
          simp only [SLD.raise, Option.some.injEq] at hs
          subst hs
          exact toW3 ⟨.err (F := typeErr "callable" g0) (c2 := .var 0) rfl, hst, hN'⟩
        · -- a callable closure
          rw [builtin_callN_some _ _ _ _ _ _ _ g0 G hr hadd] at harr
          simp only [Option.some.injEq] at harr
          obtain ⟨hnv0, a, y, ys, hG⟩ := addArgsVM_app hadd
          have hGnv : ∀ v, G ≠ .var v := by rw [hG]; intro v hv; cases hv
          have hg' : g' = G.subst σ1 := applyAll_eq_subst hW1.mg.mgu inner G g' happ
          have hg'nv : ∀ v, g' ≠ .var v := by
            rw [hg', hG]; intro v hv'; simp [Term.subst] at hv'
          obtain ⟨cs, hrel, hcg0⟩ := callGoal_okM' (fl := fl) G K' env1 m G g' (res_nonvar env1 G hGnv) hGnv
            (by simp [app, happ]) hb hw
          rw [hcg0] at harr
          have hiG : img σ1 π G = g'.rename π := by rw [hg']; rfl
          have hrnv : ∀ v, g'.rename π ≠ .var v := by
            rw [hg', hG]; intro v hv'; simp [Term.rename, Term.subst] at hv'
          rw [hix0, solve_callN _ _ _ _ _ _ _ _ (g'.rename π) _ _ _ (fl := fl) hl'
            (by rw [hes, ← hiG]; exact addArgs_img σ1 π hadd) (by rw [dbodyS_rename]; exact hb) hrnv] at hs
          -- the variables of the instantiated goal become relevant
          have hgv : ∀ v, g'.hasVar v = true → RV σ1 D v := by
            intro v hv'
            rw [hg'] at hv'
            rcases addArgsVM_vars hadd hv' with h1 | ⟨t, ht, h1⟩
            · rw [hsub] at h1; exact vars_subst_rv hxD h1
            · exact vars_subst_rv (hexD t ht) h1
          obtain ⟨hW2, hgD2, its, hits1, hits2, hitsR⟩ := call_items (fl := fl) d hW1 hgv hrel
          have hp : p = ({ id := m.user.nextId, delayed := its.map (fun it => Thunk.clause it.1 (argList (qHead g')) K' env1 m.user.nextId) } : Pr) := by
            have : p = (clausesCall cs (argList (qHead g')) K' env1 m).1 := by rw [harr]
            rw [this, ← hits1]; simp [clausesCall, freshId, List.map_map, Function.comp_def]
          have hm1 : m1 = { m with user := { m.user with nextId := m.user.nextId + 1 } } := by
            have : m1 = (clausesCall cs (argList (qHead g')) K' env1 m).2 := by rw [harr]
            rw [this]; rfl
          rw [hp, hm1]
          have hgr2 : GRel mo lv σ1 π (fun v => D v ∨ RV σ1 D v) G' R' :=
            hgr1.step_id (fun v hv' => Or.inl hv') (fun _ _ => rfl)
          refine toW3 ⟨.alts (its := its)
            (g := qHead g') rfl (Nat.pos_iff_ne_zero.1 hst.2.1) (qHead_shape g')
            ⟨N, σ1, π, _, G', hN, hW2, hcg', hgr2, hco', hq1, hgD2, hitsR⟩
            (by rw [hits2]; exact hs), hst.nextId, Nat.le_refl _⟩
      | call x hx =>
      -- call/1
      subst hx
      have hxD : InD D x := fun v hv => hgD v (by simp [Term.hasVar, Args.hasVar, hv])
      have hok : callOK fl env1 x := by
        have := (hfine hfl).1 (f' + 1 + 1) x K' env m (by simpa [functorName, argList, Args.toList] using harr0)
        rw [← henv1']
        simpa [functorName, argList, Args.toList, indicator, varContext] using this
      obtain ⟨g0, hres, hcase⟩ := hok
      simp only [functorName, argList, Args.toList] at harr
      rw [builtin_call1] at harr
      simp only [Option.some.injEq] at harr
      have hsub : g0.subst σ1 = x.subst σ1 := resolve_sol inner env1 x g0 σ1 hres hW1.mg.mgu.sol
      have hig : img σ1 π (.app "call" (.cons x .nil)) = SLD.call1 (img σ1 π x) := rfl
      rw [hig] at hs
      by_cases hv : ∃ v, g0 = .var v
      · -- an unbound variable: instantiation error on both sides
        obtain ⟨v, rfl⟩ := hv
        rw [callGoal_var x K' env1 m v hres] at harr
        obtain ⟨c1, N', hN', hmk⟩ := mkErr_closed instErr (fun _ => rfl) env1 m
        rw [hmk] at harr
        simp only [Prod.mk.injEq] at harr
        obtain ⟨rfl, rfl⟩ := harr
        have hσv : σ1 v = .var v := hW1.mg.mgu.idUnbound v (resolve_var_unbound inner env1 x v hres)
        have hix : img σ1 π x = .var (π v) := by
          simp only [img, ← hsub, Term.subst, hσv]; rfl
        rw [hix, solve_call_var] at hs
        simp only [SLD.raise, Option.some.injEq] at hs
        subst hs
        exact toW3 ⟨.err (F := instErr) (c2 := .var 0) rfl, hst, hN'⟩
      · have hnv0 : ∀ v, g0 ≠ .var v := fun v hv' => hv ⟨v, hv'⟩
        rcases hcase with ⟨v, hv'⟩ | ⟨g', happ, hw, hb⟩
        · exact absurd hv' (hnv0 v)
        have hg' : g' = x.subst σ1 := by
          rw [applyAll_eq_subst hW1.mg.mgu inner g0 g' happ, hsub]
        have hg'nv : ∀ v, g' ≠ .var v := by
          rw [applyAll_eq_subst hW1.mg.mgu inner g0 g' happ]
          cases g0 with
          | var v => exact absurd rfl (hnv0 v)
          | _ => intro v hv'; simp [Term.subst] at hv'
        obtain ⟨cs, hrel, hcg0⟩ := callGoal_okM x K' env1 m g0 g' hres hnv0 happ hb hw
        rw [hcg0] at harr
        have hix : img σ1 π x = g'.rename π := by rw [hg']; rfl
        have hrnv : ∀ v, g'.rename π ≠ .var v := by
          intro v hv'
          cases g' with
          | var w => exact absurd rfl (hg'nv w)
          | _ => simp [Term.rename, Term.subst] at hv'
        have htop : ∀ f, g'.rename π ≠ .app f .nil := by
          intro f hf
          obtain ⟨as', rfl, has⟩ := rename_eq_app hf
          rw [subst_eq_nil has] at hw
          simp [wfT] at hw
        rw [hix, solve_call1M _ _ _ _ _ _ _ _ _ (fl := fl) (by rw [dbodyS_rename]; exact hb) htop hrnv] at hs
        -- the variables of the instantiated goal become relevant
        have hgv : ∀ v, g'.hasVar v = true → RV σ1 D v := fun v hv' => by rw [hg'] at hv'; exact vars_subst_rv hxD hv'
        obtain ⟨hW2, hgD2, its, hits1, hits2, hitsR⟩ := call_items (fl := fl) d hW1 hgv hrel
        have hp : p = ({ id := m.user.nextId, delayed := its.map (fun it => Thunk.clause it.1 (argList (qHead g')) K' env1 m.user.nextId) } : Pr) := by
          have : p = (clausesCall cs (argList (qHead g')) K' env1 m).1 := by rw [harr]
          rw [this, ← hits1]; simp [clausesCall, freshId, List.map_map, Function.comp_def]
        have hm1 : m1 = { m with user := { m.user with nextId := m.user.nextId + 1 } } := by
          have : m1 = (clausesCall cs (argList (qHead g')) K' env1 m).2 := by rw [harr]
          rw [this]; rfl
        rw [hp, hm1]
        have hgr2 : GRel mo lv σ1 π (fun v => D v ∨ RV σ1 D v) G' R' :=
          hgr1.step_id (fun v hv' => Or.inl hv') (fun _ _ => rfl)
        refine toW3 ⟨.alts (its := its)
          (g := qHead g') rfl (Nat.pos_iff_ne_zero.1 hst.2.1) (qHead_shape g')
          ⟨N, σ1, π, _, G', hN, hW2, hcg', hgr2, hco', hq1, hgD2, hitsR⟩
          (by rw [hits2]; exact hs), hst.nextId, Nat.le_refl _⟩
    have hshape := shape_of_hornGoal hhg
    rcases hornGoal_shape hhg with ⟨fn, rfl, hfn⟩ | ⟨a, b, rfl⟩ | ⟨fn, as, rfl, hu, _⟩
    · -- an atom: `true` or a user predicate
      rcases hfn with rfl | hu
      · -- true
        simp only [functorName, argList] at harr
        rw [builtin_true] at harr
        simp only at harr
        have hlk : lookupProc m.user "true" 0 = lookupProc bootState "true" 0 := by
          rw [lookupProc_stOK hst]
          exact lookup_other prog hprog "true" 0 userPred_true
        obtain ⟨pt, ct, hpt, hct, hcode, hvars⟩ := boot_true
        rw [show ([] : List Term).length = 0 from rfl, hlk, hpt] at harr
        simp only [Option.some.injEq] at harr
        have hp : p = ({ id := m.user.nextId, delayed := [Thunk.clause ct [] K' env1 m.user.nextId] } : Pr) := by
          have : p = (clausesCall pt.clauses [] K' env1 m).1 := by rw [harr]
          rw [this]; simp [clausesCall, freshId, hct]
        have hm1 : m1 = { m with user := { m.user with nextId := m.user.nextId + 1 } } := by
          have : m1 = (clausesCall pt.clauses [] K' env1 m).2 := by rw [harr]
          rw [this]; rfl
        rw [img_atom, solve_true] at hs
        rw [hp, hm1]
        exact toW3 ⟨.direct rfl (Nat.pos_iff_ne_zero.1 hst.2.1) hcode hvars
          ⟨N, σ1, π, D, G', hN, hW1, hcg', hgr1, hco', hq1, trivial⟩ hs, hst.nextId, Nat.le_refl _⟩
      · -- user atom
        have hres : fn ∉ reservedNames := reserved_not_user hu
        simp only [functorName, argList] at harr
        rw [builtin_user _ _ _ _ _ _ hres] at harr
        refine call_user hprog hW1 hcg' hgr1 hco' hq1 hgD hshape (by simpa [functorName, argList] using hu) hN hst
          ?_ ?_ hs
        · intro pr hpr
          simp only [functorName, argList] at hpr
          rw [hpr] at harr
          simpa [argList] using harr
        · intro hpr
          simp only [functorName, argList] at hpr
          rw [hpr] at harr
          simpa [functorName, argList] using harr
    · -- =/2
      simp only [functorName, argList, Args.toList] at harr
      rw [builtin_eq] at harr
      have haD : InD D a := fun v hv => hgD v (by simp [Term.hasVar, Args.hasVar, hv])
      have hbD : InD D b := fun v hv => hgD v (by simp [Term.hasVar, Args.hasVar, hv])
      have hig : img σ1 π (.app "=" (.cons a (.cons b .nil))) =
          .app "=" (.cons (img σ1 π a) (.cons (img σ1 π b) .nil)) := rfl
      rw [hig, solve_eq] at hs
      unfold SLD.unify at hs
      cases hu : unify inner false env1 a b with
      | none => rw [hu] at harr; simp at harr
      | some pr =>
        obtain ⟨env', ures⟩ := pr
        rw [hu] at harr
        have haT := tok_of_inD hW1 haD
        have hbT := tok_of_inD hW1 hbD
        cases ures with
        | ok =>
          simp only at harr
          cases hr : Robinson.solve n' [(img σ1 π a, img σ1 π b)] [] with
          | mgu θ =>
            rw [hr] at hs
            simp only at hs
            obtain ⟨σ', π', hW', heq⟩ := simW_eq hW1 haD hbD hu hr
            have hgr2 : GRel mo lv σ' π' D G' (R'.map (SLD.Frame.subst θ)) := hgr1.step (fun v hv => hv) θ heq
            have hq2 : Robinson.applySubst θ q = img σ' π' tmpl := by
              rw [applySubst_eq, hq1, heq tmpl hW1.tmplD]
            exact ih f' (by omega) K' env' m p m1 harr hfine lv _ _ nv
              ⟨N, σ', π', D, G', hN, hW', hcg', hgr2, hco', hq2, trivial⟩ hst n' d r hs
          | clash =>
            exfalso
            exact bridge_clash hW1.mg hW1.chain haD hbD hW1.inj (UChain.single haT hbT hu)
              (fun θ hθ => unify_isound _ _ _ _ _ _ hu θ hθ) hr
          | occurs => rw [hr] at hs; simp at hs
          | outOfFuel => rw [hr] at hs; simp at hs
        | clash =>
          simp only [Option.some.injEq, Prod.mk.injEq] at harr
          obtain ⟨rfl, rfl⟩ := harr
          have hfail : ¬ ∃ θ, Sol env1 θ ∧ a.subst θ = b.subst θ := fun ⟨θ, hs1, hu1⟩ =>
            unify_spec _ _ _ _ _ _ _ hu θ hs1 hu1
          cases hr : Robinson.solve n' [(img σ1 π a, img σ1 π b)] [] with
          | mgu θ => exact absurd hr (fun hr => bridge_fail hW1.mg.mgu hfail hr)
          | clash =>
            rw [hr] at hs
            simp only [SLD.failed, Option.some.injEq] at hs
            subst hs
            exact toW3 ⟨.fail rfl, hst, Nat.le_refl _⟩
          | occurs => rw [hr] at hs; simp at hs
          | outOfFuel => rw [hr] at hs; simp at hs
        | occurs =>
          simp only [Option.some.injEq, Prod.mk.injEq] at harr
          obtain ⟨rfl, rfl⟩ := harr
          have hfail : ¬ ∃ θ, Sol env1 θ ∧ a.subst θ = b.subst θ := fun ⟨θ, hs1, hu1⟩ =>
            unify_spec _ _ _ _ _ _ _ hu θ hs1 hu1
          cases hr : Robinson.solve n' [(img σ1 π a, img σ1 π b)] [] with
          | mgu θ => exact absurd hr (fun hr => bridge_fail hW1.mg.mgu hfail hr)
          | clash =>
            rw [hr] at hs
            simp only [SLD.failed, Option.some.injEq] at hs
            subst hs
            exact toW3 ⟨.fail rfl, hst, Nat.le_refl _⟩
          | occurs => rw [hr] at hs; simp at hs
          | outOfFuel => rw [hr] at hs; simp at hs
    · -- user compound
      have hres : fn ∉ reservedNames := reserved_not_user hu
      simp only [functorName] at harr
      rw [builtin_user _ _ _ _ _ _ hres] at harr
      refine call_user hprog hW1 hcg' hgr1 hco' hq1 hgD hshape (by simpa [functorName, argList] using hu) hN hst
        ?_ ?_ hs
      · intro pr hpr
        simp only [functorName] at hpr
        rw [hpr] at harr
        simpa using harr
      · intro hpr
        simp only [functorName] at hpr
        rw [hpr] at harr
        simpa [functorName] using harr

end PrologVerif.Refine
