"""Per-property configuration of bin/check (streams, sizes, trusted base). See DESIGN.md §6."""

COMMON_TRUSTED = [
    "Lean 4.33.0 kernel (thorough tier: re-checked with leanchecker); axioms allowed in property theorems: propext, Classical.choice, Quot.sound only (audited on every run by PrologVerif/Audit.lean); no sorry/admit/native_decide/bv_decide/own axioms (grep on every run)",
    "hand-written Lean model mirrors the Go code: CHECKED by the correspondence streams (differential testing, bounded by the generators; distributions are in this file), not proved",
    "/verif/extract (regenerated facts / translated definitions) and /verif/harness (in-process runner, canonicalisation: variables renamed by first occurrence, map-ordered output sorted, error context dropped)",
    "Go compiler/runtime and standard library behave as documented",
]

NOT_APPLICABLE = {}

PROPS = {
    "C20": dict(
        level_text="Proof: the loader (VM.Compile, the read loop of VM.compile, text.flush, VM.directive, text.forEachUserDefined, the commit loop) is modelled in Lean over the list of READ RESULTS (a term or a syntax error), so that 'for all item lists' covers every text and every fault position; directives go through an oracle that MAY have side effects. Kernel-checked for all item lists, fuels and oracles: an error raised before the commit leaves the procedure table equal to what the directives alone made of it — equal to the table before the call when directives are side-effect free (C20_all_or_nothing), the staged clauses of every predicate are the text's clauses for it in source order (C20_source_order), the contiguity error is raised exactly when a later run of a predicate is not preceded by a discontiguous declaration (C20_contiguity), declarations set exactly their flags, the commit replaces or (both multifile) appends and touches nothing else, and directives/initialization goals run in source order, the latter after the commit. The model is tied to the Go code by the c20.load stream: generated texts x every item position x one fault of each kind, and truncation at every byte offset, on top of earlier loads; judged by the independent executable specification Spec/Load.",
        level_note="Trusted: Lean kernel; the hand-written model (correspondence-checked, not proved); the reader and term expansion are abstracted (items are read results after expansion; the DCG expansion in the payload comes from the engine's own translator, C17's subject); which byte offsets fall inside an item is decided by the harness's text layout; goal directives are evaluated by a small oracle (true, fail, throw/1, =/2, facts of earlier loads). ensure_loaded/1 (a load of its own) is not generated; include/1 is modelled as splicing and covered by the stream, the order theorems are stated for include-free texts.",
        technique="Lean 4 invariant proofs by induction over arbitrary item lists (staging invariants, simulation with a run-scanning specification) + model/implementation correspondence with exhaustive fault positions",
        lean_module="PrologVerif.Properties.C20",
        ns="PrologVerif.C20",
        streams=[dict(name="c20.load", quick=8000, thorough=60000)],
        rule="base texts over 3-6 of the predicates a/1 b/1 c/2 d/0 e/1 'q q'/1 and the grammar predicates g//0 h//0 (facts, rules, top-level disjunctions, if-then-else, DCG rules), contiguous or split in two runs, with/without discontiguous/dynamic/multifile declarations (also too late), side-effect-free directives (also calling facts of an earlier load), initialization goals, comments, include/1 of a generated file; for EVERY base text: the text itself, one fault of each of 17 kinds (3 syntax errors, variable/number clause, non-callable body/head, failing/throwing/unknown/ill-typed/variable directive, malformed declarations, stray clause of an earlier predicate, missing include file) inserted at EVERY item position, and truncation at EVERY byte offset; each variant is loaded after 0-3 earlier loads of overlapping predicates (k/1 facts, shared multifile predicate); one PRNG (VERIF_SEED); non-trivial = the text defines >= 2 predicates and the fault is not at position 0 (or there is no fault); distinct = distinct case text",
        trusted=[
            "modelled (hand-written, correspondence-checked): engine/text.go VM.Compile, VM.compile, text.flush, VM.directive (dynamic, multifile, discontiguous, initialization, include, other goals), text.forEachUserDefined, anyIterator; engine/clause.go compile (through Model/DB); vm.go piArg",
            "abstracted: the reader (Parser.More/Term) as a list of read results; expand (DCG) as given; execution of goals as an oracle",
            "not modelled: ensure_loaded/1, consult/1, placeholders, the shebang line, term_expansion/2",
        ],
        modelled={"hand_modelled": ["VM.Compile", "VM.compile", "text.flush", "VM.directive", "text.forEachUserDefined", "anyIterator", "compile"],
                  "regenerated": [], "observed_only": ["Parser", "expandDCG", "Call", "VerifProcedures"]},
        assumptions=["directives of the generated texts are side-effect free (the property restricts itself to those); the all-or-nothing theorem has this as an explicit hypothesis",
                     "every read item is either a term or a syntax error; a text that ends inside an item reads as a syntax error at that position (holds for the repaired loader, D19)"],
    ),
    "C09": dict(
        level_text="Proof: the clause database (assertMerge/Asserta/Assertz, Retract, Abolish, the per-call snapshot of clauses.call, piArg/compile's clause splitting) is modelled in Lean as a state machine whose OPEN ITERATORS are first-class, so histories are arbitrary interleavings (not only LIFO). For ALL histories from any state with unique clause identities the model of the repaired Retract produces exactly the outputs and final state of the logical-update-view specification Spec/LUV (C09_retract_refines_luv, with the identity invariant C09_inv proved by induction over histories); an open call's remaining clauses are always a suffix of its call-time list and its answers do not depend on the current database (C09_call_sees_snapshot, C09_call_answer_independent_of_db); asserta/assertz positions, abolish, permission errors on static procedures, 'an error changes nothing' and absence of Go panics are theorems; retractall/1 is derived from the regenerated bootstrap clauses. The pinned positional arithmetic is refuted by kernel-evaluated witnesses (C09_retract_positional_witness, C09_no_panic_witness). The model is tied to the Go code by the c09.hist stream (interleaved Solutions of one interpreter + nested failure-driven loops), judged by the executable specification.",
        level_note="Trusted: Lean kernel; the hand-written model (correspondence-checked, not proved); harness canonicalisation; unification/renaming inside the model are shared by model and specification (the theorems do not depend on their properties); bodies of stored clauses are assumed to succeed exactly once (the stream stores facts and rules whose alternatives are `true`). The pinned variant looks the procedure up by indicator (the pinned Go code holds the *userDefined): differs only after abolish/1 of the predicate being retracted from, which the witnesses do not use.",
        technique="Lean 4 refinement proof (model of the repaired code vs logical-update-view machine) by induction over arbitrary histories with an identity-uniqueness invariant + kernel-evaluated counterexamples for the pinned code + model/implementation correspondence",
        lean_module="PrologVerif.Properties.C09",
        ns="PrologVerif.C09",
        streams=[dict(name="c09.hist", quick=5000, thorough=60000)],
        rule="histories over the dynamic predicates p/1, q/2, r/0 (plus static s/1, member/2, built-in atom_length/2 for permission errors) with duplicate clauses, clauses with variables, rules and two-alternative rules, malformed clauses/indicators; realised (1) interleaved: up to 4 open calls/retracts as Solutions of one interpreter stepped in arbitrary order between asserta/assertz/abolish/retractall, (2) nested: findall over conjunctions of calls, retracts and updates of the predicate being enumerated, (3) mixed; generated from one PRNG (VERIF_SEED); non-trivial = at least one successful update happened while an iterator over the same predicate was open (interleaved: tracked by the harness; nested: a marker goal after the update was reached while an earlier iterator goal on that predicate was active); distinct = distinct case text",
        trusted=[
            "modelled (hand-written, correspondence-checked): engine/builtin.go Assertz, Asserta, assertMerge, Retract (repaired), Abolish, rulify; engine/clause.go clauses.call (snapshot), compile (number of clauses per term, callable check), clauses.indexOf, clause.is; engine/vm.go piArg, Arrive (unknown procedure)",
            "regenerated from source on every run: the two clauses of retractall/1 in bootstrap.pl (Generated/Bootstrap.lean), compared with the clauses the retractall theorem is about",
            "not modelled: execution of clause bodies (assumed to succeed once), Clause/2 (used only for the listings), the goroutine/channel machinery of Solutions (C12)",
        ],
        modelled={"hand_modelled": ["Assertz", "Asserta", "assertMerge", "Retract", "Abolish", "rulify", "clauses.call", "compile", "clauses.indexOf", "clause.is", "piArg", "Arrive"],
                  "regenerated": ["bootstrap.pl retractall/1"], "observed_only": ["Clause", "FindAll", "Solutions"]},
        assumptions=["stored clause bodies succeed exactly once (facts, `true`, `(true;true)`)",
                     "a stored clause is read through a copy renamed apart (repair of D10, commit 9f85128 in the repo; C10's subject) — the model renames at every read"],
    ),
    "C18": dict(
        level_text="Proof: the operator-table state machine (Op/validateOp/CurrentOp and the operators methods) is modelled in Lean; for ALL histories of op/3 calls with arbitrary argument terms the ISO invariant (C18_inv), atomicity of failed updates (C18_atomic), the exact effect of successful updates (C18_update_exact: latest wins, 0 removes, other classes kept) and exactness of current_op/3 (C18_current_op_exact) are kernel-checked theorems, the default table being regenerated from bootstrap.pl. The model is tied to the Go code by the c18.hist correspondence stream (impl vs model, plus an independent executable ISO specification as oracle, plus reader/writer probes).",
        level_note="Trusted: Lean kernel; the hand-written model of Op/validateOp/CurrentOp (checked by differential runs, not proved); harness canonicalisation; reader/writer use of the table is only probed, not modelled. Pattern variables of current_op/3 assumed pairwise distinct.",
        technique="Lean 4 invariant proof by induction over op/3 histories + regenerated default table + model/implementation correspondence",
        lean_module="PrologVerif.Properties.C18",
        ns="PrologVerif.C18",
        streams=[dict(name="c18.hist", quick=3000, thorough=40000)],
        rule="histories of 1..8 operations over op/3 (valid and invalid priorities, specifiers, names, lists with invalid members, partial lists, special names , | [] {}), current_op/3 in every instantiation pattern, and a reader/writer probe; generated from one PRNG (VERIF_SEED); non-trivial = at least two op/3 calls in the history changed the table, or one changed it and another was rejected; distinct = distinct case text",
        trusted=[
            "modelled (hand-written, correspondence-checked): engine/builtin.go Op, validateOp, appendUniqNewAtom, CurrentOp; engine/parser.go operators.define/remove/definedInClass; ListIterator as used by Op",
            "regenerated from source on every run: the default operator table = the op/3 directives of bootstrap.pl read by the real parser (Generated/Bootstrap.lean); C18_default_valid is re-proved against it by kernel evaluation",
            "not modelled: the reader and writer themselves (only probed: 'a n b', 'n a', 'a n' parse / writeq(n(a,b)), writeq(n(a)) print according to the table); Go map iteration order (answers compared as sets)",
        ],
        modelled={"hand_modelled": ["Op", "validateOp", "appendUniqNewAtom", "CurrentOp", "operators.define", "operators.remove", "operators.definedInClass"],
                  "regenerated": ["bootstrap.pl op/3 directives"], "observed_only": ["Parser (probe)", "WriteCompound (probe)"]},
        assumptions=["pattern variables of current_op/3 calls are pairwise distinct (the model matches argument-wise)"],
    ),
}
