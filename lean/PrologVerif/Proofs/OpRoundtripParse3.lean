/-
  P2: facts about the token sequence `qt`: its first token (never `(` directly after a prefix operator,
  never a number after a prefix minus), and that `arg` reads a non-atomic argument through `term(999)`.
-/
import PrologVerif.Proofs.OpRoundtripParse2
set_option linter.unusedSimpArgs false
set_option linter.unusedVariables false
namespace PrologVerif.Write
open PrologVerif PrologVerif.Lexer PrologVerif.Ops PrologVerif.Read

/-- the kinds of the tokens a written term starts with -/
def startKind : Kind → Bool
  | .variable | .letterDigit | .graphic | .quoted | .semicolon | .cut | .integer | .floatNumber
  | .open_ | .openCT | .openList | .openCurly => true
  | _ => false

/-- … for an atom -/
def atomStartKind : Kind → Bool
  | .letterDigit | .graphic | .quoted | .semicolon | .cut | .openList | .openCurly => true
  | _ => false

theorem atomToks_first {s : List Char} {toks : List Token} (h : AtomToks s toks) :
    ∃ hd tl, toks = hd :: tl ∧ atomStartKind hd.kind = true := by
  cases h with
  | name t hk hv => exact ⟨t, [], rfl, by rcases hk with hk | hk | hk | hk <;> simp [hk, atomStartKind]⟩
  | quoted t hk hv => exact ⟨t, [], rfl, by simp [hk, atomStartKind]⟩
  | list t1 t2 h1 h2 hs => exact ⟨t1, [t2], rfl, by simp [h1, atomStartKind]⟩
  | curly t1 t2 h1 h2 hs => exact ⟨t1, [t2], rfl, by simp [h1, atomStartKind]⟩

/-- what the reader needs to know about the first token of a term written after the operator `o.left` -/
def First (o : WOpts) (hd : Token) : Prop :=
  startKind hd.kind = true ∧ (isPrefixOp o.left = true → hd.kind ≠ .openCT) ∧
  (isPrefixMinus o.left = true → isNumberKind hd.kind = false)

theorem first_of_atomStart {o : WOpts} {hd : Token} (h : atomStartKind hd.kind = true) : First o hd := by
  refine ⟨?_, ?_, ?_⟩ <;> cases hk : hd.kind <;> simp_all [atomStartKind, startKind, isNumberKind]

theorem first_openTok (o : WOpts) (sp : Bool) (h : isPrefixOp o.left = true → sp = true) : First o (openTok sp) := by
  cases sp
  · refine ⟨rfl, ?_, fun _ => rfl⟩
    intro hp; exact absurd (h hp) (by simp)
  · exact ⟨rfl, fun _ => by simp [openTok], fun _ => rfl⟩

theorem isPrefixOp_of_minus {l : Option Op} (h : isPrefixMinus l = true) : isPrefixOp l = true := by
  cases l with
  | none => simp [isPrefixMinus] at h
  | some o => simp [isPrefixMinus] at h; simp [isPrefixOp, h.2]

theorem isSome_of_prefixOp {l : Option Op} (h : isPrefixOp l = true) : l.isSome = true := by
  cases l with
  | none => simp [isPrefixOp] at h
  | some o => rfl

section
variable (e : Env) (G : UInt64 → GText) (P : UInt64 → Bool)

theorem tAtom_first (he : EnvOK e G P) (o : WOpts) (a : String) :
    ∃ hd tl, tAtom e o a.toList = hd :: tl ∧ First o hd := by
  unfold tAtom
  split
  · exact ⟨_, _, rfl, first_openTok o _ (fun h => h)⟩
  · obtain ⟨hd, tl, h1, h2⟩ := atomToks_first (atomToks_atomTokens e G P he a)
    exact ⟨hd, tl, h1, first_of_atomStart h2⟩

theorem tInt_first (o : WOpts) (i : Int) : ∃ hd tl, tInt o i = hd :: tl ∧ First o hd := by
  unfold tInt
  split
  · exact ⟨_, _, rfl, first_openTok o true (fun _ => rfl)⟩
  · rename_i hc
    unfold intTokens
    by_cases hneg : i < 0
    · simp only [hneg, if_true]
      exact ⟨minusTok, _, rfl, first_of_atomStart rfl⟩
    · simp only [hneg, if_false, List.nil_append]
      refine ⟨_, [], rfl, rfl, fun _ => by simp, ?_⟩
      intro hm
      have : i ≥ 0 := by omega
      simp [hm, this] at hc

theorem tFloat_first (hs : SignOK G P) (o : WOpts) (b : UInt64) (hb : P b = true) :
    ∃ hd tl, tFloat G o b = hd :: tl ∧ First o hd := by
  unfold tFloat
  split
  · exact ⟨_, _, rfl, first_openTok o true (fun _ => rfl)⟩
  · rename_i hc
    unfold floatTokens
    by_cases hneg : (G b).neg = true
    · simp only [hneg, if_true]
      exact ⟨minusTok, _, rfl, first_of_atomStart rfl⟩
    · simp only [hneg, Bool.false_eq_true, if_false, List.nil_append]
      refine ⟨_, [], rfl, rfl, fun _ => by simp, ?_⟩
      intro hm
      have hsb : signbit b = false := by rw [hs b hb]; simpa using hneg
      simp [hm, hsb] at hc

/-- the first token of a written term -/
theorem qt_first (he : EnvOK e G P) (hs : SignOK G P) : (t : Term) → (o : WOpts) → wfTerm t = true → numsOK P t = true →
    ∃ hd tl, qt e G t o = hd :: tl ∧ First o hd
  | .var v, o, _, _ => ⟨_, [], rfl, rfl, fun _ => by simp, fun _ => rfl⟩
  | .atom a, o, _, _ => by simpa [qt] using tAtom_first e G P he o a
  | .int i, o, _, _ => by simpa [qt] using tInt_first o i
  | .flt b, o, _, hn => by simpa [qt] using tFloat_first G P hs o b (by simpa [numsOK] using hn)
  | .str _, _, hw, _ => by simp [wfTerm] at hw
  | .app f .nil, _, hw, _ => by simp [wfTerm] at hw
  | .app f (.cons a0 .nil), o, hw, hn => by
    simp only [wfTerm, wfArgs, Bool.and_eq_true] at hw
    simp only [numsOK, numsOKArgs, Bool.and_eq_true] at hn
    obtain ⟨fh, ftl, hf1, hf2⟩ := atomToks_first (atomToks_atomTokens e G P he f)
    simp only [qt, qtC]
    split
    · exact ⟨_, _, rfl, first_of_atomStart rfl⟩
    · split
      · rename_i opr _
        split
        · -- prefix
          simp only [tPrefix]
          split
          · exact ⟨_, _, rfl, first_openTok o _ isSome_of_prefixOp⟩
          · simp only [List.nil_append, hf1, List.cons_append]
            exact ⟨_, _, rfl, first_of_atomStart hf2⟩
        · -- postfix
          simp only [tPostfix]
          split
          · exact ⟨_, _, rfl, first_openTok o _ isSome_of_prefixOp⟩
          · rename_i hoc
            obtain ⟨hd, tl, h1, h2, h3, h4⟩ := qt_first he hs a0
              { inner (postfixOC o opr) o with priority := (bindingPriorities opr).1, right := some opr } hw.1 hn.1
            simp only [List.nil_append, h1, List.cons_append]
            refine ⟨_, _, rfl, h2, ?_, ?_⟩
            · simpa [inner, hoc] using h3
            · simpa [inner, hoc] using h4
      · simp only [hf1, List.cons_append]
        exact ⟨_, _, rfl, first_of_atomStart hf2⟩
  | .app f (.cons a0 (.cons a1 .nil)), o, hw, hn => by
    simp only [wfTerm, wfArgs, Bool.and_eq_true] at hw
    simp only [numsOK, numsOKArgs, Bool.and_eq_true] at hn
    obtain ⟨fh, ftl, hf1, hf2⟩ := atomToks_first (atomToks_atomTokens e G P he f)
    simp only [qt, qtC]
    split
    · exact ⟨_, _, rfl, first_of_atomStart rfl⟩
    · split
      · rename_i opr _
        simp only [tInfix]
        split
        · exact ⟨_, _, rfl, first_openTok o _ (fun h => h)⟩
        · rename_i hoc
          obtain ⟨hd, tl, h1, h2, h3, h4⟩ := qt_first he hs a0
            { inner (infixOC o opr) o with priority := (bindingPriorities opr).1, right := some opr } hw.1 hn.1
          simp only [List.nil_append, h1, List.cons_append]
          refine ⟨_, _, rfl, h2, ?_, ?_⟩
          · simpa [inner, hoc] using h3
          · simpa [inner, hoc] using h4
      · simp only [hf1, List.cons_append]
        exact ⟨_, _, rfl, first_of_atomStart hf2⟩
  | .app f (.cons a0 (.cons a1 (.cons a2 rest))), o, hw, hn => by
    obtain ⟨fh, ftl, hf1, hf2⟩ := atomToks_first (atomToks_atomTokens e G P he f)
    simp only [qt, qtC, hf1, List.cons_append]
    exact ⟨_, _, rfl, first_of_atomStart hf2⟩

end

/-! ## `arg` on a non-atomic argument -/

def stopKind : Kind → Bool
  | .comma | .close | .bar | .closeList => true
  | _ => false

theorem startKind_facts {k : Kind} (h : startKind k = true) :
    k ≠ .closeCurly ∧ k ≠ .closeList ∧ stopKind k = false := by
  cases k <;> simp_all [startKind, stopKind]

/-- token sequences on which `arg` is `term(999)` -/
def ArgLike (ops : Table) (toks : List Token) : Prop :=
  (∃ hd tl, toks = hd :: tl ∧ (hd.kind = .variable ∨ hd.kind = .integer ∨ hd.kind = .floatNumber ∨
    hd.kind = .open_ ∨ hd.kind = .openCT)) ∨
  (∃ x tl, toks = openListTok :: x :: tl ∧ x.kind ≠ .closeList) ∨
  (∃ x tl, toks = openCurlyTok :: x :: tl ∧ x.kind ≠ .closeCurly) ∨
  (∃ s A nxt tl, AtomToks s A ∧ toks = A ++ nxt :: tl ∧
    (defined ops (String.ofList s) = true → stopKind nxt.kind = false))

theorem arg_of_argLike {ops : Table} {toks : List Token} (h : ArgLike ops toks) (dq : DoubleQuotes) (fuel : Nat)
    (b : List Token) (vs : Vars) (nv : Nat) :
    arg ops dq (fuel + 1) ⟨b, toks, vs, nv⟩ = term ops dq fuel 999 ⟨b, toks, vs, nv⟩ := by
  rcases h with ⟨hd, tl, rfl, hk⟩ | ⟨x, tl, rfl, hx⟩ | ⟨x, tl, rfl, hx⟩ | ⟨s, A, nxt, tl, hat, rfl, hdef⟩
  · rcases hk with hk | hk | hk | hk | hk <;> simp [arg, Read.atom, Read.name, Read.next, Read.backup, hk]
  · simp [arg, Read.atom, Read.name, Read.next, Read.backup, openListTok, hx]
  · simp [arg, Read.atom, Read.name, Read.next, Read.backup, openCurlyTok, hx]
  · simp only [arg, atom_atomToks hat]
    by_cases hd : defined ops (String.ofList s) = true
    · have hk := hdef hd
      have h1 : nxt.kind ≠ .comma := by intro h; simp [h, stopKind] at hk
      have h2 : nxt.kind ≠ .close := by intro h; simp [h, stopKind] at hk
      have h3 : nxt.kind ≠ .bar := by intro h; simp [h, stopKind] at hk
      have h4 : nxt.kind ≠ .closeList := by intro h; simp [h, stopKind] at hk
      simp only [hd, if_true, Read.next, h1, h2, h3, h4, or_self, if_false, backup_cons]
      change term ops dq fuel 999 (rewind ⟨A.reverse ++ b, nxt :: tl, vs, nv⟩) = _
      rw [rewind_atomToks hat]
    · simp only [hd, Bool.false_eq_true, if_false]
      change term ops dq fuel 999 (rewind ⟨A.reverse ++ b, nxt :: tl, vs, nv⟩) = _
      rw [rewind_atomToks hat]

section
variable (e : Env) (G : UInt64 → GText) (P : UInt64 → Bool)

theorem argLike_open (ops : Table) (sp : Bool) (tl : List Token) : ArgLike ops (openTok sp :: tl) := by
  refine .inl ⟨_, _, rfl, ?_⟩
  cases sp
  · exact .inr (.inr (.inr (.inr rfl)))
  · exact .inr (.inr (.inr (.inl rfl)))

theorem opToks_ne_nil (he : EnvOK e G P) (f : String) : ∃ hd tl, opToks e f = hd :: tl := by
  unfold opToks
  split
  · exact ⟨_, _, rfl⟩
  · split
    · exact ⟨_, _, rfl⟩
    · obtain ⟨hd, tl, h, _⟩ := atomToks_first (atomToks_atomTokens e G P he f)
      exact ⟨hd, tl, h⟩

/-- the tokens of a written term that is not a bare operator atom are read by `arg` through `term(999)` -/
theorem qt_argLike (he : EnvOK e G P) (hs : SignOK G P) (ops : Table) : (t : Term) → (o : WOpts) →
    wfTerm t = true → numsOK P t = true → o.left = none → o.ops = ops →
    (∀ a, t = .atom a → defined ops a = true → o.right.isSome = true) →
    ∀ (nxt : Token) (r : List Token), ArgLike ops (qt e G t o ++ nxt :: r)
  | .var v, o, _, _, _, _, _, nxt, r => .inl ⟨_, _, rfl, .inl rfl⟩
  | .atom a, o, _, _, hl, ho, hat, nxt, r => by
    simp only [qt, tAtom, hl, ho]
    split
    · exact argLike_open ops _ _
    · rename_i hc
      refine .inr (.inr (.inr ⟨a.toList, _, nxt, r, atomToks_atomTokens e G P he a, rfl, ?_⟩))
      intro hd
      have hd' : defined ops a = true := by simpa using hd
      have := hat a rfl hd'
      simp [this, hd'] at hc
  | .int i, o, _, _, hl, _, _, nxt, r => by
    simp only [qt, tInt, hl, isPrefixMinus, Bool.false_and, Bool.false_eq_true, if_false, intTokens]
    by_cases hneg : i < 0
    · simp only [hneg, if_true]
      exact .inr (.inr (.inr ⟨['-'], [minusTok], ⟨.integer, _⟩, nxt :: r, .name minusTok (.inr (.inl rfl)) rfl,
        rfl, fun _ => rfl⟩))
    · simp only [hneg, if_false, List.nil_append]
      exact .inl ⟨_, _, rfl, .inr (.inl rfl)⟩
  | .flt b, o, _, _, hl, _, _, nxt, r => by
    simp only [qt, tFloat, hl, isPrefixMinus, Bool.false_and, Bool.false_eq_true, if_false, floatTokens]
    by_cases hneg : (G b).neg = true
    · simp only [hneg, if_true]
      exact .inr (.inr (.inr ⟨['-'], [minusTok], ⟨.floatNumber, _⟩, nxt :: r, .name minusTok (.inr (.inl rfl)) rfl,
        rfl, fun _ => rfl⟩))
    · simp only [hneg, Bool.false_eq_true, if_false, List.nil_append]
      exact .inl ⟨_, _, rfl, .inr (.inr (.inl rfl))⟩
  | .str _, _, hw, _, _, _, _, _, _ => by simp [wfTerm] at hw
  | .app f .nil, _, hw, _, _, _, _, _, _ => by simp [wfTerm] at hw
  | .app f (.cons a0 .nil), o, hw, hn, hl, ho, _, nxt, r => by
    simp only [wfTerm, wfArgs, Bool.and_eq_true] at hw
    simp only [numsOK, numsOKArgs, Bool.and_eq_true] at hn
    have hfa := atomToks_atomTokens e G P he f
    simp only [qt, qtC]
    split
    · obtain ⟨hd, tl, h1, h2, _⟩ := qt_first e G P he hs a0 { o with left := none } hw.1 hn.1
      refine .inr (.inr (.inl ⟨hd, tl ++ [⟨.closeCurly, ['}']⟩] ++ nxt :: r, ?_, (startKind_facts h2).1⟩))
      simp [h1, openCurlyTok]
    · split
      · rename_i opr _
        split
        · simp only [tPrefix]
          split
          · exact argLike_open ops _ _
          · obtain ⟨hd, tl, h1, h2, _⟩ := qt_first e G P he hs a0
              { inner (prefixOC o opr) o with priority := (bindingPriorities opr).2, left := some opr } hw.1 hn.1
            refine .inr (.inr (.inr ⟨f.toList, _, hd, tl ++ nxt :: r, hfa, ?_, fun _ => (startKind_facts h2).2.2⟩))
            simp [h1]
        · simp only [tPostfix]
          split
          · exact argLike_open ops _ _
          · rename_i hoc
            obtain ⟨hd, tl, h1, _⟩ := atomToks_first hfa
            have := qt_argLike he hs ops a0
              { inner (postfixOC o opr) o with priority := (bindingPriorities opr).1, right := some opr } hw.1 hn.1
              (by simpa [inner, hoc] using hl) (by simpa [inner, hoc] using ho) (fun _ _ _ => rfl) hd (tl ++ nxt :: r)
            simpa [h1] using this
      · simp only [List.append_assoc, List.cons_append, List.singleton_append, List.nil_append]
        exact .inr (.inr (.inr ⟨f.toList, _, openTok false, _, hfa, rfl, fun _ => rfl⟩))
  | .app f (.cons a0 (.cons a1 .nil)), o, hw, hn, hl, ho, _, nxt, r => by
    simp only [wfTerm, wfArgs, Bool.and_eq_true] at hw
    simp only [numsOK, numsOKArgs, Bool.and_eq_true] at hn
    have hfa := atomToks_atomTokens e G P he f
    simp only [qt, qtC]
    split
    · obtain ⟨hd, tl, h1, h2, _⟩ := qt_first e G P he hs a0 (o999 o) hw.1 hn.1
      refine .inr (.inl ⟨hd, tl ++ qtL e G a1 (o999 o) ++ [⟨.closeList, [']']⟩] ++ nxt :: r, ?_, (startKind_facts h2).2.1⟩)
      simp [h1, openListTok]
    · split
      · rename_i opr _
        simp only [tInfix]
        split
        · exact argLike_open ops _ _
        · rename_i hoc
          obtain ⟨hd, tl, h1⟩ := opToks_ne_nil e G P he f
          have := qt_argLike he hs ops a0
            { inner (infixOC o opr) o with priority := (bindingPriorities opr).1, right := some opr } hw.1 hn.1
            (by simpa [inner, hoc] using hl) (by simpa [inner, hoc] using ho) (fun _ _ _ => rfl) hd
            (tl ++ qt e G a1 { inner (infixOC o opr) o with priority := (bindingPriorities opr).2, left := some opr } ++ nxt :: r)
          simpa [h1] using this
      · simp only [List.append_assoc, List.cons_append, List.singleton_append, List.nil_append]
        exact .inr (.inr (.inr ⟨f.toList, _, openTok false, _, hfa, rfl, fun _ => rfl⟩))
  | .app f (.cons a0 (.cons a1 (.cons a2 rest))), o, hw, hn, hl, ho, _, nxt, r => by
    have hfa := atomToks_atomTokens e G P he f
    simp only [qt, qtC, List.append_assoc, List.cons_append, List.singleton_append, List.nil_append]
    exact .inr (.inr (.inr ⟨f.toList, _, openTok false, _, hfa, rfl, fun _ => rfl⟩))

end

end PrologVerif.Write
