/-
  Proofs/SharedView — the simulation behind `C14_view_as_alone`: the operations one client performs
  inside an arbitrary interleaving, replayed ALONE from the same initial state, give the same
  results up to an injective renaming of table-atom ids and a strictly monotone renaming of
  variable numbers.
-/
import PrologVerif.Proofs.Shared
namespace PrologVerif.Shared

/-- concurrent id ↦ solo id: through the NAME, read off the two final tables -/
def mkRho (σf τf : State) (a : Nat) : Nat :=
  if a < base then a else
  match σf.names[a - base]? with
  | none => a
  | some s =>
    match τf.atoms.lookup s with
    | none => a
    | some b => b

/-- concurrent variable ↦ solo variable: its rank among the client's variables -/
def mkMu (c0 : Nat) (V : List Nat) (v : Nat) : Nat := c0 + 1 + V.countP (· < v)

/-- `a` is an atom both runs can talk about: a rune, or a table atom whose name the solo table has -/
def Known (σ τ : State) (a : Nat) : Prop :=
  a < base ∨ ∃ s b, σ.names[a - base]? = some s ∧ τ.atoms.lookup s = some b

theorem lookup_stable {τ τ' : State} (hle : Le τ τ') (hi : TableInv τ) (hi' : TableInv τ')
    {s : String} {b : Nat} (h : τ.atoms.lookup s = some b) : τ'.atoms.lookup s = some b := by
  obtain ⟨i, rfl, hn⟩ := (hi.atoms_names s b).mp h
  exact (hi'.atoms_names s _).mpr ⟨i, rfl, prefix_getElem? hle.1 hn⟩

theorem Known.stable {σ τ σ' τ' : State} {a : Nat} (h : Known σ τ a) (hσ : Le σ σ') (hτ : Le τ τ')
    (hi : TableInv τ) (hi' : TableInv τ') : Known σ' τ' a := by
  rcases h with h | ⟨s, b, h1, h2⟩
  · exact Or.inl h
  · exact Or.inr ⟨s, b, prefix_getElem? hσ.1 h1, lookup_stable hτ hi hi' h2⟩

theorem mkRho_rune (σf τf : State) {a : Nat} (h : a < base) : mkRho σf τf a = a := by
  simp [mkRho, h]

theorem mkRho_table {σf τf : State} {a : Nat} {s : String} {b : Nat} (ha : ¬ a < base)
    (h1 : σf.names[a - base]? = some s) (h2 : τf.atoms.lookup s = some b) : mkRho σf τf a = b := by
  simp [mkRho, ha, h1, h2]

/-- `ρ` is injective on known atoms -/
theorem mkRho_inj {σf τf : State} (hσ : TableInv σf) (hτ : TableInv τf) {a b : Nat}
    (ha : Known σf τf a) (hb : Known σf τf b) (h : mkRho σf τf a = mkRho σf τf b) : a = b := by
  rcases ha with ha | ⟨s, a', ha1, ha2⟩ <;> rcases hb with hb | ⟨t, b', hb1, hb2⟩
  · rwa [mkRho_rune _ _ ha, mkRho_rune _ _ hb] at h
  · by_cases hb0 : b < base
    · rwa [mkRho_rune _ _ ha, mkRho_rune _ _ hb0] at h
    · rw [mkRho_rune _ _ ha, mkRho_table hb0 hb1 hb2] at h
      obtain ⟨i, rfl, _⟩ := (hτ.atoms_names t b').mp hb2
      omega
  · by_cases ha0 : a < base
    · rwa [mkRho_rune _ _ ha0, mkRho_rune _ _ hb] at h
    · rw [mkRho_rune _ _ hb, mkRho_table ha0 ha1 ha2] at h
      obtain ⟨i, rfl, _⟩ := (hτ.atoms_names s a').mp ha2
      omega
  · by_cases ha0 : a < base
    · by_cases hb0 : b < base
      · rwa [mkRho_rune _ _ ha0, mkRho_rune _ _ hb0] at h
      · rw [mkRho_rune _ _ ha0, mkRho_table hb0 hb1 hb2] at h
        obtain ⟨i, rfl, _⟩ := (hτ.atoms_names t b').mp hb2
        omega
    · by_cases hb0 : b < base
      · rw [mkRho_rune _ _ hb0, mkRho_table ha0 ha1 ha2] at h
        obtain ⟨i, rfl, _⟩ := (hτ.atoms_names s a').mp ha2
        omega
      · rw [mkRho_table ha0 ha1 ha2, mkRho_table hb0 hb1 hb2] at h
        subst h
        obtain ⟨i, hi, hn⟩ := (hτ.atoms_names s a').mp ha2
        obtain ⟨j, hj, hm⟩ := (hτ.atoms_names t a').mp hb2
        have hij : i = j := by omega
        subst hij
        rw [hn] at hm
        simp only [Option.some.injEq] at hm
        subst hm
        have := hσ.uniq _ _ _ ha1 hb1
        omega

/-- `ρ` preserves names on known atoms -/
theorem mkRho_name {σf τf : State} (hτ : TableInv τf) {a : Nat} (ha : Known σf τf a) :
    atomName τf (mkRho σf τf a) = atomName σf a := by
  by_cases ha0 : a < base
  · rw [mkRho_rune _ _ ha0]; simp [atomName, ha0]
  · rcases ha with ha | ⟨s, b, h1, h2⟩
    · exact absurd ha ha0
    · rw [mkRho_table ha0 h1 h2]
      obtain ⟨i, rfl, hn⟩ := (hτ.atoms_names s b).mp h2
      have : ¬ i + base < base := by omega
      simp [atomName, ha0, this, h1, hn]

theorem countP_lt_strict {v w : Nat} (hvw : v < w) : ∀ V : List Nat, v ∈ V →
    V.countP (· < v) < V.countP (· < w) := by
  intro V
  induction V with
  | nil => intro h; simp at h
  | cons x V ih =>
    intro hv
    have hmono : V.countP (· < v) ≤ V.countP (· < w) :=
      List.countP_mono_left (fun y _ hy => by simp only [decide_eq_true_eq] at *; omega)
    simp only [List.countP_cons]
    rcases List.mem_cons.mp hv with rfl | hv
    · have h1 : ¬ v < v := Nat.lt_irrefl v
      simp only [h1, decide_false, hvw, decide_true]
      simp
      omega
    · have := ih hv
      by_cases hx : x < v
      · have hxw : x < w := by omega
        simp only [hx, hxw, decide_true, if_true]
        omega
      · simp only [hx, decide_false]
        by_cases hxw : x < w
        · simp [hxw]; omega
        · simp [hxw]; omega

/-- the rank of a variable that sits between a smaller prefix and a larger suffix -/
theorem mkMu_mid (c0 : Nat) (P F : List Nat) (v : Nat) (hP : ∀ x ∈ P, x < v) (hF : ∀ x ∈ F, v < x) :
    mkMu c0 (P ++ v :: F) v = c0 + 1 + P.length := by
  unfold mkMu
  rw [List.countP_append, List.countP_cons]
  have h1 : P.countP (· < v) = P.length := by
    rw [List.countP_eq_length]; intro x hx; simpa using hP x hx
  have h2 : F.countP (· < v) = 0 := by
    rw [List.countP_eq_zero]; intro x hx; have := hF x hx; simp; omega
  simp [h1, h2]

/-- renaming the atom arguments of `atomName` operations does not change what a schedule does to
    the state -/
theorem final_soloSched (ρ ρ' : Nat → Nat) (c : Nat) (h : List Event) :
    ∀ τ, final τ (soloSched ρ c h) = final τ (soloSched ρ' c h) := by
  induction h with
  | nil => intro τ; rfl
  | cons e h ih =>
    intro τ
    simp only [soloSched, List.map_cons, final] at *
    cases e.op <;> simp only [renOp, step] <;> exact ih _

theorem view_cons (c : Nat) (e : Event) (h : List Event) :
    view c (e :: h) = if e.client = c then e :: view c h else view c h := by
  simp [view, List.filter_cons]

theorem newAtom_ge_base {σ : State} (hi : TableInv σ) {s : String} (hr : oneRune s = none) :
    ¬ (newAtom σ s).2 < base ∧ (newAtom σ s).1.names[(newAtom σ s).2 - base]? = some s ∧
      (newAtom σ s).1.atoms.lookup s = some (newAtom σ s).2 := by
  have hname := newAtom_name hi s
  have hid := newAtom_idOf σ s
  simp only [idOf, hr] at hid
  obtain ⟨i, hi', _⟩ := ((newAtom_inv hi s).atoms_names s _).mp hid
  have hge : ¬ (newAtom σ s).2 < base := by omega
  simp only [atomName, hge, if_false] at hname
  exact ⟨hge, hname, hid⟩

/-- **the simulation** (generalised over the current pair of states) -/
theorem sim (c : Nat) (σf τf : State) (hτf : TableInv τf)
    (c0 : Nat) (V : List Nat) (n0 : Nat) :
    ∀ (sched : Schedule) (σ τ : State) (known Vpast : List Nat),
      TableInv σ → TableInv τ →
      Le (final σ sched) σf →
      Le (final τ (soloSched id c (view c (exec σ sched)))) τf →
      (∀ a, (a < base + n0 ∨ a ∈ known) → Known σ τ a) →
      learnedOnly n0 known (view c (exec σ sched)) = true →
      V = Vpast ++ varsOf (view c (exec σ sched)) →
      τ.counter = c0 + Vpast.length →
      (∀ v ∈ Vpast, v ≤ σ.counter) →
      exec τ (soloSched (mkRho σf τf) c (view c (exec σ sched))) =
          (view c (exec σ sched)).map (renEvent (mkRho σf τf) (mkMu c0 V)) ∧
        ∀ a ∈ atomsOf (view c (exec σ sched)), Known σf τf a := by
  intro sched
  induction sched with
  | nil =>
    intro σ τ known Vpast _ _ _ _ _ _ _ _ _
    simp [exec, view, soloSched, atomsOf]
  | cons x rest ih =>
    intro σ τ known Vpast hσ hτ hleσ hleτ hknown hwf hV hcnt hpast
    obtain ⟨d, o⟩ := x
    have hσ' := step_inv hσ o
    have hstepσ := step_le σ o
    by_cases hd : d = c
    · -- a step of the observed client: both runs move
      subst hd
      simp only [exec, view_cons, if_true] at hleτ hwf hV ⊢
      simp only [soloSched, List.map_cons, final, exec] at hleτ ⊢
      have hrest_le : Le (step σ o).1 σf := (final_le rest _).trans hleσ
      cases o with
      | newAtom s =>
        simp only [renOp, step] at hleτ hwf hV ⊢
        simp only [learnedOnly] at hwf
        simp only [varsOf] at hV
        have hτ' := newAtom_inv hτ s
        have hleτ' : Le (newAtom τ s).1 τf := (final_le _ _).trans hleτ
        -- the two results are related by ρ
        have hres : mkRho σf τf (newAtom σ s).2 = (newAtom τ s).2 ∧ Known σf τf (newAtom σ s).2 := by
          cases hr : oneRune s with
          | some r =>
            have e1 : (newAtom σ s).2 = r := by simp [newAtom, hr]
            have e2 : (newAtom τ s).2 = r := by simp [newAtom, hr]
            rw [e1, e2]
            exact ⟨mkRho_rune _ _ (oneRune_lt_base hr), Or.inl (oneRune_lt_base hr)⟩
          | none =>
            obtain ⟨hge, hn, _⟩ := newAtom_ge_base hσ hr
            obtain ⟨_, _, hl⟩ := newAtom_ge_base hτ hr
            have hn' := prefix_getElem? hrest_le.1 hn
            have hl' := lookup_stable hleτ' hτ' hτf hl
            exact ⟨mkRho_table hge hn' hl', Or.inr ⟨s, _, hn', hl'⟩⟩
        have hknown' : ∀ a, (a < base + n0 ∨ a ∈ (newAtom σ s).2 :: known) → Known (newAtom σ s).1 (newAtom τ s).1 a := by
          intro a ha
          rcases ha with ha | ha
          · exact (hknown a (Or.inl ha)).stable hstepσ (newAtom_le τ s) hτ hτ'
          · rcases List.mem_cons.mp ha with rfl | ha
            · cases hr : oneRune s with
              | some r =>
                have e1 : (newAtom σ s).2 = r := by simp [newAtom, hr]
                rw [e1]; exact Or.inl (oneRune_lt_base hr)
              | none =>
                obtain ⟨_, hn, _⟩ := newAtom_ge_base hσ hr
                obtain ⟨_, _, hl⟩ := newAtom_ge_base hτ hr
                exact Or.inr ⟨s, _, hn, hl⟩
            · exact (hknown a (Or.inr ha)).stable hstepσ (newAtom_le τ s) hτ hτ'
        obtain ⟨ih1, ih2⟩ := ih (newAtom σ s).1 (newAtom τ s).1 ((newAtom σ s).2 :: known) Vpast hσ' hτ'
          hleσ hleτ hknown' hwf hV (by rw [newAtom_counter]; exact hcnt)
          (fun v hv => Nat.le_trans (hpast v hv) hstepσ.2)
        refine ⟨?_, ?_⟩
        · simp only [renEvent, renOp, renRes, hres.1]
          exact congrArg _ ih1
        · intro a ha
          simp only [atomsOf, List.nil_append, List.cons_append, List.mem_cons] at ha
          rcases ha with rfl | ha
          · exact hres.2
          · exact ih2 a ha
      | atomName a =>
        simp only [renOp, step] at hleτ hwf hV ⊢
        simp only [learnedOnly, Bool.and_eq_true, Bool.or_eq_true, decide_eq_true_eq,
          List.contains_iff_mem] at hwf
        simp only [varsOf] at hV
        have hka : Known σ τ a := hknown a hwf.1
        have hkaf : Known σf τf a := hka.stable ((step_le σ (.atomName a)).trans hrest_le)
          ((final_le _ _).trans hleτ) hτ hτf
        -- same answer
        have hres : atomName τ (mkRho σf τf a) = atomName σ a := by
          by_cases ha0 : a < base
          · rw [mkRho_rune _ _ ha0]; simp [atomName, ha0]
          · rcases hka with hka | ⟨s, b, h1, h2⟩
            · exact absurd hka ha0
            · have h1' := prefix_getElem? ((step_le σ (.atomName a)).trans hrest_le).1 h1
              have h2' := lookup_stable ((final_le _ _).trans hleτ) hτ hτf h2
              rw [mkRho_table ha0 h1' h2']
              obtain ⟨i, rfl, hn⟩ := (hτ.atoms_names s b).mp h2
              have : ¬ i + base < base := by omega
              simp [atomName, ha0, this, h1, hn]
        obtain ⟨ih1, ih2⟩ := ih σ τ known Vpast hσ hτ hleσ hleτ hknown hwf.2 hV hcnt hpast
        refine ⟨?_, ?_⟩
        · simp only [renEvent, renOp, renRes, hres]
          exact congrArg _ ih1
        · intro b hb
          simp only [atomsOf, List.cons_append, List.nil_append, List.append_nil, List.mem_cons] at hb
          rcases hb with rfl | hb
          · exact hkaf
          · exact ih2 b hb
      | newVar =>
        simp only [renOp, step, newVar] at hleτ hwf hV ⊢
        simp only [learnedOnly] at hwf
        simp only [varsOf] at hV
        -- the rank of the new variable among the client's variables is the number of earlier ones
        have hfut : ∀ w ∈ varsOf (view d (exec { σ with counter := σ.counter + 1 } rest)), σ.counter + 1 < w := by
          intro w hw
          have hsub := varsOf_filter_sublist (fun e => decide (e.client = d)) (exec { σ with counter := σ.counter + 1 } rest)
          exact (varsOf_exec rest _).1 w (hsub.subset hw)
        have hmu : mkMu c0 V (σ.counter + 1) = τ.counter + 1 := by
          rw [hV, mkMu_mid c0 Vpast _ _ (fun x hx => by have := hpast x hx; omega) hfut, hcnt]
          omega
        have hknown' : ∀ a, (a < base + n0 ∨ a ∈ known) →
            Known { σ with counter := σ.counter + 1 } { τ with counter := τ.counter + 1 } a := by
          intro a ha
          rcases hknown a ha with h | ⟨s, b, h1, h2⟩
          · exact Or.inl h
          · exact Or.inr ⟨s, b, h1, h2⟩
        obtain ⟨ih1, ih2⟩ := ih { σ with counter := σ.counter + 1 } { τ with counter := τ.counter + 1 }
          known (Vpast ++ [σ.counter + 1]) ⟨hσ.uniq, hσ.atoms_names⟩ ⟨hτ.uniq, hτ.atoms_names⟩
          hleσ hleτ hknown' hwf (by rw [hV]; simp) (by simp; omega)
          (fun v hv => by
            rcases List.mem_append.mp hv with hv | hv
            · have := hpast v hv; simp only; omega
            · simp at hv; simp only; omega)
        refine ⟨?_, ?_⟩
        · simp only [renEvent, renOp, renRes, hmu]
          exact congrArg _ ih1
        · intro b hb
          simp only [atomsOf, List.nil_append] at hb
          exact ih2 b hb
    · -- a step of another client: only the shared state moves
      simp only [exec, view_cons, hd, if_false] at hleτ hwf hV ⊢
      simp only [final] at hleσ
      exact ih (step σ o).1 τ known Vpast hσ' hτ hleσ hleτ
        (fun a ha => (hknown a ha).stable hstepσ (Le.refl τ) hτ hτ) hwf hV hcnt
        (fun v hv => Nat.le_trans (hpast v hv) hstepσ.2)

end PrologVerif.Shared
