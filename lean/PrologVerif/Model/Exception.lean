/-
  Model of engine/exception.go: the error constructors, over the REGENERATED vocabulary tables
  (Generated/ErrorAtoms.lean), and of the error values a predicate can hand to the trampoline:
  an `Exception` (a Prolog term) or any other Go `error` — in particular promise.go
  `panicError(r) = fmt.Errorf("panic: %v", r)`, the residue of a recovered Go panic.

  The typed wrappers (`typeError(validType, …)` …) index a Go array with an enum constant; the
  index is a `Fin` of the table's length here (the extractor fails if a table has a hole, so every
  enum value has an entry).
-/
import PrologVerif.Model.Errors
import PrologVerif.Generated.ErrorAtoms
namespace PrologVerif.Exception
open PrologVerif PrologVerif.Generated

/-- a Go `error` value as the engine's control code sees it -/
inductive GoErr
  | exception (t : Term)        -- `Exception{term}`
  | other (msg : String)        -- any other error; `msg` = `err.Error()`
  deriving DecidableEq

def errorTerm (formal ctx : Term) : Term := .a2 "error" formal ctx

/-- exported constructors (arbitrary terms for every argument) -/
def InstantiationError (ctx : Term) : Term := errorTerm (.atom "instantiation_error") ctx
def TypeError (typ culprit ctx : Term) : Term := errorTerm (.a2 "type_error" typ culprit) ctx
def DomainError (dom culprit ctx : Term) : Term := errorTerm (.a2 "domain_error" dom culprit) ctx
def ExistenceError (obj culprit ctx : Term) : Term := errorTerm (.a2 "existence_error" obj culprit) ctx
def PermissionError (op ty culprit ctx : Term) : Term := errorTerm (.a3 "permission_error" op ty culprit) ctx
def RepresentationError (limit ctx : Term) : Term := errorTerm (.a1 "representation_error" limit) ctx
def ResourceError (res ctx : Term) : Term := errorTerm (.a1 "resource_error" res) ctx
def SyntaxError (e ctx : Term) : Term := errorTerm (.a1 "syntax_error" e) ctx
def EvaluationError (e ctx : Term) : Term := errorTerm (.a1 "evaluation_error" e) ctx

/-- `x.Term()` of an enum value: the table entry -/
def tbl (t : List String) (i : Fin t.length) : Term := .atom (t.get i)

/-- the typed wrappers the engine itself uses -/
def typeError (i : Fin ErrorAtoms.validTypeAtoms.length) (culprit ctx : Term) : Term :=
  TypeError (tbl _ i) culprit ctx
def domainError (i : Fin ErrorAtoms.validDomainAtoms.length) (culprit ctx : Term) : Term :=
  DomainError (tbl _ i) culprit ctx
def existenceError (i : Fin ErrorAtoms.objectTypeAtoms.length) (culprit ctx : Term) : Term :=
  ExistenceError (tbl _ i) culprit ctx
def permissionError (o : Fin ErrorAtoms.operationAtoms.length) (p : Fin ErrorAtoms.permissionTypeAtoms.length)
    (culprit ctx : Term) : Term :=
  PermissionError (tbl _ o) (tbl _ p) culprit ctx
def representationError (i : Fin ErrorAtoms.flagAtoms.length) (ctx : Term) : Term :=
  RepresentationError (tbl _ i) ctx
def resourceError (i : Fin ErrorAtoms.resourceAtoms.length) (ctx : Term) : Term :=
  ResourceError (tbl _ i) ctx
def evaluationError (i : Fin ErrorAtoms.exceptionalValueAtoms.length) (ctx : Term) : Term :=
  EvaluationError (tbl _ i) ctx
/-- `syntaxError(err)`: the message of a Go error as an atom -/
def syntaxError (msg : String) (ctx : Term) : Term := SyntaxError (.atom msg) ctx

/-- promise.go `panicError` (`%v` of the recovered value is `r`) -/
def panicError (r : String) : GoErr := .other ("panic: " ++ r)

/-- builtin.go `Catch`: what catch/3 unifies the catcher with -/
def catchTerm : GoErr → Term
  | .exception t => t
  | .other msg => errorTerm (.atom "system_error") (.atom msg)

end PrologVerif.Exception
