/-
  Which kinds of token each lexer function can deliver.
-/
import PrologVerif.Model.Lexer
set_option linter.unusedSimpArgs false
set_option linter.unusedVariables false
namespace PrologVerif.Lexer

/-- the token kinds a result can have -/
def KindIn (ks : List Kind) (r : Res) : Prop := ∀ t l', r = .ok (t, l') → t.kind ∈ ks

theorem KindIn.mono {ks ks' : List Kind} {r : Res} (h : KindIn ks r) (hs : ∀ k ∈ ks, k ∈ ks') : KindIn ks' r :=
  fun t l' e => hs _ (h t l' e)

theorem KindIn.error (ks : List Kind) (e : Err) : KindIn ks (.error e) := by
  intro t l' h; cases h

theorem KindIn.emit (ks : List Kind) (k : Kind) (l : Lexer) (h : k ∈ ks) : KindIn ks (emit k l) := by
  intro t l' e; simp only [Lexer.emit, Except.ok.injEq, Prod.mk.injEq] at e; rw [← e.1]; exact h

variable (cfg : Cfg)

theorem variableToken_kind (fuel : Nat) (l : Lexer) : KindIn [.variable] (variableToken cfg fuel l) := by
  induction fuel generalizing l with
  | zero => exact KindIn.error _ _
  | succ fuel ih =>
    simp only [variableToken]
    split
    · exact KindIn.emit _ _ _ (by simp)
    · split
      · exact ih _
      · exact KindIn.emit _ _ _ (by simp)

theorem digitLoop_kind (isDigit : Char → Bool) (k : Kind) (fuel : Nat) (l : Lexer) :
    KindIn [k] (digitLoop cfg isDigit k fuel l) := by
  induction fuel generalizing l with
  | zero => exact KindIn.error _ _
  | succ fuel ih =>
    simp only [digitLoop]
    split
    · exact KindIn.emit _ _ _ (by simp)
    · split
      · exact ih _
      · exact KindIn.emit _ _ _ (by simp)

theorem fraction_kind (fuel : Nat) (l : Lexer) : KindIn [.floatNumber] (fraction cfg fuel l) := by
  induction fuel generalizing l with
  | zero => exact KindIn.error _ _
  | succ fuel ih =>
    simp only [fraction]
    repeat' split
    all_goals first
      | exact ih _
      | exact KindIn.emit _ _ _ (by simp)
      | exact digitLoop_kind cfg _ _ _ _

theorem integerConstant_kind (fuel : Nat) (l : Lexer) :
    KindIn [.integer, .floatNumber] (integerConstant cfg fuel l) := by
  induction fuel generalizing l with
  | zero => exact KindIn.error _ _
  | succ fuel ih =>
    simp only [integerConstant]
    repeat' split
    all_goals first
      | exact ih _
      | exact KindIn.emit _ _ _ (by simp)
      | exact (fraction_kind cfg _ _).mono (by simp)

theorem escThen_kind (ks : List Kind) (r : EscRes) (f g : Lexer → Res)
    (hf : ∀ l, KindIn ks (f l)) (hg : ∀ l, KindIn ks (g l)) : KindIn ks (escThen r f g) := by
  unfold escThen
  split
  · exact KindIn.error _ _
  · exact hf _
  · exact hg _

theorem characterCodeConstant_kind (fuel : Nat) (l : Lexer) :
    KindIn [.integer, .invalid] (characterCodeConstant cfg fuel l) := by
  simp only [characterCodeConstant]
  repeat' split
  all_goals first
    | exact KindIn.error _ _
    | exact KindIn.emit _ _ _ (by simp)
    | exact escThen_kind _ _ _ _ (fun l => KindIn.emit _ _ _ (by simp)) (fun l => KindIn.emit _ _ _ (by simp))

theorem integerTokenCharacterCode_kind (fuel : Nat) (q : Char) (l : Lexer) :
    KindIn [.integer, .invalid] (integerTokenCharacterCode cfg fuel q l) := by
  simp only [integerTokenCharacterCode]
  repeat' split
  all_goals first
    | exact KindIn.emit _ _ _ (by simp)
    | exact characterCodeConstant_kind cfg _ _

theorem integerTokenRadix_kind (isDigit : Char → Bool) (fuel : Nat) (p : Char) (l : Lexer) :
    KindIn [.integer] (integerTokenRadix cfg isDigit fuel p l) := by
  simp only [integerTokenRadix]
  repeat' split
  all_goals first
    | exact KindIn.emit _ _ _ (by simp)
    | exact digitLoop_kind cfg _ _ _ _

theorem integerToken_kind (fuel : Nat) (first : Char) (l : Lexer) :
    KindIn [.integer, .floatNumber, .invalid] (integerToken cfg fuel first l) := by
  simp only [integerToken]
  repeat' split
  all_goals first
    | exact (integerConstant_kind cfg _ _).mono (by simp)
    | exact (integerTokenCharacterCode_kind cfg _ _ _).mono (by simp)
    | exact (integerTokenRadix_kind cfg _ _ _ _).mono (by simp)

theorem doubleQuotedListToken_kind (fuel : Nat) (l : Lexer) :
    KindIn [.doubleQuotedList, .invalid] (doubleQuotedListToken cfg fuel l) := by
  induction fuel generalizing l with
  | zero => exact KindIn.error _ _
  | succ fuel ih =>
    simp only [doubleQuotedListToken]
    repeat' split
    all_goals first
      | exact ih _
      | exact KindIn.error _ _
      | exact KindIn.emit _ _ _ (by simp)
      | exact escThen_kind _ _ _ _ (fun l => KindIn.emit _ _ _ (by simp)) (fun l => ih l)

theorem letterDigitToken_kind (fuel : Nat) (l : Lexer) : KindIn [.letterDigit] (letterDigitToken cfg fuel l) := by
  induction fuel generalizing l with
  | zero => exact KindIn.error _ _
  | succ fuel ih =>
    simp only [letterDigitToken]
    repeat' split
    all_goals first
      | exact ih _
      | exact KindIn.emit _ _ _ (by simp)

theorem graphicToken_kind (fuel : Nat) (l : Lexer) : KindIn [.graphic] (graphicToken cfg fuel l) := by
  induction fuel generalizing l with
  | zero => exact KindIn.error _ _
  | succ fuel ih =>
    simp only [graphicToken]
    repeat' split
    all_goals first
      | exact ih _
      | exact KindIn.emit _ _ _ (by simp)

theorem finishQuoted_kind (l : Lexer) : KindIn [.quoted, .invalid] (finishQuoted l) := by
  unfold finishQuoted
  split <;> exact KindIn.emit _ _ _ (by simp)

theorem quotedToken_kind (fuel : Nat) (l : Lexer) : KindIn [.quoted, .invalid] (quotedToken cfg fuel l) := by
  induction fuel generalizing l with
  | zero => exact KindIn.error _ _
  | succ fuel ih =>
    simp only [quotedToken]
    repeat' split
    all_goals first
      | exact ih _
      | exact KindIn.error _ _
      | exact KindIn.emit _ _ _ (by simp)
      | exact finishQuoted_kind _
      | exact escThen_kind _ _ _ _ (fun l => KindIn.emit _ _ _ (by simp)) (fun l => ih l)

end PrologVerif.Lexer
