/-
  vm_well_scoped — non-vacuity: concrete configurations and queries that satisfy the hypotheses of
  the theorems of Proofs/VMScoped.lean (and of `force_dfsG` at the instance `VM.sem`).

  (`exec` & co. are not kernel-reducible — the execution core is compiled by well-founded recursion —
  so the runs below are computed with `simp` and the equation lemmas; the compiler is evaluated by
  the kernel.)
-/
import PrologVerif.Proofs.VMScoped
namespace PrologVerif.VMScoped
open PrologVerif PrologVerif.VM PrologVerif.Promise PrologVerif.DFSG

/-! ### Statement A / `vm_force_dfs`: a clause with two cuts (the second one finds the marker) -/

/-- `t :- !, !.` -/
def exClause : Clause := ⟨"t", 0, .atom "t", [], [.cut, .cut, .exit]⟩
/-- the promise `clausesCall` makes for a call of `t/0` with continuation `Success` -/
def exP : Pr := { id := 1, delayed := [Thunk.clause exClause [] .done [] 1] }
def exM : MS := { user := { nextId := 2 } }

theorem exConf : ConfOK [] exP exM :=
  ⟨⟨by simp [exP], by simp [exP, ThunkOK, thunkCont, ContOK, thunkParentOK, cutLive], by simp [exP]⟩,
    Or.inr (by simp), by simp, by decide, by decide⟩

theorem exRun : (dfsP (VM.sem 10) 0 10 exP [] exM).map (·.1) = some .found := by
  simp [dfsP, dfsAlts, exP, exM, exClause, VM.sem, evalThunk, exec, applyCont, freshVars, afterChild, push,
    tick, okP, absorb, afterCut]

/-- the hypotheses of `vm_well_scoped` / `vm_force_dfs` hold for it, and so the trampoline says "yes" -/
example : ∃ fuel m, force (VM.sem 10) none fuel [exP] exM = some (.yes, m) := by
  obtain ⟨⟨sig, m'⟩, h, hs⟩ := Option.map_eq_some_iff.1 exRun
  simp only at hs
  subst hs
  obtain ⟨cost, hf⟩ := ForceDFSG.force_dfsG_root (VM.sem 10) (ForceDFSG.semMono_VM 10) 0 10 exP exM m' _ h
    (vm_well_scoped 10 0 10 exP [] exM m' _ exConf h)
  exact ⟨1 + cost, m', hf 1 (Nat.zero_le _) Nat.one_pos⟩

/-! ### Statements B, C, D: the query `?- !.` on `bootState` -/

def exQ : Term := .atom "!"

theorem exCompile : ∃ c, compileCall exQ [] = .ok ([c], []) ∧ c.code = [.enter, .cut, .exit] ∧ c.vars = [] := by
  have h1 : (match compileCall exQ [] with
      | .ok (cs, fvs) => (cs.map (·.code), cs.map (·.vars), fvs.length)
      | _ => ([], [], 1)) = ([[.enter, .cut, .exit]], [[]], 0) := by decide +kernel
  generalize compileCall exQ [] = r at h1
  match r, h1 with
  | .ok ([c], []), h1 =>
    simp only [List.map_cons, List.map_nil, List.length_nil, Prod.mk.injEq, List.cons.injEq, and_true] at h1
    exact ⟨c, rfl, h1.1, h1.2⟩
  | .ok ([], _), h1 => simp at h1
  | .ok (_ :: _ :: _, _), h1 => simp at h1
  | .ok ([_], _ :: _), h1 => simp at h1
  | .error _, h1 => simp at h1

/-- the reference search of `?- !.` (one answer asked for) finds it, from any state with `nextId = 1` -/
theorem exGoalRun (S : St) (hn : S.nextId = 1) (kont : Cont) (hk : kont = .done ∨ kont = .collect exQ 1) :
    (dfsP (VM.sem 10) 0 10 (callGoal exQ kont [] { user := S }).1 []
      (callGoal exQ kont [] { user := S }).2).map (·.1) = some .found := by
  obtain ⟨c, hc, hcode, hvars⟩ := exCompile
  have hres : res [] exQ = exQ := by decide +kernel
  unfold callGoal
  rw [hres]
  simp only [exQ] at hc ⊢
  simp only [hc]
  rcases hk with rfl | rfl <;>
  simp [clausesCall, freshId, hn, dfsP, dfsAlts, VM.sem, evalThunk, exec, applyCont, freshVars, afterChild, push,
    tick, okP, absorb, afterCut, hcode, hvars]

theorem exQueryRun : (dfsP (VM.sem 10) 0 10 (queryPromise [] exQ 1 none).1 []
    (queryPromise [] exQ 1 none).2).map (·.1) = some .found :=
  exGoalRun _ (initState_nextId [] none) _ (Or.inr rfl)

/-- the hypothesis of `vm_run_well_scoped` and `vm_runQuery_dfs` is satisfiable … -/
example : ∃ sig m', dfsP (VM.sem 10) 0 10 (queryPromise [] exQ 1 none).1 []
    (queryPromise [] exQ 1 none).2 = some (sig, m') := by
  obtain ⟨⟨sig, m'⟩, h, _⟩ := Option.map_eq_some_iff.1 exQueryRun
  exact ⟨sig, m', h⟩

/-- … and what `vm_runQuery_dfs` then says: `runQuery` answers "true, and there may be more" -/
example : ∃ cost answers, cost < 10 → runQuery 10 [] exQ 1 = some (answers, .more) := by
  obtain ⟨⟨sig, m'⟩, h, hs⟩ := Option.map_eq_some_iff.1 exQueryRun
  simp only at hs
  subst hs
  obtain ⟨cost, hc⟩ := vm_runQuery_dfs 10 10 [] exQ 1 m' _ h
  exact ⟨cost, _, hc⟩

/-- the hypotheses of `vm_nested_well_scoped` (the promise `\+ !` forces) are satisfiable -/
example : ∃ sig m', ContOK [] Cont.done ∧ 0 < ({ user := {} } : MS).user.nextId ∧
    dfsP (VM.sem 10) 0 10 (callGoal exQ .done [] { user := {} }).1 []
      (callGoal exQ .done [] { user := {} }).2 = some (sig, m') := by
  obtain ⟨⟨sig, m'⟩, h, _⟩ := Option.map_eq_some_iff.1 (exGoalRun {} rfl .done (Or.inl rfl))
  exact ⟨sig, m', trivial, Nat.one_pos, h⟩

end PrologVerif.VMScoped
