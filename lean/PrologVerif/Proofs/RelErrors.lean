/-
  C16 helper lemmas: the error behaviour of a builtin against the ISO table of Spec/Relations.
-/
import PrologVerif.Proofs.RelExact
import PrologVerif.Proofs.RelList
namespace PrologVerif.Rel
open PrologVerif PrologVerif.Relations

/-- The error behaviour of a call agrees with the ISO table:
    * an error that is raised is one the table allows for this call (`allowed`);
    * a call inside the modes (empty table) and inside the processor's limits is answered (`inMode`);
    * an insufficiently instantiated call raises an error instead of failing silently (`inst`). -/
structure ErrorsOk (pred : String) (args : List Term) (r : Result) : Prop where
  allowed : ∀ e, r = .error e → e ∈ modeErrors pred args ++ optionalErrors pred args
  inMode : modeErrors pred args = [] → optionalErrors pred args = [] → ∃ ans, r = .ok ans
  inst : instErr ∈ modeErrors pred args → ∃ e, r = .error e

theorem errorsOk_of {pred args r} (M O : List Term) (hM : modeErrors pred args = M)
    (hO : optionalErrors pred args = O)
    (h : (∀ e, r = .error e → e ∈ M ++ O) ∧ (M = [] → O = [] → ∃ ans, r = .ok ans) ∧
      (instErr ∈ M → ∃ e, r = .error e)) : ErrorsOk pred args r :=
  ⟨hM ▸ hO ▸ h.1, hM ▸ hO ▸ h.2.1, hM ▸ h.2.2⟩

theorem nlz_eq (n : Term) : notLessThanZero n = (checkPositiveInteger n).toList := by
  cases n <;> simp [notLessThanZero, checkPositiveInteger] <;> split <;> simp

theorem mustBeAtomOrVar_eq (t : Term) :
    mustBeAtomOrVar t = if isVarOrAtom t = false then [typeErr "atom" t] else [] := by
  cases t <;> simp [mustBeAtomOrVar, isVarOrAtom, isCallableAtomOrVar, isVar, isAtom]

theorem mustBeIntOrVar_eq (t : Term) :
    mustBeIntOrVar t = match t with | .var _ => [] | .int _ => [] | _ => [typeErr "integer" t] := by
  cases t <;> simp [mustBeIntOrVar, isVar, isInt]

@[simp] theorem instErr_ne_typeErr (s : String) (t : Term) : (instErr = typeErr s t) = False := by
  simp [instErr, typeErr, Term.a2]
@[simp] theorem instErr_ne_domainErr (s : String) (t : Term) : (instErr = domainErr s t) = False := by
  simp [instErr, domainErr, Term.a2]
@[simp] theorem instErr_ne_representationErr (s : String) : (instErr = representationErr s) = False := by
  simp [instErr, representationErr, Term.a1]
@[simp] theorem typeErr_ne_instErr (s : String) (t : Term) : (typeErr s t = instErr) = False := by
  simp [instErr, typeErr, Term.a2]
@[simp] theorem domainErr_ne_instErr (s : String) (t : Term) : (domainErr s t = instErr) = False := by
  simp [instErr, domainErr, Term.a2]
@[simp] theorem representationErr_ne_instErr (s : String) : (representationErr s = instErr) = False := by
  simp [instErr, representationErr, Term.a1]

theorem instErr_not_mem_cpi (n : Term) : instErr ∉ (checkPositiveInteger n).toList := by
  cases n <;> simp [checkPositiveInteger, eq_comm]

/-! ### list arguments and their elements -/

theorem listErrors_eq (b : Bool) (l : Term) : listErrors b l = (listErr b l l.spine.2).toList := by
  unfold listErrors listErr
  generalize l.spine.2 = tl
  cases tl <;> cases b <;> simp <;> split <;> simp

theorem charsStrict_error : {es : List Term} → {e : Term} → charsStrict es = .error e →
    e ∈ charElemErrors true es
  | [], e, h => by simp [charsStrict] at h
  | x :: es, e, h => by
    unfold charsStrict at h
    simp only [charElemErrors, List.flatMap_cons, List.mem_append]
    split at h
    · cases h; simp
    · rename_i s
      split at h
      · rename_i c hc
        split at h
        · cases h
        · rename_i e' he
          cases h
          exact Or.inr (charsStrict_error he)
      · rename_i hne
        cases h
        left
        have : ¬ s.toList.length = 1 := by
          intro hl
          match hs : s.toList with
          | [c] => exact hne c hs
          | [] => simp [hs] at hl
          | _ :: _ :: _ => simp [hs] at hl
        simp [this]
    · cases h
      left
      cases x <;> simp_all

theorem charsStrict_ok_errors : {es : List Term} → {cs : List Char} → charsStrict es = .ok cs →
    charElemErrors true es = [] := by
  intro es cs h
  rw [charsStrict_ok h]
  simp [charElemErrors, charAtom, mkAtom, String.toList_ofList]

theorem charsLax_some : {es : List Term} → {e : Term} → charsLax es = some e → e ∈ charElemErrors false es
  | [], e, h => by simp [charsLax] at h
  | x :: es, e, h => by
    unfold charsLax at h
    simp only [charElemErrors, List.flatMap_cons, List.mem_append]
    split at h
    · exact Or.inr (charsLax_some h)
    · split at h
      · exact Or.inr (charsLax_some h)
      · rename_i hl; cases h; left; simp [hl]
    · cases h; left; cases x <;> simp_all

theorem charsLax_none : {es : List Term} → charsLax es = none → charElemErrors false es = []
  | [], _ => by simp [charElemErrors]
  | x :: es, h => by
    unfold charsLax at h
    simp only [charElemErrors, List.flatMap_cons, List.append_eq_nil_iff]
    split at h
    · exact ⟨by simp, charsLax_none h⟩
    · split at h
      · rename_i hl; exact ⟨by simp [hl], charsLax_none h⟩
      · cases h
    · cases h

theorem instErr_not_mem_charElemErrors_lax (es : List Term) : instErr ∉ charElemErrors false es := by
  simp only [charElemErrors, List.mem_flatMap, not_exists, not_and]
  intro e _
  cases e <;> simp

theorem instErr_mem_listErrors {b : Bool} {l : Term} (h : instErr ∈ listErrors b l) :
    listErr b l l.spine.2 = some instErr := by
  rw [listErrors_eq] at h
  cases hl : listErr b l l.spine.2 with
  | none => simp [hl] at h
  | some e => simp [hl] at h; simp [h]

theorem instErr_not_mem_listErrors_true (l : Term) : instErr ∉ listErrors true l := by
  unfold listErrors
  split
  · simp
  · split <;> simp
  · simp

theorem isCharCode_iff (i : Int) : isCharCode i = true ↔ validRune i := by
  simp only [isCharCode, validRune, Bool.and_eq_true, decide_eq_true_eq]

theorem codesStrict_error : {es : List Term} → {e : Term} → codesStrict es = .error e →
    e ∈ codeElemErrors true es
  | [], e, h => by simp [codesStrict] at h
  | x :: es, e, h => by
    unfold codesStrict at h
    simp only [codeElemErrors, List.flatMap_cons, List.mem_append]
    split at h
    · cases h; simp
    · rename_i i
      split at h
      · split at h
        · cases h
        · rename_i e' he
          cases h
          exact Or.inr (codesStrict_error he)
      · rename_i hv
        cases h
        left
        have : isCharCode i = false := by
          cases hc : isCharCode i
          · rfl
          · exact absurd ((isCharCode_iff i).mp hc) hv
        simp [this]
    · cases h
      left
      cases x <;> simp_all

theorem codesStrict_ok_errors {es : List Term} {cs : List Char} (h : codesStrict es = .ok cs) :
    codeElemErrors true es = [] := by
  rw [codesStrict_ok h]
  simp only [codeElemErrors, List.flatMap_eq_nil_iff, List.mem_map, forall_exists_index, and_imp,
    forall_apply_eq_imp_iff₂]
  intro c _
  have : isCharCode (Int.ofNat c.toNat) = true := by
    rw [isCharCode_iff]
    refine ⟨Int.natCast_nonneg _, ?_⟩
    show (c.toNat).isValidChar
    exact c.valid
  simp only [Int.ofNat_eq_natCast] at this
  simp [this]

theorem codesLax_some : {es : List Term} → {e : Term} → codesLax es = some e → e ∈ codeElemErrors false es
  | [], e, h => by simp [codesLax] at h
  | x :: es, e, h => by
    unfold codesLax at h
    simp only [codeElemErrors, List.flatMap_cons, List.mem_append]
    split at h
    · exact Or.inr (codesLax_some h)
    · rename_i i
      split at h
      · exact Or.inr (codesLax_some h)
      · rename_i hv
        cases h; left
        have : isCharCode i = false := by
          cases hc : isCharCode i
          · rfl
          · exact absurd ((isCharCode_iff i).mp hc) hv
        simp [this]
    · cases h; left; cases x <;> simp_all

theorem codesLax_none : {es : List Term} → codesLax es = none → codeElemErrors false es = []
  | [], _ => by simp [codeElemErrors]
  | x :: es, h => by
    unfold codesLax at h
    simp only [codeElemErrors, List.flatMap_cons, List.append_eq_nil_iff]
    split at h
    · exact ⟨by simp, codesLax_none h⟩
    · split at h
      · rename_i hv; exact ⟨by simp [(isCharCode_iff _).mpr hv], codesLax_none h⟩
      · cases h
    · cases h

theorem instErr_not_mem_codeElemErrors_lax (es : List Term) : instErr ∉ codeElemErrors false es := by
  simp only [codeElemErrors, List.mem_flatMap, not_exists, not_and]
  intro e _
  cases e <;> simp

theorem length_one_iff {α} (l : List α) : l.length = 1 ↔ ∃ c, l = [c] := by
  cases l with
  | nil => simp
  | cons a t => cases t <;> simp

end PrologVerif.Rel
