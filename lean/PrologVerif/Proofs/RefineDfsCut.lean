/-
  Refine, part 11b — the search, continued: the cut (`cut_core`): everything created since the cut
  parent was called is discarded, the search goes on below the cut.
-/
import PrologVerif.Proofs.RefineDfs
import PrologVerif.Proofs.RefineCallSim
namespace PrologVerif.Refine
open PrologVerif PrologVerif.VM PrologVerif.DecompileCompile PrologVerif.Activation
  PrologVerif.RefineITree PrologVerif.RefineRobinson PrologVerif.VMScoped
  PrologVerif.Promise PrologVerif.DFSG PrologVerif.ForceDFSGConv

section
variable {fl : Bool} {mo : Option Nat} {tmpl : Term} {max : Nat} {prog : List Term} {F : Nat}

/-- below a cut parent the levels are at most its level -/
theorem lev_le_of_drop {lv : Lv} {d : Nat} (h : LvOK mo lv d) {cp l : Nat} (hcp : lv.lev cp = some l)
    {e : Nat × Option Nat} (he : e ∈ lv.dropWhile (fun e => e.1 ≠ cp)) {l' : Nat} (hl' : e.2 = some l') : l' ≤ l := by
  have hmcp := Lv.mem_of_lev hcp
  have hmono := h.mono
  have hnd := h.nodup
  clear hcp h
  induction lv with
  | nil => simp at hmcp
  | cons a lv ih =>
    by_cases ha : a.1 = cp
    · simp only [List.dropWhile, ha, ne_eq, not_true_eq_false, decide_false] at he
      have hacp : a = (cp, some l) := by
        rcases List.mem_cons.1 hmcp with h | h
        · exact h.symm
        · exfalso
          simp only [List.map_cons, List.nodup_cons] at hnd
          exact hnd.1 (ha ▸ List.mem_map_of_mem (f := Prod.fst) h)
      rcases List.mem_cons.1 he with h | h
      · rw [h, hacp] at hl'
        simp only [Option.some.injEq] at hl'
        omega
      · have := (List.pairwise_cons.1 hmono).1 e h l l' (by rw [hacp]) hl'
        omega
    · simp only [List.dropWhile, ha, ne_eq, not_false_eq_true, decide_true] at he
      have hmcp' : (cp, some l) ∈ lv := by
        rcases List.mem_cons.1 hmcp with h | h
        · exact absurd (by rw [← h]) ha
        · exact h
      simp only [List.map_cons, List.nodup_cons] at hnd
      exact ih he hmcp' (List.pairwise_cons.1 hmono).2 hnd.2

theorem afterCut_answers (l : Nat) (r : SLD.Res) : (SLD.afterCut l r).answers = r.answers := by
  unfold SLD.afterCut
  split <;> rfl

/-- **the cut**: the search below the promise of a cut is the search of the continuation of the
    cut on the path below the cut parent; the signal is then marked with the cut (`afterCut`) -/
theorem cut_core {k : Nat} (ihPall : ∀ j, j ≤ k → TPk fl mo tmpl max prog F j) (hprog : ∀ c ∈ prog, clauseS fl c = true)
    {pc : List Op} {vars : List Nat} {kk : Cont} {cp l : Nat} {env : Env} {R : List SLD.Frame} {q : Term}
    {nv n d : Nat} {r' : SLD.Res} {N : Nat} {σ : Subst} {π : Nat → Nat} {D : Nat → Prop} {G' : List (Term × Nat)}
    {lv : Lv} {m : MS} {sig : SigG Err} {m' : MS} {ans0 : List Term}
    (hd : dfsP (VM.sem F) 0 (k + 1) (cutPromise pc vars kk env cp) (lv.map Prod.fst) m = some (sig, m'))
    (hgood : GoodP fl F (k + 1) (cutPromise pc vars kk env cp) (lv.map Prod.fst) m)
    (hans : m.user.answers = ans0) (hlcp : lv.lev cp = some l)
    (hN : N ≤ m.user.nextVar) (hW : SimW tmpl N env σ π D nv) (hcg : ContGoals fl mo tmpl max (.exec pc vars cp kk) G')
    (hgr : GRel mo lv σ π D G' R) (hco : CutsOK lv G') (hq : q = img σ π tmpl)
    (hbnd : ∀ it ∈ G', isCut it → ∀ l', lv.lev it.2 = some l' → l' ≤ l)
    (hs : SLD.solve false (progS prog) n d nv R q (max - ans0.length) = some r')
    (hok : LvOK mo lv d) (hst : StOK prog m) (hlt : ans0.length < max) :
    sig = .illScoped ∨ ∃ sigB, sig = afterCut cp sigB ∧
      Match mo tmpl max prog (lv.dropWhile (fun e => e.1 ≠ cp)) ans0 m m' sigB r' := by
  have hmem : (lv.map Prod.fst).contains cp = true := by
    simpa using mem_ids_of_lev hlcp
  rw [cut' (t := .afterCut pc vars kk [] [] env cp) (ts := []) rfl (by simp [cutPromise]) rfl hmem] at hd
  have hf : afterChild ({ cutPromise pc vars kk env cp with cutParent := none }) = ({} : Pr) := by
    simp [afterChild, cutPromise]
  rw [hf] at hd
  simp only [Option.map_eq_some_iff] at hd
  obtain ⟨⟨sigA, mA⟩, hda, hpair⟩ := hd
  simp only [Prod.mk.injEq] at hpair
  obtain ⟨rfl, rfl⟩ := hpair
  -- the path below the cut
  let lv' : Lv := lv.dropWhile (fun e => e.1 ≠ cp)
  have hsub : lv'.Sublist lv := List.dropWhile_sublist _
  have hok' : LvOK mo lv' d := hok.drop cp
  have hlive' : lv'.map Prod.fst = (lv.map Prod.fst).dropWhile (· ≠ cp) := map_fst_dropWhile cp lv
  rw [← hlive'] at hda
  have hin : ∀ it ∈ G', isCut it → ∀ l', lv.lev it.2 = some l' → lv'.lev it.2 = some l' := by
    intro it hit hc l' hl'
    have := mem_drop_of_le hok hlcp hl' (hbnd it hit hc l' hl')
    exact Lv.lev_of_mem hok'.nodup this
  have hgr' : GRel mo lv' σ π D G' R := by
    refine hgr.imp ?_
    rintro it hit fr ⟨hg, l0, hfr, hl0⟩
    exact ⟨hg, l0, hfr, fun hc => hin it hit hc l0 (hl0 hc)⟩
  have hco' : CutsOK lv' G' := by
    refine ⟨fun it hit hc => ?_, ?_⟩
    · obtain ⟨l0, hl0⟩ := hco.1 it hit hc
      exact ⟨l0, hin it hit hc l0 hl0⟩
    · refine hco.2.imp ?_
      intro a b hab hca hcb la lb hla hlb
      exact hab hca hcb la lb (lev_of_sub hsub hok.nodup hla) (lev_of_sub hsub hok.nodup hlb)
  cases k with
  | zero => simp [dfsAlts] at hda
  | succ k0 =>
  have ihP0 : TPk fl mo tmpl max prog F k0 := ihPall k0 (Nat.le_succ k0)
  cases hev : evalThunk F (Thunk.afterCut pc vars kk [] [] env cp) (tick m) with
  | none => rw [dfsAlts_thunk_none (sem := VM.sem F) (by exact hev)] at hda; cases hda
  | some pr =>
    obtain ⟨q0, m1⟩ := pr
    have hcont : applyCont F (.exec pc vars cp kk) env (tick m) = some (q0, m1) := by
      cases F with
      | zero => simp [evalThunk] at hev
      | succ F' =>
        rw [continuation_resumes]
        rw [evalThunk] at hev
        exact hev
    subst hans
    have hgA : GoodA fl F (k0 + 1) (Thunk.afterCut pc vars kk [] [] env cp) ({} : Pr)
        (lv'.map Prod.fst) (tick m) := by
      intro x mx hx
      rw [← hf, hlive'] at hx
      exact hgood x mx (.cut (ts := []) rfl (by simp [cutPromise]) rfl hmem hx)
    obtain ⟨hspec, hst1, hnv1⟩ := cont_run tmpl max prog hprog F _ env (tick m) q0 m1 hcont
      (fun hfl => (hgA _ _ .here).fine hfl _ hev) lv' R q nv
      ⟨N, σ, π, D, G', hN, hW, hcg, hgr', hco', hq, trivial⟩ (stOK_tick hst) n d r' hs
    have hlv1 : lv'.map Prod.fst = push ({} : Pr).id (lv'.map Prod.fst) := by simp [push]
    rcases after_child ihP0 hda hgA (by exact hev) hlv1 hspec hok' hst1 hlt rfl with
      hill | ⟨m2, hm, hf2, _⟩ | ⟨sig1, m2, hm, hne, hresA⟩
    · subst hill
      exact Or.inl rfl
    · right
      cases k0 with
      | zero => simp [dfsP] at hf2
      | succ k' =>
        rw [leaf_ok' rfl rfl] at hf2
        simp only [Option.some.injEq, Prod.mk.injEq] at hf2
        obtain ⟨rfl, rfl⟩ := hf2
        rcases hm.stop with ⟨_, h2, h3⟩ | ⟨_, _, h1, _⟩ | ⟨h1, _⟩ | ⟨_, _, _, _, _, h1, _⟩
        · exact ⟨.exhausted none, rfl, hm.ans, Or.inl ⟨rfl, h2, h3⟩, hm.st, Nat.le_trans hnv1 hm.nvar⟩
        · cases h1
        · cases h1
        · cases h1
    · right
      rcases hm.stop with ⟨h1, _, _⟩ | ⟨c', l', h1, h2, h3, h4⟩ | ⟨h1, h2⟩ | ⟨F', c1, c2, ex, co, h1, h2⟩
      · exact absurd h1 hne
      · subst h1
        have hmem' := Lv.mem_of_lev h3
        have hc0 : c' ≠ 0 := hok'.nz _ hmem'
        rw [absorb_cut_ne m2 hc0] at hresA
        simp only [Prod.mk.injEq] at hresA
        obtain ⟨rfl, rfl⟩ := hresA
        exact ⟨_, rfl, hm.ans, Or.inr (Or.inl ⟨c', l', rfl, h2, h3, h4⟩), hm.st, Nat.le_trans hnv1 hm.nvar⟩
      · subst h1
        rw [absorb_found] at hresA
        simp only [Prod.mk.injEq] at hresA
        obtain ⟨rfl, rfl⟩ := hresA
        exact ⟨_, rfl, hm.ans, Or.inr (Or.inr (Or.inl ⟨rfl, h2⟩)), hm.st, Nat.le_trans hnv1 hm.nvar⟩
      · subst h1
        obtain ⟨co', hco''⟩ := absorb_raised 0 (.exc (errT F' c1)) co m2
        rw [hco''] at hresA
        simp only [Prod.mk.injEq] at hresA
        obtain ⟨rfl, rfl⟩ := hresA
        exact ⟨_, rfl, hm.ans, Or.inr (Or.inr (Or.inr ⟨F', c1, c2, ex, co', rfl, h2⟩)), hm.st,
          Nat.le_trans hnv1 hm.nvar⟩

/-- the signal and the reference's result after the cut -/
theorem match_afterCut {lv : Lv} {d cp l : Nat} {ans0 : List Term} {m m' : MS} {sigB : SigG Err} {r' : SLD.Res}
    (hok : LvOK mo lv d) (hlcp : lv.lev cp = some l)
    (hm : Match mo tmpl max prog (lv.dropWhile (fun e => e.1 ≠ cp)) ans0 m m' sigB r') :
    Match mo tmpl max prog lv ans0 m m' (afterCut cp sigB) (SLD.afterCut l r') := by
  have hsub : (lv.dropWhile (fun e => e.1 ≠ cp)).Sublist lv := List.dropWhile_sublist _
  rcases hm.stop with ⟨h1, h2, h3⟩ | ⟨c', l', h1, h2, h3, h4⟩ | ⟨h1, h2⟩ | ⟨F', c1, c2, ex, co, h1, h2⟩
  · subst h1
    refine ⟨by rw [afterCut_answers]; exact hm.ans, Or.inr (Or.inl ⟨cp, l, rfl, ?_, hlcp, h3⟩), hm.st, hm.nvar⟩
    simp [SLD.afterCut, h2]
  · subst h1
    have hmem' := Lv.mem_of_lev h3
    have hle : l' ≤ l := lev_le_of_drop hok hlcp hmem' rfl
    refine ⟨by rw [afterCut_answers]; exact hm.ans,
      Or.inr (Or.inl ⟨c', l', rfl, ?_, lev_of_sub hsub hok.nodup h3, h4⟩), hm.st, hm.nvar⟩
    simp [SLD.afterCut, h2, Nat.min_eq_left hle]
  · subst h1
    refine ⟨by rw [afterCut_answers]; exact hm.ans, Or.inr (Or.inr (Or.inl ⟨rfl, ?_⟩)), hm.st, hm.nvar⟩
    cases mo with
    | none =>
      have h2' : r'.stop = .full := h2
      simp [SLD.afterCut, h2', foundStop]
    | some dN =>
      have h2' : r'.stop = .cut dN := h2
      have := hok.above dN rfl _ (Lv.mem_of_lev hlcp) l rfl
      simp [SLD.afterCut, h2', foundStop, Nat.min_eq_left (Nat.le_of_lt this)]
  · subst h1
    refine ⟨by rw [afterCut_answers]; exact hm.ans,
      Or.inr (Or.inr (Or.inr ⟨F', c1, c2, ex, ?_⟩)), hm.st, hm.nvar⟩
    cases co with
    | none => exact ⟨some cp, rfl, by simp [SLD.afterCut, h2]⟩
    | some c0 => exact ⟨some c0, rfl, by simp [SLD.afterCut, h2]⟩

theorem LvOK.deeper {lv : Lv} {d d' : Nat} (h : LvOK mo lv d) (hd : d ≤ d') : LvOK mo lv d' :=
  ⟨h.nodup, h.nz, h.mono, fun e he l hl => Nat.lt_of_lt_of_le (h.below e he l hl) hd,
    fun dN hdN => Nat.lt_of_lt_of_le (h.lo dN hdN) hd, h.above⟩

/-- a call with one alternative that the VM does not make changes nothing: the cut levels in use
    are below its depth -/
theorem match_post {lv : Lv} {d : Nat} {ans0 : List Term} {m m' : MS} {sig : SigG Err} {r1 : SLD.Res}
    (hok : LvOK mo lv d) (hm : Match mo tmpl max prog lv ans0 m m' sig r1) :
    Match mo tmpl max prog lv ans0 m m' sig (post d r1) := by
  rcases hm.stop with ⟨h1, h2, h3⟩ | ⟨c, l, h1, h2, h3, h4⟩ | ⟨h1, h2⟩ | ⟨F', c1, c2, ex, co, h1, h2⟩
  · have e : post d r1 = ⟨r1.answers ++ [], .exhausted⟩ := by simp [post, h2]
    rw [e]
    exact ⟨by simpa using hm.ans, Or.inl ⟨h1, rfl, h3⟩, hm.st, hm.nvar⟩
  · have hl : l ≠ d := by have := hok.lev_lt h3; omega
    have e : post d r1 = { r1 with stop := .cut l } := by simp [post, h2, hl]
    rw [e]
    exact ⟨hm.ans, Or.inr (Or.inl ⟨c, l, h1, rfl, h3, h4⟩), hm.st, hm.nvar⟩
  · have e : post d r1 = r1 := by
      cases mo with
      | none =>
        have h2' : r1.stop = .full := h2
        simp [post, h2']
      | some dN =>
        have h2' : r1.stop = .cut dN := h2
        have hne : dN ≠ d := by have := hok.lo dN rfl; omega
        cases r1
        simp_all [post]
    rw [e]; exact hm
  · have e : post d r1 = r1 := by simp [post, h2]
    rw [e]; exact hm

theorem match_postN {lv : Lv} {ans0 : List Term} {m m' : MS} {sig : SigG Err} {r1 : SLD.Res} :
    ∀ (j d : Nat), LvOK mo lv d → Match mo tmpl max prog lv ans0 m m' sig r1 →
      Match mo tmpl max prog lv ans0 m m' sig (postN d j r1)
  | 0, _, _, hm => hm
  | j + 1, d, hok, hm => match_post hok (match_postN j (d + 1) (hok.deeper (Nat.le_succ d)) hm)

end

end PrologVerif.Refine
