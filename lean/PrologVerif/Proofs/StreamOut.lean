/-
  Proofs/StreamOut.lean — helper for C19_output_order.
-/
import PrologVerif.Model.StreamOut
namespace PrologVerif.StreamOut
open PrologVerif.Stream

theorem out_runConj (typ : StreamType) (q : List OutOp) (s : Sink) :
    (runConj typ q s).2.bytes = s.bytes ++ specConj typ q ∧
    (runConj typ q s).2.position = s.position + ((specConj typ q).length : Int) := by
  induction q generalizing s with
  | nil => simp [runConj, specConj]
  | cons o os ih =>
    simp only [runConj, runOp, specConj]
    cases hb : opBytes typ o with
    | error e => simp
    | ok p =>
      simp only
      obtain ⟨i1, i2⟩ := ih (s.write p)
      rw [i1, i2]
      simp only [Sink.write, List.append_assoc, List.length_append, true_and]
      omega


end PrologVerif.StreamOut
