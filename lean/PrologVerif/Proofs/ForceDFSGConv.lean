/-
  force_dfsG_conv — the CONVERSE of `force_dfsG` (Proofs/ForceDFSG.lean): whenever the trampoline
  (Model/Promise.lean `force`, without cancellation) terminates, the recursive reference search
  (Spec/DFSG.lean `dfsP`) terminates too (for some search fuel `k`) and — unless it signals
  `illScoped` — with the same result and the same final machine state.

  Hypothesis on the semantics record: `FuelFree sem` (the record ignores the fuel it is handed; true
  of `VM.sem fuel` by `rfl`).  No restriction on recovery handlers, cuts, ids.

  STATEMENTS: `dfsP_mono`, `dfsAlts_mono`, `force_dfsG_conv_stack`, `force_dfsG_conv`,
  `vm_runQuery_conv`.
-/
import PrologVerif.Proofs.ForceDFSG
import PrologVerif.Proofs.VMScoped
namespace PrologVerif.ForceDFSGConv
open PrologVerif PrologVerif.Promise PrologVerif.DFSG PrologVerif.ForceDFSG

variable {τ ρ ε σ : Type}

/-- the semantics record ignores the fuel it is handed (true of `VM.sem fuel`, by `rfl`) -/
def FuelFree (sem : Sem τ ρ ε σ) : Prop := ∀ a b t m, sem.evalThunk a t m = sem.evalThunk b t m

/-! ### one step of `dfsP` / `dfsAlts` on each shape -/

section Steps
variable (sem : Sem τ ρ ε σ) (tf k : Nat)

theorem dfsP_leaf_err (p : P τ ρ ε) (live : List Nat) (m : M σ) (e : ε)
    (hd : p.delayed = []) (he : p.err = some e) :
    dfsP sem tf (k + 1) p live m = some (.raised e none, tick m) := by
  simp only [dfsP, hd, he]

theorem dfsP_leaf_ok (p : P τ ρ ε) (live : List Nat) (m : M σ)
    (hd : p.delayed = []) (he : p.err = none) :
    dfsP sem tf (k + 1) p live m = some (if p.ok then .found else .exhausted none, tick m) := by
  simp only [dfsP, hd, he]

theorem dfsP_ill_id (p : P τ ρ ε) (live : List Nat) (m : M σ) (t : τ) (ts : List τ)
    (hd : p.delayed = t :: ts) (hid : p.id ≠ 0 ∧ live.contains p.id) :
    dfsP sem tf (k + 1) p live m = some (.illScoped, tick m) := by
  simp only [dfsP, hd, if_pos hid]

theorem dfsP_nocut (p : P τ ρ ε) (live : List Nat) (m : M σ) (t : τ) (ts : List τ)
    (hd : p.delayed = t :: ts) (hid : ¬ (p.id ≠ 0 ∧ live.contains p.id)) (hc : p.cutParent = none) :
    dfsP sem tf (k + 1) p live m
      = dfsAlts sem tf k t (afterChild { p with cutParent := none }) live (tick m) := by
  simp only [dfsP, hd, if_neg hid, hc]

theorem dfsP_cut (p : P τ ρ ε) (live : List Nat) (m : M σ) (t : τ) (ts : List τ) (c : Nat)
    (hd : p.delayed = t :: ts) (hid : ¬ (p.id ≠ 0 ∧ live.contains p.id)) (hc : p.cutParent = some c)
    (hl : live.contains c = true) :
    dfsP sem tf (k + 1) p live m
      = (dfsAlts sem tf k t (afterChild { p with cutParent := none }) (live.dropWhile (· ≠ c)) (tick m)).map
          (fun r => (afterCut c r.1, r.2)) := by
  simp only [dfsP, hd, if_neg hid, hc, hl, if_true]
  split
  · rename_i h; rw [h]; rfl
  · rename_i h; rw [h]; rfl

theorem dfsP_ill_cut (p : P τ ρ ε) (live : List Nat) (m : M σ) (t : τ) (ts : List τ) (c : Nat)
    (hd : p.delayed = t :: ts) (hid : ¬ (p.id ≠ 0 ∧ live.contains p.id)) (hc : p.cutParent = some c)
    (hl : ¬ live.contains c = true) :
    dfsP sem tf (k + 1) p live m = some (.illScoped, tick m) := by
  simp only [dfsP, hd, if_neg hid, hc, if_neg hl]

variable {sem tf k}
variable {t : τ} {f q : P τ ρ ε} {live : List Nat} {m m1 m2 : M σ}

theorem dfsAlts_exh (hev : sem.evalThunk tf t m = some (q, m1))
    (hq : dfsP sem tf k q (push f.id live) m1 = some (.exhausted none, m2)) :
    dfsAlts sem tf (k + 1) t f live m = dfsP sem tf k f live m2 := by
  simp only [dfsAlts, hev, hq]

theorem dfsAlts_raised_none {e : ε} (hev : sem.evalThunk tf t m = some (q, m1))
    (hq : dfsP sem tf k q (push f.id live) m1 = some (.raised e none, m2)) (hr : f.recover = none) :
    dfsAlts sem tf (k + 1) t f live m = some (.raised e none, m2) := by
  simp only [dfsAlts, hev, hq, hr]

theorem dfsAlts_raised_decline {e : ε} {h : ρ} {m3 : M σ} (hev : sem.evalThunk tf t m = some (q, m1))
    (hq : dfsP sem tf k q (push f.id live) m1 = some (.raised e none, m2)) (hr : f.recover = some h)
    (hrec : sem.evalRecover h e m2 = (none, m3)) :
    dfsAlts sem tf (k + 1) t f live m = some (.raised e none, m3) := by
  simp only [dfsAlts, hev, hq, hr, hrec]

theorem dfsAlts_raised_accept {e : ε} {h : ρ} {q' : P τ ρ ε} {m3 : M σ}
    (hev : sem.evalThunk tf t m = some (q, m1))
    (hq : dfsP sem tf k q (push f.id live) m1 = some (.raised e none, m2)) (hr : f.recover = some h)
    (hrec : sem.evalRecover h e m2 = (some q', m3)) :
    dfsAlts sem tf (k + 1) t f live m = dfsP sem tf k q' live m3 := by
  simp only [dfsAlts, hev, hq, hr, hrec]

theorem dfsAlts_pass {r : SigG ε} (hev : sem.evalThunk tf t m = some (q, m1))
    (hq : dfsP sem tf k q (push f.id live) m1 = some (r, m2))
    (h1 : r ≠ .exhausted none) (h2 : ∀ e, r ≠ .raised e none) :
    dfsAlts sem tf (k + 1) t f live m = some (absorb f.id r m2) := by
  simp only [dfsAlts, hev, hq]

theorem dfsAlts_thunk_none (hev : sem.evalThunk tf t m = none) :
    dfsAlts sem tf (k + 1) t f live m = none := by
  simp only [dfsAlts, hev]

theorem dfsAlts_child_none (hev : sem.evalThunk tf t m = some (q, m1))
    (hq : dfsP sem tf k q (push f.id live) m1 = none) :
    dfsAlts sem tf (k + 1) t f live m = none := by
  simp only [dfsAlts, hev, hq]

end Steps

/-! ### more search fuel does not change a finished search -/

theorem mono_both (sem : Sem τ ρ ε σ) (tf : Nat) : ∀ k : Nat,
    (∀ k', k ≤ k' → ∀ p live m r, dfsP sem tf k p live m = some r → dfsP sem tf k' p live m = some r) ∧
    (∀ k', k ≤ k' → ∀ t f live m r, dfsAlts sem tf k t f live m = some r →
      dfsAlts sem tf k' t f live m = some r) := by
  intro k
  induction k with
  | zero => exact ⟨fun _ _ _ _ _ _ h => by simp [dfsP] at h, fun _ _ _ _ _ _ _ h => by simp [dfsAlts] at h⟩
  | succ k ih =>
    obtain ⟨ihP, ihA⟩ := ih
    constructor
    · intro k' hle p live m r h
      obtain ⟨k'', rfl⟩ : ∃ k'', k' = k'' + 1 := ⟨k' - 1, by omega⟩
      have hle' : k ≤ k'' := by omega
      cases hd : p.delayed with
      | nil =>
        cases he : p.err with
        | some e => rw [dfsP_leaf_err sem tf _ p live m e hd he] at h ⊢; exact h
        | none => rw [dfsP_leaf_ok sem tf _ p live m hd he] at h ⊢; exact h
      | cons t ts =>
        by_cases hid : p.id ≠ 0 ∧ live.contains p.id
        · rw [dfsP_ill_id sem tf _ p live m t ts hd hid] at h ⊢; exact h
        · cases hc : p.cutParent with
          | none =>
            rw [dfsP_nocut sem tf _ p live m t ts hd hid hc] at h ⊢
            exact ihA k'' hle' _ _ _ _ _ h
          | some c =>
            by_cases hl : live.contains c = true
            · rw [dfsP_cut sem tf _ p live m t ts c hd hid hc hl] at h ⊢
              cases ha : dfsAlts sem tf k t (afterChild { p with cutParent := none })
                  (live.dropWhile (· ≠ c)) (tick m) with
              | none => rw [ha] at h; cases h
              | some x =>
                rw [ihA k'' hle' _ _ _ _ _ ha]
                rw [ha] at h
                exact h
            · rw [dfsP_ill_cut sem tf _ p live m t ts c hd hid hc hl] at h ⊢; exact h
    · intro k' hle t f live m r h
      obtain ⟨k'', rfl⟩ : ∃ k'', k' = k'' + 1 := ⟨k' - 1, by omega⟩
      have hle' : k ≤ k'' := by omega
      cases hev : sem.evalThunk tf t m with
      | none => rw [dfsAlts_thunk_none hev] at h; cases h
      | some qm =>
        obtain ⟨q, m1⟩ := qm
        cases hq : dfsP sem tf k q (push f.id live) m1 with
        | none => rw [dfsAlts_child_none hev hq] at h; cases h
        | some sm =>
          obtain ⟨s, m2⟩ := sm
          have hq' := ihP k'' hle' _ _ _ _ hq
          by_cases h1 : s = .exhausted none
          · subst h1
            rw [dfsAlts_exh hev hq] at h
            rw [dfsAlts_exh hev hq']
            exact ihP k'' hle' _ _ _ _ h
          · by_cases h2 : ∃ e, s = .raised e none
            · obtain ⟨e, rfl⟩ := h2
              cases hr : f.recover with
              | none =>
                rw [dfsAlts_raised_none hev hq hr] at h
                rw [dfsAlts_raised_none hev hq' hr]
                exact h
              | some hh =>
                cases hrec : sem.evalRecover hh e m2 with
                | mk o m3 =>
                  cases o with
                  | none =>
                    rw [dfsAlts_raised_decline hev hq hr hrec] at h
                    rw [dfsAlts_raised_decline hev hq' hr hrec]
                    exact h
                  | some q' =>
                    rw [dfsAlts_raised_accept hev hq hr hrec] at h
                    rw [dfsAlts_raised_accept hev hq' hr hrec]
                    exact ihP k'' hle' _ _ _ _ h
            · have h2' : ∀ e, s ≠ .raised e none := fun e he => h2 ⟨e, he⟩
              rw [dfsAlts_pass hev hq h1 h2'] at h
              rw [dfsAlts_pass hev hq' h1 h2']
              exact h

/-- more search fuel does not change a finished search -/
theorem dfsP_mono (sem : Sem τ ρ ε σ) (tf : Nat) : ∀ k k', k ≤ k' → ∀ p live m r,
    dfsP sem tf k p live m = some r → dfsP sem tf k' p live m = some r :=
  fun k => (mono_both sem tf k).1

theorem dfsAlts_mono (sem : Sem τ ρ ε σ) (tf : Nat) : ∀ k k', k ≤ k' → ∀ t f live m r,
    dfsAlts sem tf k t f live m = some r → dfsAlts sem tf k' t f live m = some r :=
  fun k => (mono_both sem tf k).2

/-! ### a signal passes a frame: the converse reading of `after_frame_pass` -/

theorem after_frame_pass_conv (sem : Sem τ ρ ε σ) (f : P τ ρ ε) (r : SigG ε) (st : List (P τ ρ ε)) (m : M σ)
    (n : Nat) (R : Promise.Res ε × M σ) (h : after sem r (f :: st) m n = some R)
    (hin : sigIn r (ids (f :: st))) (h1 : r ≠ .exhausted none) (h2 : ∀ e, r ≠ .raised e none) :
    ∃ n', n' ≤ n ∧ after sem (absorb f.id r m).1 st (absorb f.id r m).2 n' = some R := by
  by_cases hx : extraAbs f.id r = 0
  · refine ⟨n, Nat.le_refl _, ?_⟩
    have := after_frame_pass sem f r st m n hin h1 h2
    rw [hx, Nat.add_zero] at this
    rw [← this]; exact h
  · cases n with
    | zero =>
      -- only `exhausted (some c)` has `extraAbs ≠ 0`; with no fuel `force` is undefined
      cases r with
      | found => exact absurd rfl hx
      | illScoped => exact absurd rfl hx
      | raised e co => exact absurd rfl hx
      | exhausted co =>
        simp only [after] at h
        cases hcs : cutOpt co (f :: st) <;> rw [hcs] at h <;> simp [force] at h
    | succ n' =>
      have hx1 : extraAbs f.id r = 1 := by
        cases r with
        | found => exact absurd rfl hx
        | illScoped => exact absurd rfl hx
        | raised e co => exact absurd rfl hx
        | exhausted co =>
          cases co with
          | none => exact absurd rfl hx
          | some c =>
            simp only [extraAbs] at hx ⊢
            split
            · rfl
            · rename_i hne; simp [hne] at hx
      refine ⟨n', Nat.le_succ _, ?_⟩
      have := after_frame_pass sem f r st m n' hin h1 h2
      rw [hx1] at this
      rw [← this]; exact h

/-! ### the converse simulation -/

section Conv
variable (sem : Sem τ ρ ε σ) (tf : Nat)

/-- the statement at trampoline fuel `n` -/
def ConvP (n : Nat) : Prop :=
  ∀ (p : P τ ρ ε) (stack : List (P τ ρ ε)) (live : List Nat) (m : M σ) (R : Promise.Res ε × M σ),
    force sem none n (p :: stack) m = some R → ids stack = live → live.Nodup →
    ∃ k sig m', dfsP sem tf k p live m = some (sig, m') ∧
      (sig ≠ .illScoped → ∃ n', n' ≤ n ∧ after sem sig stack m' n' = some R)

end Conv

theorem step_thunk_none (sem : Sem τ ρ ε σ) (n : Nat) (p : P τ ρ ε) (t : τ) (ts : List τ)
    (stack : List (P τ ρ ε)) (m : M σ)
    (hd : p.delayed = t :: ts) (he : sem.evalThunk n t (tick m) = none) :
    force sem none (n + 1) (p :: stack) m = none := by
  simp only [tick] at he
  simp only [force, isCancelled, hd, he]
  rfl

/-- the alternatives of the frame `f`, once the thunk `t` has been called -/
theorem convA (sem : Sem τ ρ ε σ) (tf n : Nat) (ih : ∀ n', n' ≤ n → ConvP sem tf n')
    (t : τ) (f q : P τ ρ ε) (m m1 : M σ) (stack : List (P τ ρ ε)) (live : List Nat) (R : Promise.Res ε × M σ)
    (hev : sem.evalThunk tf t m = some (q, m1))
    (hf : force sem none n (q :: f :: stack) m1 = some R)
    (hlive : ids stack = live) (hnd : live.Nodup) (hfid : f.id ≠ 0 → f.id ∉ live) :
    ∃ k sig m', dfsAlts sem tf k t f live m = some (sig, m') ∧
      (sig ≠ .illScoped → ∃ n', n' ≤ n ∧ after sem sig stack m' n' = some R) := by
  have hids : ids (f :: stack) = push f.id live := by rw [ids_cons, hlive]
  have hnd' : (push f.id live).Nodup := by
    unfold push
    split
    · exact hnd
    · rename_i h0; exact List.nodup_cons.2 ⟨hfid h0, hnd⟩
  obtain ⟨k1, s1, m2, hq, ha⟩ := ih n (Nat.le_refl _) q (f :: stack) _ m1 R hf hids hnd'
  by_cases hs1 : s1 = .illScoped
  · subst hs1
    refine ⟨k1 + 1, .illScoped, m2, ?_, fun h => absurd rfl h⟩
    rw [dfsAlts_pass hev hq (by simp) (by simp)]
    rfl
  · obtain ⟨n1, hn1, ha1⟩ := ha hs1
    by_cases h1 : s1 = .exhausted none
    · -- the first alternative is exhausted: back to the frame
      subst h1
      have hf1 : force sem none n1 (f :: stack) m2 = some R := ha1
      obtain ⟨k2, s2, m', hf2, ha2⟩ := ih n1 hn1 f stack live m2 R hf1 hlive hnd
      refine ⟨max k1 k2 + 1, s2, m', ?_, fun h => ?_⟩
      · rw [dfsAlts_exh hev (dfsP_mono sem tf k1 _ (Nat.le_max_left k1 k2) _ _ _ _ hq)]
        exact dfsP_mono sem tf k2 _ (Nat.le_max_right k1 k2) _ _ _ _ hf2
      · obtain ⟨n2, hn2, h2⟩ := ha2 h
        exact ⟨n2, by omega, h2⟩
    · by_cases h2 : ∃ e, s1 = .raised e none
      · -- an error that still looks for a handler
        obtain ⟨e, rfl⟩ := h2
        cases hr : f.recover with
        | none =>
          refine ⟨k1 + 1, .raised e none, m2, dfsAlts_raised_none hev hq hr, fun _ => ⟨n1, hn1, ?_⟩⟩
          rw [← after_raised_skip sem e f stack m2 n1 hr]; exact ha1
        | some hh =>
          cases hrec : sem.evalRecover hh e m2 with
          | mk o m3 =>
            cases o with
            | none =>
              refine ⟨k1 + 1, .raised e none, m3, dfsAlts_raised_decline hev hq hr hrec,
                fun _ => ⟨n1, hn1, ?_⟩⟩
              rw [← after_raised_decline sem e f hh stack m2 m3 n1 hr hrec]; exact ha1
            | some q' =>
              have hf1 : force sem none n1 (q' :: stack) m3 = some R := by
                rw [← after_raised_accept sem e f hh q' stack m2 m3 n1 hr hrec]; exact ha1
              obtain ⟨k2, s2, m', hf2, ha2⟩ := ih n1 hn1 q' stack live m3 R hf1 hlive hnd
              refine ⟨max k1 k2 + 1, s2, m', ?_, fun h => ?_⟩
              · rw [dfsAlts_raised_accept hev
                  (dfsP_mono sem tf k1 _ (Nat.le_max_left k1 k2) _ _ _ _ hq) hr hrec]
                exact dfsP_mono sem tf k2 _ (Nat.le_max_right k1 k2) _ _ _ _ hf2
              · obtain ⟨n2, hn2, h2⟩ := ha2 h
                exact ⟨n2, by omega, h2⟩
      · -- the signal passes the frame
        have h2' : ∀ e, s1 ≠ .raised e none := fun e he => h2 ⟨e, he⟩
        have hin := (sigIn_both sem tf k1).1 _ _ _ _ _ hq
        rw [← hids] at hin
        obtain ⟨n', hn', h'⟩ := after_frame_pass_conv sem f s1 stack m2 n1 R ha1 hin h1 h2'
        exact ⟨k1 + 1, (absorb f.id s1 m2).1, (absorb f.id s1 m2).2, dfsAlts_pass hev hq h1 h2',
          fun _ => ⟨n', by omega, h'⟩⟩

theorem convP_succ (sem : Sem τ ρ ε σ) (hff : FuelFree sem) (tf n : Nat)
    (ih : ∀ n', n' ≤ n → ConvP sem tf n') : ConvP sem tf (n + 1) := by
  intro p stack live m R hf hlive hnd
  cases hd : p.delayed with
  | nil =>
    cases he : p.err with
    | some e =>
      refine ⟨1, .raised e none, tick m, dfsP_leaf_err sem tf 0 p live m e hd he,
        fun _ => ⟨n, Nat.le_succ _, ?_⟩⟩
      rw [← step_err sem n p e stack m hd he]; exact hf
    | none =>
      by_cases ho : p.ok = true
      · refine ⟨1, .found, tick m, ?_, fun _ => ⟨n, Nat.le_succ _, ?_⟩⟩
        · rw [dfsP_leaf_ok sem tf 0 p live m hd he, ho]; rfl
        · rw [step_ok sem n p stack m hd he ho] at hf; exact hf
      · have ho' : p.ok = false := by simpa using ho
        refine ⟨1, .exhausted none, tick m, ?_, fun _ => ⟨n, Nat.le_succ _, ?_⟩⟩
        · rw [dfsP_leaf_ok sem tf 0 p live m hd he, ho']; rfl
        · rw [step_empty sem n p stack m hd he ho'] at hf; exact hf
  | cons t ts =>
    by_cases hid : p.id ≠ 0 ∧ live.contains p.id
    · exact ⟨1, .illScoped, tick m, dfsP_ill_id sem tf 0 p live m t ts hd hid, fun h => absurd rfl h⟩
    · cases hev : sem.evalThunk n t (tick m) with
      | none => rw [step_thunk_none sem n p t ts stack m hd hev] at hf; cases hf
      | some qm =>
        obtain ⟨q, m1⟩ := qm
        rw [step_thunk sem n p t ts stack m q m1 hd hev] at hf
        have hev' : sem.evalThunk tf t (tick m) = some (q, m1) := by rw [hff tf n]; exact hev
        have hfid : (afterChild { p with cutParent := none }).id = p.id := by
          unfold afterChild; split <;> rfl
        have hidl : ∀ l : List Nat, (∀ x, x ∈ l → x ∈ live) →
            (afterChild { p with cutParent := none }).id ≠ 0 →
            (afterChild { p with cutParent := none }).id ∉ l := by
          intro l hl h0 hm
          rw [hfid] at h0 hm
          exact hid ⟨h0, by simpa using hl _ hm⟩
        cases hc : p.cutParent with
        | none =>
          rw [hc] at hf
          obtain ⟨k, s, m', hA, ha⟩ := convA sem tf n ih t _ q (tick m) m1 stack live R hev' hf hlive hnd
            (hidl live (fun _ hx => hx))
          refine ⟨k + 1, s, m', ?_, fun h => ?_⟩
          · rw [dfsP_nocut sem tf k p live m t ts hd hid hc]; exact hA
          · obtain ⟨n', hn', h'⟩ := ha h
            exact ⟨n', by omega, h'⟩
        | some c =>
          by_cases hl : live.contains c = true
          · subst hlive
            have hcm : c ∈ ids stack := by simpa using hl
            rw [hc] at hf
            obtain ⟨k, s, m', hA, ha⟩ := convA sem tf n ih t _ q (tick m) m1 (cutStack c stack)
              ((ids stack).dropWhile (· ≠ c)) R hev' hf (ids_cutStack c stack hcm)
              ((List.dropWhile_sublist _).nodup hnd)
              (hidl _ (fun x hx => (List.dropWhile_sublist _).subset hx))
            refine ⟨k + 1, afterCut c s, m', ?_, fun h => ?_⟩
            · rw [dfsP_cut sem tf k p (ids stack) m t ts c hd hid hc hl, hA]; rfl
            · obtain ⟨n', hn', h'⟩ := ha (afterCut_illScoped h)
              have hin := (sigIn_both sem tf k).2 _ _ _ _ _ _ hA
              refine ⟨n', by omega, ?_⟩
              rw [← after_cut_pass sem c s stack m' n' hnd hcm hin]; exact h'
          · exact ⟨1, .illScoped, tick m, dfsP_ill_cut sem tf 0 p live m t ts c hd hid hc hl,
              fun h => absurd rfl h⟩

theorem convP_all (sem : Sem τ ρ ε σ) (hff : FuelFree sem) (tf : Nat) : ∀ n : Nat, ∀ n', n' ≤ n → ConvP sem tf n'
  | 0 => by
    intro n' hn'
    obtain rfl : n' = 0 := by omega
    intro p stack live m R hf
    simp [force] at hf
  | n + 1 => by
    intro n' hn'
    by_cases h : n' ≤ n
    · exact convP_all sem hff tf n n' h
    · obtain rfl : n' = n + 1 := by omega
      exact convP_succ sem hff tf n (convP_all sem hff tf n)

/-- **force_dfsG_conv**, general form, for a promise on top of any stack: if the trampoline
    terminates, the reference search terminates, and (unless it leaves its domain) the trampoline
    ends where `after` says -/
theorem force_dfsG_conv_stack (sem : Sem τ ρ ε σ) (hff : FuelFree sem) (tf : Nat) :
    ∀ (n : Nat) (p : P τ ρ ε) (stack : List (P τ ρ ε)) (live : List Nat) (m : M σ) (R : Promise.Res ε × M σ),
      force sem none n (p :: stack) m = some R → ForceDFSG.ids stack = live → live.Nodup →
      ∃ k sig m', dfsP sem tf k p live m = some (sig, m') ∧
        (sig ≠ .illScoped → ∃ n', n' ≤ n ∧ ForceDFSG.after sem sig stack m' n' = some R) :=
  fun n => convP_all sem hff tf n n (Nat.le_refl _)

/-- **force_dfsG_conv** at the root -/
theorem force_dfsG_conv (sem : Sem τ ρ ε σ) (hff : FuelFree sem) (tf n : Nat) (p : P τ ρ ε) (m : M σ)
    (R : Promise.Res ε × M σ) (h : force sem none n [p] m = some R) :
    ∃ k sig m', dfsP sem tf k p [] m = some (sig, m') ∧
      (sig ≠ .illScoped → R = (ForceDFSG.toRes sig, m')) := by
  obtain ⟨k, sig, m', hd, ha⟩ := force_dfsG_conv_stack sem hff tf n p [] [] m R h rfl List.nodup_nil
  refine ⟨k, sig, m', hd, fun hsig => ?_⟩
  obtain ⟨n', _, h'⟩ := ha hsig
  have hin := (sigIn_both sem tf k).1 _ _ _ _ _ hd
  cases sig with
  | found =>
    simp only [after, Option.some.injEq] at h'
    exact h'.symm
  | illScoped => exact absurd rfl hsig
  | exhausted co =>
    cases co with
    | none =>
      cases n' with
      | zero => simp [after, force] at h'
      | succ n'' =>
        simp only [after, cutOpt, force, Option.some.injEq] at h'
        exact h'.symm
    | some c => cases hin
  | raised e co =>
    cases co with
    | none =>
      simp only [after, cutOpt, recoverStack, Option.some.injEq] at h'
      exact h'.symm
    | some c => cases hin

/-- the VM's semantics record ignores the fuel it is handed -/
theorem fuelFree_VM (fuel : Nat) : FuelFree (VM.sem fuel) := fun _ _ _ _ => rfl

/-- **vm_runQuery_conv**: a finished `runQuery` comes from a finished reference search -/
theorem vm_runQuery_conv (fuel : Nat) (prog : List Term) (query : Term) (max : Nat) (as : List Term)
    (e : VM.End) (h : VM.runQuery fuel prog query max = some (as, e)) :
    ∃ k sig m', dfsP (VM.sem fuel) 0 k (VMScoped.queryPromise prog query max none).1 []
          (VMScoped.queryPromise prog query max none).2 = some (sig, m') ∧ sig ≠ .illScoped ∧
        as = m'.user.answers.reverse ∧ e = VMScoped.endOf (ForceDFSG.toRes sig) := by
  rw [VMScoped.runQuery_eq] at h
  cases hf : force (VM.sem fuel) none fuel [(VMScoped.queryPromise prog query max none).1]
      (VMScoped.queryPromise prog query max none).2 with
  | none => rw [hf] at h; cases h
  | some R =>
    obtain ⟨r, m''⟩ := R
    rw [hf] at h
    simp only [Option.some.injEq, Prod.mk.injEq] at h
    obtain ⟨k, sig, m', hd, hR⟩ := force_dfsG_conv (VM.sem fuel) (fuelFree_VM fuel) 0 fuel _ _ _ hf
    have hsig := VMScoped.vm_run_well_scoped fuel 0 k prog query max none m' sig hd
    have hR' := hR hsig
    simp only [Prod.mk.injEq] at hR'
    obtain ⟨rfl, rfl⟩ := hR'
    exact ⟨k, sig, m'', hd, hsig, h.1.symm, h.2.symm⟩

end PrologVerif.ForceDFSGConv
