/-
  Refine, part 10c — the simulation relation at `call/1`: the goal that is called has been
  instantiated, its variables are variables of the range of σ (they become relevant variables), and
  the clause `tuple(V̄) :- G` that `call/1` compiles is activated with V̄ bound to themselves: on the
  reference side nothing happens (no renaming apart, no unification), so the unifier of the bridge is
  the renaming `tauC` that sends the names of the activation back to the names in use.
-/
import PrologVerif.Proofs.RefineStep
namespace PrologVerif.Refine
open PrologVerif PrologVerif.VM PrologVerif.DecompileCompile PrologVerif.Activation
  PrologVerif.RefineITree PrologVerif.RefineRobinson

mutual
  theorem hasVar_subst_mpr (σ : Subst) (x y : Nat) : ∀ t : Term, t.hasVar y = true → (σ y).hasVar x = true →
      (t.subst σ).hasVar x = true
    | .var w, h, hx => by
      simp only [Term.hasVar, beq_iff_eq] at h
      subst h
      simpa [Term.subst] using hx
    | .atom _, h, _ => by simp [Term.hasVar] at h
    | .int _, h, _ => by simp [Term.hasVar] at h
    | .flt _, h, _ => by simp [Term.hasVar] at h
    | .str _, h, _ => by simp [Term.hasVar] at h
    | .app f as, h, hx => by
      simp only [Term.subst, Term.hasVar] at h ⊢
      exact hasVarArgs_subst_mpr σ x y as h hx
  theorem hasVarArgs_subst_mpr (σ : Subst) (x y : Nat) : ∀ as : Args, as.hasVar y = true → (σ y).hasVar x = true →
      (as.subst σ).hasVar x = true
    | .nil, h, _ => by simp [Args.hasVar] at h
    | .cons t ts, h, hx => by
      simp only [Args.hasVar, Bool.or_eq_true] at h
      simp only [Args.subst, Args.hasVar, Bool.or_eq_true]
      rcases h with h | h
      · exact Or.inl (hasVar_subst_mpr σ x y t h hx)
      · exact Or.inr (hasVarArgs_subst_mpr σ x y ts h hx)
end

/-- the context variable 0 does not occur in what σ assigns to the other variables -/
theorem MG.range_pos {N : Nat} {e : Env} {σ : Subst} (h : MG N e σ) {w x : Nat} (hw : 0 < w)
    (hx : (σ w).hasVar x = true) : 0 < x := by
  rcases Nat.eq_zero_or_pos x with hx0 | hx0
  rotate_left
  · exact hx0
  exfalso
  subst hx0
  have hσ0 : σ 0 = .var 0 := h.mgu.fixes hx
  cases hl : e.lookup 0 with
  | some t =>
    have h1 := h.mgu.sol 0 t hl
    rw [hσ0, closed_subst (h.zero t hl) σ] at h1
    have := h.zero t hl 0
    rw [← h1] at this
    simp [Term.hasVar] at this
  | none =>
    let z : Term := .atom "z"
    let θ : Subst := fun u => if u = 0 then .var 0 else (σ u).subst (upd 0 z)
    have hsol : Sol e θ := by
      intro u t hu
      have hu0 : u ≠ 0 := by rintro rfl; rw [hl] at hu; cases hu
      show (if u = 0 then Term.var 0 else (σ u).subst (upd 0 z)) = t.subst θ
      rw [if_neg hu0, h.mgu.sol u t hu, Term.subst_comp]
      apply subst_congr
      intro y hy
      have hy0 : y ≠ 0 := by have := ((h.eok u t hu).2 y hy).1; omega
      show (σ y).subst (upd 0 z) = (if y = 0 then Term.var 0 else (σ y).subst (upd 0 z))
      rw [if_neg hy0]
    have hgen := h.mgu.general θ hsol w
    have hw0 : w ≠ 0 := by omega
    have hL : (θ w).hasVar 0 = false := by
      show (if w = 0 then Term.var 0 else (σ w).subst (upd 0 z)).hasVar 0 = false
      rw [if_neg hw0]
      cases hc : ((σ w).subst (upd 0 z)).hasVar 0 with
      | false => rfl
      | true =>
        rcases hasVar_subst_upd hc with ⟨_, h2⟩ | h2
        · exact absurd rfl h2
        · simp [z, Term.hasVar] at h2
    have hR : ((σ w).subst θ).hasVar 0 = true :=
      hasVar_subst_mpr θ 0 0 (σ w) hx (by simp [θ, Term.hasVar])
    rw [hgen, hR] at hL
    cases hL

/-- the variables of the range of σ may be added to the relevant variables -/
theorem simW_addRV {tmpl : Term} {N : Nat} {env : Env} {σ : Subst} {π : Nat → Nat} {D : Nat → Prop} {nv : Nat}
    (h : SimW tmpl N env σ π D nv) :
    SimW tmpl N env σ π (fun v => D v ∨ RV σ D v) nv ∧
    ∀ x, RV σ (fun v => D v ∨ RV σ D v) x ↔ RV σ D x := by
  have hrv : ∀ x, RV σ (fun v => D v ∨ RV σ D v) x ↔ RV σ D x := by
    intro x
    constructor
    · rintro ⟨v, hv | ⟨w, hw, hwv⟩, hx⟩
      · exact ⟨v, hv, hx⟩
      · rw [h.mg.mgu.fixes hwv] at hx
        simp only [Term.hasVar, beq_iff_eq] at hx
        subst hx
        exact ⟨w, hw, hwv⟩
    · rintro ⟨v, hv, hx⟩; exact ⟨v, Or.inl hv, hx⟩
  refine ⟨⟨h.mg, h.chain, h.pos, ?_, ?_, ?_, fun v hv => Or.inl (h.tmplD v hv)⟩, hrv⟩
  · rintro v (hv | ⟨w, hw, hwv⟩)
    · exact h.dlt v hv
    · exact ⟨h.mg.range_pos (h.dlt w hw).1 hwv, (h.mg.range (h.dlt w hw).2 hwv).1⟩
  · intro x y hx hy; exact h.inj x y ((hrv x).1 hx) ((hrv y).1 hy)
  · intro x hx; exact h.bnd x ((hrv x).1 hx)

theorem GRel.step_id {lv : Lv} {σ σ' : Subst} {π π' : Nat → Nat} {D D' : Nat → Prop} {G : List (Term × Nat)}
    {R : List SLD.Frame}
    (h : GRel mo lv σ π D G R) (hD : ∀ v, D v → D' v)
    (heq : ∀ t, InD D t → img σ' π' t = img σ π t) :
    GRel mo lv σ' π' D' G R := by
  refine h.imp ?_
  rintro g _ fr ⟨hg, l, hfr, hl⟩
  refine ⟨fun v hv => hD v (hg v hv), l, ?_, hl⟩
  rw [heq _ hg]
  exact hfr

/-- substitutions that agree on a term agree on its variables -/
theorem subst_eq_vars (s1 s2 : Subst) : ∀ t : Term, t.subst s1 = t.subst s2 → ∀ v, t.hasVar v = true → s1 v = s2 v := by
  intro t
  refine Term.rec (motive_1 := fun t => t.subst s1 = t.subst s2 → ∀ v, t.hasVar v = true → s1 v = s2 v)
    (motive_2 := fun as => as.subst s1 = as.subst s2 → ∀ v, as.hasVar v = true → s1 v = s2 v)
    ?_ ?_ ?_ ?_ ?_ ?_ ?_ ?_ t
  · intro w hw v hv
    simp only [Term.hasVar, beq_iff_eq] at hv
    subst hv
    simpa [Term.subst] using hw
  · intro _ _ v hv; simp [Term.hasVar] at hv
  · intro _ _ v hv; simp [Term.hasVar] at hv
  · intro _ _ v hv; simp [Term.hasVar] at hv
  · intro _ _ v hv; simp [Term.hasVar] at hv
  · intro f as ih hw v hv
    simp only [Term.subst, Term.app.injEq, true_and] at hw
    exact ih hw v (by simpa [Term.hasVar] using hv)
  · intro _ v hv; simp [Args.hasVar] at hv
  · intro t ts iht ihts hw v hv
    simp only [Args.subst, Args.cons.injEq] at hw
    simp only [Args.hasVar, Bool.or_eq_true] at hv
    rcases hv with hv | hv
    · exact iht hw.1 v hv
    · exact ihts hw.2 v hv

/-! ### the unifier of the activation of `tuple(V̄) :- G` -/

/-- the names `π x + nv` of the activation go back to `π x` -/
def tauC (g : Term) (π : Nat → Nat) (nv : Nat) : Subst := fun z =>
  if nv ≤ z ∧ (g.rename π).hasVar (z - nv) = true then .var (z - nv) else .var z

section tau
variable {g : Term} {π : Nat → Nat} {nv : Nat}

theorem tauC_a {t : Term} (ht : ∀ v, t.hasVar v = true → g.hasVar v = true) :
    (t.rename (fun x => π x + nv)).subst (tauC g π nv) = t.rename π := by
  rw [rename_subst]
  apply subst_congr
  intro v hv
  show tauC g π nv (π v + nv) = _
  unfold tauC
  rw [if_pos ⟨by omega, by simpa using hasVar_rename_of (π := π) (ht v hv)⟩]
  simp

theorem tauC_b {s : Term} (hs : ∀ z, s.hasVar z = true → z < nv) : s.subst (tauC g π nv) = s := by
  have : s.subst (tauC g π nv) = s.subst (fun v => .var v) := by
    apply subst_congr
    intro z hz
    have := hs z hz
    unfold tauC
    rw [if_neg (by omega)]
  rw [this, Term.subst_id]

theorem tauC_mgu (hπ : ∀ v, g.hasVar v = true → π v < nv) {h : Term}
    (hh : ∀ v, h.hasVar v = true ↔ g.hasVar v = true) :
    MguLike (h.rename π) (h.rename (fun x => π x + nv)) (tauC g π nv) := by
  have hb : (h.rename π).subst (tauC g π nv) = h.rename π := by
    apply tauC_b
    intro z hz
    obtain ⟨v, hv, rfl⟩ := hasVar_rename h hz
    exact hπ v ((hh v).1 hv)
  refine ⟨?_, ?_, ?_⟩
  · rw [hb, tauC_a (fun v hv => (hh v).1 hv)]
  · intro β hβ z
    rw [rename_subst, rename_subst] at hβ
    have key := subst_eq_vars _ _ h hβ
    unfold tauC
    split
    · rename_i hc
      obtain ⟨v, hv, hvz⟩ := hasVar_rename g hc.2
      have := key v ((hh v).2 hv)
      simp only [Term.subst]
      rw [← hvz, this]
      congr 1
      omega
    · rfl
  · intro y z hz
    unfold tauC at hz
    split at hz
    · rename_i hc
      simp only [Term.hasVar, beq_iff_eq] at hz
      right; left
      rw [← hz]
      obtain ⟨v, hv, hvz⟩ := hasVar_rename g hc.2
      rw [← hvz]
      exact hasVar_rename_of ((hh v).2 hv)
    · simp only [Term.hasVar, beq_iff_eq] at hz
      exact Or.inl hz.symm

end tau

end PrologVerif.Refine
