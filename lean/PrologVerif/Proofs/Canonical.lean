/-
  write_canonical: what the writer emits (functional notation only) and the tokens it lexes to.
-/
import PrologVerif.Proofs.ReadBack
set_option linter.unusedSimpArgs false
set_option linter.unusedVariables false
namespace PrologVerif.Write
open PrologVerif PrologVerif.Lexer PrologVerif.Ops

/-! ## the text -/

/-- the options of write_canonical at every position of the term: quoted, ignore_ops, no operator context -/
def CanonOpts (o : WOpts) : Prop :=
  o.ignoreOps = true ∧ o.quoted = true ∧ o.numberVars = false ∧ o.left = none ∧ o.right = none

mutual
  /-- the text of `write_canonical`, directly -/
  def canonText (e : Env) : Term → List Char
    | .var v => e.varName v
    | .atom a => atomText e.cfg a.toList
    | .int i => formatInt i
    | .flt b => patchFloat (e.fmtFloat b)
    | .str _ => ['<', 's', 't', 'r', 'e', 'a', 'm', '>']
    | .app f as => atomText e.cfg f.toList ++ ['('] ++ canonArgs e as ++ [')']
  def canonArgs (e : Env) : Args → List Char
    | .nil => []
    | .cons a .nil => canonText e a
    | .cons a (.cons b rest) => canonText e a ++ [','] ++ canonArgs e (.cons b rest)
end

theorem writeAtom_canon (e : Env) (o : WOpts) (h : CanonOpts o) (a : List Char) :
    writeAtom e o a = atomText e.cfg a := by
  obtain ⟨_, hq, _, hl, hr⟩ := h
  have c1 : isSmallLetterChar e.cfg '\x00' = false := rfl
  unfold writeAtom atomText
  simp [hl, hr, hq, sp, opName, letterDigit, graphic, c1]
  split <;> simp [isGraphicChar, graphicAscii]

theorem writeInt_canon (e : Env) (o : WOpts) (h : CanonOpts o) (i : Int) : writeInt e o i = formatInt i := by
  obtain ⟨_, _, _, hl, hr⟩ := h
  simp [writeInt, hl, hr, isPrefixMinus, sp]

theorem writeFloat_canon (e : Env) (o : WOpts) (h : CanonOpts o) (b : UInt64) :
    writeFloat e o b = patchFloat (e.fmtFloat b) := by
  obtain ⟨_, _, _, hl, hr⟩ := h
  simp [writeFloat, hl, hr, isPrefixMinus, sp]

theorem writeVar_canon (e : Env) (o : WOpts) (h : CanonOpts o) (v : Nat) : writeVar e o v = e.varName v := by
  obtain ⟨_, _, _, hl, hr⟩ := h
  have c1 : isSmallLetterChar e.cfg '\x00' = false := rfl
  simp [writeVar, hl, hr, sp, opName, letterDigit, c1]

theorem canonOpts_o999 (o : WOpts) (h : CanonOpts o) : CanonOpts (o999 o) := by
  obtain ⟨a, b, c, _, _⟩ := h
  exact ⟨a, b, c, rfl, rfl⟩

theorem writeFunctor_canon (e : Env) (o : WOpts) (h : CanonOpts o) (f : String) :
    writeFunctor e o f = atomText e.cfg f.toList := by
  have hl := h.2.2.2.1
  unfold writeFunctor
  rw [if_neg (by simp [hl])]
  exact writeAtom_canon e { o with right := none } ⟨h.1, h.2.1, h.2.2.1, hl, rfl⟩ _

mutual
  /-- well-formed terms: compounds have at least one argument, no stream handles -/
  def wfTerm : Term → Bool
    | .app _ .nil => false
    | .app _ (.cons a as) => wfTerm a && wfArgs as
    | .str _ => false
    | _ => true
  def wfArgs : Args → Bool
    | .nil => true
    | .cons t ts => wfTerm t && wfArgs ts
end

/-- `,a2,a3…` -/
def tailText (e : Env) : Args → List Char
  | .nil => []
  | .cons a rest => [','] ++ canonText e a ++ tailText e rest

theorem canonArgs_cons (e : Env) : (a : Term) → (rest : Args) →
    canonArgs e (.cons a rest) = canonText e a ++ tailText e rest
  | a, .nil => by simp [canonArgs, tailText]
  | a, .cons b rest => by
    have := canonArgs_cons e b rest
    simp [canonArgs, tailText, this]

mutual
  theorem writeTerm_canon (e : Env) : (t : Term) → (o : WOpts) → CanonOpts o → wfTerm t = true →
      writeTerm e t o = canonText e t
    | .var v, o, h, _ => by simp [writeTerm, canonText, writeVar_canon e o h]
    | .atom a, o, h, _ => by simp [writeTerm, canonText, writeAtom_canon e o h]
    | .int i, o, h, _ => by simp [writeTerm, canonText, writeInt_canon e o h]
    | .flt b, o, h, _ => by simp [writeTerm, canonText, writeFloat_canon e o h]
    | .str _, _, _, hw => by simp [wfTerm] at hw
    | .app f .nil, _, _, hw => by simp [wfTerm] at hw
    | .app f (.cons a0 .nil), o, h, hw => by
      simp only [wfTerm, Bool.and_eq_true] at hw
      have h9 := canonOpts_o999 o h
      have hn : numberVarsOf o f a0 = none := by
        unfold numberVarsOf; split <;> simp [h.2.2.1]
      simp only [writeTerm, writeCompound, hn, h.1, if_true, canonText, canonArgs,
        writeFunctor_canon e o h, writeTerm_canon e a0 _ h9 hw.1]
    | .app f (.cons a0 (.cons a1 .nil)), o, h, hw => by
      simp only [wfTerm, wfArgs, Bool.and_eq_true] at hw
      have h9 := canonOpts_o999 o h
      simp only [writeTerm, writeCompound, h.1, if_true, canonText, canonArgs,
        writeFunctor_canon e o h, writeTerm_canon e a0 _ h9 hw.1, writeTerm_canon e a1 _ h9 hw.2.1]
      simp
    | .app f (.cons a0 (.cons a1 (.cons a2 rest))), o, h, hw => by
      simp only [wfTerm, wfArgs, Bool.and_eq_true] at hw
      have h9 := canonOpts_o999 o h
      simp only [writeTerm, writeCompound, canonText, canonArgs_cons, tailText,
        writeFunctor_canon e o h, writeTerm_canon e a0 _ h9 hw.1, writeTerm_canon e a1 _ h9 hw.2.1,
        writeTerm_canon e a2 _ h9 hw.2.2.1, writeArgsTail_canon e rest _ h9 hw.2.2.2]
      simp
  theorem writeArgsTail_canon (e : Env) : (as : Args) → (o : WOpts) → CanonOpts o → wfArgs as = true →
      writeArgsTail e as o = tailText e as
    | .nil, _, _, _ => by simp [writeArgsTail, tailText]
    | .cons a rest, o, h, hw => by
      simp only [wfArgs, Bool.and_eq_true] at hw
      simp only [writeArgsTail, tailText, writeTerm_canon e a o h hw.1, writeArgsTail_canon e rest o h hw.2]
end

/-- `write_canonical(T)` is the canonical text -/
theorem writeCanonical_eq (e : Env) (ops : Table) (t : Term) (hw : wfTerm t = true) :
    writeCanonical e ops t = canonText e t :=
  writeTerm_canon e t _ ⟨rfl, rfl, rfl, rfl, rfl⟩ hw

end PrologVerif.Write
