/-
  C09: retractall/1 as the failure-driven loop over retract/1.
-/
import PrologVerif.Proofs.DB
namespace PrologVerif.DB
open PrologVerif

theorem filter_id_middle (kept skipped rest : List Stored) (c : Stored)
    (hnd : (ids (kept ++ skipped ++ c :: rest)).Nodup) :
    (kept ++ skipped ++ c :: rest).filter (fun d => d.id ≠ c.id) = kept ++ skipped ++ rest := by
  have hne : ∀ d ∈ kept ++ skipped ++ rest, d.id ≠ c.id := by
    intro d hd e
    simp only [ids, List.map_append, List.map_cons, List.append_assoc] at hnd
    have hperm : (List.map (·.id) kept ++ (List.map (·.id) skipped ++ c.id :: List.map (·.id) rest)).Perm
        (c.id :: (List.map (·.id) kept ++ (List.map (·.id) skipped ++ List.map (·.id) rest))) := by
      have h1 : (List.map (·.id) skipped ++ c.id :: List.map (·.id) rest).Perm
          (c.id :: (List.map (·.id) skipped ++ List.map (·.id) rest)) := List.perm_middle
      exact (List.Perm.append_left _ h1).trans List.perm_middle
    have hnd' := (hperm.nodup_iff).mp hnd
    rw [List.nodup_cons] at hnd'
    apply hnd'.1
    rw [← e]
    simp only [List.mem_append, List.mem_map] at hd ⊢
    rcases hd with (hd | hd) | hd
    · exact Or.inl ⟨d, hd, rfl⟩
    · exact Or.inr (Or.inl ⟨d, hd, rfl⟩)
    · exact Or.inr (Or.inr ⟨d, hd, rfl⟩)
  have hf : ∀ l : List Stored, (∀ d ∈ l, d.id ≠ c.id) → l.filter (fun d => d.id ≠ c.id) = l := by
    intro l hl
    apply List.filter_eq_self.mpr
    intro d hd
    simpa using hl d hd
  rw [List.filter_append, List.filter_append, List.filter_cons]
  simp only [ne_eq, not_true_eq_false, decide_false, Bool.false_eq_true, if_false]
  rw [hf kept (fun d hd => hne d (by simp [hd])), hf skipped (fun d hd => hne d (by simp [hd])),
    hf rest (fun d hd => hne d (by simp [hd]))]

/-- one backtracking step of a retract whose remaining snapshot `alive` is a suffix of the current
    clause list: either nothing unifies any more, or the first unifying clause — and only it — goes -/
theorem redoRetract_scan (h : Nat) (pat : Term) (pi : PI) (dyn : Bool) :
    ∀ (alive : List Stored) (s : LUV.State) (kept : List Stored),
      s.procs.get pi = some ⟨dyn, kept ++ alive⟩ → (ids (kept ++ alive)).Nodup →
      ((LUV.redoRetract s h pat pi alive).2 = .no ∧ (LUV.redoRetract s h pat pi alive).1.procs = s.procs ∧
        LUV.survivors pat s.nextVar alive = alive ∧
        (LUV.redoRetract s h pat pi alive).1.iters = s.iters.set h (.retract pat pi [])) ∨
      (∃ skipped c rest t, alive = skipped ++ c :: rest ∧ (LUV.redoRetract s h pat pi alive).2 = .answer t ∧
        (LUV.redoRetract s h pat pi alive).1.procs = s.procs.set pi ⟨dyn, kept ++ skipped ++ rest⟩ ∧
        (LUV.redoRetract s h pat pi alive).1.iters = s.iters.set h (.retract pat pi rest) ∧
        LUV.survivors pat s.nextVar alive =
          skipped ++ LUV.survivors pat (LUV.redoRetract s h pat pi alive).1.nextVar rest) := by
  intro alive
  induction alive with
  | nil =>
    intro s kept _ _
    left
    simp [LUV.redoRetract, LUV.survivors]
  | cons c alive ih =>
    intro s kept hg hnd
    unfold LUV.redoRetract
    simp only
    cases hu : unify fuelU [] (rulify pat) (rulify (shift s.nextVar c.raw)) with
    | none =>
      have hg' : ({ s with nextVar := s.nextVar + maxVar c.raw } : LUV.State).procs.get pi =
          some ⟨dyn, (kept ++ [c]) ++ alive⟩ := by simpa using hg
      have hnd' : (ids ((kept ++ [c]) ++ alive)).Nodup := by simpa using hnd
      have hsv : LUV.survivors pat s.nextVar (c :: alive) =
          c :: LUV.survivors pat (s.nextVar + maxVar c.raw) alive := by
        simp [LUV.survivors, hu]
      rcases ih { s with nextVar := s.nextVar + maxVar c.raw } (kept ++ [c]) hg' hnd' with
        ⟨h1, h2, h3, h4⟩ | ⟨skipped, c', rest, t, h1, h2, h3, h4, h5⟩
      · left
        refine ⟨h1, h2, ?_, h4⟩
        rw [hsv]
        simp only at h3
        rw [h3]
      · right
        refine ⟨c :: skipped, c', rest, t, by simp [h1], h2, ?_, h4, ?_⟩
        · rw [h3]; simp
        · rw [hsv]
          simp only at h5
          rw [h5]
          simp
    | some σ =>
      have hpres : LUV.present s.procs pi c.id = true := by
        simp [LUV.present, LUV.clausesOf, hg]
      simp only [hpres, if_true]
      right
      refine ⟨[], c, alive, _, rfl, rfl, ?_, rfl, ?_⟩
      · have := filter_id_middle kept [] alive c (by simpa using hnd)
        simp only [List.append_nil] at this
        simp only [LUV.erase, hg, List.append_nil]
        rw [this]
      · simp [LUV.survivors, hu]

/-- the whole failure-driven loop -/
theorem LUV_drain_spec (h : Nat) (pat : Term) (pi : PI) (dyn : Bool) :
    ∀ (fuel : Nat) (alive : List Stored) (s : LUV.State) (kept : List Stored),
      alive.length < fuel → h < s.iters.length → s.iters[h]? = some (.retract pat pi alive) →
      s.procs.get pi = some ⟨dyn, kept ++ alive⟩ → (ids (kept ++ alive)).Nodup →
      ∃ s', LUV.drain fuel s h = (s', .no) ∧
        s'.procs.get pi = some ⟨dyn, kept ++ LUV.survivors pat s.nextVar alive⟩ ∧
        (∀ pi', pi' ≠ pi → s'.procs.get pi' = s.procs.get pi') ∧ s'.fresh = s.fresh := by
  intro fuel
  induction fuel with
  | zero => intro alive s kept hf; cases hf
  | succ fuel ih =>
    intro alive s kept hf hh hit hg hnd
    unfold LUV.drain
    have hstep : LUV.step s (.next h) = LUV.redoRetract s h pat pi alive := by
      simp [LUV.step, hit]
    rw [hstep]
    rcases redoRetract_scan h pat pi dyn alive s kept hg hnd with
      ⟨h1, h2, h3, _⟩ | ⟨skipped, c, rest, t, h1, h2, h3, h4, h5⟩
    · refine ⟨(LUV.redoRetract s h pat pi alive).1, ?_, ?_, ?_, ?_⟩
      · cases hr : LUV.redoRetract s h pat pi alive with
        | mk s1 o =>
          rw [hr] at h1
          simp only at h1
          subst h1
          rfl
      · rw [h2, h3]; exact hg
      · intro pi' _; rw [h2]
      · have : ∀ (al : List Stored) (s : LUV.State), (LUV.redoRetract s h pat pi al).2 = .no →
            (LUV.redoRetract s h pat pi al).1.fresh = s.fresh := by
          intro al
          induction al with
          | nil => intro s _; rfl
          | cons c al ihh =>
            intro s hno
            unfold LUV.redoRetract at hno ⊢
            simp only at hno ⊢
            split
            · split
              · rename_i hp; rename_i hu; simp [hu, hp] at hno
              · rename_i hp; rename_i hu; simp only [hu, hp] at hno; exact ihh _ hno
            · rename_i hu; simp only [hu] at hno; exact ihh _ hno
        exact this alive s h1
    · cases hr : LUV.redoRetract s h pat pi alive with
      | mk s1 o =>
        rw [hr] at h2 h3 h4 h5
        simp only at h2 h3 h4 h5
        subst h2
        simp only
        have hlen : rest.length < fuel := by
          rw [h1] at hf
          simp at hf
          omega
        have hh1 : h < s1.iters.length := by rw [h4]; simpa using hh
        have hit1 : s1.iters[h]? = some (.retract pat pi rest) := by
          rw [h4, List.getElem?_set_self hh]
        have hg1 : s1.procs.get pi = some ⟨dyn, (kept ++ skipped) ++ rest⟩ := by
          rw [h3, Procs.get_set]; simp
        have hnd1 : (ids ((kept ++ skipped) ++ rest)).Nodup := by
          rw [h1] at hnd
          have hsub : ((kept ++ skipped) ++ rest).Sublist (kept ++ (skipped ++ c :: rest)) := by
            rw [List.append_assoc]
            exact List.Sublist.append_left (List.Sublist.append_left (List.sublist_cons_self c rest) _) _
          exact List.Nodup.sublist (List.Sublist.map _ hsub) hnd
        obtain ⟨s', hd, hp, ho, hfr⟩ := ih rest s1 (kept ++ skipped) hlen hh1 hit1 hg1 hnd1
        refine ⟨s', hd, ?_, ?_, ?_⟩
        · rw [hp, h5]; simp
        · intro pi' hne
          rw [ho pi' hne, h3, Procs.get_set]
          simp [hne]
        · rw [hfr]
          -- an answering step keeps the identity counter
          have : ∀ (al : List Stored) (s : LUV.State), (LUV.redoRetract s h pat pi al).1.fresh = s.fresh := by
            intro al
            induction al with
            | nil => intro s; rfl
            | cons c al ihh =>
              intro s
              unfold LUV.redoRetract
              simp only
              split
              · split
                · rfl
                · exact ihh _
              · exact ihh _
          have := this alive s
          rw [hr] at this
          exact this

/-- retractall/1 on the specification machine -/
theorem LUV_retractall_spec (s : LUV.State) (head : Term) (pi : PI) (cs : List Stored) (fuel : Nat)
    (hpi : piArg head = .ok pi) (hg : s.procs.get pi = some ⟨true, cs⟩) (hnd : (ids cs).Nodup)
    (hf : cs.length < fuel) :
    ∃ s', LUV.retractall fuel s head = (s', .ok) ∧
      s'.procs.get pi = some ⟨true, LUV.survivors (.a2 ":-" head (.var (maxVar head))) s.nextVar cs⟩ ∧
      (∀ pi', pi' ≠ pi → s'.procs.get pi' = s.procs.get pi') ∧ s'.fresh = s.fresh := by
  unfold LUV.retractall
  have hopen : LUV.step s (.openRetract (.a2 ":-" head (.var (maxVar head)))) =
      ({ s with iters := s.iters ++ [.retract (.a2 ":-" head (.var (maxVar head))) pi cs] }, .opened s.iters.length) := by
    simp [LUV.step, LUV.startRetract, Term.a2, headOf, hpi, LUV.isStatic, hg, LUV.clausesOf, LUV.opened]
  rw [hopen]
  simp only
  obtain ⟨s', hd, hp, ho, hfr⟩ := LUV_drain_spec s.iters.length (.a2 ":-" head (.var (maxVar head))) pi true fuel cs
    { s with iters := s.iters ++ [.retract (.a2 ":-" head (.var (maxVar head))) pi cs] } [] hf
    (by simp) (by simp) (by simpa using hg) (by simpa using hnd)
  rw [hd]
  exact ⟨s', rfl, by simpa using hp, ho, hfr⟩

/-- retractall/1 of a predicate that does not exist: succeeds, changes no procedure -/
theorem LUV_retractall_undefined (s : LUV.State) (head : Term) (pi : PI) (fuel : Nat)
    (hpi : piArg head = .ok pi) (hg : s.procs.get pi = none) :
    (LUV.retractall (fuel + 1) s head).2 = .ok ∧ (LUV.retractall (fuel + 1) s head).1.procs = s.procs := by
  unfold LUV.retractall
  have hopen : LUV.step s (.openRetract (.a2 ":-" head (.var (maxVar head)))) =
      ({ s with iters := s.iters ++ [.retract (.a2 ":-" head (.var (maxVar head))) pi []] }, .opened s.iters.length) := by
    simp [LUV.step, LUV.startRetract, Term.a2, headOf, hpi, LUV.isStatic, hg, LUV.clausesOf, LUV.opened]
  rw [hopen]
  simp [LUV.drain, LUV.step, LUV.redoRetract]

/-! ### transfer to the model of the repaired code -/

theorem drain_refines (fuel : Nat) (m : State) (hinv : Inv m) (h : Nat) :
    LUV.drain fuel (abs m) h = (abs (drain .fixed fuel m h).1, (drain .fixed fuel m h).2) := by
  induction fuel generalizing m with
  | zero => rfl
  | succ fuel ih =>
    unfold LUV.drain drain
    have hs := step_refines m hinv (.next h)
    have hi := step_inv .fixed m hinv (.next h)
    simp only [step] at hs hi
    rw [hs]
    cases hn : next .fixed m h with
    | mk m1 o =>
      rw [hn] at hi
      cases o <;> simp only <;> first | exact ih m1 hi | rfl

theorem retractall_refines (fuel : Nat) (m : State) (hinv : Inv m) (head : Term) :
    LUV.retractall fuel (abs m) head =
      (abs (retractall .fixed fuel m head).1, (retractall .fixed fuel m head).2) := by
  unfold LUV.retractall retractall
  have hs := step_refines m hinv (.openRetract (.a2 ":-" head (.var (maxVar head))))
  have hi := step_inv .fixed m hinv (.openRetract (.a2 ":-" head (.var (maxVar head))))
  simp only [step] at hs hi
  rw [hs]
  cases ho : openRetract m (.a2 ":-" head (.var (maxVar head))) with
  | mk m1 o =>
    rw [ho] at hi
    cases o <;> simp only <;> try rfl
    rename_i hd
    rw [drain_refines fuel m1 hi hd]
    cases hdr : drain .fixed fuel m1 hd with
    | mk m2 o2 => cases o2 <;> rfl

/-! ### a retract removes exactly its match -/

/-- on the specification machine: an answer of a retract comes from a held clause that is still
    present and unifies; exactly its identity is erased; every held clause before it either does
    not unify or is gone -/
theorem LUV_redoRetract_answer (h : Nat) (pat : Term) (pi : PI) (alive : List Stored) (s : LUV.State) (t : Term)
    (hans : (LUV.redoRetract s h pat pi alive).2 = .answer t) :
    ∃ skipped c rest nv σ, alive = skipped ++ c :: rest ∧
      LUV.present s.procs pi c.id = true ∧
      unify fuelU [] (rulify pat) (rulify (shift nv c.raw)) = some σ ∧ t = resolve fuelU σ pat ∧
      (LUV.redoRetract s h pat pi alive).1.procs = LUV.erase s.procs pi c.id ∧
      (LUV.redoRetract s h pat pi alive).1.iters = s.iters.set h (.retract pat pi rest) := by
  induction alive generalizing s with
  | nil => simp [LUV.redoRetract] at hans
  | cons c alive ih =>
    unfold LUV.redoRetract at hans ⊢
    simp only at hans ⊢
    cases hu : unify fuelU [] (rulify pat) (rulify (shift s.nextVar c.raw)) with
    | none =>
      simp only [hu] at hans
      obtain ⟨skipped, c', rest, nv, σ, h1, h2, h3, h4, h5, h6⟩ := ih _ hans
      exact ⟨c :: skipped, c', rest, nv, σ, by simp [h1], h2, h3, h4, h5, h6⟩
    | some σ =>
      simp only [hu] at hans
      by_cases hp : LUV.present s.procs pi c.id = true
      · simp only [hp, if_true] at hans ⊢
        simp only [Out.answer.injEq] at hans
        exact ⟨[], c, alive, s.nextVar, σ, rfl, hp, hu, hans.symm, rfl, rfl⟩
      · simp only [hp, if_false] at hans ⊢
        obtain ⟨skipped, c', rest, nv, σ', h1, h2, h3, h4, h5, h6⟩ := ih _ hans
        exact ⟨c :: skipped, c', rest, nv, σ', by simp [h1], h2, h3, h4, h5, h6⟩

/-- what is erased is gone: no later retract (of any iterator) can remove it again -/
theorem LUV_present_erase (ps : Procs) (pi : PI) (id : Nat) : LUV.present (LUV.erase ps pi id) pi id = false := by
  unfold LUV.present LUV.erase LUV.clausesOf
  cases hg : ps.get pi with
  | none => simp [hg]
  | some p => simp [Procs.get_set]

end PrologVerif.DB
