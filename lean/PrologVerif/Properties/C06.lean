/-
  C06 — text written by writeq/write_canonical reads back as the same term.

  Property theorems only; helper lemmas live in Proofs/.  Everything is about the models
  Model/Lexer.lean (engine/lexer.go), Model/Read.lean (engine/parser.go), Model/Write.lean
  (engine/atom.go, integer.go, float.go, compound.go writers), tied to the Go code by the streams
  c06.lex, c06.atoms, c06.numbers, c06.terms.
-/
import PrologVerif.Proofs.LexerSpec
import PrologVerif.Proofs.LexerRing
import PrologVerif.Proofs.ReadBack
import PrologVerif.Proofs.CanonRoundtrip
import PrologVerif.Proofs.OpRoundtrip
import PrologVerif.Proofs.OpRoundtripLexCex
namespace PrologVerif.C06Example
open PrologVerif PrologVerif.Lexer PrologVerif.Write

/-- an environment meeting `EnvOK`: variables `_a`, `_aa`, …; the float 1.5 with its 'g' text -/
def exEnv : Env := ⟨Cfg.ascii, fun _ => ['1', '.', '5'], fun v => '_' :: List.replicate (v + 1) 'a'⟩
def exG : UInt64 → GText := fun _ => ⟨false, ['1'], ['5'], none⟩
def exP : UInt64 → Bool := fun b => b == 0x3FF8000000000000

theorem exEnv_ok : EnvOK exEnv exG exP where
  conv := fun _ => rfl
  varShape := fun v => ⟨⟨List.replicate (v + 1) 'a', rfl, by
    intro x hx
    rw [List.mem_replicate] at hx
    rw [hx.2]; rfl⟩, by simp [exEnv]⟩
  varInj := by
    intro v w h
    have := congrArg List.length h
    simp [exEnv] at this
    exact this
  fltWF := by
    intro b _
    refine ⟨by simp [exG], ?_, ?_, by simp [exG]⟩
    · intro d hd; simp [exG] at hd; subst hd; exact ⟨1, by decide, rfl⟩
    · intro d hd; simp [exG] at hd; subst hd; exact ⟨5, by decide, rfl⟩
  fltText := fun _ _ => rfl
  fltLaw := by
    intro b hb
    have hb' : b = 0x3FF8000000000000 := by simpa [exP] using hb
    subst hb'
    decide +kernel

end PrologVerif.C06Example

namespace PrologVerif.C06
open PrologVerif PrologVerif.Lexer PrologVerif.Write

/-! ### lexer lemmas (shared with C05) -/

/-- the ring-buffer invariant: the buffer is sound (no `UnreadRune` has stepped over more runes than
    the 4 slots held, none has made the buffer look empty) and within its capacity -/
def RingOK (l : Lexer) : Prop := RI 0 l

/-- a lexer freshly created on any text has a sound ring buffer -/
theorem C06_ring_init (s : List Char) : RingOK (Lexer.ofList s) := by
  show RI 0 _
  simp [RI, Lexer.ofList]

/-- Termination of tokenisation, for every configuration (character-class oracle, conversion table)
    and every reachable lexer state: a `Token` call never exhausts the fuel the model gives it
    (fuel = 2·remaining + 8; the recursion `commentClose → commentClose`, `escapeSequence → cont`
    included), and it either fails with io.EOF or delivers a token having consumed ≥ 1 rune. -/
theorem C06_token_progress (cfg : Cfg) (l : Lexer) (h : RingOK l) :
    lexToken cfg l = .error .eof ∨
    ∃ t l', lexToken cfg l = .ok (t, l') ∧ l'.rest.length < l.rest.length := by
  have := lexToken_spec cfg l h
  cases hres : lexToken cfg l with
  | error e =>
    cases e
    · exact .inl rfl
    · simp [hres, Post] at this
  | ok v =>
    obtain ⟨t, l'⟩ := v
    simp only [hres, Post] at this
    exact .inr ⟨t, l', rfl, by omega⟩

/-- The ring buffer never backs up over more runes than it holds: every `Token` call started with a
    sound buffer ends with a sound buffer (the ghost flag `sound` is cleared by any `UnreadRune`
    that steps over an unread slot or makes `start` meet `end`), whatever the input. -/
theorem C06_ring_sound (cfg : Cfg) (l l' : Lexer) (t : Token) (h : RingOK l)
    (hres : lexToken cfg l = .ok (t, l')) : RingOK l' ∧ l'.ring.sound = true ∧ l'.ring.pend ≤ 3 := by
  have := lexToken_spec cfg l h
  simp only [hres, Post] at this
  refine ⟨this.1, this.1.1, ?_⟩
  have := this.1.2.2.1
  omega

/-- The Go data structure itself (`buf [4]rune`, `start`, `end` modulo 4: `RuneRing`) refines the
    zipper the model runs on: from corresponding states, `ReadRune` delivers the same rune (or both
    report io.EOF) and `UnreadRune` is `backup` whenever a backup is in credit (`RI 1`: the slot behind
    `start` holds the rune read last and `start` will not meet `end`) — which is exactly the condition
    under which the ghost flag `sound` survives, and `C06_ring_sound` shows it always survives. -/
theorem C06_ring_refines (c : RuneRing) (l : Lexer) (ha : Abs c l) :
    (RI 0 l → match rawNext l, c.ReadRune with
      | some (r, l'), some (r', c') => r = r' ∧ Abs c' l'
      | none, none => True
      | _, _ => False) ∧
    (RI 1 l → Abs c.UnreadRune (backup l) ∧ RI 0 (backup l)) :=
  ⟨abs_read c l ha, abs_unread c l ha⟩

/-- hence all states reached by any number of `Token` calls on any text are sound, and the token
    sequence is finite: `tokens` with fuel `length + 1` ends with io.EOF, never with "out of fuel" -/
theorem C06_tokens_terminate (cfg : Cfg) (n : Nat) (l : Lexer) (h : RingOK l) (hn : l.rest.length < n) :
    (tokens cfg n l).2 = .eof := by
  induction n generalizing l with
  | zero => omega
  | succ n ih =>
    unfold tokens
    have hs := lexToken_spec cfg l h
    cases hres : lexToken cfg l with
    | error e =>
      cases e
      · rfl
      · simp [hres, Post] at hs
    | ok v =>
      obtain ⟨t, l'⟩ := v
      simp only [hres, Post] at hs
      simp only
      exact ih l' hs.1 (by omega)

example : RingOK (Lexer.ofList "foo(0'a, 'x y', 1.5e+3) .".toList) := C06_ring_init _

/-! ### atoms (P0)

  `cfg` is any character-class oracle; `hconv` says that no char_conversion is in effect in the lexer
  (the engine never installs one: `Lexer.charConversions` is only set by tests).

  * `LexTok cfg x tok tail`: `Token()` on `x ++ tail` — in any lexer state — delivers `tok` and leaves `tail`.
  * `ReadsAtom cfg text s tail`: the tokens of `text` (followed by `tail`) make `Parser.atom` return `s`,
    consuming exactly these tokens, whatever the double_quotes flag.
  * `Unquoted cfg s`: `s` is a small letter followed by alphanumerics, or a graphic token (with the
    lexer's decisions about `/*` and a leading `.`), or one of `;` `!` `[]` `{}`.
  * `Delim`: the characters the writer puts after an atom: space, `(`, `)`, `,`. -/

/-- For EVERY atom text `s` (any lexical class, empty, with escapes, non-ASCII, any length):
    (a) `unquote ∘ quote = id`;
    (b) the lexer accepts everything `quote` emits: `quote s` followed by anything but a quote is ONE
        `quoted` token whose text is `quote s`;
    (c) an atom that `needQuoted` leaves unquoted has an unquoted shape, i.e. lexing it yields the
        single name token with that very text (or the two tokens of `[]` / `{}`);
    and together: the text `writeq` emits for `s` (quoted iff `needQuoted`) reads back as the atom `s`
    in every context the writer puts it in. -/
theorem C06_atom_roundtrip (cfg : Cfg) (hconv : ∀ c, cfg.conv c = c) (s : List Char) :
    unquote (quote cfg s) = s ∧
    (∀ tail, tail.head? ≠ some '\'' → LexTok cfg (quote cfg s) ⟨.quoted, quote cfg s⟩ tail) ∧
    (needQuoted cfg s = false → Unquoted cfg s) ∧
    (∀ tail, HeadIs Delim tail → ReadsAtom cfg (atomText cfg s) s tail) :=
  ⟨unquote_quote cfg s, fun tail ht => lexTok_quote cfg hconv s tail ht,
   unquoted_of_needQuoted cfg s, fun tail ht => readsAtom_atomText cfg hconv s tail ht⟩

/-- the unquoted shapes really are single name tokens, in context (the other half of (c)) -/
theorem C06_unquoted_lexes (cfg : Cfg) (hconv : ∀ c, cfg.conv c = c) (s tail : List Char) :
    (LDName cfg s → HeadIs (fun t => isAlphanumericChar cfg t = false) tail → LexTok cfg s ⟨.letterDigit, s⟩ tail) ∧
    (GraphicName cfg s → HeadIs (fun t => isGraphicOrBs t = false) tail → LexTok cfg s ⟨.graphic, s⟩ tail) :=
  ⟨fun h ht => lexTok_ldName cfg hconv s tail h ht, fun h ht => lexTok_graphicName cfg hconv s tail h ht⟩

/-- the escape check of the lexer accepts every escape `quote` writes (so the token is `quoted`, not `invalid`) -/
theorem C06_quote_escapes_valid (cfg : Cfg) (s : List Char) : validEscapeSequences (quote cfg s) = true :=
  validEscapeSequences_quote cfg s

-- non-vacuity: atoms of the interesting classes
example : needQuoted Cfg.ascii "hello world".toList = true := by decide
example : quote Cfg.ascii ['a', '\n', '\'', '\\', Char.ofNat 0x20AC] = "'a\\n\\'\\\\\\x20ac\\'".toList := by decide
example : needQuoted Cfg.ascii "foo_Bar1".toList = false := by decide
example : needQuoted Cfg.ascii "=..".toList = false := by decide
example : needQuoted Cfg.ascii [] = true := by decide
example : needQuoted Cfg.ascii "[]".toList = false := by decide

/-- D12 on the pinned tree (before commit 3a54fa1 `quote` left U+20AC verbatim): the model of the
    pinned `quote` is NOT accepted by the lexer — the first token is `invalid` -/
theorem C06_D12_pinned_witness :
    ((tokens Cfg.ascii 3 (Lexer.ofList (quotePinned [Char.ofNat 0x20AC]))).1.map (·.kind)).head? = some .invalid := by
  decide +kernel

/-- ... while the repaired `quote` of the same atom is one quoted token -/
example : ((tokens Cfg.ascii 3 (Lexer.ofList (quote Cfg.ascii [Char.ofNat 0x20AC]))).1.map (·.kind)) = [.quoted] := by
  decide +kernel

/-! ### integers (P0) -/

/-- `parseInteger (formatInt i) = i` for all 64-bit `i`: the digits `strconv.FormatInt` prints are ONE
    integer token (whatever delimiter follows), `integer()` — through its `big.ParseFloat` detour with
    a 64-bit mantissa — returns exactly `i` from them with the sign the parser passes, and the whole
    text followed by ` .` is read by `read_term` as the integer `i` under EVERY operator table and
    double_quotes flag (`-` directly followed by a number token is a negative literal; see the
    examples below for `- 1`, `- (1)`, `-(1)`). -/
theorem C06_integer_roundtrip (cfg : Cfg) (hconv : ∀ c, cfg.conv c = c) (i : Int)
    (hlo : -9223372036854775808 ≤ i) (hhi : i ≤ 9223372036854775807) :
    (∀ tail, HeadIs IntTail tail →
      LexTok cfg (decDigits i.natAbs) ⟨.integer, decDigits i.natAbs⟩ tail) ∧
    Read.integer (if i < 0 then -1 else 1) (decDigits i.natAbs) = .ok i ∧
    ∀ (ops : Ops.Table) (dq : Read.DoubleQuotes),
      Read.readTerm cfg ops dq (formatInt i ++ [' ', '.']) = .ok (.int i) := by
  obtain ⟨h1, h2, _⟩ := decDigits_spec i.natAbs (by omega)
  exact ⟨fun tail ht => lexTok_digits cfg hconv _ tail h1 h2 ht, integer_formatInt i hlo hhi,
    fun ops dq => readTerm_formatInt cfg hconv ops dq i hlo hhi⟩

example : formatInt (-9223372036854775808) = "-9223372036854775808".toList := by decide
-- the three spellings around a prefix minus, under the default operator table
example : (Read.readTerm Cfg.ascii Ops.defaultTable .chars "- 1 .".toList).toOption = some (.int (-1)) := by decide +kernel
example : (Read.readTerm Cfg.ascii Ops.defaultTable .chars "- (1) .".toList).toOption =
    some (.app "-" (.cons (.int 1) .nil)) := by decide +kernel
example : (Read.readTerm Cfg.ascii Ops.defaultTable .chars "-(1) .".toList).toOption =
    some (.app "-" (.cons (.int 1) .nil)) := by decide +kernel
-- and what the writer makes of the compound -(1) and of -(0) (D20), 1 - (-1), a - (-0.0) (D21 needs the float text)
example : writeq ⟨Cfg.ascii, fun _ => [], fun _ => []⟩ Ops.defaultTable (.app "-" (.cons (.int 1) .nil)) = "- (1)".toList := by
  decide +kernel
example : writeq ⟨Cfg.ascii, fun _ => [], fun _ => []⟩ Ops.defaultTable (.app "-" (.cons (.int 0) .nil)) = "- (0)".toList := by
  decide +kernel
example : writeq ⟨Cfg.ascii, fun _ => [], fun _ => []⟩ Ops.defaultTable
    (.app "-" (.cons (.int 1) (.cons (.int (-1)) .nil))) = "1- -1".toList := by
  decide +kernel

/-! ### floats (P0) -/

/-- For every text in the grammar of `strconv.FormatFloat(f, 'g', -1, 64)` outputs for finite `f`
    (`-?d+(.d+)?(e[+-]d+)?`, the parameter `g : GText`): what `Float.WriteTerm` writes is the sign
    followed by a body that always contains `.` with digits on both sides, and that body is ONE
    `float number` token, whatever follows it (except a digit or `e`/`E`).  Bit-exactness of the value
    rests on the library law `ParseFloat ∘ FormatFloat(-1) = id` and on `float()` being correctly
    rounded — checked per case by c06.numbers against exact rational arithmetic, not provable about
    `strconv` here. -/
theorem C06_float_text_shape (cfg : Cfg) (hconv : ∀ c, cfg.conv c = c) (g : GText) (hg : g.WF) :
    patchFloat g.render = signText g.neg ++ g.body ∧
    ∀ tail, HeadIs FloatTail tail → LexTok cfg g.body ⟨.floatNumber, g.body⟩ tail :=
  ⟨patchFloat_render g hg, fun tail ht => lexTok_floatBody cfg hconv g hg tail ht⟩

-- non-vacuity: 1e+22, -1.5e-07, 0
example : (⟨false, ['1'], [], some (false, ['2', '2'])⟩ : GText).render = "1e+22".toList ∧
    (⟨false, ['1'], [], some (false, ['2', '2'])⟩ : GText).body = "1.0e+22".toList := by decide
example : (⟨true, ['1'], ['5'], some (true, ['0', '7'])⟩ : GText).WF := by
  refine ⟨by simp, ?_, ?_, ?_⟩
  · intro d hd; simp at hd; subst hd; exact ⟨1, by decide, rfl⟩
  · intro d hd; simp at hd; subst hd; exact ⟨5, by decide, rfl⟩
  · intro sg ds h; simp at h; obtain ⟨_, rfl⟩ := h
    refine ⟨by simp, ?_⟩
    intro d hd; simp at hd
    rcases hd with rfl | rfl
    · exact ⟨0, by decide, rfl⟩
    · exact ⟨7, by decide, rfl⟩

/-! ### terms: full statements kept open (P1 / P2)

  Checked on every run by the property's own oracle on the real interpreter (stream c06.terms: write
  to a stream, read back with the same operator table and flag, compare) and by model/implementation
  agreement of the written text and of the term read back. -/

/-- P1: `write_canonical(T)` followed by ` .` is read back by `read_term` as `T` with its variables
    renamed by first occurrence — for EVERY finite term `T` (atoms of arbitrary text incl. operators
    as atoms and functors, `[]`, `{}`, negative numbers, nested compounds of any arity), EVERY operator
    table `ops` (the reader consults it at `prefix`, `arg`, `term0Atom`, `infix`) and every
    double_quotes flag.  Hypotheses: `T` is well formed (compounds have arguments, no stream handles),
    its integers are 64-bit, and the two parameters of the writer model behave: variable names are
    distinct `_`-tokens, and for the floats of `T` (`P`) `FormatFloat` returns a text of its grammar
    (`G`) that `float()` reads back to the same bits (`EnvOK`: the library round-trip law, checked per
    case by c06.numbers / c06.terms). -/
theorem C06_canonical_roundtrip (e : Env) (G : UInt64 → GText) (P : UInt64 → Bool) (he : EnvOK e G P)
    (ops : Ops.Table) (dq : Read.DoubleQuotes) (t : Term) (hw : wfTerm t = true) (hn : numsOK P t = true) :
    Read.readTerm e.cfg ops dq (writeCanonical e ops t ++ [' ', '.']) = .ok t.canon :=
  readTerm_writeCanonical e G P he ops dq t hw hn

/-- ... and the text is what the lexer turns into the token sequence `ctoks` -/
theorem C06_canonical_tokens (e : Env) (G : UInt64 → GText) (P : UInt64 → Bool) (he : EnvOK e G P)
    (ops : Ops.Table) (t : Term) (hw : wfTerm t = true) (hn : numsOK P t = true) :
    (tokens e.cfg ((writeCanonical e ops t ++ [' ', '.']).length + 1)
      (Lexer.ofList (writeCanonical e ops t ++ [' ', '.']))).1 = ctoks e G t ++ [⟨.end_, ['.']⟩] := by
  rw [writeCanonical_eq e ops t hw]
  have hseq : LexSeq e.cfg (canonText e t ++ [' ', '.']) (ctoks e G t ++ [⟨.end_, ['.']⟩]) [] :=
    LexSeq.append e.cfg (y := [' ', '.'])
      (by simpa using lexSeq_term e G P he t [' ', '.'] hw hn (HeadIs.cons (.inl rfl)))
      (LexSeq.single e.cfg (lexTok_end e.cfg he.conv))
  exact tokens_all e.cfg hseq _ (by have := hseq.length_le; omega)

-- non-vacuity of `EnvOK`: see `PrologVerif.C06Example.exEnv_ok` at the top of this file
open PrologVerif.C06Example in
example : EnvOK exEnv exG exP := exEnv_ok

open PrologVerif.C06Example in
-- non-vacuity: f('hello world', -(1), - 1, 1.5, X, [], X, '[]'(a)) under the default table
example :
    let t : Term := .app "f" (.cons (.atom "hello world") (.cons (.app "-" (.cons (.int 1) .nil))
      (.cons (.int (-1)) (.cons (.flt 0x3FF8000000000000) (.cons (.var 0) (.cons (.atom "[]")
      (.cons (.var 0) (.cons (.app "[]" (.cons (.atom "-") .nil)) .nil))))))))
    wfTerm t = true ∧ numsOK exP t = true ∧
    writeCanonical exEnv Ops.defaultTable t = "f('hello world',-(1),-1,1.5,_a,[],_a,[](-))".toList := by
  decide +kernel

/-! ### P2: `writeq` with operators

  `qt e G t o` (Proofs/OpRoundtripDefs.lean) is the token sequence the text of `writeq` is meant to lex to,
  defined by the writer's own recursion (same bracket conditions).  The reader half is proved for EVERY
  well-formed term and EVERY operator table satisfying `tableOK` (implied by the invariant `Ops.Valid` of
  Properties/C18, hence true of every table reachable through op/3): the classical correctness argument of
  operator-precedence printing, on the model of `Parser.term` — `term(mp)` reads `qt t o` as `t` whenever
  the writer's priority for the position is ≤ `mp` and the next token cannot continue the term at any
  priority the writer relied on (`Write.qspec_all`, by induction on the term: prefix / postfix / infix
  operators with brackets by priority and by the operator on the right, operators as atoms and arguments,
  negative numbers, `- (1)`, `,` `|` `[]` `{}`, lists, curly terms, functional notation). -/

/-- The full statement kept visible.  As it stands it is FALSE; `C06_op_roundtrip` below is the same
    conclusion under hypotheses, and this is exactly what separates the two:
    * on the term: `wfTerm` and `numsOK` (the model's `Term` has stream handles, compounds without arguments
      and unbounded integers, which the engine's terms do not have; floats must be among those the
      `FormatFloat` parameter is known for) and `noVAR` (writeq prints `'$VAR'(N)` as a variable name, by
      design: `C06_op_roundtrip_numbervars_witness`);
    * on the table: `tableOK`, every conjunct of which is needed (`C06_op_roundtrip_priority_witness`,
      `…_infix_postfix_witness`, `…_comma_witness`, `…_bar_witness`, `…_brackets_witness`) and which holds of
      every table op/3 can produce (`C06_tableOK_of_valid`, `C18_inv`);
    * on the writer's parameters: `EnvOK` (variable names are distinct `_`-tokens, `FormatFloat` round-trips)
      and `CapOK` (`C06_op_roundtrip_capital_witness`; true of
      the real character tables, `C06_capOK_driver`). -/
def C06_op_roundtrip_statement : Prop :=
  ∀ (e : Env) (ops : Ops.Table) (dq : Read.DoubleQuotes) (t : Term),
    (∀ c, e.cfg.conv c = c) →
    Read.readTerm e.cfg ops dq (writeq e ops t ++ [' ', '.']) = .ok t.canon

/-- **P2.**  `writeq(T)` followed by ` .` is read back by `read_term` as `T` with its variables renamed by
    first occurrence — for EVERY well-formed finite term `T` without `'$VAR'(N)` (atoms of arbitrary text,
    operators as atoms / operands / functors, negative numbers, `- (1)`, `1 - -1`, `- - a`, `f(:-)`, `[a|b]`,
    `{a,b}`, nested prefix / infix / postfix operators of any priorities and associativities, functional
    notation of any arity), EVERY operator table with `tableOK` (in particular every table reachable through
    op/3, `C06_tableOK_of_valid`) and every double_quotes flag.  Hypotheses:
    * `EnvOK e G P`, `numsOK P T`, `wfTerm T` as for P1 (`C06_canonical_roundtrip`);
      (that `FormatFloat` prints `-` exactly for floats with the sign bit set — the writer decides brackets
      and spaces by `math.Signbit` — follows from `EnvOK.fltLaw`: `Write.signOK_of_envOK`);
    * `CapOK e.cfg`: the character-class oracle counts no graphic character as a capital letter (true of
      Go's tables: `C06_capOK_driver`; needed: `C06_op_roundtrip_capital_witness`);
    * `tableOK ops` (needed: the `…_witness` theorems below, one per conjunct);
    * `noVAR T` (needed: `C06_op_roundtrip_numbervars_witness`). -/
theorem C06_op_roundtrip (e : Env) (G : UInt64 → GText) (P : UInt64 → Bool) (he : EnvOK e G P)
    (hcap : CapOK e.cfg) (ops : Ops.Table) (hops : tableOK ops = true) (dq : Read.DoubleQuotes) (t : Term)
    (hw : wfTerm t = true) (hn : numsOK P t = true) (hv : noVAR t = true) :
    Read.readTerm e.cfg ops dq (writeq e ops t ++ [' ', '.']) = .ok t.canon :=
  readTerm_writeq e G P he hcap ops hops dq t hw hn hv

/-- … in particular under every operator table that satisfies the invariant `Ops.Valid` of C18, i.e. every
    table reachable from the default table through op/3 (`C18_inv`) -/
theorem C06_op_roundtrip_valid (e : Env) (G : UInt64 → GText) (P : UInt64 → Bool) (he : EnvOK e G P)
    (hcap : CapOK e.cfg) (ops : Ops.Table) (hvalid : Ops.Valid ops) (dq : Read.DoubleQuotes) (t : Term)
    (hw : wfTerm t = true) (hn : numsOK P t = true) (hv : noVAR t = true) :
    Read.readTerm e.cfg ops dq (writeq e ops t ++ [' ', '.']) = .ok t.canon :=
  readTerm_writeq e G P he hcap ops (tableOK_of_valid hvalid) dq t hw hn hv

/-- P2, writer/lexer half: the text lexes to exactly the token sequence `qt` — the spacing rules of the
    writer never glue two tokens together nor split one (`Write.lexSeq_qt_cont`, by induction on the term) -/
theorem C06_op_tokens (e : Env) (G : UInt64 → GText) (P : UInt64 → Bool) (he : EnvOK e G P)
    (hcap : CapOK e.cfg) (ops : Ops.Table) (hops : tableOK ops = true) (t : Term)
    (hw : wfTerm t = true) (hn : numsOK P t = true) (hv : noVAR t = true) :
    (tokens e.cfg ((writeq e ops t ++ [' ', '.']).length + 1) (Lexer.ofList (writeq e ops t ++ [' ', '.']))).1 =
      qt e G t (qopts ops) ++ [⟨.end_, ['.']⟩] := by
  have hseq := lexSeq_writeq e G P he (signOK_of_envOK he) hcap ops hops t hw hn hv
  exact tokens_all e.cfg hseq _ (by have := hseq.length_le; omega)

/-- P2, reader half on its own: if the text lexes to the tokens `qt` (a decidable check, `Write.lexOK`), then
    `read_term` returns `T` — needs neither `CapOK` nor `noVAR`. -/
theorem C06_op_roundtrip_of_tokens (e : Env) (G : UInt64 → GText) (P : UInt64 → Bool) (he : EnvOK e G P)
    (ops : Ops.Table) (hops : tableOK ops = true) (dq : Read.DoubleQuotes) (t : Term)
    (hw : wfTerm t = true) (hn : numsOK P t = true) (hlex : lexOK e G ops t = true) :
    Read.readTerm e.cfg ops dq (writeq e ops t ++ [' ', '.']) = .ok t.canon :=
  readTerm_writeq_of_lexOK e G P he ops hops dq t hw hn hlex

/-- the character-class oracle the driver runs with (tables regenerated from the Go toolchain's package
    unicode) counts no graphic character as a capital letter; nor does the ASCII oracle -/
theorem C06_capOK_driver : CapOK Driver.C06.cfg ∧ CapOK Cfg.ascii := ⟨capOK_driver, capOK_ascii⟩

/-- every table reachable from the default table through op/3 (`Ops.Valid`, C18_inv) satisfies `tableOK` -/
theorem C06_tableOK_of_valid (ops : Ops.Table) (h : Ops.Valid ops) : tableOK ops = true := tableOK_of_valid h

namespace OpExample
open PrologVerif.C06Example

/-- `- (1) + a * (b - c) :- \+ f(- , X)` -/
def exT : Term :=
  .app ":-" (.cons
    (.app "+" (.cons (.app "-" (.cons (.int 1) .nil))
      (.cons (.app "*" (.cons (.atom "a") (.cons (.app "-" (.cons (.atom "b") (.cons (.atom "c") .nil))) .nil))) .nil)))
    (.cons (.app "\\+" (.cons (.app "f" (.cons (.atom "-") (.cons (.var 7) .nil))) .nil)) .nil))

end OpExample

open OpExample PrologVerif.C06Example in
-- non-vacuity: the hypotheses hold for this term under the default table, and this is what is written
example : tableOK Ops.defaultTable = true ∧ wfTerm exT = true ∧ numsOK exP exT = true ∧ noVAR exT = true ∧
    lexOK exEnv exG Ops.defaultTable exT = true ∧
    writeq exEnv Ops.defaultTable exT = "- (1)+a*(b-c):- \\+f(-,_aaaaaaaa)".toList := by
  decide +kernel

open OpExample PrologVerif.C06Example in
-- … so the theorem applies to it (every hypothesis discharged), for every double_quotes flag
example (dq : Read.DoubleQuotes) :
    Read.readTerm exEnv.cfg Ops.defaultTable dq (writeq exEnv Ops.defaultTable exT ++ [' ', '.']) = .ok exT.canon :=
  C06_op_roundtrip exEnv exG exP exEnv_ok capOK_ascii Ops.defaultTable (by decide +kernel) dq exT
    (by decide +kernel) (by decide +kernel) (by decide +kernel)

/-! #### the hypotheses are needed: witnesses on the model

  None of the tables below is reachable through op/3 (`validateOp` refuses them), so these are not defects
  of the implementation; `'$VAR'(N)` is printed as a variable name by design (numbervars(true)). -/

section
open PrologVerif.C06Example

/-- the model round trip as an option -/
def rtq (ops : Ops.Table) (t : Term) : Option Term :=
  (Read.readTerm exEnv.cfg ops .chars (writeq exEnv ops t ++ [' ', '.'])).toOption

/-- `noVAR`: writeq('$VAR'(1)) is `B`, read back as a variable -/
theorem C06_op_roundtrip_numbervars_witness :
    rtq Ops.defaultTable (.app "$VAR" (.cons (.int 1) .nil)) = some (.var 0) := by decide +kernel

/-- `numsOK`: the model's integers are unbounded, the engine's are 64-bit: 2^64 is written in full and
    refused by `integer()` (representation_error) -/
theorem C06_op_roundtrip_bigint_witness : rtq Ops.defaultTable (.int 18446744073709551616) = none := by
  decide +kernel

/-- `wfTerm`: a stream handle is written `<stream>`; a "compound" without arguments is written as its functor -/
theorem C06_op_roundtrip_wf_witness :
    rtq Ops.defaultTable (.str 0) = none ∧ rtq Ops.defaultTable (.app "f" .nil) = some (.atom "f") := by
  decide +kernel

/-- `tableOK`, no infix and postfix operator of one name: with op p as (700,xfx) and (200,xf), `p(a)` is
    written `a p`, where the reader takes `p` for the infix operator -/
theorem C06_op_roundtrip_infix_postfix_witness :
    rtq [⟨",", 1000, .xfy⟩, ⟨"p", 700, .xfx⟩, ⟨"p", 200, .xf⟩] (.app "p" (.cons (.atom "a") .nil)) = none := by
  decide +kernel

/-- `tableOK`, `,` has priority 1000: with (200,xfy) the argument `(a,b)` of `f((a,b))` is not bracketed -/
theorem C06_op_roundtrip_comma_witness :
    rtq [⟨",", 200, .xfy⟩] (.app "f" (.cons (.app "," (.cons (.atom "a") (.cons (.atom "b") .nil))) .nil)) =
      some (.app "f" (.cons (.atom "a") (.cons (.atom "b") .nil))) := by
  decide +kernel

/-- `tableOK`, `|` has priority ≥ 1001: with (200,xfy) the list `[a|b]` is read as `['|'(a,b)]` -/
theorem C06_op_roundtrip_bar_witness :
    rtq [⟨",", 1000, .xfy⟩, ⟨"|", 200, .xfy⟩] (.app "." (.cons (.atom "a") (.cons (.atom "b") .nil))) =
      some (.app "." (.cons (.app "|" (.cons (.atom "a") (.cons (.atom "b") .nil))) (.cons (.atom "[]") .nil))) := by
  decide +kernel

/-- `tableOK`, `[]` is not an operator: `'[]'(a,b)` would be written `a[]b`, which the reader rejects -/
theorem C06_op_roundtrip_brackets_witness :
    rtq [⟨"[]", 200, .xfx⟩] (.app "[]" (.cons (.atom "a") (.cons (.atom "b") .nil))) = none := by
  decide +kernel

/-- `tableOK`, priorities ≤ 1200: with (1300,fy) `p(a)` is written `(p a)`, which the reader rejects -/
theorem C06_op_roundtrip_priority_witness :
    rtq [⟨"p", 1300, .fy⟩] (.app "p" (.cons (.atom "a") .nil)) = none := by
  decide +kernel

/-- `CapOK`: if the oracle counted the graphic character `∀` as a capital letter, `∀(a,b)` (with `∀` an infix
    operator) would be written `a∀b`, which is one letter-digit token (the writer's `letterDigit` looks for
    small letters only, the lexer continues a name over every alphanumeric); `Write.cex_capOK` has all the
    other hypotheses -/
theorem C06_op_roundtrip_capital_witness :
    (Read.readTerm cexEnv.cfg cexOps .chars (writeq cexEnv cexOps cexTerm ++ [' ', '.'])).toOption =
      some (.atom "a∀b") := by
  decide +kernel

/-- D26 on the tree before repo commit 88ee1dd: under op(200,xf,e1) `writeq(e1(1.5))` printed `1.5e1`
    (only the operators named `e` and `E` were kept apart from a float), which is the float 15.0 -/
theorem C06_op_roundtrip_D26_pinned_witness :
    (Read.readTerm exEnv.cfg [⟨"e1", 200, .xf⟩] .chars "1.5e1 .".toList).toOption = some (.flt 0x402E000000000000) := by
  decide +kernel

/-- … the repaired writer puts a space, and the text reads back -/
example : writeq exEnv [⟨"e1", 200, .xf⟩] (.app "e1" (.cons (.flt 0x3FF8000000000000) .nil)) = "1.5 e1".toList ∧
    rtq [⟨"e1", 200, .xf⟩] (.app "e1" (.cons (.flt 0x3FF8000000000000) .nil)) =
      some (.app "e1" (.cons (.flt 0x3FF8000000000000) .nil)) := by
  decide +kernel

end

end PrologVerif.C06
