package main

// C16: relational built-ins called in every instantiation pattern.
//
// case payload:  <pred> <k> <arg1> … <argN>     (args in wire format, variables V0,V1,…; k = answers taken)
// impl output:   ans [<t(args) after answer 1>, …]   |   err <Formal>   |   ans […] err <Formal>
// Every answer is the tuple of the call's arguments under the answer substitution, variables renamed by
// first occurrence.  Order of the answers is part of the output.

import (
	"fmt"
	"math"
	"math/rand"
	"strings"
	"sync"
	"time"
	"unicode/utf8"

	"github.com/ichiban/prolog"
	"github.com/ichiban/prolog/engine"
)

func init() {
	register(&stream{name: "c16.rel", gen: genC16, run: runC16})
}

// ---------------------------------------------------------------------------------------------
// runner
// ---------------------------------------------------------------------------------------------

var c16Pool = sync.Pool{New: func() interface{} {
	i, _ := newInterp("")
	return i
}}

var c16Names = map[string]string{"univ": "=.."}

const c16MaxDepth = 2000

// encTermSafe is encTerm with a depth guard: the engine has no occurs check, a cyclic answer must not
// kill the process.
func encTermSafe(sb *strings.Builder, t engine.Term, env *engine.Env, vn *varNamer, depth int) bool {
	if depth > c16MaxDepth {
		return false
	}
	if sb.Len() > 0 {
		sb.WriteByte(' ')
	}
	switch t := env.Resolve(t).(type) {
	case engine.Variable:
		fmt.Fprintf(sb, "V%d", vn.name(t))
	case engine.Atom:
		sb.WriteString("A" + encName(t.String()))
	case engine.Integer:
		fmt.Fprintf(sb, "I%d", int64(t))
	case engine.Float:
		fmt.Fprintf(sb, "F%016x", math.Float64bits(float64(t)))
	case engine.Compound:
		fmt.Fprintf(sb, "C%d:%s", t.Arity(), encName(t.Functor().String()))
		for i := 0; i < t.Arity(); i++ {
			if !encTermSafe(sb, t.Arg(i), env, vn, depth+1) {
				return false
			}
		}
	default:
		fmt.Fprintf(sb, "A%s", encName(fmt.Sprintf("$unknown(%T)", t)))
	}
	return true
}

func c16Mode(t engine.Term) byte {
	switch t := t.(type) {
	case engine.Variable:
		return '-'
	case engine.Compound:
		if c16Ground(t) {
			return '+'
		}
		return 'p'
	default:
		return '+'
	}
}

func c16Ground(t engine.Term) bool {
	switch t := t.(type) {
	case engine.Variable:
		return false
	case engine.Compound:
		for i := 0; i < t.Arity(); i++ {
			if !c16Ground(t.Arg(i)) {
				return false
			}
		}
	}
	return true
}

func c16MultiByte(t engine.Term) bool {
	switch t := t.(type) {
	case engine.Atom:
		s := t.String()
		return len(s) != utf8.RuneCountInString(s)
	case engine.Integer:
		return t > 127 && t <= utf8.MaxRune
	case engine.Compound:
		if s := t.Functor().String(); len(s) != utf8.RuneCountInString(s) {
			return true
		}
		for i := 0; i < t.Arity(); i++ {
			if c16MultiByte(t.Arg(i)) {
				return true
			}
		}
	}
	return false
}

func runC16(payload string) string {
	f := strings.SplitN(strings.TrimSpace(payload), " ", 3)
	if len(f) < 3 {
		panic("bad c16 payload")
	}
	pred := f[0]
	var k int
	_, err := fmt.Sscanf(f[1], "%d", &k)
	must(err)
	d := newTermDecoder()
	args, err := d.terms(f[2])
	must(err)
	name := pred
	if n, ok := c16Names[pred]; ok {
		name = n
	}
	i := c16Pool.Get().(*prolog.Interpreter)
	defer c16Pool.Put(i)

	tmpl := compound("t", args...)
	var rows []string
	cyclic := false
	_, err = solve(&i.VM, compound(name, args...), k, 10*time.Second, func(env *engine.Env) bool {
		var sb strings.Builder
		if !encTermSafe(&sb, tmpl, env, newVarNamer(), 0) {
			cyclic = true
			rows = append(rows, "CYCLIC")
			return false
		}
		rows = append(rows, sb.String())
		return true
	})
	var out string
	switch {
	case err != nil && len(rows) == 0:
		out = errWire(err)
	case err != nil:
		out = "ans [" + strings.Join(rows, ", ") + "] " + errWire(err)
	default:
		out = "ans [" + strings.Join(rows, ", ") + "]"
	}
	mode := make([]byte, len(args))
	mb := 0
	for j, a := range args {
		mode[j] = c16Mode(a)
		if c16MultiByte(a) {
			mb = 1
		}
	}
	nt := 0
	if len(rows) >= 2 || mb == 1 {
		nt = 1
	}
	nb := "0"
	switch {
	case err != nil && len(rows) == 0:
		nb = "err"
	case len(rows) == 1:
		nb = "1"
	case len(rows) >= 2 && len(rows) <= 4:
		nb = "2-4"
	case len(rows) >= 5:
		nb = "5+"
	}
	_ = cyclic
	return out + fmt.Sprintf(" ### nt=%d pred=%s mode=%s:%s answers=%s multibyte=%d", nt, pred, pred, mode, nb, mb)
}

// ---------------------------------------------------------------------------------------------
// payload builders (wire strings; variables are small numbers local to the case)
// ---------------------------------------------------------------------------------------------

func wV_c16(n int) string      { return fmt.Sprintf("V%d", n) }
func wA_c16(s string) string   { return "A" + encName(s) }
func wI_c16(i int64) string    { return fmt.Sprintf("I%d", i) }
func wF() string           { return "F3ff8000000000000" } // 1.5
func wC_c16(f string, args ...string) string {
	return fmt.Sprintf("C%d:%s %s", len(args), encName(f), strings.Join(args, " "))
}
func wL(tail string, elems ...string) string {
	out := tail
	for i := len(elems) - 1; i >= 0; i-- {
		out = wC_c16(".", elems[i], out)
	}
	return out
}
func wNil_c16() string { return wA_c16("[]") }
func wList_c16(elems ...string) string { return wL(wNil_c16(), elems...) }

func c16Case(pred string, k int, args ...string) string {
	return fmt.Sprintf("%s %d %s", pred, k, strings.Join(args, " "))
}

const (
	c16MaxInt = int64(9223372036854775807)
	c16MinInt = int64(-9223372036854775808)
	c16K      = 400 // answers taken from finite enumerations
	c16KInf   = 6   // answers taken from (possibly) infinite enumerations
)

var c16Sigma = []string{"a", "b", "é", "€", "😀"}

// all texts over sigma with exactly n code points
func c16Texts(n int) [][]string {
	if n == 0 {
		return [][]string{{}}
	}
	var out [][]string
	for _, p := range c16Texts(n - 1) {
		for _, c := range c16Sigma {
			q := append(append([]string{}, p...), c)
			out = append(out, q)
		}
	}
	return out
}

func c16TextsUpTo(n int) [][]string {
	var out [][]string
	for i := 0; i <= n; i++ {
		out = append(out, c16Texts(i)...)
	}
	return out
}

func join(cs []string) string { return strings.Join(cs, "") }

func charListW(cs []string) []string {
	out := make([]string, len(cs))
	for i, c := range cs {
		out[i] = wA_c16(c)
	}
	return out
}

func codeListW(cs []string) []string {
	out := make([]string, len(cs))
	for i, c := range cs {
		r, _ := utf8.DecodeRuneInString(c)
		out[i] = wI_c16(int64(r))
	}
	return out
}

// ill-typed / out-of-mode argument values
var c16Junk = []string{wI_c16(1), wF(), wC_c16("f", wA_c16("a")), wI_c16(-1), wA_c16("foo")}

// ---------------------------------------------------------------------------------------------
// systematic (small-scope exhaustive) cases; scope = maximal text / list length
// ---------------------------------------------------------------------------------------------

func sysAtomLength(scope int) []string {
	var out []string
	for _, cs := range c16TextsUpTo(scope + 1) {
		s, n := wA_c16(join(cs)), int64(len(cs))
		out = append(out, c16Case("atom_length", c16K, s, wV_c16(0)), c16Case("atom_length", c16K, s, wI_c16(n)),
			c16Case("atom_length", c16K, s, wI_c16(n+1)))
		if n > 0 {
			out = append(out, c16Case("atom_length", c16K, s, wI_c16(int64(len(join(cs)))))) // byte length
		}
	}
	for _, j := range append(c16Junk, wV_c16(1)) {
		out = append(out, c16Case("atom_length", c16K, j, wV_c16(0)), c16Case("atom_length", c16K, wA_c16("é"), j),
			c16Case("atom_length", c16K, j, wI_c16(-1)), c16Case("atom_length", c16K, wV_c16(0), j))
	}
	return out
}

func sysAtomConcat(scope int) []string {
	var out []string
	p := "atom_concat"
	for _, cs := range c16TextsUpTo(scope) {
		c := wA_c16(join(cs))
		out = append(out, c16Case(p, c16K, wV_c16(0), wV_c16(1), c), c16Case(p, c16K, wV_c16(0), wV_c16(0), c),
			c16Case(p, c16K, wA_c16("b"), wV_c16(0), c), c16Case(p, c16K, wV_c16(0), wA_c16("é"), c), c16Case(p, c16K, wV_c16(0), wA_c16(""), c))
		for i := 0; i <= len(cs); i++ {
			a, b := wA_c16(join(cs[:i])), wA_c16(join(cs[i:]))
			out = append(out, c16Case(p, c16K, a, wV_c16(0), c), c16Case(p, c16K, wV_c16(0), b, c),
				c16Case(p, c16K, a, b, c), c16Case(p, c16K, a, b, wV_c16(0)), c16Case(p, c16K, b, a, c))
		}
	}
	x := wA_c16("é€")
	for _, j := range c16Junk[:3] {
		out = append(out, c16Case(p, c16K, j, wV_c16(0), x), c16Case(p, c16K, wV_c16(0), j, x), c16Case(p, c16K, wV_c16(0), wV_c16(1), j),
			c16Case(p, c16K, j, wA_c16("b"), wV_c16(0)), c16Case(p, c16K, wA_c16("a"), j, wV_c16(0)), c16Case(p, c16K, j, j, j),
			c16Case(p, c16K, j, wV_c16(0), wV_c16(1)), c16Case(p, c16K, wV_c16(0), j, wV_c16(1)))
	}
	out = append(out, c16Case(p, c16K, wV_c16(0), wV_c16(1), wV_c16(2)), c16Case(p, c16K, wA_c16("a"), wV_c16(1), wV_c16(2)),
		c16Case(p, c16K, wV_c16(0), wA_c16("b"), wV_c16(2)), c16Case(p, c16K, wV_c16(0), wV_c16(0), wV_c16(0)))
	return out
}

func sysSubAtom(scope int) []string {
	var out []string
	p := "sub_atom"
	for _, cs := range c16TextsUpTo(scope) {
		w, n := wA_c16(join(cs)), len(cs)
		out = append(out, c16Case(p, c16K, w, wV_c16(0), wV_c16(1), wV_c16(2), wV_c16(3)))
		for i := 0; i <= n; i++ {
			for j := i; j <= n; j++ {
				tuple := []string{wI_c16(int64(i)), wI_c16(int64(j - i)), wI_c16(int64(n - j)), wA_c16(join(cs[i:j]))}
				for m := 1; m < 16; m++ {
					args := []string{w}
					v := 0
					for q := 0; q < 4; q++ {
						if m&(1<<q) != 0 {
							args = append(args, tuple[q])
						} else {
							args = append(args, wV_c16(v))
							v++
						}
					}
					out = append(out, c16Case(p, c16K, args...))
				}
			}
		}
		// patterns that are not taken from a tuple of the relation
		out = append(out, c16Case(p, c16K, w, wV_c16(0), wV_c16(1), wV_c16(2), wA_c16("b")), c16Case(p, c16K, w, wV_c16(0), wV_c16(1), wV_c16(2), wA_c16("é")),
			c16Case(p, c16K, w, wV_c16(0), wV_c16(0), wV_c16(1), wV_c16(2)), c16Case(p, c16K, w, wV_c16(0), wV_c16(1), wV_c16(0), wV_c16(2)),
			c16Case(p, c16K, w, wV_c16(0), wV_c16(0), wV_c16(0), wV_c16(1)), c16Case(p, c16K, w, wI_c16(int64(n+1)), wV_c16(0), wV_c16(1), wV_c16(2)),
			c16Case(p, c16K, w, wV_c16(0), wI_c16(int64(len(join(cs)))), wV_c16(1), wV_c16(2)), // byte length
			c16Case(p, c16K, w, wV_c16(0), wV_c16(1), wV_c16(2), w), c16Case(p, c16K, w, wI_c16(1), wI_c16(1), wV_c16(2), wV_c16(3)))
	}
	x := wA_c16("é€")
	for _, j := range append(c16Junk, wV_c16(9)) {
		out = append(out, c16Case(p, c16K, j, wV_c16(0), wV_c16(1), wV_c16(2), wV_c16(3)), c16Case(p, c16K, x, j, wV_c16(1), wV_c16(2), wV_c16(3)),
			c16Case(p, c16K, x, wV_c16(0), j, wV_c16(2), wV_c16(3)), c16Case(p, c16K, x, wV_c16(0), wV_c16(1), j, wV_c16(3)),
			c16Case(p, c16K, x, wV_c16(0), wV_c16(1), wV_c16(2), j), c16Case(p, c16K, x, j, j, j, j))
	}
	return out
}

func sysAtomChars(scope int, codes bool) []string {
	var out []string
	p := "atom_chars"
	conv := charListW
	if codes {
		p = "atom_codes"
		conv = codeListW
	}
	for _, cs := range c16TextsUpTo(scope) {
		a, es := wA_c16(join(cs)), conv(cs)
		out = append(out, c16Case(p, c16K, a, wV_c16(0)), c16Case(p, c16K, a, wList_c16(es...)), c16Case(p, c16K, wV_c16(0), wList_c16(es...)),
			c16Case(p, c16K, a, wList_c16(append(append([]string{}, es...), conv([]string{"a"})...)...)),
			c16Case(p, c16K, a, wList_c16(wV_c16(0), wV_c16(0))), c16Case(p, c16K, wA_c16(join(cs)+"b"), wList_c16(es...)))
		for i := 0; i < len(es); i++ {
			out = append(out, c16Case(p, c16K, a, wL(wV_c16(0), es[:i]...)))
			withVar := append([]string{}, es...)
			withVar[i] = wV_c16(0)
			out = append(out, c16Case(p, c16K, a, wList_c16(withVar...)), c16Case(p, c16K, wV_c16(1), wList_c16(withVar...)))
			other := append([]string{}, es...)
			other[i] = conv([]string{"€"})[0]
			out = append(out, c16Case(p, c16K, a, wList_c16(other...)))
			out = append(out, c16Case(p, c16K, wV_c16(1), wL(wV_c16(0), es[:i+1]...)))
		}
	}
	x := wA_c16("é€")
	bad := []string{wA_c16("ab"), wA_c16(""), wI_c16(1), wI_c16(-1), wI_c16(0x110000), wI_c16(0xD800), wI_c16(0xDFFF), wI_c16(4294967393), wF(), wC_c16("f", wA_c16("a"))}
	for _, b := range bad {
		out = append(out, c16Case(p, c16K, wV_c16(0), wList_c16(b)), c16Case(p, c16K, x, wList_c16(b)), c16Case(p, c16K, x, wList_c16(wV_c16(0), b)),
			c16Case(p, c16K, wV_c16(0), wList_c16(b, wV_c16(1))), c16Case(p, c16K, wV_c16(0), wL(wA_c16("foo"), b)), c16Case(p, c16K, b, wV_c16(0)))
	}
	out = append(out, c16Case(p, c16K, wV_c16(0), wV_c16(1)), c16Case(p, c16K, x, wA_c16("foo")), c16Case(p, c16K, x, wL(wA_c16("foo"), wV_c16(0))),
		c16Case(p, c16K, wV_c16(0), wA_c16("foo")), c16Case(p, c16K, wV_c16(0), wL(wI_c16(1), wA_c16("a"))), c16Case(p, c16K, wA_c16("[]"), wV_c16(0)),
		c16Case(p, c16K, wV_c16(0), wNil_c16()), c16Case(p, c16K, wA_c16(""), wV_c16(0)), c16Case(p, c16K, wA_c16(""), wNil_c16()))
	return out
}

// boundary code points of the UTF-8 encoding lengths, surrogates, limits
var c16Codes = []int64{0, 1, 0x41, 0x61, 0x7f, 0x80, 0xe9, 0x7ff, 0x800, 0x20ac, 0xd7ff, 0xd800, 0xdfff, 0xe000, 0xfffc, 0xfffd, 0xfffe, 0xffff,
	0x10000, 0x1f600, 0x10ffff, 0x110000, -1, 4294967393, -4294967199, c16MaxInt, c16MinInt}

func sysCharCode() []string {
	var out []string
	p := "char_code"
	for _, cd := range c16Codes {
		out = append(out, c16Case(p, c16K, wV_c16(0), wI_c16(cd)))
		if cd >= 0 && cd <= 0x10ffff && !(cd >= 0xd800 && cd <= 0xdfff) {
			ch := wA_c16(string(rune(cd)))
			out = append(out, c16Case(p, c16K, ch, wV_c16(0)), c16Case(p, c16K, ch, wI_c16(cd)), c16Case(p, c16K, ch, wI_c16(cd+1)),
				c16Case(p, c16K, ch, wI_c16(cd+4294967296)))
		}
	}
	for _, c := range c16Sigma {
		out = append(out, c16Case(p, c16K, wA_c16(c), wV_c16(0)), c16Case(p, c16K, wA_c16(c+c), wV_c16(0)), c16Case(p, c16K, wA_c16(c), wA_c16(c)))
	}
	for _, j := range append(c16Junk, wV_c16(1), wA_c16(""), wA_c16("ab")) {
		out = append(out, c16Case(p, c16K, j, wV_c16(0)), c16Case(p, c16K, wV_c16(0), j), c16Case(p, c16K, wA_c16("é"), j), c16Case(p, c16K, j, wI_c16(97)))
	}
	return out
}

var c16NearZero = []int64{-3, -2, -1, 0, 1, 2, 3}
var c16NearLimits = []int64{c16MinInt, c16MinInt + 1, c16MinInt + 2, c16MaxInt - 2, c16MaxInt - 1, c16MaxInt}

func sysBetween() []string {
	var out []string
	p := "between"
	grid := func(vals []int64) {
		for _, l := range vals {
			for _, h := range vals {
				out = append(out, c16Case(p, c16KInf+2, wI_c16(l), wI_c16(h), wV_c16(0)))
				for _, x := range vals {
					out = append(out, c16Case(p, c16K, wI_c16(l), wI_c16(h), wI_c16(x)))
				}
			}
		}
	}
	grid(c16NearZero)
	grid(c16NearLimits)
	for _, l := range []int64{c16MinInt, -1, 0, c16MaxInt - 3} {
		out = append(out, c16Case(p, c16KInf, wI_c16(l), wI_c16(c16MaxInt), wV_c16(0)), c16Case(p, 1, wI_c16(l), wI_c16(c16MaxInt), wV_c16(0)))
	}
	for _, j := range []string{wV_c16(1), wA_c16("inf"), wA_c16("infinite"), wF(), wC_c16("f", wA_c16("a"))} {
		out = append(out, c16Case(p, c16K, j, wI_c16(2), wV_c16(0)), c16Case(p, c16K, wI_c16(1), j, wV_c16(0)), c16Case(p, c16K, wI_c16(1), wI_c16(2), j),
			c16Case(p, c16K, wI_c16(3), wI_c16(2), j), c16Case(p, c16K, j, j, j))
	}
	return out
}

func sysSucc() []string {
	var out []string
	vals := []string{wV_c16(0), wV_c16(1), wI_c16(-1), wI_c16(0), wI_c16(1), wI_c16(2), wI_c16(3), wI_c16(c16MaxInt - 1), wI_c16(c16MaxInt), wI_c16(c16MinInt), wA_c16("foo"), wF(), wC_c16("f", wA_c16("a"))}
	for _, x := range vals {
		for _, s := range vals {
			out = append(out, c16Case("succ", c16K, x, s))
		}
	}
	return out
}

func sysFunctor() []string {
	var out []string
	ts := []string{wV_c16(0), wA_c16("foo"), wI_c16(1), wF(), wC_c16("f", wA_c16("a")), wC_c16("f", wV_c16(1), wV_c16(2)), wList_c16(wA_c16("a")), wC_c16("é", wA_c16("b"), wA_c16("€")), wC_c16("g", wV_c16(1)), wA_c16("[]")}
	ns := []string{wV_c16(1), wA_c16("foo"), wA_c16("f"), wA_c16("é"), wA_c16("."), wI_c16(1), wF(), wC_c16("g", wA_c16("x")), wA_c16("[]")}
	as := []string{wV_c16(2), wI_c16(0), wI_c16(1), wI_c16(2), wI_c16(3), wI_c16(9), wI_c16(-1), wA_c16("foo"), wF(), wI_c16(c16MaxInt), wI_c16(1 << 50)}
	for _, t := range ts {
		for _, n := range ns {
			for _, a := range as {
				out = append(out, c16Case("functor", c16K, t, n, a))
			}
		}
	}
	out = append(out, c16Case("functor", c16K, wV_c16(0), wV_c16(0), wI_c16(0)), c16Case("functor", c16K, wV_c16(0), wA_c16("a"), wV_c16(0)),
		c16Case("functor", c16K, wC_c16("f", wV_c16(0)), wV_c16(0), wV_c16(1)), c16Case("functor", c16K, wC_c16("f", wV_c16(0)), wV_c16(1), wV_c16(0)),
		c16Case("functor", c16K, wC_c16("f", wV_c16(0)), wV_c16(1), wV_c16(1)))
	return out
}

func sysArg() []string {
	var out []string
	ns := []string{wV_c16(0), wI_c16(-1), wI_c16(0), wI_c16(1), wI_c16(2), wI_c16(3), wI_c16(4), wA_c16("foo"), wF(), wI_c16(c16MaxInt), wI_c16(c16MinInt)}
	ts := []string{wV_c16(1), wA_c16("foo"), wI_c16(1), wC_c16("f", wA_c16("a")), wC_c16("f", wA_c16("a"), wA_c16("b")), wC_c16("f", wV_c16(3), wA_c16("b")), wList_c16(wA_c16("a"), wA_c16("b")),
		wC_c16("g", wA_c16("é"), wA_c16("€"), wA_c16("😀")), wC_c16("h", wC_c16("k", wV_c16(8)), wV_c16(3), wV_c16(4))}
	as := []string{wV_c16(2), wA_c16("a"), wA_c16("b"), wA_c16("é"), wC_c16("k", wA_c16("z")), wV_c16(3), wList_c16(wA_c16("b")), wC_c16("k", wV_c16(2))}
	for _, n := range ns {
		for _, t := range ts {
			for _, a := range as {
				out = append(out, c16Case("arg", c16K, n, t, a))
			}
		}
	}
	return out
}

func sysUniv() []string {
	var out []string
	ts := []string{wV_c16(0), wA_c16("foo"), wI_c16(1), wF(), wC_c16("f", wA_c16("a")), wC_c16("f", wV_c16(1), wA_c16("b")), wList_c16(wA_c16("a")), wC_c16("é", wA_c16("€")), wA_c16("[]")}
	ls := []string{wV_c16(5), wNil_c16(), wList_c16(wA_c16("foo")), wList_c16(wA_c16("foo"), wA_c16("a")), wL(wV_c16(5), wA_c16("foo")), wL(wV_c16(6), wV_c16(5)), wList_c16(wI_c16(1)),
		wList_c16(wI_c16(1), wA_c16("a")), wList_c16(wC_c16("f", wA_c16("a"))), wList_c16(wC_c16("f", wA_c16("a")), wA_c16("b")), wList_c16(wV_c16(5), wA_c16("a")), wList_c16(wV_c16(5)), wA_c16("foo"),
		wL(wA_c16("bar"), wA_c16("foo")), wList_c16(wA_c16("f"), wV_c16(5), wA_c16("b")), wList_c16(wA_c16("f"), wA_c16("a")), wList_c16(wA_c16("f"), wV_c16(5), wV_c16(5)), wList_c16(wA_c16("é"), wA_c16("€")),
		wList_c16(wF()), wList_c16(wA_c16("."), wA_c16("a"), wNil_c16()), wList_c16(wA_c16("f"), wA_c16("a"), wA_c16("b")), wL(wV_c16(5), wA_c16("f"), wA_c16("a")), wList_c16(wV_c16(5), wV_c16(6), wV_c16(7))}
	for _, t := range ts {
		for _, l := range ls {
			out = append(out, c16Case("univ", c16K, t, l))
		}
	}
	return out
}

var c16Elems = []string{"a", "b", "é"}

// all lists over c16Elems up to length n
func c16Lists(n int) [][]string {
	out := [][]string{{}}
	prev := [][]string{{}}
	for i := 1; i <= n; i++ {
		var cur [][]string
		for _, p := range prev {
			for _, e := range c16Elems {
				cur = append(cur, append(append([]string{}, p...), wA_c16(e)))
			}
		}
		out = append(out, cur...)
		prev = cur
	}
	return out
}

func sysNth(scope int) []string {
	var out []string
	for _, p := range []string{"nth0", "nth1"} {
		for _, es := range c16Lists(scope) {
			l := wList_c16(es...)
			out = append(out, c16Case(p, c16K, wV_c16(0), l, wV_c16(1)), c16Case(p, c16K, wV_c16(0), l, wA_c16("a")), c16Case(p, c16K, wV_c16(0), l, wA_c16("é")),
				c16Case(p, c16K, wV_c16(0), l, wA_c16("z")), c16Case(p, c16K, wV_c16(0), l, wV_c16(0)))
			for n := int64(-1); n <= int64(len(es))+1; n++ {
				out = append(out, c16Case(p, c16K, wI_c16(n), l, wV_c16(1)), c16Case(p, c16K, wI_c16(n), l, wA_c16("a")), c16Case(p, c16K, wI_c16(n), l, wA_c16("é")))
			}
		}
		// non-ground data, partial lists, non-lists
		ls := []string{wList_c16(wV_c16(5), wA_c16("a")), wList_c16(wC_c16("f", wV_c16(5)), wC_c16("f", wA_c16("a")), wV_c16(6)), wList_c16(wV_c16(5), wV_c16(5), wV_c16(6)), wL(wV_c16(7), wA_c16("a"), wA_c16("b")),
			wL(wA_c16("foo"), wA_c16("a"), wA_c16("b")), wV_c16(7), wA_c16("foo"), wI_c16(3), wList_c16(wList_c16(wA_c16("a")), wList_c16())}
		ns := []string{wV_c16(0), wI_c16(-1), wI_c16(0), wI_c16(1), wI_c16(2), wI_c16(3), wA_c16("foo"), wF(), wI_c16(c16MaxInt), wI_c16(c16MinInt)}
		es := []string{wV_c16(1), wA_c16("a"), wC_c16("f", wV_c16(2)), wC_c16("f", wA_c16("b")), wList_c16(wA_c16("a"))}
		for _, l := range ls {
			for _, n := range ns {
				for _, e := range es {
					out = append(out, c16Case(p, c16K, n, l, e))
				}
			}
		}
	}
	return out
}

func sysLength(scope int) []string {
	var out []string
	p := "length"
	ns := []string{wV_c16(0), wI_c16(0), wI_c16(1), wI_c16(2), wI_c16(3), wI_c16(4), wI_c16(5)}
	for n := 0; n <= scope+1; n++ {
		var es, vs []string
		for i := 0; i < n; i++ {
			es = append(es, wA_c16(c16Elems[i%3]))
			vs = append(vs, wV_c16(10+i))
		}
		for _, l := range []string{wList_c16(es...), wList_c16(vs...), wL(wV_c16(1), es...), wL(wV_c16(1), vs...), wL(wA_c16("foo"), es...), wL(wI_c16(1), es...),
			wL(wC_c16("f", wA_c16("a")), es...), wL(wF(), vs...)} {
			for _, nn := range ns {
				out = append(out, c16Case(p, c16KInf, l, nn))
			}
			out = append(out, c16Case(p, c16KInf, l, wI_c16(-1)), c16Case(p, c16KInf, l, wA_c16("foo")), c16Case(p, c16KInf, l, wF()),
				c16Case(p, c16KInf, l, wI_c16(c16MaxInt)), c16Case(p, c16KInf, l, wI_c16(1<<50)), c16Case(p, c16KInf, l, wC_c16("f", wA_c16("a"))))
		}
		// the length variable is the tail / occurs in the list
		out = append(out, c16Case(p, c16KInf, wL(wV_c16(0), es...), wV_c16(0)), c16Case(p, c16KInf, wList_c16(append(es, wV_c16(0))...), wV_c16(0)),
			c16Case(p, c16KInf, wL(wV_c16(1), append(es, wV_c16(0))...), wV_c16(0)), c16Case(p, c16KInf, wL(wV_c16(1), append(es, wV_c16(1))...), wV_c16(0)),
			c16Case(p, c16KInf, wL(wV_c16(1), append(es, wV_c16(1))...), wI_c16(int64(n+3))))
	}
	return out
}

func sysAppend(scope int) []string {
	var out []string
	p := "append"
	for _, zs := range c16Lists(scope) {
		z := wList_c16(zs...)
		out = append(out, c16Case(p, c16K, wV_c16(0), wV_c16(1), z), c16Case(p, c16K, wV_c16(0), wV_c16(0), z), c16Case(p, c16K, wV_c16(0), wList_c16(wA_c16("z")), z),
			c16Case(p, c16K, wList_c16(wA_c16("z")), wV_c16(0), z), c16Case(p, c16K, wL(wV_c16(0), wV_c16(1)), wV_c16(2), z), c16Case(p, c16K, wV_c16(0), wL(wV_c16(1), wV_c16(2)), z))
		for i := 0; i <= len(zs); i++ {
			x, y := wList_c16(zs[:i]...), wList_c16(zs[i:]...)
			out = append(out, c16Case(p, c16K, x, wV_c16(0), z), c16Case(p, c16K, wV_c16(0), y, z), c16Case(p, c16K, x, y, z), c16Case(p, c16K, x, y, wV_c16(0)),
				c16Case(p, c16K, y, x, z), c16Case(p, c16KInf, x, wV_c16(0), wV_c16(1)), c16Case(p, c16KInf, wV_c16(0), y, wV_c16(1)),
				c16Case(p, c16KInf, wL(wV_c16(0), zs[:i]...), wV_c16(1), wV_c16(2)), c16Case(p, c16KInf, wL(wV_c16(0), zs[:i]...), y, wV_c16(2)),
				c16Case(p, c16KInf, wV_c16(0), wV_c16(1), wL(wV_c16(2), zs[:i]...)), c16Case(p, c16KInf, wL(wV_c16(0), zs[:i]...), wV_c16(1), wL(wV_c16(2), zs...)),
				c16Case(p, c16K, wL(wV_c16(0), zs[:i]...), wV_c16(1), z), c16Case(p, c16K, x, wV_c16(1), wL(wV_c16(2), zs...)))
		}
	}
	for _, j := range []string{wA_c16("foo"), wI_c16(1), wC_c16("f", wA_c16("a")), wL(wA_c16("foo"), wA_c16("a"))} {
		out = append(out, c16Case(p, c16KInf, j, wV_c16(0), wV_c16(1)), c16Case(p, c16KInf, wV_c16(0), j, wV_c16(1)), c16Case(p, c16KInf, wV_c16(0), wV_c16(1), j),
			c16Case(p, c16KInf, j, j, wV_c16(0)), c16Case(p, c16KInf, wList_c16(wA_c16("a")), j, wV_c16(0)), c16Case(p, c16KInf, wList_c16(wA_c16("a")), wV_c16(0), j))
	}
	out = append(out, c16Case(p, c16KInf, wV_c16(0), wV_c16(1), wV_c16(2)), c16Case(p, c16KInf, wList_c16(wV_c16(0), wV_c16(1)), wV_c16(2), wList_c16(wA_c16("a"), wA_c16("b"), wA_c16("c"))),
		c16Case(p, c16KInf, wList_c16(wV_c16(0), wV_c16(0)), wV_c16(2), wList_c16(wA_c16("a"), wA_c16("b"), wA_c16("c"))), c16Case(p, c16KInf, wV_c16(2), wList_c16(wV_c16(0), wV_c16(0)), wList_c16(wA_c16("a"), wA_c16("b"), wA_c16("b"))))
	return out
}

func sysMemberSelect(scope int) []string {
	var out []string
	xs := []string{wV_c16(0), wA_c16("a"), wA_c16("é"), wA_c16("z"), wC_c16("f", wV_c16(1))}
	for _, es := range c16Lists(scope) {
		l := wList_c16(es...)
		for _, x := range xs {
			out = append(out, c16Case("member", c16K, x, l), c16Case("select", c16K, x, l, wV_c16(2)))
		}
		out = append(out, c16Case("member", c16KInf, wV_c16(0), wL(wV_c16(1), es...)), c16Case("member", c16KInf, wA_c16("a"), wL(wV_c16(1), es...)),
			c16Case("select", c16KInf, wV_c16(0), wL(wV_c16(1), es...), wV_c16(2)), c16Case("select", c16KInf, wA_c16("é"), wV_c16(1), l))
		for i := range es {
			rest := append(append([]string{}, es[:i]...), es[i+1:]...)
			out = append(out, c16Case("select", c16K, es[i], l, wList_c16(rest...)), c16Case("select", c16K, wV_c16(0), l, wList_c16(rest...)),
				c16Case("select", c16K, wV_c16(0), wV_c16(1), wList_c16(rest...)), c16Case("select", c16K, es[i], l, wL(wV_c16(3), rest[:i]...)))
			if c16KInf > 0 {
				out = append(out, c16Case("select", c16KInf, es[i], wV_c16(1), wList_c16(rest...)))
			}
		}
	}
	// non-ground data
	ls := []string{wList_c16(wV_c16(5), wA_c16("a")), wList_c16(wC_c16("f", wV_c16(5)), wC_c16("f", wA_c16("a")), wV_c16(6)), wList_c16(wV_c16(5), wV_c16(5)), wA_c16("foo"), wL(wA_c16("foo"), wA_c16("a")), wV_c16(7)}
	for _, l := range ls {
		for _, x := range xs {
			out = append(out, c16Case("member", c16KInf, x, l), c16Case("select", c16KInf, x, l, wV_c16(2)))
		}
	}
	return out
}

func c16Systematic(scope int) []string {
	var out []string
	out = append(out, sysAtomLength(scope)...)
	out = append(out, sysAtomConcat(scope)...)
	out = append(out, sysSubAtom(scope)...)
	out = append(out, sysAtomChars(scope, false)...)
	out = append(out, sysAtomChars(scope, true)...)
	out = append(out, sysCharCode()...)
	out = append(out, sysBetween()...)
	out = append(out, sysSucc()...)
	out = append(out, sysFunctor()...)
	out = append(out, sysArg()...)
	out = append(out, sysUniv()...)
	out = append(out, sysNth(scope)...)
	out = append(out, sysLength(scope)...)
	out = append(out, sysAppend(scope)...)
	out = append(out, sysMemberSelect(scope)...)
	return out
}

// ---------------------------------------------------------------------------------------------
// random longer inputs
// ---------------------------------------------------------------------------------------------

// code points around the UTF-8 length boundaries, combining marks, the alphabet
var c16Runes = []rune{'a', 'b', 'c', 'z', 'A', ' ', '_', '0', '\'', '\\', 0x7f, 0x80, 0xe9, 0x301, 0x7ff, 0x800, 0x20ac, 0xd7ff, 0xe000, 0xfffc, 0xfffd,
	0xffff, 0x10000, 0x1f600, 0x10ffff}

func randText_c16(r *rand.Rand, min, max int) []string {
	n := min + r.Intn(max-min+1)
	out := make([]string, n)
	for i := range out {
		if r.Intn(3) == 0 {
			out[i] = string(pick(r, c16Runes))
		} else {
			out[i] = pick(r, c16Sigma)
		}
	}
	return out
}

func randInt(r *rand.Rand) int64 {
	switch r.Intn(4) {
	case 0:
		return c16MaxInt - int64(r.Intn(4))
	case 1:
		return c16MinInt + int64(r.Intn(4))
	default:
		return int64(r.Intn(13)) - 4
	}
}

// maybe replaces an instantiated argument by a variable
func maybe(r *rand.Rand, v *int, val string) string {
	if r.Intn(2) == 0 {
		*v++
		return wV_c16(*v - 1)
	}
	return val
}

func randElem(r *rand.Rand, v *int) string {
	switch r.Intn(8) {
	case 0:
		*v++
		return wV_c16(*v - 1)
	case 1:
		return wC_c16("f", wA_c16(pick(r, c16Elems)))
	case 2:
		return wI_c16(int64(r.Intn(5)))
	default:
		return wA_c16(pick(r, c16Sigma))
	}
}

func genC16Random(r *rand.Rand) string {
	v := 0
	switch r.Intn(15) {
	case 0:
		cs := randText_c16(r, 4, 12)
		return c16Case("atom_length", c16K, wA_c16(join(cs)), maybe(r, &v, wI_c16(int64(len(cs)))))
	case 1:
		cs := randText_c16(r, 4, 12)
		i := r.Intn(len(cs) + 1)
		a, b, c := maybe(r, &v, wA_c16(join(cs[:i]))), maybe(r, &v, wA_c16(join(cs[i:]))), wA_c16(join(cs))
		if v < 2 && r.Intn(3) == 0 {
			c = wV_c16(v)
		}
		return c16Case("atom_concat", c16K, a, b, c)
	case 2:
		cs := randText_c16(r, 4, 10)
		i := r.Intn(len(cs) + 1)
		j := i + r.Intn(len(cs)-i+1)
		return c16Case("sub_atom", c16K, wA_c16(join(cs)), maybe(r, &v, wI_c16(int64(i))), maybe(r, &v, wI_c16(int64(j-i))),
			maybe(r, &v, wI_c16(int64(len(cs)-j))), maybe(r, &v, wA_c16(join(cs[i:j]))))
	case 3, 4:
		cs := randText_c16(r, 4, 12)
		p, es := "atom_chars", charListW(cs)
		if r.Intn(2) == 0 {
			p, es = "atom_codes", codeListW(cs)
		}
		for i := range es {
			if r.Intn(6) == 0 {
				es[i] = wV_c16(v)
				v++
			}
		}
		l := wList_c16(es...)
		if r.Intn(4) == 0 {
			l = wL(wV_c16(v), es[:r.Intn(len(es)+1)]...)
			v++
		}
		a := wA_c16(join(cs))
		if r.Intn(4) == 0 {
			a = wV_c16(v)
		}
		return c16Case(p, c16K, a, l)
	case 5:
		c := pick(r, c16Runes)
		return c16Case("char_code", c16K, maybe(r, &v, wA_c16(string(c))), maybe(r, &v, wI_c16(int64(c))))
	case 6:
		l, h := randInt(r), randInt(r)
		x := wV_c16(0)
		if r.Intn(2) == 0 {
			x = wI_c16(randInt(r))
		}
		return c16Case("between", c16KInf, wI_c16(l), wI_c16(h), x)
	case 7:
		x := randInt(r)
		return c16Case("succ", c16K, maybe(r, &v, wI_c16(x)), maybe(r, &v, wI_c16(x+1)))
	case 8, 9:
		n := 4 + r.Intn(8)
		es := make([]string, n)
		for i := range es {
			es[i] = randElem(r, &v)
		}
		p := pick(r, []string{"nth0", "nth1"})
		i := r.Intn(n)
		idx := int64(i)
		if p == "nth1" {
			idx++
		}
		// the pattern arguments are fresh variables or ground: NSTO by construction
		e := es[i]
		if strings.Contains(e, "V") {
			e = wA_c16("a")
		}
		return c16Case(p, c16K, maybe(r, &v, wI_c16(idx)), wList_c16(es...), maybe(r, &v, e))
	case 10:
		n := r.Intn(10)
		es := make([]string, n)
		for i := range es {
			es[i] = randElem(r, &v)
		}
		l := wList_c16(es...)
		if r.Intn(2) == 0 {
			l = wL(wV_c16(v), es...)
			v++
		}
		return c16Case("length", c16KInf, l, maybe(r, &v, wI_c16(int64(n+r.Intn(3)))))
	case 11, 12:
		n := 3 + r.Intn(7)
		es := make([]string, n)
		for i := range es {
			es[i] = wA_c16(pick(r, c16Sigma))
		}
		i := r.Intn(n + 1)
		x, y, z := maybe(r, &v, wList_c16(es[:i]...)), maybe(r, &v, wList_c16(es[i:]...)), wList_c16(es...)
		if r.Intn(3) == 0 {
			z = wV_c16(v)
			v++
		}
		return c16Case("append", c16KInf+4, x, y, z)
	default:
		n := 3 + r.Intn(7)
		es := make([]string, n)
		for i := range es {
			es[i] = wA_c16(pick(r, c16Sigma))
		}
		i := r.Intn(n)
		if r.Intn(2) == 0 {
			return c16Case("member", c16K, maybe(r, &v, es[i]), wList_c16(es...))
		}
		rest := append(append([]string{}, es[:i]...), es[i+1:]...)
		return c16Case("select", c16K, maybe(r, &v, es[i]), wList_c16(es...), maybe(r, &v, wList_c16(rest...)))
	}
}

// genC16: the exhaustive small scope (texts/lists up to length 2) is always included when it fits into
// half of n, the next scope (length 3) is sampled (thorough: included), the rest are random longer inputs.
func genC16(r *rand.Rand, n int, tier string) []string {
	var out []string
	seen := map[string]bool{}
	add := func(c string) {
		if !seen[c] {
			seen[c] = true
			out = append(out, c)
		}
	}
	small := c16Systematic(2)
	large := c16Systematic(3)
	r.Shuffle(len(small), func(i, j int) { small[i], small[j] = small[j], small[i] })
	r.Shuffle(len(large), func(i, j int) { large[i], large[j] = large[j], large[i] })
	for _, c := range small {
		if len(out) >= n*5/10 {
			break
		}
		add(c)
	}
	for _, c := range large {
		if len(out) >= n*8/10 {
			break
		}
		add(c)
	}
	for tries := 0; len(out) < n && tries < 20*n; tries++ {
		add(genC16Random(r))
	}
	return out
}
