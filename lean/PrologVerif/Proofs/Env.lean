/-
  The red-black tree of engine/env.go refines a finite map (C02 `rbenv_refines_map`):
  in-order contents are kept by `balance`, `insert` is sorted-list insertion, `lookup` is
  association-list lookup on the in-order list.  Persistence ("older versions stay valid") is the
  refinement theorem applied to the old value: model values are immutable; that the Go code never
  writes through a shared pointer is checked by the `c02.env` stream on all previously returned
  environments.
-/
import PrologVerif.Model.Env
namespace PrologVerif.RBEnv

def toList : RBEnv → List (Int × Term)
  | nil => []
  | node _ l k v r => toList l ++ (k, v) :: toList r

/-- binary-search-tree ordering, stated on the in-order list -/
def Ordered (t : RBEnv) : Prop := (toList t).Pairwise (fun a b => a.1 < b.1)

theorem toList_balance (t : RBEnv) : toList (balance t) = toList t := by
  unfold balance
  repeat' split
  all_goals simp [toList, List.append_assoc]

theorem toList_blacken (t : RBEnv) : toList (blacken t) = toList t := by
  cases t <;> rfl

/-- association-list lookup (first match) -/
def lookupL : List (Int × Term) → Int → Option Term
  | [], _ => none
  | (k, v) :: xs, x => if x = k then some v else lookupL xs x

theorem lookupL_append (xs ys : List (Int × Term)) (x : Int) :
    lookupL (xs ++ ys) x = (lookupL xs x).or (lookupL ys x) := by
  induction xs with
  | nil => simp [lookupL]
  | cons a xs ih =>
    obtain ⟨k, v⟩ := a
    simp only [List.cons_append, lookupL]
    split
    · simp
    · exact ih

theorem lookupL_none_of_forall_ne (xs : List (Int × Term)) (x : Int) (h : ∀ a ∈ xs, a.1 ≠ x) :
    lookupL xs x = none := by
  induction xs with
  | nil => rfl
  | cons a xs ih =>
    obtain ⟨k, v⟩ := a
    simp only [lookupL]
    have : x ≠ k := fun e => h (k, v) (by simp) e.symm
    simp only [this, if_false]
    exact ih (fun b hb => h b (by simp [hb]))

theorem find_eq_lookupL : ∀ (t : RBEnv), Ordered t → ∀ x, find t x = lookupL (toList t) x
  | nil, _, _ => rfl
  | node c l k v r, h, x => by
    unfold Ordered at h
    simp only [toList] at h
    rw [List.pairwise_append] at h
    obtain ⟨hl, hr, hlr⟩ := h
    rw [List.pairwise_cons] at hr
    obtain ⟨hkr, hr⟩ := hr
    simp only [find, toList, lookupL_append, lookupL]
    by_cases h1 : x < k
    · simp only [h1, if_true]
      rw [find_eq_lookupL l hl x]
      have hxk : x ≠ k := by omega
      simp only [hxk, if_false]
      have : lookupL (toList r) x = none :=
        lookupL_none_of_forall_ne _ _ (fun a ha => by have := hkr a ha; omega)
      rw [this, Option.or_none]
    · simp only [h1, if_false]
      have hln : lookupL (toList l) x = none :=
        lookupL_none_of_forall_ne _ _ (fun a ha => by have := hlr a ha (k, v) (by simp); simp at this; omega)
      rw [hln, Option.none_or]
      by_cases h2 : x > k
      · have hxk : x ≠ k := by omega
        simp only [h2, if_true, hxk, if_false]
        exact find_eq_lookupL r hr x
      · have hxk : x = k := by omega
        simp [hxk]

/-- sorted-list insertion / replacement -/
def insL : List (Int × Term) → Int → Term → List (Int × Term)
  | [], k, v => [(k, v)]
  | (k', v') :: xs, k, v =>
    if k < k' then (k, v) :: (k', v') :: xs
    else if k > k' then (k', v') :: insL xs k v
    else (k, v) :: xs

theorem insL_append_lt (L R : List (Int × Term)) (k' : Int) (v' : Term) (k : Int) (v : Term) (h : k < k') :
    insL (L ++ (k', v') :: R) k v = insL L k v ++ (k', v') :: R := by
  induction L with
  | nil => simp [insL, h]
  | cons a L ih =>
    obtain ⟨ka, va⟩ := a
    simp only [List.cons_append, insL]
    split
    · rfl
    · split
      · rw [ih]; rfl
      · rfl

theorem insL_append_ge (L R : List (Int × Term)) (k : Int) (v : Term) (h : ∀ a ∈ L, a.1 < k) :
    insL (L ++ R) k v = L ++ insL R k v := by
  induction L with
  | nil => rfl
  | cons a L ih =>
    obtain ⟨ka, va⟩ := a
    have hka : ka < k := h (ka, va) (by simp)
    simp only [List.cons_append, insL]
    have h1 : ¬ k < ka := by omega
    have h2 : k > ka := by omega
    simp only [h1, if_false, h2, if_true]
    rw [ih (fun b hb => h b (by simp [hb]))]

theorem toList_insert : ∀ (t : RBEnv) (k : Int) (v : Term), Ordered t →
    toList (insert t k v) = insL (toList t) k v
  | nil, k, v, _ => rfl
  | node c l k' v' r, k, v, h => by
    unfold Ordered at h
    simp only [toList] at h
    rw [List.pairwise_append] at h
    obtain ⟨hl, hr, hlr⟩ := h
    rw [List.pairwise_cons] at hr
    obtain ⟨hkr, hr⟩ := hr
    have hlk : ∀ a ∈ toList l, a.1 < k' := fun a ha => by
      have := hlr a ha (k', v') (by simp); simpa using this
    simp only [insert]
    split
    · rename_i h1
      rw [toList_balance]
      simp only [toList]
      rw [toList_insert l k v hl, insL_append_lt _ _ _ _ _ _ h1]
    · rename_i h1
      split
      · rename_i h2
        rw [toList_balance]
        simp only [toList]
        rw [toList_insert r k v hr]
        rw [insL_append_ge _ _ _ _ (fun a ha => by have := hlk a ha; omega)]
        simp only [insL, h1, if_false, h2, if_true]
      · rename_i h2
        simp only [toList]
        rw [insL_append_ge _ _ _ _ (fun a ha => by have := hlk a ha; omega)]
        simp only [insL, h1, if_false, h2]
        have : k = k' := by omega
        rw [this]

theorem pairwise_insL (xs : List (Int × Term)) (k : Int) (v : Term)
    (h : xs.Pairwise (fun a b => a.1 < b.1)) : (insL xs k v).Pairwise (fun a b => a.1 < b.1) := by
  induction xs with
  | nil => simp [insL]
  | cons a xs ih =>
    obtain ⟨ka, va⟩ := a
    rw [List.pairwise_cons] at h
    obtain ⟨h1, h2⟩ := h
    simp only [insL]
    split
    · rename_i hlt
      rw [List.pairwise_cons]
      refine ⟨?_, List.pairwise_cons.mpr ⟨h1, h2⟩⟩
      intro b hb
      rcases List.mem_cons.mp hb with rfl | hb
      · exact hlt
      · have := h1 b hb; simp at this ⊢; omega
    · split
      · rename_i hgt
        rw [List.pairwise_cons]
        refine ⟨?_, ih h2⟩
        intro b hb
        -- members of insL xs k v are (k, v) or members of xs
        have hmem : ∀ (ys : List (Int × Term)) (b : Int × Term), b ∈ insL ys k v → b = (k, v) ∨ b ∈ ys := by
          intro ys
          induction ys with
          | nil => intro b hb; simp [insL] at hb; exact Or.inl hb
          | cons c ys ihy =>
            obtain ⟨kc, vc⟩ := c
            intro b hb
            simp only [insL] at hb
            split at hb
            · rcases List.mem_cons.mp hb with rfl | hb
              · exact Or.inl rfl
              · exact Or.inr hb
            · split at hb
              · rcases List.mem_cons.mp hb with rfl | hb
                · exact Or.inr (by simp)
                · rcases ihy b hb with h | h
                  · exact Or.inl h
                  · exact Or.inr (by simp [h])
              · rcases List.mem_cons.mp hb with rfl | hb
                · exact Or.inl rfl
                · exact Or.inr (by simp [hb])
        rcases hmem xs b hb with rfl | hb
        · simpa using hgt
        · exact h1 b hb
      · rename_i hnlt hngt
        have : k = ka := by omega
        subst this
        rw [List.pairwise_cons]
        exact ⟨h1, h2⟩

theorem lookupL_insL (xs : List (Int × Term)) (k : Int) (v : Term) (x : Int) :
    lookupL (insL xs k v) x = if x = k then some v else lookupL xs x := by
  induction xs with
  | nil => simp [insL, lookupL]
  | cons a xs ih =>
    obtain ⟨ka, va⟩ := a
    simp only [insL]
    split
    · simp [lookupL]
    · split
      · rename_i h1 h2
        simp only [lookupL, ih]
        by_cases hx : x = ka
        · have : x ≠ k := by omega
          simp [hx]
          intro h; omega
        · simp [hx]
      · rename_i h1 h2
        have : k = ka := by omega
        subst this
        simp only [lookupL]
        split <;> rfl

theorem ordered_insert (t : RBEnv) (k : Int) (v : Term) (h : Ordered t) : Ordered (insert t k v) := by
  unfold Ordered
  rw [toList_insert t k v h]
  exact pairwise_insL _ k v h

theorem find_insert (t : RBEnv) (k : Int) (v : Term) (h : Ordered t) (x : Int) :
    find (insert t k v) x = if x = k then some v else find t x := by
  rw [find_eq_lookupL _ (ordered_insert t k v h), toList_insert t k v h, lookupL_insL,
      find_eq_lookupL t h]

theorem find_blacken (t : RBEnv) (x : Int) : find (blacken t) x = find t x := by
  cases t <;> rfl

theorem ordered_blacken (t : RBEnv) (h : Ordered t) : Ordered (blacken t) := by
  unfold Ordered; rw [toList_blacken]; exact h

theorem ordered_rootEnv : Ordered rootEnv := by
  simp [Ordered, rootEnv, toList]

/-- the invariant of every environment value the Go code can hold: nil, or an ordered tree -/
def Wf (e : RBEnv) : Prop := Ordered e

theorem wf_nil : Wf nil := by simp [Wf, Ordered, toList]

theorem insL_ne_nil (xs : List (Int × Term)) (k : Int) (v : Term) : insL xs k v ≠ [] := by
  cases xs with
  | nil => simp [insL]
  | cons a xs =>
    obtain ⟨ka, va⟩ := a
    simp only [insL]
    split
    · simp
    · split <;> simp

/-- the nil-check at the top of `lookup`/`bind` is a no-op on a non-empty tree -/
def orRoot : RBEnv → RBEnv
  | nil => rootEnv
  | e => e

theorem orRoot_of_toList_ne_nil (e : RBEnv) (h : toList e ≠ []) : orRoot e = e := by
  cases e with
  | nil => simp [toList] at h
  | node _ _ _ _ _ => rfl

theorem ordered_orRoot (e : RBEnv) (h : Wf e) : Ordered (orRoot e) := by
  cases e with
  | nil => exact ordered_rootEnv
  | node _ _ _ _ _ => exact h

theorem wf_bindKey (e : RBEnv) (k : Int) (t : Term) (h : Wf e) : Wf (bindKey e k t) := by
  show Ordered (blacken (insert (orRoot e) k t))
  exact ordered_blacken _ (ordered_insert _ k t (ordered_orRoot e h))

theorem lookupKey_bindKey (e : RBEnv) (k : Int) (t : Term) (h : Wf e) (x : Int) :
    lookupKey (bindKey e k t) x = if x = k then some t else lookupKey e x := by
  show find (orRoot (blacken (insert (orRoot e) k t))) x = if x = k then some t else find (orRoot e) x
  have ho := ordered_orRoot e h
  rw [orRoot_of_toList_ne_nil, find_blacken, find_insert _ k t ho]
  rw [toList_blacken, toList_insert _ k t ho]
  exact insL_ne_nil _ k t

theorem tdiv2_ne_zero (v : Int) : Int.tdiv v 2 ≠ 0 ↔ (v ≤ -2 ∨ 2 ≤ v) := by
  rw [Int.tdiv_eq_ediv]
  have : Int.sign 2 = 1 := rfl
  rw [this]
  split
  · omega
  · rename_i h
    have : ¬ (2:Int) ∣ v := fun hd => h (Or.inr hd)
    omega

theorem newEnvKey_injective (a b : Int) (h : newEnvKey a = newEnvKey b) : a = b := by
  unfold newEnvKey at h
  split at h <;> split at h <;> simp only [tdiv2_ne_zero] at * <;> omega

/-- **rbenv_refines_map**: `bind` then `lookup` behaves as a finite-map update -/
theorem lookup_bind (e : RBEnv) (v : Int) (t : Term) (h : Wf e) (w : Int) :
    lookup (bind e v t) w = if w = v then some t else lookup e w := by
  unfold lookup bind
  rw [lookupKey_bindKey e _ t h]
  by_cases hwv : w = v
  · simp [hwv]
  · have : newEnvKey w ≠ newEnvKey v := fun e => hwv (newEnvKey_injective _ _ e)
    simp [hwv, this]

theorem wf_bind (e : RBEnv) (v : Int) (t : Term) (h : Wf e) : Wf (bind e v t) :=
  wf_bindKey e _ t h

end PrologVerif.RBEnv
