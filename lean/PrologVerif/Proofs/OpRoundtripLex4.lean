/-
  P2 (writeq with operators reads back), lexing half, stage D: compound terms (operator notation, functional
  notation, lists, curly brackets) and the recursion over the term: the text of `writeq` lexes to `qt`.
-/
import PrologVerif.Proofs.OpRoundtripLex3
set_option linter.unusedSimpArgs false
set_option linter.unusedVariables false
namespace PrologVerif.Write
open PrologVerif PrologVerif.Lexer PrologVerif.Ops PrologVerif.Read

/-- the statement of the main theorem for one way `w` of writing a (sub)term, with tokens `t`: whatever
    follows (`Cont`), the text lexes to the tokens -/
def MainFor (e : Env) (ops : Table) (tail : List Char) (w : WOpts → List Char) (t : WOpts → List Token) : Prop :=
  ∀ (o : WOpts) (y : List Char) (us : List Token), QO ops o → Cont e o y us tail →
    LexSeq e.cfg (w o ++ y) (t o ++ us) tail

/-- the same for positions without an operator on the right, followed by punctuation -/
def MainForB (e : Env) (ops : Table) (tail : List Char) (w : WOpts → List Char) (t : WOpts → List Token) : Prop :=
  ∀ (o : WOpts) (y : List Char) (us : List Token), QO ops o → o.right = none → HeadIs Punct (y ++ tail) →
    LexSeq e.cfg y us tail → LexSeq e.cfg (w o ++ y) (t o ++ us) tail

/-- the first-character lemma for one way of writing a subterm -/
def FirstFor (e : Env) (ops : Table) (w : WOpts → List Char) : Prop :=
  ∀ (o : WOpts) (lo : Op), QO ops o → o.left = some lo → FirstOK e lo (w o)

theorem MainFor.bare {e : Env} {ops : Table} {tail : List Char} {w : WOpts → List Char} {t : WOpts → List Token}
    (h : MainFor e ops tail w t) : MainForB e ops tail w t :=
  fun o y us hq hr hp hs => h o y us hq (Cont.closed hr hp hs)

theorem solo_seq (e : Env) (hconv : ∀ c, e.cfg.conv c = c) (c : Char)
    (hc : c = ';' ∨ c = '!' ∨ c = '[' ∨ c = ']' ∨ c = '{' ∨ c = '}' ∨ c = ',' ∨ c = ')' ∨ c = '|')
    {y : List Char} {us : List Token} {tail : List Char} (h : LexSeq e.cfg y us tail) :
    LexSeqG e.cfg ([c] ++ y) (⟨soloTokenKind c, [c]⟩ :: us) tail :=
  LexSeqG.cons hconv (lexTokG_solo e.cfg hconv c (y ++ tail) hc) h

theorem comma_seq (e : Env) (hconv : ∀ c, e.cfg.conv c = c) {y : List Char} {us : List Token} {tail : List Char}
    (h : LexSeq e.cfg y us tail) : LexSeqG e.cfg ([','] ++ y) (commaTok :: us) tail := solo_seq e hconv ',' (by simp) h
theorem bar_seq (e : Env) (hconv : ∀ c, e.cfg.conv c = c) {y : List Char} {us : List Token} {tail : List Char}
    (h : LexSeq e.cfg y us tail) : LexSeqG e.cfg (['|'] ++ y) (barTok :: us) tail := solo_seq e hconv '|' (by simp) h
theorem openList_seq (e : Env) (hconv : ∀ c, e.cfg.conv c = c) {y : List Char} {us : List Token} {tail : List Char}
    (h : LexSeq e.cfg y us tail) : LexSeqG e.cfg (['['] ++ y) (⟨.openList, ['[']⟩ :: us) tail :=
  solo_seq e hconv '[' (by simp) h
theorem closeList_seq (e : Env) (hconv : ∀ c, e.cfg.conv c = c) {y : List Char} {us : List Token} {tail : List Char}
    (h : LexSeq e.cfg y us tail) : LexSeqG e.cfg ([']'] ++ y) (⟨.closeList, [']']⟩ :: us) tail :=
  solo_seq e hconv ']' (by simp) h
theorem openCurly_seq (e : Env) (hconv : ∀ c, e.cfg.conv c = c) {y : List Char} {us : List Token} {tail : List Char}
    (h : LexSeq e.cfg y us tail) : LexSeqG e.cfg (['{'] ++ y) (⟨.openCurly, ['{']⟩ :: us) tail :=
  solo_seq e hconv '{' (by simp) h
theorem closeCurly_seq (e : Env) (hconv : ∀ c, e.cfg.conv c = c) {y : List Char} {us : List Token} {tail : List Char}
    (h : LexSeq e.cfg y us tail) : LexSeqG e.cfg (['}'] ++ y) (⟨.closeCurly, ['}']⟩ :: us) tail :=
  solo_seq e hconv '}' (by simp) h

theorem QO.o999 {ops : Table} {o : WOpts} (h : QO ops o) : QO ops (o999 o) := h.of_eq rfl rfl rfl

theorem opText_unary (e : Env) {f : String} (hf : f ≠ "," ∧ f ≠ "|") : opText e f = atomText e.cfg f.toList := by
  unfold opText
  simp [hf.1, hf.2]

/-! ## operator notation -/

theorem lex_prefix (e : Env) (hconv : ∀ c, e.cfg.conv c = c) (ops : Table) (tail : List Char) (f : String)
    (wa : WOpts → List Char) (ta : WOpts → List Token) (IH : MainFor e ops tail wa ta) (FC : FirstFor e ops wa)
    (o : WOpts) (hq : QO ops o) (op : Op) (hname : op.name = f)
    {y : List Char} {us : List Token} (hc : Cont e o y us tail) :
    LexSeq e.cfg (writePrefix e f wa o op ++ y) (tPrefix e f ta o op ++ us) tail := by
  cases hoc : prefixOC o op with
  | true =>
    rw [writePrefix_oc e f wa o op hq.quo hoc, tPrefix_oc e f ta o op hoc]
    have hqa : QO ops (oR o.bare op) := hq.of_eq rfl rfl rfl
    have h5 : LexSeq e.cfg (wa (oR o.bare op) ++ ([')'] ++ y)) (ta (oR o.bare op) ++ (closeTok :: us)) tail :=
      IH _ _ _ hqa (Cont.closed rfl (HeadIs.cons punct_close) (lexSeq_close e hconv hc.seq))
    have hfc := (FC (oR o.bare op) op hqa rfl).headIs (([')'] ++ y) ++ tail)
    rw [hname] at hfc
    have h3 := (lexSeqG_atomText e hconv f.toList _ hfc).1
    have h35 := LexSeq.append e.cfg (y := wa (oR o.bare op) ++ ([')'] ++ y))
      (by simpa [List.append_assoc] using h3) h5
    have h1 : LexTok e.cfg (sp o.left.isSome ++ ['(']) (openTok o.left.isSome)
        ((atomText e.cfg f.toList ++ (wa (oR o.bare op) ++ ([')'] ++ y))) ++ tail) := lexTok_openTok e.cfg hconv _ _
    have := LexSeq.cons h1 h35
    simpa [List.append_assoc] using this
  | false =>
    rw [writePrefix_no e f wa o op hq.quo hoc, tPrefix_no e f ta o op hoc]
    have hqa : QO ops (oR o op) := hq.of_eq rfl rfl rfl
    have h5 := IH (oR o op) y us hqa (hc.congr rfl)
    have hfc := (FC (oR o op) op hqa rfl).headIs (y ++ tail)
    rw [hname] at hfc
    have h3 := (lexSeqG_atomText e hconv f.toList _ hfc).spaced o.left.isSome
    have := LexSeq.append e.cfg (y := wa (oR o op) ++ y) (by simpa [List.append_assoc] using h3) h5
    simpa [List.append_assoc] using this

theorem lex_postfix (e : Env) (hconv : ∀ c, e.cfg.conv c = c) (ops : Table) (tail : List Char) (f : String)
    (wa : WOpts → List Char) (ta : WOpts → List Token) (IH : MainFor e ops tail wa ta)
    (o : WOpts) (hq : QO ops o) (op : Op) (hname : op.name = f) (hf : f ≠ "," ∧ f ≠ "|")
    {y : List Char} {us : List Token} (hc : Cont e o y us tail) :
    LexSeq e.cfg (writePostfix e f wa o op ++ y) (tPostfix e f ta o op ++ us) tail := by
  have hop : opText e op.name = atomText e.cfg f.toList := by rw [hname]; exact opText_unary e hf
  cases hoc : postfixOC o op with
  | true =>
    rw [writePostfix_oc e f wa o op hq.quo hoc, tPostfix_oc e f ta o op hoc]
    have hqa : QO ops (oL o.bare op) := hq.of_eq rfl rfl rfl
    have h4 := lexSeq_close e hconv hc.seq
    have h3 := lexSeqG_atomText e hconv f.toList (([')'] ++ y) ++ tail)
      (HeadIs.cons (Punct.afterOp e _ punct_close))
    have h34 := LexSeqG.append h3 h4
    have hca : Cont e (oL o.bare op) (atomText e.cfg f.toList ++ ([')'] ++ y))
        (atomTokens e.cfg f.toList ++ (closeTok :: us)) tail :=
      ⟨.inr ⟨op, ([')'] ++ y) ++ tail, rfl, by rw [hop, List.append_assoc]⟩, h34.1, fun _ => h34.2⟩
    have h2 := IH (oL o.bare op) _ _ hqa hca
    have h1 : LexTok e.cfg (sp o.left.isSome ++ ['(']) (openTok o.left.isSome)
        ((wa (oL o.bare op) ++ (atomText e.cfg f.toList ++ ([')'] ++ y))) ++ tail) := lexTok_openTok e.cfg hconv _ _
    have := LexSeq.cons h1 h2
    simpa [List.append_assoc] using this
  | false =>
    rw [writePostfix_no e f wa o op hq.quo hoc, tPostfix_no e f ta o op hoc]
    have hqa : QO ops (oL o op) := hq.of_eq rfl rfl rfl
    have h4 : LexSeq e.cfg (sp o.right.isSome ++ y) us tail := by
      cases hr : o.right.isSome with
      | false => simpa [sp] using hc.seq
      | true => simpa [sp] using hc.sps hr
    have hh : HeadIs (AfterOp e f.toList) ((sp o.right.isSome ++ y) ++ tail) := by
      cases hr : o.right with
      | some ro => exact HeadIs.cons (Punct.afterOp e _ punct_space)
      | none =>
        simp only [Option.isSome_none, sp, Bool.false_eq_true, if_false, List.nil_append]
        rcases hc.fol with h | ⟨ro, _, h, _⟩
        · exact fun t ht => Punct.afterOp e _ (h t ht)
        · rw [hr] at h; cases h
    have h3 := lexSeqG_atomText e hconv f.toList _ hh
    have h34 := LexSeqG.append h3 h4
    have hca : Cont e (oL o op) (atomText e.cfg f.toList ++ (sp o.right.isSome ++ y))
        (atomTokens e.cfg f.toList ++ us) tail :=
      ⟨.inr ⟨op, (sp o.right.isSome ++ y) ++ tail, rfl, by rw [hop, List.append_assoc]⟩, h34.1, fun _ => h34.2⟩
    have h2 := IH (oL o op) _ _ hqa hca
    simpa [List.append_assoc] using h2

theorem lex_infix (e : Env) (hconv : ∀ c, e.cfg.conv c = c) (ops : Table) (tail : List Char) (f : String)
    (wa wb : WOpts → List Char) (ta tb : WOpts → List Token) (IHa : MainFor e ops tail wa ta)
    (IHb : MainFor e ops tail wb tb) (FCb : FirstFor e ops wb)
    (o : WOpts) (hq : QO ops o) (op : Op) (hname : op.name = f)
    {y : List Char} {us : List Token} (hc : Cont e o y us tail) :
    LexSeq e.cfg (writeInfix e f wa wb o op ++ y) (tInfix e f ta tb o op ++ us) tail := by
  cases hoc : infixOC o op with
  | true =>
    rw [writeInfix_oc e f wa wb o op hq.quo hoc, tInfix_oc e f ta tb o op hoc]
    have hqa : QO ops (oL o.bare op) := hq.of_eq rfl rfl rfl
    have hqb : QO ops (oR o.bare op) := hq.of_eq rfl rfl rfl
    have h5 : LexSeq e.cfg (wb (oR o.bare op) ++ ([')'] ++ y)) (tb (oR o.bare op) ++ (closeTok :: us)) tail :=
      IHb _ _ _ hqb (Cont.closed rfl (HeadIs.cons punct_close) (lexSeq_close e hconv hc.seq))
    have hfc := (FCb (oR o.bare op) op hqb rfl).headIs (([')'] ++ y) ++ tail)
    rw [hname] at hfc
    have h3 := lexSeqG_opText e hconv f _ hfc
    have h35 : LexSeqG e.cfg (opText e f ++ (wb (oR o.bare op) ++ ([')'] ++ y)))
        (opToks e f ++ (tb (oR o.bare op) ++ (closeTok :: us))) tail :=
      LexSeqG.append (by simpa [List.append_assoc] using h3) h5
    have hca : Cont e (oL o.bare op) (opText e f ++ (wb (oR o.bare op) ++ ([')'] ++ y)))
        (opToks e f ++ (tb (oR o.bare op) ++ (closeTok :: us))) tail :=
      ⟨.inr ⟨op, (wb (oR o.bare op) ++ ([')'] ++ y)) ++ tail, rfl, by rw [hname, List.append_assoc]⟩,
        h35.1, fun _ => h35.2⟩
    have h2 := IHa (oL o.bare op) _ _ hqa hca
    have h1 : LexTok e.cfg (sp (isPrefixOp o.left) ++ ['(']) (openTok (isPrefixOp o.left))
        ((wa (oL o.bare op) ++ (opText e f ++ (wb (oR o.bare op) ++ ([')'] ++ y)))) ++ tail) :=
      lexTok_openTok e.cfg hconv _ _
    have := LexSeq.cons h1 h2
    simpa [List.append_assoc] using this
  | false =>
    rw [writeInfix_no e f wa wb o op hq.quo hoc, tInfix_no e f ta tb o op hoc]
    have hqa : QO ops (oL o op) := hq.of_eq rfl rfl rfl
    have hqb : QO ops (oR o op) := hq.of_eq rfl rfl rfl
    have h5 := IHb (oR o op) y us hqb (hc.congr rfl)
    have hfc := (FCb (oR o op) op hqb rfl).headIs (y ++ tail)
    rw [hname] at hfc
    have h3 := lexSeqG_opText e hconv f _ hfc
    have h35 : LexSeqG e.cfg (opText e f ++ (wb (oR o op) ++ y)) (opToks e f ++ (tb (oR o op) ++ us)) tail :=
      LexSeqG.append (by simpa [List.append_assoc] using h3) h5
    have hca : Cont e (oL o op) (opText e f ++ (wb (oR o op) ++ y)) (opToks e f ++ (tb (oR o op) ++ us)) tail :=
      ⟨.inr ⟨op, (wb (oR o op) ++ y) ++ tail, rfl, by rw [hname, List.append_assoc]⟩, h35.1, fun _ => h35.2⟩
    have h2 := IHa (oL o op) _ _ hqa hca
    simpa [List.append_assoc] using h2

/-! ## functional notation -/

theorem lex_functor (e : Env) (hconv : ∀ c, e.cfg.conv c = c) (hcap : CapOK e.cfg) (o : WOpts) (hq : o.quoted = true)
    (f : String) {z : List Char} {zs : List Token} {tail : List Char} (hz : LexSeq e.cfg ('(' :: z) zs tail) :
    LexSeq e.cfg (writeFunctor e o f ++ '(' :: z) (atomTokens e.cfg f.toList ++ zs) tail := by
  unfold writeFunctor
  split
  · rw [writeAtom_bare e o.bare f.toList hq rfl rfl]
    have h3 := (lexSeqG_atomText e hconv f.toList (('(' :: z) ++ tail)
      (HeadIs.cons (Punct.afterOp e _ punct_open))).2
    have := LexSeq.append e.cfg (y := '(' :: z) h3 hz
    simpa using this
  · rename_i h
    have hc : Cont e { o with right := none } ('(' :: z) zs tail :=
      Cont.closed rfl (HeadIs.cons punct_open) hz
    have := lex_atom e hconv hcap { o with right := none } hq f.toList hc
    have ht : tAtom e { o with right := none } f.toList = atomTokens e.cfg f.toList := by
      unfold tAtom
      rw [if_neg]
      simp only [String.ofList_toList, Option.isSome_none, Bool.or_false, Bool.and_eq_true]
      exact h
    rw [ht] at this
    exact this

/-- `(` directly after the functor, the first argument, and what follows it -/
theorem lex_openArg (e : Env) (hconv : ∀ c, e.cfg.conv c = c) (hcap : CapOK e.cfg) (o : WOpts) (hq : o.quoted = true)
    (f : String) {z : List Char} {zs : List Token} {tail : List Char} (hz : LexSeq e.cfg z zs tail) :
    LexSeq e.cfg (writeFunctor e o f ++ (['('] ++ z)) (atomTokens e.cfg f.toList ++ (openTok false :: zs)) tail :=
  lex_functor e hconv hcap o hq f (LexSeq.cons (x := ['(']) (lexTok_openCT e.cfg hconv _) hz)

theorem HeadIs.of_head {p : Char → Prop} {w : List Char} {c : Char} (h : w.head? = some c) (hp : p c) :
    HeadIs p w := by
  intro t ht
  rw [h] at ht
  cases ht
  exact hp

theorem listTail_head (e : Env) : (t : Term) → (o : WOpts) → (z : List Char) → HeadIs Punct z →
    HeadIs Punct (writeListTail e t o ++ z)
  | .app f (.cons h (.cons t .nil)), o, z, _ => by
    simp only [writeListTail]
    split
    · exact HeadIs.of_head (c := ',') (by simp) (by simp [Punct])
    · exact HeadIs.of_head (c := '|') (by simp) (by simp [Punct])
  | .app f .nil, o, z, _ => by
    simp only [writeListTail]
    exact HeadIs.of_head (c := '|') (by simp) (by simp [Punct])
  | .app f (.cons h .nil), o, z, _ => by
    simp only [writeListTail]
    exact HeadIs.of_head (c := '|') (by simp) (by simp [Punct])
  | .app f (.cons h (.cons t (.cons _ _))), o, z, _ => by
    simp only [writeListTail]
    exact HeadIs.of_head (c := '|') (by simp) (by simp [Punct])
  | .atom a, o, z, hz => by
    simp only [writeListTail]
    split
    · simpa using hz
    · exact HeadIs.of_head (c := '|') (by simp) (by simp [Punct])
  | .var v, o, z, _ => by
    simp only [writeListTail]
    exact HeadIs.of_head (c := '|') (by simp) (by simp [Punct])
  | .int i, o, z, _ => by
    simp only [writeListTail]
    exact HeadIs.of_head (c := '|') (by simp) (by simp [Punct])
  | .flt b, o, z, _ => by
    simp only [writeListTail]
    exact HeadIs.of_head (c := '|') (by simp) (by simp [Punct])
  | .str _, o, z, _ => by
    simp only [writeListTail]
    exact HeadIs.of_head (c := '|') (by simp) (by simp [Punct])

theorem argsTail_head (e : Env) (as : Args) (o : WOpts) (z : List Char) (hz : HeadIs Punct z) :
    HeadIs Punct (writeArgsTail e as o ++ z) := by
  cases as with
  | nil => simpa [writeArgsTail] using hz
  | cons a rest =>
    simp only [writeArgsTail]
    exact HeadIs.of_head (c := ',') (by simp) (by simp [Punct])

/-! ## compound terms -/

theorem lex_comp1 (e : Env) (G : UInt64 → GText) (hconv : ∀ c, e.cfg.conv c = c) (hcap : CapOK e.cfg) (ops : Table)
    (hops : tableOK ops = true) (tail : List Char) (f : String) (a0 : Term)
    (hv : (decide (f = "$VAR") && isVarArg (.cons a0 .nil)) = false)
    (IH0 : MainFor e ops tail (writeTerm e a0) (qt e G a0)) (FC0 : FirstFor e ops (writeTerm e a0)) :
    MainFor e ops tail (writeCompound e f (.cons a0 .nil)) (qtC e G f (.cons a0 .nil)) := by
  intro o y us hq hc
  have hnv := numberVarsOf_none o f a0 hv
  simp only [writeCompound, qtC, hnv, hq.ign, Bool.false_eq_true, if_false]
  by_cases hcurly : f = "{}"
  · simp only [hcurly, if_true]
    have h3 := closeCurly_seq e hconv hc.seq
    have hca : Cont e { o with left := none } (['}'] ++ y) (⟨.closeCurly, ['}']⟩ :: us) tail :=
      ⟨Follow.punct (by simp [Punct]), h3.1, fun _ => h3.2⟩
    have h2 := IH0 { o with left := none } _ _ (hq.of_eq rfl rfl rfl) hca
    have h1 := (openCurly_seq e hconv h2).1
    simpa [List.append_assoc, hq.ign] using h1
  · simp only [hcurly, if_false]
    have hops' : tableOK o.ops = true := by rw [hq.tab]; exact hops
    cases hp : pickOp o.ops f 1 with
    | none =>
      simp only []
      have h3 := IH0.bare (o999 o) _ _ hq.o999 rfl (HeadIs.cons punct_close) (lexSeq_close e hconv hc.seq)
      have h1 := lex_openArg e hconv hcap o hq.quo f h3
      simpa [List.append_assoc] using h1
    | some opr =>
      simp only []
      obtain ⟨hname, _, _⟩ := pickOp_spec hp
      by_cases hcls : opr.spec.cls = .pre
      · simp only [hcls, if_true]
        exact lex_prefix e hconv ops tail f _ _ IH0 FC0 o hq opr hname hc
      · simp only [hcls, if_false]
        exact lex_postfix e hconv ops tail f _ _ IH0 o hq opr hname (tableOK_unary hops' hp) hc

theorem lex_comp2 (e : Env) (G : UInt64 → GText) (hconv : ∀ c, e.cfg.conv c = c) (hcap : CapOK e.cfg) (ops : Table)
    (tail : List Char) (f : String) (a0 a1 : Term)
    (IH0 : MainFor e ops tail (writeTerm e a0) (qt e G a0)) (IH1 : MainFor e ops tail (writeTerm e a1) (qt e G a1))
    (IHL : MainForB e ops tail (writeListTail e a1) (qtL e G a1)) (FC1 : FirstFor e ops (writeTerm e a1)) :
    MainFor e ops tail (writeCompound e f (.cons a0 (.cons a1 .nil))) (qtC e G f (.cons a0 (.cons a1 .nil))) := by
  intro o y us hq hc
  simp only [writeCompound, qtC, hq.ign, Bool.false_eq_true, if_false]
  by_cases hdot : f = "."
  · simp only [hdot, if_true]
    have h4 := (closeList_seq e hconv hc.seq).1
    have h3 := IHL (o999 o) _ _ hq.o999 rfl (HeadIs.cons (by simp [Punct])) h4
    have h2 := IH0.bare (o999 o) _ _ hq.o999 rfl
      (by simpa [List.append_assoc] using listTail_head e a1 (o999 o) ((']' :: y) ++ tail) (HeadIs.cons (by simp [Punct]))) h3
    have h1 := (openList_seq e hconv h2).1
    simpa [List.append_assoc] using h1
  · simp only [hdot, if_false]
    cases hp : pickOp o.ops f 2 with
    | none =>
      simp only []
      have h5 := IH1.bare (o999 o) _ _ hq.o999 rfl (HeadIs.cons punct_close) (lexSeq_close e hconv hc.seq)
      have h4 := (comma_seq e hconv h5).1
      have h3 := IH0.bare (o999 o) _ _ hq.o999 rfl (HeadIs.cons (by simp [Punct])) h4
      have h1 := lex_openArg e hconv hcap o hq.quo f h3
      simpa [List.append_assoc] using h1
    | some opr =>
      simp only []
      obtain ⟨hname, _, _⟩ := pickOp_spec hp
      exact lex_infix e hconv ops tail f _ _ _ _ IH0 IH1 FC1 o hq opr hname hc

theorem lex_comp3 (e : Env) (G : UInt64 → GText) (hconv : ∀ c, e.cfg.conv c = c) (hcap : CapOK e.cfg) (ops : Table)
    (tail : List Char) (f : String) (a0 a1 a2 : Term) (rest : Args)
    (IH0 : MainFor e ops tail (writeTerm e a0) (qt e G a0)) (IH1 : MainFor e ops tail (writeTerm e a1) (qt e G a1))
    (IH2 : MainFor e ops tail (writeTerm e a2) (qt e G a2))
    (IHA : MainForB e ops tail (writeArgsTail e rest) (qtA e G rest)) :
    MainFor e ops tail (writeCompound e f (.cons a0 (.cons a1 (.cons a2 rest))))
      (qtC e G f (.cons a0 (.cons a1 (.cons a2 rest)))) := by
  intro o y us hq hc
  simp only [writeCompound, qtC]
  have h7 := IHA (o999 o) _ _ hq.o999 rfl (HeadIs.cons punct_close) (lexSeq_close e hconv hc.seq)
  have h6 := IH2.bare (o999 o) _ _ hq.o999 rfl
    (by simpa [List.append_assoc] using argsTail_head e rest (o999 o) ((')' :: y) ++ tail) (HeadIs.cons punct_close)) h7
  have h5 := (comma_seq e hconv h6).1
  have h4 := IH1.bare (o999 o) _ _ hq.o999 rfl (HeadIs.cons (by simp [Punct])) h5
  have h3 := (comma_seq e hconv h4).1
  have h2 := IH0.bare (o999 o) _ _ hq.o999 rfl (HeadIs.cons (by simp [Punct])) h3
  have h1 := lex_openArg e hconv hcap o hq.quo f h2
  simpa [List.append_assoc] using h1

end PrologVerif.Write
