import PrologVerif.Proofs.Solutions
namespace PrologVerif.Solutions
open PrologVerif.Iter

theorem inv_cStep {q : Query} {s s' : Sys} (h : Inv q s) (hs : cStep true s = some s') : Inv q s' := by
  obtain ⟨ho, hc, hd, he, hsh⟩ := h
  rcases s with ⟨todo, hist, out, c, env, closed, done, more, moreClosed, nextClosed, p, pos, work, perr⟩
  simp only [specState] at *
  cases c <;> simp only [cStep] at hs
  all_goals cases p <;> simp [Shape, Quiet] at hsh
  all_goals (repeat' split at hs)
  all_goals simp at hs
  all_goals subst hs
  all_goals (constructor <;> simp [Shape, specState, Quiet, Sys.ret, run_append, step, moreCap] <;> grind)
end PrologVerif.Solutions
