/-
  C13 — cancelling the context stops any execution promptly; the interpreter stays usable.

  The logical half: `Force` polls the context at the top of EVERY iteration, before popping the
  stack; between two polls at most one thunk (or one chain of recovery functions) runs; a cancelled
  `Force` returns the state of the last completed iteration untouched.  The physical half (wall
  clock, scheduler) is observed by the `c13.latency` stream.
-/
import PrologVerif.Proofs.Promise
import PrologVerif.Model.PTree
namespace PrologVerif.C13
open PrologVerif PrologVerif.Promise

variable {τ ρ ε σ : Type}

/-- **C13_poll_every_iteration / C13_state_untouched**: once `ctx.Done()` is ready (iteration index
    ≥ cancelAt), the next iteration returns the context's error WITHOUT popping the stack, calling a
    thunk or a recovery function — the machine state is returned exactly as the last completed
    iteration left it -/
theorem C13_poll_first (sem : Sem τ ρ ε σ) (c n : Nat) (p : P τ ρ ε) (stack : List (P τ ρ ε)) (m : M σ)
    (hc : c ≤ m.iter) : force sem (some c) (n + 1) (p :: stack) m = some (.cancelled, m) := by
  simp [force, isCancelled, hc]

/-- **C13_bounded_work**: with cancellation at `c`, no `Force` (nested ones included, by
    `IterBounded`) ever completes more than `c` iterations in total, whatever the program: the
    pending call returns after at most `c` more thunks -/
theorem C13_bounded_work (sem : Sem τ ρ ε σ) (c : Nat) (hb : IterBounded sem c) :
    ∀ (n : Nat) (stack : List (P τ ρ ε)) (m : M σ) (r : Res ε) (m' : M σ),
      force sem (some c) n stack m = some (r, m') → m.iter ≤ c → m'.iter ≤ c
  | 0, _, _, _, _, h, _ => by simp [force] at h
  | n + 1, [], m, r, m', h, hm => by simp [force] at h; rw [← h.2]; exact hm
  | n + 1, p :: stack, m, r, m', h, hm => by
    simp only [force] at h
    split at h
    · simp only [Option.some.injEq, Prod.mk.injEq] at h; rw [← h.2]; exact hm
    · rename_i hnc
      have hlt : m.iter + 1 ≤ c := by
        simp [isCancelled] at hnc; omega
      split at h
      · split at h
        · split at h
          · rename_i m2 hrec
            simp only [Option.some.injEq, Prod.mk.injEq] at h
            rw [← h.2]
            exact recoverStack_iter sem c hb _ stack _ none m2 hrec hlt
          · rename_i st2 m2 hrec
            exact C13_bounded_work sem c hb n st2 m2 r m' h
              (recoverStack_iter sem c hb _ stack _ (some st2) m2 hrec hlt)
        · split at h
          · simp only [Option.some.injEq, Prod.mk.injEq] at h; rw [← h.2]; exact hlt
          · exact C13_bounded_work sem c hb n stack _ r m' h hlt
      · split at h
        · simp at h
        · rename_i q m2 hev
          exact C13_bounded_work sem c hb n _ m2 r m' h (hb.thunk n _ _ q m2 hev hlt)

/-- the pure promise-tree semantics (used by the `c03.force` stream) is `IterBounded`: its thunks
    and handlers never touch the poll counter -/
theorem evalThunk_iter : ∀ (t : PTree.PT) (m : M PTree.St), (PTree.evalThunk t m).2.iter = m.iter
  | .ok, _ => rfl
  | .fail, _ => rfl
  | .err _, _ => rfl
  | .delay _ _, _ => rfl
  | .cut _ _, _ => rfl
  | .catch_ _ _ _, _ => rfl
  | .rep _, _ => rfl
  | .log _ k, m => by simp only [PTree.evalThunk]; rw [evalThunk_iter k]
  | .set _ _ k, m => by simp only [PTree.evalThunk]; rw [evalThunk_iter k]

theorem C13_pure_iterBounded (c : Nat) : IterBounded PTree.sem c where
  thunk := by
    intro n t m q m' h hm
    simp only [PTree.sem, Option.some.injEq] at h
    have := evalThunk_iter t m
    rw [h] at this
    simp at this
    omega
  recover := by
    intro r e m q m' h hm
    simp only [PTree.sem, PTree.evalRecover] at h
    split at h
    · split at h
      · rename_i t _
        simp only [Prod.mk.injEq] at h
        have := evalThunk_iter t m
        rw [h.2] at this
        omega
      · simp only [Prod.mk.injEq] at h; rw [← h.2]; exact hm
    · simp only [Prod.mk.injEq] at h; rw [← h.2]; exact hm

end PrologVerif.C13
