import PrologVerif.Driver.Common
import PrologVerif.Driver.C18
import PrologVerif.Driver.C02
import PrologVerif.Driver.C03
import PrologVerif.Driver.C10
import PrologVerif.Driver.C13
import PrologVerif.Driver.C01
import PrologVerif.Driver.C08
import PrologVerif.Driver.C14
import PrologVerif.Driver.C11
import PrologVerif.Driver.C19
import PrologVerif.Driver.C07
import PrologVerif.Driver.C12
import PrologVerif.Driver.C15
import PrologVerif.Driver.C16
import PrologVerif.Driver.C09
import PrologVerif.Driver.C20
import PrologVerif.Driver.C17
import PrologVerif.Driver.C06
import PrologVerif.Driver.C05
open PrologVerif PrologVerif.Driver

def handlers : List (String × Handler) :=
  [ ("c18.hist", C18.handler),
    ("c02.unify", C02.handler),
    ("c02.env", C02.envHandler),
    ("c03.force", C03.handler),
    ("c10.compile", C10.handler),
    ("c13.latency", C13.latencyHandler),
    ("c10.observe", C10.observeHandler),
    ("c08.compare", C08.compareHandler),
    ("c08.sort", C08.sortHandler),
    ("c14.table", C14.tableHandler),
    ("c14.race", C14.raceHandler),
    ("c14.isolation", C14.isoHandler),
    ("c11.collect", C11.handler),
    ("c11.collect.pinned", C11.handlerPinned),
    ("c11.variant", C11.variantHandler),
    ("c19.ops", C19.handler),
    ("c19.out", C19.outHandler),
    ("c07.kernels", C07.kernelsHandler),
    ("c07.queries", C07.queriesHandler),
    ("c12.seq", C12.seqHandler),
    ("c12.inter", C12.interHandler),
    ("c15.args", C15.argsHandler),
    ("c15.scan", C15.scanHandler),
    ("c15.ops", C15.opsHandler),
    ("c16.rel", C16.handler),
    ("c16.conj", C16.conjHandler),
    ("c09.hist", C09.handler),
    ("c09.hist.pinned", C09.handlerPinned),
    ("c20.load", C20.handler),
    ("c20.files", C20.filesHandler),
    ("c17.expand", C17.handlerExpand),
    ("c17.lang", C17.handlerLang),
    ("c17.rep", C17.handlerRep),
    ("c01.answers", C01.handler),
    ("c01.deep", C01.deepHandler),
    ("c04.consult", C01.consultHandler),
    ("c03.answers", C01.handler),
    ("c04.answers", C01.handler),
    ("c06.lex", C06.lexHandler),
    ("c06.atoms", C06.atomsHandler),
    ("c06.numbers", C06.numbersHandler),
    ("c06.terms", C06.termsHandler),
    ("c06.shared", C06.sharedHandler),
    ("c05.matrix", C05.matrixHandler),
    ("c05.nolimit", C05.matrixHandler),
    ("c05.text", C05.textHandler),
    ("c05.parse", C05.parseHandler) ]

partial def loop (h : IO.FS.Stream) (out : IO.FS.Stream) (f : Handler) : IO Unit := do
  let line ← h.getLine
  if line.isEmpty then return ()
  let line := String.ofList (line.toList.reverse.dropWhile (fun c => c == '\n' || c == '\r')).reverse
  let (payload, impl) := match line.splitOn " ||| " with
    | [p, i] => (p, i)
    | [p] => (p, "")
    | p :: rest => (p, " ||| ".intercalate rest)
    | [] => ("", "")
  let (m, v) := f payload impl
  out.putStrLn (m ++ " ||| " ++ v)
  loop h out f

def main (args : List String) : IO UInt32 := do
  match args with
  | [name] =>
    match handlers.lookup name with
    | some f =>
      loop (← IO.getStdin) (← IO.getStdout) f
      return 0
    | none =>
      IO.eprintln s!"unknown stream {name}"
      return 2
  | _ =>
    IO.eprintln "usage: driver <stream> < cases"
    return 2
