/-
  Spec/DcgSLD — a small reference SLD evaluation (depth-first, left-to-right, ISO cut semantics)
  for the goals a DCG translation produces: true, fail, !, =, \=, ==, \==, conjunction,
  disjunction, if-then(-else), \+, call/N, phrase/3 and user predicates.  It is what
  "the translated clauses behave as" means in property C17; the denotation of Spec/Grammar never
  refers to it.  Core Lean only.
-/
import PrologVerif.Spec.Grammar
namespace PrologVerif.Grammar
open PrologVerif

/-- a program clause `head :- body` whose variables are 0 … nv-1 -/
structure Clause where
  head : Term
  body : Term
  nv : Nat
deriving DecidableEq

abbrev Program := List Clause

/-- answers in order, and whether a cut has to be honoured by the caller -/
structure SOut where
  answers : List St
  cut : Bool
deriving DecidableEq

def sBarrier : Res SOut → Res SOut
  | .ok o => .ok { o with cut := false }
  | e => e

/-- run `k` on every answer in order; a cut inside `k` discards the remaining answers -/
def sAndThen (k : St → Res SOut) : List St → Res SOut
  | [] => .ok ⟨[], false⟩
  | st :: rest =>
    match k st with
    | .error e => .error e
    | .ok o =>
      if o.cut then .ok ⟨o.answers, true⟩
      else match sAndThen k rest with
        | .error e => .error e
        | .ok o' => .ok ⟨o.answers ++ o'.answers, o'.cut⟩

/-- one goal, given `call` for everything that is not a control construct or `=`-like built-in.
    Cut is transparent to `,`, `;` and the branches of if-then(-else); local to the condition and
    to `\+` (ISO 7.8). -/
def solveGoal (uf : Nat) (call : Term → St → Res SOut) : Term → St → Res SOut
  | .atom "true", st => .ok ⟨[st], false⟩
  | .atom "fail", _ => .ok ⟨[], false⟩
  | .atom "false", _ => .ok ⟨[], false⟩
  | .atom "!", st => .ok ⟨[st], true⟩
  | .app "=" (.cons x (.cons y .nil)), st =>
    match unify uf st.σ x y with
    | .out => .error .fuel
    | .done none => .ok ⟨[], false⟩
    | .done (some σ') => .ok ⟨[{ st with σ := σ' }], false⟩
  | .app "\\=" (.cons x (.cons y .nil)), st =>
    match unify uf st.σ x y with
    | .out => .error .fuel
    | .done none => .ok ⟨[st], false⟩
    | .done (some _) => .ok ⟨[], false⟩
  | .app "==" (.cons x (.cons y .nil)), st =>
    match resolve uf st.σ x, resolve uf st.σ y with
    | some x', some y' => .ok ⟨if x' = y' then [st] else [], false⟩
    | _, _ => .error .fuel
  | .app "\\==" (.cons x (.cons y .nil)), st =>
    match resolve uf st.σ x, resolve uf st.σ y with
    | some x', some y' => .ok ⟨if x' = y' then [] else [st], false⟩
    | _, _ => .error .fuel
  | .app "," (.cons a (.cons b .nil)), st =>
    match solveGoal uf call a st with
    | .error e => .error e
    | .ok oa =>
      match sAndThen (fun st' => solveGoal uf call b st') oa.answers with
      | .error e => .error e
      | .ok ob => .ok ⟨ob.answers, oa.cut || ob.cut⟩
  | .app ";" (.cons (.app "->" (.cons c (.cons t .nil))) (.cons e .nil)), st =>
    match solveGoal uf call c st with
    | .error e => .error e
    | .ok oc =>
      match oc.answers with
      | st' :: _ => solveGoal uf call t st'
      | [] => solveGoal uf call e st
  | .app ";" (.cons a (.cons b .nil)), st =>
    match solveGoal uf call a st with
    | .error e => .error e
    | .ok oa =>
      if oa.cut then .ok oa
      else match solveGoal uf call b st with
        | .error e => .error e
        | .ok ob => .ok ⟨oa.answers ++ ob.answers, ob.cut⟩
  | .app "->" (.cons c (.cons t .nil)), st =>
    match solveGoal uf call c st with
    | .error e => .error e
    | .ok oc =>
      match oc.answers with
      | st' :: _ => solveGoal uf call t st'
      | [] => .ok ⟨[], false⟩
  | .app "\\+" (.cons g .nil), st =>
    match solveGoal uf call g st with
    | .error e => .error e
    | .ok o => .ok ⟨if o.answers.isEmpty then [st] else [], false⟩
  | g, st => call g st

/-- resolve a goal with the clauses in order (each renamed apart); a cut in a clause body
    discards the remaining clauses and is then spent -/
def tryClauses (uf : Nat) (body : Term → St → Res SOut) (goal : Term) (st : St) :
    List Clause → Res (List St)
  | [] => .ok []
  | c :: cs =>
    let st1 : St := { st with next := st.next + c.nv }
    match unify uf st1.σ goal (renameT st.next c.head) with
    | .out => .error .fuel
    | .done none => tryClauses uf body goal st cs
    | .done (some σ') =>
      match body (renameT st.next c.body) { st1 with σ := σ' } with
      | .error e => .error e
      | .ok o =>
        if o.cut then .ok o.answers
        else match tryClauses uf body goal st cs with
          | .error e => .error e
          | .ok more => .ok (o.answers ++ more)

/-- name and arity of a callable term -/
def sig : Term → Option (String × Nat)
  | .atom a => some (a, 0)
  | .app f as => some (f, as.length)
  | _ => none

/-- add arguments to a closure (call/N) -/
def addArgs (g : Term) (extra : List Term) : Option Term :=
  match g with
  | .atom f => some (Term.mk f extra)
  | .app f as => some (Term.mk f (as.toList ++ extra))
  | _ => none

/-- the reference evaluation; fuel = nesting depth of predicate calls -/
def solve (uf : Nat) (prog : Program) : Nat → Term → St → Res SOut
  | 0, _, _ => .error .fuel
  | n + 1, g, st =>
    solveGoal uf (fun g st =>
      match g with
      | .app "call" (.cons c extra) =>
        match addArgs (walk st.σ c) extra.toList with
        | some g' => sBarrier (solve uf prog n g' st)
        | none => .error (.unsupported "call/N of a non-callable term")
      | .app "phrase" (.cons b (.cons s0 (.cons s .nil))) =>
        match resolve uf st.σ b with
        | none => .error .fuel
        | some (.var _) => .error (.unsupported "instantiation_error: phrase/3 with an unbound body")
        | some b' =>
          match Body.ofTerm b' with
          | .error _ => .error (.unsupported "phrase/3: not a grammar body")
          | .ok bb =>
            let r := bb.tr s0 s st.next
            sBarrier (solve uf prog n r.1 { st with next := r.2 })
      | g =>
        match sig g with
        | none => .error (.unsupported "goal is not callable")
        | some (f, k) =>
          let cs := prog.filter (fun c => sig c.head = some (f, k))
          if cs.isEmpty then .error (.unsupported ("unknown procedure " ++ f))
          else match tryClauses uf (solve uf prog n) g st cs with
            | .error e => .error e
            | .ok as => .ok ⟨as, false⟩) g st

/-- the clause a grammar rule is translated to (same as `Rule.tr`, as a `Clause`) -/
def Rule.clause (r : Rule) : Clause :=
  let t := r.tr r.nv
  match t.1 with
  | .app ":-" (.cons h (.cons b .nil)) => { head := h, body := b, nv := t.2 }
  | other => { head := other, body := .atom "true", nv := t.2 }

/-- the program a grammar is translated to -/
def programOf (gr : Grammar) : Program := gr.map Rule.clause

end PrologVerif.Grammar
