import PrologVerif.Driver.Common
import PrologVerif.Model.Collect
import PrologVerif.Spec.Collect
namespace PrologVerif.Driver.C11
open PrologVerif PrologVerif.Collect PrologVerif.Driver

def fuel : Nat := 1000000

structure Case where
  kind : String
  template : Term      -- resolved in the call-time bindings
  goal : Term
  instances : Term
  nvars : Nat          -- query variables are V0 .. V(nvars-1)

mutual
  /-- In the payloads of this stream four reserved functors tell the HARNESS which Go representation
      to build for a list (`$l` slice-backed list, `$p` partial list, `$s` charList, `$c` codeList, see
      harness/c11.go); for the model and the specification they are all the plain list term. -/
  def norm : Term → Term
    | .app f as =>
      let as' := normArgs as
      if f = "$l" then Term.list as'.toList
      else if f = "$p" then
        match as'.toList.reverse with
        | tail :: revEs => Term.list revEs.reverse tail
        | [] => .atom "[]"
      else if f = "$s" then
        match as' with
        | .cons (.atom s) .nil => Term.list (s.toList.map fun c => .atom (String.singleton c))
        | _ => .app f as'
      else if f = "$c" then
        match as' with
        | .cons (.atom s) .nil => Term.list (s.toList.map fun c => .int c.toNat)
        | _ => .app f as'
      else .app f as'
    | t => t
  def normArgs : Args → Args
    | .nil => .nil
    | .cons t ts => .cons (norm t) (normArgs ts)
end

def ofWireN (s : String) : Option Term := (Term.ofWire s).map norm

/-- the bindings executed before the call, as an environment -/
def bindsEnv (ops : List String) : Option Env :=
  ops.mapM fun o =>
    match ofWireN o with
    | some (.app "=" (.cons (.var v) (.cons t .nil))) => some (v, t)
    | _ => none

def maxVarOfTokens (fs : List String) : Nat :=
  (fs.flatMap words).foldl (fun m tok =>
    match tok.toList with
    | 'V' :: cs => match natOfChars cs with | some n => max m (n + 1) | none => m
    | _ => m) 0

def parseCase (payload : String) : Option Case :=
  match fields payload with
  | [kind, _clauses, binds, ts, gs, is] => do
    let e ← bindsEnv (splitOps binds)
    let t ← ofWireN ts
    let g ← ofWireN gs
    let i ← ofWireN is
    let t ← applyEnv e fuel [] t
    let g ← applyEnv e fuel [] g
    let i ← applyEnv e fuel [] i
    pure { kind, template := t, goal := g, instances := i, nvars := maxVarOfTokens [binds, ts, gs, is] }
  | _ => none

/-- a solution `s(t0, …, tk)` as a substitution for V0..Vk -/
def solSubst : Term → List (Nat × Term)
  | .app _ as => (List.range as.length).zip as.toList
  | _ => []

structure Observed where
  sols : List (List (Nat × Term))
  solTerms : List Term
  gerr : Option Term
  left : String
  right : String

def parseImpl (impl : String) : Option Observed :=
  match impl.splitOn " => " with
  | [left, right] =>
    let ops := splitOps left
    match ops.reverse with
    | [] => none
    | last :: revSols => do
      let ts ← revSols.reverse.mapM fun o =>
        let (w, rest) := headWord o
        if w == "sol" then Term.ofWire rest else none
      let gerr ← (if last == "end" then some none else
        let (w, rest) := headWord last
        if w == "gerr" then (Term.ofWire rest).map some else none)
      pure { sols := ts.map solSubst, solTerms := ts, gerr, left, right }
  | _ => none

def q (t g i : Term) : Term := Term.a3 "q" t g i

def showAnswer (c : Case) (e : Env) : String :=
  match applyEnv e fuel [] (q c.template c.goal c.instances) with
  | some t => "ans " ++ t.canon.wire
  | none => "ans CYCLIC"

def showRes (c : Case) (sorted : Bool) : Res → String
  | .err e => "err " ++ e.canon.wire
  | .fuelOut => "FUEL"
  | .ok [] => "none"
  | .ok as =>
    let rows := as.map (showAnswer c)
    " ; ".intercalate (if sorted then sortStrings rows else rows)

def nextVar (c : Case) (o : Observed) : Nat :=
  (o.solTerms.map varBound).foldl max (max c.nvars (varBound (q c.template c.goal c.instances)))

def runModel (test : Term → Term → Bool) (c : Case) (o : Observed) : String :=
  let next := nextVar c o
  if c.kind == "findall" then
    showRes c false (findAll c.instances (o.sols.map fun σ => subst σ c.template) o.gerr next fuel)
  else
    let kind := if c.kind == "setof" then Kind.set else Kind.bag
    showRes c true (collectionOfBy test kind (witnessOf c.goal c.template) c.instances
      (solutionPairs c.goal c.template o.sols) o.gerr next fuel)

def handlerBy (test : Term → Term → Bool) : Handler := fun payload impl =>
  match parseCase payload, parseImpl impl with
  | some c, some o => (o.left ++ " => " ++ runModel test c o, CollectSpec.judge c.kind c.template c.goal c.instances o.sols o.gerr o.right)
  | _, _ => ("BAD-CASE", "-")

/-- the model of the (repaired) tree -/
def handler : Handler := handlerBy variant

/-- the model of the pinned tree (defect D11: `variant` without the inverse map); only used to
    re-check by hand that the pinned model reproduces the pinned implementation -/
def handlerPinned : Handler := handlerBy variantPinned

end PrologVerif.Driver.C11

namespace PrologVerif.Driver.C11
open PrologVerif PrologVerif.Collect PrologVerif.Driver

/-- stream c11.variant: `variant` and `renamedCopy` called directly -/
def variantHandlerBy (test : Term → Term → Bool) : Handler := fun payload impl =>
  match fields payload with
  | ["v", a, b] =>
    match ofWireN a, ofWireN b with
    | some t1, some t2 =>
      let m := if test t1 t2 then "true" else "false"
      -- specification: variants iff the canonical forms (variables numbered by first occurrence) coincide
      let want := if t1.canon == t2.canon then "true" else "false"
      (m, if impl == want then "ok" else s!"FAIL variant: want {want} (canonical forms {if want == "true" then "coincide" else "differ"})")
    | _, _ => ("BAD-CASE", "-")
  | ["c", a] =>
    match ofWireN a with
    | some t =>
      let next := varBound t
      let c := (renamedCopy t [] next).1
      let m := (Term.a2 "c" t c).canon.wire
      -- specification: the copy is a variant of the term and shares no variable with it
      let v := match Term.ofWire impl with
        | some (.app "c" (.cons o (.cons c' .nil))) =>
          if o.canon != t.canon then "FAIL copy: the original changed"
          else if c'.canon != t.canon then "FAIL copy: not a variant of the original"
          else if (vars c').any (fun x => (vars o).contains x) then "FAIL copy: shares a variable with the original"
          else "ok"
        | _ => "FAIL copy: unreadable output"
      (m, v)
    | none => ("BAD-CASE", "-")
  | _ => ("BAD-CASE", "-")

def variantHandler : Handler := variantHandlerBy variant

end PrologVerif.Driver.C11
