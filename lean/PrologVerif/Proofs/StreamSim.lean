/-
  Proofs/StreamSim.lean — the simulation between the stream model (Model/Stream.lean) and the
  cursor specification (Spec/Cursor.lean): lemmas for Stream.ReadRune / UnreadRune / ReadByte /
  UnreadByte.  Used by Properties/C19.lean.
-/
import PrologVerif.Proofs.StreamBuf
import PrologVerif.Spec.Cursor
namespace PrologVerif.Stream
open Spec

/-- the part of a stream configuration the specification knows -/
def Cfg.spec (c : Cfg) : SCfg := { bytes := c.src, typ := c.typ, action := c.action }

/-- a file's size, when `Stat` reports it, is the length of the source (the file does not change) -/
def Cfg.Valid (c : Cfg) : Prop :=
  (∀ n, c.rd.fileSize = some n → n = c.src.length) ∧ c.rd.marks = []

/-- the simulation relation: the model's cursor bookkeeping agrees with the specification's cursor -/
structure Sim (c : Cfg) (s : Stream) (cu : Cursor) : Prop where
  buf : BufInv c s.buf
  cur_eq : s.buf.cur = cu.idx
  pos_eq : s.position = (cu.idx : Int)
  past_iff : s.endOfStream = .past ↔ cu.delivered = true
  end_of : s.endOfStream ≠ .not → cu.idx = c.src.length
  unread_at : s.eofUnread = true → s.endOfStream = .at

theorem sim_init (c : Cfg) (hv : c.Valid) : Sim c Stream.init {} := by
  refine ⟨⟨Nat.le_refl _, Nat.zero_le _, ?_, ?_, hv.2⟩, rfl, rfl, ?_, ?_, ?_⟩
  · intro h; exact absurd h (by decide)
  · intro h; exact absurd h (by decide)
  · constructor <;> intro h <;> exact absurd h (by decide)
  · intro h; exact absurd rfl h
  · intro h; exact absurd h (by decide)

/-- only these four fields matter -/
theorem Sim.congr {c : Cfg} {s s' : Stream} {cu : Cursor} (h : Sim c s cu)
    (h1 : s'.buf = s.buf) (h2 : s'.position = s.position) (h3 : s'.endOfStream = s.endOfStream)
    (h4 : s'.eofUnread = s.eofUnread) : Sim c s' cu := by
  refine ⟨?_, ?_, ?_, ?_, ?_, ?_⟩
  · rw [h1]; exact h.buf
  · rw [h1]; exact h.cur_eq
  · rw [h2]; exact h.pos_eq
  · rw [h3]; exact h.past_iff
  · rw [h3]; exact h.end_of
  · rw [h3, h4]; exact h.unread_at

theorem Sim.idx_le {c : Cfg} {s : Stream} {cu : Cursor} (h : Sim c s cu) : cu.idx ≤ c.src.length := by
  have := h.buf.cur_le; have := h.buf.fetched_le; have := h.cur_eq; omega

theorem Sim.delivered_end {c : Cfg} {s : Stream} {cu : Cursor} (h : Sim c s cu) (hd : cu.delivered = true) :
    cu.idx = c.src.length := by
  apply h.end_of
  rw [h.past_iff.mpr hd]; decide

/-- what Stream.ReadRune does in terms of the cursor: its result, the cursor if the read stands
    (get_char, the parser), the cursor if it is unread again (peek_char, the parser's look-ahead) -/
def cursorRuneBody (c : Cfg) (cu : Cursor) : Rd (Nat × Nat) × Cursor × Cursor :=
  if c.typ ≠ .text then (.err .wrongType, cu, cu)
  else if cu.idx < c.src.length then
    (.ok (decodeRune (c.src.drop cu.idx)), { cu with idx := cu.idx + (decodeRune (c.src.drop cu.idx)).2 }, cu)
  else (.eof, { cu with delivered := true }, cu)

def cursorReadRune (c : Cfg) (cu : Cursor) : Rd (Nat × Nat) × Cursor × Cursor :=
  match pastAction c.action cu with
  | (some _, cu) => (.err .pastEOS, cu, cu)
  | (none, cu1) => cursorRuneBody c cu1

def cursorByteBody (c : Cfg) (cu : Cursor) : Rd Nat × Cursor × Cursor :=
  if c.typ ≠ .binary then (.err .wrongType, cu, cu)
  else
    match c.src[cu.idx]? with
    | some x => (.ok x, { cu with idx := cu.idx + 1 }, cu)
    | none => (.eof, { cu with delivered := true }, cu)

def cursorReadByte (c : Cfg) (cu : Cursor) : Rd Nat × Cursor × Cursor :=
  match pastAction c.action cu with
  | (some _, cu) => (.err .pastEOS, cu, cu)
  | (none, cu1) => cursorByteBody c cu1

theorem sim_reset {c : Cfg} {s : Stream} {cu : Cursor} (h : Sim c s cu) (hp : s.endOfStream = .past) :
    Sim c (reset s) { cu with delivered := false } := by
  have hidx : cu.idx = c.src.length := h.end_of (by rw [hp]; decide)
  have := h.buf.cur_le; have := h.buf.fetched_le; have := h.cur_eq
  refine ⟨⟨Nat.le_refl _, h.buf.fetched_le, ?_, ?_, h.buf.nomarks⟩, ?_, h.pos_eq, ?_, ?_, ?_⟩
  · intro hh; simp [reset] at hh
  · intro hh; simp [reset] at hh
  · show s.buf.fetched = cu.idx; omega
  · constructor <;> intro hh <;> simp [reset] at hh
  · intro hh; exact absurd rfl hh
  · intro hh; simp [reset] at hh

/-- checkEOS after a read that did not hit the end: `at` is only reported when nothing remains -/
theorem sim_checkEOS_false {c : Cfg} (hv : c.Valid) {s : Stream} {cu : Cursor}
    (hb : BufInv c s.buf) (hc : s.buf.cur = cu.idx) (hpos : s.position = (cu.idx : Int))
    (hd : cu.delivered = false) (hu : s.eofUnread = false) :
    Sim c (checkEOS c s false) cu := by
  have hne : (checkEOS c s false).endOfStream ≠ .past := by
    unfold checkEOS; simp only; split
    · contradiction
    · split
      · decide
      · split <;> decide
  refine ⟨hb, hc, hpos, ?_, ?_, ?_⟩
  · constructor
    · intro hh; exact absurd hh hne
    · intro hh; rw [hd] at hh; exact absurd hh (by decide)
  · intro hh
    unfold checkEOS at hh
    simp only at hh
    split at hh
    · contradiction
    · split at hh
      · rename_i h1
        have := hb.rderr h1.2
        have := hb.cur_le
        have : s.buf.fetched - s.buf.cur = 0 := h1.1
        omega
      · split at hh
        · rename_i h2
          cases hfs : c.rd.fileSize with
          | none => rw [hfs] at h2; simp at h2
          | some n =>
            have hn := hv.1 n hfs
            rw [hfs] at h2
            simp only [Option.map_some, Option.some.injEq] at h2
            have h3 := h2.2
            simp only [Int.ofNat_eq_natCast] at h3
            omega
        · exact absurd rfl hh
  · intro hh; exact absurd (show s.eofUnread = true from hh) (by rw [hu]; decide)

theorem sim_checkEOS_true {c : Cfg} {s : Stream} {cu : Cursor}
    (hb : BufInv c s.buf) (hc : s.buf.cur = cu.idx) (hpos : s.position = (cu.idx : Int))
    (hd : cu.delivered = true) (hend : cu.idx = c.src.length) (hu : s.eofUnread = false) :
    Sim c (checkEOS c s true) cu := by
  refine ⟨hb, hc, hpos, ?_, ?_, ?_⟩
  · constructor
    · intro _; exact hd
    · intro _; rfl
  · intro _; exact hend
  · intro hh; exact absurd (show s.eofUnread = true from hh) (by rw [hu]; decide)

@[simp] theorem setLastRead_buf (s : Stream) (k : ReadKind) : (setLastRead s k).buf = s.buf := by
  cases k <;> simp only [setLastRead] <;> split <;> rfl
@[simp] theorem setLastRead_position (s : Stream) (k : ReadKind) : (setLastRead s k).position = s.position := by
  cases k <;> simp only [setLastRead] <;> split <;> rfl
@[simp] theorem setLastRead_eofUnread (s : Stream) (k : ReadKind) : (setLastRead s k).eofUnread = s.eofUnread := by
  cases k <;> simp only [setLastRead] <;> split <;> rfl
@[simp] theorem setLastRead_endOfStream (s : Stream) (k : ReadKind) : (setLastRead s k).endOfStream = s.endOfStream := by
  cases k <;> simp only [setLastRead] <;> split <;> rfl
@[simp] theorem setLastRead_lastRuneSize (s : Stream) (k : ReadKind) : (setLastRead s k).lastRuneSize = s.lastRuneSize := by
  cases k <;> simp only [setLastRead] <;> split <;> rfl

@[simp] theorem setLastRead_lastRead_ok (s : Stream) : (setLastRead s .ok).lastRead = .ok := rfl
@[simp] theorem checkEOS_buf (c : Cfg) (s : Stream) (e : Bool) : (checkEOS c s e).buf = s.buf := rfl
@[simp] theorem checkEOS_position (c : Cfg) (s : Stream) (e : Bool) : (checkEOS c s e).position = s.position := rfl
@[simp] theorem checkEOS_eofUnread (c : Cfg) (s : Stream) (e : Bool) : (checkEOS c s e).eofUnread = s.eofUnread := rfl
@[simp] theorem checkEOS_lastRead (c : Cfg) (s : Stream) (e : Bool) : (checkEOS c s e).lastRead = s.lastRead := rfl
@[simp] theorem checkEOS_lastRuneSize (c : Cfg) (s : Stream) (e : Bool) : (checkEOS c s e).lastRuneSize = s.lastRuneSize := rfl

theorem bufUnreadRune_some (b : Buf) (n : Nat) (h : b.lastRuneSize = some n) (hge : n ≤ b.cur) :
    bufUnreadRune b = some { b with cur := b.cur - n, lastRuneSize := none, lastByte := false } := by
  unfold bufUnreadRune; rw [h]; simp only; rw [if_neg (by omega)]

theorem unreadRune_ok (c : Cfg) (s : Stream) (ht : ¬ c.typ ≠ .text) (hl : s.lastRead = .ok) (n : Nat)
    (hb : s.buf.lastRuneSize = some n) (hge : n ≤ s.buf.cur) :
    unreadRune c s =
      { s with lastRead := .none,
               buf := { s.buf with cur := s.buf.cur - n, lastRuneSize := none, lastByte := false },
               position := s.position - s.lastRuneSize, endOfStream := .not, lastRuneSize := 0 } := by
  unfold unreadRune; rw [if_neg ht, hl]
  simp only
  rw [bufUnreadRune_some _ n hb hge]

theorem bufUnreadByte_some (b : Buf) (h : b.lastByte = true) (hge : 1 ≤ b.cur) :
    bufUnreadByte b = some { b with cur := b.cur - 1, lastRuneSize := none, lastByte := false } := by
  unfold bufUnreadByte; rw [if_neg]; rw [h]; simp; omega

theorem unreadByte_ok (c : Cfg) (s : Stream) (ht : ¬ c.typ ≠ .binary) (hl : s.lastRead = .ok)
    (hb : s.buf.lastByte = true) (hge : 1 ≤ s.buf.cur) :
    unreadByte c s =
      { s with lastRead := .none,
               buf := { s.buf with cur := s.buf.cur - 1, lastRuneSize := none, lastByte := false },
               position := s.position - 1, endOfStream := .not } := by
  unfold unreadByte; rw [if_neg ht, hl]
  simp only
  rw [bufUnreadByte_some _ hb hge]

theorem unreadRune_of_none (c : Cfg) (s : Stream) (h : s.lastRead = .none) : unreadRune c s = s := by
  unfold unreadRune
  split
  · rfl
  · rw [h]

theorem unreadByte_of_none (c : Cfg) (s : Stream) (h : s.lastRead = .none) : unreadByte c s = s := by
  unfold unreadByte
  split
  · rfl
  · rw [h]

/-- Stream.ReadRune after a successful initRead, and the UnreadRune that may follow it.
    `hpast`: a stream that is still past here has eof_action(eof_code) -/
theorem readRuneBody_sim {c : Cfg} (hv : c.Valid) {s : Stream} {cu : Cursor} (h : Sim c s cu) :
    (readRuneBody c s).1 = (cursorRuneBody c cu).1 ∧
    Sim c (readRuneBody c s).2 (cursorRuneBody c cu).2.1 ∧
    Sim c (unreadRune c (readRuneBody c s).2) (cursorRuneBody c cu).2.2 := by
  by_cases ht : c.typ ≠ .text
  · -- wrong stream type: nothing happens
    have hval : readRuneBody c s = (.err .wrongType, s) := by unfold readRuneBody; rw [if_pos ht]
    have hcv : cursorRuneBody c cu = (.err .wrongType, cu, cu) := by unfold cursorRuneBody; rw [if_pos ht]
    rw [hval, hcv]
    refine ⟨rfl, h, ?_⟩
    have : unreadRune c s = s := by unfold unreadRune; rw [if_pos ht]
    rw [this]; exact h
  · have ht' : c.typ = .text := by simpa using ht
    by_cases hu : s.eofUnread = true
    · -- an end of file that was unread is delivered now
      have hat := h.unread_at hu
      have hidx : cu.idx = c.src.length := h.end_of (by rw [hat]; decide)
      have hnd : cu.delivered = false := by
        cases hd : cu.delivered with
        | false => rfl
        | true => have := h.past_iff.mpr hd; rw [hat] at this; exact absurd this (by decide)
      have hval : readRuneBody c s = (.eof, readEOF { s with lastRuneSize := 0 }) := by
        unfold readRuneBody; rw [if_neg ht, if_pos hu]
      have hcv : cursorRuneBody c cu = (.eof, { cu with delivered := true }, cu) := by
        unfold cursorRuneBody; rw [if_neg ht, if_neg (by omega)]
      rw [hval, hcv]
      refine ⟨rfl, ?_, ?_⟩
      · refine ⟨h.buf, h.cur_eq, h.pos_eq, ?_, ?_, ?_⟩
        · constructor <;> intro _ <;> rfl
        · intro _; exact hidx
        · intro hh; simp [readEOF] at hh
      · have : unreadRune c (readEOF { s with lastRuneSize := 0 }) =
            unreadEOF { readEOF { s with lastRuneSize := 0 } with lastRead := .none } := by
          unfold unreadRune; rw [if_neg ht]; rfl
        rw [this]
        refine ⟨h.buf, h.cur_eq, h.pos_eq, ?_, ?_, ?_⟩
        · constructor
          · intro hh; simp [unreadEOF] at hh
          · intro hh; rw [hnd] at hh; exact absurd hh (by decide)
        · intro _; exact hidx
        · intro _; rfl
    · have hu' : s.eofUnread = false := by simpa using hu
      obtain ⟨hbinv, hok, heof⟩ := bufReadRune_spec (c := c) h.buf
      by_cases hlt : cu.idx < c.src.length
      · -- a rune at the cursor
        have hlt' : s.buf.cur < c.src.length := by rw [h.cur_eq]; exact hlt
        obtain ⟨hr, hcur, hlrs⟩ := hok hlt'
        rw [h.cur_eq] at hr hcur hlrs
        have hnd : cu.delivered = false := by
          cases hd : cu.delivered with
          | false => rfl
          | true => have := h.delivered_end hd; omega
        generalize hd : decodeRune (c.src.drop cu.idx) = d at *
        generalize hp : bufReadRune c.src c.rd s.buf = p at *
        obtain ⟨r, b⟩ := p
        simp only at hr hcur hlrs hbinv
        subst hr
        have hval : readRuneBody c s =
            (.ok d, checkEOS c (setLastRead { s with buf := b, position := s.position + d.2, lastRuneSize := d.2 } .ok) false) := by
          unfold readRuneBody; rw [if_neg ht, if_neg hu, hp]
        have hcv : cursorRuneBody c cu = (.ok d, { cu with idx := cu.idx + d.2 }, cu) := by
          unfold cursorRuneBody; rw [if_neg ht, if_pos hlt, hd]
        rw [hval, hcv]
        refine ⟨rfl, ?_, ?_⟩
        · apply sim_checkEOS_false hv
          · rw [setLastRead_buf]; exact hbinv
          · rw [setLastRead_buf]; exact hcur
          · rw [setLastRead_position]
            show s.position + (d.2 : Int) = ((cu.idx + d.2 : Nat) : Int)
            rw [h.pos_eq]; omega
          · exact hnd
          · rw [setLastRead_eofUnread]; exact hu'
        · -- the unread gives the rune back
          rw [unreadRune_ok c _ ht (by simp) d.2 (by simpa using hlrs) (by simp; omega)]
          simp only [checkEOS_buf, setLastRead_buf, checkEOS_position, setLastRead_position,
            checkEOS_lastRuneSize, setLastRead_lastRuneSize]
          refine ⟨⟨?_, hbinv.fetched_le, hbinv.pend, hbinv.rderr, hbinv.nomarks⟩, ?_, ?_, ?_, ?_, ?_⟩
          · show b.cur - d.2 ≤ b.fetched; have := hbinv.cur_le; omega
          · show b.cur - d.2 = cu.idx; omega
          · show s.position + (d.2 : Int) - (d.2 : Int) = (cu.idx : Int); rw [h.pos_eq]; omega
          · constructor
            · intro hh; exact absurd hh (by simp)
            · intro hh; rw [hnd] at hh; exact absurd hh (by decide)
          · intro hh; exact absurd rfl hh
          · intro hh; exact absurd (show s.eofUnread = true from hh) hu
      · -- the end of the source
        have hidx : cu.idx = c.src.length := by have := h.idx_le; omega
        have hnlt : ¬ s.buf.cur < c.src.length := by rw [h.cur_eq]; exact hlt
        obtain ⟨hr, hcur, hfet, hpend⟩ := heof hnlt
        generalize hp : bufReadRune c.src c.rd s.buf = p at *
        obtain ⟨r, b⟩ := p
        simp only at hr hcur hfet hpend hbinv
        subst hr
        have hval : readRuneBody c s =
            (.eof, checkEOS c (setLastRead { s with buf := b, lastRuneSize := 0 } .eof) true) := by
          unfold readRuneBody; rw [if_neg ht, if_neg hu, hp]
        have hcv : cursorRuneBody c cu = (.eof, { cu with delivered := true }, cu) := by
          unfold cursorRuneBody; rw [if_neg ht, if_neg hlt]
        rw [hval, hcv]
        refine ⟨rfl, ?_, ?_⟩
        · apply sim_checkEOS_true
          · rw [setLastRead_buf]; exact hbinv
          · rw [setLastRead_buf]; show b.cur = cu.idx; rw [hcur, h.cur_eq]
          · rw [setLastRead_position]; exact h.pos_eq
          · rfl
          · exact hidx
          · rw [setLastRead_eofUnread]; exact hu'
        · by_cases hpast : s.endOfStream = .past
          · -- already past (eof_code): the end is delivered again and cannot be taken back
            have hd : cu.delivered = true := h.past_iff.mp hpast
            have hlr : (checkEOS c (setLastRead { s with buf := b, lastRuneSize := 0 } .eof) true).lastRead = .none := by
              simp [checkEOS, setLastRead, hpast]
            rw [unreadRune_of_none _ _ hlr]
            have hcu : cu = { cu with delivered := true } := by cases cu; simp at hd; simp [hd]
            rw [hcu]
            apply sim_checkEOS_true
            · rw [setLastRead_buf]; exact hbinv
            · rw [setLastRead_buf]; show b.cur = cu.idx; rw [hcur, h.cur_eq]
            · rw [setLastRead_position]; exact h.pos_eq
            · rfl
            · exact hidx
            · rw [setLastRead_eofUnread]; exact hu'
          · have hnd : cu.delivered = false := by
              cases hd : cu.delivered with
              | false => rfl
              | true => exact absurd (h.past_iff.mpr hd) hpast
            have : unreadRune c (checkEOS c (setLastRead { s with buf := b, lastRuneSize := 0 } .eof) true) =
                { s with buf := b, lastRuneSize := 0, lastRead := .none, eofUnread := true, endOfStream := .at } := by
              unfold unreadRune; rw [if_neg ht]
              simp [checkEOS, setLastRead, hpast, unreadEOF]
            rw [this]
            refine ⟨hbinv, ?_, h.pos_eq, ?_, ?_, ?_⟩
            · show b.cur = cu.idx; rw [hcur, h.cur_eq]
            · constructor
              · intro hh; exact absurd hh (by simp)
              · intro hh; rw [hnd] at hh; exact absurd hh (by decide)
            · intro _; exact hidx
            · intro _; rfl

theorem pastAction_not_delivered (a : EofAction) (cu : Cursor) (h : cu.delivered = false) :
    pastAction a cu = (none, cu) := by
  unfold pastAction; simp [h]

/-- Stream.ReadRune and the UnreadRune that may follow it, in terms of the cursor -/
theorem readRune_sim {c : Cfg} (hv : c.Valid) {s : Stream} {cu : Cursor} (h : Sim c s cu) :
    (readRune c s).1 = (cursorReadRune c cu).1 ∧
    Sim c (readRune c s).2 (cursorReadRune c cu).2.1 ∧
    Sim c (unreadRune c (readRune c s).2) (cursorReadRune c cu).2.2 := by
  have h0 : Sim c { s with lastRead := .none } cu := h.congr rfl rfl rfl rfl
  by_cases hp : s.endOfStream = .past
  · have hd : cu.delivered = true := h.past_iff.mp hp
    cases ha : c.action with
    | error =>
      have hval : readRune c s = (.err .pastEOS, { s with lastRead := .none }) := by
        unfold readRune initRead; simp [hp, ha]
      have hcv : cursorReadRune c cu = (.err .pastEOS, cu, cu) := by
        unfold cursorReadRune pastAction; simp [hd, ha]
      rw [hval, hcv]
      refine ⟨rfl, h0, ?_⟩
      rw [unreadRune_of_none _ _ rfl]; exact h0
    | reset =>
      have hval : readRune c s = readRuneBody c (reset { s with lastRead := .none }) := by
        unfold readRune initRead; simp [hp, ha]
      have hcv : cursorReadRune c cu = cursorRuneBody c { cu with delivered := false } := by
        unfold cursorReadRune pastAction; simp [hd, ha]
      rw [hval, hcv]
      exact readRuneBody_sim hv (sim_reset h0 hp)
    | eofCode =>
      have hval : readRune c s = readRuneBody c { s with lastRead := .none } := by
        unfold readRune initRead; simp [hp, ha]
      have hcv : cursorReadRune c cu = cursorRuneBody c cu := by
        unfold cursorReadRune pastAction; simp [hd, ha]
      rw [hval, hcv]
      exact readRuneBody_sim hv h0
  · have hd : cu.delivered = false := by
      cases hd : cu.delivered with
      | false => rfl
      | true => exact absurd (h.past_iff.mpr hd) hp
    have hval : readRune c s = readRuneBody c { s with lastRead := .none } := by
      unfold readRune initRead; simp [hp]
    have hcv : cursorReadRune c cu = cursorRuneBody c cu := by
      unfold cursorReadRune; rw [pastAction_not_delivered _ _ hd]
    rw [hval, hcv]
    exact readRuneBody_sim hv h0

/-- Stream.ReadByte after a successful initRead, and the UnreadByte that may follow it -/
theorem readByteBody_sim {c : Cfg} (hv : c.Valid) {s : Stream} {cu : Cursor} (h : Sim c s cu) :
    (readByteBody c s).1 = (cursorByteBody c cu).1 ∧
    Sim c (readByteBody c s).2 (cursorByteBody c cu).2.1 ∧
    Sim c (unreadByte c (readByteBody c s).2) (cursorByteBody c cu).2.2 := by
  by_cases ht : c.typ ≠ .binary
  · have hval : readByteBody c s = (.err .wrongType, s) := by unfold readByteBody; rw [if_pos ht]
    have hcv : cursorByteBody c cu = (.err .wrongType, cu, cu) := by unfold cursorByteBody; rw [if_pos ht]
    rw [hval, hcv]
    refine ⟨rfl, h, ?_⟩
    have : unreadByte c s = s := by unfold unreadByte; rw [if_pos ht]
    rw [this]; exact h
  · by_cases hu : s.eofUnread = true
    · have hat := h.unread_at hu
      have hidx : cu.idx = c.src.length := h.end_of (by rw [hat]; decide)
      have hnd : cu.delivered = false := by
        cases hd : cu.delivered with
        | false => rfl
        | true => have := h.past_iff.mpr hd; rw [hat] at this; exact absurd this (by decide)
      have hnone : c.src[cu.idx]? = none := by simp [hidx]
      have hval : readByteBody c s = (.eof, readEOF s) := by
        unfold readByteBody; rw [if_neg ht, if_pos hu]
      have hcv : cursorByteBody c cu = (.eof, { cu with delivered := true }, cu) := by
        unfold cursorByteBody; rw [if_neg ht, hnone]
      rw [hval, hcv]
      refine ⟨rfl, ?_, ?_⟩
      · refine ⟨h.buf, h.cur_eq, h.pos_eq, ?_, ?_, ?_⟩
        · constructor <;> intro _ <;> rfl
        · intro _; exact hidx
        · intro hh; simp [readEOF] at hh
      · have : unreadByte c (readEOF s) = unreadEOF { readEOF s with lastRead := .none } := by
          unfold unreadByte; rw [if_neg ht]; rfl
        rw [this]
        refine ⟨h.buf, h.cur_eq, h.pos_eq, ?_, ?_, ?_⟩
        · constructor
          · intro hh; simp [unreadEOF] at hh
          · intro hh; rw [hnd] at hh; exact absurd hh (by decide)
        · intro _; exact hidx
        · intro _; rfl
    · have hu' : s.eofUnread = false := by simpa using hu
      obtain ⟨hbinv, hok, heof⟩ := bufReadByte_spec (c := c) h.buf
      rw [h.cur_eq] at hok heof
      cases hx : c.src[cu.idx]? with
      | some x =>
        have hlt : cu.idx < c.src.length := by
          by_cases hl : cu.idx < c.src.length
          · exact hl
          · have : c.src[cu.idx]? = none := by simp; omega
            rw [this] at hx; exact absurd hx (by simp)
        obtain ⟨hr, hcur, hlb⟩ := hok x hx
        have hnd : cu.delivered = false := by
          cases hd : cu.delivered with
          | false => rfl
          | true => have := h.delivered_end hd; omega
        generalize hp : bufReadByte c.src c.rd s.buf = p at *
        obtain ⟨r, b⟩ := p
        simp only at hr hcur hlb hbinv
        subst hr
        have hval : readByteBody c s =
            (.ok x, checkEOS c (setLastRead { s with buf := b, position := s.position + 1 } .ok) false) := by
          unfold readByteBody; rw [if_neg ht, if_neg hu, hp]
        have hcv : cursorByteBody c cu = (.ok x, { cu with idx := cu.idx + 1 }, cu) := by
          unfold cursorByteBody; rw [if_neg ht, hx]
        rw [hval, hcv]
        refine ⟨rfl, ?_, ?_⟩
        · apply sim_checkEOS_false hv
          · rw [setLastRead_buf]; exact hbinv
          · rw [setLastRead_buf]; exact hcur
          · rw [setLastRead_position]
            show s.position + 1 = ((cu.idx + 1 : Nat) : Int)
            rw [h.pos_eq]; omega
          · exact hnd
          · rw [setLastRead_eofUnread]; exact hu'
        · rw [unreadByte_ok c _ ht (by simp) (by simpa using hlb) (by simp; omega)]
          simp only [checkEOS_buf, setLastRead_buf, checkEOS_position, setLastRead_position]
          have hc' := h.cur_eq
          refine ⟨⟨?_, hbinv.fetched_le, hbinv.pend, hbinv.rderr, hbinv.nomarks⟩, ?_, ?_, ?_, ?_, ?_⟩
          · show b.cur - 1 ≤ b.fetched; have := hbinv.cur_le; omega
          · show b.cur - 1 = cu.idx; omega
          · show s.position + 1 - 1 = (cu.idx : Int); rw [h.pos_eq]; omega
          · constructor
            · intro hh; exact absurd hh (by simp)
            · intro hh; rw [hnd] at hh; exact absurd hh (by decide)
          · intro hh; exact absurd rfl hh
          · intro hh; exact absurd (show s.eofUnread = true from hh) hu
      | none =>
        have hidx : cu.idx = c.src.length := by
          have := h.idx_le
          by_cases hl : cu.idx < c.src.length
          · obtain ⟨x, hx'⟩ := getElem?_of_lt c.src cu.idx hl
            rw [hx'] at hx; exact absurd hx (by simp)
          · omega
        obtain ⟨hr, hcur, hfet, hpend⟩ := heof hx
        generalize hp : bufReadByte c.src c.rd s.buf = p at *
        obtain ⟨r, b⟩ := p
        simp only at hr hcur hfet hpend hbinv
        subst hr
        have hval : readByteBody c s =
            (.eof, checkEOS c (setLastRead { s with buf := b } .eof) true) := by
          unfold readByteBody; rw [if_neg ht, if_neg hu, hp]
        have hcv : cursorByteBody c cu = (.eof, { cu with delivered := true }, cu) := by
          unfold cursorByteBody; rw [if_neg ht, hx]
        rw [hval, hcv]
        refine ⟨rfl, ?_, ?_⟩
        · apply sim_checkEOS_true
          · rw [setLastRead_buf]; exact hbinv
          · rw [setLastRead_buf]; exact hcur
          · rw [setLastRead_position]; exact h.pos_eq
          · rfl
          · exact hidx
          · rw [setLastRead_eofUnread]; exact hu'
        · by_cases hpast : s.endOfStream = .past
          · have hd : cu.delivered = true := h.past_iff.mp hpast
            have hlr : (checkEOS c (setLastRead { s with buf := b } .eof) true).lastRead = .none := by
              simp [checkEOS, setLastRead, hpast]
            rw [unreadByte_of_none _ _ hlr]
            have hcu : cu = { cu with delivered := true } := by cases cu; simp at hd; simp [hd]
            rw [hcu]
            apply sim_checkEOS_true
            · rw [setLastRead_buf]; exact hbinv
            · rw [setLastRead_buf]; exact hcur
            · rw [setLastRead_position]; exact h.pos_eq
            · rfl
            · exact hidx
            · rw [setLastRead_eofUnread]; exact hu'
          · have hnd : cu.delivered = false := by
              cases hd : cu.delivered with
              | false => rfl
              | true => exact absurd (h.past_iff.mpr hd) hpast
            have : unreadByte c (checkEOS c (setLastRead { s with buf := b } .eof) true) =
                { s with buf := b, lastRead := .none, eofUnread := true, endOfStream := .at } := by
              unfold unreadByte; rw [if_neg ht]
              simp [checkEOS, setLastRead, hpast, unreadEOF]
            rw [this]
            refine ⟨hbinv, ?_, h.pos_eq, ?_, ?_, ?_⟩
            · exact hcur
            · constructor
              · intro hh; exact absurd hh (by simp)
              · intro hh; rw [hnd] at hh; exact absurd hh (by decide)
            · intro _; exact hidx
            · intro _; rfl

/-- Stream.ReadByte and the UnreadByte that may follow it, in terms of the cursor -/
theorem readByte_sim {c : Cfg} (hv : c.Valid) {s : Stream} {cu : Cursor} (h : Sim c s cu) :
    (readByte c s).1 = (cursorReadByte c cu).1 ∧
    Sim c (readByte c s).2 (cursorReadByte c cu).2.1 ∧
    Sim c (unreadByte c (readByte c s).2) (cursorReadByte c cu).2.2 := by
  have h0 : Sim c { s with lastRead := .none } cu := h.congr rfl rfl rfl rfl
  by_cases hp : s.endOfStream = .past
  · have hd : cu.delivered = true := h.past_iff.mp hp
    cases ha : c.action with
    | error =>
      have hval : readByte c s = (.err .pastEOS, { s with lastRead := .none }) := by
        unfold readByte initRead; simp [hp, ha]
      have hcv : cursorReadByte c cu = (.err .pastEOS, cu, cu) := by
        unfold cursorReadByte pastAction; simp [hd, ha]
      rw [hval, hcv]
      refine ⟨rfl, h0, ?_⟩
      rw [unreadByte_of_none _ _ rfl]; exact h0
    | reset =>
      have hval : readByte c s = readByteBody c (reset { s with lastRead := .none }) := by
        unfold readByte initRead; simp [hp, ha]
      have hcv : cursorReadByte c cu = cursorByteBody c { cu with delivered := false } := by
        unfold cursorReadByte pastAction; simp [hd, ha]
      rw [hval, hcv]
      exact readByteBody_sim hv (sim_reset h0 hp)
    | eofCode =>
      have hval : readByte c s = readByteBody c { s with lastRead := .none } := by
        unfold readByte initRead; simp [hp, ha]
      have hcv : cursorReadByte c cu = cursorByteBody c cu := by
        unfold cursorReadByte pastAction; simp [hd, ha]
      rw [hval, hcv]
      exact readByteBody_sim hv h0
  · have hd : cu.delivered = false := by
      cases hd : cu.delivered with
      | false => rfl
      | true => exact absurd (h.past_iff.mpr hd) hp
    have hval : readByte c s = readByteBody c { s with lastRead := .none } := by
      unfold readByte initRead; simp [hp]
    have hcv : cursorReadByte c cu = cursorByteBody c cu := by
      unfold cursorReadByte; rw [pastAction_not_delivered _ _ hd]
    rw [hval, hcv]
    exact readByteBody_sim hv h0

/-! ### end_of_stream after a peek (read + unread) -/

/-- end_of_stream after ReadRune+UnreadRune (initRead already done): unchanged, except that an end of
    file that was seen turns `not` into `at` -/
theorem peekRuneBody_eos {c : Cfg} {s : Stream} {cu : Cursor} (h : Sim c s cu) :
    (unreadRune c (readRuneBody c s).2).endOfStream =
      if c.typ ≠ .text then s.endOfStream
      else if cu.idx < c.src.length then .not
      else if s.endOfStream = .past then .past else .at := by
  by_cases ht : c.typ ≠ .text
  · have hval : readRuneBody c s = (.err .wrongType, s) := by unfold readRuneBody; rw [if_pos ht]
    have : unreadRune c s = s := by unfold unreadRune; rw [if_pos ht]
    rw [hval, this, if_pos ht]
  · rw [if_neg ht]
    by_cases hu : s.eofUnread = true
    · have hat := h.unread_at hu
      have hidx : cu.idx = c.src.length := h.end_of (by rw [hat]; decide)
      have hval : readRuneBody c s = (.eof, readEOF { s with lastRuneSize := 0 }) := by
        unfold readRuneBody; rw [if_neg ht, if_pos hu]
      have : unreadRune c (readEOF { s with lastRuneSize := 0 }) =
          unreadEOF { readEOF { s with lastRuneSize := 0 } with lastRead := .none } := by
        unfold unreadRune; rw [if_neg ht]; rfl
      rw [hval, this, if_neg (by omega), hat]
      simp [unreadEOF]
    · obtain ⟨hbinv, hok, heof⟩ := bufReadRune_spec (c := c) h.buf
      by_cases hlt : cu.idx < c.src.length
      · have hlt' : s.buf.cur < c.src.length := by rw [h.cur_eq]; exact hlt
        obtain ⟨hr, hcur, hlrs⟩ := hok hlt'
        generalize hd : decodeRune (c.src.drop s.buf.cur) = d at *
        generalize hp : bufReadRune c.src c.rd s.buf = p at *
        obtain ⟨r, b⟩ := p
        simp only at hr hcur hlrs hbinv
        subst hr
        have hval : readRuneBody c s =
            (.ok d, checkEOS c (setLastRead { s with buf := b, position := s.position + d.2, lastRuneSize := d.2 } .ok) false) := by
          unfold readRuneBody; rw [if_neg ht, if_neg hu, hp]
        rw [hval, if_pos hlt]
        rw [unreadRune_ok c _ ht (by simp) d.2 (by simpa using hlrs) (by simp; omega)]
      · have hnlt : ¬ s.buf.cur < c.src.length := by rw [h.cur_eq]; exact hlt
        obtain ⟨hr, _, _, _⟩ := heof hnlt
        generalize hp : bufReadRune c.src c.rd s.buf = p at *
        obtain ⟨r, b⟩ := p
        simp only at hr
        subst hr
        have hval : readRuneBody c s =
            (.eof, checkEOS c (setLastRead { s with buf := b, lastRuneSize := 0 } .eof) true) := by
          unfold readRuneBody; rw [if_neg ht, if_neg hu, hp]
        rw [hval, if_neg hlt]
        by_cases hpast : s.endOfStream = .past
        · have hlr : (checkEOS c (setLastRead { s with buf := b, lastRuneSize := 0 } .eof) true).lastRead = .none := by
            simp [checkEOS, setLastRead, hpast]
          rw [unreadRune_of_none _ _ hlr, if_pos hpast]; rfl
        · rw [if_neg hpast]
          unfold unreadRune; rw [if_neg ht]
          simp [checkEOS, setLastRead, hpast, unreadEOF]

theorem peekByteBody_eos {c : Cfg} {s : Stream} {cu : Cursor} (h : Sim c s cu) :
    (unreadByte c (readByteBody c s).2).endOfStream =
      if c.typ ≠ .binary then s.endOfStream
      else if cu.idx < c.src.length then .not
      else if s.endOfStream = .past then .past else .at := by
  by_cases ht : c.typ ≠ .binary
  · have hval : readByteBody c s = (.err .wrongType, s) := by unfold readByteBody; rw [if_pos ht]
    have : unreadByte c s = s := by unfold unreadByte; rw [if_pos ht]
    rw [hval, this, if_pos ht]
  · rw [if_neg ht]
    by_cases hu : s.eofUnread = true
    · have hat := h.unread_at hu
      have hidx : cu.idx = c.src.length := h.end_of (by rw [hat]; decide)
      have hval : readByteBody c s = (.eof, readEOF s) := by
        unfold readByteBody; rw [if_neg ht, if_pos hu]
      have : unreadByte c (readEOF s) = unreadEOF { readEOF s with lastRead := .none } := by
        unfold unreadByte; rw [if_neg ht]; rfl
      rw [hval, this, if_neg (by omega), hat]
      simp [unreadEOF]
    · obtain ⟨hbinv, hok, heof⟩ := bufReadByte_spec (c := c) h.buf
      by_cases hlt : cu.idx < c.src.length
      · have hlt' : s.buf.cur < c.src.length := by rw [h.cur_eq]; exact hlt
        obtain ⟨x, hx⟩ := getElem?_of_lt c.src s.buf.cur hlt'
        obtain ⟨hr, hcur, hlb⟩ := hok x hx
        generalize hp : bufReadByte c.src c.rd s.buf = p at *
        obtain ⟨r, b⟩ := p
        simp only at hr hcur hlb hbinv
        subst hr
        have hval : readByteBody c s =
            (.ok x, checkEOS c (setLastRead { s with buf := b, position := s.position + 1 } .ok) false) := by
          unfold readByteBody; rw [if_neg ht, if_neg hu, hp]
        rw [hval, if_pos hlt]
        rw [unreadByte_ok c _ ht (by simp) (by simpa using hlb) (by simp; omega)]
      · have hnone : c.src[s.buf.cur]? = none := by rw [h.cur_eq]; simp; omega
        obtain ⟨hr, _, _, _⟩ := heof hnone
        generalize hp : bufReadByte c.src c.rd s.buf = p at *
        obtain ⟨r, b⟩ := p
        simp only at hr
        subst hr
        have hval : readByteBody c s =
            (.eof, checkEOS c (setLastRead { s with buf := b } .eof) true) := by
          unfold readByteBody; rw [if_neg ht, if_neg hu, hp]
        rw [hval, if_neg hlt]
        by_cases hpast : s.endOfStream = .past
        · have hlr : (checkEOS c (setLastRead { s with buf := b } .eof) true).lastRead = .none := by
            simp [checkEOS, setLastRead, hpast]
          rw [unreadByte_of_none _ _ hlr, if_pos hpast]; rfl
        · rw [if_neg hpast]
          unfold unreadByte; rw [if_neg ht]
          simp [checkEOS, setLastRead, hpast, unreadEOF]

end PrologVerif.Stream
