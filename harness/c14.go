package main

// C14: separate interpreters are isolated and run concurrently without data races.
//
//   c14.table      N goroutines hammer the REAL engine.NewAtom / Atom.String / engine.NewVariable
//                  (Model/Shared.lean's three operations), either in a given interleaving (mode=seq:
//                  compared with the model step by step) or freely in parallel (mode=par: the
//                  per-client views are compared with the model — C14_view_as_alone says they do
//                  not depend on the schedule — and the raw results are judged by the
//                  linearizability checker Spec/SharedLin.lean).  Run in the -race binary.
//   c14.race       2..8 whole interpreters, one goroutine each, through the public API
//                  (New, Exec, Query, Next, Scan, Close) on generated programs; answers compared
//                  with a sequential run of the same programs.  Run in the -race binary: a race
//                  report kills the worker (GORACE=halt_on_error=1) and is attributed to the case.
//   c14.isolation  all pairs (state-changing directive in A, observer in B).

import (
	"bytes"
	"fmt"
	"math/rand"
	"os"
	"path/filepath"
	"regexp"
	"runtime"
	"sort"
	"strconv"
	"strings"
	"sync"
	"unicode/utf8"

	"github.com/ichiban/prolog"
	"github.com/ichiban/prolog/engine"
)

const c14Base = uint64(utf8.MaxRune) + 1

// names that are in the table before any case runs (the driver knows the same list)
var c14OldNames = []string{"[]", "foo", "bar", "append", "c14_old_1", "c14_old_2", "user_input"}

func init() {
	for _, n := range c14OldNames {
		engine.NewAtom(n)
	}
	register(&stream{name: "c14.table", gen: genC14Table, run: runC14Table, serial: true})
	register(&stream{name: "c14.race", gen: genC14Race, run: runC14Race, serial: true})
	// serial: the point is LOGICAL isolation; a shared table must show up as an observable change, not as a crash of the harness
	register(&stream{name: "c14.isolation", gen: genC14Iso, run: runC14Iso, serial: true})
}

func c14KV(s string) map[string]string {
	m := map[string]string{}
	for _, f := range strings.Fields(s) {
		if i := strings.IndexByte(f, '='); i > 0 {
			m[f[:i]] = f[i+1:]
		}
	}
	return m
}

func c14Atoi(s string, def int) int {
	n, err := strconv.Atoi(s)
	if err != nil {
		return def
	}
	return n
}

// ---------------------------------------------------------------------------------------------
// c14.table
// ---------------------------------------------------------------------------------------------

var c14NamePool = []string{"foo2", "bar2", "ab", "xyz", "é€", "hello world", "", "�", "Abc", "a_b", "++", "[x]",
	"a", "€", "Z", "0", "é"}

func genC14Table(r *rand.Rand, n int, tier string) []string {
	var out []string
	for i := 0; i < n; i++ {
		nc := 2 + r.Intn(5)
		switch r.Intn(10) {
		case 0:
			nc = 1
		case 1:
			nc = 8
		}
		mode := "seq"
		if r.Intn(2) == 0 {
			mode = "par"
		}
		maxOps := 12
		if mode == "par" {
			maxOps = 60
			if tier == "thorough" {
				maxOps = 150
			}
		}
		// a small pool of names per case so that clients collide
		pool := make([]string, 2+r.Intn(5))
		for j := range pool {
			pool[j] = pick(r, c14NamePool)
		}
		var parts []string
		parts = append(parts, fmt.Sprintf("mode=%s procs=%d gs=%d", mode, pick(r, []int{1, 2, 2, 3, 4, 4, 8}), r.Intn(1000)))
		var sched []string
		for c := 0; c < nc; c++ {
			k := 1 + r.Intn(maxOps)
			var ops []string
			var atomOps []int
			for j := 0; j < k; j++ {
				switch x := r.Intn(20); {
				case x < 9:
					ops = append(ops, "n:"+encName(pick(r, pool)))
					atomOps = append(atomOps, j)
				case x < 11:
					ops = append(ops, "o:"+encName(pick(r, c14OldNames)))
					atomOps = append(atomOps, j)
				case x < 15 && len(atomOps) > 0:
					ops = append(ops, "s:"+strconv.Itoa(pick(r, atomOps)))
				case x < 16:
					ops = append(ops, "r:"+strconv.Itoa(pick(r, []int{0, 65, 97, 0xe9, 0x20ac, 0xd800, 0xfffd, 0x10ffff, 0x1f600})))
				default:
					ops = append(ops, "v")
				}
				sched = append(sched, strconv.Itoa(c))
			}
			parts = append(parts, strings.Join(ops, " "))
		}
		r.Shuffle(len(sched), func(a, b int) { sched[a], sched[b] = sched[b], sched[a] })
		if mode == "seq" {
			parts = append(parts, "sched "+strings.Join(sched, " "))
		}
		out = append(out, strings.Join(parts, " ;; "))
	}
	return out
}

type c14Res struct {
	kind byte // 'a' atom, 's' name, 'v' var
	atom engine.Atom
	name string
	v    int64
}

var c14Seq int

func c14OneRune(s string) bool {
	r, n := utf8.DecodeLastRuneInString(s)
	return r != utf8.RuneError && n == len(s)
}

func runC14Table(payload string) string {
	parts := strings.Split(payload, " ;; ")
	hdr := c14KV(parts[0])
	mode := hdr["mode"]
	var clients [][]string
	var sched []int
	for _, p := range parts[1:] {
		if strings.HasPrefix(p, "sched") {
			for _, f := range strings.Fields(p)[1:] {
				sched = append(sched, c14Atoi(f, 0))
			}
			continue
		}
		clients = append(clients, strings.Fields(p))
	}
	n := len(clients)
	prev := runtime.GOMAXPROCS(c14Atoi(hdr["procs"], 2))
	defer runtime.GOMAXPROCS(prev)

	c14Seq++
	nonce := "\x01" + strconv.Itoa(c14Seq)
	probe := engine.NewAtom("c14$probe" + nonce)
	n0 := uint64(probe) - c14Base + 1
	v0 := int64(engine.NewVariable())

	results := make([][]c14Res, n)
	for c := range results {
		results[c] = make([]c14Res, 0, len(clients[c]))
	}
	// one operation of client c on the REAL shared state
	do := func(c, k int) {
		op := clients[c][k]
		var res c14Res
		switch {
		case strings.HasPrefix(op, "n:"), strings.HasPrefix(op, "o:"):
			name, err := decName(op[2:])
			must(err)
			if op[0] == 'n' && !c14OneRune(name) {
				name += nonce
			}
			res = c14Res{kind: 'a', atom: engine.NewAtom(name)}
		case strings.HasPrefix(op, "s:"):
			a := results[c][c14Atoi(op[2:], 0)].atom
			res = c14Res{kind: 's', name: c14String(a)}
		case strings.HasPrefix(op, "r:"):
			res = c14Res{kind: 's', name: c14String(engine.Atom(c14Atoi(op[2:], 0)))}
		case op == "v":
			res = c14Res{kind: 'v', v: int64(engine.NewVariable())}
		default:
			panic("bad op " + op)
		}
		results[c] = append(results[c], res)
	}

	var wg sync.WaitGroup
	if mode == "seq" {
		// the given interleaving, each client on its own goroutine
		chans := make([]chan int, n)
		done := make(chan struct{})
		for c := 0; c < n; c++ {
			chans[c] = make(chan int)
			wg.Add(1)
			go func(c int) {
				defer wg.Done()
				for k := range chans[c] {
					do(c, k)
					done <- struct{}{}
				}
			}(c)
		}
		next := make([]int, n)
		for _, c := range sched {
			if c < n && next[c] < len(clients[c]) {
				chans[c] <- next[c]
				next[c]++
				<-done
			}
		}
		for c := 0; c < n; c++ {
			close(chans[c])
		}
		wg.Wait()
	} else {
		gs := int64(c14Atoi(hdr["gs"], 0))
		start := make(chan struct{})
		for c := 0; c < n; c++ {
			wg.Add(1)
			go func(c int) {
				defer wg.Done()
				r := rand.New(rand.NewSource(gs*31 + int64(c)))
				<-start
				for k := range clients[c] {
					if r.Intn(3) == 0 {
						runtime.Gosched()
					}
					do(c, k)
				}
			}(c)
		}
		close(start)
		wg.Wait()
	}

	// canonical output: per-client views (ids renamed by first occurrence) ;; raw (ids relative to the start)
	var views, raws []string
	sharedFresh := map[string]int{}
	for c := 0; c < n; c++ {
		var vw, rw []string
		seen := map[engine.Atom]int{}
		nv := 0
		mine := map[string]bool{}
		for k, res := range results[c] {
			switch res.kind {
			case 'a':
				a := uint64(res.atom)
				switch {
				case a < c14Base:
					vw = append(vw, fmt.Sprintf("R%d", a))
					rw = append(rw, fmt.Sprintf("R%d", a))
				case a-c14Base < n0:
					vw = append(vw, "O")
					rw = append(rw, "O")
				default:
					j, ok := seen[res.atom]
					if !ok {
						j = len(seen)
						seen[res.atom] = j
					}
					vw = append(vw, fmt.Sprintf("T%d", j))
					rw = append(rw, fmt.Sprintf("N%d", a-c14Base-n0))
					mine[clients[c][k]] = true
				}
			case 's':
				name := res.name
				if i := strings.IndexByte(name, 1); i >= 0 {
					name = name[:i]
				}
				vw = append(vw, "="+encName(name))
				rw = append(rw, "="+encName(name))
			case 'v':
				vw = append(vw, fmt.Sprintf("W%d", nv))
				nv++
				rw = append(rw, fmt.Sprintf("V%d", res.v-v0))
			}
		}
		for m := range mine {
			sharedFresh[m]++
		}
		views = append(views, strings.Join(vw, " "))
		raws = append(raws, strings.Join(rw, " "))
	}
	nt := 0
	for _, k := range sharedFresh {
		if k >= 2 {
			nt = 1
		}
	}
	total := 0
	for _, c := range clients {
		total += len(c)
	}
	return strings.Join(views, " / ") + " ;; " + strings.Join(raws, " / ") +
		fmt.Sprintf(" ### nt=%d mode=%s clients=%d procs=%s ops=%s", nt, mode, n, hdr["procs"], c14Bucket(total))
}

func c14String(a engine.Atom) (s string) {
	defer func() {
		if r := recover(); r != nil {
			s = "!panic"
		}
	}()
	return a.String()
}

func c14Bucket(n int) string {
	switch {
	case n < 10:
		return "<10"
	case n < 50:
		return "10-49"
	case n < 200:
		return "50-199"
	default:
		return "200+"
	}
}

// ---------------------------------------------------------------------------------------------
// c14.race
// ---------------------------------------------------------------------------------------------

// program snippets: (consult text, queries); @T@ is the per-case tag, @J@ @K@ small numbers
type c14Snippet struct {
	name    string
	text    string
	queries []string
}

var c14Snippets = []c14Snippet{
	{"db", ":- dynamic(p@T@/1).\np@T@(kx@T@x@J@).\np@T@(kx@T@x@K@).\n", []string{
		"assertz(p@T@(zx@T@x@J@)), findall(X, p@T@(X), L).",
		"retract(p@T@(kx@T@x@K@)), '$y', findall(X, p@T@(X), L).",
		"clause(p@T@(X), B).",
		"asserta((q@T@(X, Y) :- p@T@(X), '$y', Y = X)), q@T@(A, B).",
	}},
	{"atoms", "mk@T@(N, A) :- number_codes(N, Cs), atom_codes(S, Cs), atom_concat(cx@T@x, S, A).\n", []string{
		"findall(A, (between(1, @N@, N), '$y', mk@T@(N, A)), L), length(L, Len).",
		"findall(S, sub_atom(abcdefx@T@, _, 3, _, S), L).",
		"atom_chars(hellox@T@x@J@, Cs), atom_chars(A, Cs), atom_length(A, Len), A == hellox@T@x@J@.",
		"findall(A-B, atom_concat(A, B, wx@T@yz), L).",
		"atom_codes(A, [0'm, 0'n, 0'0 + @J@]), atom_concat(A, x@T@, B), sub_atom(B, Bf, 1, 0, Last).",
		"findall(A, (member(X, [b, a, cx@T@, ax@T@, 'B x@T@', []]), atom_concat(X, x@K@, A)), L), sort(L, S).",
	}},
	{"vars", "", []string{
		"length(L, @N@), '$y', sort(0, @>=, L, D), L = [A|_], last@T@(L, Z).",
		"length(L, @J@), copy_term(L, M), L = M.",
		"functor(T, fx@T@, 5), T =.. [_|Args], copy_term(T-Args, C).",
		"findall(X-Y, member(X, [1, 2, 3]), L), L = [_-A, _-B, _-C], compare(O1, A, B), compare(O2, C, A), sort([C, B, A], S), S == [A, B, C].",
		"X = f(A, B, A), copy_term(X, Y), term_variables(Y, Vs), length(Vs, N), Y = f(P, Q, R), P == R.",
		"bagof(X, member(X, [V1, V2, V1]), L), L == [V1, V2, V1].",
	}},
	{"write", "", []string{
		"write_canonical(f(X, 'a b', \"s@T@\", [1, 2|T], -(1), 1 - 2, a:b:c, kx@T@x@J@)), nl.",
		"writeq(['A', 'x@T@ y', [], '[]', {}, 'hello'(world), - - a, 1 + 2 * 3, (a :- b, c)]), nl.",
		"writeq(f(A, B, A)), nl.",
		"print_message@T@(X) ; write(done@T@), nl.",
		"number_codes(N, \"4@J@\"), number_chars(M, ['1', '@K@']), X is N + M, write(X), nl.",
		"catch(atom_length(L, _), error(E, _), (write(caught(E)), nl)).",
	}},
	{"ops", "", []string{
		"op(@P@, xfx, ===>), X = (a ===> b), X =.. L, writeq(X), nl.",
		"op(@P@, xfy, and@T@), X = (a and@T@ b and@T@ c), X = and@T@(_, R), writeq(X), nl.",
		"op(200, xfy, ^^@J@), current_op(P, T, ^^@J@).",
		"setof(N, current_op(700, xfx, N), L), length(L, Len).",
		"op(0, xfx, ===>), catch(atom_to_term@T@, _, true), \\+ current_op(_, _, ===>).",
	}},
	{"flags", "", []string{
		"set_prolog_flag(double_quotes, @DQ@), X = \"ab@T@\".",
		"current_prolog_flag(double_quotes, F).",
		"set_prolog_flag(unknown, fail), nosuch@T@(1).",
		"char_conversion(a, b), current_char_conversion(a, X).",
	}},
	{"compute", "app@T@([], L, L).\napp@T@([H|T], L, [H|R]) :- '$y', app@T@(T, L, R).\nnrev@T@([], []).\nnrev@T@([H|T], R) :- nrev@T@(T, RT), app@T@(RT, [H], R).\nlast@T@([X], X).\nlast@T@([_|T], X) :- last@T@(T, X).\n", []string{
		"findall(N, between(1, @N@, N), L), nrev@T@(L, R), last@T@(R, X).",
		"app@T@(X, Y, [a, bx@T@, c]).",
		"findall(K-V, (member(K, [cx@T@, a, b, a]), V = vx@T@), L), keysort(L, S).",
		"setof(X-Y, member(X-Y, [bx@T@-1, a-2, bx@T@-0, 'Zx@T@'-3]), L).",
	}},
	{"read", "", []string{
		"read(X), read(Y).",
		"read_term(T, [variable_names(Vs)]).",
		"get_char(C1), peek_char(C2), get_char(C3).",
	}},
	{"dcg", "gr@T@ --> [], !.\ngr@T@ --> [tx@T@], gr@T@.\ns@T@(N) --> [a], s@T@(M), {N is M + 1}.\ns@T@(0) --> [].\n", []string{
		"phrase(gr@T@, [tx@T@, tx@T@]).",
		"phrase(s@T@(N), [a, a, a]).",
	}},
	{"errors", "", []string{
		"atom_length(1, _).",
		"X is foo@T@ + 1.",
		"call(1).",
		"atom_length(A, B).",
		"throw(my@T@(ball, _)).",
		"functor(T, foo@T@, -1).",
	}},
}

func genC14Race(r *rand.Rand, n int, tier string) []string {
	var out []string
	for i := 0; i < n; i++ {
		ni := 2 + r.Intn(4)
		switch r.Intn(8) {
		case 0:
			ni = 8
		case 1:
			ni = 6 + r.Intn(2)
		}
		tag := strconv.Itoa(r.Intn(1 << 30))
		parts := []string{fmt.Sprintf("procs=%d gs=%d tag=%s", pick(r, []int{1, 2, 2, 3, 4, 4, 8}), r.Intn(1000), tag)}
		// interpreters of one case draw from the same two or three snippets, so that names collide
		kinds := r.Perm(len(c14Snippets))[:2+r.Intn(3)]
		for k := 0; k < ni; k++ {
			var steps []string
			ns := 2 + r.Intn(4)
			for s := 0; s < ns; s++ {
				sn := c14Snippets[kinds[r.Intn(len(kinds))]]
				subst := func(t string) string {
					t = strings.ReplaceAll(t, "@J@", strconv.Itoa(r.Intn(4)))
					t = strings.ReplaceAll(t, "@K@", strconv.Itoa(r.Intn(4)))
					t = strings.ReplaceAll(t, "@N@", strconv.Itoa(5+r.Intn(30)))
					t = strings.ReplaceAll(t, "@P@", strconv.Itoa(pick(r, []int{200, 700, 900, 1100})))
					t = strings.ReplaceAll(t, "@DQ@", pick(r, []string{"codes", "chars", "atom"}))
					return t
				}
				if sn.text != "" {
					steps = append(steps, "c:"+encName(subst(sn.text)))
				}
				nq := 1 + r.Intn(3)
				for q := 0; q < nq; q++ {
					steps = append(steps, "q:"+encName(subst(pick(r, sn.queries))))
				}
			}
			parts = append(parts, strings.Join(steps, " "))
		}
		out = append(out, strings.Join(parts, " ;; "))
	}
	return out
}

// c14Capture implements prolog.Scanner: it keeps the term and the environment of a solution.
type c14Capture struct {
	t   engine.Term
	env *engine.Env
}

func (c *c14Capture) Scan(_ *engine.VM, t engine.Term, env *engine.Env) error {
	c.t, c.env = t, env
	return nil
}

type c14Yielder struct {
	r *rand.Rand
	w bytes.Buffer
}

func (y *c14Yielder) Write(p []byte) (int, error) {
	if y.r.Intn(4) == 0 {
		runtime.Gosched()
	}
	return y.w.Write(p)
}

var c14VarPattern = regexp.MustCompile(`\b_[0-9]+\b|0x[0-9a-f]{6,}`)

// normVars renames _123 style variable names by first occurrence
func c14NormVars(s string) string {
	seen := map[string]int{}
	return c14VarPattern.ReplaceAllStringFunc(s, func(m string) string {
		k, ok := seen[m]
		if !ok {
			k = len(seen)
			seen[m] = k
		}
		return "_G" + strconv.Itoa(k)
	})
}

// runC14Program creates an interpreter and runs one program through the public API.
func runC14Program(steps []string, tag string, seed int64) string {
	y := &c14Yielder{r: rand.New(rand.NewSource(seed))}
	i := prolog.New(strings.NewReader("foo(X, Y, 'a b'). [1, 2|T]. 'kx"+tag+"'. abc def.\n"), y)
	yr := rand.New(rand.NewSource(seed + 1))
	i.Register0(engine.NewAtom("$y"), func(_ *engine.VM, k engine.Cont, env *engine.Env) *engine.Promise {
		if yr.Intn(3) == 0 {
			runtime.Gosched()
		}
		return k(env)
	})
	var out []string
	for _, st := range steps {
		text, err := decName(st[2:])
		must(err)
		text = strings.ReplaceAll(text, "@T@", tag)
		switch st[0] {
		case 'c':
			if err := i.Exec(text); err != nil {
				out = append(out, "c "+c14Err(err))
			} else {
				out = append(out, "c ok")
			}
		case 'q':
			sols, err := i.Query(text)
			if err != nil {
				out = append(out, "q "+c14Err(err))
				continue
			}
			var answers []string
			for len(answers) < 60 && sols.Next() {
				m := map[string]c14Capture{}
				if err := sols.Scan(m); err != nil {
					answers = append(answers, "scanerr")
					continue
				}
				names := make([]string, 0, len(m))
				for k := range m {
					names = append(names, k)
				}
				sort.Strings(names)
				vn := newVarNamer()
				var bs []string
				for _, k := range names {
					c := m[k]
					bs = append(bs, k+"="+wire(c.t, c.env, vn))
				}
				answers = append(answers, "{"+strings.Join(bs, ", ")+"}")
			}
			res := "q [" + strings.Join(answers, " ") + "]"
			if err := sols.Err(); err != nil {
				res += " " + c14Err(err)
			}
			_ = sols.Close()
			out = append(out, res)
		}
	}
	out = append(out, "out="+encName(c14NormVars(y.w.String())))
	return strings.ReplaceAll(strings.Join(out, " ; "), tag, "T")
}

// c14Err: canonical error plus the error text (Exception.Error goes through defaultWriteOptions)
func c14Err(err error) string {
	return errWire(err) + " msg=" + encName(c14NormVars(err.Error()))
}

func runC14Race(payload string) string {
	parts := strings.Split(payload, " ;; ")
	hdr := c14KV(parts[0])
	progs := make([][]string, 0, len(parts)-1)
	for _, p := range parts[1:] {
		progs = append(progs, strings.Fields(p))
	}
	n := len(progs)
	gs := int64(c14Atoi(hdr["gs"], 0))
	tag := hdr["tag"]
	prev := runtime.GOMAXPROCS(c14Atoi(hdr["procs"], 2))
	defer runtime.GOMAXPROCS(prev)

	tableBefore := uint64(engine.NewAtom("c14$race$probe$a"+tag+strconv.Itoa(c14Seq))) - c14Base
	c14Seq++

	// concurrent run first (so that the atoms are fresh when the interpreters collide on them)
	conc := make([]string, n)
	var wg sync.WaitGroup
	start := make(chan struct{})
	for k := 0; k < n; k++ {
		wg.Add(1)
		go func(k int) {
			defer wg.Done()
			defer func() {
				if r := recover(); r != nil {
					conc[k] = "PANIC " + encName(fmt.Sprint(r))
				}
			}()
			<-start
			conc[k] = runC14Program(progs[k], tag, gs*131+int64(k))
		}(k)
	}
	close(start)
	wg.Wait()
	tableAfter := uint64(engine.NewAtom("c14$race$probe$b"+tag+strconv.Itoa(c14Seq))) - c14Base

	// the same programs, one after the other
	seq := make([]string, n)
	for k := 0; k < n; k++ {
		seq[k] = runC14Program(progs[k], tag, gs*131+int64(k))
	}
	nq := 0
	for _, p := range progs {
		nq += len(p)
	}
	nt := 0
	if n >= 2 && tableAfter-tableBefore > 1 {
		nt = 1
	}
	return "conc " + strings.Join(conc, " ## ") + " ;; seq " + strings.Join(seq, " ## ") +
		fmt.Sprintf(" ### nt=%d interps=%d procs=%s steps=%s newatoms=%s", nt, n, hdr["procs"], c14Bucket(nq), c14Bucket(int(tableAfter-tableBefore-1)))
}

// ---------------------------------------------------------------------------------------------
// c14.isolation
// ---------------------------------------------------------------------------------------------

// state-changing directives (run in interpreter A); @F@ = a scratch file of the case
var c14Mutators = []string{
	"assertz(foo(1))",
	"asserta((bar(X) :- foo(X)))",
	"assertz(foo(2)), assertz((baz :- foo(_)))",
	"retract(foo(0))",
	"abolish(foo/1)",
	"retractall(foo(_))",
	"consult:foo(a). foo(b). baz :- foo(_). :- dynamic(qux/2).",
	"consult::- op(650, xfx, ===>). :- set_prolog_flag(double_quotes, atom). r(a ===> b).",
	"op(700, xfx, ===>)",
	"op(200, xfy, and)",
	"op(0, xfx, =:=)",
	"op(1105, xfy, '|')",
	"set_prolog_flag(double_quotes, atom)",
	"set_prolog_flag(double_quotes, chars)",
	"set_prolog_flag(unknown, fail)",
	"set_prolog_flag(char_conversion, on)",
	"set_prolog_flag(debug, on)",
	"char_conversion(a, b)",
	"set_prolog_flag(char_conversion, on), char_conversion(f, g)",
	"open('@F@', write, S, [alias(mystream)])",
	"open('@F@', read, S, [alias(rd), type(binary)])",
	"open('@F@', append, S), close(S)",
	"open('@F@', write, S, [alias(out2)]), set_output(S)",
	"open('@F@', read, S), set_input(S)",
	"open('@F@', read, S, [alias(inp)]), set_input(inp), read(_)",
	"write(hello), nl",
	"read(_)",
	"close(user_error)",
}

// observers (run in interpreter B); "S:" = answers are compared as a sorted list
var c14Observers = []string{
	"K:clause(foo(X), B)",
	"K:foo(X)",
	"K:catch(baz, error(E, _), true)",
	"K:bar(X)",
	"S:current_predicate(foo/A)",
	"S:current_predicate(N/A), member(N, [foo, bar, baz, qux, r])",
	"S:current_op(P, T, N)",
	"K:X = (a ===> b)",
	"K:X = (a and b), X = and(_, _)",
	"K:X = (1 =:= 2)",
	"S:current_prolog_flag(F, V)",
	"K:X = \"ab\", atom_length(\"ab\", L)",
	"K:nosuch(1)",
	"S:current_char_conversion(a, X)",
	"S:current_char_conversion(X, Y), X \\== Y",
	"S:stream_property(S, alias(A))",
	"S:stream_property(S, mode(M))",
	"S:stream_property(S, file_name(F)), atom_length(F, L), L > 0, F = _",
	"K:current_input(S), stream_property(S, alias(A))",
	"K:current_output(S), stream_property(S, alias(A))",
	"K:write(probe), nl",
	"K:peek_char(C)",
	"K:read(T)",
}

func genC14Iso(r *rand.Rand, n int, tier string) []string {
	var all []string
	for _, order := range []string{"AB", "BA", "late"} {
		for _, setup := range []string{"none", "dyn"} {
			for _, m := range c14Mutators {
				for _, o := range c14Observers {
					all = append(all, fmt.Sprintf("order=%s setup=%s ;; m:%s ;; o:%s", order, setup, encName(m), encName(o)))
				}
			}
		}
	}
	if n >= len(all) {
		// beyond the cross product: chains of 2..3 random directives in A
		for k := len(all); k < n; k++ {
			var ms []string
			for j := 2 + r.Intn(2); j > 0; j-- {
				ms = append(ms, "m:"+encName(pick(r, c14Mutators)))
			}
			all = append(all, fmt.Sprintf("order=%s setup=%s ;; %s ;; o:%s", pick(r, []string{"AB", "BA", "late"}),
				pick(r, []string{"none", "dyn"}), strings.Join(ms, " "), encName(pick(r, c14Observers))))
		}
		return all
	}
	// a random sample of the full cross product, one PRNG
	r.Shuffle(len(all), func(a, b int) { all[a], all[b] = all[b], all[a] })
	return all[:n]
}

type c14Interp struct {
	i   *prolog.Interpreter
	out *bytes.Buffer
}

func newC14Interp(setup string) *c14Interp {
	i, out := newInterp("t1. t2. t3.\n")
	if setup == "dyn" {
		must(i.Exec(":- dynamic(foo/1).\nfoo(0).\n"))
	}
	return &c14Interp{i: i, out: out}
}

func (ci *c14Interp) observe(obs string) string {
	sorted := strings.HasPrefix(obs, "S:")
	text := obs[2:]
	ci.out.Reset()
	sols, err := ci.i.Query(text + ".")
	if err != nil {
		return "synerr"
	}
	var answers []string
	for len(answers) < 400 && sols.Next() {
		m := map[string]c14Capture{}
		if err := sols.Scan(m); err != nil {
			answers = append(answers, "scanerr")
			continue
		}
		names := make([]string, 0, len(m))
		for k := range m {
			names = append(names, k)
		}
		sort.Strings(names)
		vn := newVarNamer()
		var bs []string
		for _, k := range names {
			c := m[k]
			w := wire(c.t, c.env, vn)
			if k == "F" && strings.Contains(text, "file_name") {
				w = "Afile"
			}
			bs = append(bs, k+"="+w)
		}
		answers = append(answers, "{"+strings.Join(bs, ", ")+"}")
	}
	res := ""
	if err := sols.Err(); err != nil {
		res = " " + errWire(err)
	}
	_ = sols.Close()
	if sorted {
		sort.Strings(answers)
	}
	return "[" + strings.Join(answers, " ") + "]" + res + " out=" + encName(ci.out.String())
}

func (ci *c14Interp) mutate(m, file string) string {
	m = strings.ReplaceAll(m, "@F@", file)
	if strings.HasPrefix(m, "consult:") {
		if err := ci.i.Exec(m[len("consult:"):]); err != nil {
			return errWire(err)
		}
		return "true"
	}
	sols, err := ci.i.Query(m + ".")
	if err != nil {
		return "synerr"
	}
	defer sols.Close()
	if sols.Next() {
		return "true"
	}
	if err := sols.Err(); err != nil {
		return errWire(err)
	}
	return "false"
}

// c14Pristine: what a fresh interpreter observes BEFORE any state-changing directive ran in this
// process (computed for all observers when the first case arrives).  A process-wide table that an
// earlier case polluted shows up as before != pristine in every later case.
var c14Pristine map[string]string

func c14PristineObs(setup, o string) string {
	if c14Pristine == nil {
		c14Pristine = map[string]string{}
		for _, su := range []string{"none", "dyn"} {
			for _, ob := range c14Observers {
				c14Pristine[su+"\x00"+ob] = newC14Interp(su).observe(ob)
			}
		}
	}
	if v, ok := c14Pristine[setup+"\x00"+o]; ok {
		return v
	}
	v := newC14Interp(setup).observe(o) // an observer outside the table (hand-written case)
	c14Pristine[setup+"\x00"+o] = v
	return v
}

func runC14Iso(payload string) string {
	parts := strings.Split(payload, " ;; ")
	hdr := c14KV(parts[0])
	var ms []string
	for _, f := range strings.Fields(parts[1]) {
		m, err := decName(strings.TrimPrefix(f, "m:"))
		must(err)
		ms = append(ms, m)
	}
	o, err := decName(strings.TrimPrefix(parts[2], "o:"))
	must(err)
	pristine := c14PristineObs(hdr["setup"], o)
	dir, err := os.MkdirTemp("", "c14iso")
	must(err)
	defer os.RemoveAll(dir)
	file := filepath.Join(dir, "f.txt")
	must(os.WriteFile(file, []byte("line1.\nline2.\n"), 0o644))

	var a, b *c14Interp
	var before, after, own, mres string
	switch hdr["order"] {
	case "AB":
		a = newC14Interp(hdr["setup"])
		b = newC14Interp(hdr["setup"])
	case "BA":
		b = newC14Interp(hdr["setup"])
		a = newC14Interp(hdr["setup"])
	default: // late: B is created after A was changed; a reference interpreter gives "before"
		a = newC14Interp(hdr["setup"])
		before = newC14Interp(hdr["setup"]).observe(o)
	}
	if b != nil {
		// a fresh twin of B gives the observation B would make had A not been changed
		// (observing B itself twice would let the observer's own side effects — read/1, write/1 — show up)
		before = newC14Interp(hdr["setup"]).observe(o)
	}
	ownBefore := before
	var mrs []string
	for _, m := range ms {
		mrs = append(mrs, a.mutate(m, file))
	}
	mres = strings.Join(mrs, ",")
	if b == nil {
		b = newC14Interp(hdr["setup"])
	}
	after = b.observe(o)
	own = a.observe(o)
	nt := 0
	if own != ownBefore {
		nt = 1
	}
	kind := ms[0]
	if len(ms) > 1 {
		kind = "chain"
	}
	if i := strings.IndexAny(kind, "(:"); i > 0 {
		kind = kind[:i]
	}
	return "mut=" + encName(mres) + " ; pristine=" + pristine + " ; before=" + before + " ; after=" + after + " ; own=" + own +
		fmt.Sprintf(" ### nt=%d order=%s setup=%s mut=%s changed_own=%d", nt, hdr["order"], hdr["setup"], kind, nt)
}
