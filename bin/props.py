"""Per-property configuration of bin/check (streams, sizes, trusted base). See DESIGN.md §6."""

COMMON_TRUSTED = [
    "Lean 4.33.0 kernel (thorough tier: re-checked with leanchecker); axioms allowed in property theorems: propext, Classical.choice, Quot.sound only (audited on every run by PrologVerif/Audit.lean); no sorry/admit/native_decide/bv_decide/own axioms (grep on every run)",
    "hand-written Lean model mirrors the Go code: CHECKED by the correspondence streams (differential testing, bounded by the generators; distributions are in this file), not proved",
    "/verif/extract (regenerated facts / translated definitions) and /verif/harness (in-process runner, canonicalisation: variables renamed by first occurrence, map-ordered output sorted, error context dropped)",
    "Go compiler/runtime and standard library behave as documented",
]

NOT_APPLICABLE = {}

PROPS = {
    "C07": dict(
        level_text="Proof about translated code: extract/arith.go translates the kernels of engine/number.go (integer kernels with explicit 64-bit wrap-around, Go panics of / % << >> as values, float guards over an abstract FloatOps, the dispatch tables, the intPow loop) into Lean definitions on every run; for ALL operand pairs the integer functors + - * // div mod rem abs sign min max ^ - \\ /\\ \\/ xor and shifts are proved to return the exact unbounded-integer result or int_overflow/zero_divisor exactly when the specification (Spec/ExactArith over Int) says so, never a panic; comparisons are the Int relations / the float relation after conversion; float guards (overflow iff the IEEE result is infinite, float-to-integer exact or int_overflow) are proved over the FloatOps laws; eval over whole integer expression trees equals the specification. The translated kernels are additionally run against the real functions on the complete boundary grid (c07.kernels) and the hand model of eval/is/comparison against the real interpreter on random expression trees (c07.queries), with an independent oracle (exact integers, hardware IEEE floats).",
        level_note="Trusted: Lean kernel; the translator extract/arith.go and the hand-written semantics of Go's int64 operators in Model/ArithBase.lean (both cross-checked by c07.kernels on the boundary grid); FloatOps laws (IEEE facts about comparison with 2^63 and exact float-to-int conversion) are hypotheses of the float theorems; float VALUES are hardware on both sides; values of transcendental library functions are not compared (guards only); eval/Is/comparison dispatch is hand-modelled (tie: regenerated source text + c07.queries). Known, test-pinned deviations D21 ((±1)^minInt) and D22 (1.0 + MaxFloat64 raises float_overflow) are listed findings.",
        technique="Go->Lean translation of number.go (regenerated every run) + Lean 4 proofs for all inputs (omega, induction over the intPow loop and over expression trees) + model/implementation correspondence on the exhaustive boundary grid and random expression trees",
        lean_module="PrologVerif.Properties.C07",
        ns="PrologVerif.C07",
        streams=[dict(name="c07.kernels", quick=3000, thorough=200000),
                 dict(name="c07.queries", quick=6000, thorough=150000)],
        thorough_seeds=2,
        rule="c07.kernels: EXHAUSTIVE boundary grid (tag grid=full): every unary kernel/functor on every grid value and every binary kernel/functor/comparison on every ordered pair of G = {0, ±1, ±2, ±3, ±7, ±2^31±{0,1}, ±2^32, ±2^53±{0,1}, ±2^62±{0,1}, minInt, minInt+1, maxInt-1, maxInt} ∪ shift counts and sqrt(2^63) neighbours ∪ random (8 quick / 64 thorough), the float grid {±0, ±subnormals, ±min normal, ±1(±ε), ±2^±k, ±2^53, ±2^63(1±ε), ±Max and neighbours, Max/2, Max/3, …} squared, core integers × floats in both orders, plus n random pairs (grid=random). c07.queries: random expression trees of depth ≤ 4 over those leaves through the real parser (operator and canonical syntax), X is Expr (70%) and E1 op E2, one in twelve malformed (unbound variable, atom, unknown functor, arity 3). Non-trivial = an error outcome, an integer operand/result of magnitude ≥ 2^31, or a float that is not a small integer (queries: additionally ≥ 3 nodes); distinct = distinct case text",
        trusted=[
            "translated on every run by extract/arith.go (theorems are about the code's own text): addI subI mulI intDivI remI modI negI absI signI posI intFloorDivI intPow (loop -> fuel recursion) integerPower, addF subF mulF divF negF absF signF intPartF fractPartF, floorFtoI truncateFtoI roundFtoI ceilingFtoI, floatItoF floatFtoF, eqI..geqIF (24 comparison kernels), the Number-level dispatchers (add … xor, max, min, shifts, bitwise, power, sin … tan) and the tables unaryFunctors/binaryFunctors; statements only reachable for a third implementation of Number (test mocks) are dropped and listed (Generated.Arith.dropped)",
            "hand-written and cross-checked by c07.kernels: Model/ArithBase.lean (Go int64 semantics: wrap-around, / % panics on 0, << >> panic on a negative count, & | ^ through BitVec 64); FloatOps is a parameter — its laws (Proofs/ArithFloat FloatLaws) are assumptions of the float theorems",
            "hand-modelled, correspondence-checked by c07.queries: eval, Is, Equal … GreaterThanOrEqual (Model/Eval.lean); their normalised source text, the kernels each predicate calls and the predicate registration are regenerated facts tied by C07_tie_* theorems",
            "not compared: values of math.Sin/Cos/Tan/Asin/Acos/Atan/Exp/Log/Pow/Atan2 (Go's libm vs C libm); their guard logic is translated and compared",
        ],
        modelled={"translated": ["engine/number.go: every function except eval, Is and the six comparison predicates"],
                  "hand_modelled": ["eval", "Is", "Equal", "NotEqual", "LessThan", "GreaterThan", "LessThanOrEqual", "GreaterThanOrEqual"],
                  "regenerated": ["unaryFunctors", "binaryFunctors", "constants", "comparison kernel dispatch", "Register2 of is/2 and the comparisons", "source text of eval/Is/Equal"],
                  "observed_only": ["Parser (expression text -> term)", "Solutions.Scan into int64/float64", "math library values"]},
        assumptions=["Number has exactly the implementations Integer and Float (the third one in the test suite is a mock)",
                     "FloatLaws: comparisons of an integral float against float64(maxInt)=2^63 and float64(minInt)=-2^63 are exact, Integer(f) is exact for an integral f in range, IsInf/IsNaN classify the IEEE result",
                     "intPow is only called with a non-negative exponent (integerPower guarantees it; proved for the translated integerPower)"],
    ),
    "C18": dict(
        level_text="Proof: the operator-table state machine (Op/validateOp/CurrentOp and the operators methods) is modelled in Lean; for ALL histories of op/3 calls with arbitrary argument terms the ISO invariant (C18_inv), atomicity of failed updates (C18_atomic), the exact effect of successful updates (C18_update_exact: latest wins, 0 removes, other classes kept) and exactness of current_op/3 (C18_current_op_exact) are kernel-checked theorems, the default table being regenerated from bootstrap.pl. The model is tied to the Go code by the c18.hist correspondence stream (impl vs model, plus an independent executable ISO specification as oracle, plus reader/writer probes).",
        level_note="Trusted: Lean kernel; the hand-written model of Op/validateOp/CurrentOp (checked by differential runs, not proved); harness canonicalisation; reader/writer use of the table is only probed, not modelled. Pattern variables of current_op/3 assumed pairwise distinct.",
        technique="Lean 4 invariant proof by induction over op/3 histories + regenerated default table + model/implementation correspondence",
        lean_module="PrologVerif.Properties.C18",
        ns="PrologVerif.C18",
        streams=[dict(name="c18.hist", quick=3000, thorough=40000)],
        rule="histories of 1..8 operations over op/3 (valid and invalid priorities, specifiers, names, lists with invalid members, partial lists, special names , | [] {}), current_op/3 in every instantiation pattern, and a reader/writer probe; generated from one PRNG (VERIF_SEED); non-trivial = at least two op/3 calls in the history changed the table, or one changed it and another was rejected; distinct = distinct case text",
        trusted=[
            "modelled (hand-written, correspondence-checked): engine/builtin.go Op, validateOp, appendUniqNewAtom, CurrentOp; engine/parser.go operators.define/remove/definedInClass; ListIterator as used by Op",
            "regenerated from source on every run: the default operator table = the op/3 directives of bootstrap.pl read by the real parser (Generated/Bootstrap.lean); C18_default_valid is re-proved against it by kernel evaluation",
            "not modelled: the reader and writer themselves (only probed: 'a n b', 'n a', 'a n' parse / writeq(n(a,b)), writeq(n(a)) print according to the table); Go map iteration order (answers compared as sets)",
        ],
        modelled={"hand_modelled": ["Op", "validateOp", "appendUniqNewAtom", "CurrentOp", "operators.define", "operators.remove", "operators.definedInClass"],
                  "regenerated": ["bootstrap.pl op/3 directives"], "observed_only": ["Parser (probe)", "WriteCompound (probe)"]},
        assumptions=["pattern variables of current_op/3 calls are pairwise distinct (the model matches argument-wise)"],
    ),
}
