/-
  Model of the clause database: engine/builtin.go `Assertz/Asserta/assertMerge`, `Retract`,
  `Abolish`, `rulify`; engine/clause.go `clauses.call` (the per-call snapshot), `compile`
  (which clause terms are accepted, how many clauses a term yields), `clauses.indexOf`,
  `clause.is`; engine/vm.go `piArg`, `Arrive` (unknown procedure).

  Open iterators are first-class: a call or a retract that can still be backtracked into is an
  entry of `State.iters`, addressed by its handle (= position).  Histories over these handles
  need not be LIFO — the Go API allows the same by keeping several `Solutions` of one
  interpreter open.

  Clause identity.  Go copies clause structs by value when a call takes its snapshot; what the
  copies share is the bytecode backing array, allocated once by `compileClause`.  The model
  draws an `id` from a counter where Go allocates.  That ids are unique is NOT built into the
  types; it is an invariant proved in Proofs/DB.lean.

  Two variants of `Retract` are modelled:
    `.pinned`  the code as pinned: delete position `i - deleted` of the current slice
    `.fixed`   the repaired code (commit "fix: retract/1 removes the clause it unified with"):
               look the snapshot clause up in the current procedure by identity (position
               `i - deleted` is only a hint), skip it when it is gone
  Both variants read stored clauses through a renamed copy (the repair of D10, which is C10's
  subject).  The correspondence stream c09.hist ties `.fixed` to the code.  (`.pinned` looks the procedure
  up by indicator where the pinned Go code holds the `*userDefined`; the two differ only after
  an abolish/1 of the predicate being retracted from, which the witnesses do not use.)

  Core Lean only.
-/
import PrologVerif.Model.Errors
namespace PrologVerif.DB

/-! ## terms: renaming, substitutions, unification (fuel = recursion depth bound) -/

mutual
  def maxVar : Term → Nat
    | .var v => v + 1
    | .app _ as => maxVarArgs as
    | _ => 0
  def maxVarArgs : Args → Nat
    | .nil => 0
    | .cons t ts => max (maxVar t) (maxVarArgs ts)
end

mutual
  /-- rename apart: add `k` to every variable -/
  def shift (k : Nat) : Term → Term
    | .var v => .var (v + k)
    | .app f as => .app f (shiftArgs k as)
    | t => t
  def shiftArgs (k : Nat) : Args → Args
    | .nil => .nil
    | .cons t ts => .cons (shift k t) (shiftArgs k ts)
end

/-- triangular substitution, newest binding first (env.go binds, never rewrites) -/
abbrev Subst := List (Nat × Term)

def Subst.get : Subst → Nat → Option Term
  | [], _ => none
  | (k, t) :: r, v => if k = v then some t else Subst.get r v

/-- `Env.Resolve`: follow variable bindings -/
def walk : Nat → Subst → Term → Term
  | fuel + 1, σ, .var v =>
    match σ.get v with
    | some t => walk fuel σ t
    | none => .var v
  | _, _, t => t

mutual
  /-- `Env.Unify` without occurs check; `none` = not unifiable (or out of fuel) -/
  def unify : Nat → Subst → Term → Term → Option Subst
    | 0, _, _, _ => none
    | fuel + 1, σ, a, b =>
      match walk (fuel + 1) σ a, walk (fuel + 1) σ b with
      | .var x, .var y => if x = y then some σ else some ((x, .var y) :: σ)
      | .var x, t => some ((x, t) :: σ)
      | t, .var y => some ((y, t) :: σ)
      | .app f as, .app g bs => if f = g then unifyArgs fuel σ as bs else none
      | s, t => if s = t then some σ else none
  def unifyArgs : Nat → Subst → Args → Args → Option Subst
    | 0, _, _, _ => none
    | _ + 1, σ, .nil, .nil => some σ
    | fuel + 1, σ, .cons a as, .cons b bs =>
      match unify fuel σ a b with
      | some σ' => unifyArgs fuel σ' as bs
      | none => none
    | _ + 1, _, _, _ => none
end

mutual
  /-- the term with all bindings applied (what the harness prints for an answer) -/
  def resolve : Nat → Subst → Term → Term
    | 0, _, t => t
    | fuel + 1, σ, t =>
      match walk (fuel + 1) σ t with
      | .app f as => .app f (resolveArgs fuel σ as)
      | t' => t'
  def resolveArgs : Nat → Subst → Args → Args
    | 0, _, as => as
    | _ + 1, _, .nil => .nil
    | fuel + 1, σ, .cons a as => .cons (resolve fuel σ a) (resolveArgs fuel σ as)
end

/-- recursion bound used by the executable model (terms of the streams are far smaller) -/
def fuelU : Nat := 48

/-! ## procedure table -/

structure PI where
  name : String
  arity : Nat
  deriving DecidableEq

def PI.term (pi : PI) : Term := .a2 "/" (.atom pi.name) (.int pi.arity)

/-- a stored clause: identity (the bytecode array in Go), the term kept in `clause.raw`, and the
    body its bytecode executes: `compile` makes ONE CLAUSE PER TOP-LEVEL ALTERNATIVE of a rule's
    body; all of them keep the whole rule as `raw`, each executes its own alternative -/
structure Stored where
  id : Nat
  raw : Term
  body : Term
  deriving DecidableEq

/-- `userDefined` (dynamic flag and clause slice); builtins and control constructs are
    represented as `dynamic := false` entries — all the code here asks is
    `p.(*userDefined)` ok ∧ `u.dynamic`. -/
structure Proc where
  dynamic : Bool
  clauses : List Stored
  deriving DecidableEq

/-- `VM.procedures` (a Go map): association list with unique keys by construction of `set` -/
abbrev Procs := List (PI × Proc)

def Procs.get : Procs → PI → Option Proc
  | [], _ => none
  | (k, v) :: ps, pi => if k = pi then some v else Procs.get ps pi

def Procs.set : Procs → PI → Proc → Procs
  | [], pi, p => [(pi, p)]
  | (k, v) :: ps, pi, p => if k = pi then (k, p) :: ps else (k, v) :: Procs.set ps pi p

def Procs.del : Procs → PI → Procs
  | [], _ => []
  | (k, v) :: ps, pi => if k = pi then Procs.del ps pi else (k, v) :: Procs.del ps pi

/-! ## iterators, state, operations -/

inductive Variant | pinned | fixed
  deriving DecidableEq

/-- an open goal that can be backtracked into -/
inductive Iter where
  /-- `clauses.call`: goal and the not yet tried part of the snapshot (copies of the clause structs) -/
  | call (goal : Term) (rest : List Stored) (pending : List Term)
  /-- `Retract`: pattern, procedure, not yet tried part of the snapshot, its position `i` in the
      snapshot, and the closure variable `deleted` -/
  | retract (pat : Term) (pi : PI) (rest : List Stored) (i deleted : Nat)
  | closed
  deriving DecidableEq

structure State where
  procs : Procs
  /-- next clause identity -/
  nextId : Nat
  /-- `varCounter`: source of fresh variables for clause activations -/
  nextVar : Nat
  iters : List Iter
  deriving DecidableEq

inductive Op where
  | asserta (c : Term)
  | assertz (c : Term)
  | abolish (pi : Term)
  | openCall (goal : Term)
  | openRetract (pat : Term)
  /-- backtrack into iterator `h`: next solution -/
  | next (h : Nat)
  | close (h : Nat)
  /-- observation: does the procedure exist, is it dynamic, its clause terms in order -/
  | listing (pi : PI)
  deriving DecidableEq

inductive Out where
  | ok
  | opened (h : Nat)
  | answer (t : Term)
  /-- no (more) solutions -/
  | no
  | error (e : Term)
  /-- a Go runtime panic (slice bounds out of range) -/
  | panic
  | badHandle
  | listing (defined dynamic : Bool) (cs : List Term)
  deriving DecidableEq

/-! ### vm.go `piArg`, builtin.go `rulify`, clause.go `compile` -/

/-- `piArg` of a resolved term -/
def piArg : Term → Except Term PI
  | .var _ => .error instErr
  | .atom a => .ok ⟨a, 0⟩
  | .app f as => .ok ⟨f, as.length⟩
  | t => .error (typeErr "callable" t)

/-- `rulify` -/
def rulify : Term → Term
  | .app ":-" (.cons h (.cons b .nil)) => .app ":-" (.cons h (.cons b .nil))
  | t => .a2 ":-" t (.atom "true")

def headOf : Term → Term
  | .app ":-" (.cons h (.cons _ .nil)) => h
  | t => t

/-- the indicator a clause term is stored under: `piArg(t)`, and `piArg(t.Arg(0))` for a rule `H :- B` -/
def clausePI : Term → Except Term PI
  | .app ":-" (.cons h (.cons _ .nil)) => piArg h
  | t => piArg t

mutual
  /-- iterator.go `seqIterator`: the goals of a conjunction -/
  def seqGoals : Term → List Term
    | .app f as => if f = "," then seqArgs (.app f as) as else [.app f as]
    | t => [t]
  def seqArgs (whole : Term) : Args → List Term
    | .cons a (.cons b .nil) => seqGoals a ++ seqGoals b   -- ((A,B),C) is rotated to (A,(B,C))
    | _ => [whole]
end

def isThen : Term → Bool
  | .app "->" (.cons _ (.cons _ .nil)) => true
  | _ => false

mutual
  /-- iterator.go `altIterator`: top-level alternatives (an if-then-else is one alternative) -/
  def altGoals : Term → List Term
    | .app f as => if f = ";" then altArgs (.app f as) as else [.app f as]
    | t => [t]
  def altArgs (whole : Term) : Args → List Term
    | .cons a (.cons b .nil) => if isThen a then [whole] else a :: altGoals b
    | _ => [whole]
end

/-- `compilePred` accepts variables (→ call/1), atoms and compounds -/
def callable : Term → Bool
  | .var _ | .atom _ | .app _ _ => true
  | _ => false

/-- `compile`: the `raw` terms of the clauses a clause term yields (one per top-level
    alternative of the body, all with the same `raw`), or type_error(callable, Body) -/
def compile : Term → Except Term (List Term)
  | .app ":-" (.cons h (.cons b .nil)) =>
    if (altGoals b).all (fun alt => (seqGoals alt).all callable) then
      .ok ((altGoals b).map fun _ => .app ":-" (.cons h (.cons b .nil)))
    else .error (typeErr "callable" b)
  | t => .ok [t]

/-- the bodies of the clauses `compile` makes of a clause term, in the order it makes them: the
    top-level alternatives of a rule's body from left to right; `true` for a fact -/
def altsOf : Term → List Term
  | .app ":-" (.cons _ (.cons b .nil)) => altGoals b
  | _ => [.atom "true"]

/-- give consecutive identities to freshly compiled clauses `(raw, body)` -/
def stamp : Nat → List (Term × Term) → List Stored
  | _, [] => []
  | n, r :: rs => ⟨n, r.1, r.2⟩ :: stamp (n + 1) rs

/-! ### `assertMerge` -/

/-- `Asserta` (`front = true`) / `Assertz`: the state afterwards and the error raised, if any -/
def assertMerge (st : State) (t : Term) (front : Bool) : State × Option Term :=
  match clausePI t with
  | .error e => (st, some e)
  | .ok pi =>
    match compile t with
    | .error e => (st, some e)
    | .ok raws =>
      let p : Proc := match st.procs.get pi with
        | some p => p
        | none => ⟨true, []⟩
      if p.dynamic = false then (st, some (permissionErr "modify" "static_procedure" pi.term))
      else
        let added := stamp st.nextId (raws.zip (altsOf t))
        let cs := if front then added ++ p.clauses else p.clauses ++ added
        ({ st with procs := st.procs.set pi { p with clauses := cs }
                   nextId := st.nextId + raws.length }, none)

/-! ### `Abolish` -/

def abolish (st : State) (pi : Term) : State × Option Term :=
  match pi with
  | .var _ => (st, some instErr)
  | .app "/" (.cons name (.cons arity .nil)) =>
    match name with
    | .var _ => (st, some instErr)
    | .atom n =>
      match arity with
      | .var _ => (st, some instErr)
      | .int a =>
        if a < 0 then (st, some (domainErr "not_less_than_zero" (.int a)))
        else
          let key : PI := ⟨n, a.toNat⟩
          match st.procs.get key with
          | some ⟨true, _⟩ => ({ st with procs := st.procs.del key }, none)
          | _ => (st, some (permissionErr "modify" "static_procedure" key.term))
      | other => (st, some (typeErr "integer" other))
    | other => (st, some (typeErr "atom" other))
  | other => (st, some (typeErr "predicate_indicator" other))

/-! ### calls: `Arrive` + `clauses.call` -/

def pushIter (st : State) (it : Iter) : State × Out :=
  ({ st with iters := st.iters ++ [it] }, .opened st.iters.length)

/-- calling a goal: unknown procedure → existence_error; otherwise the snapshot is taken NOW -/
def openCall (st : State) (goal : Term) : State × Out :=
  match piArg goal with
  | .error e => (st, .error e)
  | .ok pi =>
    match st.procs.get pi with
    | none => (st, .error (existenceErr "procedure" pi.term))
    | some p => pushIter st (.call goal p.clauses [])

/-- all solutions, in order, of a clause body under a substitution: conjunction, disjunction and
    if-then-else (the bootstrap clauses of `','/2`, `;/2`, `->/2`) over `true`, `fail` and `=/2`.
    These are the bodies the streams store; any other goal is taken to fail. -/
def solve : Nat → Term → Subst → List Subst
  | 0, _, _ => []
  | fuel + 1, g, σ =>
    match g with
    | .atom "true" => [σ]
    | .atom "fail" => []
    | .app "=" (.cons a (.cons b .nil)) =>
      match unify fuelU σ a b with
      | some σ' => [σ']
      | none => []
    | .app "," (.cons a (.cons b .nil)) => (solve fuel a σ).flatMap (solve fuel b)
    | .app ";" (.cons (.app "->" (.cons c (.cons t .nil))) (.cons e .nil)) =>
      match solve fuel c σ with
      | σ1 :: _ => solve fuel t σ1
      | [] => solve fuel e σ
    | .app ";" (.cons a (.cons b .nil)) => solve fuel a σ ++ solve fuel b σ
    | .app "->" (.cons c (.cons t .nil)) =>
      match solve fuel c σ with
      | σ1 :: _ => solve fuel t σ1
      | [] => []
    | _ => []

/-- the answers one stored clause gives to a goal, in order: fresh variables for the clause
    (`NewVariable()` per activation), head unification, then the solutions of ITS body -/
def clauseAnswers (nv : Nat) (goal : Term) (c : Stored) : List Term :=
  match unify fuelU [] goal (shift nv (headOf c.raw)) with
  | none => []
  | some σ => (solve fuelU (shift nv c.body) σ).map fun σ' => resolve fuelU σ' goal

/-- try the snapshot clauses in order until one has an answer; its further answers are kept in
    the iterator (Go computes them lazily; the bodies are pure, so it cannot be told apart) -/
def nextCall (st : State) (h : Nat) (goal : Term) : List Stored → State × Out
  | [] => ({ st with iters := st.iters.set h (.call goal [] []) }, .no)
  | c :: rest =>
    let answers := clauseAnswers st.nextVar goal c
    let st := { st with nextVar := st.nextVar + maxVar c.raw }
    match answers with
    | a :: more => ({ st with iters := st.iters.set h (.call goal rest more) }, .answer a)
    | [] => nextCall st h goal rest

/-! ### `Retract` -/

def openRetract (st : State) (t : Term) : State × Out :=
  match rulify t with
  | .app ":-" (.cons hd (.cons _ .nil)) =>
    match piArg hd with
    | .error e => (st, .error e)
    | .ok pi =>
      match st.procs.get pi with
      | none => pushIter st (.retract t pi [] 0 0)
      | some p =>
        if p.dynamic = false then (st, .error (permissionErr "modify" "static_procedure" pi.term))
        else pushIter st (.retract t pi p.clauses 0 0)
  | _ => (st, .panic)   -- `t.(Compound)` after rulify: unreachable, see `C09_no_panic`

/-- Go `append(cs[:j], cs[j+1:]...)`: panics unless `0 ≤ j` and `j + 1 ≤ len(cs)` -/
def sliceDelete (cs : List Stored) (j : Int) : Option (List Stored) :=
  if 0 ≤ j ∧ j + 1 ≤ cs.length then some (cs.eraseIdx j.toNat) else none

/-- clause.go `clauses.indexOf` for a compiled clause: try the hint, then search by identity -/
def indexOf (cs : List Stored) (c : Stored) (hint : Int) : Int :=
  if 0 ≤ hint ∧ hint < cs.length ∧ (cs[hint.toNat]?).map (·.id) = some c.id then hint
  else
    match cs.findIdx? (fun d => d.id = c.id) with
    | some i => i
    | none => -1

/-- the alternatives of a retract: the stored clause is read through a copy renamed apart
    (`renamedCopy(c.raw, nil, nil)` — the variables of a stored clause are its own), the pattern is
    unified with `rulify` of it, then the clause is deleted.  Returns the answer = the
    instantiated pattern.  (Go renames all snapshot clauses when the retract starts, the model when
    a clause is tried; which fresh variables are used is not observable.) -/
def nextRetract (v : Variant) (st : State) (h : Nat) (pat : Term) (pi : PI) :
    List Stored → Nat → Nat → State × Out
  | [], i, d => ({ st with iters := st.iters.set h (.retract pat pi [] i d) }, .no)
  | c :: rest, i, d =>
    let raw := shift st.nextVar c.raw
    let st := { st with nextVar := st.nextVar + maxVar c.raw }
    match unify fuelU [] (rulify pat) (rulify raw) with
    | none => nextRetract v st h pat pi rest (i + 1) d
    | some σ =>
      match st.procs.get pi with
      | none => nextRetract v st h pat pi rest (i + 1) d
      | some p =>
        let j : Int := match v with
          | .pinned => (i : Int) - d
          | .fixed => indexOf p.clauses c ((i : Int) - d)
        if v = .fixed ∧ j < 0 then nextRetract v st h pat pi rest (i + 1) d
        else
          match sliceDelete p.clauses j with
          | none => ({ st with iters := st.iters.set h (.retract pat pi rest (i + 1) d) }, .panic)
          | some cs =>
            ({ st with procs := st.procs.set pi { p with clauses := cs }
                       iters := st.iters.set h (.retract pat pi rest (i + 1) (d + 1)) },
             .answer (resolve fuelU σ pat))

/-! ### the machine -/

def next (v : Variant) (st : State) (h : Nat) : State × Out :=
  match st.iters[h]? with
  | some (.call goal rest (a :: more)) => ({ st with iters := st.iters.set h (.call goal rest more) }, .answer a)
  | some (.call goal rest []) => nextCall st h goal rest
  | some (.retract pat pi rest i d) => nextRetract v st h pat pi rest i d
  | some .closed => (st, .no)
  | none => (st, .badHandle)

def close (st : State) (h : Nat) : State × Out :=
  if h < st.iters.length then ({ st with iters := st.iters.set h .closed }, .ok) else (st, .badHandle)

def listing (st : State) (pi : PI) : Out :=
  match st.procs.get pi with
  | none => .listing false false []
  | some p => .listing true p.dynamic (p.clauses.map (·.raw))

def ofErr : State × Option Term → State × Out
  | (st, none) => (st, .ok)
  | (st, some e) => (st, .error e)

def step (v : Variant) (st : State) : Op → State × Out
  | .asserta c => ofErr (assertMerge st c true)
  | .assertz c => ofErr (assertMerge st c false)
  | .abolish pi => ofErr (abolish st pi)
  | .openCall g => openCall st g
  | .openRetract p => openRetract st p
  | .next h => next v st h
  | .close h => close st h
  | .listing pi => (st, listing st pi)

/-- run a history, collecting the outputs -/
def run (v : Variant) : State → List Op → State × List Out
  | st, [] => (st, [])
  | st, o :: os =>
    let r := step v st o
    let r' := run v r.1 os
    (r'.1, r.2 :: r'.2)

def State.empty : State := ⟨[], 0, 0, []⟩

/-! ### retractall/1 (bootstrap.pl)

      retractall(Head) :- retract((Head :- _)), fail.
      retractall(_).
-/

/-- the failure-driven loop: backtrack into the open retract `h` until it has no more solutions -/
def drain (v : Variant) : Nat → State → Nat → State × Out
  | 0, st, _ => (st, .badHandle)
  | fuel + 1, st, h =>
    match next v st h with
    | (st', .answer _) => drain v fuel st' h
    | r => r

/-- first clause: the loop (an error of `retract/1` propagates); second clause: succeed -/
def retractall (v : Variant) (fuel : Nat) (st : State) (head : Term) : State × Out :=
  match openRetract st (.a2 ":-" head (.var (maxVar head))) with
  | (st1, .opened h) =>
    match drain v fuel st1 h with
    | (st2, .no) => (st2, .ok)
    | r => r
  | r => r

end PrologVerif.DB
