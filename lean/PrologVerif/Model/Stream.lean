/-
  Model/Stream.lean — engine/stream.go (input side) and the input built-ins of engine/builtin.go
  (GetChar, PeekChar, GetByte, PeekByte, ReadTerm, at_end_of_stream/1, stream_property/2), C19.

  Function names follow the Go functions they mirror, checks are in the same order.

  * `bufio.Reader` is abstracted by its documented contract: an absolute read cursor `cur` into the
    source bytes, the offset `fetched` up to which the source has been pulled into the buffer
    (`Buffered() = fetched - cur`), the pending read error, and what `UnreadRune/UnreadByte` can
    take back.  How much a `Read` of the source returns is a parameter (`Reader.chunk`): in-memory
    readers return everything at once, a one-byte reader one byte, some readers return the last
    bytes together with io.EOF (`eofWithData`), files additionally know their size.
  * `errReader` is the field `rdErr` (the last `Read` of the source returned io.EOF).
  * A built-in takes the rest of the conjunction as a continuation `k`, as in Go: `Unify(…, k, env)`
    runs `k` inline.  The model is of the repaired code (D17: the unread happens BEFORE `k`;
    D18: `UnreadRune/UnreadByte` take back an end of file instead of applying the eof action).
    `Deferred` at the end of the file is the pinned shape of PeekChar (unread deferred until `k`
    has returned), kept to state what D17 was.
-/
import PrologVerif.Model.StreamTypes
namespace PrologVerif.Stream

/-! ## the source reader and bufio.Reader -/

/-- behaviour of the io.Reader under the stream -/
structure Reader where
  /-- number of bytes a `Read` at source offset `off` returns (clamped to 1 … remaining) -/
  chunk : Nat → Nat
  /-- the `Read` that returns the last bytes also returns io.EOF -/
  eofWithData : Bool
  /-- `fs.File` whose `Stat` succeeds: the file size -/
  fileSize : Option Nat
  /-- a source that GOES ON after an end of file (a terminal, a growing pipe): ascending source offsets at
      which a `Read` reports io.EOF once — the source is the sequence of segments between these marks.
      Empty for an ordinary finite source (which reports io.EOF at its end, for ever). -/
  marks : List Nat := []

/-- the configuration of a stream: fixed while it is open -/
structure Cfg where
  src : List Nat
  rd : Reader
  typ : StreamType
  action : EofAction

/-- bufio.Reader over errReader -/
structure Buf where
  cur : Nat := 0                      -- absolute offset of b.r
  fetched : Nat := 0                  -- absolute offset of b.w = offset of the source reader
  pendErr : Bool := false             -- b.err = io.EOF, not yet reported
  rdErr : Bool := false               -- errReader.err = io.EOF
  lastRuneSize : Option Nat := none   -- b.lastRuneSize (none = -1)
  lastByte : Bool := false            -- b.lastByte >= 0
  eofs : Nat := 0                     -- state of the SOURCE: how many of its end-of-file marks it has reported

def Buf.buffered (b : Buf) : Nat := b.fetched - b.cur

/-- the unread part of the buffer: b.buf[b.r:b.w] -/
def avail (src : List Nat) (b : Buf) : List Nat := (src.drop b.cur).take (b.fetched - b.cur)

/-- bufio.Reader.fill over an ordinary finite source: one `Read` (≥ 1 byte, or 0 bytes and io.EOF) -/
def fillPlain (src : List Nat) (rd : Reader) (b : Buf) : Buf :=
  if b.fetched < src.length then
    let n := max 1 (min (rd.chunk b.fetched) (src.length - b.fetched))
    let eof : Bool := rd.eofWithData && decide (b.fetched + n = src.length)
    { b with fetched := b.fetched + n, rdErr := eof, pendErr := eof }
  else
    { b with rdErr := true, pendErr := true }

/-- … over a source with end-of-file marks: a `Read` returns bytes of the current segment only (at most
    what fits into bufio's 4096-byte buffer); at a mark it reports io.EOF once and the source goes on -/
def fillSeg (src : List Nat) (rd : Reader) (b : Buf) : Buf :=
  let rest := rd.marks.drop b.eofs
  let limit := rest.head?.getD src.length
  let used := if rest.isEmpty then b.eofs else b.eofs + 1
  if b.fetched < limit then
    let n := max 1 (min (rd.chunk b.fetched) (min (limit - b.fetched) (4096 - (b.fetched - b.cur))))
    let eof : Bool := rd.eofWithData && decide (b.fetched + n = limit)
    { b with fetched := b.fetched + n, rdErr := eof, pendErr := eof, eofs := if eof then used else b.eofs }
  else
    { b with rdErr := true, pendErr := true, eofs := used }

/-- bufio.Reader.fill -/
def fill (src : List Nat) (rd : Reader) (b : Buf) : Buf :=
  if rd.marks = [] then fillPlain src rd b else fillSeg src rd b

/-- the loop at the top of bufio.Reader.ReadRune; four fills always suffice (each adds ≥ 1 byte or sets err) -/
def fillForRune (src : List Nat) (rd : Reader) : Nat → Buf → Buf
  | 0, b => b
  | fuel + 1, b =>
    if b.cur + 4 > b.fetched ∧ fullRune (avail src b) = false ∧ b.pendErr = false then
      fillForRune src rd fuel (fill src rd b)
    else b

inductive RdErr
  | wrongType      -- errWrongStreamType
  | pastEOS        -- errPastEndOfStream
  | noProgress     -- any other error (io.ErrNoProgress …): unreachable for readers that keep their contract
  deriving DecidableEq, Repr

/-- outcome of a read: a value, io.EOF, or another error -/
inductive Rd (α : Type)
  | ok (a : α)
  | eof
  | err (e : RdErr)

/-- bufio.Reader.ReadRune (`b.lastRuneSize = -1` first; set again on success) -/
def bufReadRune (src : List Nat) (rd : Reader) (b : Buf) : Rd (Nat × Nat) × Buf :=
  let b := fillForRune src rd 4 b
  if b.cur = b.fetched then
    if b.pendErr then (.eof, { b with pendErr := false, lastRuneSize := none })     -- b.readErr()
    else (.err .noProgress, { b with lastRuneSize := none })
  else
    let d := decodeRune (avail src b)
    (.ok d, { b with cur := b.cur + d.2, lastRuneSize := some d.2, lastByte := true })

/-- bufio.Reader.UnreadRune -/
def bufUnreadRune (b : Buf) : Option Buf :=
  match b.lastRuneSize with
  | some n => if b.cur < n then none else some { b with cur := b.cur - n, lastRuneSize := none, lastByte := false }
  | none => none

/-- bufio.Reader.ReadByte (`b.lastRuneSize = -1` first) -/
def bufReadByte (src : List Nat) (rd : Reader) (b : Buf) : Rd Nat × Buf :=
  let b := if b.cur = b.fetched ∧ b.pendErr = false then fill src rd b else b
  if b.cur = b.fetched then
    if b.pendErr then (.eof, { b with pendErr := false, lastRuneSize := none })
    else (.err .noProgress, { b with lastRuneSize := none })
  else
    match src[b.cur]? with
    | some x => (.ok x, { b with cur := b.cur + 1, lastRuneSize := none, lastByte := true })
    | none => (.err .noProgress, { b with lastRuneSize := none })

/-- bufio.Reader.UnreadByte -/
def bufUnreadByte (b : Buf) : Option Buf :=
  if b.lastByte = false ∨ b.cur = 0 then none
  else some { b with cur := b.cur - 1, lastRuneSize := none, lastByte := false }

/-! ## engine.Stream -/

/-- Stream.lastRead -/
inductive LastRead | none | ok | eof
  deriving DecidableEq, Repr

structure Stream where
  buf : Buf := {}
  position : Int := 0
  lastRuneSize : Nat := 0
  endOfStream : EOS := .not
  lastRead : LastRead := .none
  eofUnread : Bool := false

/-- a freshly created / opened input stream -/
def Stream.init : Stream := {}

/-- Stream.reset: a new buffer over the same source (whose offset is where it is) -/
def reset (s : Stream) : Stream :=
  { s with buf := { cur := s.buf.fetched, fetched := s.buf.fetched, eofs := s.buf.eofs }, endOfStream := .not,
           lastRead := .none, eofUnread := false }

/-- Stream.initRead (mode is read): the eof action when the stream is past its end -/
def initRead (c : Cfg) (s : Stream) : Option RdErr × Stream :=
  if s.endOfStream = .past then
    match c.action with
    | .error => (some .pastEOS, s)
    | .reset => (none, reset s)
    | .eofCode => (none, s)
  else (none, s)

inductive ReadKind | ok | eof | other

/-- Stream.setLastRead (called before checkEOS: it looks at the old end_of_stream) -/
def setLastRead (s : Stream) (k : ReadKind) : Stream :=
  match k with
  | .ok => { s with lastRead := .ok }
  | .eof => if s.endOfStream ≠ .past then { s with lastRead := .eof } else { s with lastRead := .none }
  | .other => { s with lastRead := .none }

/-- Stream.checkEOS -/
def checkEOS (c : Cfg) (s : Stream) (eof : Bool) : Stream :=
  { s with endOfStream :=
      if eof then .past
      else if s.buf.buffered = 0 ∧ s.buf.rdErr = true then .at
      else if s.buf.buffered = 0 ∧ c.rd.fileSize.map Int.ofNat = some s.position then .at
      else .not }

/-- Stream.readEOF -/
def readEOF (s : Stream) : Stream :=
  { s with eofUnread := false, endOfStream := .past, lastRead := .eof }

/-- Stream.unreadEOF -/
def unreadEOF (s : Stream) : Stream :=
  { s with eofUnread := true, endOfStream := .at }

/-- Stream.ReadRune after initRead succeeded -/
def readRuneBody (c : Cfg) (s : Stream) : Rd (Nat × Nat) × Stream :=
  if c.typ ≠ .text then (.err .wrongType, s)
  else if s.eofUnread then (.eof, readEOF { s with lastRuneSize := 0 })
  else
    match bufReadRune c.src c.rd s.buf with
    | (.ok d, b) =>
      let s := { s with buf := b, position := s.position + d.2, lastRuneSize := d.2 }
      (.ok d, checkEOS c (setLastRead s .ok) false)
    | (.eof, b) =>
      let s := { s with buf := b, lastRuneSize := 0 }
      (.eof, checkEOS c (setLastRead s .eof) true)
    | (.err e, b) =>
      let s := { s with buf := b, lastRuneSize := 0 }
      (.err e, checkEOS c (setLastRead s .other) false)

/-- Stream.ReadRune -/
def readRune (c : Cfg) (s : Stream) : Rd (Nat × Nat) × Stream :=
  let s := { s with lastRead := .none }
  match initRead c s with
  | (some e, s) => (.err e, s)
  | (none, s) => readRuneBody c s

/-- Stream.UnreadRune (its error is ignored by every caller) -/
def unreadRune (c : Cfg) (s : Stream) : Stream :=
  if c.typ ≠ .text then s
  else
    match s.lastRead with
    | .ok =>
      let s := { s with lastRead := .none }
      match bufUnreadRune s.buf with
      | some b => { s with buf := b, position := s.position - s.lastRuneSize, endOfStream := .not, lastRuneSize := 0 }
      | none => s
    | .eof => unreadEOF { s with lastRead := .none }
    | .none => s

/-- Stream.ReadByte after initRead succeeded -/
def readByteBody (c : Cfg) (s : Stream) : Rd Nat × Stream :=
  if c.typ ≠ .binary then (.err .wrongType, s)
  else if s.eofUnread then (.eof, readEOF s)
  else
    match bufReadByte c.src c.rd s.buf with
    | (.ok x, b) =>
      let s := { s with buf := b, position := s.position + 1 }
      (.ok x, checkEOS c (setLastRead s .ok) false)
    | (.eof, b) =>
      let s := { s with buf := b }
      (.eof, checkEOS c (setLastRead s .eof) true)
    | (.err e, b) =>
      let s := { s with buf := b }
      (.err e, checkEOS c (setLastRead s .other) false)

/-- Stream.ReadByte -/
def readByte (c : Cfg) (s : Stream) : Rd Nat × Stream :=
  let s := { s with lastRead := .none }
  match initRead c s with
  | (some e, s) => (.err e, s)
  | (none, s) => readByteBody c s

/-- Stream.UnreadByte -/
def unreadByte (c : Cfg) (s : Stream) : Stream :=
  if c.typ ≠ .binary then s
  else
    match s.lastRead with
    | .ok =>
      let s := { s with lastRead := .none }
      match bufUnreadByte s.buf with
      | some b => { s with buf := b, position := s.position - 1, endOfStream := .not }
      | none => s
    | .eof => unreadEOF { s with lastRead := .none }
    | .none => s

/-! ## the built-in predicates (continuation-passing, as in builtin.go) -/

/-- what the rest of the conjunction delivers, and the stream it leaves -/
abbrev Cont := Stream → List Result × Stream

/-- `Unify(vm, X, value, k, env)` with a fresh `X`: deliver the value, run the continuation inline -/
def emit (r : Result) (k : Cont) (s : Stream) : List Result × Stream :=
  let p := k s
  (r :: p.1, p.2)

/-- `Error(err)`: the continuation is not run -/
def raise (e : Err) (s : Stream) : List Result × Stream := ([.err e], s)

/-- GetChar / PeekChar: the error switch -/
def charErr : RdErr → Err
  | .wrongType => .binaryStream
  | .pastEOS => .pastEOS
  | .noProgress => .other

/-- GetByte / PeekByte: the error switch -/
def byteErr : RdErr → Err
  | .wrongType => .textStream
  | .pastEOS => .pastEOS
  | .noProgress => .other

/-- ReadTerm: the error switch (`default:` is a syntax error) -/
def termErr : RdErr → Err
  | .wrongType => .binaryStream
  | .pastEOS => .pastEOS
  | .noProgress => .syntax

/-- the switch after the read in GetChar and PeekChar -/
def charCase (r : Rd (Nat × Nat)) (k : Cont) (s : Stream) : List Result × Stream :=
  match r with
  | .ok d => if d.1 = runeError then raise .reprChar s else emit (.char d.1) k s
  | .eof => emit .eof k s
  | .err e => raise (charErr e) s

/-- the switch after the read in GetByte and PeekByte -/
def byteCase (r : Rd Nat) (k : Cont) (s : Stream) : List Result × Stream :=
  match r with
  | .ok b => emit (.byte b) k s
  | .eof => emit .eofByte k s
  | .err e => raise (byteErr e) s

/-- GetChar -/
def getChar (c : Cfg) (k : Cont) (s : Stream) : List Result × Stream :=
  let p := readRune c s
  charCase p.1 k p.2

/-- PeekChar: read, unread, THEN the continuation -/
def peekChar (c : Cfg) (k : Cont) (s : Stream) : List Result × Stream :=
  let p := readRune c s
  charCase p.1 k (unreadRune c p.2)

/-- GetByte -/
def getByte (c : Cfg) (k : Cont) (s : Stream) : List Result × Stream :=
  let p := readByte c s
  byteCase p.1 k p.2

/-- PeekByte -/
def peekByte (c : Cfg) (k : Cont) (s : Stream) : List Result × Stream :=
  let p := readByte c s
  byteCase p.1 k (unreadByte c p.2)

/-- how `Parser.Term` on the stream ended -/
inductive ScanEnd
  | done (o : ReadOut)     -- stopped on a rune (the look-ahead) or at the end of the input after a clause
  | endOfFile              -- io.EOF
  | ioErr (e : RdErr)
  | outOfFuel

/-- the parser pulling runes through `Stream.ReadRune` (the rune ring buffer reports an error of the
    stream again instead of reading on, so the stream is read at most once at its end) -/
def scanLoop {σ : Type} (c : Cfg) (sc : Scanner σ) : Nat → σ → Stream → ScanEnd × Stream
  | 0, _, s => (.outOfFuel, s)
  | fuel + 1, st, s =>
    match readRune c s with
    | (.ok d, s) =>
      match sc.step st d.1 with
      | .inl st' => scanLoop c sc fuel st' s
      | .inr o => (.done o, s)
    | (.eof, s) =>
      match sc.eof st with
      | .out o => (.done o, s)
      | .endOfFile => (.endOfFile, s)
    | (.err e, s) => (.ioErr e, s)

/-- ReadTerm with no options: parse; unless the parser reported io.EOF, unread one rune; THEN the continuation.
    One `ReadRune` per remaining byte plus one at the end is always enough fuel. -/
def readTerm {σ : Type} (c : Cfg) (sc : Scanner σ) (k : Cont) (s : Stream) : List Result × Stream :=
  match scanLoop c sc (c.src.length + 2) sc.init s with
  | (.endOfFile, s) => emit .eof k s
  | (.done (.term t), s) => emit (.term t) k (unreadRune c s)
  | (.done .syntaxErr, s) => raise .syntax (unreadRune c s)
  | (.ioErr e, s) => raise (termErr e) (unreadRune c s)
  | (.outOfFuel, s) => raise .other s

/-- at_end_of_stream(S) :- stream_property(S, end_of_stream(E)), !, (E = at ; E = past). -/
def atEnd (k : Cont) (s : Stream) : List Result × Stream :=
  emit (.bool (decide (s.endOfStream ≠ .not))) k s

/-- stream_property(S, position(P)) -/
def propPos (k : Cont) (s : Stream) : List Result × Stream := emit (.pos s.position) k s

/-- stream_property(S, end_of_stream(E)) -/
def propEos (k : Cont) (s : Stream) : List Result × Stream := emit (.eos s.endOfStream) k s

def runOp {σ : Type} (c : Cfg) (sc : Scanner σ) : Op → Cont → Cont
  | .getChar => getChar c
  | .peekChar => peekChar c
  | .getByte => getByte c
  | .peekByte => peekByte c
  | .readTerm => readTerm c sc
  | .atEnd => atEnd
  | .propPos => propPos
  | .propEos => propEos

/-- a conjunction `G1, G2, …`: every goal gets the rest as its continuation; the last continuation
    is the host's (it records the answer and stops) -/
def runConj {σ : Type} (c : Cfg) (sc : Scanner σ) : List Op → Cont
  | [] => fun s => ([], s)
  | o :: os => runOp c sc o (runConj c sc os)

/-- a sequence of queries on the same stream: the results of each, and the final stream -/
def runProg {σ : Type} (c : Cfg) (sc : Scanner σ) : List (List Op) → Stream → List (List Result) × Stream
  | [], s => ([], s)
  | q :: qs, s =>
    let p := runConj c sc q s
    let r := runProg c sc qs p.2
    (p.1 :: r.1, r.2)

/-! ## direct-style reading of the built-ins

  What a goal delivers and the stream it hands to its continuation.  `Properties/C19.lean` proves that
  the continuation-passing definitions above are exactly this, i.e. that in the repaired code nothing
  of a goal's stream handling happens after its continuation has started. -/

def charRes : Rd (Nat × Nat) → Result
  | .ok d => if d.1 = runeError then .err .reprChar else .char d.1
  | .eof => .eof
  | .err e => .err (charErr e)

def byteRes : Rd Nat → Result
  | .ok b => .byte b
  | .eof => .eofByte
  | .err e => .err (byteErr e)

def termRes : ScanEnd → Result
  | .endOfFile => .eof
  | .done (.term t) => .term t
  | .done .syntaxErr => .err .syntax
  | .ioErr e => .err (termErr e)
  | .outOfFuel => .err .other

def stepOp {σ : Type} (c : Cfg) (sc : Scanner σ) : Op → Stream → Result × Stream
  | .getChar, s => let p := readRune c s; (charRes p.1, p.2)
  | .peekChar, s => let p := readRune c s; (charRes p.1, unreadRune c p.2)
  | .getByte, s => let p := readByte c s; (byteRes p.1, p.2)
  | .peekByte, s => let p := readByte c s; (byteRes p.1, unreadByte c p.2)
  | .readTerm, s =>
    let p := scanLoop c sc (c.src.length + 2) sc.init s
    (termRes p.1, match p.1 with | .endOfFile => p.2 | .outOfFuel => p.2 | _ => unreadRune c p.2)
  | .atEnd, s => (.bool (decide (s.endOfStream ≠ .not)), s)
  | .propPos, s => (.pos s.position, s)
  | .propEos, s => (.eos s.endOfStream, s)

/-- hand a goal's result to its continuation; an error ends the conjunction -/
def andThen (p : Result × Stream) (k : Cont) : List Result × Stream :=
  if p.1.isErr then ([p.1], p.2) else emit p.1 k p.2

/-- a conjunction, goal after goal -/
def seqConj {σ : Type} (c : Cfg) (sc : Scanner σ) : List Op → Stream → List Result × Stream
  | [], s => ([], s)
  | o :: os, s => andThen (stepOp c sc o s) (seqConj c sc os)

/-! ## the pinned shape of the peeks (D17), kept to state the defect -/

namespace Deferred

/-- PeekChar of the pinned tree: `defer s.UnreadRune()` runs after `Unify(…, k, env)` has returned -/
def peekChar (c : Cfg) (k : Cont) (s : Stream) : List Result × Stream :=
  let p := readRune c s
  let q := charCase p.1 k p.2
  (q.1, unreadRune c q.2)

end Deferred

end PrologVerif.Stream
