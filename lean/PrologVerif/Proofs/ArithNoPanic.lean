/-
  Proofs/ArithNoPanic — no translated kernel panics: for every functor of the dispatch tables and all
  numbers (integers and floats in any combination) the result is a number, an evaluation error or a
  type error — never a Go panic (division by zero, negative shift count), and the loop of `^` never
  runs out of fuel.
-/
import PrologVerif.Proofs.ArithEval
namespace PrologVerif.ArithProofs
open PrologVerif.Arith PrologVerif.Generated.Arith
open PrologVerif.Spec.ExactArith (Outcome inRange checked Expr)

variable {F : Type} [FloatOps F]

/-! ### no kernel panics -/

theorem ite_ne_panic {α : Type} {c : Prop} [Decidable c] {a b : Except Err α} {p : GoPanic}
    (ha : a ≠ .error (.panic p)) (hb : b ≠ .error (.panic p)) : (if c then a else b) ≠ .error (.panic p) := by
  split <;> assumption

theorem noPanic_of_outcome {r : Except Err I64} {o : Outcome} (h : outcome r = some o) : NoPanic r := by
  intro p hp; rw [hp] at h; simp [outcome] at h

omit [FloatOps F] in
theorem noPanic_liftI {r : Except Err I64} (h : NoPanic r) : NoPanic (liftI r : Except Err (Num F)) := by
  intro p hp
  unfold liftI at hp
  cases r with
  | ok v => simp [Except.map] at hp
  | error e => simp [Except.map] at hp; exact h p (by rw [hp])

omit [FloatOps F] in
theorem noPanic_liftF {r : Except Err F} (h : NoPanic r) : NoPanic (liftF r : Except Err (Num F)) := by
  intro p hp
  unfold liftF at hp
  cases r with
  | ok v => simp [Except.map] at hp
  | error e => simp [Except.map] at hp; exact h p (by rw [hp])

theorem noPanic_addF (x y : F) : NoPanic (addF x y) := by
  intro p; unfold addF; simp only []; repeat' split
  all_goals simp

theorem noPanic_subF (x y : F) : NoPanic (subF x y) := noPanic_addF _ _

theorem noPanic_mulF (x y : F) : NoPanic (mulF x y) := by
  intro p; unfold mulF; simp only []; repeat' split
  all_goals simp

theorem noPanic_divF (x y : F) : NoPanic (divF x y) := by
  intro p; unfold divF; simp only []; repeat' split
  all_goals simp

theorem noPanic_floorFtoI (x : F) : NoPanic (floorFtoI x) := by
  intro p; unfold floorFtoI; simp only []; repeat' split
  all_goals simp
theorem noPanic_truncateFtoI (x : F) : NoPanic (truncateFtoI x) := by
  intro p; unfold truncateFtoI; simp only []; repeat' split
  all_goals simp
theorem noPanic_roundFtoI (x : F) : NoPanic (roundFtoI x) := by
  intro p; unfold roundFtoI; simp only []; repeat' split
  all_goals simp
theorem noPanic_ceilingFtoI (x : F) : NoPanic (ceilingFtoI x) := by
  intro p; unfold ceilingFtoI; simp only []; repeat' split
  all_goals simp

theorem noPanic_power (x y : Num F) : NoPanic (power x y) := by
  intro p; unfold power; simp only []; repeat' split
  all_goals simp

theorem noPanic_goShl {n s : I64} (h : ¬ s < (0 : I64)) : ∃ v, liftP (goShl n s) = .ok v := by
  rw [I64.lt_def, I64.val_zero] at h
  unfold goShl
  rw [if_neg h]
  split <;> exact ⟨_, rfl⟩

theorem noPanic_goShr {n s : I64} (h : ¬ s < (0 : I64)) : ∃ v, liftP (goShr n s) = .ok v := by
  rw [I64.lt_def, I64.val_zero] at h
  unfold goShr
  rw [if_neg h]
  split <;> exact ⟨_, rfl⟩

theorem noPanic_intPow (a b : I64) (hb : 0 ≤ b.val) : NoPanic (intPow a b) :=
  noPanic_of_outcome (intPow_exact a b hb)

/-- every binary evaluable functor, on ALL numbers (integers and floats in any combination):
    no Go panic (no division by zero, no negative shift count) and the loop of `^` never runs out of fuel -/
theorem noPanic_binary (f : String) (g : Num F → Num F → Except Err (Num F)) (hg : evalBinary f = some g)
    (x y : Num F) : NoPanic (g x y) := by
  unfold evalBinary at hg
  split at hg <;> first | (injection hg with hg; subst hg) | (simp at hg)
  · -- add
    cases x <;> cases y
    · exact noPanic_liftI (noPanic_of_outcome (addI_exact _ _))
    all_goals exact noPanic_liftF (noPanic_addF _ _)
  · cases x <;> cases y
    · exact noPanic_liftI (noPanic_of_outcome (subI_exact _ _))
    all_goals exact noPanic_liftF (noPanic_addF _ _)
  · cases x <;> cases y
    · exact noPanic_liftI (noPanic_of_outcome (mulI_exact _ _))
    all_goals exact noPanic_liftF (noPanic_mulF _ _)
  · cases x <;> cases y
    · exact noPanic_liftI (noPanic_of_outcome (intDivI_exact _ _))
    all_goals (intro p; simp [intDiv])
  · cases x <;> cases y
    all_goals exact noPanic_liftF (noPanic_divF _ _)
  · cases x <;> cases y
    · exact noPanic_liftI (noPanic_of_outcome (remI_exact _ _))
    all_goals (intro p; simp [rem])
  · cases x <;> cases y
    · exact noPanic_liftI (noPanic_of_outcome (modI_exact _ _))
    all_goals (intro p; simp [mod])
  · exact noPanic_power x y
  · -- >>
    cases x <;> cases y
    · rename_i n s
      intro p
      unfold bitwiseRightShift
      simp only []
      split
      · simp
      · rename_i h; obtain ⟨v, hv⟩ := noPanic_goShr (n := n) h; rw [hv]; simp [Except.bind]
    all_goals (intro p; simp [bitwiseRightShift])
  · cases x <;> cases y
    · rename_i n s
      intro p
      unfold bitwiseLeftShift
      simp only []
      split
      · simp
      · rename_i h; obtain ⟨v, hv⟩ := noPanic_goShl (n := n) h; rw [hv]; simp [Except.bind]
    all_goals (intro p; simp [bitwiseLeftShift])
  · cases x <;> cases y <;> (intro p; simp [bitwiseAnd])
  · cases x <;> cases y <;> (intro p; simp [bitwiseOr])
  · cases x <;> cases y
    · exact noPanic_liftI (noPanic_of_outcome (intFloorDivI_exact _ _))
    all_goals (intro p; simp [intFloorDiv])
  · cases x <;> cases y <;> (intro p; unfold Generated.Arith.max; simp only []; split <;> simp)
  · cases x <;> cases y <;> (intro p; unfold Generated.Arith.min; simp only []; split <;> simp)
  · -- ^
    cases x <;> cases y
    · rename_i vx vy
      intro p
      unfold integerPower
      simp only []
      by_cases hneg : vy < (0 : I64)
      · rw [if_pos hneg]
        rw [I64.lt_def, I64.val_zero] at hneg
        split
        · simp
        split
        · -- negI, then intPow with a positive exponent, then 1 // r
          have hn := negI_exact vy
          cases hny : negI vy with
          | error e =>
            rw [hny] at hn
            cases e with
            | panic q => simp [outcome] at hn
            | ev e => simp [Except.bind]
            | typeError t c => simp [Except.bind]
          | ok vy' =>
            rw [hny] at hn
            simp only [outcome, S.neg, Spec.ExactArith.neg] at hn
            have hvy := vy.inRange
            have hpos : 0 ≤ vy'.val := by
              by_cases hr : inRange (-vy.val)
              · rw [checked_pos hr] at hn; injection hn with hn; injection hn with hn; omega
              · rw [checked_neg hr] at hn; simp at hn
            simp only [Except.bind]
            have hp := noPanic_intPow vx vy' hpos
            cases hpw : intPow vx vy' with
            | error e =>
              cases e with
              | panic q => exact absurd hpw (hp q)
              | ev e =>
                simp only [ignoreErr]
                exact noPanic_liftI (noPanic_of_outcome (intDivI_exact _ _)) p
              | typeError t c =>
                simp only [ignoreErr]
                exact noPanic_liftI (noPanic_of_outcome (intDivI_exact _ _)) p
            | ok r =>
              simp only [ignoreErr]
              exact noPanic_liftI (noPanic_of_outcome (intDivI_exact _ _)) p
        · simp
      · rw [if_neg hneg]
        rw [I64.lt_def, I64.val_zero] at hneg
        exact noPanic_liftI (noPanic_intPow vx vy (by omega)) p
    all_goals (intro p; unfold integerPower; simp only []; exact noPanic_power _ _ p)
  · -- atan2
    intro p; unfold atan2; simp only []
    repeat' (first | split | simp only [])
    all_goals first | simp | exact ite_ne_panic (by simp) (by simp)
  · cases x <;> cases y <;> (intro p; simp [Generated.Arith.xor])

/-- brute force for kernels without partial operators: unfold, split every if/match, look at the leaves -/
macro "no_panic_leaves" f:ident : tactic =>
  `(tactic| (intro p; unfold $f; simp only []; repeat' (first | split | simp only []);
             all_goals first | simp | exact ite_ne_panic (by simp) (by simp)))

/-- every unary evaluable functor, on ALL numbers: no Go panic -/
theorem noPanic_unary (f : String) (g : Num F → Except Err (Num F)) (hg : evalUnary f = some g)
    (x : Num F) : NoPanic (g x) := by
  unfold evalUnary at hg
  split at hg <;> first | (injection hg with hg; subst hg) | (simp at hg)
  · cases x
    · exact noPanic_liftI (noPanic_of_outcome (negI_exact _))
    · intro p; simp [neg]
  · cases x
    · exact noPanic_liftI (noPanic_of_outcome (absI_exact _))
    · intro p; simp [abs]
  · cases x <;> (intro p; simp [sign])
  · cases x <;> (intro p; simp [floatIntegerPart])
  · cases x <;> (intro p; simp [floatFractionalPart])
  · cases x <;> (intro p; simp [asFloat])
  · cases x
    · intro p; simp [floor]
    · exact noPanic_liftI (noPanic_floorFtoI _)
  · cases x
    · intro p; simp [truncate]
    · exact noPanic_liftI (noPanic_truncateFtoI _)
  · cases x
    · intro p; simp [round]
    · exact noPanic_liftI (noPanic_roundFtoI _)
  · cases x
    · intro p; simp [ceiling]
    · exact noPanic_liftI (noPanic_ceilingFtoI _)
  · cases x <;> (intro p; simp [sin])
  · cases x <;> (intro p; simp [cos])
  · cases x <;> (intro p; simp [atan])
  · no_panic_leaves exp
  · no_panic_leaves log
  · no_panic_leaves sqrt
  · cases x <;> (intro p; simp [bitwiseComplement])
  · cases x
    · exact noPanic_liftI (noPanic_of_outcome (posI_exact _))
    · intro p; simp [pos, posF, liftF, Except.map]
  · no_panic_leaves asin
  · no_panic_leaves acos
  · cases x <;> (intro p; simp [tan])

end PrologVerif.ArithProofs
