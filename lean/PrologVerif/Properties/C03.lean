/-
  C03 — cut removes exactly the clause-level choice points; call/N makes it local.

  Subject: `Model/Promise.lean` (engine/promise.go `Force/child/popUntil`) and, for the execution
  model, `Model/VM.lean`.  The theorems of this file are about the trampoline; the refinement of
  whole programs against the reference semantics with cut is in Properties/C01 (staged there).
-/
import PrologVerif.Proofs.Promise
import PrologVerif.Proofs.ForceDFS
namespace PrologVerif.C03
open PrologVerif PrologVerif.Promise

variable {τ ρ ε σ : Type}

/-- **C03_cut_pops_exactly**.  Executing a cut whose parent `c` is on the stack (first at the
    position shown) leaves exactly: the exhausted parent as a marker, and below it the part of the
    stack that is strictly older than the parent — untouched.  Everything created since the
    predicate was called (the entries above the parent: choice points left by the goals to the left
    of the cut; and the parent's own remaining alternatives: the predicate's remaining clauses) is
    gone. -/
theorem C03_cut_pops_exactly (c : Nat) (hc : c ≠ 0) (above : List (P τ ρ ε)) (pc : P τ ρ ε)
    (below : List (P τ ρ ε)) (hpc : pc.id = c) (habove : ∀ p ∈ above, p.id ≠ c) :
    cutStack c (above ++ pc :: below) = marker c :: below := by
  simp [cutStack, hc, popUntil_append c above pc below hpc habove]

/-- the marker has no alternatives left and is neither a success nor an error: when the search
    backtracks to it, it is skipped -/
theorem C03_marker_exhausted (c : Nat) :
    (marker c : P τ ρ ε).delayed = [] ∧ (marker c : P τ ρ ε).ok = false ∧
    (marker c : P τ ρ ε).err = none ∧ (marker c : P τ ρ ε).recover = none ∧ (marker c : P τ ρ ε).id = c :=
  ⟨rfl, rfl, rfl, rfl, rfl⟩

/-- **C03_second_cut_same_clause**: a later cut of the same clause body (same parent) finds the
    marker and again removes exactly what was created since — nothing older.  (On the pinned tree the
    first cut removed the parent itself and the second emptied the whole stack; fixed by 0088de9.) -/
theorem C03_second_cut_same_clause (c : Nat) (hc : c ≠ 0) (above : List (P τ ρ ε)) (below : List (P τ ρ ε))
    (habove : ∀ p ∈ above, p.id ≠ c) :
    cutStack c (above ++ marker c :: below) = marker c :: below :=
  C03_cut_pops_exactly c hc above (marker c) below rfl habove

/-- a cut never touches anything but a prefix (the newest part) of the stack -/
theorem C03_cut_only_newest (c : Nat) (stack : List (P τ ρ ε)) :
    ∃ pre, stack = pre ++ popUntil c stack :=
  popUntil_suffix c stack

/-- one iteration of `Force` on a cut promise: cut the stack, call the continuation thunk, push the
    (now ordinary) promise and its child — execution continues with the goals to the right -/
theorem C03_force_cut_step (sem : Sem τ ρ ε σ) (n : Nat) (p : P τ ρ ε) (t : τ) (ts : List τ) (c : Nat)
    (stack : List (P τ ρ ε)) (m : M σ) (hd : p.delayed = t :: ts) (hcp : p.cutParent = some c) :
    force sem none (n + 1) (p :: stack) m =
      match sem.evalThunk n t { m with iter := m.iter + 1 } with
      | none => none
      | some (q, m') =>
        force sem none n (q :: afterChild { p with cutParent := none } :: cutStack c stack) m' := by
  simp only [force, isCancelled, hd, hcp]
  simp
  rfl

end PrologVerif.C03

/-! ### the trampoline finds what depth-first search with a cut barrier finds -/

namespace PrologVerif.C03
open PrologVerif PrologVerif.Promise PrologVerif.PTree PrologVerif.DFS

/-- result of `Force` for a signal that reaches the root -/
def toRes : Sig → Res Nat
  | .found => .yes
  | .exhausted _ => .no
  | .raised e _ => .error e
  | .illScoped => .no

/-- **C03_force_refines_dfs** (= `force_dfs` at the root).  For EVERY well-scoped promise tree — any
    nesting of alternatives, cuts to live ancestors, catch frames with (de)activation, repeat, side
    effects — if the recursive reference search (depth-first, left to right, cut barrier, catch)
    finishes with signal `sig` and state `s'`, then `Force` on the real stack machine finishes with
    the corresponding result and EXACTLY the same side effects in the same order (`s'` holds the
    trace of every thunk evaluation).  In particular: a cut discards precisely the alternatives of
    the nodes between the cut and its parent, and the parent's own; nothing older is lost, and every
    alternative that the reference search tries is tried, once. -/
theorem C03_force_refines_dfs (k : Nat) (t : PT) (sig : Sig) (s' : St)
    (h : dfs k t [] {} = some (sig, s')) (hs : sig ≠ .illScoped) :
    ∃ fuel m, run fuel none t = some (toRes sig, m) ∧ m.user = s' := by
  obtain ⟨cost, di, hf⟩ := ForceDFS.force_dfs k t [] {} s' sig h hs [] rfl List.nodup_nil
  have h2 := hf 2 0
  have key : ∃ m, ForceDFS.after sig [] ⟨s', 0 + di⟩ 2 = some (toRes sig, m) ∧ m.user = s' := by
    cases sig with
    | found => exact ⟨_, rfl, rfl⟩
    | exhausted co =>
      cases co with
      | none => exact ⟨_, rfl, rfl⟩
      | some c =>
        by_cases hc : c = 0
        · subst hc; exact ⟨_, rfl, rfl⟩
        · refine ⟨⟨s', 0 + di + 1⟩, ?_, rfl⟩
          simp [ForceDFS.after, ForceDFS.cutOpt, cutStack, hc, toRes, force, popUntil, marker, isCancelled]
    | raised e co =>
      cases co with
      | none => exact ⟨_, rfl, rfl⟩
      | some c =>
        by_cases hc : c = 0
        · subst hc; exact ⟨_, rfl, rfl⟩
        · refine ⟨⟨s', 0 + di⟩, ?_, rfl⟩
          simp [ForceDFS.after, ForceDFS.cutOpt, cutStack, hc, toRes, recoverStack, popUntil, marker]
    | illScoped => exact absurd rfl hs
  obtain ⟨m, hm, hu⟩ := key
  exact ⟨2 + cost, m, by unfold run; rw [h2]; exact hm, hu⟩

end PrologVerif.C03
