/-
  Proofs/Solutions — the invariant of the repaired Solutions protocol (fix = true), its
  preservation by every step of either goroutine, deadlock freedom, and the step measure.
-/
import PrologVerif.Model.Solutions
namespace PrologVerif.Solutions
open PrologVerif.Iter

/-- the specification's state after the calls completed so far -/
def specState (q : Query) (s : Sys) : State := (run q s.hist).1

/-- fields that are the same in every reachable state with no call in flight or a `Next` in flight
    that has not yet seen the outcome -/
def Quiet (s : Sys) (it : State) : Prop :=
  s.nextClosed = false ∧ s.done = false ∧ s.perr = none ∧ it.err = none

/-- shape of the reachable states, by the two program counters.  `it` is the specification's
    state after the completed calls. -/
def Shape (q : Query) (s : Sys) (it : State) : Prop :=
  match s.c, s.p with
  -- no call in flight
  | .idle, .await0 => s.more = 0 ∧ s.moreClosed = s.closed ∧ Quiet s it ∧ s.pos = 0 ∧ it.pos = 0 ∧ s.work = 0
  | .idle, .awaitMore => s.more = 0 ∧ s.moreClosed = s.closed ∧ Quiet s it ∧ s.pos = it.pos ∧ s.work = it.pos
  | .idle, .exiting => s.more = 0 ∧ s.moreClosed = true ∧ s.closed = true ∧ Quiet s it ∧ s.work = it.pos
  | .idle, .exited => s.more = 0 ∧ s.moreClosed = s.closed ∧ s.nextClosed = true ∧ s.perr = it.err ∧
      ((s.done = true ∧ s.work = it.pos + 1) ∨ (s.done = false ∧ s.closed = true ∧ s.perr = none ∧ s.work = it.pos))
  | .idle, _ => False
  -- `Next` before its send
  | .nextSend, .await0 => s.more = 0 ∧ s.moreClosed = false ∧ s.closed = false ∧ Quiet s it ∧ s.pos = 0 ∧ it.pos = 0 ∧ s.work = 0
  | .nextSend, .awaitMore => s.more = 0 ∧ s.moreClosed = false ∧ s.closed = false ∧ Quiet s it ∧ s.pos = it.pos ∧ s.work = it.pos
  | .nextSend, _ => False
  -- `Next` after its send
  | .nextRecv, .await0 => s.more = 1 ∧ s.moreClosed = false ∧ s.closed = false ∧ Quiet s it ∧ s.pos = 0 ∧ it.pos = 0 ∧ s.work = 0
  | .nextRecv, .awaitMore => s.more = 1 ∧ s.moreClosed = false ∧ s.closed = false ∧ Quiet s it ∧ s.pos = it.pos ∧ s.work = it.pos
  | .nextRecv, .searching => s.more = 0 ∧ s.moreClosed = false ∧ s.closed = false ∧ Quiet s it ∧ s.pos = it.pos ∧ s.work = it.pos
  | .nextRecv, .offering a => s.more = 0 ∧ s.moreClosed = false ∧ s.closed = false ∧ Quiet s it ∧
      q it.pos = .answer a ∧ s.pos = it.pos + 1 ∧ s.work = it.pos + 1
  | .nextRecv, .failing e => s.more = 0 ∧ s.moreClosed = false ∧ s.closed = false ∧ Quiet s it ∧
      q it.pos = .error e ∧ s.work = it.pos + 1
  | .nextRecv, .exiting => s.more = 0 ∧ s.moreClosed = false ∧ s.closed = false ∧ s.nextClosed = false ∧ s.done = false ∧
      it.err = none ∧ s.work = it.pos + 1 ∧
      ((q it.pos = .exhausted ∧ s.perr = none) ∨ (∃ e, q it.pos = .error e ∧ s.perr = some e))
  | .nextRecv, .exited => s.more = 0 ∧ s.moreClosed = false ∧ s.closed = false ∧ s.nextClosed = true ∧ s.done = false ∧
      it.err = none ∧ s.work = it.pos + 1 ∧
      ((q it.pos = .exhausted ∧ s.perr = none) ∨ (∃ e, q it.pos = .error e ∧ s.perr = some e))
  | .crashed, _ => False

/-- the invariant: the log of return values is the specification's, the consumer's fields are the
    specification's state, and the two goroutines are in one of the shapes above -/
structure Inv (q : Query) (s : Sys) : Prop where
  outs : s.out = (run q s.hist).2
  closed : s.closed = (specState q s).closed
  done : s.done = (specState q s).finished
  env : s.env = (specState q s).cur
  shape : Shape q s (specState q s)

theorem inv_init (q : Query) (todo : List Op) : Inv q (init todo) := by
  refine ⟨rfl, rfl, rfl, rfl, ?_⟩
  simp [Shape, Quiet, init, specState, run]

/-! ### preservation -/

theorem specState_ret (q : Query) (s : Sys) (op : Op) (r : Ret) :
    specState q (s.ret op r) = (step q (run q s.hist).1 op).1 := by
  simp [specState, Sys.ret, run_append]

theorem run_ret (q : Query) (s : Sys) (op : Op) (r : Ret) :
    run q (s.ret op r).hist = ((step q (run q s.hist).1 op).1, (run q s.hist).2 ++ [(step q (run q s.hist).1 op).2]) := by
  simp [Sys.ret, run_append]


theorem inv_pStep {q : Query} {s s' : Sys} (h : Inv q s) (hs : pStep q s = some s') : Inv q s' := by
  obtain ⟨ho, hc, hd, he, hsh⟩ := h
  rcases s with ⟨todo, hist, out, c, env, closed, done, more, moreClosed, nextClosed, p, pos, work, perr⟩
  simp only [specState] at *
  generalize hit : (run q hist).1 = it at *
  cases p <;> simp only [pStep, recvMore] at hs
  all_goals cases c <;> simp [Shape, Quiet] at hsh
  all_goals (repeat' split at hs)
  all_goals simp at hs
  all_goals subst hs
  all_goals (constructor <;> simp_all [Shape, specState, Quiet])

theorem inv_cStep {q : Query} {s s' : Sys} (h : Inv q s) (hs : cStep true s = some s') : Inv q s' := by
  obtain ⟨ho, hc, hd, he, hsh⟩ := h
  rcases s with ⟨todo, hist, out, c, env, closed, done, more, moreClosed, nextClosed, p, pos, work, perr⟩
  simp only [specState] at *
  cases c <;> simp only [cStep] at hs
  all_goals cases p <;> simp [Shape, Quiet] at hsh
  all_goals (repeat' split at hs)
  all_goals simp at hs
  all_goals subst hs
  all_goals (constructor <;> simp [Shape, specState, Quiet, Sys.ret, run_append, step] <;> grind)

theorem inv_step {q : Query} {s s' : Sys} (h : Inv q s) (hs : Step true q s s') : Inv q s' :=
  hs.elim (inv_cStep h) (inv_pStep h)

theorem inv_reach {q : Query} {todo : List Op} {s : Sys} (h : Reach true q todo s) : Inv q s := by
  induction h with
  | init => exact inv_init q todo
  | step _ hs ih => exact inv_step ih hs

/-! ### the step measure -/

/-- steps the producer can still take without further input from the consumer -/
def pPot (s : Sys) : Nat :=
  match s.p with
  | .await0 | .awaitMore => if 0 < s.more then 4 else if s.moreClosed = true then 2 else 0
  | .searching => 3
  | .failing _ => 2
  | .exiting => 1
  | .offering _ | .exited => 0

/-- steps the call in flight still needs (its own and the producer's it will trigger) -/
def cPot (s : Sys) : Nat :=
  match s.c with
  | .idle | .crashed => 0
  | .nextSend => 6
  | .nextRecv => 1

/-- the step measure: at most 8 steps per call still to be made -/
def measure (s : Sys) : Nat := 8 * s.todo.length + cPot s + pPot s

theorem measure_cStep {q : Query} {s s' : Sys} (h : Inv q s) (hs : cStep true s = some s') :
    measure s' < measure s := by
  have hsh := h.shape
  generalize specState q s = it at hsh
  rcases s with ⟨todo, hist, out, c, env, closed, done, more, moreClosed, nextClosed, p, pos, work, perr⟩
  cases c <;> simp only [cStep] at hs
  all_goals cases p <;> simp [Shape, Quiet] at hsh
  all_goals (repeat' split at hs)
  all_goals simp at hs
  all_goals subst hs
  all_goals simp [measure, cPot, pPot, Sys.ret] <;> grind

theorem measure_pStep {q : Query} {s s' : Sys} (hs : pStep q s = some s') :
    measure s' < measure s := by
  rcases s with ⟨todo, hist, out, c, env, closed, done, more, moreClosed, nextClosed, p, pos, work, perr⟩
  cases p <;> simp only [pStep, recvMore] at hs
  all_goals (repeat' split at hs)
  all_goals simp at hs
  all_goals subst hs
  all_goals simp [measure, cPot, pPot] <;> grind

theorem measure_step {q : Query} {s s' : Sys} (h : Inv q s) (hs : Step true q s s') :
    measure s' < measure s :=
  hs.elim (measure_cStep h) measure_pStep

theorem measure_run {q : Query} {n : Nat} {s s' : Sys} (h : Inv q s) (hr : Run true q n s s') :
    Inv q s' ∧ measure s' + n ≤ measure s := by
  induction hr with
  | refl => exact ⟨h, Nat.le_refl _⟩
  | step _ hs ih =>
    have ih := ih h
    have := measure_step ih.1 hs
    exact ⟨inv_step ih.1 hs, by omega⟩

/-! ### deadlock freedom -/

theorem cStep_idle_isSome (fix : Bool) (s : Sys) (hc : s.c = .idle) (ht : s.todo ≠ []) :
    (cStep fix s).isSome = true := by
  rcases s with ⟨todo, hist, out, c, env, closed, done, more, moreClosed, nextClosed, p, pos, work, perr⟩
  simp only at hc ht
  subst hc
  cases todo with
  | nil => exact absurd rfl ht
  | cons op rest =>
    cases op <;> simp only [cStep]
    · split <;> rfl
    · rfl
    · rfl
    · split
      · rfl
      · split <;> rfl

theorem progress' {q : Query} {s : Sys} (h : Inv q s) (hf : ¬ Finished s) :
    (cStep true s).isSome = true ∨ (pStep q s).isSome = true := by
  have hsh := h.shape
  generalize specState q s = it at hsh
  by_cases hc : s.c = .idle
  · left
    apply cStep_idle_isSome _ _ hc
    intro ht; exact hf ⟨hc, ht⟩
  · rcases s with ⟨todo, hist, out, c, env, closed, done, more, moreClosed, nextClosed, p, pos, work, perr⟩
    cases c <;> cases p <;> simp [Shape, Quiet] at hsh hc
    all_goals simp_all [cStep, pStep, recvMore, moreCap]
    split <;> rfl

theorem progress {q : Query} {s : Sys} (h : Inv q s) (hf : ¬ Finished s) : ∃ s', Step true q s s' := by
  rcases progress' h hf with h | h
  · obtain ⟨s', hs⟩ := Option.isSome_iff_exists.mp h
    exact ⟨s', Or.inl hs⟩
  · obtain ⟨s', hs⟩ := Option.isSome_iff_exists.mp h
    exact ⟨s', Or.inr hs⟩

/-! ### bookkeeping: completed calls ++ call in flight ++ calls to make = the program -/

def inflight (s : Sys) : List Op :=
  match s.c with
  | .nextSend | .nextRecv => [.next]
  | _ => []

def program (s : Sys) : List Op := s.hist ++ inflight s ++ s.todo

theorem program_cStep {q : Query} {s s' : Sys} (h : Inv q s) (hs : cStep true s = some s') :
    program s' = program s := by
  have hsh := h.shape
  generalize specState q s = it at hsh
  rcases s with ⟨todo, hist, out, c, env, closed, done, more, moreClosed, nextClosed, p, pos, work, perr⟩
  cases c <;> simp only [cStep] at hs
  all_goals cases p <;> simp [Shape, Quiet] at hsh
  all_goals (repeat' split at hs)
  all_goals simp at hs
  all_goals subst hs
  all_goals simp_all [program, inflight, Sys.ret]

theorem program_pStep {q : Query} {s s' : Sys} (hs : pStep q s = some s') :
    program s' = program s := by
  rcases s with ⟨todo, hist, out, c, env, closed, done, more, moreClosed, nextClosed, p, pos, work, perr⟩
  cases p <;> simp only [pStep, recvMore] at hs
  all_goals (repeat' split at hs)
  all_goals simp at hs
  all_goals subst hs
  all_goals simp [program, inflight]

theorem program_reach {q : Query} {todo : List Op} {s : Sys} (h : Reach true q todo s) :
    program s = todo := by
  induction h with
  | init => simp [program, inflight, init]
  | step hr hs ih =>
    rw [← ih]
    exact hs.elim (program_cStep (inv_reach hr)) program_pStep

theorem reach_of_run {fix : Bool} {q : Query} {todo : List Op} {n : Nat} {s : Sys}
    (h : Run fix q n (init todo) s) : Reach fix q todo s := by
  generalize hi : init todo = s0 at h
  induction h with
  | refl => subst hi; exact .init
  | step _ hs ih => exact .step (ih hi) hs

theorem reach_follow {fix : Bool} {q : Query} {todo : List Op} :
    ∀ (sched : List Bool) (s s' : Sys), Reach fix q todo s → follow fix q sched s = some s' →
      Reach fix q todo s'
  | [], s, s', hr, h => by simp [follow] at h; subst h; exact hr
  | true :: rest, s, s', hr, h => by
    simp only [follow, Option.bind_eq_some_iff] at h
    obtain ⟨s1, h1, h2⟩ := h
    exact reach_follow rest s1 s' (.step hr (Or.inl h1)) h2
  | false :: rest, s, s', hr, h => by
    simp only [follow, Option.bind_eq_some_iff] at h
    obtain ⟨s1, h1, h2⟩ := h
    exact reach_follow rest s1 s' (.step hr (Or.inr h1)) h2

/-! ### one call: it returns within 9 steps -/

theorem program_run {q : Query} {n : Nat} {s s' : Sys} (h : Inv q s) (hr : Run true q n s s') :
    program s' = program s := by
  induction hr with
  | refl => rfl
  | step hr' hs ih =>
    rw [← ih h]
    exact hs.elim (program_cStep (measure_run h hr').1) program_pStep

theorem pPot_idle_le {q : Query} {s : Sys} (h : Inv q s) (hc : s.c = .idle) : pPot s ≤ 2 := by
  have hsh := h.shape
  generalize specState q s = it at hsh
  rcases s with ⟨todo, hist, out, c, env, closed, done, more, moreClosed, nextClosed, p, pos, work, perr⟩
  simp only at hc
  subst hc
  cases p <;> simp [Shape, Quiet] at hsh <;> simp [pPot, hsh]
  all_goals split <;> omega

/-- a call that has not returned after `n` steps: `n ≤ 9` -/
theorem call_bound {q : Query} {s s' : Sys} {op : Op} {rest : List Op} {n : Nat} (h : Inv q s)
    (hc : s.c = .idle) (ht : s.todo = op :: rest) (hr : Run true q n s s')
    (hh : s'.hist.length = s.hist.length) : n ≤ 9 := by
  have hm := (measure_run h hr).2
  have hp := program_run h hr
  have hpp := pPot_idle_le h hc
  have hms : measure s = 8 * (rest.length + 1) + pPot s := by simp [measure, cPot, hc, ht]
  simp only [program, ht] at hp
  have hin : inflight s = [] := by simp [inflight, hc]
  rw [hin] at hp
  simp only [List.append_nil] at hp
  -- equal-length prefixes of the same list are equal
  have hhist : s'.hist = s.hist := by
    have h1 := congrArg (List.take s.hist.length) hp
    simp only [List.append_assoc] at h1
    rw [List.take_left' hh, List.take_left' rfl] at h1
    exact h1
  rw [hhist, List.append_assoc] at hp
  have hrest := List.append_cancel_left hp
  cases hcs : s'.c with
  | idle =>
    simp [inflight, hcs] at hrest
    have : measure s' ≥ 8 * (rest.length + 1) := by simp [measure, hrest]; omega
    omega
  | crashed =>
    have hsh := (measure_run h hr).1.shape
    generalize specState q s' = it at hsh
    simp [Shape, hcs] at hsh
  | nextSend =>
    simp [inflight, hcs] at hrest
    have : measure s' ≥ 8 * rest.length + 1 := by simp [measure, cPot, hcs, hrest]; omega
    omega
  | nextRecv =>
    simp [inflight, hcs] at hrest
    have : measure s' ≥ 8 * rest.length + 1 := by simp [measure, cPot, hcs, hrest]
    omega


/-! ### between two calls the producer does not write `sols.err` -/

/-- runs in which only the producer moves (the consumer goroutine is busy elsewhere, e.g. reading a field) -/
inductive PRun (q : Query) : Sys → Sys → Prop where
  | refl (s) : PRun q s s
  | step {s s' s''} : PRun q s s' → pStep q s' = some s'' → PRun q s s''

/-- the producer is parked or on its way out, and nothing is buffered for it -/
def Harmless (s : Sys) : Prop :=
  s.more = 0 ∧ (s.p = .await0 ∨ s.p = .awaitMore ∨ s.p = .exiting ∨ s.p = .exited)

theorem harmless_idle {q : Query} {s : Sys} (h : Inv q s) (hc : s.c = .idle) : Harmless s := by
  have hsh := h.shape
  generalize specState q s = it at hsh
  rcases s with ⟨todo, hist, out, c, env, closed, done, more, moreClosed, nextClosed, p, pos, work, perr⟩
  simp only at hc
  subst hc
  cases p <;> simp [Shape, Quiet] at hsh <;> simp [Harmless, hsh]

theorem harmless_pStep {q : Query} {s s' : Sys} (h : Harmless s) (hs : pStep q s = some s') :
    Harmless s' ∧ s'.perr = s.perr ∧ s'.env = s.env := by
  rcases s with ⟨todo, hist, out, c, env, closed, done, more, moreClosed, nextClosed, p, pos, work, perr⟩
  obtain ⟨hm, hp⟩ := h
  simp only at hm hp
  subst hm
  rcases hp with rfl | rfl | rfl | rfl <;> simp [pStep, recvMore] at hs
  all_goals (try (obtain ⟨_, rfl⟩ := hs)) <;> (try subst hs) <;> simp [Harmless]

theorem harmless_prun {q : Query} {s s' : Sys} (h : Harmless s) (hr : PRun q s s') :
    Harmless s' ∧ s'.perr = s.perr ∧ s'.env = s.env := by
  induction hr with
  | refl => exact ⟨h, rfl, rfl⟩
  | step _ hs ih =>
    obtain ⟨h1, h2, h3⟩ := ih
    obtain ⟨g1, g2, g3⟩ := harmless_pStep h1 hs
    exact ⟨g1, g2.trans h2, g3.trans h3⟩


end PrologVerif.Solutions
