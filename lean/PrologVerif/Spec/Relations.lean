/-
  Specification for C16: the mathematically defined relations behind the relational built-ins,
  independent of `Model/Rel.lean`.

  * value level: relations on texts (`List Char`, positions and lengths in code points), integers
    and lists, written as in the ISO standard / the Prologue;
  * tuple level (`…T : List Term → Prop`): the same relations on the argument tuples of a call,
    decidable, used both by the theorems of Properties/C16 and by the driver's oracle;
  * `modeErrors`: the ISO error table — for a call outside the predicate's modes the errors that
    the standard allows (a call is inside the modes iff the list is empty).
-/
import PrologVerif.Model.Errors
namespace PrologVerif.Relations
open PrologVerif

/-! ## value level -/

/-- atom_concat/3 -/
def concat (a b c : List Char) : Prop := a ++ b = c

/-- sub_atom/5: `s` occurs in `w` with `b` characters before it and `a` characters after it -/
def subAtom (w : List Char) (b l a : Nat) (s : List Char) : Prop :=
  ∃ pre post, w = pre ++ s ++ post ∧ pre.length = b ∧ s.length = l ∧ post.length = a

/-- between/3 -/
def between (l h x : Int) : Prop := l ≤ x ∧ x ≤ h

/-- succ/2 on the non-negative integers -/
def succ (x s : Int) : Prop := 0 ≤ x ∧ s = x + 1

/-- nth0/3 (`base = 0`), nth1/3 (`base = 1`) -/
def nth {α} (base n : Int) (l : List α) (e : α) : Prop := base ≤ n ∧ l[(n - base).toNat]? = some e

/-- append/3 -/
def append {α} (x y z : List α) : Prop := x ++ y = z

/-- select/3: `r` is `l` with one occurrence of `e` removed -/
def select {α} (e : α) (l r : List α) : Prop := ∃ i : Nat, i < l.length ∧ l[i]? = some e ∧ r = l.eraseIdx i

/-- atom_chars/2, atom_codes/2, char_code/2 -/
def atomChars (a : List Char) (cs : List (List Char)) : Prop := cs = a.map fun c => [c]
def atomCodes (a : List Char) (cs : List Int) : Prop := cs = a.map fun c => Int.ofNat c.toNat
def charCode : List Char → Int → Prop
  | [ch], n => n = Int.ofNat ch.toNat
  | _, _ => False

theorem subAtom_iff (w : List Char) (b l a : Nat) (s : List Char) :
    subAtom w b l a s ↔ w.length = b + l + a ∧ s = (w.drop b).take l := by
  constructor
  · rintro ⟨pre, post, rfl, rfl, rfl, rfl⟩
    refine ⟨by simp [List.length_append]; omega, ?_⟩
    simp [List.append_assoc]
  · rintro ⟨hlen, rfl⟩
    refine ⟨w.take b, (w.drop b).drop l, ?_, ?_, ?_, ?_⟩
    · rw [List.append_assoc, List.take_append_drop, List.take_append_drop]
    · simp; omega
    · simp; omega
    · simp; omega

instance (w : List Char) (b l a : Nat) (s : List Char) : Decidable (subAtom w b l a s) :=
  decidable_of_iff _ (subAtom_iff w b l a s).symm

/-! ## terms as values -/

def isVar : Term → Bool
  | .var _ => true
  | _ => false

def isAtom : Term → Bool
  | .atom _ => true
  | _ => false

def isInt : Term → Bool
  | .int _ => true
  | _ => false

def isCompound : Term → Bool
  | .app _ _ => true
  | _ => false

/-- atomic = neither a variable nor a compound -/
def isAtomic (t : Term) : Bool := !isVar t && !isCompound t

def isCallableAtomOrVar (t : Term) : Bool := isVar t || isAtom t

/-- elements of a proper list -/
def asList (t : Term) : Option (List Term) :=
  if t.spine.2 = Term.nilT then some t.spine.1 else none

def textOf : Term → Option (List Char)
  | .atom s => some s.toList
  | _ => none

def textsOf : List Term → Option (List (List Char))
  | [] => some []
  | t :: ts => match textOf t, textsOf ts with
    | some c, some cs => some (c :: cs)
    | _, _ => none

def intsOf : List Term → Option (List Int)
  | [] => some []
  | .int i :: ts => (intsOf ts).map (i :: ·)
  | _ :: _ => none

/-! ## tuple level -/

def atomLengthT : List Term → Prop
  | [.atom a, .int n] => n = Int.ofNat a.toList.length
  | _ => False

def atomConcatT : List Term → Prop
  | [.atom a, .atom b, .atom c] => concat a.toList b.toList c.toList
  | _ => False

def subAtomT : List Term → Prop
  | [.atom w, .int b, .int l, .int a, .atom s] =>
    0 ≤ b ∧ 0 ≤ l ∧ 0 ≤ a ∧ subAtom w.toList b.toNat l.toNat a.toNat s.toList
  | _ => False

def atomCharsT : List Term → Prop
  | [.atom a, l] =>
    match asList l with
    | some es => match textsOf es with
      | some cs => atomChars a.toList cs
      | none => False
    | none => False
  | _ => False

def atomCodesT : List Term → Prop
  | [.atom a, l] =>
    match asList l with
    | some es => match intsOf es with
      | some cs => atomCodes a.toList cs
      | none => False
    | none => False
  | _ => False

def charCodeT : List Term → Prop
  | [.atom c, .int n] => charCode c.toList n
  | _ => False

def betweenT : List Term → Prop
  | [.int l, .int h, .int x] => between l h x
  | _ => False

def succT : List Term → Prop
  | [.int x, .int s] => succ x s
  | _ => False

/-- functor/3 (a compound term has at least one argument) -/
def functorT : List Term → Prop
  | [.app f as, name, arity] => 0 < as.length ∧ name = .atom f ∧ arity = .int (Int.ofNat as.length)
  | [t, name, arity] => isAtomic t = true ∧ name = t ∧ arity = .int 0
  | _ => False

/-- arg/3 -/
def argT : List Term → Prop
  | [.int n, .app _ as, a] => 1 ≤ n ∧ as.toList[(n - 1).toNat]? = some a
  | _ => False

/-- =../2 (a compound term has at least one argument) -/
def univT : List Term → Prop
  | [.app f as, l] => 0 < as.length ∧ l = Term.list (.atom f :: as.toList)
  | [t, l] => isAtomic t = true ∧ l = Term.list [t]
  | _ => False

/-- nth0/3, nth1/3 (the list may be partial beyond the element, as in the library definition) -/
def nthT (base : Int) : List Term → Prop
  | [.int n, l, e] => nth base n l.spine.1 e
  | _ => False

/-- length/2 -/
def lengthT : List Term → Prop
  | [l, .int n] =>
    match asList l with
    | some es => n = Int.ofNat es.length
    | none => False
  | _ => False

/-- append/3: `append([], L, L). append([X|L1], L2, [X|L3]) :- append(L1, L2, L3).` — the first
    argument is a list, the third is the second with that list in front (the second argument need
    not be a list) -/
def appendT : List Term → Prop
  | [x, y, z] =>
    match asList x with
    | some xs => z = Term.list xs y
    | none => False
  | _ => False

/-- member/2 (true whatever follows the element) -/
def memberT : List Term → Prop
  | [x, l] => x ∈ l.spine.1
  | _ => False

/-- select/3 -/
def selectT : List Term → Prop
  | [e, l, r] => ∃ i : Nat, i < l.spine.1.length ∧ l.spine.1[i]? = some e ∧
      r = Term.list (l.spine.1.eraseIdx i) l.spine.2
  | _ => False

/-! decidability (the driver's oracle evaluates these relations) -/

instance : DecidablePred atomLengthT := fun t => by unfold atomLengthT; split <;> infer_instance
instance : DecidablePred atomConcatT := fun t => by unfold atomConcatT concat; split <;> infer_instance
instance : DecidablePred subAtomT := fun t => by unfold subAtomT; split <;> infer_instance
instance : DecidablePred atomCharsT := fun t => by
  unfold atomCharsT atomChars; split <;> (try split) <;> (try split) <;> infer_instance
instance : DecidablePred atomCodesT := fun t => by
  unfold atomCodesT atomCodes; split <;> (try split) <;> (try split) <;> infer_instance
instance (c : List Char) (n : Int) : Decidable (charCode c n) := by unfold charCode; split <;> infer_instance
instance : DecidablePred charCodeT := fun t => by unfold charCodeT; split <;> infer_instance
instance : DecidablePred betweenT := fun t => by unfold betweenT between; split <;> infer_instance
instance : DecidablePred succT := fun t => by unfold succT succ; split <;> infer_instance
instance : DecidablePred functorT := fun t => by unfold functorT; split <;> infer_instance
instance : DecidablePred argT := fun t => by unfold argT; split <;> infer_instance
instance : DecidablePred univT := fun t => by unfold univT; split <;> infer_instance
instance (b : Int) : DecidablePred (nthT b) := fun t => by unfold nthT nth; split <;> infer_instance
instance : DecidablePred lengthT := fun t => by unfold lengthT; split <;> (try split) <;> infer_instance
instance : DecidablePred appendT := fun t => by unfold appendT; split <;> (try split) <;> infer_instance
instance : DecidablePred memberT := fun t => by unfold memberT; split <;> infer_instance
instance : DecidablePred selectT := fun t => by unfold selectT; split <;> infer_instance

/-- the relation of a predicate, by name (`none`: not one of the 17) -/
def holds (pred : String) (t : List Term) : Option Bool :=
  match pred with
  | "atom_length" => some (decide (atomLengthT t))
  | "atom_concat" => some (decide (atomConcatT t))
  | "sub_atom" => some (decide (subAtomT t))
  | "atom_chars" => some (decide (atomCharsT t))
  | "atom_codes" => some (decide (atomCodesT t))
  | "char_code" => some (decide (charCodeT t))
  | "between" => some (decide (betweenT t))
  | "succ" => some (decide (succT t))
  | "functor" => some (decide (functorT t))
  | "arg" => some (decide (argT t))
  | "univ" => some (decide (univT t))
  | "nth0" => some (decide (nthT 0 t))
  | "nth1" => some (decide (nthT 1 t))
  | "length" => some (decide (lengthT t))
  | "append" => some (decide (appendT t))
  | "member" => some (decide (memberT t))
  | "select" => some (decide (selectT t))
  | _ => none

/-! ## the ISO error table

  `modeErrors pred args` lists every error the standard (or the Prologue, for the list predicates)
  prescribes for the call; several may apply, the processor may raise any of them.  The call is
  inside the modes iff the list is empty.  Representation limits of the 64-bit / finite-memory
  processor (succ/2 at max_integer, lists and terms too large to allocate, length(L,L)) and errors
  that a processor may but need not raise (an improper list behind the requested element of nth0/3)
  are listed separately in `optionalErrors`.
-/

def notLessThanZero (t : Term) : List Term :=
  match t with
  | .var _ => []
  | .int i => if i < 0 then [domainErr "not_less_than_zero" t] else []
  | _ => [typeErr "integer" t]

def mustBeAtomOrVar (t : Term) : List Term :=
  if isCallableAtomOrVar t then [] else [typeErr "atom" t]

def mustBeIntOrVar (t : Term) : List Term :=
  if isVar t || isInt t then [] else [typeErr "integer" t]

/-- errors of a list argument that has to be a proper list (`partialOk`: or a partial list) -/
def listErrors (partialOk : Bool) (l : Term) : List Term :=
  match l.spine.2 with
  | .var _ => if partialOk then [] else [instErr]
  | .atom a => if a = "[]" then [] else [typeErr "list" l]
  | _ => [typeErr "list" l]

def charElemErrors (strict : Bool) (es : List Term) : List Term :=
  es.flatMap fun e =>
    match e with
    | .var _ => if strict then [instErr] else []
    | .atom s => if s.toList.length = 1 then [] else [typeErr "character" e]
    | _ => [typeErr "character" e]

def isCharCode (i : Int) : Bool := 0 ≤ i && i.toNat.isValidChar

def codeElemErrors (strict : Bool) (es : List Term) : List Term :=
  es.flatMap fun e =>
    match e with
    | .var _ => if strict then [instErr] else []
    | .int i => if isCharCode i then [] else [representationErr "character_code"]
    | _ => [typeErr "integer" e]

def modeErrors (pred : String) (args : List Term) : List Term :=
  match pred, args with
  | "atom_length", [a, l] =>
    (if isVar a then [instErr] else mustBeAtomOrVar a) ++ notLessThanZero l
  | "atom_concat", [a, b, c] =>
    (if isVar c ∧ (isVar a ∨ isVar b) then [instErr] else []) ++
      mustBeAtomOrVar a ++ mustBeAtomOrVar b ++ mustBeAtomOrVar c
  | "sub_atom", [w, b, l, a, s] =>
    (if isVar w then [instErr] else mustBeAtomOrVar w) ++ notLessThanZero b ++ notLessThanZero l ++
      notLessThanZero a ++ mustBeAtomOrVar s
  | "atom_chars", [a, l] =>
    if isVar a then listErrors false l ++ charElemErrors true l.spine.1
    else mustBeAtomOrVar a ++ listErrors true l ++ charElemErrors false l.spine.1
  | "atom_codes", [a, l] =>
    if isVar a then listErrors false l ++ codeElemErrors true l.spine.1
    else mustBeAtomOrVar a ++ listErrors true l ++ codeElemErrors false l.spine.1
  | "char_code", [c, n] =>
    (if isVar c ∧ isVar n then [instErr] else []) ++
      (match c with
        | .var _ => []
        | .atom s => if s.toList.length = 1 then [] else [typeErr "character" c]
        | _ => [typeErr "character" c]) ++
      (match n with
        | .var _ => []
        | .int i => if isVar c ∧ !isCharCode i then [representationErr "character_code"] else []
        | _ => [typeErr "integer" n])
  | "between", [l, h, x] =>
    (if isVar l ∨ isVar h then [instErr] else []) ++ mustBeIntOrVar l ++ mustBeIntOrVar h ++ mustBeIntOrVar x
  | "succ", [x, s] =>
    (if isVar x ∧ isVar s then [instErr] else []) ++ notLessThanZero x ++ notLessThanZero s
  | "functor", [t, n, a] =>
    if isVar t then
      (if isVar n ∨ isVar a then [instErr] else []) ++ mustBeIntOrVar a ++
        (match a with | .int i => if i < 0 then [domainErr "not_less_than_zero" a] else [] | _ => []) ++
        (if isCompound n then [typeErr "atomic" n] else []) ++
        (match a with | .int i => if i > 0 ∧ isAtomic n ∧ !isAtom n then [typeErr "atom" n] else [] | _ => [])
    else []
  | "arg", [n, t, _] =>
    (if isVar n ∨ isVar t then [instErr] else []) ++ notLessThanZero n ++
      (if isVar t || isCompound t then [] else [typeErr "compound" t])
  | "univ", [t, l] =>
    if isVar t then
      listErrors false l ++
        (match l.spine.1, l.spine.2 with
          | [], .atom "[]" => [domainErr "non_empty_list" l]
          | [h], .atom "[]" => if isVar h then [instErr] else if isCompound h then [typeErr "atomic" h] else []
          | h :: _ :: _, .atom "[]" =>
            if isVar h then [instErr] else if isAtom h then [] else [typeErr "atom" h]
          | h :: _, .var _ => if isVar h then [] else if isCompound h then [typeErr "atomic" h, typeErr "atom" h] else
              if isAtom h then [] else [typeErr "atom" h]
          | _, _ => [])
    else listErrors true l
  | "nth0", [n, l, _] | "nth1", [n, l, _] => mustBeIntOrVar n ++ (if isVar n then listErrors false l else [])
  | "length", [_, n] => notLessThanZero n
  | _, _ => []

/-- errors caused by the limits of the processor rather than by the call's modes, and errors the
    processor may raise but need not -/
def optionalErrors (pred : String) (args : List Term) : List Term :=
  match pred, args with
  | "nth0", [.int _, l, _] | "nth1", [.int _, l, _] => listErrors false l
  | "succ", [.int x, _] => if x = 9223372036854775807 then [evaluationErr "int_overflow"] else []
  | "functor", [.var _, _, .int n] => if n > 1048576 then [resourceErr "memory"] else []
  | "length", [l, .int n] =>
    match l.spine.2 with
    | .var _ => if n - Int.ofNat l.spine.1.length > 1048576 then [resourceErr "memory"] else []
    | _ => []
  | "length", [l, .var n] => if l.spine.2 = .var n then [resourceErr "finite_memory"] else []
  | _, _ => []

end PrologVerif.Relations
