package main

// C05: (1) the HOST-side API surface, exercised on every outcome of c05.matrix / c05.text —
// what an embedding program does with an error or an answer: err.Error(), fmt verbs, Exception.Term()
// written with the public writers, Scan into TermString — in the host goroutine, where no recover()
// of the engine protects the caller (a panic there is "crashes the host"); here it runs under the
// harness's recover and is reported as `panic-host …`.  (2) the edge atoms and the positions they are put in.

import (
	"bytes"
	"context"
	"errors"
	"fmt"
	"strings"
	"time"

	"github.com/ichiban/prolog"
	"github.com/ichiban/prolog/engine"
)

// hostDo runs f as the host would (no engine frame around it) and reports a Go panic.
func hostDo(what string, f func()) (out string) {
	defer func() {
		if r := recover(); r != nil {
			out = "panic-host " + what + ": " + encName(fmt.Sprint(r))
		}
	}()
	f()
	return ""
}

// hostReturns: f must come back (within 2 s — the calls it makes do no work); a call that blocks wedges the host.
func hostReturns(what string, f func()) string {
	done := make(chan string, 1)
	go func() { done <- hostDo(what, f) }()
	select {
	case r := <-done:
		return r
	case <-time.After(2 * time.Second):
		return "wedged-host " + what
	}
}

// hostRenderErr: everything a caller may do with the error value it got back.
func hostRenderErr(err error) string {
	if err == nil {
		return ""
	}
	steps := []struct {
		what string
		f    func()
	}{
		{"err.Error()", func() { _ = err.Error() }},
		{"fmt.Sprintf(%v,err)", func() { _ = fmt.Sprintf("%v", err) }},
		{"fmt.Sprintf(%s,err)", func() { _ = fmt.Sprintf("%s", err) }},
		{"fmt.Sprintf(%+v,err)", func() { _ = fmt.Sprintf("%+v", err) }},
		{"fmt.Sprintf(%q,err)", func() { _ = fmt.Sprintf("%q", err) }},
	}
	for _, s := range steps {
		if r := hostDo(s.what, s.f); r != "" {
			return r
		}
	}
	return ""
}

// hostRenderTerm: a term (the term of an Exception, or the goal as an answer instantiates it) rendered by the
// public writers in the host goroutine: TermString.Scan (= engine.WriteTerm forced by the caller) and
// Term.WriteTerm with the zero options.
func hostRenderTerm(vm *engine.VM, t engine.Term, env *engine.Env) string {
	if r := hostDo("TermString.Scan", func() {
		var ts prolog.TermString
		_ = ts.Scan(vm, t, env)
	}); r != "" {
		return r
	}
	if r := hostDo("Term.WriteTerm", func() {
		var buf bytes.Buffer
		_ = env.Resolve(t).WriteTerm(&buf, &engine.WriteOptions{}, env)
	}); r != "" {
		return r
	}
	return hostDo("fmt.Sprintf(%v,term)", func() { _ = fmt.Sprintf("%v", env.Resolve(t)) })
}

var c05WriteGoals = []func(t engine.Term) engine.Term{
	func(t engine.Term) engine.Term { return compound("write", t) },
	func(t engine.Term) engine.Term { return compound("writeq", t) },
	func(t engine.Term) engine.Term { return compound("write_canonical", t) },
	func(t engine.Term) engine.Term {
		return compound("write_term", t, engine.List(compound("quoted", atom("false")), compound("ignore_ops", atom("false")), compound("numbervars", atom("true"))))
	},
	func(t engine.Term) engine.Term {
		return compound("write_term", t, engine.List(compound("max_depth", engine.Integer(3))))
	},
}

// prologRenderTerm: the same term written from inside Prolog (write, writeq, write_canonical, write_term with
// options) to a scratch stream; a failure of the writer is reported like any other outcome (`panic …` is the
// residue of a recovered Go panic).
func prologRenderTerm(vm *engine.VM, t engine.Term, env *engine.Env) string {
	for k, mk := range c05WriteGoals {
		var sb strings.Builder
		s := engine.NewOutputTextStream(&sb)
		g := mk(t)
		c := g.(engine.Compound)
		// write*(S, T …) on the scratch stream
		args := []engine.Term{s}
		for j := 0; j < c.Arity(); j++ {
			args = append(args, c.Arg(j))
		}
		g = c.Functor().Apply(args...)
		ctx, cancel := context.WithTimeout(context.Background(), 2*time.Second)
		ok, err := engine.Call(vm, g, engine.Success, env).Force(ctx)
		cancel()
		switch {
		case err != nil:
			return fmt.Sprintf("writer%d %s", k, c05Result(false, err))
		case !ok:
			return fmt.Sprintf("writer%d false", k)
		}
	}
	return ""
}

func asException(err error, ex *engine.Exception) bool { return errors.As(err, ex) }

// hostSurface: the error of a call (if any) and one term, through all of the above.  "ok" or the first problem.
// termWithin: does the term have at most `budget` nodes?  (The writer is quadratic in the nesting depth — for
// write_canonical also in the length of a list — so an answer such as length([a|_], 1114112) is not rendered:
// slow, but the property does not bound time.)
func termWithin(t engine.Term, env *engine.Env, budget *int) bool {
	*budget--
	if *budget < 0 {
		return false
	}
	if c, ok := env.Resolve(t).(engine.Compound); ok {
		for i := 0; i < c.Arity(); i++ {
			if !termWithin(c.Arg(i), env, budget) {
				return false
			}
		}
	}
	return true
}

const hostTermBudget = 3000

func hostSurface(vm *engine.VM, err error, t engine.Term, env *engine.Env) string {
	var ex engine.Exception
	isEx := err != nil && asException(err, &ex)
	if isEx {
		if b := hostTermBudget; !termWithin(ex.Term(), nil, &b) {
			isEx = false // only the error value itself, not its term through the writers
		}
	}
	if t != nil {
		if b := hostTermBudget; !termWithin(t, env, &b) {
			t = nil
		}
	}
	if err != nil {
		key := "goerr " + fmt.Sprintf("%T", err)
		if isEx {
			key = "ex " + wire(ex.Term(), nil, newVarNamer())
		}
		r, ok := hostSeen[key]
		if !ok {
			r = hostRenderErr(err)
			if r == "" && isEx {
				if r = hostRenderTerm(vm, ex.Term(), nil); r == "" {
					r = prologRenderTerm(vm, ex.Term(), nil)
				}
				if r != "" {
					r += " (term of the exception)"
				}
			}
			hostSeen[key] = r
		}
		if r != "" {
			return r
		}
	}
	if t != nil {
		key := "t " + wire(t, env, newVarNamer())
		r, ok := hostSeen[key]
		if !ok {
			if r = hostRenderTerm(vm, t, env); r == "" {
				if r = prologRenderTerm(vm, t, env); r == "" {
					r = prologTraverse(vm, t, env)
				}
			}
			hostSeen[key] = r
		}
		if r != "" {
			return r
		}
	}
	return "ok"
}

// the same error terms and answers come back thousands of times: each distinct one (by its text in the
// line protocol) goes through the surface once per worker process
var hostSeen = map[string]string{}

// ---------------------------------------------------------------------------
// edge atoms × positions
// ---------------------------------------------------------------------------

type c05EdgeAtom struct{ name, text string }

var c05EdgeAtoms = []c05EdgeAtom{
	{"empty", ""}, {"plus", "+"}, {"minus", "-"}, {"bslash", "\\"}, {"dot", "."}, {"curly", "{}"}, {"cut", "!"},
	{"semi", ";"}, {"comma", ","}, {"bar", "|"}, {"mod", "mod"}, {"naf", "\\+"}, {"neck", ":-"}, {"space", "hello world"},
	{"upper", "A"}, {"uni", "é"}, {"quote", "don't"}, {"nl", "a\nb"}, {"long", strings.Repeat("ab", 300)}, // 600 characters: sub_atom/5 with everything unbound builds n*n/2 alternatives at once
}

// the positions an edge atom A is put in: as the argument itself, as a functor, in a predicate indicator,
// as the left / right operand of a graphic infix operator, as the operand of a prefix operator, in a list,
// and as operator (functor) applied in operator notation to ordinary operands
var c05EdgeKinds = []struct {
	name string
	mk   func(a engine.Term, text string) engine.Term
}{
	{"bare", func(a engine.Term, _ string) engine.Term { return a }},
	{"fun", func(_ engine.Term, text string) engine.Term { return compound(text, atom("x")) }},
	{"pi", func(a engine.Term, _ string) engine.Term { return compound("/", a, engine.Integer(0)) }},
	{"inl", func(a engine.Term, _ string) engine.Term { return compound("+", a, engine.Integer(1)) }},
	{"inr", func(a engine.Term, _ string) engine.Term { return compound("=", atom("a"), a) }},
	{"pre", func(a engine.Term, _ string) engine.Term { return compound("-", a) }},
	{"lst", func(a engine.Term, _ string) engine.Term { return engine.List(a) }},
	{"op2", func(_ engine.Term, text string) engine.Term { return compound(text, atom("a"), engine.Integer(1)) }},
}

var c05EdgeShapeNames []string

// evaluable expressions over the boundary integers (exact results are C07's subject; here: the call returns,
// with a number or an evaluation/type error, never a wedge or a panic) — shapes x.0 … x.N, parsed by the real reader
var c05Exprs = []string{
	"9223372036854775807 + 1", "-9223372036854775808 - 1", "9223372036854775807 * 9223372036854775807", "-9223372036854775808 // -1",
	"-9223372036854775808 mod -1", "-9223372036854775808 rem -1", "-9223372036854775808 div -1", "abs(-9223372036854775808)",
	"- (-9223372036854775808)", "sign(-9223372036854775808)", "2 ** 9223372036854775807", "2 ^ 9223372036854775807",
	"2 ^ -9223372036854775808", "1 ^ -9223372036854775808", "-1 ^ 9223372036854775807", "0 ^ -1", "2 ^ -1", "2 ** -1", "0 ** 0", "0.0 ** -1",
	"1 << 9223372036854775807", "1 >> 9223372036854775807", "1 << -9223372036854775808", "-1 >> 64", "1 << 63", "1 << 64",
	"2.0 ** 9223372036854775807", "truncate(1.0e300)", "ceiling(-1.0e300)", "round(9.3e18)", "float_integer_part(1.0e300)", "float(9223372036854775807)",
	"9223372036854775807 / 0", "1 / 0.0", "0 / 0", "9223372036854775807 / -1", "-9223372036854775808 / -1", "max(9223372036854775807, 9.3e18)",
	"min(-9223372036854775808, -9.3e18)", "\\ 9223372036854775807", "xor(9223372036854775807, -9223372036854775808)", "9223372036854775807 /\\ -1",
	"atan2(0, 0)", "log(0)", "sqrt(-1)", "acos(2)", "exp(1000)", "sin(1.0e308)", "pi", "foo", "'' + 1", "- ''", "[1]", "\"a\"", "1 + a", "X + 1",
}

func init() {
	for k, e := range c05Exprs {
		e := e
		name := "x." + fmt.Sprint(k)
		c05ExprShapeNames = append(c05ExprShapeNames, name)
		c05ShapeIdxLate = append(c05ShapeIdxLate, c05Shape{name, func(c *c05Ctx) engine.Term {
			t, err := engine.NewParser(&c.i.VM, strings.NewReader(e+" .")).Term()
			if err != nil {
				panic("c05Exprs: " + e + ": " + err.Error())
			}
			return t
		}})
	}
}

var c05ExprShapeNames []string
var c05ShapeIdxLate []c05Shape

// integers at the limits of a character code / a byte, among them values whose LOW 32 (8) bits are a valid
// code (byte): a conversion that truncates before (or instead of) the range check lets them through
var c05CodeInts = []struct {
	name string
	v    int64
}{
	{"c.wrap", 1<<32 + 'a'}, {"c.wrapneg", -(1 << 32) + 'a'}, {"c.wrap2", 1<<40 + 0x1F600}, {"c.surr", 0xD800},
	{"c.max", 0x10FFFF}, {"c.byte", 256 + 'a'}, {"c.i32", 1<<31 + 'a'},
}
var c05CodeShapeNames []string

func init() {
	for _, ci := range c05CodeInts {
		ci := ci
		c05CodeShapeNames = append(c05CodeShapeNames, ci.name, ci.name+".l")
		c05ShapeIdxLate = append(c05ShapeIdxLate,
			c05Shape{ci.name, func(*c05Ctx) engine.Term { return engine.Integer(ci.v) }},
			c05Shape{ci.name + ".l", func(*c05Ctx) engine.Term { return engine.List(engine.Integer(ci.v)) }})
	}
}

// c05CodeRows: every code shape in every argument position of every procedure of arity 1..5, the other
// arguments unbound / an output stream. Complete and seed-independent in both tiers.
func c05CodeRows() []string {
	v, so := c05ShapeIdx["var"], c05ShapeIdx["sout"]
	var out []string
	for _, p := range c05Procs() {
		if c05Excluded(p) || p.arity == 0 || p.arity > 5 {
			continue
		}
		for pos := 0; pos < p.arity; pos++ {
			for _, n := range c05CodeShapeNames {
				for _, other := range []int{v, so} {
					if other == so && p.arity == 1 {
						continue
					}
					vec := make([]int, p.arity)
					for k := range vec {
						vec[k] = other
					}
					vec[pos] = c05ShapeIdx[n]
					out = append(out, c05Case(p, vec))
				}
			}
		}
	}
	return out
}

// c05BaseCount: the shapes of c05.go (the cross-product matrix runs over these only)
var c05BaseCount int

func init() {
	c05BaseCount = len(c05Shapes)
	for _, ea := range c05EdgeAtoms {
		for _, k := range c05EdgeKinds {
			ea, k := ea, k
			name := "e." + ea.name + "." + k.name
			c05EdgeShapeNames = append(c05EdgeShapeNames, name)
			c05ShapeIdx[name] = len(c05Shapes)
			c05Shapes = append(c05Shapes, c05Shape{name, func(*c05Ctx) engine.Term { return k.mk(atom(ea.text), ea.text) }})
		}
	}
	for _, sh := range c05ShapeIdxLate {
		c05ShapeIdx[sh.name] = len(c05Shapes)
		c05Shapes = append(c05Shapes, sh)
	}
}

// ---------------------------------------------------------------------------
// representation shapes: ordinary abstract terms whose Go representation differs from the reader's, because a
// variable inside them is bound by an EARLIER goal of the same conjunction (a `partial` whose tail is a bound
// variable, a list element / functor argument that is a bound variable, chains of bindings …)
// ---------------------------------------------------------------------------

func c05Bind(c *c05Ctx, v engine.Term, t engine.Term) { c.prelude = append(c.prelude, compound("=", v, t)) }

var c05BoundShapes = []c05Shape{
	{"b.tail", func(c *c05Ctx) engine.Term { // T = [b], [a|T]
		t := engine.NewVariable()
		c05Bind(c, t, engine.List(atom("b")))
		return engine.PartialList(t, atom("a"))
	}},
	{"b.nil", func(c *c05Ctx) engine.Term { // T = [], [a|T]
		t := engine.NewVariable()
		c05Bind(c, t, atom("[]"))
		return engine.PartialList(t, atom("a"))
	}},
	{"b.elem", func(c *c05Ctx) engine.Term { // E = b, [a,E,c]
		e := engine.NewVariable()
		c05Bind(c, e, atom("b"))
		return engine.List(atom("a"), e, atom("c"))
	}},
	{"b.farg", func(c *c05Ctx) engine.Term { // V = g(x), f(V)
		v := engine.NewVariable()
		c05Bind(c, v, compound("g", atom("x")))
		return compound("f", v)
	}},
	{"b.chain", func(c *c05Ctx) engine.Term { // T1 = [b|T2], T2 = [c], [a|T1]
		t1, t2 := engine.NewVariable(), engine.NewVariable()
		c05Bind(c, t1, engine.PartialList(t2, atom("b")))
		c05Bind(c, t2, engine.List(atom("c")))
		return engine.PartialList(t1, atom("a"))
	}},
	{"b.alias", func(c *c05Ctx) engine.Term { // T = U, U = [b], [a|T]
		t, u := engine.NewVariable(), engine.NewVariable()
		c05Bind(c, t, u)
		c05Bind(c, u, engine.List(atom("b")))
		return engine.PartialList(t, atom("a"))
	}},
	{"b.str", func(c *c05Ctx) engine.Term { // T = "bc" (chars), [a|T]
		t := engine.NewVariable()
		c05Bind(c, t, engine.CharList("bc"))
		return engine.PartialList(t, atom("a"))
	}},
	{"b.codes", func(c *c05Ctx) engine.Term { // T = "bc" (codes), [0'a|T]
		t := engine.NewVariable()
		c05Bind(c, t, engine.CodeList("bc"))
		return engine.PartialList(t, engine.Integer('a'))
	}},
	{"b.part", func(c *c05Ctx) engine.Term { // T = [b|_], [a|T]
		t := engine.NewVariable()
		c05Bind(c, t, engine.PartialList(engine.NewVariable(), atom("b")))
		return engine.PartialList(t, atom("a"))
	}},
	{"b.app", func(c *c05Ctx) engine.Term { // append("b", [c], T), [a|T]
		t := engine.NewVariable()
		c.prelude = append(c.prelude, compound("append", engine.CharList("b"), engine.List(atom("c")), t))
		return engine.PartialList(t, atom("a"))
	}},
	{"b.nest", func(c *c05Ctx) engine.Term { // T = [b], f([a|T], [T])
		t := engine.NewVariable()
		c05Bind(c, t, engine.List(atom("b")))
		return compound("f", engine.PartialList(t, atom("a")), engine.List(t))
	}},
	{"b.pairs", func(c *c05Ctx) engine.Term { // V = 1, T = [b-2], [a-V|T]
		v, t := engine.NewVariable(), engine.NewVariable()
		c05Bind(c, v, engine.Integer(1))
		c05Bind(c, t, engine.List(compound("-", atom("b"), engine.Integer(2))))
		return engine.PartialList(t, compound("-", atom("a"), v))
	}},
	{"b.ints", func(c *c05Ctx) engine.Term { // T = [2], [1|T]
		t := engine.NewVariable()
		c05Bind(c, t, engine.List(engine.Integer(2)))
		return engine.PartialList(t, engine.Integer(1))
	}},
	{"b.whole", func(c *c05Ctx) engine.Term { // V = [a,b], V
		v := engine.NewVariable()
		c05Bind(c, v, engine.List(atom("a"), atom("b")))
		return v
	}},
}

var c05BoundShapeNames []string

func init() { // runs after the init above that registers the edge and expression shapes
	for _, sh := range c05BoundShapes {
		c05BoundShapeNames = append(c05BoundShapeNames, sh.name)
		c05ShapeIdx[sh.name] = len(c05Shapes)
		c05Shapes = append(c05Shapes, sh)
	}
}

// goals that traverse a term and may raise an (ISO) error when it is not what they expect; run one by one on the
// first answer so that one error does not hide the next traversal
var c05Traversals = []func(t engine.Term) engine.Term{
	func(t engine.Term) engine.Term { return compound("length", t, engine.NewVariable()) },
	func(t engine.Term) engine.Term { return compound("msort", t, engine.NewVariable()) },
	func(t engine.Term) engine.Term { return compound("sort", t, engine.NewVariable()) },
	func(t engine.Term) engine.Term { return compound("atom_chars", engine.NewVariable(), t) },
	func(t engine.Term) engine.Term { return compound("atom_codes", engine.NewVariable(), t) },
	func(t engine.Term) engine.Term { return compound("=..", t, engine.NewVariable()) },
	func(t engine.Term) engine.Term { return compound("=..", engine.NewVariable(), t) },
	func(t engine.Term) engine.Term { return compound("append", t, engine.List(atom("z")), engine.NewVariable()) },
	func(t engine.Term) engine.Term { return compound("nth0", engine.Integer(1), t, engine.NewVariable()) },
	func(t engine.Term) engine.Term { return compound("member", atom("zz"), t) },
	func(t engine.Term) engine.Term { return compound("assertz", compound("$c05_fact", t)) },
	func(t engine.Term) engine.Term { return compound("keysort", t, engine.NewVariable()) },
}

// prologTraverse: every argument of the answered goal through the traversals, each as a conjunction
// `V = Arg, Traversal(V)` compiled before V is bound — the built-in gets the variable, not a rebuilt copy.
func prologTraverse(vm *engine.VM, goal engine.Term, env *engine.Env) string {
	c, ok := goal.(engine.Compound)
	if !ok {
		return ""
	}
	for j := 0; j < c.Arity(); j++ {
		a := c.Arg(j)
		switch env.Resolve(a).(type) {
		case engine.Atom, engine.Integer, engine.Float, engine.Variable, *engine.Stream:
			continue
		}
		for k, mk := range c05Traversals {
			v := engine.NewVariable()
			ctx, cancel := context.WithTimeout(context.Background(), 2*time.Second)
			// V is bound by the Go continuation below, after the traversal goal has been compiled
			p := engine.Call(vm, compound(",", compound("$c05_bind", v), mk(v)), func(*engine.Env) *engine.Promise { return engine.Bool(true) },
				env)
			c05BindTarget, c05BindValue = v, a
			_, err := p.Force(ctx)
			cancel()
			if err != nil {
				r := c05Result(false, err)
				if w := strings.Fields(r)[0]; w != "err" {
					return fmt.Sprintf("traversal%d of argument %d: %s", k, j+1, r)
				}
			}
		}
	}
	return ""
}

var c05BindTarget, c05BindValue engine.Term

// c05RegisterBind: '$c05_bind'(V) unifies V with the value chosen by prologTraverse (a Go-side binding, so the
// term keeps its representation)
func c05RegisterBind(i *prolog.Interpreter) {
	i.Register1(atom("$c05_bind"), func(vm *engine.VM, v engine.Term, k engine.Cont, env *engine.Env) *engine.Promise {
		return engine.Unify(vm, v, c05BindValue, k, env)
	})
}

// c05TraversalTail: goals that walk a term and never raise an error, appended to the conjunction so that the
// RESULT of the goal under test is traversed by later goals of the same conjunction
func c05TraversalTail(args []engine.Term) []engine.Term {
	var out []engine.Term
	for _, a := range args {
		if _, ok := a.(engine.Atom); ok {
			continue
		}
		if _, ok := a.(engine.Integer); ok {
			continue
		}
		out = append(out,
			compound("==", a, a),
			compound("copy_term", a, engine.NewVariable()),
			compound("findall", a, atom("true"), engine.NewVariable()),
			compound("term_variables", a, engine.NewVariable()),
			compound("\\+", compound("\\=", a, a)))
	}
	return out
}

func c05Conj(gs []engine.Term) engine.Term {
	t := gs[len(gs)-1]
	for k := len(gs) - 2; k >= 0; k-- {
		t = compound(",", gs[k], t)
	}
	return t
}

// c05InContext: the goal in one of the execution contexts that differ in how bindings reach a built-in.
//   T   top-level conjunction:  Prelude, Goal, Traversals          (the built-in gets the variable, bound at run time)
//   S   body of a stored clause: assertz(('$c05'(Vs) :- Prelude, Goal, Traversals)), then '$c05'(Vs)
//   Rc Rk Rf Rn   Prelude, then call(Goal) / catch(Goal,E,throw(E)) / findall(x,Goal,_) / \+ \+ Goal
//                 (these recompile the goal with the bindings applied)
func c05InContext(i *prolog.Interpreter, ctx string, prelude []engine.Term, goal engine.Term, args []engine.Term) engine.Term {
	body := append(append([]engine.Term{}, prelude...), atom("$prelude_done"))
	switch ctx {
	case "T", "S":
		if c, ok := goal.(engine.Compound); ok && c.Arity() == 2 {
			switch c.Functor().String() {
			case ",", ";", "->":
				goal = compound("call", goal) // see runC05Matrix
			}
		}
		body = append(body, goal)
		body = append(body, c05TraversalTail(args)...)
	case "Rc":
		body = append(body, compound("call", goal))
	case "Rk":
		e := engine.NewVariable()
		body = append(body, compound("catch", goal, e, compound("throw", e)))
	case "Rf":
		// (first answer only: the goal may legitimately have infinitely many, e.g. append(_, [a|T], _))
		body = append(body, compound("findall", atom("x"), compound(",", goal, atom("!")), engine.NewVariable()))
	case "Rn":
		body = append(body, compound("\\+", compound("\\+", goal)))
	default:
		panic("unknown execution context " + ctx)
	}
	if ctx != "S" {
		return c05Conj(body)
	}
	// the variables of the goal are the arguments of the stored clause's head, so that the answer is visible
	var vs []engine.Term
	seen := map[engine.Variable]bool{}
	var walk func(t engine.Term)
	walk = func(t engine.Term) {
		switch t := t.(type) {
		case engine.Variable:
			if !seen[t] {
				seen[t] = true
				vs = append(vs, t)
			}
		case engine.Compound:
			for k := 0; k < t.Arity(); k++ {
				walk(t.Arg(k))
			}
		}
	}
	walk(goal)
	var head engine.Term = atom("$c05")
	if len(vs) > 0 {
		head = atom("$c05").Apply(vs...)
	}
	ok, err := engine.Call(&i.VM, compound("assertz", compound(":-", head, c05Conj(body))), engine.Success, nil).Force(context.Background())
	if err != nil || !ok {
		// the clause does not compile (e.g. a non-callable argument of a control construct): the call reports it
		return compound("assertz", compound(":-", head, c05Conj(body)))
	}
	return head
}
