/-
  Proofs/Shared — invariants of the shared atom table / variable counter (Model/Shared.lean)
  and the lemmas behind the C14 theorems.
-/
import PrologVerif.Model.Shared
namespace PrologVerif.Shared

/-! ### the table invariant -/

/-- `names` has no duplicates and `atoms` is exactly its inverse (shifted by `base`) -/
structure TableInv (σ : State) : Prop where
  uniq : ∀ (i j : Nat) (s : String), σ.names[i]? = some s → σ.names[j]? = some s → i = j
  atoms_names : ∀ (s : String) (a : Nat), σ.atoms.lookup s = some a ↔ ∃ i, a = i + base ∧ σ.names[i]? = some s

theorem inv_empty : TableInv empty := by
  constructor
  · intro i j s h; simp [empty] at h
  · intro s a; simp [empty]

/-- the abstract interning function of a state: the atom a name denotes, if it has one yet -/
def idOf (σ : State) (s : String) : Option Nat :=
  match oneRune s with
  | some r => some r
  | none => σ.atoms.lookup s

/-- growth of the shared state: the table is extended at the end, the counter does not decrease -/
def Le (σ σ' : State) : Prop := σ.names <+: σ'.names ∧ σ.counter ≤ σ'.counter

theorem Le.refl (σ : State) : Le σ σ := ⟨List.prefix_refl _, Nat.le_refl _⟩

theorem Le.trans {a b c : State} (h₁ : Le a b) (h₂ : Le b c) : Le a c :=
  ⟨h₁.1.trans h₂.1, Nat.le_trans h₁.2 h₂.2⟩

theorem prefix_getElem? {α} {l₁ l₂ : List α} (h : l₁ <+: l₂) {i : Nat} {x : α}
    (hx : l₁[i]? = some x) : l₂[i]? = some x := by
  obtain ⟨t, rfl⟩ := h
  have hi : i < l₁.length := by
    rcases Nat.lt_or_ge i l₁.length with h | h
    · exact h
    · rw [List.getElem?_eq_none h] at hx; simp at hx
  rw [List.getElem?_append_left hi]; exact hx

theorem oneRune_lt_base {s : String} {r : Nat} (h : oneRune s = some r) : r < base := by
  unfold oneRune at h
  split at h
  · rename_i c _
    split at h
    · simp at h
    · simp only [Option.some.injEq] at h
      subst h
      have := c.valid
      simp only [base]
      rcases this with h1 | ⟨_, h2⟩
      · have : c.toNat = c.val.toNat := rfl
        omega
      · have : c.toNat = c.val.toNat := rfl
        omega
  · simp at h

theorem oneRune_runeString {s : String} {r : Nat} (h : oneRune s = some r) : runeString r = s := by
  unfold oneRune at h
  split at h
  · rename_i c hc
    split at h
    · simp at h
    · simp only [Option.some.injEq] at h
      subst h
      unfold runeString
      have hv : c.toNat.isValidChar := c.valid
      simp only [hv, if_true]
      apply String.toList_inj.mp
      simp [hc]
  · simp at h

theorem oneRune_inj {s t : String} {r : Nat} (hs : oneRune s = some r) (ht : oneRune t = some r) :
    s = t := by
  rw [← oneRune_runeString hs, ← oneRune_runeString ht]

/-! ### NewAtom -/

theorem newAtom_counter (σ : State) (s : String) : (newAtom σ s).1.counter = σ.counter := by
  unfold newAtom
  split
  · rfl
  · split <;> rfl

theorem newAtom_prefix (σ : State) (s : String) : σ.names <+: (newAtom σ s).1.names := by
  unfold newAtom
  split
  · exact List.prefix_refl _
  · split
    · exact List.prefix_refl _
    · exact List.prefix_append _ _

theorem newAtom_le (σ : State) (s : String) : Le σ (newAtom σ s).1 :=
  ⟨newAtom_prefix σ s, by rw [newAtom_counter]; exact Nat.le_refl _⟩

theorem newAtom_inv {σ : State} (h : TableInv σ) (s : String) : TableInv (newAtom σ s).1 := by
  unfold newAtom
  split
  · exact h
  · split
    · exact h
    · rename_i hnone
      have hnot : ∀ i : Nat, σ.names[i]? ≠ some s := by
        intro i hi
        have := (h.atoms_names s (i + base)).mpr ⟨i, rfl, hi⟩
        rw [hnone] at this; simp at this
      constructor
      · intro i j t hi hj
        simp only [List.getElem?_append] at hi hj
        split at hi <;> split at hj
        · exact h.uniq i j t hi hj
        · rename_i h1 h2
          have : t = s := by
            rcases Nat.eq_zero_or_pos (j - σ.names.length) with hz | hp
            · rw [hz] at hj; simp at hj; exact hj.symm
            · rw [List.getElem?_eq_none (by simp; omega)] at hj; simp at hj
          subst this; exact absurd hi (hnot i)
        · rename_i h1 h2
          have : t = s := by
            rcases Nat.eq_zero_or_pos (i - σ.names.length) with hz | hp
            · rw [hz] at hi; simp at hi; exact hi.symm
            · rw [List.getElem?_eq_none (by simp; omega)] at hi; simp at hi
          subst this; exact absurd hj (hnot j)
        · rename_i h1 h2
          have hi' : i - σ.names.length = 0 := by
            rcases Nat.eq_zero_or_pos (i - σ.names.length) with hz | hp
            · exact hz
            · rw [List.getElem?_eq_none (by simp; omega)] at hi; simp at hi
          have hj' : j - σ.names.length = 0 := by
            rcases Nat.eq_zero_or_pos (j - σ.names.length) with hz | hp
            · exact hz
            · rw [List.getElem?_eq_none (by simp; omega)] at hj; simp at hj
          omega
      · intro t a
        simp only [List.lookup_cons]
        by_cases hts : t = s
        · subst hts
          simp only [beq_self_eq_true]
          constructor
          · intro ha
            simp only [Option.some.injEq] at ha
            exact ⟨σ.names.length, ha.symm, by simp⟩
          · rintro ⟨i, rfl, hi⟩
            simp only [List.getElem?_append] at hi
            split at hi
            · exact absurd hi (hnot i)
            · rename_i hge
              rcases Nat.eq_zero_or_pos (i - σ.names.length) with hz | hp
              · have : i = σ.names.length := by omega
                rw [this]
              · rw [List.getElem?_eq_none (by simp; omega)] at hi; simp at hi
        · have : (t == s) = false := by simp [hts]
          simp only [this]
          rw [h.atoms_names t a]
          constructor
          · rintro ⟨i, rfl, hi⟩
            exact ⟨i, rfl, prefix_getElem? (List.prefix_append _ _) hi⟩
          · rintro ⟨i, rfl, hi⟩
            refine ⟨i, rfl, ?_⟩
            simp only [List.getElem?_append] at hi
            split at hi
            · exact hi
            · rcases Nat.eq_zero_or_pos (i - σ.names.length) with hz | hp
              · rw [hz] at hi; simp at hi; exact absurd hi.symm hts
              · rw [List.getElem?_eq_none (by simp; omega)] at hi; simp at hi

/-- the atom returned for `s` is, from now on, what `s` denotes -/
theorem newAtom_idOf (σ : State) (s : String) : idOf (newAtom σ s).1 s = some (newAtom σ s).2 := by
  unfold newAtom
  cases hr : oneRune s with
  | some r => simp [idOf, hr]
  | none =>
    cases ha : σ.atoms.lookup s with
    | some a => simp [idOf, hr, ha]
    | none => simp [idOf, hr]

/-- `(NewAtom(s)).String() == s` -/
theorem newAtom_name {σ : State} (h : TableInv σ) (s : String) :
    atomName (newAtom σ s).1 (newAtom σ s).2 = some s := by
  unfold newAtom
  split
  · rename_i r hr
    simp only [atomName, oneRune_lt_base hr, if_true, oneRune_runeString hr]
  · split
    · rename_i a ha
      obtain ⟨i, rfl, hi⟩ := (h.atoms_names s a).mp ha
      simp only [atomName]
      have : ¬ i + base < base := by omega
      simp only [this, if_false, Nat.add_sub_cancel, hi]
    · simp only [atomName]
      have : ¬ σ.names.length + base < base := by omega
      simp [this]

/-! ### stability: what a state says about a name or an atom stays true in every later state -/

theorem atomName_stable {σ σ' : State} (hle : Le σ σ') {a : Nat} {s : String}
    (h : atomName σ a = some s) : atomName σ' a = some s := by
  unfold atomName at *
  split
  · rename_i hlt; simp only [hlt, if_true] at h; exact h
  · rename_i hge; simp only [hge, if_false] at h; exact prefix_getElem? hle.1 h

theorem idOf_stable {σ σ' : State} (hle : Le σ σ') (hi : TableInv σ) (hi' : TableInv σ') {a : Nat} {s : String}
    (h : idOf σ s = some a) : idOf σ' s = some a := by
  unfold idOf at *
  split
  · rename_i r hr; simp only [hr] at h; exact h
  · rename_i hr
    simp only [hr] at h
    obtain ⟨i, rfl, hn⟩ := (hi.atoms_names s a).mp h
    exact (hi'.atoms_names s _).mpr ⟨i, rfl, prefix_getElem? hle.1 hn⟩

/-- in one state, an atom has at most one name (trivially) and a name at most one atom -/
theorem idOf_atomName {σ : State} (hi : TableInv σ) {a : Nat} {s : String} (h : idOf σ s = some a) :
    atomName σ a = some s := by
  unfold idOf at h
  split at h
  · rename_i r hr
    simp only [Option.some.injEq] at h; subst h
    simp only [atomName, oneRune_lt_base hr, if_true, oneRune_runeString hr]
  · obtain ⟨i, rfl, hn⟩ := (hi.atoms_names s a).mp h
    simp only [atomName]
    have : ¬ i + base < base := by omega
    simp only [this, if_false, Nat.add_sub_cancel, hn]

/-! ### steps and schedules -/

theorem step_le (σ : State) (o : Op) : Le σ (step σ o).1 := by
  cases o with
  | newAtom s => exact newAtom_le σ s
  | atomName a => exact Le.refl σ
  | newVar => exact ⟨List.prefix_refl _, Nat.le_succ _⟩

theorem step_inv {σ : State} (h : TableInv σ) (o : Op) : TableInv (step σ o).1 := by
  cases o with
  | newAtom s => exact newAtom_inv h s
  | atomName a => exact h
  | newVar => exact ⟨h.uniq, h.atoms_names⟩

theorem final_le (sched : Schedule) : ∀ σ, Le σ (final σ sched) := by
  induction sched with
  | nil => intro σ; exact Le.refl σ
  | cons x rest ih => intro σ; exact (step_le σ x.2).trans (ih _)

theorem final_inv (sched : Schedule) : ∀ σ, TableInv σ → TableInv (final σ sched) := by
  induction sched with
  | nil => intro σ h; exact h
  | cons x rest ih => intro σ h; exact ih _ (step_inv h x.2)

theorem final_append (p q : Schedule) : ∀ σ, final σ (p ++ q) = final (final σ p) q := by
  induction p with
  | nil => intro σ; rfl
  | cons x rest ih => intro σ; exact ih _

theorem exec_append (p q : Schedule) : ∀ σ, exec σ (p ++ q) = exec σ p ++ exec (final σ p) q := by
  induction p with
  | nil => intro σ; rfl
  | cons x rest ih => intro σ; simp [exec, final, ih]

/-- what an event claims, read against a state -/
def Holds (σ : State) (e : Event) : Prop :=
  match e.op, e.res with
  | .newAtom s, .atom a => idOf σ s = some a ∧ atomName σ a = some s
  | .newAtom _, _ => False
  | .atomName a, .name (some s) => atomName σ a = some s
  | .atomName _, .name none => True
  | .atomName _, _ => False
  | .newVar, .var v => v ≤ σ.counter
  | .newVar, _ => False

theorem holds_stable {σ σ' : State} (hle : Le σ σ') (hi : TableInv σ) (hi' : TableInv σ') {e : Event}
    (h : Holds σ e) : Holds σ' e := by
  unfold Holds at *
  split <;> simp_all
  · exact ⟨idOf_stable hle hi hi' h.1, atomName_stable hle h.2⟩
  · exact atomName_stable hle h
  · exact Nat.le_trans h hle.2

theorem step_holds {σ : State} (hi : TableInv σ) (c : Nat) (o : Op) :
    Holds (step σ o).1 ⟨c, o, (step σ o).2⟩ := by
  cases o with
  | newAtom s => exact ⟨newAtom_idOf σ s, newAtom_name hi s⟩
  | atomName a =>
    simp only [step, Holds]
    cases h : atomName σ a <;> simp [h]
  | newVar => simp [step, Holds, newVar]

/-- every event of a history holds in the final state -/
theorem exec_holds (sched : Schedule) : ∀ σ, TableInv σ → ∀ e ∈ exec σ sched, Holds (final σ sched) e := by
  induction sched with
  | nil => intro σ _ e he; simp [exec] at he
  | cons x rest ih =>
    intro σ hi e he
    simp only [exec, List.mem_cons] at he
    rcases he with rfl | he
    · exact holds_stable (final_le rest _) (step_inv hi x.2) (final_inv rest _ (step_inv hi x.2))
        (step_holds hi x.1 x.2)
    · exact ih _ (step_inv hi x.2) e he

/-- once `a` names `s`, every later `atomName a` answers `s` -/
theorem exec_atomName_later (sched : Schedule) : ∀ σ, ∀ a s, atomName σ a = some s →
    ∀ e ∈ exec σ sched, e.op = .atomName a → e.res = .name (some s) := by
  induction sched with
  | nil => intro σ a s _ e he; simp [exec] at he
  | cons x rest ih =>
    intro σ a s hs e he hop
    simp only [exec, List.mem_cons] at he
    rcases he with rfl | he
    · simp only at hop
      rw [hop]; simp [step, hs]
    · exact ih _ a s (atomName_stable (step_le σ x.2) hs) e he hop

/-! ### variables -/

/-- every variable handed out by a schedule started in `σ` is above `σ.counter` and they increase -/
theorem varsOf_exec (sched : Schedule) : ∀ σ,
    (∀ v ∈ varsOf (exec σ sched), σ.counter < v) ∧ (varsOf (exec σ sched)).Pairwise (· < ·) := by
  induction sched with
  | nil => intro σ; simp [exec, varsOf]
  | cons x rest ih =>
    intro σ
    obtain ⟨c, o⟩ := x
    have hle := step_le σ o
    obtain ⟨ih1, ih2⟩ := ih (step σ o).1
    cases o with
    | newAtom s =>
      simp only [exec, varsOf, step] at *
      exact ⟨fun v hv => Nat.lt_of_le_of_lt hle.2 (ih1 v hv), ih2⟩
    | atomName a =>
      simp only [exec, varsOf, step] at *
      exact ⟨ih1, ih2⟩
    | newVar =>
      simp only [exec, varsOf, step, newVar] at *
      refine ⟨?_, ?_⟩
      · intro v hv
        rcases List.mem_cons.mp hv with rfl | hv
        · omega
        · have := ih1 v hv; omega
      · exact List.pairwise_cons.mpr ⟨fun v hv => ih1 v hv, ih2⟩

theorem varsOf_filter_sublist (p : Event → Bool) : ∀ h : List Event,
    (varsOf (h.filter p)).Sublist (varsOf h) := by
  intro h
  induction h with
  | nil => simp [varsOf]
  | cons e h ih =>
    simp only [List.filter_cons]
    split
    · simp only [varsOf]; split
      · exact List.Sublist.cons_cons _ ih
      · exact ih
    · simp only [varsOf]; split
      · exact List.Sublist.cons _ ih
      · exact ih

theorem mem_varsOf {h : List Event} {v : Nat} : v ∈ varsOf h ↔ ∃ e ∈ h, e.res = .var v := by
  induction h with
  | nil => simp [varsOf]
  | cons e h ih =>
    simp only [varsOf]
    split
    · rename_i w hw
      simp only [List.mem_cons, ih]
      constructor
      · rintro (rfl | ⟨e', he', hr⟩)
        · exact ⟨e, Or.inl rfl, hw⟩
        · exact ⟨e', Or.inr he', hr⟩
      · rintro ⟨e', (rfl | he'), hr⟩
        · rw [hw] at hr; simp only [Res.var.injEq] at hr; exact Or.inl hr.symm
        · exact Or.inr ⟨e', he', hr⟩
    · rename_i hw
      simp only [List.mem_cons, ih]
      constructor
      · rintro ⟨e', he', hr⟩; exact ⟨e', Or.inr he', hr⟩
      · rintro ⟨e', (rfl | he'), hr⟩
        · exact absurd hr (hw v)
        · exact ⟨e', he', hr⟩

/-- in a history whose variables strictly increase, a variable identifies its event -/
theorem var_event_unique : ∀ h : List Event, (varsOf h).Pairwise (· < ·) →
    ∀ e₁ ∈ h, ∀ e₂ ∈ h, ∀ v, e₁.res = .var v → e₂.res = .var v → e₁ = e₂ := by
  intro h
  induction h with
  | nil => intro _ e₁ he₁; simp at he₁
  | cons e h ih =>
    intro hp e₁ he₁ e₂ he₂ v hv₁ hv₂
    have htail : (varsOf h).Pairwise (· < ·) := by
      simp only [varsOf] at hp
      split at hp
      · exact (List.pairwise_cons.mp hp).2
      · exact hp
    have hhead : ∀ e' ∈ h, e.res = .var v → e'.res = .var v → False := by
      intro e' he' hr hr'
      simp only [varsOf, hr] at hp
      have := (List.pairwise_cons.mp hp).1 v (mem_varsOf.mpr ⟨e', he', hr'⟩)
      omega
    rcases List.mem_cons.mp he₁ with h1 | h1 <;> rcases List.mem_cons.mp he₂ with h2 | h2
    · rw [h1, h2]
    · exact (hhead e₂ h2 (h1 ▸ hv₁) hv₂).elim
    · exact (hhead e₁ h1 (h2 ▸ hv₂) hv₁).elim
    · exact ih htail e₁ h1 e₂ h2 v hv₁ hv₂

end PrologVerif.Shared
