/-
  Correctly rounded decimal → binary64 conversion by exact rational arithmetic: the
  specification of `strconv.ParseFloat(s, 64)` on the text of a float number token
  (`digits . digits [ (e|E) [+|-] digits ]`).  Executable (used by the driver to judge what the
  real reader returns and to check that the writer's text denotes the float it was made from);
  no theorem depends on it.
-/
import PrologVerif.Basic
namespace PrologVerif.FloatDec

def isDigit (c : Char) : Bool := decide (48 ≤ c.toNat ∧ c.toNat ≤ 57)

def natOfDigits (ds : List Char) : Nat := ds.foldl (fun acc c => acc * 10 + (c.toNat - 48)) 0

/-- decimal text → (digits D, exponent E) with value D × 10^E; `none` if the text is not a float token -/
def decompose (s : List Char) : Option (Nat × Int) :=
  let ip := s.takeWhile isDigit
  let r1 := s.dropWhile isDigit
  match r1 with
  | '.' :: r2 =>
    let fp := r2.takeWhile isDigit
    let r3 := r2.dropWhile isDigit
    if ip.isEmpty ∨ fp.isEmpty then none else
    let d := natOfDigits (ip ++ fp)
    match r3 with
    | [] => some (d, - (fp.length : Int))
    | e :: r4 =>
      if e = 'e' ∨ e = 'E' then
        let (neg, r5) : Bool × List Char :=
          match r4 with
          | '-' :: r => (true, r)
          | '+' :: r => (false, r)
          | r => (false, r)
        if r5.isEmpty ∨ ¬ r5.all isDigit then none else
        let ex : Int := natOfDigits r5
        some (d, (if neg then -ex else ex) - (fp.length : Int))
      else none
  | _ => none

def infBits : UInt64 := 0x7FF0000000000000

/-- nearest binary64 (ties to even) of num/den, num > 0, den > 0 -/
def roundRatio (num den : Nat) : UInt64 :=
  -- e2 with 2^52 ≤ num / (den * 2^e2) < 2^53, then clamped to the subnormal exponent
  let quot (e : Int) : Nat × Nat × Nat :=   -- (q, r, d) with num/(den*2^e) = q + r/d
    if e ≥ 0 then
      let d := den * 2 ^ e.toNat
      (num / d, num % d, d)
    else
      let n := num * 2 ^ (-e).toNat
      (n / den, n % den, den)
  let e0 : Int := (Nat.log2 num : Int) - (Nat.log2 den : Int) - 52
  let q0 := (quot e0).1
  let e1 : Int := if q0 ≥ 2 ^ 53 then e0 + 1 else if q0 < 2 ^ 52 then e0 - 1 else e0
  let e2 : Int := if e1 < -1074 then -1074 else e1
  let (q, r, d) := quot e2
  let q := if 2 * r > d ∨ (2 * r = d ∧ q % 2 = 1) then q + 1 else q
  let (q, e2) : Nat × Int := if q = 2 ^ 53 then (2 ^ 52, e2 + 1) else (q, e2)
  if q < 2 ^ 52 then UInt64.ofNat q           -- subnormal (e2 = -1074) or zero
  else if e2 + 1075 ≥ 2047 then infBits
  else UInt64.ofNat ((e2 + 1075).toNat * 2 ^ 52 + (q - 2 ^ 52))

/-- bits of the binary64 nearest to the value of a float token (sign not included) -/
def parseBits (s : List Char) : UInt64 :=
  match decompose s with
  | none => 0
  | some (d, e) =>
    if d = 0 then 0
    else
      let nd : Int := (Nat.toDigits 10 d).length
      if nd - 1 + e ≥ 309 then infBits
      else if nd + e ≤ -326 then 0
      else if e ≥ 0 then roundRatio (d * 10 ^ e.toNat) 1
      else roundRatio d (10 ^ (-e).toNat)

end PrologVerif.FloatDec
