/-
  C11 — findall/bagof/setof collect exactly the solutions, as copies, grouped by witness.

  Property theorems only (helper lemmas live in Proofs/Collect*.lean).  Everything is about
  `Model/Collect.lean`, which mirrors engine/builtin.go `FindAll/collectionOf/variant/renamedCopy/
  iteratedGoalTerm`, engine/variable.go `new…VariablesSet` and engine/compound.go `Env.set`; the
  specification is `Spec/Collect.lean` (ISO 7.1.1.3, 7.1.1.4, 7.1.6.1, 7.1.6.5, 8.10).  The model takes
  the solution sequence of the goal as an input, so every theorem is "for all solution sequences".
  The tie to the source is the correspondence stream `c11.collect`.
-/
import PrologVerif.Proofs.Collect
namespace PrologVerif.C11
open PrologVerif PrologVerif.Collect PrologVerif.CollectSpec

/-! ### variant -/

/-- **variant_equiv**: the (repaired) `variant` test of bagof/setof is reflexive, symmetric and
    transitive, and it is exactly ISO's "variant": equal up to a one-to-one renaming of variables. -/
theorem variant_equiv :
    (∀ t, variant t t = true) ∧
    (∀ t1 t2, variant t1 t2 = true → variant t2 t1 = true) ∧
    (∀ t1 t2 t3, variant t1 t2 = true → variant t2 t3 = true → variant t1 t3 = true) ∧
    (∀ t1 t2, variant t1 t2 = true ↔ Variant t1 t2) :=
  ⟨variant_isEquivB.refl, variant_isEquivB.symm, variant_isEquivB.trans, variant_iff⟩

/-- the two terms of defect D11: `(A,B)` and `(C,C)` -/
def d11_AB : Term := Term.a2 "," (.var 0) (.var 1)
def d11_CC : Term := Term.a2 "," (.var 2) (.var 2)

/-- **D11**: on the pinned tree `variant` is not symmetric: `variant((A,B),(C,C))` holds,
    `variant((C,C),(A,B))` does not. -/
theorem variant_symm_witness :
    ¬ (∀ t1 t2, variantPinned t1 t2 = true → variantPinned t2 t1 = true) := by
  intro h
  have h1 : variantPinned d11_AB d11_CC = true := by decide +kernel
  have h2 : variantPinned d11_CC d11_AB = false := by decide +kernel
  rw [h d11_AB d11_CC h1] at h2
  exact absurd h2 (by simp)

/-- on the pinned tree `variant` accepts terms that are not variants -/
theorem variant_spec_witness : ¬ (∀ t1 t2, variantPinned t1 t2 = true → Variant t1 t2) := by
  intro h
  have h1 : variantPinned d11_AB d11_CC = true := by decide +kernel
  have h2 : variant d11_AB d11_CC = false := by decide +kernel
  rw [(variant_iff _ _).mpr (h _ _ h1)] at h2
  exact absurd h2 (by simp)

/-! ### free variables -/

/-- **C11_free_vars**: the witness variables computed by `collectionOf` (newFreeVariablesSet, then
    sorted) are exactly the ISO free-variable set of `Template^Goal` — the variables of the goal that
    occur neither in the template nor in a `^`-prefix of the goal — each listed once, in ascending
    order. -/
theorem C11_free_vars (goal template : Term) :
    (∀ v, v ∈ freeVariables goal template ↔ Free v template goal) ∧
    (freeVariables goal template).Pairwise (· < ·) := by
  refine ⟨fun v => ?_, sortVars_sorted _⟩
  unfold freeVariables
  rw [mem_sortVars, mem_newFreeVariablesSet]

/-- the goal that is called is ISO's iterated goal term -/
theorem C11_iterated_goal (goal : Term) : IteratedGoal goal (iteratedGoalTerm goal) :=
  iteratedGoalTerm_spec goal

/-! ### findall -/

/-- **C11_findall**: for every solution sequence, with `Instances` a partial list and the goal raising
    no error: the collected list has one element per solution, in solution order, each a variant
    (renamed copy) of the solution's template instance; every variable of a copy is fresh (`≥ next`,
    so it occurs neither in the goal nor in any older term) and different copies share no variable;
    the outcome is the unification of `Instances` with that list (one answer or failure). -/
theorem C11_findall (instances : Term) (sols : List Term) (next fuel : Nat)
    (hi : checkInstances instances = none) :
    let copies := (copyAll sols next).1
    copies.length = sols.length ∧
    (∀ p ∈ sols.zip copies, Variant p.1 p.2) ∧
    (∀ c ∈ copies, ∀ v ∈ vars c, next ≤ v) ∧
    copies.Pairwise (fun a b => ∀ v ∈ vars a, v ∉ vars b) ∧
    findAll instances sols none next fuel = unifyRes (unify [] fuel instances (Term.list copies)) := by
  obtain ⟨_, h1, h2, h3, h4⟩ := copyAll_spec sols next
  refine ⟨h1, h2, fun c hc v hv => (h3 c hc v hv).1, h4, ?_⟩
  simp [findAll, hi]

/-- no solution: the list is `[]` -/
theorem C11_findall_none (instances : Term) (next fuel : Nat) (hi : checkInstances instances = none) :
    findAll instances [] none next fuel = unifyRes (unify [] fuel instances Term.nilT) := by
  simp [findAll, hi, copyAll, Term.list]

/-- errors: a bad `Instances` argument and an error of the goal are raised as they are -/
theorem C11_findall_errors (instances : Term) (sols : List Term) (gerr : Option Term) (next fuel : Nat) :
    (∀ e, checkInstances instances = some e → findAll instances sols gerr next fuel = .err e) ∧
    (∀ e, checkInstances instances = none → gerr = some e → findAll instances sols gerr next fuel = .err e) := by
  constructor
  · intro e h; simp [findAll, h]
  · intro e h1 h2; simp [findAll, h1, h2]

/-! ### bagof / setof: the groups -/

/-- the copies `W+T` that `collectionOf` groups: one per solution, in order, each a variant of the
    solution's instantiated `W+T`, all variables fresh, different copies variable-disjoint -/
theorem C11_bagof_copies (sols : List (Term × Term)) (n : Nat) :
    let copies := (copyPairs sols n).1
    copies.length = sols.length ∧
    (∀ p ∈ sols.zip copies, Variant (plus p.1) (plus p.2) ∧ Variant p.1.1 p.2.1 ∧ Variant p.1.2 p.2.2) ∧
    (∀ c ∈ copies, ∀ v ∈ vars c.1 ++ vars c.2, n ≤ v) ∧
    copies.Pairwise (fun a b => ∀ v ∈ vars a.1 ++ vars a.2, v ∉ vars b.1 ++ vars b.2) := by
  intro copies
  obtain ⟨_, h1, h2, h3, h4⟩ := copyAll_spec (sols.map plus) n
  rw [copyAll_plus] at h1 h2 h3 h4
  simp only [List.length_map] at h1
  refine ⟨h1, ?_, ?_, ?_⟩
  · intro p hp
    have : (plus p.1, plus p.2) ∈ (sols.map plus).zip (copies.map plus) := by
      rw [List.zip_map]
      exact List.mem_map.mpr ⟨p, hp, rfl⟩
    have hv := h2 _ this
    exact ⟨hv, variant_plus hv⟩
  · intro c hc v hv
    have := h3 (plus c) (List.mem_map_of_mem hc) v (by rw [vars_plus]; exact hv)
    exact this.1
  · have := List.pairwise_map.mp h4
    refine this.imp ?_
    intro a b hab v hv
    have := hab v (by rw [vars_plus]; exact hv)
    rwa [vars_plus] at this

/-- **C11_bagof_partition** (grouping): for every list of solutions `W+T`, the groups formed by the
    loop of `collectionOf` are a partition of the solutions into the classes of "witness is a variant
    of": together they contain every solution exactly once, no group is empty, each group keeps
    solution order, two solutions are in the same group iff their witnesses are variants. -/
theorem C11_bagof_partition (s : List (Term × Term)) : IsPartition s (groups s) := by
  have h := groupsBy_ok variant_isEquivB s
  refine ⟨h.perm, h.nonempty, h.order, ?_, ?_⟩
  · intro g hg p hp q hq
    exact (variant_iff _ _).mp (h.same g hg p hp q hq)
  · refine h.different.imp ?_
    intro g k hgk p hp q hq hv
    have := hgk p hp q hq
    rw [(variant_iff _ _).mpr hv] at this
    exact absurd this (by simp)

/-- **D11**: with the pinned `variant` the groups are not the classes: the solutions with witnesses
    `(C,C)` and `(A,B)` (facts `t(1,C,C). t(2,A,B).`, `bagof(X, t(X,Y,Z), L)`) end up in one group. -/
theorem C11_bagof_partition_witness : ¬ (∀ s, IsPartition s (groupsBy variantPinned s)) := by
  intro h
  have hp := h [(d11_CC, .int 1), (d11_AB, .int 2)]
  have hg : groupsBy variantPinned [(d11_CC, .int 1), (d11_AB, .int 2)] =
      [[(d11_CC, .int 1), (d11_AB, .int 2)]] := by decide +kernel
  rw [hg] at hp
  have hv := hp.same [(d11_CC, .int 1), (d11_AB, .int 2)] (List.mem_singleton.mpr rfl)
    (d11_AB, .int 2) (List.mem_cons_of_mem _ (List.mem_singleton.mpr rfl))
    (d11_CC, .int 1) (List.mem_cons_self ..)
  have h2 : variant d11_AB d11_CC = false := by decide +kernel
  rw [(variant_iff _ _).mpr hv] at h2
  exact absurd h2 (by simp)

/-- answers correspond to groups: `collectionOf` delivers, in group order, one answer for each group
    whose aggregated list unifies with `Instances` (the others fail and the next group is tried) -/
theorem C11_bagof_answers (kind : Kind) (witness instances : Term) (sols : List (Term × Term))
    (next fuel : Nat) (as : List Env) (hi : checkInstances instances = none)
    (h : collectionOf kind witness instances sols none next fuel = .ok as) :
    ∃ outcomes, (groups (copyPairs sols (next + 1)).1).mapM (groupAnswer kind witness instances fuel) = some outcomes ∧
      as = outcomes.filterMap id := by
  simp only [collectionOf, collectionOfBy, hi] at h
  cases hm : (groupsBy variant (copyPairs sols (next + 1)).1).mapM (groupAnswer kind witness instances fuel) with
  | none => simp [hm] at h
  | some outcomes =>
    simp only [hm, Res.ok.injEq] at h
    exact ⟨outcomes, hm, h.symm⟩

/-- no solution ⇒ bagof/setof fail -/
theorem C11_bagof_no_solution (kind : Kind) (witness instances : Term) (next fuel : Nat)
    (hi : checkInstances instances = none) :
    collectionOf kind witness instances [] none next fuel = .ok [] := by
  simp [collectionOf, collectionOfBy, hi, copyPairs, groupsBy, groupsAux]

/-- errors: a bad `Instances` argument and an error of the goal are raised as they are -/
theorem C11_bagof_errors (kind : Kind) (witness instances : Term) (sols : List (Term × Term))
    (gerr : Option Term) (next fuel : Nat) :
    (∀ e, checkInstances instances = some e →
      collectionOf kind witness instances sols gerr next fuel = .err e) ∧
    (∀ e, checkInstances instances = none → gerr = some e →
      collectionOf kind witness instances sols gerr next fuel = .err e) := by
  constructor
  · intro e h; simp [collectionOf, collectionOfBy, h]
  · intro e h1 h2; simp [collectionOf, collectionOfBy, h1, h2]

/-! ### setof -/

/-- **C11_setof** (the sort): for every total order `cmp` (C08: the standard order) `Env.set` returns
    the list that is strictly ascending — hence duplicate-free — and has exactly the elements of its
    argument. -/
theorem C11_setof {α : Type} (cmp : α → α → Ordering) (h : IsTotalOrder cmp) (l : List α) :
    IsSetOf cmp l (Collect.set cmp l) :=
  set_isSetOf h l

/-- **C11_setof** (as used by `collectionOf`): the terms of a group are compared as resolved in the
    environment after the witness unifications; the list delivered consists of terms of the group, and
    their resolved forms are the sorted duplicate-free list of the resolved forms of the group. -/
theorem C11_setof_aggregate (h : IsTotalOrder compareStd) (e : Env) (fuel : Nat) (ts : List Term) (l : Term)
    (ha : aggregate .set e fuel ts = some l) :
    ∃ (keys : List Term) (out : List (Term × Term)), ts.mapM (applyEnv e fuel []) = some keys ∧ l = Term.list (out.map (·.2)) ∧
      (∀ p ∈ out, p.2 ∈ ts ∧ applyEnv e fuel [] p.2 = some p.1) ∧
      IsSetOf compareStd keys (out.map (·.1)) := by
  simp only [aggregate] at ha
  cases hm : ts.mapM (fun t => (applyEnv e fuel [] t).map fun k => (k, t)) with
  | none => simp [hm] at ha
  | some kts =>
    simp only [hm, Option.some.injEq] at ha
    have hk : ∀ (ts : List Term) (kts : List (Term × Term)),
        ts.mapM (fun t => (applyEnv e fuel [] t).map fun k => (k, t)) = some kts →
        ts.mapM (applyEnv e fuel []) = some (kts.map (·.1)) ∧
        ∀ p ∈ kts, p.2 ∈ ts ∧ applyEnv e fuel [] p.2 = some p.1 := by
      intro ts
      induction ts with
      | nil => intro kts h; simp at h; subst h; simp
      | cons t ts ih =>
        intro kts h
        rw [List.mapM_cons] at h
        cases ht : applyEnv e fuel [] t with
        | none => simp [ht] at h
        | some k =>
          cases hr : ts.mapM (fun t => (applyEnv e fuel [] t).map fun k => (k, t)) with
          | none => simp [ht, hr] at h
          | some rest =>
            simp [ht, hr] at h
            subst h
            obtain ⟨i1, i2⟩ := ih rest hr
            refine ⟨by simp [List.mapM_cons, ht, i1], ?_⟩
            intro p hp
            rcases List.mem_cons.mp hp with rfl | hp
            · simp [ht]
            · exact ⟨List.mem_cons_of_mem _ (i2 p hp).1, (i2 p hp).2⟩
    obtain ⟨hk1, hk2⟩ := hk ts kts hm
    refine ⟨kts.map (·.1), Collect.set (fun a b => compareStd a.1 b.1) kts, hk1, ha.symm, ?_, ?_⟩
    · intro p hp
      exact hk2 p (mem_of_mem_set hp)
    · rw [set_map (cmp := compareStd) (fun p : Term × Term => p.1)]
      exact set_isSetOf h _

/-! ### non-vacuity -/

example : variant d11_AB (Term.a2 "," (.var 5) (.var 3)) = true := by decide +kernel
example : variant d11_CC d11_AB = false := by decide +kernel
example : freeVariables (Term.a2 "^" (.var 3) (Term.a3 "t" (.var 0) (.var 1) (.var 3))) (.var 0) = [1] := by
  decide +kernel
example : checkInstances (Term.list [.var 1] (.var 2)) = none := by decide +kernel
example : (groups [(d11_CC, .int 1), (d11_AB, .int 2), (Term.a2 "," (.var 7) (.var 7), .int 3)]).map (·.map (·.2)) =
    [[.int 1, .int 3], [.int 2]] := by decide +kernel
example : Collect.set compareStd [.int 3, .int 1, .int 3, .atom "a", .int 2] = [.int 1, .int 2, .int 3, .atom "a"] := by
  decide +kernel

end PrologVerif.C11
