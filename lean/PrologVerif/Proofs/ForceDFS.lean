/-
  force_dfs — the trampoline (Model/Promise.lean `force`, instance Model/PTree.lean) finds exactly
  what the recursive reference search (Spec/DFS.lean `dfs`) finds: same result, same order of thunk
  evaluations (trace), same side effects, for every well-scoped promise tree, on top of any stack.

  STATEMENTS ONLY in this header section; the proofs follow.
-/
import PrologVerif.Spec.DFS
import PrologVerif.Proofs.Promise
namespace PrologVerif.ForceDFS
open PrologVerif.Promise PrologVerif.PTree PrologVerif.DFS

/-- ids of the identified frames of a stack (delay promises and markers), top first -/
def ids (stack : List Pr) : List Nat :=
  stack.filterMap fun p => if p.id = 0 then none else some p.id

def cutOpt : Option Nat → List Pr → List Pr
  | none, st => st
  | some c, st => cutStack c st

/-- where the machine is once the subtree that sat on top of `stack` has signalled `sig`:
    `n` is the fuel left, `m` the machine state at that moment -/
def after (sig : Sig) (stack : List Pr) (m : M St) (n : Nat) : Option (Res Nat × M St) :=
  match sig with
  | .found => some (.yes, m)
  | .exhausted co => force sem none n (cutOpt co stack) m
  | .raised e co =>
    match recoverStack sem e (cutOpt co stack) m with
    | (none, m') => some (.error e, m')
    | (some st', m') => force sem none n st' m'
  | .illScoped => none

/-- the statement of force_dfs for a subtree `t` whose promise sits on top of `stack` -/
def ForceDfsStatement : Prop :=
  ∀ (k : Nat) (t : PT) (live : List Nat) (s s' : St) (sig : Sig),
    dfs k t live s = some (sig, s') → sig ≠ .illScoped →
    ∀ (stack : List Pr), ids stack = live → live.Nodup →
      ∃ cost di, ∀ n i,
        force sem none (n + cost) ((evalThunk t ⟨s, i⟩).1 :: stack) (evalThunk t ⟨s, i⟩).2
          = after sig stack ⟨s', i + di⟩ n

end PrologVerif.ForceDFS
