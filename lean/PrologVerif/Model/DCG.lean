/-
  Model/DCG — engine/dcg.go (expandDCG, dcgNonTerminal, dcgTerminals, the dcgConstr table,
  dcgBody, dcgCBody, Phrase), engine/builtin.go `expand` (without a user term_expansion/2) and
  engine/iterator.go seqIterator / altIterator as used by compile, function by function.

  Terms are already resolved (the harness calls the real functions with a nil env).  Go's global
  `NewVariable()` counter is an explicit argument: every function that creates variables takes
  the next free variable number `n` and returns the new one (state passing).
  Core Lean only (linked into the driver).
-/
import PrologVerif.Basic
import PrologVerif.Model.Errors
namespace PrologVerif.DCG
open PrologVerif

/-- errors of the translation: Go's `errDCGNotApplicable`, or a Prolog exception (formal only) -/
inductive Err where
  | notApplicable
  | exc (formal : Term)
deriving DecidableEq

abbrev M := Except Err

instance instDecEqExcept {ε α : Type} [DecidableEq ε] [DecidableEq α] : DecidableEq (Except ε α) :=
  fun a b => match a, b with
  | .ok x, .ok y => if h : x = y then isTrue (by rw [h]) else isFalse (by intro e; cases e; exact h rfl)
  | .error x, .error y => if h : x = y then isTrue (by rw [h]) else isFalse (by intro e; cases e; exact h rfl)
  | .ok _, .error _ => isFalse (by intro e; cases e)
  | .error _, .ok _ => isFalse (by intro e; cases e)

/-- engine/vm.go piArg: name and arguments of a callable term -/
def piArg : Term → M (String × List Term)
  | .var _ => .error (.exc instErr)
  | .atom a => .ok (a, [])
  | .app f as => .ok (f, as.toList)
  | t => .error (.exc (typeErr "callable" t))

/-- dcg.go dcgNonTerminal: `name(args…, list, rest)` -/
def dcgNonTerminal (nonTerminal list rest : Term) : M Term :=
  match piArg nonTerminal with
  | .error e => .error e
  | .ok (name, args) => .ok (Term.mk name (args ++ [list, rest]))

/-- dcg.go dcgTerminals: `list = [elems… | rest]`; the ListIterator raises an instantiation error
    on a partial list and type_error(list, terminals) on anything that is not a list -/
def dcgTerminals (terminals list rest : Term) : M Term :=
  match terminals.spine with
  | (elems, .var _) => let _ := elems; .error (.exc instErr)
  | (elems, .atom a) =>
    if a = "[]" then .ok (Term.a2 "=" list (Term.list elems rest))
    else .error (.exc (typeErr "list" terminals))
  | (_, _) => .error (.exc (typeErr "list" terminals))

/-- is the term `(_ -> _)`?  (the test in the `;` entry of dcgConstr) -/
def isThen : Term → Bool
  | .app "->" (.cons _ (.cons _ .nil)) => true
  | _ => false

/-- dcg.go dcgBody, given the result `cbody` of `dcgCBody term list rest n`: a variable body is
    `phrase(V, list, rest)`; "not applicable" falls back to a non-terminal; everything else
    (success or exception) is passed on.  (Separated from `dcgCBody` only so that the latter is
    structurally recursive and reduces in the kernel; `dcgBody` below ties the knot and
    `dcgCBody_*`/`dcgBody_eq` restate the Go functions verbatim.) -/
def dcgBodyWith (cbody : M (Term × Nat)) (term list rest : Term) (n : Nat) : M (Term × Nat) :=
  match term with
  | .var v => .ok (Term.a3 "phrase" (.var v) list rest, n)
  | term =>
    match cbody with
    | .error .notApplicable =>
      match dcgNonTerminal term list rest with
      | .ok g => .ok (g, n)
      | .error e => .error e
    | r => r

/-- dcg.go dcgCBody with the dcgConstr table inlined (one match arm per table entry, in the
    order of the Go source); `body x l r k` stands for the Go call `dcgBody(x, l, r, env)` -/
def dcgCBody (term list rest : Term) (n : Nat) : M (Term × Nat) :=
  match term with
  | .var _ => .error (.exc instErr)
  | .atom "[]" => .ok (Term.a2 "=" list rest, n)
  | .app "." (.cons h (.cons t .nil)) =>
    match dcgTerminals (.app "." (.cons h (.cons t .nil))) list rest with
    | .ok g => .ok (g, n)
    | .error e => .error e
  | .app "," (.cons a (.cons b .nil)) =>
    let v := Term.var n
    match dcgBodyWith (dcgCBody a list v (n + 1)) a list v (n + 1) with
    | .error e => .error e
    | .ok (first, n1) =>
      match dcgBodyWith (dcgCBody b v rest n1) b v rest n1 with
      | .error e => .error e
      | .ok (second, n2) => .ok (Term.a2 "," first second, n2)
  | .app ";" (.cons a (.cons b .nil)) =>
    match (if isThen a then dcgCBody a list rest n
           else dcgBodyWith (dcgCBody a list rest n) a list rest n) with
    | .error e => .error e
    | .ok (either, n1) =>
      match dcgBodyWith (dcgCBody b list rest n1) b list rest n1 with
      | .error e => .error e
      | .ok (or, n2) => .ok (Term.a2 ";" either or, n2)
  | .app "|" (.cons a (.cons b .nil)) =>
    match dcgBodyWith (dcgCBody a list rest n) a list rest n with
    | .error e => .error e
    | .ok (either, n1) =>
      match dcgBodyWith (dcgCBody b list rest n1) b list rest n1 with
      | .error e => .error e
      | .ok (or, n2) => .ok (Term.a2 ";" either or, n2)
  | .app "{}" (.cons g .nil) => .ok (Term.a2 "," g (Term.a2 "=" list rest), n)
  | .app "call" (.cons g .nil) => .ok (Term.a3 "call" g list rest, n)
  | .app "phrase" (.cons g .nil) => .ok (Term.a3 "phrase" g list rest, n)
  | .atom "!" => .ok (Term.a2 "," (.atom "!") (Term.a2 "=" list rest), n)
  | .app "\\+" (.cons g .nil) =>
    let v := Term.var n
    match dcgBodyWith (dcgCBody g list v (n + 1)) g list v (n + 1) with
    | .error e => .error e
    | .ok (g', n1) => .ok (Term.a2 "," (Term.a1 "\\+" g') (Term.a2 "=" list rest), n1)
  | .app "->" (.cons c (.cons t .nil)) =>
    let v := Term.var n
    match dcgBodyWith (dcgCBody c list v (n + 1)) c list v (n + 1) with
    | .error e => .error e
    | .ok (cond, n1) =>
      match dcgBodyWith (dcgCBody t v rest n1) t v rest n1 with
      | .error e => .error e
      | .ok (thn, n2) => .ok (Term.a2 "->" cond thn, n2)
  | .atom _ => .error .notApplicable
  | .app _ _ => .error .notApplicable
  | t => .error (.exc (typeErr "callable" t))
termination_by structural term

/-- dcg.go dcgBody -/
def dcgBody (term list rest : Term) (n : Nat) : M (Term × Nat) :=
  dcgBodyWith (dcgCBody term list rest n) term list rest n

/-- dcg.go expandDCG.  `n` = next free variable; s0, s1, s are always created, in this order. -/
def expandDCG (term : Term) (n : Nat) : M (Term × Nat) :=
  match term with
  | .app "-->" (.cons h (.cons b .nil)) =>
    let s0 := Term.var n
    let s1 := Term.var (n + 1)
    let s := Term.var (n + 2)
    match h with
    | .app "," (.cons nt (.cons pb .nil)) =>
      match dcgNonTerminal nt s0 s with
      | .error e => .error e
      | .ok head =>
        match dcgBody b s0 s1 (n + 3) with
        | .error e => .error e
        | .ok (goal1, n1) =>
          match dcgTerminals pb s s1 with
          | .error e => .error e
          | .ok goal2 => .ok (Term.a2 ":-" head (Term.a2 "," goal1 goal2), n1)
    | h =>
      match dcgNonTerminal h s0 s with
      | .error e => .error e
      | .ok head =>
        match dcgBody b s0 s (n + 3) with
        | .error e => .error e
        | .ok (body, n1) => .ok (Term.a2 ":-" head body, n1)
  | _ => .error .notApplicable

/-- builtin.go expand, for a VM without term_expansion/2: any error of expandDCG (not applicable
    or an exception) leaves the term as it is -/
def expand (term : Term) (n : Nat) : Term × Nat :=
  match expandDCG term n with
  | .ok r => r
  | .error _ => (term, n)

/-- dcg.go Phrase: the goal phrase/3 hands to Call, or the error it raises (an unbound body is an
    instantiation error: its translation phrase(V, S0, S) would call Phrase again, forever) -/
def phraseGoal (grBody s0 s : Term) (n : Nat) : M (Term × Nat) :=
  match grBody with
  | .var _ => .error (.exc instErr)
  | grBody => dcgBody grBody s0 s n

/-! ### iterator.go as used by compile (clause.go) -/

/-- the rotation loop of seqIterator.Next: `first` is the left conjunct under inspection,
    `rest` the remaining sequence -/
def seqRotate : Term → Term → Term × Term
  | .app "," (.cons a (.cons b .nil)), rest => seqRotate a (Term.a2 "," b rest)
  | first, rest => (first, rest)

/-- the goals seqIterator yields for a body (fuel = number of Next calls; `size` of the body
    is always enough) -/
def seqItems : Nat → Term → List Term
  | 0, _ => []
  | fuel + 1, .app "," (.cons a (.cons b .nil)) =>
    let (first, rest) := seqRotate a b
    first :: seqItems fuel rest
  | _ + 1, t => [t]

/-- the bodies altIterator yields (a right-nested `;` is split unless its left argument is an
    if-then: then the whole disjunction is one body) -/
def altItems : Term → List Term
  | .app ";" (.cons a (.cons b .nil)) =>
    if isThen a then [.app ";" (.cons a (.cons b .nil))] else a :: altItems b
  | t => [t]

end PrologVerif.DCG
