/-
  P2 (writeq with operators reads back): definitions.

  * `qt e G t o`: the token sequence the text `writeTerm e t o` lexes to, defined by the same recursion
    as the writer (same conditions for brackets; a `(` is an "open" token iff the writer puts a space
    before it, an "open ct" token otherwise).
  * `tableOK`: the part of the invariant of the operator table (`Ops.Valid`, Properties/C18) the round
    trip needs, as a decidable check.
  * `noVAR`: the term has no `'$VAR'(N)` (writeq prints it as a variable name — by design).
-/
import PrologVerif.Proofs.CanonParse
import PrologVerif.Spec.OpTable
set_option linter.unusedSimpArgs false
set_option linter.unusedVariables false
namespace PrologVerif.Write
open PrologVerif PrologVerif.Lexer PrologVerif.Ops PrologVerif.Read

/-! ## hypotheses on the table and the term -/

/-- what the round trip needs of the operator table: priorities ≤ 1200; never an infix and a postfix
    operator of one name; `,` only as the infix operator of priority 1000; `|` only infix, ≥ 1001;
    `[]` and `{}` are not operators -/
def tableOK (t : Table) : Bool :=
  t.all fun o =>
    decide (o.pri ≤ 1200) &&
    !(o.spec.cls = .inf && definedInClass t o.name .post) &&
    !(o.spec.cls = .post && definedInClass t o.name .inf) &&
    decide (o.name = "," → o.spec.cls = .inf ∧ o.pri = 1000) &&
    decide (o.name = "|" → o.spec.cls = .inf ∧ 1001 ≤ o.pri) &&
    decide (o.name ≠ "[]" ∧ o.name ≠ "{}")

mutual
  /-- no subterm `'$VAR'(N)` with an integer `N ≥ 0` -/
  def noVAR : Term → Bool
    | .app f as => !(f = "$VAR" && isVarArg as) && noVARArgs as
    | _ => true
  def noVARArgs : Args → Bool
    | .nil => true
    | .cons t ts => noVAR t && noVARArgs ts
  def isVarArg : Args → Bool
    | .cons (.int n) .nil => decide (n ≥ 0)
    | _ => false
end

/-- the float parameters agree on the sign: `FormatFloat` prints `-` exactly for a set sign bit -/
def SignOK (G : UInt64 → GText) (P : UInt64 → Bool) : Prop := ∀ b, P b = true → signbit b = (G b).neg

/-! ## the tokens of the written text -/

def openTok (spaced : Bool) : Token := if spaced then ⟨.open_, ['(']⟩ else ⟨.openCT, ['(']⟩
def closeTok : Token := ⟨.close, [')']⟩
def commaTok : Token := ⟨.comma, [',']⟩
def barTok : Token := ⟨.bar, ['|']⟩

/-- `Atom.WriteTerm` -/
def tAtom (e : Env) (o : WOpts) (a : List Char) : List Token :=
  if (o.left.isSome || o.right.isSome) && defined o.ops (String.ofList a) then
    [openTok (isPrefixOp o.left)] ++ atomTokens e.cfg a ++ [closeTok]
  else atomTokens e.cfg a

/-- `Integer.WriteTerm` -/
def tInt (o : WOpts) (i : Int) : List Token :=
  if isPrefixMinus o.left && decide (i ≥ 0) then [openTok true] ++ intTokens i ++ [closeTok]
  else intTokens i

/-- `Float.WriteTerm` -/
def tFloat (G : UInt64 → GText) (o : WOpts) (b : UInt64) : List Token :=
  if isPrefixMinus o.left && !signbit b then [openTok true] ++ floatTokens (G b) ++ [closeTok]
  else floatTokens (G b)

/-- the operator between the operands of `writeCompoundOpInfix` -/
def opToks (e : Env) (f : String) : List Token :=
  if f = "," then [commaTok] else if f = "|" then [barTok] else atomTokens e.cfg f.toList

def prefixOC (o : WOpts) (op : Op) : Bool :=
  decide (o.priority < op.pri) ||
    (match o.right with | some ro => decide ((bindingPriorities op).2 ≥ ro.pri) | none => false)

def postfixOC (o : WOpts) (op : Op) : Bool := decide (o.priority < op.pri) || isPrefixMinus o.left

def infixOC (o : WOpts) (op : Op) : Bool :=
  decide (o.priority < op.pri) || isPrefixMinus o.left ||
    (match o.right with | some ro => decide ((bindingPriorities op).2 ≥ ro.pri) | none => false)

/-- the options inside the brackets (or the same options if there are none) -/
def inner (oc : Bool) (o : WOpts) : WOpts := if oc then o.bare else o

/-- `writeCompoundOpPrefix` -/
def tPrefix (e : Env) (f : String) (wa : WOpts → List Token) (o : WOpts) (op : Op) : List Token :=
  let oc := prefixOC o op
  (if oc then [openTok o.left.isSome] else []) ++ atomTokens e.cfg f.toList ++
  wa { inner oc o with priority := (bindingPriorities op).2, left := some op } ++
  (if oc then [closeTok] else [])

/-- `writeCompoundOpPostfix` -/
def tPostfix (e : Env) (f : String) (wa : WOpts → List Token) (o : WOpts) (op : Op) : List Token :=
  let oc := postfixOC o op
  (if oc then [openTok o.left.isSome] else []) ++
  wa { inner oc o with priority := (bindingPriorities op).1, right := some op } ++
  atomTokens e.cfg f.toList ++
  (if oc then [closeTok] else [])

/-- `writeCompoundOpInfix` -/
def tInfix (e : Env) (f : String) (wa wb : WOpts → List Token) (o : WOpts) (op : Op) : List Token :=
  let oc := infixOC o op
  (if oc then [openTok (isPrefixOp o.left)] else []) ++
  wa { inner oc o with priority := (bindingPriorities op).1, right := some op } ++
  opToks e f ++
  wb { inner oc o with priority := (bindingPriorities op).2, left := some op } ++
  (if oc then [closeTok] else [])

mutual
  /-- the tokens of `writeTerm e t o` (for options with `quoted`, without `ignore_ops`, on terms without `'$VAR'(N)`) -/
  def qt (e : Env) (G : UInt64 → GText) : Term → WOpts → List Token
    | .var v, _ => [⟨.variable, e.varName v⟩]
    | .atom a, o => tAtom e o a.toList
    | .int i, o => tInt o i
    | .flt b, o => tFloat G o b
    | .str _, _ => []
    | .app f as, o => qtC e G f as o
  /-- `WriteCompound` -/
  def qtC (e : Env) (G : UInt64 → GText) (f : String) : Args → WOpts → List Token
    | .nil, _ => []
    | .cons a0 .nil, o =>
      if f = "{}" then [⟨.openCurly, ['{']⟩] ++ qt e G a0 { o with left := none } ++ [⟨.closeCurly, ['}']⟩]
      else
        match pickOp o.ops f 1 with
        | some opr =>
          if opr.spec.cls = .pre then tPrefix e f (qt e G a0) o opr
          else tPostfix e f (qt e G a0) o opr
        | none => atomTokens e.cfg f.toList ++ [openTok false] ++ qt e G a0 (o999 o) ++ [closeTok]
    | .cons a0 (.cons a1 .nil), o =>
      if f = "." then [⟨.openList, ['[']⟩] ++ qt e G a0 (o999 o) ++ qtL e G a1 (o999 o) ++ [⟨.closeList, [']']⟩]
      else
        match pickOp o.ops f 2 with
        | some opr => tInfix e f (qt e G a0) (qt e G a1) o opr
        | none =>
          atomTokens e.cfg f.toList ++ [openTok false] ++ qt e G a0 (o999 o) ++ [commaTok] ++ qt e G a1 (o999 o) ++ [closeTok]
    | .cons a0 (.cons a1 (.cons a2 rest)), o =>
      atomTokens e.cfg f.toList ++ [openTok false] ++ qt e G a0 (o999 o) ++ [commaTok] ++ qt e G a1 (o999 o) ++
        [commaTok] ++ qt e G a2 (o999 o) ++ qtA e G rest (o999 o) ++ [closeTok]
  /-- `writeListTail` -/
  def qtL (e : Env) (G : UInt64 → GText) : Term → WOpts → List Token
    | .app f (.cons h (.cons t .nil)), o =>
      if f = "." then [commaTok] ++ qt e G h o ++ qtL e G t o
      else [barTok] ++ qtC e G f (.cons h (.cons t .nil)) o
    | .app f as, o => [barTok] ++ qtC e G f as o
    | .atom a, o => if a = "[]" then [] else [barTok] ++ tAtom e o a.toList
    | .var v, _ => [barTok, ⟨.variable, e.varName v⟩]
    | .int i, o => [barTok] ++ tInt o i
    | .flt b, o => [barTok] ++ tFloat G o b
    | .str _, _ => []
  /-- `writeArgsTail` -/
  def qtA (e : Env) (G : UInt64 → GText) : Args → WOpts → List Token
    | .nil, _ => []
    | .cons a rest, o => [commaTok] ++ qt e G a o ++ qtA e G rest o
end

/-! ## what follows a written term -/

/-- the characters the writer puts after a term that is not followed by an operator (and the space of ` .`) -/
def Closer (c : Char) : Prop := c = ' ' ∨ c = ')' ∨ c = ',' ∨ c = '|' ∨ c = ']' ∨ c = '}'

/-- the text of an operator between / after its operands -/
def opText (e : Env) (f : String) : List Char :=
  if f = "," ∨ f = "|" then f.toList else atomText e.cfg f.toList

/-- the text after a term written under the options `o`: a closer, or the text of the operator `o.right` -/
def TailOK (e : Env) (o : WOpts) (tail : List Char) : Prop :=
  HeadIs Closer tail ∨ ∃ ro tail', o.right = some ro ∧ tail = opText e ro.name ++ tail'

/-- the options of `writeq` at every position of the term -/
structure QOpts (ops : Table) (o : WOpts) : Prop where
  ign : o.ignoreOps = false
  quo : o.quoted = true
  nvs : o.numberVars = true
  tab : o.ops = ops
  pri : o.priority ≤ 1200

/-- the options `writeq` starts with -/
def qopts (ops : Table) : WOpts := { ops := ops, quoted := true, numberVars := true }

theorem qopts_ok (ops : Table) : QOpts ops (qopts ops) := ⟨rfl, rfl, rfl, rfl, Nat.le_refl _⟩

end PrologVerif.Write
