/-
  C09 — database updates follow the logical update view; retract removes its match.

  Property theorems only (helper lemmas: Proofs/DB.lean).  They are about `Model/DB.lean`, which
  mirrors engine/builtin.go `Assertz/Asserta/assertMerge/Retract/Abolish/rulify`, engine/clause.go
  `clauses.call/compile/indexOf/is` and vm.go `piArg/Arrive`; the tie to the source is the
  correspondence stream `c09.hist` (variant `.fixed` = the repaired `Retract`).  The specification
  is `Spec/LUV.lean`.

  A history is an arbitrary `List Op`: handles of `next`/`close` are arbitrary numbers, so every
  interleaving of open calls and open retracts with updates is covered — nested (LIFO) or not.
-/
import PrologVerif.Proofs.DBRetractall
import PrologVerif.Generated.Bootstrap
namespace PrologVerif.C09
open PrologVerif PrologVerif.DB

/-! ### identities stay unique (the invariant everything else rests on) -/

/-- after any history, in either variant, the clause identities of every procedure are pairwise
    different and below the allocation counter -/
theorem C09_inv (v : Variant) (m : State) (hinv : Inv m) (h : List Op) : Inv (run v m h).1 :=
  run_inv v m hinv h

theorem C09_inv_empty : Inv State.empty := inv_empty

/-! ### the repaired code refines the logical update view, for all histories -/

/-- **C09_retract_refines_luv**: from any state with unique identities, for EVERY history (any
    interleaving of asserta/assertz/abolish with opening, backtracking into and closing calls and
    retracts — on the predicate being enumerated or not, duplicates and variables included), the
    model of the repaired code produces exactly the outputs of the logical-update-view machine
    (every answer of every call and retract, every error, every listing) and ends in the same
    database and the same open iterators. -/
theorem C09_retract_refines_luv (m : State) (hinv : Inv m) (h : List Op) :
    LUV.run (abs m) h = (abs (run .fixed m h).1, (run .fixed m h).2) :=
  run_refines m hinv h

/-- the same from the empty database -/
theorem C09_retract_refines_luv_empty (h : List Op) :
    (run .fixed State.empty h).2 = (LUV.run LUV.State.empty h).2 ∧
    abs (run .fixed State.empty h).1 = (LUV.run LUV.State.empty h).1 := by
  have := run_refines State.empty inv_empty h
  have he : abs State.empty = LUV.State.empty := rfl
  rw [he] at this
  rw [this]
  exact ⟨rfl, rfl⟩

/-- the history of DESIGN §7 D9: `retract(p(X)), asserta(p(0)), fail` over p(1), p(2) -/
def witnessHistory : List Op :=
  let p := fun (t : Term) => Term.a1 "p" t
  [ .assertz (p (.int 1)), .assertz (p (.int 2)),
    .openRetract (p (.var 0)), .next 0, .asserta (p (.int 0)), .next 0,
    .listing ⟨"p", 1⟩ ]

/-- **C09_retract_positional_witness**: the PINNED arithmetic (`j := i - deleted` on the current
    slice) does not refine the logical update view: in the history above the second solution
    unifies with p(2) but deletes the freshly asserted p(0). -/
theorem C09_retract_positional_witness :
    ¬ ∀ h : List Op, (run .pinned State.empty h).2 = (LUV.run LUV.State.empty h).2 := by
  intro H
  exact absurd (H witnessHistory) (by decide +kernel)

/-- what the pinned code leaves behind in that history, and what it should -/
example : (run .pinned State.empty witnessHistory).2.getLast? =
    some (.listing true true [Term.a1 "p" (.int 2)]) := by decide +kernel
example : (run .fixed State.empty witnessHistory).2.getLast? =
    some (.listing true true [Term.a1 "p" (.int 0)]) := by decide +kernel

/-! ### retract removes exactly the clause it unified with, and each clause at most once -/

/-- **C09_retract_removes_its_match**: on the repaired code, when backtracking into a retract
    (handle `h`, pattern `pat`, remaining snapshot `rest`) delivers an answer, then there is a
    snapshot clause `c` that is still in the database and whose (renamed) clause term unifies with
    the pattern — the answer is the pattern so instantiated —; the database afterwards is the
    database before with exactly the identity of `c` filtered out of its predicate; and the
    iterator has advanced past `c`.  Snapshot clauses in front of `c` were skipped (no match, or
    no longer present). -/
theorem C09_retract_removes_its_match (m : State) (hinv : Inv m) (h : Nat) (pat : Term) (pi : PI)
    (rest : List Stored) (i d : Nat) (t : Term)
    (hans : (nextRetract .fixed m h pat pi rest i d).2 = .answer t) :
    ∃ skipped c rest' nv σ, rest = skipped ++ c :: rest' ∧
      LUV.present m.procs pi c.id = true ∧
      unify fuelU [] (rulify pat) (rulify (shift nv c.raw)) = some σ ∧ t = resolve fuelU σ pat ∧
      (nextRetract .fixed m h pat pi rest i d).1.procs = LUV.erase m.procs pi c.id ∧
      LUV.present (nextRetract .fixed m h pat pi rest i d).1.procs pi c.id = false := by
  have hr := nextRetract_refines m hinv h pat pi rest i d
  have hans' : (LUV.redoRetract (abs m) h pat pi rest).2 = .answer t := by rw [hr]; exact hans
  obtain ⟨skipped, c, rest', nv, σ, h1, h2, h3, h4, h5, _⟩ := LUV_redoRetract_answer h pat pi rest (abs m) t hans'
  rw [hr] at h5
  simp only [abs_procs] at h2 h5
  exact ⟨skipped, c, rest', nv, σ, h1, h2, h3, h4, h5, by rw [h5]; exact LUV_present_erase _ _ _⟩

/-- identities are never reused: clauses asserted later get identities at or above the counter,
    every clause in the database is below it (`Inv`) — so a removed clause cannot come back and
    be removed again -/
theorem C09_asserted_ids_are_fresh (m : State) (c : Term) (front : Bool) (pi : PI) (p' : Proc)
    (hinv : Inv m) (hg : (assertMerge m c front).1.procs.get pi = some p') :
    ∀ d ∈ p'.clauses, (∃ p, m.procs.get pi = some p ∧ d ∈ p.clauses) ∨ m.nextId ≤ d.id := by
  revert hg
  fun_cases assertMerge m c front with
  | case1 e h => intro hg d hd; exact Or.inl ⟨p', hg, hd⟩
  | case2 pi0 h e hc => intro hg d hd; exact Or.inl ⟨p', hg, hd⟩
  | case3 pi0 h raws hc p hd0 => intro hg d hd; exact Or.inl ⟨p', hg, hd⟩
  | case4 pi0 h raws hc p hd0 added cs =>
    intro hg d hd
    simp only [Procs.get_set] at hg
    split at hg
    · rename_i hpp
      subst hpp
      simp only [Option.some.injEq] at hg
      subst hg
      have hmem : d ∈ added ∨ d ∈ p.clauses := by
        simp only [cs] at hd
        cases front
        · simp at hd; exact hd.symm
        · simp at hd; exact hd
      rcases hmem with hm | hm
      · exact Or.inr (mem_stamp hm).1
      · left
        simp only [p] at hm
        split at hm
        · rename_i p0 hg0; exact ⟨p0, hg0, hm⟩
        · cases hm
    · exact Or.inl ⟨p', hg, hd⟩

/-! ### a call sees the clauses that existed when it was called -/

/-- opening a call takes the whole clause list of the procedure, in order, at that moment -/
theorem C09_call_opens_snapshot (m : State) (goal : Term) (pi : PI) (p : Proc)
    (hpi : piArg goal = .ok pi) (hg : m.procs.get pi = some p) :
    openCall m goal = ({ m with iters := m.iters ++ [.call goal p.clauses []] }, .opened m.iters.length) := by
  simp [openCall, hpi, hg, pushIter]

/-- **C09_call_sees_snapshot**: whatever happens after a call was opened — any history, in either
    variant, with any updates of the very predicate being enumerated, as long as the iterator
    itself is not closed — what the iterator still holds is a SUFFIX of the call-time clause list
    `S` (plus the answers still pending of the clause in hand): nothing is ever added to it,
    removed from it or reordered; it only advances. -/
theorem C09_call_sees_snapshot (v : Variant) (m : State) (h : Nat) (goal : Term) (S : List Stored)
    (pend : List Term) (hopen : m.iters[h]? = some (.call goal S pend)) (ops : List Op)
    (hnc : Op.close h ∉ ops) :
    ∃ k pend', (run v m ops).1.iters[h]? = some (.call goal (S.drop k) pend') := by
  induction ops generalizing m S pend with
  | nil => exact ⟨0, pend, by simpa [run] using hopen⟩
  | cons o ops ih =>
    have hh : h < m.iters.length := by
      rcases Nat.lt_or_ge h m.iters.length with hlt | hge
      · exact hlt
      · rw [List.getElem?_eq_none hge] at hopen; cases hopen
    have hnc' : Op.close h ∉ ops := fun hm => hnc (List.mem_cons_of_mem _ hm)
    have ho2 : o ≠ .close h := fun e => hnc (by simp [e])
    unfold run
    by_cases ho : o = .next h
    · subst ho
      have hstep : ∃ k pend', (step v m (.next h)).1.iters[h]? = some (.call goal (S.drop k) pend') := by
        cases pend with
        | cons a more =>
          simp only [step, next, hopen]
          exact ⟨0, more, by simp [List.getElem?_set_self hh]⟩
        | nil =>
          simp only [step, next, hopen]
          obtain ⟨k, pend', hk⟩ := nextCall_iters m h goal S
          exact ⟨k, pend', by rw [hk, List.getElem?_set_self hh]⟩
      obtain ⟨k, pend', hk⟩ := hstep
      obtain ⟨k', pend'', hk'⟩ := ih _ _ _ hk hnc'
      exact ⟨k + k', pend'', by simpa [List.drop_drop, Nat.add_comm] using hk'⟩
    · have hf := step_frame v m h hh o ho ho2
      rw [hopen] at hf
      exact ih _ _ _ hf hnc'

/-- the answer of backtracking into a call is a function of the goal, the snapshot and the
    variable counter alone: two states with arbitrarily different databases give the same answer
    and leave the same snapshot remainder (non-interference of updates with open calls) -/
theorem C09_call_answer_independent_of_db (m m' : State) (h h' : Nat) (goal : Term) (S : List Stored)
    (hv : m.nextVar = m'.nextVar) :
    (nextCall m h goal S).2 = (nextCall m' h' goal S).2 ∧
    (nextCall m h goal S).1.nextVar = (nextCall m' h' goal S).1.nextVar ∧
    ∃ k pend, (nextCall m h goal S).1.iters = m.iters.set h (.call goal (S.drop k) pend) ∧
         (nextCall m' h' goal S).1.iters = m'.iters.set h' (.call goal (S.drop k) pend) := by
  induction S generalizing m m' with
  | nil => exact ⟨rfl, hv, 0, [], rfl, rfl⟩
  | cons c S ih =>
    unfold nextCall
    dsimp only
    rw [hv]
    split
    · exact ⟨rfl, rfl, 1, _, rfl, rfl⟩
    · obtain ⟨h1, h2, k, pend, h3, h4⟩ := ih { m with nextVar := m'.nextVar + maxVar c.raw }
        { m' with nextVar := m'.nextVar + maxVar c.raw } rfl
      exact ⟨h1, h2, k + 1, pend, h3, h4⟩

/-! ### the answers of a call: clause by clause, in database order -/

/-- all answers of a goal over a clause list: for each clause IN ORDER its answers (head
    unification, then the solutions of its own alternative) -/
def allAnswers (goal : Term) : Nat → List Stored → List Term
  | _, [] => []
  | nv, c :: cs => clauseAnswers nv goal c ++ allAnswers goal (nv + maxVar c.raw) cs

/-- backtrack into iterator `h` until it is exhausted, collecting the answers -/
def drainCall (v : Variant) : Nat → State → Nat → List Term
  | 0, _, _ => []
  | fuel + 1, st, h =>
    match next v st h with
    | (st', .answer a) => a :: drainCall v fuel st' h
    | _ => []

theorem nextCall_answers (m : State) (h : Nat) (hh : h < m.iters.length) (goal : Term) (S : List Stored) :
    ((nextCall m h goal S).2 = .no ∧ allAnswers goal m.nextVar S = []) ∨
    (∃ a more S', (nextCall m h goal S).2 = .answer a ∧
      (nextCall m h goal S).1.iters[h]? = some (.call goal S' more) ∧
      h < (nextCall m h goal S).1.iters.length ∧
      allAnswers goal m.nextVar S = a :: more ++ allAnswers goal (nextCall m h goal S).1.nextVar S') := by
  induction S generalizing m with
  | nil => left; exact ⟨rfl, rfl⟩
  | cons c S ih =>
    unfold nextCall
    dsimp only
    cases hca : clauseAnswers m.nextVar goal c with
    | cons a more =>
      right
      exact ⟨a, more, S, rfl, by simp [List.getElem?_set_self hh], by simpa using hh, by simp [allAnswers, hca]⟩
    | nil =>
      simp only
      rcases ih { m with nextVar := m.nextVar + maxVar c.raw } hh with ⟨h1, h2⟩ | ⟨a, more, S', h1, h2, h3, h4⟩
      · left; exact ⟨h1, by simp [allAnswers, hca, h2]⟩
      · right; exact ⟨a, more, S', h1, h2, h3, by simp [allAnswers, hca, h4]⟩

/-- **C09_call_answers_in_database_order**: enumerating an open call to exhaustion delivers, after
    the answers still pending of the clause in hand, for each clause of its snapshot IN ORDER the
    answers of that clause — nothing else, nothing twice (given fuel for one step per answer). -/
theorem C09_call_answers_in_database_order (v : Variant) (fuel : Nat) (m : State) (h : Nat) (goal : Term)
    (S : List Stored) (pend : List Term) (hopen : m.iters[h]? = some (.call goal S pend))
    (hfuel : (pend ++ allAnswers goal m.nextVar S).length < fuel) :
    drainCall v fuel m h = pend ++ allAnswers goal m.nextVar S := by
  induction fuel generalizing m S pend with
  | zero => cases hfuel
  | succ fuel ih =>
    have hh : h < m.iters.length := by
      rcases Nat.lt_or_ge h m.iters.length with hlt | hge
      · exact hlt
      · rw [List.getElem?_eq_none hge] at hopen; cases hopen
    unfold drainCall
    cases pend with
    | cons a more =>
      simp only [next, hopen]
      rw [ih _ S more (by simp [List.getElem?_set_self hh]) (by simp at hfuel ⊢; omega)]
      rfl
    | nil =>
      simp only [next, hopen]
      rcases nextCall_answers m h hh goal S with ⟨h1, h2⟩ | ⟨a, more, S', h1, h2, h3, h4⟩
      · cases hr : nextCall m h goal S with
        | mk m1 o =>
          rw [hr] at h1
          simp only at h1
          subst h1
          simp [h2]
      · cases hr : nextCall m h goal S with
        | mk m1 o =>
          rw [hr] at h1 h2 h3 h4
          simp only at h1 h2 h3 h4
          subst h1
          simp only [List.nil_append]
          rw [h4] at hfuel ⊢
          rw [ih m1 S' more h2 (by simp at hfuel ⊢; omega)]
          rfl

/-- a call never changes the database -/
theorem C09_call_does_not_update (m : State) (h : Nat) (goal : Term) (S : List Stored) :
    (nextCall m h goal S).1.procs = m.procs := (nextCall_frame m h goal S).1

/-! ### asserta / assertz insert at the front / at the end -/

/-- **C09_assert_position**: asserting a clause term `c` that compiles to the clauses `raws`
    into a procedure that is dynamic or does not exist yet succeeds, puts them in front of
    (asserta) resp. behind (assertz) the existing clauses, creates the procedure as dynamic if
    needed, and changes no other procedure and no open iterator. -/
theorem C09_assert_position (m : State) (c : Term) (front : Bool) (pi : PI) (raws : List Term)
    (hpi : clausePI c = .ok pi) (hc : compile c = .ok raws)
    (hdyn : ∀ p, m.procs.get pi = some p → p.dynamic = true) :
    (assertMerge m c front).2 = none ∧
    ((assertMerge m c front).1.procs.get pi).map (fun p => (p.dynamic, p.clauses.map (·.raw))) =
      some (true, if front then raws ++ (LUV.clausesOf m.procs pi).map (·.raw)
                  else (LUV.clausesOf m.procs pi).map (·.raw) ++ raws) ∧
    (∀ pi', pi' ≠ pi → (assertMerge m c front).1.procs.get pi' = m.procs.get pi') ∧
    (assertMerge m c front).1.iters = m.iters := by
  have hz : (raws.zip (altsOf c)).map (·.1) = raws := by
    rw [List.map_fst_zip]
    rw [(compile_zip hc).2]; exact Nat.le_refl _
  unfold assertMerge
  simp only [hpi, hc, LUV.clausesOf]
  rcases Option.eq_none_or_eq_some (m.procs.get pi) with hg | ⟨p, hg⟩
  · simp only [hg]
    refine ⟨by simp, ?_, ?_, by simp⟩
    · cases front <;> simp [Procs.get_set, raws_stamp, hz]
    · intro pi' hne; simp [Procs.get_set, hne]
  · have hd := hdyn p hg
    simp only [hg, hd]
    refine ⟨by simp, ?_, ?_, by simp⟩
    · cases front <;> simp [Procs.get_set, raws_stamp, hz]
    · intro pi' hne; simp [Procs.get_set, hne]

/-- **C09_assert_block_order**: a clause term whose body has the top-level alternatives
    `A1 ; … ; An` is stored as n clauses — the i-th keeps the whole term as its source and EXECUTES
    `Ai` — and these n clauses go into the procedure as ONE BLOCK IN THE ORDER OF THE ALTERNATIVES:
    in front of all older clauses for asserta/1, behind them for assertz/1.  (The listing by
    clause/2 cannot show the order inside the block, every clause having the same source term;
    the answers of a call do: `C09_call_answers_in_database_order`.) -/
theorem C09_assert_block_order (m : State) (c : Term) (front : Bool) (pi : PI) (raws : List Term)
    (hpi : clausePI c = .ok pi) (hc : compile c = .ok raws)
    (hdyn : ∀ p, m.procs.get pi = some p → p.dynamic = true) :
    ((assertMerge m c front).1.procs.get pi).map (fun p => p.clauses.map (fun d => (d.raw, d.body))) =
      some (if front
        then (altsOf c).map (fun a => (c, a)) ++ (LUV.clausesOf m.procs pi).map (fun d => (d.raw, d.body))
        else (LUV.clausesOf m.procs pi).map (fun d => (d.raw, d.body)) ++ (altsOf c).map (fun a => (c, a))) := by
  unfold assertMerge
  simp only [hpi, hc, LUV.clausesOf, (compile_zip hc).1]
  rcases Option.eq_none_or_eq_some (m.procs.get pi) with hg | ⟨p, hg⟩
  · simp only [hg]
    cases front <;> simp [Procs.get_set, pairs_stamp]
  · have hd := hdyn p hg
    simp only [hg, hd]
    cases front <;> simp [Procs.get_set, pairs_stamp]

/-- the outside tester's scenario: `asserta((r(X) :- (X = 1 ; X = 2 ; X = 3)))` on top of r(0), then
    a call of r(X): the answers are 1, 2, 3, 0 -/
example :
    let rule := Term.a2 ":-" (Term.a1 "r" (.var 0))
      (Term.a2 ";" (Term.a2 "=" (.var 0) (.int 1)) (Term.a2 ";" (Term.a2 "=" (.var 0) (.int 2)) (Term.a2 "=" (.var 0) (.int 3))))
    let m := (run .fixed { State.empty with nextVar := 100 }
      [.assertz (Term.a1 "r" (.int 0)), .asserta rule, .openCall (Term.a1 "r" (.var 5))]).1
    drainCall .fixed 10 m 0 = [Term.a1 "r" (.int 1), Term.a1 "r" (.int 2), Term.a1 "r" (.int 3), Term.a1 "r" (.int 0)] := by
  decide +kernel

/-- the alternatives of `H :- (A ; B ; C)` are A, B, C — an if-then-else counts as one -/
example : altsOf (Term.a2 ":-" (Term.a1 "r" (.var 0))
    (Term.a2 ";" (Term.a2 "=" (.var 0) (.int 1)) (Term.a2 ";" (Term.a2 "=" (.var 0) (.int 2)) (Term.a2 "=" (.var 0) (.int 3))))) =
    [Term.a2 "=" (.var 0) (.int 1), Term.a2 "=" (.var 0) (.int 2), Term.a2 "=" (.var 0) (.int 3)] := by decide +kernel

/-- a fact (anything that is not a rule `H :- B`) is stored as exactly one clause -/
theorem C09_compile_fact (t : Term) (h : ∀ hd b, t ≠ .app ":-" (.cons hd (.cons b .nil))) :
    compile t = .ok [t] := by
  unfold compile
  split
  · rename_i hd b
    exact absurd rfl (h hd b)
  · rfl

/-! ### abolish -/

/-- **C09_abolish**: abolishing a dynamic procedure removes it (a later call raises an
    existence error) and touches nothing else — in particular no open iterator, which by
    `C09_call_sees_snapshot` goes on delivering the clauses it held. -/
theorem C09_abolish (m : State) (pi : PI) (p : Proc) (hg : m.procs.get pi = some p)
    (hd : p.dynamic = true) :
    abolish m pi.term = ({ m with procs := m.procs.del pi }, none) ∧
    (m.procs.del pi).get pi = none ∧
    (∀ pi', pi' ≠ pi → (m.procs.del pi).get pi' = m.procs.get pi') := by
  obtain ⟨dyn, cs⟩ := p
  simp only at hd
  subst hd
  refine ⟨?_, by simp [Procs.get_del], fun pi' hne => by simp [Procs.get_del, hne]⟩
  unfold abolish PI.term Term.a2
  have h0 : ¬ ((pi.arity : Int) < 0) := by omega
  simp [h0, hg]

/-! ### static procedures cannot be modified -/

/-- **C09_permission**: on a static (or built-in) procedure asserta/assertz of a well-formed
    clause, retract and abolish all raise `permission_error(modify, static_procedure, PI)` and
    leave the whole state as it was. -/
theorem C09_permission (m : State) (pi : PI) (p : Proc) (hg : m.procs.get pi = some p)
    (hs : p.dynamic = false) :
    (∀ c front raws, clausePI c = .ok pi → compile c = .ok raws →
      assertMerge m c front = (m, some (permissionErr "modify" "static_procedure" pi.term))) ∧
    (∀ t, piArg (headOf t) = .ok pi →
      openRetract m t = (m, .error (permissionErr "modify" "static_procedure" pi.term))) ∧
    abolish m pi.term = (m, some (permissionErr "modify" "static_procedure" pi.term)) := by
  refine ⟨?_, ?_, ?_⟩
  · intro c front raws hpi hc
    unfold assertMerge
    simp [hpi, hc, hg, hs]
  · intro t ht
    unfold openRetract
    obtain ⟨b, hb⟩ := headOf_rulify t
    rw [hb]
    simp [ht, hg, hs]
  · obtain ⟨dyn, cs⟩ := p
    simp only at hs
    subst hs
    unfold abolish PI.term Term.a2
    have h0 : ¬ ((pi.arity : Int) < 0) := by omega
    simp [h0, hg, PI.term, Term.a2]

/-- **C09_error_changes_nothing**: in either variant, an operation that raises an error leaves the
    entire state (database, counters, open iterators) exactly as it was -/
theorem C09_error_changes_nothing (v : Variant) (m : State) (o : Op) (e : Term)
    (h : (step v m o).2 = .error e) : (step v m o).1 = m := by
  cases o with
  | asserta c =>
    simp only [step] at h ⊢
    revert h
    fun_cases assertMerge m c true <;> simp [ofErr]
  | assertz c =>
    simp only [step] at h ⊢
    revert h
    fun_cases assertMerge m c false <;> simp [ofErr]
  | abolish pi =>
    simp only [step] at h ⊢
    revert h
    fun_cases abolish m pi <;> simp [ofErr]
  | openCall g =>
    simp only [step] at h ⊢
    revert h
    fun_cases openCall m g <;> simp [pushIter]
  | openRetract t =>
    simp only [step] at h ⊢
    revert h
    fun_cases openRetract m t <;> simp [pushIter]
  | next hd =>
    simp only [step] at h ⊢
    revert h
    fun_cases next v m hd with
    | case1 g rest a more hit => intro h; simp at h
    | case2 g rest hit =>
      intro h
      exfalso
      clear hit
      induction rest generalizing m with
      | nil => simp [nextCall] at h
      | cons c rest ih =>
        unfold nextCall at h
        dsimp only at h
        split at h
        · simp at h
        · exact ih _ h
    | case3 pat pi rest i d hit =>
      intro h
      exfalso
      clear hit
      revert h
      fun_induction nextRetract v m hd pat pi rest i d <;> simp_all
    | case4 hit => intro _; rfl
    | case5 hit => intro _; rfl
  | close hd =>
    simp only [step] at h ⊢
    revert h
    fun_cases close m hd <;> simp
  | listing pi => rfl

/-! ### retractall/1 -/

/-- the clauses of retractall/1 in bootstrap.pl, as the theorems below read them -/
def retractallClauses : List Term :=
  [ Term.a2 ":-" (Term.a1 "retractall" (.var 0))
      (Term.a2 "," (Term.a1 "retract" (Term.a2 ":-" (.var 0) (.var 1))) (.atom "fail")),
    Term.a1 "retractall" (.var 0) ]

def isRetractallClause : Term → Bool
  | .app "retractall" (.cons _ .nil) => true
  | .app ":-" (.cons (.app "retractall" (.cons _ .nil)) (.cons _ .nil)) => true
  | _ => false

/-- tie: these ARE the clauses of retractall/1 that the real parser reads from bootstrap.pl
    (regenerated on every run): a failure-driven loop over `retract((Head :- _))`, then success —
    which is what `DB.retractall` / `DB.drain` execute on the model -/
theorem C09_retractall_bootstrap_tie :
    Generated.bootstrapTerms.filter isRetractallClause = retractallClauses := by decide +kernel

/-- **C09_retractall**: on the repaired code, `retractall(Head)` for a dynamic predicate with
    clauses `cs` (given enough fuel for the loop: one backtrack per clause) always succeeds,
    leaves exactly the clauses whose clause term does not unify with `Head :- _` — in their
    order —, and touches no other predicate. -/
theorem C09_retractall (m : State) (hinv : Inv m) (head : Term) (pi : PI) (cs : List Stored) (fuel : Nat)
    (hpi : piArg head = .ok pi) (hg : m.procs.get pi = some ⟨true, cs⟩) (hf : cs.length < fuel) :
    (retractall .fixed fuel m head).2 = .ok ∧
    (retractall .fixed fuel m head).1.procs.get pi =
      some ⟨true, LUV.survivors (.a2 ":-" head (.var (maxVar head))) m.nextVar cs⟩ ∧
    (∀ pi', pi' ≠ pi → (retractall .fixed fuel m head).1.procs.get pi' = m.procs.get pi') := by
  have hr := retractall_refines fuel m hinv head
  obtain ⟨s', hs, hp, ho, _⟩ := LUV_retractall_spec (abs m) head pi cs fuel hpi hg (hinv pi _ hg).1 hf
  rw [hs] at hr
  simp only [Prod.mk.injEq] at hr
  obtain ⟨h1, h2⟩ := hr
  refine ⟨h2.symm, ?_, ?_⟩
  · have : (abs (retractall .fixed fuel m head).1).procs = s'.procs := by rw [← h1]
    rw [abs_procs] at this
    rw [this]
    exact hp
  · intro pi' hne
    have : (abs (retractall .fixed fuel m head).1).procs = s'.procs := by rw [← h1]
    rw [abs_procs] at this
    rw [this]
    exact ho pi' hne

/-- a survivor does not unify, a removed clause does: `survivors` is a sublist that keeps
    exactly the clauses that fail the (renamed) unification test -/
theorem C09_survivors_sublist (pat : Term) (nv : Nat) (cs : List Stored) :
    (LUV.survivors pat nv cs).Sublist cs := by
  induction cs generalizing nv with
  | nil => exact List.Sublist.slnil
  | cons c cs ih =>
    unfold LUV.survivors
    split
    · exact List.Sublist.cons _ (ih _)
    · exact List.Sublist.cons_cons _ (ih _)

/-- retractall/1 of a predicate that does not exist succeeds and changes no procedure
    (it does not create the predicate either — a deviation from ISO 8.9.5 outside C09) -/
theorem C09_retractall_undefined (m : State) (hinv : Inv m) (head : Term) (pi : PI) (fuel : Nat)
    (hpi : piArg head = .ok pi) (hg : m.procs.get pi = none) :
    (retractall .fixed (fuel + 1) m head).2 = .ok ∧ (retractall .fixed (fuel + 1) m head).1.procs = m.procs := by
  have hr := retractall_refines (fuel + 1) m hinv head
  obtain ⟨h1, h2⟩ := LUV_retractall_undefined (abs m) head pi fuel hpi hg
  rw [hr] at h1 h2
  exact ⟨h1, h2⟩

/-! ### no Go panic -/

/-- **C09_no_panic**: the repaired `Retract` never slices out of range (and `t.(Compound)` after
    `rulify` never fails): no history produces a panic -/
theorem C09_no_panic (m : State) (hinv : Inv m) (h : List Op) : Out.panic ∉ (run .fixed m h).2 := by
  have hr := run_refines m hinv h
  have hn := LUV_run_no_panic (abs m) h
  rw [hr] at hn
  exact hn

/-- the history of DESIGN §7 D9: `retract(q(X)), retract(q(2)), fail` over q(1), q(2) -/
def panicHistory : List Op :=
  let q := fun (t : Term) => Term.a1 "q" t
  [ .assertz (q (.int 1)), .assertz (q (.int 2)),
    .openRetract (q (.var 0)), .next 0, .openRetract (q (.int 2)), .next 1, .next 0 ]

/-- **C09_no_panic_witness**: the pinned arithmetic slices out of range (`[1:0]`) -/
theorem C09_no_panic_witness : ¬ ∀ h : List Op, Out.panic ∉ (run .pinned State.empty h).2 := by
  intro H
  exact absurd (H panicHistory) (by decide +kernel)

example : Out.panic ∉ (run .fixed State.empty panicHistory).2 := by decide +kernel

/-! ### non-vacuity -/

/-- a history in which a call and a retract over the same predicate are open while it is
    updated, stepped alternately (not LIFO) -/
def demoHistory : List Op :=
  let p := fun (t : Term) => Term.a1 "p" t
  [ .assertz (p (.int 1)), .assertz (p (.var 7)), .assertz (p (.int 1)),
    .openCall (p (.var 0)), .openRetract (p (.int 1)),
    .next 0, .next 1, .asserta (p (.int 9)), .next 0, .next 1, .next 0, .next 0, .next 1,
    .listing ⟨"p", 1⟩ ]

example : (run .fixed { State.empty with nextVar := 100 } demoHistory).2 =
    [ .ok, .ok, .ok, .opened 0, .opened 1,
      .answer (Term.a1 "p" (.int 1)),            -- call: first clause
      .answer (Term.a1 "p" (.int 1)),            -- retract: removes the first p(1)
      .ok,
      .answer (Term.a1 "p" (.var 107)),          -- call: second clause p(_), renamed
      .answer (Term.a1 "p" (.int 1)),            -- retract: p(_7) unifies with p(1), removed
      .answer (Term.a1 "p" (.int 1)),            -- call: third clause, although …
      .no,                                       -- … the asserted p(9) is not seen
      .answer (Term.a1 "p" (.int 1)),            -- retract: the second p(1)
      .listing true true [Term.a1 "p" (.int 9)] ] := by decide +kernel

example : Inv (run .fixed State.empty demoHistory).1 := C09_inv _ _ inv_empty _

/-- retractall(p(1)) after three asserts: the clause p(_) unifies too, p(2) survives -/
example : (retractall .fixed 10 (run .fixed { State.empty with nextVar := 100 }
      [.assertz (Term.a1 "p" (.int 1)), .assertz (Term.a1 "p" (.var 7)), .assertz (Term.a1 "p" (.int 2))]).1
    (Term.a1 "p" (.int 1))).1.procs.get ⟨"p", 1⟩ = some ⟨true, [⟨2, Term.a1 "p" (.int 2), .atom "true"⟩]⟩ := by
  decide +kernel

end PrologVerif.C09
