/-
  Driver/C19.lean — stream handlers of C19.

  c19.ops   (rd=seg: a scripted host reader that GOES ON after an end of file: mk=<ascending offsets of its end-of-file
            marks> ck=<sizes: a Read at offset o offers ck[o mod #ck] bytes> ed=<0|1: the last bytes of a segment come
            with io.EOF>; judged by Spec/CursorSeg.lean)
            payload:  src=<hex> rd=<str|one|k3|eofd|file|seg> ty=<t|b> eof=<error|eof_code|reset> drain=<n> | q1 ; q2 ; …
            optional header field tab=<off>:<nbytes>:<s|S|e>,…  = reads that do not deliver a term, measured on the real
            reader alone: started at byte offset off it pulls nbytes bytes and raises a syntax error on the last rune
            pulled (s) / at the end of the input (S), or reports io.EOF inside a clause (e).
            a query is a conjunction of ops separated by blanks: gc pc gb pb rt ae pp pe (gk pk = get_code, peek_code:
            the same as gc pc, the harness prints the code as the character)
            (upper case = called through the arity-1 wrapper of bootstrap.pl on the current input;
            same meaning).  `drain=n` appends n single-op queries (gc on text, gb on binary streams).
            output:   per query  "<result> … @<position>,<end_of_stream>,<lastRuneSize>,<buffered>", joined by " ; "
  c19.out   payload:  ty=<t|b> | q1 ; q2 ; …   ops: pc<hex rune> nl pb<byte> w<wire term> wq<wire term>
            output:   per query "<ok|!err> … @<position>", then " ; sink=<hex>"
-/
import PrologVerif.Driver.Common
import PrologVerif.Model.Stream
import PrologVerif.Model.ClauseScanner
import PrologVerif.Model.StreamOut
import PrologVerif.Spec.Cursor
import PrologVerif.Spec.CursorSeg
namespace PrologVerif.Driver.C19
open PrologVerif PrologVerif.Driver PrologVerif.Stream

/-! ## parsing -/

def hexBytes : List Char → Option (List Nat)
  | [] => some []
  | a :: b :: rest => do
    let x ← hexVal a
    let y ← hexVal b
    let r ← hexBytes rest
    pure ((x * 16 + y) :: r)
  | _ => none

def hex2 (n : Nat) : String := String.ofList [hexDigit (n / 16 % 16), hexDigit (n % 16)]
def hexOfBytes (bs : List Nat) : String := String.join (bs.map hex2)
def hexOfNat (n : Nat) : String := String.ofList (Nat.toDigits 16 n)

def kv (ws : List String) (key : String) : Option String :=
  ws.findSome? fun w =>
    match w.splitOn "=" with
    | [k, v] => if k = key then some v else none
    | _ => none

def natList (t : String) : Option (List Nat) :=
  ((t.splitOn ",").filter (· ≠ "")).mapM fun w => natOfChars w.toList

def readerOf (ws : List String) (kind : String) (len : Nat) : Option Reader :=
  match kind with
  | "seg" => do
    let mk ← natList ((kv ws "mk").getD "")
    let ck ← natList ((kv ws "ck").getD "")
    let sizes := if ck.isEmpty then [1] else ck
    pure { chunk := fun o => sizes.getD (o % sizes.length) 1, eofWithData := kv ws "ed" = some "1",
           fileSize := none, marks := mk }
  | "str" => some { chunk := fun _ => 4096, eofWithData := false, fileSize := none }
  | "one" => some { chunk := fun _ => 1, eofWithData := false, fileSize := none }
  | "k3" => some { chunk := fun _ => 3, eofWithData := false, fileSize := none }
  | "eofd" => some { chunk := fun _ => 4096, eofWithData := true, fileSize := none }
  | "file" => some { chunk := fun _ => 4096, eofWithData := false, fileSize := some len }
  | _ => none

def opOf (w : String) : Option Op :=
  match w.toLower with
  | "gc" => some .getChar | "pc" => some .peekChar | "gb" => some .getByte | "pb" => some .peekByte
  | "gk" => some .getChar | "pk" => some .peekChar
  | "rt" => some .readTerm | "ae" => some .atEnd | "pp" => some .propPos | "pe" => some .propEos
  | _ => none

structure Case where
  cfg : Cfg
  prog : List (List Op)
  tab : Clause.Measured.Table := []

/-- the runes of a byte sequence (utf8.DecodeRune, rune by rune) -/
def runesOf : Nat → List Nat → List Nat
  | 0, _ => []
  | _, [] => []
  | fuel + 1, b :: bs =>
    let d := decodeRune (b :: bs)
    d.1 :: runesOf fuel ((b :: bs).drop (max d.2 1))

def parseTab (src : List Nat) (t : String) : Option Clause.Measured.Table :=
  ((t.splitOn ",").filter (· ≠ "")).mapM fun e =>
    match e.splitOn ":" with
    | [o, n, k] => do
      let off ← natOfChars o.toList
      let len ← natOfChars n.toList
      let kind ← match k with
        | "s" => some Clause.Measured.Kind.synRune | "S" => some .synEOF | "e" => some .eofMid | _ => none
      pure (runesOf (len + 1) ((src.drop off).take len), kind)
    | _ => none

def parseCase (payload : String) : Option Case :=
  match payload.splitOn " | " with
  | [hd, ops] => do
    let ws := words hd
    let src ← (kv ws "src").bind (fun h => hexBytes h.toList)
    let rd ← (kv ws "rd").bind (fun k => readerOf ws k src.length)
    let typ ← match kv ws "ty" with | some "t" => some StreamType.text | some "b" => some .binary | _ => none
    let act ← match kv ws "eof" with
      | some "error" => some EofAction.error | some "eof_code" => some .eofCode | some "reset" => some .reset | _ => none
    let drain := ((kv ws "drain").bind (fun d => natOfChars d.toList)).getD 0
    let qs ← (splitOps ops).mapM fun q => (words q).mapM opOf
    let d : Op := if typ = .text then .getChar else .getByte
    let tab ← parseTab src ((kv ws "tab").getD "")
    pure { cfg := { src := src, rd := rd, typ := typ, action := act }, prog := qs ++ List.replicate drain [d], tab := tab }
  | _ => none

/-! ## printing -/

def errTok : Err → String
  | .binaryStream => "!bin" | .textStream => "!txt" | .pastEOS => "!past" | .reprChar => "!repr"
  | .syntax => "!syn" | .other => "!other"

def resTok : Result → String
  | .char r => "c" ++ hexOfNat r
  | .byte b => "b" ++ toString b
  | .eof => "eof"
  | .eofByte => "-1"
  | .term t => "t" ++ t.wire.replace " " "~"
  | .err e => errTok e
  | .bool b => if b then "yes" else "no"
  | .pos n => "p" ++ toString n
  | .eos e => "e" ++ e.name

def stateTok (s : Stream) : String :=
  s!"@{s.position},{s.endOfStream.name},{s.lastRuneSize},{s.buf.buffered}"

/-- results of one query, padded with `_` for the goals an error skipped -/
def queryOut (nops : Nat) (rs : List Result) (st : String) : String :=
  " ".intercalate (rs.map resTok ++ List.replicate (nops - rs.length) "_" ++ [st])

def runModel (cs : Case) : String :=
  let rec go : List (List Op) → Stream → List String
    | [], _ => []
    | q :: qs, s =>
      let p := runConj cs.cfg (Clause.Measured.scanner cs.tab false) q s
      queryOut q.length p.1 (stateTok p.2) :: go qs p.2
  " ; ".intercalate (go cs.prog Stream.init)

/-! ## the specification judging the implementation's output -/

def parseRes (w : String) : Option Result :=
  match w with
  | "eof" => some .eof | "-1" => some .eofByte | "yes" => some (.bool true) | "no" => some (.bool false)
  | "!bin" => some (.err .binaryStream) | "!txt" => some (.err .textStream) | "!past" => some (.err .pastEOS)
  | "!repr" => some (.err .reprChar) | "!syn" => some (.err .syntax) | "!other" => some (.err .other)
  | "enot" => some (.eos .not) | "eat" => some (.eos .at) | "epast" => some (.eos .past)
  | _ =>
    match w.toList with
    | 'c' :: cs => (hexOfChars cs).map .char
    | 'b' :: cs => (natOfChars cs).map .byte
    | 'p' :: cs => (intOfChars cs).map .pos
    | 't' :: cs => (Term.ofWire ((String.ofList cs).replace "~" " ")).map .term
    | _ => none

def opName : Op → String
  | .getChar => "get_char" | .peekChar => "peek_char" | .getByte => "get_byte" | .peekByte => "peek_byte"
  | .readTerm => "read_term" | .atEnd => "at_end_of_stream" | .propPos => "position" | .propEos => "end_of_stream"

def cursorStr (cu : Spec.Cursor) : String := s!"index={cu.idx} eof_delivered={cu.delivered}"

/-- judge one query's printed output; returns the next cursor or a reason -/
def judgeQuery (sc : Spec.SCfg) (tab : Clause.Measured.Table) (qi : Nat) (ops : List Op) (out : String) (cu : Spec.Cursor) : Except String Spec.Cursor :=
  -- the specification's reader: as measured, except that an input that ends inside a clause is a syntax error
  let rdr := Clause.Measured.scanner tab true
  let ws := words out
  let toks := ws.filter (fun w => !w.startsWith "@")
  let st := ws.find? (fun w => w.startsWith "@")
  let rec go : List Op → List String → Nat → Spec.Cursor → Except String Spec.Cursor
    | [], [], _, cu => .ok cu
    | o :: os, w :: rest, j, cu =>
      if w = "_" then .error s!"query {qi} goal {j} ({opName o}) was skipped without an error before it"
      else
        match parseRes w with
        | none => .error s!"query {qi} goal {j}: unreadable result {w}"
        | some r =>
          match Spec.check sc rdr o cu r with
          | none =>
            let want := match o with
              | .getChar => resTok (Spec.readChar sc true cu).1
              | .peekChar => resTok (Spec.readChar sc false cu).1
              | .getByte => resTok (Spec.readByte sc true cu).1
              | .peekByte => resTok (Spec.readByte sc false cu).1
              | .readTerm => resTok (Spec.readTerm sc rdr cu).1
              | .propPos => "p" ++ toString cu.idx
              | _ => "a value consistent with the cursor"
            .error s!"query {qi} goal {j} ({opName o}) delivered {w}, the cursor ({cursorStr cu}) demands {want}"
          | some cu' =>
            if r.isErr then
              if rest.all (· = "_") ∧ rest.length = os.length then .ok cu'
              else .error s!"query {qi}: goals after the error of goal {j} were run"
            else go os rest (j + 1) cu'
    | _, _, _, _ => .error s!"query {qi}: number of results differs from number of goals"
  match go ops toks 0 cu with
  | .error e => .error e
  | .ok cu' =>
    match st with
    | none => .error s!"query {qi}: no state reported"
    | some st =>
      match (st.drop 1).toString.splitOn "," with
      | [p, e, _, _] =>
        if intOfChars p.toList ≠ some (Int.ofNat cu'.idx) then
          .error s!"after query {qi}: position {p} but {cu'.idx} bytes were consumed"
        else
          match parseRes ("e" ++ e) with
          | some (.eos ev) =>
            if Spec.eosOk sc cu' ev then .ok cu'
            else .error s!"after query {qi}: end_of_stream({e}) contradicts the cursor ({cursorStr cu'}, length {sc.bytes.length})"
          | _ => .error s!"after query {qi}: unreadable end_of_stream {e}"
      | _ => .error s!"query {qi}: unreadable state {st}"

def judgeCase (cs : Case) (impl : String) : String :=
  let sc : Spec.SCfg := { bytes := cs.cfg.src, typ := cs.cfg.typ, action := cs.cfg.action }
  let outs := splitOps impl
  if outs.length ≠ cs.prog.length then "FAIL number of query outputs differs from number of queries" else
  let rec go : List (List Op) → List String → Nat → Spec.Cursor → String
    | q :: qs, o :: os, i, cu =>
      match judgeQuery sc cs.tab i q o cu with
      | .error e => "FAIL " ++ e
      | .ok cu' => go qs os (i + 1) cu'
    | _, _, _, _ => "ok"
  go cs.prog outs 0 {}

/-! the same judgement over a source with end-of-file marks (Spec/CursorSeg.lean) -/

def segCursorStr (cu : SegSpec.Cursor) : String := s!"index={cu.idx} eof_delivered={cu.delivered} segment={cu.seg}"

def judgeQuerySeg (sc : SegSpec.SCfg) (tab : Clause.Measured.Table) (qi : Nat) (ops : List Op) (out : String)
    (cu : SegSpec.Cursor) : Except String SegSpec.Cursor :=
  let rdr := Clause.Measured.scanner tab true
  let ws := words out
  let toks := ws.filter (fun w => !w.startsWith "@")
  let st := ws.find? (fun w => w.startsWith "@")
  let rec go : List Op → List String → Nat → SegSpec.Cursor → Except String SegSpec.Cursor
    | [], [], _, cu => .ok cu
    | o :: os, w :: rest, j, cu =>
      if w = "_" then .error s!"query {qi} goal {j} ({opName o}) was skipped without an error before it"
      else
        match parseRes w with
        | none => .error s!"query {qi} goal {j}: unreadable result {w}"
        | some r =>
          match SegSpec.check sc rdr o cu r with
          | none =>
            let want := match o with
              | .getChar => resTok (SegSpec.readChar sc true cu).1
              | .peekChar => resTok (SegSpec.readChar sc false cu).1
              | .getByte => resTok (SegSpec.readByte sc true cu).1
              | .peekByte => resTok (SegSpec.readByte sc false cu).1
              | .readTerm => resTok (SegSpec.readTerm sc rdr cu).1
              | .propPos => "p" ++ toString cu.idx
              | _ => s!"a value consistent with the cursor (the current segment ends at {SegSpec.segEnd sc cu})"
            .error s!"query {qi} goal {j} ({opName o}) delivered {w}, the cursor ({segCursorStr cu}) demands {want}"
          | some cu' =>
            if r.isErr then
              if rest.all (· = "_") ∧ rest.length = os.length then .ok cu'
              else .error s!"query {qi}: goals after the error of goal {j} were run"
            else go os rest (j + 1) cu'
    | _, _, _, _ => .error s!"query {qi}: number of results differs from number of goals"
  match go ops toks 0 cu with
  | .error e => .error e
  | .ok cu' =>
    match st with
    | none => .error s!"query {qi}: no state reported"
    | some st =>
      match (st.drop 1).toString.splitOn "," with
      | [p, e, _, _] =>
        if intOfChars p.toList ≠ some (Int.ofNat cu'.idx) then
          .error s!"after query {qi}: position {p} but {cu'.idx} bytes were consumed"
        else
          match parseRes ("e" ++ e) with
          | some (.eos ev) =>
            if SegSpec.eosOk sc cu' ev then .ok cu'
            else .error s!"after query {qi}: end_of_stream({e}) contradicts the cursor ({segCursorStr cu'}, the current segment ends at {SegSpec.segEnd sc cu'})"
          | _ => .error s!"after query {qi}: unreadable end_of_stream {e}"
      | _ => .error s!"query {qi}: unreadable state {st}"

def judgeCaseSeg (cs : Case) (impl : String) : String :=
  let sc : SegSpec.SCfg := { bytes := cs.cfg.src, typ := cs.cfg.typ, action := cs.cfg.action, marks := cs.cfg.rd.marks }
  let outs := splitOps impl
  if outs.length ≠ cs.prog.length then "FAIL number of query outputs differs from number of queries" else
  let rec go : List (List Op) → List String → Nat → SegSpec.Cursor → String
    | q :: qs, o :: os, i, cu =>
      match judgeQuerySeg sc cs.tab i q o cu with
      | .error e => "FAIL " ++ e
      | .ok cu' => go qs os (i + 1) cu'
    | _, _, _, _ => "ok"
  go cs.prog outs 0 {}

def handler : Handler := fun payload impl =>
  match parseCase payload with
  | none => ("BAD-CASE", "FAIL unparsable case")
  | some cs => (runModel cs, if cs.cfg.rd.marks.isEmpty then judgeCase cs impl else judgeCaseSeg cs impl)

/-! ## c19.out -/

open PrologVerif.StreamOut in
def parseOutOp (w : String) : Option OutOp :=
  match w.toList with
  | ['n', 'l'] => some .nl
  | 'p' :: 'c' :: cs => (hexOfChars cs).map .putChar
  | 'p' :: 'b' :: cs => (natOfChars cs).map .putByte
  | 'w' :: 'q' :: ':' :: cs => (Term.ofWire ((String.ofList cs).replace "~" " ")).map .writeq
  | 'w' :: ':' :: cs => (Term.ofWire ((String.ofList cs).replace "~" " ")).map .write
  | _ => none

open PrologVerif.StreamOut in
def outHandler : Handler := fun payload impl =>
  match payload.splitOn " | " with
  | [hd, ops] =>
    let typ := if kv (words hd) "ty" = some "b" then StreamType.binary else .text
    match (splitOps ops).mapM (fun q => (words q).mapM parseOutOp) with
    | none => ("BAD-CASE", "FAIL unparsable case")
    | some prog =>
      let rec go : List (List OutOp) → Sink → List String
        | [], s => ["sink=" ++ hexOfBytes s.bytes]
        | q :: qs, s =>
          let p := runConj typ q s
          let toks := p.1.map (fun r => match r with | .ok => "ok" | .err e => errTok e)
          (" ".intercalate (toks ++ List.replicate (q.length - p.1.length) "_" ++ [s!"@{p.2.position}"])) :: go qs p.2
      let model := " ; ".intercalate (go prog {})
      -- the specification: goal by goal the bytes each successful goal must have sent; an error ends the
      -- conjunction; position = number of bytes sent so far; at the end the sink holds exactly those bytes
      let rec judge : List (List OutOp) → List String → Nat → Nat → String
        | [], [last], _, _ =>
          let want := hexOfBytes (specSink typ prog)
          if last = "sink=" ++ want then "ok"
          else s!"FAIL sink differs from the bytes of the successful goals in program order: want {want}"
        | q :: qs, o :: os, i, pos =>
          let rec goals : List OutOp → List String → Nat → Nat → Except String Nat
            | [], [st], _, pos => if st = s!"@{pos}" then .ok pos else .error s!"query {i}: position {st} but {pos} bytes were sent"
            | g :: gs, w :: ws, j, pos =>
              match opBytes typ g with
              | .ok p => if w = "ok" then goals gs ws (j + 1) (pos + p.length) else .error s!"query {i} goal {j} must succeed, got {w}"
              | .error e =>
                if w = errTok e ∧ ws.length = gs.length + 1 ∧ (ws.take gs.length).all (· = "_") then
                  (match ws.getLast? with
                   | some st => if st = s!"@{pos}" then .ok pos else .error s!"query {i}: position {st} but {pos} bytes were sent"
                   | none => .error "no state")
                else .error s!"query {i} goal {j} must raise {errTok e} and end the conjunction, got {w}"
            | _, _, _, _ => .error s!"query {i}: number of results differs from number of goals"
          match goals q (words o) 0 pos with
          | .ok pos' => judge qs os (i + 1) pos'
          | .error e => "FAIL " ++ e
        | _, _, _, _ => "FAIL number of query outputs differs from number of queries"
      (model, judge prog (splitOps impl) 0 0)
  | _ => ("BAD-CASE", "FAIL unparsable case")

end PrologVerif.Driver.C19
