/-
  Spec/Grammar — what a DCG *means* (specification side of property C17).

  * `Body`, `Rule`: grammar bodies and rules as an inductive type, with the reader
    `Body.ofTerm`/`Rule.ofTerm` from the term the parser delivers (ISO DCG draft
    "dcgsdin150408", the document dcg.go cites).
  * `Threads`: the *relational* specification of a correct translation: which pair of hidden
    arguments (input, remainder) each construct must receive.
  * `Body.tr`/`Rule.tr`: the reference translation as a function (used by the driver as the oracle
    for expand_term/2).
  * `den`: the denotation ⟦b⟧ — the answers (bindings, remainder), in order, that parsing an
    input with `b` has.  It is defined DIRECTLY on the input list (terminals consume elements,
    sequences compose, alternatives append, cut prunes, push-back prepends) and never looks at
    the translation.

  Core Lean only (linked into the driver).
-/
import PrologVerif.Spec.DcgSubst
namespace PrologVerif.Grammar
open PrologVerif

/-! ## Syntax -/

inductive Body where
  | eps                                      -- `[]`
  | terminals (ts : List Term)               -- `[t1,…,tn]` (n ≥ 1), also written "string"
  | nt (name : String) (args : List Term)    -- a non-terminal; `call//N`, N ≥ 2, is `nt "call" (G :: As)`
  | seq (a b : Body)                         -- `a , b`
  | alt (a b : Body)                         -- `a ; b` and `a | b`
  | ite (c t e : Body)                       -- `( c -> t ; e )`
  | ifthen (c t : Body)                      -- `( c -> t )`
  | block (g : Term)                         -- `{ g }`
  | not (b : Body)                           -- `\+ b`
  | cut                                      -- `!`
  | call1 (g : Term)                         -- `call(g)`
  | phrase (g : Term)                        -- `phrase(g)`
  | var (v : Nat)                            -- a variable: parsed when it is reached
deriving DecidableEq

/-- the elements of a terminal list; a partial list is an instantiation error, anything else
    that is not a list a type error -/
def terminalsOf (t : Term) : Except Term (List Term) :=
  match t.spine with
  | (_, .var _) => .error instErr
  | (elems, .atom a) => if a = "[]" then .ok elems else .error (typeErr "list" t)
  | (_, _) => .error (typeErr "list" t)

/-- `( c -> t ; e )` is if-then-else, every other `;`/`|` an alternation -/
def mkAlt : Body → Body → Body
  | .ifthen c t, e => .ite c t e
  | a, b => .alt a b

/-- read a grammar body (errors: the formal of the ISO error, first one in left-to-right order) -/
def Body.ofTerm : Term → Except Term Body
  | .var v => .ok (.var v)
  | .atom "[]" => .ok .eps
  | .atom "!" => .ok .cut
  | .atom a => .ok (.nt a [])
  | .app "." (.cons h (.cons t .nil)) =>
    match terminalsOf (.app "." (.cons h (.cons t .nil))) with
    | .ok ts => .ok (.terminals ts)
    | .error e => .error e
  | .app "," (.cons a (.cons b .nil)) =>
    match Body.ofTerm a with
    | .error e => .error e
    | .ok a' => match Body.ofTerm b with
      | .error e => .error e
      | .ok b' => .ok (.seq a' b')
  | .app ";" (.cons a (.cons b .nil)) =>
    match Body.ofTerm a with
    | .error e => .error e
    | .ok a' => match Body.ofTerm b with
      | .error e => .error e
      | .ok b' => .ok (mkAlt a' b')
  | .app "|" (.cons a (.cons b .nil)) =>
    match Body.ofTerm a with
    | .error e => .error e
    | .ok a' => match Body.ofTerm b with
      | .error e => .error e
      | .ok b' => .ok (mkAlt a' b')
  | .app "{}" (.cons g .nil) => .ok (.block g)
  | .app "call" (.cons g .nil) => .ok (.call1 g)
  | .app "phrase" (.cons g .nil) => .ok (.phrase g)
  | .app "\\+" (.cons g .nil) =>
    match Body.ofTerm g with
    | .error e => .error e
    | .ok g' => .ok (.not g')
  | .app "->" (.cons c (.cons t .nil)) =>
    match Body.ofTerm c with
    | .error e => .error e
    | .ok c' => match Body.ofTerm t with
      | .error e => .error e
      | .ok t' => .ok (.ifthen c' t')
  | .app f as => .ok (.nt f as.toList)
  | t => .error (typeErr "callable" t)

/-- a grammar rule `name(args…) --> body` or `name(args…), pushback --> body` -/
structure Rule where
  name : String
  args : List Term
  pushback : Option (List Term)
  body : Body
  /-- number of variables of the rule (they are 0 … nv-1) -/
  nv : Nat := 0
deriving DecidableEq

/-- the head of a rule must be callable -/
def headOf : Term → Except Term (String × List Term)
  | .var _ => .error instErr
  | .atom a => .ok (a, [])
  | .app f as => .ok (f, as.toList)
  | t => .error (typeErr "callable" t)

/-- read a rule; `.error none`: the term is not a grammar rule at all -/
def Rule.ofTerm : Term → Except (Option Term) Rule
  | .app "-->" (.cons h (.cons b .nil)) =>
    let nv := max (boundT h) (boundT b)
    match h with
    | .app "," (.cons nt (.cons pb .nil)) =>
      match headOf nt with
      | .error e => .error (some e)
      | .ok (f, as) =>
        match Body.ofTerm b with
        | .error e => .error (some e)
        | .ok b' =>
          match terminalsOf pb with
          | .error e => .error (some e)
          | .ok ts => .ok { name := f, args := as, pushback := some ts, body := b', nv := nv }
    | h =>
      match headOf h with
      | .error e => .error (some e)
      | .ok (f, as) =>
        match Body.ofTerm b with
        | .error e => .error (some e)
        | .ok b' => .ok { name := f, args := as, pushback := none, body := b', nv := nv }
  | _ => .error none

abbrev Grammar := List Rule

/-! ## The translation, as a relation and as a function -/

/-- `Threads b s0 s h g`: `g` is a correct translation of body `b` with input `s0`, remainder `s`
    and hidden (freshly introduced) variables `h`.

    Reading: every construct receives a pair (input, remainder).  A sequence `a, b` chains its
    parts through one hidden variable `v`: `a` gets (s0, v), `b` gets (v, s).  Both branches of an
    alternation get the same pair.  The non-consuming constructs `[]`, `{}`, `!`, `\+` end in
    `s0 = s`; the inner remainder of `\+` is a hidden variable of its own.  The condition and the
    then-branch of an if-then(-else) are chained like a sequence, the else-branch gets (s0, s). -/
inductive Threads : Body → Term → Term → List Nat → Term → Prop
  | eps (s0 s) : Threads .eps s0 s [] (Term.a2 "=" s0 s)
  | terminals (ts s0 s) : Threads (.terminals ts) s0 s [] (Term.a2 "=" s0 (Term.list ts s))
  | nt (f as s0 s) : Threads (.nt f as) s0 s [] (Term.mk f (as ++ [s0, s]))
  | seq {a b s0 s v ha hb ga gb} :
      Threads a s0 (.var v) ha ga → Threads b (.var v) s hb gb →
      Threads (.seq a b) s0 s (v :: (ha ++ hb)) (Term.a2 "," ga gb)
  | alt {a b s0 s ha hb ga gb} :
      Threads a s0 s ha ga → Threads b s0 s hb gb →
      Threads (.alt a b) s0 s (ha ++ hb) (Term.a2 ";" ga gb)
  | ite {c t e s0 s v hc ht he gc gt ge} :
      Threads c s0 (.var v) hc gc → Threads t (.var v) s ht gt → Threads e s0 s he ge →
      Threads (.ite c t e) s0 s (v :: (hc ++ ht ++ he)) (Term.a2 ";" (Term.a2 "->" gc gt) ge)
  | ifthen {c t s0 s v hc ht gc gt} :
      Threads c s0 (.var v) hc gc → Threads t (.var v) s ht gt →
      Threads (.ifthen c t) s0 s (v :: (hc ++ ht)) (Term.a2 "->" gc gt)
  | block (g s0 s) : Threads (.block g) s0 s [] (Term.a2 "," g (Term.a2 "=" s0 s))
  | not {b s0 s v hb gb} :
      Threads b s0 (.var v) hb gb →
      Threads (.not b) s0 s (v :: hb) (Term.a2 "," (Term.a1 "\\+" gb) (Term.a2 "=" s0 s))
  | cut (s0 s) : Threads .cut s0 s [] (Term.a2 "," (.atom "!") (Term.a2 "=" s0 s))
  | call1 (g s0 s) : Threads (.call1 g) s0 s [] (Term.a3 "call" g s0 s)
  | phrase (g s0 s) : Threads (.phrase g) s0 s [] (Term.a3 "phrase" g s0 s)
  | var (v s0 s) : Threads (.var v) s0 s [] (Term.a3 "phrase" (.var v) s0 s)

/-- the reference translation; hidden variables are taken from `n` upwards -/
def Body.tr : Body → Term → Term → Nat → Term × Nat
  | .eps, s0, s, n => (Term.a2 "=" s0 s, n)
  | .terminals ts, s0, s, n => (Term.a2 "=" s0 (Term.list ts s), n)
  | .nt f as, s0, s, n => (Term.mk f (as ++ [s0, s]), n)
  | .seq a b, s0, s, n =>
    let ra := a.tr s0 (.var n) (n + 1)
    let rb := b.tr (.var n) s ra.2
    (Term.a2 "," ra.1 rb.1, rb.2)
  | .alt a b, s0, s, n =>
    let ra := a.tr s0 s n
    let rb := b.tr s0 s ra.2
    (Term.a2 ";" ra.1 rb.1, rb.2)
  | .ite c t e, s0, s, n =>
    let rc := c.tr s0 (.var n) (n + 1)
    let rt := t.tr (.var n) s rc.2
    let re := e.tr s0 s rt.2
    (Term.a2 ";" (Term.a2 "->" rc.1 rt.1) re.1, re.2)
  | .ifthen c t, s0, s, n =>
    let rc := c.tr s0 (.var n) (n + 1)
    let rt := t.tr (.var n) s rc.2
    (Term.a2 "->" rc.1 rt.1, rt.2)
  | .block g, s0, s, n => (Term.a2 "," g (Term.a2 "=" s0 s), n)
  | .not b, s0, s, n =>
    let rb := b.tr s0 (.var n) (n + 1)
    (Term.a2 "," (Term.a1 "\\+" rb.1) (Term.a2 "=" s0 s), rb.2)
  | .cut, s0, s, n => (Term.a2 "," (.atom "!") (Term.a2 "=" s0 s), n)
  | .call1 g, s0, s, n => (Term.a3 "call" g s0 s, n)
  | .phrase g, s0, s, n => (Term.a3 "phrase" g s0 s, n)
  | .var v, s0, s, n => (Term.a3 "phrase" (.var v) s0 s, n)

/-- `Head(S0, S) :- Body(S0, S)`, resp. with push-back
    `Head(S0, S) :- Body(S0, S1), S = [pb… | S1]` -/
def Rule.tr (r : Rule) (n : Nat) : Term × Nat :=
  let s0 := Term.var n
  let s1 := Term.var (n + 1)
  let s := Term.var (n + 2)
  let head := Term.mk r.name (r.args ++ [s0, s])
  match r.pushback with
  | none =>
    let rb := r.body.tr s0 s (n + 3)
    (Term.a2 ":-" head rb.1, rb.2)
  | some pb =>
    let rb := r.body.tr s0 s1 (n + 3)
    (Term.a2 ":-" head (Term.a2 "," rb.1 (Term.a2 "=" s (Term.list pb s1))), rb.2)

/-! ## Clause bodies (ISO 7.8.5, 7.8.6): what the translated body means as a sequence of goals -/

/-- the goals of a clause body: conjunction is associative and transparent to cut, so nested
    conjunctions on either side are one sequence -/
def conjuncts : Term → List Term
  | .app "," (.cons a (.cons b .nil)) => conjuncts a ++ conjuncts b
  | t => [t]

/-- the top-level disjuncts of a clause body (an if-then-else is one disjunct) -/
def disjuncts : Term → List Term
  | .app ";" (.cons a (.cons b .nil)) =>
    match a with
    | .app "->" (.cons _ (.cons _ .nil)) => [.app ";" (.cons a (.cons b .nil))]
    | _ => a :: disjuncts b
  | t => [t]

/-- the elements of a grammar-body sequence -/
def Body.elems : Body → List Body
  | .seq a b => a.elems ++ b.elems
  | b => [b]

/-! ## Denotation -/

/-- search state: bindings and the next unused variable -/
structure St where
  σ : Subst
  next : Nat
deriving DecidableEq

/-- why no result is given -/
inductive Stop where
  | fuel                       -- out of fuel
  | unsupported (why : String) -- outside what this specification covers (e.g. an error is raised)
deriving DecidableEq

abbrev Res := Except Stop

/-- answers (state, remainder) in order, and whether a cut was executed that the caller has to
    honour (i.e. discard its remaining alternatives) -/
structure Out where
  answers : List (St × Term)
  cut : Bool
deriving DecidableEq

structure Cfg where
  /-- fuel of one unification / comparison -/
  uf : Nat := 256
  /-- false: ISO — cut is transparent to `,`, `;`, `|` and the branches of if-then-else and local to
      `\+`, the condition of `->`, call//N, phrase//1, variables.
      true: additionally a cut is local to every alternation that is not a top-level disjunct of
      its rule and to the branches of if-then(-else) — where the engine executes `;`/2 and `->`/2
      through call/1. -/
  engine : Bool := false

/-- forget a cut (a cut barrier) -/
def barrier : Res Out → Res Out
  | .ok o => .ok { o with cut := false }
  | e => e

/-- run `k` on every answer in order; a cut inside `k` discards the remaining answers -/
def andThen (k : St → Term → Res Out) : List (St × Term) → Res Out
  | [] => .ok ⟨[], false⟩
  | (st, r) :: rest =>
    match k st r with
    | .error e => .error e
    | .ok o =>
      if o.cut then .ok ⟨o.answers, true⟩
      else match andThen k rest with
        | .error e => .error e
        | .ok o' => .ok ⟨o.answers ++ o'.answers, o'.cut⟩

/-- consume the terminals `ts` from the front of the input `l`: an input element is unified with
    the terminal; an unbound input (generation) is instantiated to the terminal followed by a new
    variable; anything else does not match -/
def consume (uf : Nat) : List Term → St → Term → Fuel (Option (St × Term))
  | [], st, l => .done (some (st, l))
  | t :: ts, st, l =>
    match walk st.σ l with
    | .app "." (.cons h (.cons tl .nil)) =>
      match unify uf st.σ h t with
      | .out => .out
      | .done none => .done none
      | .done (some σ') => consume uf ts { st with σ := σ' } tl
    | .var v =>
      let r := Term.var st.next
      consume uf ts { σ := (v, Term.consT t r) :: st.σ, next := st.next + 1 } r
    | _ => .done none

/-- the goals allowed inside `{}` in this specification: true, fail, `=`, `\=`, `==`, `\==`, `!`
    and conjunctions of them (no side effects, so the denotation can be run) -/
def evalBlock (uf : Nat) : Term → St → Res (List St × Bool)
  | .atom "true", st => .ok ([st], false)
  | .atom "fail", _ => .ok ([], false)
  | .atom "false", _ => .ok ([], false)
  | .atom "!", st => .ok ([st], true)
  | .app "=" (.cons x (.cons y .nil)), st =>
    match unify uf st.σ x y with
    | .out => .error .fuel
    | .done none => .ok ([], false)
    | .done (some σ') => .ok ([{ st with σ := σ' }], false)
  | .app "\\=" (.cons x (.cons y .nil)), st =>
    match unify uf st.σ x y with
    | .out => .error .fuel
    | .done none => .ok ([st], false)
    | .done (some _) => .ok ([], false)
  | .app "==" (.cons x (.cons y .nil)), st =>
    match resolve uf st.σ x, resolve uf st.σ y with
    | some x', some y' => .ok (if x' = y' then [st] else [], false)
    | _, _ => .error .fuel
  | .app "\\==" (.cons x (.cons y .nil)), st =>
    match resolve uf st.σ x, resolve uf st.σ y with
    | some x', some y' => .ok (if x' = y' then [] else [st], false)
    | _, _ => .error .fuel
  | .app "," (.cons a (.cons b .nil)), st =>
    match evalBlock uf a st with
    | .error e => .error e
    | .ok (sa, ca) =>
      -- at most one answer per goal: these goals are deterministic
      match sa with
      | [] => .ok ([], ca)
      | st' :: _ =>
        match evalBlock uf b st' with
        | .error e => .error e
        | .ok (sb, cb) => .ok (sb, ca || cb)
  | _, _ => .error (.unsupported "goal in {}")

/-- what is resolved when it is reached: a non-terminal (through the rules), or a body that is
    only known at run time (phrase//1, a variable) -/
inductive Dyn where
  | nt (f : String) (args : List Term)
  | late (g : Term)

/-- ⟦b⟧ for one body, given `dyn` for non-terminals and run-time bodies.
    `top`: this body is a top-level disjunct of its rule (only matters for `cfg.engine`). -/
def denBody (cfg : Cfg) (dyn : Dyn → St → Term → Res Out) : Bool → Body → St → Term → Res Out
  | _, .eps, st, l => .ok ⟨[(st, l)], false⟩
  | _, .terminals ts, st, l =>
    match consume cfg.uf ts st l with
    | .out => .error .fuel
    | .done none => .ok ⟨[], false⟩
    | .done (some a) => .ok ⟨[a], false⟩
  | _, .nt f as, st, l => dyn (.nt f as) st l
  | _, .seq a b, st, l =>
    match denBody cfg dyn false a st l with
    | .error e => .error e
    | .ok oa =>
      match andThen (fun st' l' => denBody cfg dyn false b st' l') oa.answers with
      | .error e => .error e
      | .ok ob => .ok ⟨ob.answers, oa.cut || ob.cut⟩
  | top, .alt a b, st, l =>
    let r : Res Out :=
      match denBody cfg dyn false a st l with
      | .error e => .error e
      | .ok oa =>
        if oa.cut then .ok oa
        else match denBody cfg dyn true b st l with
          | .error e => .error e
          | .ok ob => .ok ⟨oa.answers ++ ob.answers, ob.cut⟩
    if cfg.engine && !top then barrier r else r
  | _, .ite c t e, st, l =>
    match denBody cfg dyn true c st l with
    | .error e => .error e
    | .ok oc =>
      let r : Res Out :=
        match oc.answers with
        | (st', l') :: _ => denBody cfg dyn true t st' l'
        | [] => denBody cfg dyn true e st l
      if cfg.engine then barrier r else r
  | _, .ifthen c t, st, l =>
    match denBody cfg dyn true c st l with
    | .error e => .error e
    | .ok oc =>
      let r : Res Out :=
        match oc.answers with
        | (st', l') :: _ => denBody cfg dyn true t st' l'
        | [] => .ok ⟨[], false⟩
      if cfg.engine then barrier r else r
  | _, .block g, st, l =>
    match evalBlock cfg.uf g st with
    | .error e => .error e
    | .ok (sts, c) => .ok ⟨sts.map (fun s => (s, l)), c⟩
  | _, .not b, st, l =>
    match denBody cfg dyn true b st l with
    | .error e => .error e
    | .ok ob => .ok ⟨if ob.answers.isEmpty then [(st, l)] else [], false⟩
  | _, .cut, st, l => .ok ⟨[(st, l)], true⟩
  | _, .call1 g, st, l =>
    match walk st.σ g with
    | .atom a => barrier (dyn (.nt a []) st l)
    | .app f as => barrier (dyn (.nt f as.toList) st l)
    | _ => .error (.unsupported "call//1 of a non-callable term")
  | _, .phrase g, st, l => barrier (dyn (.late g) st l)
  | _, .var v, st, l => barrier (dyn (.late (.var v)) st l)

/-! rules -/

def Body.rename (off : Nat) : Body → Body
  | .eps => .eps
  | .terminals ts => .terminals (ts.map (renameT off))
  | .nt f as => .nt f (as.map (renameT off))
  | .seq a b => .seq (a.rename off) (b.rename off)
  | .alt a b => .alt (a.rename off) (b.rename off)
  | .ite c t e => .ite (c.rename off) (t.rename off) (e.rename off)
  | .ifthen c t => .ifthen (c.rename off) (t.rename off)
  | .block g => .block (renameT off g)
  | .not b => .not (b.rename off)
  | .cut => .cut
  | .call1 g => .call1 (renameT off g)
  | .phrase g => .phrase (renameT off g)
  | .var v => .var (v + off)

/-- try the rules in order; a cut in a rule body discards the remaining rules and is then spent -/
def tryRules (uf : Nat) (body : Bool → Body → St → Term → Res Out) (args : List Term) (st : St) (l : Term) :
    List Rule → Res (List (St × Term))
  | [] => .ok []
  | r :: rs =>
    let st1 : St := { st with next := st.next + r.nv }
    match unifyList uf st1.σ args (r.args.map (renameT st.next)) with
    | .out => .error .fuel
    | .done none => tryRules uf body args st l rs
    | .done (some σ') =>
      -- (with push-back the translated body is `Body, S = [pb…|S1]`: its alternation is no
      --  longer a top-level disjunct of the clause — only matters for `cfg.engine`)
      match body r.pushback.isNone (r.body.rename st.next) { st1 with σ := σ' } l with
      | .error e => .error e
      | .ok o =>
        -- push-back: what the rule leaves is its push-back list followed by what its body left
        let here := match r.pushback with
          | none => o.answers
          | some pb => o.answers.map (fun a => (a.1, Term.list (pb.map (renameT st.next)) a.2))
        if o.cut then .ok here
        else match tryRules uf body args st l rs with
          | .error e => .error e
          | .ok more => .ok (here ++ more)

/-- ⟦b⟧: fuel = nesting depth of non-terminal / run-time body resolutions -/
def den (cfg : Cfg) (gr : Grammar) : Nat → Bool → Body → St → Term → Res Out
  | 0, _, _, _, _ => .error .fuel
  | n + 1, top, b, st, l =>
    denBody cfg (fun d st l =>
      match d with
      | .nt "call" (g :: a :: as) =>
        -- call//N: the closure with the extra arguments is the non-terminal
        match walk st.σ g with
        | .atom f => den cfg gr n true (.nt f (a :: as)) st l |> barrier
        | .app f bs => den cfg gr n true (.nt f (bs.toList ++ a :: as)) st l |> barrier
        | _ => .error (.unsupported "call//N of a non-callable term")
      | .nt f args =>
        let rules := gr.filter (fun r => r.name = f ∧ r.args.length = args.length)
        if rules.isEmpty then .error (.unsupported ("no rule for " ++ f))
        else match tryRules cfg.uf (den cfg gr n) args st l rules with
          | .error e => .error e
          | .ok as => .ok ⟨as, false⟩
      | .late g =>
        match resolve cfg.uf st.σ g with
        | none => .error .fuel
        | some (.var _) => .error (.unsupported "instantiation_error: unbound run-time body")
        | some g' =>
          match Body.ofTerm g' with
          | .error _ => .error (.unsupported "run-time body is not a grammar body")
          | .ok b' => den cfg gr n true b' st l) top b st l

/-- phrase(b, l, r): parse and unify what is left with `r` -/
def phrase (cfg : Cfg) (gr : Grammar) (n : Nat) (b : Body) (st : St) (l r : Term) : Res (List St) :=
  match den cfg gr n true b st l with
  | .error e => .error e
  | .ok o =>
    o.answers.foldr (fun a acc =>
      match acc, unify cfg.uf a.1.σ a.2 r with
      | .error e, _ => .error e
      | _, .out => .error .fuel
      | .ok rest, .done none => .ok rest
      | .ok rest, .done (some σ') => .ok ({ a.1 with σ := σ' } :: rest)) (.ok [])

end PrologVerif.Grammar
