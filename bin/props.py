"""Per-property configuration of bin/check (streams, sizes, trusted base). See DESIGN.md §6."""

COMMON_TRUSTED = [
    "Lean 4.33.0 kernel (thorough tier: re-checked with leanchecker); axioms allowed in property theorems: propext, Classical.choice, Quot.sound only (audited on every run by PrologVerif/Audit.lean); no sorry/admit/native_decide/bv_decide/own axioms (grep on every run)",
    "hand-written Lean model mirrors the Go code: CHECKED by the correspondence streams (differential testing, bounded by the generators; distributions are in this file), not proved",
    "/verif/extract (regenerated facts / translated definitions) and /verif/harness (in-process runner, canonicalisation: variables renamed by first occurrence, map-ordered output sorted, error context dropped)",
    "Go compiler/runtime and standard library behave as documented",
]

NOT_APPLICABLE = {}

PROPS = {
    "C18": dict(
        level_text="Proof: the operator-table state machine (Op/validateOp/CurrentOp and the operators methods) is modelled in Lean; for ALL histories of op/3 calls with arbitrary argument terms the ISO invariant (C18_inv), atomicity of failed updates (C18_atomic), the exact effect of successful updates (C18_update_exact: latest wins, 0 removes, other classes kept) and exactness of current_op/3 (C18_current_op_exact) are kernel-checked theorems, the default table being regenerated from bootstrap.pl. The model is tied to the Go code by the c18.hist correspondence stream (impl vs model, plus an independent executable ISO specification as oracle, plus reader/writer probes).",
        level_note="Trusted: Lean kernel; the hand-written model of Op/validateOp/CurrentOp (checked by differential runs, not proved); harness canonicalisation; reader/writer use of the table is only probed, not modelled. Pattern variables of current_op/3 assumed pairwise distinct.",
        technique="Lean 4 invariant proof by induction over op/3 histories + regenerated default table + model/implementation correspondence",
        lean_module="PrologVerif.Properties.C18",
        ns="PrologVerif.C18",
        streams=[dict(name="c18.hist", quick=3000, thorough=40000)],
        rule="histories of 1..8 operations over op/3 (valid and invalid priorities, specifiers, names, lists with invalid members, partial lists, special names , | [] {}), current_op/3 in every instantiation pattern, and a reader/writer probe; generated from one PRNG (VERIF_SEED); non-trivial = at least two op/3 calls in the history changed the table, or one changed it and another was rejected; distinct = distinct case text",
        trusted=[
            "modelled (hand-written, correspondence-checked): engine/builtin.go Op, validateOp, appendUniqNewAtom, CurrentOp; engine/parser.go operators.define/remove/definedInClass; ListIterator as used by Op",
            "regenerated from source on every run: the default operator table = the op/3 directives of bootstrap.pl read by the real parser (Generated/Bootstrap.lean); C18_default_valid is re-proved against it by kernel evaluation",
            "not modelled: the reader and writer themselves (only probed: 'a n b', 'n a', 'a n' parse / writeq(n(a,b)), writeq(n(a)) print according to the table); Go map iteration order (answers compared as sets)",
        ],
        modelled={"hand_modelled": ["Op", "validateOp", "appendUniqNewAtom", "CurrentOp", "operators.define", "operators.remove", "operators.definedInClass"],
                  "regenerated": ["bootstrap.pl op/3 directives"], "observed_only": ["Parser (probe)", "WriteCompound (probe)"]},
        assumptions=["pattern variables of current_op/3 calls are pairwise distinct (the model matches argument-wise)"],
    ),
    "C11": dict(
        level_text="Proof: FindAll/collectionOf (bagof, setof) with renamedCopy, the free-variable computation of variable.go, variant, the grouping loop, the witness unifications (Env.unify without occurs check) and Env.set are modelled in Lean over an ARBITRARY solution sequence of the goal (the model takes the solutions as input, so the claim does not depend on the execution model). Kernel-checked for all inputs: findall returns the renamed copies of the solutions in order, [] if none, copies share no variable with the call or with each other, and no binding of a goal variable is left behind (C11_findall, C11_findall_none, C11_findall_bindings); the computed witness variables are exactly the ISO free-variable set of Template^Goal (C11_free_vars) and the called goal is the iterated goal term (C11_iterated_goal); variant is an equivalence and coincides with ISO 7.1.6.1 'equal up to a one-to-one renaming' (variant_equiv; false on the pinned tree, D11: variant_symm_witness, variant_spec_witness, C11_bagof_partition_witness; repaired in the repo) and with the canonical-form test of the specification oracle (C11_oracle_variant); the groups are exactly the classes of solutions under variant-of-witness, each solution exactly once, solution order kept (C11_bagof_partition, C11_bagof_copies), one answer per group in order (C11_bagof_answers), no solution => failure (C11_bagof_no_solution); for every group all witness unifications succeed and afterwards the free variables have the value of the group's witness, as have the witness copies of all its solutions (C11_witness_unify, C11_bagof_witnesses: for all group sizes and witness shapes, with an explicit sufficient fuel); setof lists are strictly ascending, duplicate-free and have the elements of their group, the comparison being proved a total order (C11_setof, C11_setof_order, C11_setof_aggregate). The model is tied to the Go code by the c11.collect stream (real interpreter vs model, plus an independent executable ISO oracle).",
        level_note="Trusted: Lean kernel; the hand-written model of FindAll/collectionOf/variant/renamedCopy/newFreeVariablesSet/Env.set/unify (differential runs, not proved); harness canonicalisation; the solution sequence of the goal is taken from the real interpreter (enumerated directly, not through findall); sort.Slice returns a sorted permutation. Terms are resolved in the call-time bindings before they enter the model. The final unification of the collected list with Instances is modelled and correspondence-checked but no theorem is stated about it beyond 'which variables it may bind' (unification is C02). Cyclic bindings (no occurs check) are outside the claim.",
        technique="Lean 4 proofs about an executable model (mutual structural induction over terms, list partition lemmas) + model/implementation/specification correspondence on generated fact tables",
        lean_module="PrologVerif.Properties.C11",
        ns="PrologVerif.C11",
        streams=[dict(name="c11.collect", quick=6000, thorough=60000),
                 dict(name="c11.variant", quick=4000, thorough=40000)],
        rule="one findall/bagof/setof call per case over a generated fact table (1-2 predicates, 0-10 facts; columns ground, partially bound, variant of each other, non-linear like t(1,C,C)); goals: fact calls, conjunctions, disjunctions, member/2, =/2, \\+, true/fail, goals raising errors (at once or after some solutions), nested findall/bagof/setof; templates sharing any subset of variables with the goal; 0-3 ^-prefixes over goal variables, other variables, compound or ground terms, also reached through call-time bindings; Instances unbound, partial, closed lists of variables or constants, non-lists, or sharing one variable with the call; generated from one PRNG (VERIF_SEED); c11.variant: variant/2 (hook VerifVariant) on pairs of random terms (bijective renamings, permutations of the own variables, non-injective renamings in both directions, constants for variables, unrelated terms) and renamedCopy (hook VerifRenamedCopy), non-trivial = first term has at least 2 variables; c11.collect: non-trivial = bagof/setof with at least 2 groups or a group of at least 2 solutions whose witness contains free variables, findall with at least 2 solutions; distinct = distinct case text",
        trusted=[
            "modelled (hand-written, correspondence-checked): engine/builtin.go FindAll, BagOf, SetOf, collectionOf, variant, iteratedGoalTerm, renamedCopy; engine/variable.go newVariableSet, newExistentialVariablesSet, newFreeVariablesSet; engine/compound.go Env.set, tuple; engine/env.go Resolve, unify (no occurs check) as used by collectionOf; the ListIterator check of Instances; the Compare methods on integers, atoms, variables, compounds",
            "input of the model, taken from the real interpreter on every case: the solution sequence of the (iterated) goal and the error it raises, enumerated directly with engine.Call (not through findall)",
            "specification oracle (Spec/Collect.lean judge): classes of witnesses by canonical form, witness unification in closed form, textbook unification with occurs check for Instances, variable order left open for setof",
            "not modelled: Go's term representations (list, partial, charList, codeList) inside renamedCopy; floats and streams in the standard order; resource errors of makeSlice",
        ],
        modelled={"hand_modelled": ["FindAll", "BagOf", "SetOf", "collectionOf", "variant", "iteratedGoalTerm", "renamedCopy", "newVariableSet", "newExistentialVariablesSet", "newFreeVariablesSet", "Env.set", "tuple", "Env.Resolve", "Env.unify"],
                  "regenerated": [], "observed_only": ["Call (solution sequence of the goal)", "ListIterator"]},
        assumptions=["the environment at the call is acyclic and no cyclic binding is created by the call (cases where the real interpreter builds a cyclic term are printed as CYCLIC and not judged)",
                     "sort.Slice returns a sorted permutation of its input",
                     "no floats, streams or custom atomic terms in the collected terms (standard order on them is C08)"],
    ),
}
