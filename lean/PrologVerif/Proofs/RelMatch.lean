/-
  Helper lemmas for C16: the one-way matcher decides "is an instance of", substitutions compose,
  and the generic consequences for `selectCands` (answers = candidate tuples that match the call).
-/
import PrologVerif.Model.Rel
namespace PrologVerif.Rel
open PrologVerif

/-! ### substitutions -/

mutual
  theorem substT_comp (f g : Nat → Term) : (t : Term) →
      substT g (substT f t) = substT (fun v => substT g (f v)) t
    | .var _ => by simp [substT]
    | .app _ as => by simp [substT, substA_comp f g as]
    | .atom _ => by simp [substT]
    | .int _ => by simp [substT]
    | .flt _ => by simp [substT]
    | .str _ => by simp [substT]
  theorem substA_comp (f g : Nat → Term) : (as : Args) →
      substA g (substA f as) = substA (fun v => substT g (f v)) as
    | .nil => by simp [substA]
    | .cons t ts => by simp [substA, substT_comp f g t, substA_comp f g ts]
end

mutual
  theorem substT_ground (f : Nat → Term) : (t : Term) → groundT t = true → substT f t = t
    | .var _ => by simp [groundT]
    | .app _ as => by
      intro h; simp only [groundT] at h; simp [substT, substA_ground f as h]
    | .atom _ => by simp [substT]
    | .int _ => by simp [substT]
    | .flt _ => by simp [substT]
    | .str _ => by simp [substT]
  theorem substA_ground (f : Nat → Term) : (as : Args) → groundA as = true → substA f as = as
    | .nil => by simp [substA]
    | .cons t ts => by
      intro h; simp only [groundA, Bool.and_eq_true] at h
      simp [substA, substT_ground f t h.1, substA_ground f ts h.2]
end

mutual
  /-- substitutions that agree on the variables of a term give the same instance -/
  theorem substT_congr (f g : Nat → Term) : (t : Term) → (∀ v, occursT v t = true → f v = g v) →
      substT f t = substT g t
    | .var v => by intro h; simp [substT]; exact h v (by simp [occursT])
    | .app _ as => by
      intro h; simp only [substT]; congr 1
      exact substA_congr f g as (fun v hv => h v (by simp [occursT, hv]))
    | .atom _ => by simp [substT]
    | .int _ => by simp [substT]
    | .flt _ => by simp [substT]
    | .str _ => by simp [substT]
  theorem substA_congr (f g : Nat → Term) : (as : Args) → (∀ v, occursA v as = true → f v = g v) →
      substA f as = substA g as
    | .nil => by simp [substA]
    | .cons t ts => by
      intro h; simp only [substA]
      rw [substT_congr f g t (fun v hv => h v (by simp [occursA, hv])),
          substA_congr f g ts (fun v hv => h v (by simp [occursA, hv]))]
end

@[simp] theorem substT_var_id : (t : Term) → substT Term.var t = t
  | t => by
    have := substT_id_aux t
    exact this
where
  substT_id_aux : (t : Term) → substT Term.var t = t := fun t => (go t).1
  go (t : Term) : substT Term.var t = t ∧ True := ⟨goT t, trivial⟩
  goT : (t : Term) → substT Term.var t = t
    | .var _ => by simp [substT]
    | .app _ as => by simp [substT, goA as]
    | .atom _ => by simp [substT]
    | .int _ => by simp [substT]
    | .flt _ => by simp [substT]
    | .str _ => by simp [substT]
  goA : (as : Args) → substA Term.var as = as
    | .nil => by simp [substA]
    | .cons t ts => by simp [substA, goT t, goA ts]

/-! ### the matcher -/

/-- σ agrees with the bindings collected so far -/
def Agrees (σ : Nat → Term) (θ : Subst) : Prop := ∀ v t, θ.lookup v = some t → σ v = t

/-- θ' keeps every binding of θ -/
def Extends (θ θ' : Subst) : Prop := ∀ v t, θ.lookup v = some t → θ'.lookup v = some t

theorem Extends.refl (θ : Subst) : Extends θ θ := fun _ _ h => h
theorem Extends.trans {a b c : Subst} (h₁ : Extends a b) (h₂ : Extends b c) : Extends a c :=
  fun v t h => h₂ v t (h₁ v t h)

theorem Subst.fn_of_lookup {θ : Subst} {v : Nat} {t : Term} (h : θ.lookup v = some t) : θ.fn v = t := by
  simp [Subst.fn, h]

theorem extends_cons {θ : Subst} {v : Nat} (g : Term) (h : θ.lookup v = none) : Extends θ ((v, g) :: θ) := by
  intro w t hw
  by_cases hwv : w = v
  · subst hwv; rw [h] at hw; cases hw
  · simp [List.lookup, hw]
    have : (w == v) = false := by simp [hwv]
    simp [this]

theorem agrees_cons {σ : Nat → Term} {θ : Subst} {v : Nat} {g : Term} (ha : Agrees σ θ) (hv : σ v = g) :
    Agrees σ ((v, g) :: θ) := by
  intro w t hw
  by_cases hwv : w = v
  · subst hwv; simp [List.lookup] at hw; rw [← hw]; exact hv
  · have : (w == v) = false := by simp [hwv]
    simp [List.lookup, this] at hw
    exact ha w t hw

mutual
  /-- completeness: an instance under σ is matched, and the result still agrees with σ -/
  theorem matchT_complete (σ : Nat → Term) : (p g : Term) → (θ : Subst) → Agrees σ θ → substT σ p = g →
      ∃ θ', matchT p g θ = some θ' ∧ Agrees σ θ'
    | .var v, g, θ => by
      intro ha h
      simp only [substT] at h
      unfold matchT
      cases hl : θ.lookup v with
      | some t =>
        have := ha v t hl
        simp [← h, this]; exact ha
      | none => exact ⟨_, rfl, agrees_cons ha h⟩
    | .app f as, g, θ => by
      intro ha h
      simp only [substT] at h
      subst h
      unfold matchT
      simp only [if_true]
      exact matchA_complete σ as _ θ ha rfl
    | .atom s, g, θ => by intro ha h; simp only [substT] at h; subst h; exact ⟨θ, by simp [matchT], ha⟩
    | .int i, g, θ => by intro ha h; simp only [substT] at h; subst h; exact ⟨θ, by simp [matchT], ha⟩
    | .flt b, g, θ => by intro ha h; simp only [substT] at h; subst h; exact ⟨θ, by simp [matchT], ha⟩
    | .str n, g, θ => by intro ha h; simp only [substT] at h; subst h; exact ⟨θ, by simp [matchT], ha⟩
  theorem matchA_complete (σ : Nat → Term) : (ps gs : Args) → (θ : Subst) → Agrees σ θ → substA σ ps = gs →
      ∃ θ', matchA ps gs θ = some θ' ∧ Agrees σ θ'
    | .nil, gs, θ => by intro ha h; simp only [substA] at h; subst h; exact ⟨θ, by simp [matchA], ha⟩
    | .cons a as, gs, θ => by
      intro ha h
      simp only [substA] at h
      subst h
      obtain ⟨θ₁, h₁, ha₁⟩ := matchT_complete σ a _ θ ha rfl
      obtain ⟨θ₂, h₂, ha₂⟩ := matchA_complete σ as _ θ₁ ha₁ rfl
      exact ⟨θ₂, by simp [matchA, h₁, h₂], ha₂⟩
end

mutual
  /-- soundness: the result extends θ and maps the pattern to the candidate, also after any
      further extension -/
  theorem matchT_sound : (p g : Term) → (θ θ' : Subst) → matchT p g θ = some θ' →
      Extends θ θ' ∧ ∀ θ'', Extends θ' θ'' → substT θ''.fn p = g
    | .var v, g, θ, θ' => by
      intro h
      unfold matchT at h
      cases hl : θ.lookup v with
      | some t =>
        simp only [hl] at h
        split at h
        · rename_i htg
          cases h
          exact ⟨Extends.refl _, fun θ'' he => by simp [substT, Subst.fn_of_lookup (he v t hl), htg]⟩
        · cases h
      | none =>
        simp only [hl] at h
        cases h
        refine ⟨extends_cons g hl, fun θ'' he => ?_⟩
        have : ((v, g) :: θ).lookup v = some g := by simp [List.lookup]
        simp [substT, Subst.fn_of_lookup (he v g this)]
    | .app f as, g, θ, θ' => by
      intro h
      unfold matchT at h
      split at h
      · rename_i f' bs
        split at h
        · rename_i hf
          subst hf
          obtain ⟨he, hs⟩ := matchA_sound as bs θ θ' h
          exact ⟨he, fun θ'' h'' => by simp [substT, hs θ'' h'']⟩
        · cases h
      · cases h
    | .atom s, g, θ, θ' => by
      intro h; unfold matchT at h; split at h
      · rename_i hg; cases h; exact ⟨Extends.refl _, fun _ _ => by simp [substT, hg]⟩
      · cases h
    | .int i, g, θ, θ' => by
      intro h; unfold matchT at h; split at h
      · rename_i hg; cases h; exact ⟨Extends.refl _, fun _ _ => by simp [substT, hg]⟩
      · cases h
    | .flt b, g, θ, θ' => by
      intro h; unfold matchT at h; split at h
      · rename_i hg; cases h; exact ⟨Extends.refl _, fun _ _ => by simp [substT, hg]⟩
      · cases h
    | .str n, g, θ, θ' => by
      intro h; unfold matchT at h; split at h
      · rename_i hg; cases h; exact ⟨Extends.refl _, fun _ _ => by simp [substT, hg]⟩
      · cases h
  theorem matchA_sound : (ps gs : Args) → (θ θ' : Subst) → matchA ps gs θ = some θ' →
      Extends θ θ' ∧ ∀ θ'', Extends θ' θ'' → substA θ''.fn ps = gs
    | .nil, gs, θ, θ' => by
      intro h; unfold matchA at h; split at h
      · cases h; exact ⟨Extends.refl _, fun _ _ => by simp [substA]⟩
      · cases h
    | .cons a as, gs, θ, θ' => by
      intro h
      unfold matchA at h
      split at h
      · rename_i b bs'
        split at h
        · rename_i θ₁ h₁
          obtain ⟨he₁, hs₁⟩ := matchT_sound a b θ θ₁ h₁
          obtain ⟨he₂, hs₂⟩ := matchA_sound as bs' θ₁ θ' h
          exact ⟨he₁.trans he₂, fun θ'' h'' => by simp [substA, hs₁ θ'' (he₂.trans h''), hs₂ θ'' h'']⟩
        · cases h
      · cases h
end

theorem matchL_complete (σ : Nat → Term) : (ps gs : List Term) → (θ : Subst) → Agrees σ θ →
    ps.map (substT σ) = gs → ∃ θ', matchL ps gs θ = some θ' ∧ Agrees σ θ'
  | [], gs, θ => by intro ha h; simp at h; subst h; exact ⟨θ, by simp [matchL], ha⟩
  | p :: ps, gs, θ => by
    intro ha h
    simp only [List.map_cons] at h
    subst h
    obtain ⟨θ₁, h₁, ha₁⟩ := matchT_complete σ p _ θ ha rfl
    obtain ⟨θ₂, h₂, ha₂⟩ := matchL_complete σ ps _ θ₁ ha₁ rfl
    exact ⟨θ₂, by simp [matchL, h₁, h₂], ha₂⟩

theorem matchL_sound : (ps gs : List Term) → (θ θ' : Subst) → matchL ps gs θ = some θ' →
    Extends θ θ' ∧ ∀ θ'', Extends θ' θ'' → ps.map (substT θ''.fn) = gs
  | [], [], θ, θ' => by intro h; simp [matchL] at h; subst h; exact ⟨Extends.refl _, fun _ _ => rfl⟩
  | [], _ :: _, θ, θ' => by intro h; simp [matchL] at h
  | _ :: _, [], θ, θ' => by intro h; simp [matchL] at h
  | p :: ps, g :: gs, θ, θ' => by
    intro h
    unfold matchL at h
    split at h
    · rename_i θ₁ h₁
      obtain ⟨he₁, hs₁⟩ := matchT_sound p g θ θ₁ h₁
      obtain ⟨he₂, hs₂⟩ := matchL_sound ps gs θ₁ θ' h
      exact ⟨he₁.trans he₂, fun θ'' h'' => by simp [hs₁ θ'' (he₂.trans h''), hs₂ θ'' h'']⟩
    · cases h

/-- `t` is an instance of the call pattern `args` -/
def IsInstance (args t : List Term) : Prop := ∃ σ : Nat → Term, t = args.map (substT σ)

/-- the matcher decides the instance relation -/
theorem matchL_isSome_iff (args t : List Term) : (matchL args t []).isSome = true ↔ IsInstance args t := by
  constructor
  · intro h
    obtain ⟨θ, hθ⟩ := Option.isSome_iff_exists.mp h
    exact ⟨θ.fn, ((matchL_sound args t [] θ hθ).2 θ (Extends.refl _)).symm⟩
  · rintro ⟨σ, rfl⟩
    obtain ⟨θ, hθ, _⟩ := matchL_complete σ args _ [] (fun _ _ h => by cases h) rfl
    simp [hθ]

instance (args t : List Term) : Decidable (IsInstance args t) :=
  decidable_of_iff _ (matchL_isSome_iff args t)

theorem IsInstance.trans {a b c : List Term} (h₁ : IsInstance a b) (h₂ : IsInstance b c) : IsInstance a c := by
  obtain ⟨σ, rfl⟩ := h₁
  obtain ⟨τ, rfl⟩ := h₂
  exact ⟨fun v => substT τ (σ v), by simp [List.map_map, Function.comp_def, substT_comp]⟩

theorem IsInstance.refl (a : List Term) : IsInstance a a :=
  ⟨Term.var, by rw [show substT Term.var = id from funext substT_var_id]; simp⟩

/-! ### selectCands -/

theorem mem_selectCands {args : List Term} {cands : Answers} {t : List Term} :
    t ∈ selectCands args cands ↔ t ∈ cands ∧ IsInstance args t := by
  simp [selectCands, List.mem_filter, matchL_isSome_iff]

theorem selectCands_nodup {args : List Term} {cands : Answers} (h : cands.Nodup) :
    (selectCands args cands).Nodup := by
  unfold selectCands
  exact List.Pairwise.filter _ h

theorem selectCands_singleton (args c : List Term) :
    selectCands args [c] = if IsInstance args c then [c] else [] := by
  simp only [selectCands, List.filter]
  by_cases h : IsInstance args c
  · have := (matchL_isSome_iff args c).mpr h
    simp [this, h]
  · have : (matchL args c []).isSome = false := by
      cases hh : (matchL args c []).isSome
      · rfl
      · exact absurd ((matchL_isSome_iff args c).mp hh) h
    simp [this, h]

end PrologVerif.Rel
