/-
  Atoms: the text the writer emits for an atom (quoted or not) is read back as that atom, in every
  context the writer puts it in.
-/
import PrologVerif.Proofs.NeedQuoted
set_option linter.unusedSimpArgs false
set_option linter.unusedVariables false
namespace PrologVerif.Write
open PrologVerif PrologVerif.Lexer

variable (cfg : Cfg)

/-- `text` followed by `tail` is delivered by successive `Token()` calls as the tokens `toks`, and
    `tail` is what remains -/
inductive LexSeq : List Char → List Token → List Char → Prop
  | nil (tail : List Char) : LexSeq [] [] tail
  | cons {x y : List Char} {t : Token} {ts : List Token} {tail : List Char} :
      LexTok cfg x t (y ++ tail) → LexSeq y ts tail → LexSeq (x ++ y) (t :: ts) tail

theorem LexSeq.single {x : List Char} {t : Token} {tail : List Char} (h : LexTok cfg x t tail) :
    LexSeq cfg x [t] tail := by
  have := LexSeq.cons (cfg := cfg) (x := x) (y := []) (t := t) (ts := []) (tail := tail) (by simpa using h) (.nil tail)
  simpa using this

theorem LexSeq.append_aux {x : List Char} {ts : List Token} {z : List Char} (h1 : LexSeq cfg x ts z) :
    ∀ {y : List Char} {us : List Token} {tail : List Char}, z = y ++ tail → LexSeq cfg y us tail →
      LexSeq cfg (x ++ y) (ts ++ us) tail := by
  induction h1 with
  | nil _ => intro y us tail _ h2; simpa using h2
  | cons ht _ ih =>
    intro y us tail hz h2
    subst hz
    have := ih rfl h2
    rw [List.append_assoc]
    exact LexSeq.cons (by simpa [List.append_assoc] using ht) this

theorem LexSeq.append {x y : List Char} {ts us : List Token} {tail : List Char}
    (h1 : LexSeq cfg x ts (y ++ tail)) (h2 : LexSeq cfg y us tail) : LexSeq cfg (x ++ y) (ts ++ us) tail :=
  LexSeq.append_aux cfg h1 rfl h2

/-- the characters the writer puts after an atom: space, `(`, `)`, `,` -/
def Delim (t : Char) : Prop := t = ' ' ∨ t = '(' ∨ t = ')' ∨ t = ','

theorem Delim.facts {t : Char} (h : Delim t) :
    isAlphanumericChar cfg t = false ∧ isGraphicOrBs t = false ∧ t ≠ '\'' ∧ IntTail t := by
  rcases h with h | h | h | h <;> subst h <;>
    exact ⟨rfl, rfl, by decide, rfl, by decide, by decide, by decide, by decide, by decide⟩

/-- reading an atom from `text ++ tail`: the tokens of `text`, then `Parser.atom`, which delivers `s`
    and has consumed exactly these tokens -/
def ReadsAtom (text s tail : List Char) : Prop :=
  ∃ toks, toks ≠ [] ∧ LexSeq cfg text toks tail ∧
    ∀ (dq : Read.DoubleQuotes) (before rest : List Token) (vars : List (List Char × Nat)) (nv : Nat),
      Read.atom dq ⟨before, toks ++ rest, vars, nv⟩ =
        (.ok (String.ofList s), ⟨toks.reverse ++ before, rest, vars, nv⟩)

/-- an atom written in quotes reads back -/
theorem readsAtom_quoted (hconv : ∀ c, cfg.conv c = c) (s tail : List Char) (ht : HeadIs Delim tail) :
    ReadsAtom cfg (quote cfg s) s tail := by
  refine ⟨[⟨.quoted, quote cfg s⟩], by simp, LexSeq.single cfg (lexTok_quote cfg hconv s tail ?_), ?_⟩
  · intro h
    exact (Delim.facts cfg (ht _ h)).2.2.1 rfl
  · intro dq before rest vars nv
    simp [Read.atom, Read.name, Read.next, unquote_quote]

/-- an atom written without quotes reads back -/
theorem readsAtom_unquoted (hconv : ∀ c, cfg.conv c = c) (s tail : List Char) (hs : Unquoted cfg s)
    (ht : HeadIs Delim tail) : ReadsAtom cfg s s tail := by
  rcases hs with h | h | h | h | h | h
  · refine ⟨[⟨.letterDigit, s⟩], by simp, LexSeq.single cfg (lexTok_ldName cfg hconv s tail h ?_), ?_⟩
    · intro t ht'; exact (Delim.facts cfg (ht t ht')).1
    · intro dq before rest vars nv
      simp [Read.atom, Read.name, Read.next]
  · refine ⟨[⟨.graphic, s⟩], by simp, LexSeq.single cfg (lexTok_graphicName cfg hconv s tail h ?_), ?_⟩
    · intro t ht'; exact (Delim.facts cfg (ht t ht')).2.1
    · intro dq before rest vars nv
      simp [Read.atom, Read.name, Read.next]
  · subst h
    refine ⟨[⟨.semicolon, [';']⟩], by simp, LexSeq.single cfg (lexTok_solo cfg hconv ';' tail (by simp)), ?_⟩
    intro dq before rest vars nv
    simp [Read.atom, Read.name, Read.next]
  · subst h
    refine ⟨[⟨.cut, ['!']⟩], by simp, LexSeq.single cfg (lexTok_solo cfg hconv '!' tail (by simp)), ?_⟩
    intro dq before rest vars nv
    simp [Read.atom, Read.name, Read.next]
  · subst h
    refine ⟨[⟨.openList, ['[']⟩, ⟨.closeList, [']']⟩], by simp, ?_, ?_⟩
    · exact LexSeq.cons (x := ['[']) (y := [']']) (lexTok_solo cfg hconv '[' _ (by simp))
        (LexSeq.single cfg (lexTok_solo cfg hconv ']' tail (by simp)))
    · intro dq before rest vars nv
      simp [Read.atom, Read.name, Read.next, Read.backup]
  · subst h
    refine ⟨[⟨.openCurly, ['{']⟩, ⟨.closeCurly, ['}']⟩], by simp, ?_, ?_⟩
    · exact LexSeq.cons (x := ['{']) (y := ['}']) (lexTok_solo cfg hconv '{' _ (by simp))
        (LexSeq.single cfg (lexTok_solo cfg hconv '}' tail (by simp)))
    · intro dq before rest vars nv
      simp [Read.atom, Read.name, Read.next, Read.backup]

/-- the text `writeq` emits for an atom — quoted if `needQuoted`, verbatim otherwise — reads back as
    that atom, whatever delimiter follows -/
theorem readsAtom_atomText (hconv : ∀ c, cfg.conv c = c) (s tail : List Char) (ht : HeadIs Delim tail) :
    ReadsAtom cfg (atomText cfg s) s tail := by
  unfold atomText
  split
  · exact readsAtom_quoted cfg hconv s tail ht
  · rename_i h
    exact readsAtom_unquoted cfg hconv s tail (unquoted_of_needQuoted cfg s (by simpa using h)) ht

end PrologVerif.Write
