/-
  C13 — cancelling the context stops any execution promptly; the interpreter stays usable.

  The logical half: `Force` polls the context at the top of EVERY iteration, before popping the
  stack; between two polls at most one thunk (or one chain of recovery functions) runs; a cancelled
  `Force` returns the state of the last completed iteration untouched.  The physical half (wall
  clock, scheduler) is observed by the `c13.latency` stream.
-/
import PrologVerif.Proofs.Promise
import PrologVerif.Model.PTree
import PrologVerif.Proofs.VMCancel
import PrologVerif.Restate
namespace PrologVerif.C13
open PrologVerif PrologVerif.Promise

variable {τ ρ ε σ : Type}

/-- **C13_poll_every_iteration / C13_state_untouched**: once `ctx.Done()` is ready (iteration index
    ≥ cancelAt), the next iteration returns the context's error WITHOUT popping the stack, calling a
    thunk or a recovery function — the machine state is returned exactly as the last completed
    iteration left it -/
theorem C13_poll_first (sem : Sem τ ρ ε σ) (c n : Nat) (p : P τ ρ ε) (stack : List (P τ ρ ε)) (m : M σ)
    (hc : c ≤ m.iter) : force sem (some c) (n + 1) (p :: stack) m = some (.cancelled, m) := by
  simp [force, isCancelled, hc]

/-- **C13_bounded_work**: with cancellation at `c`, no `Force` (nested ones included, by
    `IterBounded`) ever completes more than `c` iterations in total, whatever the program: the
    pending call returns after at most `c` more thunks -/
theorem C13_bounded_work (sem : Sem τ ρ ε σ) (c : Nat) (hb : IterBounded sem c) :
    ∀ (n : Nat) (stack : List (P τ ρ ε)) (m : M σ) (r : Promise.Res ε) (m' : M σ),
      force sem (some c) n stack m = some (r, m') → m.iter ≤ c → m'.iter ≤ c
  | 0, _, _, _, _, h, _ => by simp [force] at h
  | n + 1, [], m, r, m', h, hm => by simp [force] at h; rw [← h.2]; exact hm
  | n + 1, p :: stack, m, r, m', h, hm => by
    simp only [force] at h
    split at h
    · simp only [Option.some.injEq, Prod.mk.injEq] at h; rw [← h.2]; exact hm
    · rename_i hnc
      have hlt : m.iter + 1 ≤ c := by
        simp [isCancelled] at hnc; omega
      split at h
      · split at h
        · split at h
          · rename_i m2 hrec
            simp only [Option.some.injEq, Prod.mk.injEq] at h
            rw [← h.2]
            exact recoverStack_iter sem c hb _ stack _ none m2 hrec hlt
          · rename_i st2 m2 hrec
            exact C13_bounded_work sem c hb n st2 m2 r m' h
              (recoverStack_iter sem c hb _ stack _ (some st2) m2 hrec hlt)
        · split at h
          · simp only [Option.some.injEq, Prod.mk.injEq] at h; rw [← h.2]; exact hlt
          · exact C13_bounded_work sem c hb n stack _ r m' h hlt
      · split at h
        · simp at h
        · rename_i q m2 hev
          exact C13_bounded_work sem c hb n _ m2 r m' h (hb.thunk n _ _ q m2 hev hlt)

/-- the pure promise-tree semantics (used by the `c03.force` stream) is `IterBounded`: its thunks
    and handlers never touch the poll counter -/
theorem evalThunk_iter : ∀ (t : PTree.PT) (m : M PTree.St), (PTree.evalThunk t m).2.iter = m.iter
  | .ok, _ => rfl
  | .fail, _ => rfl
  | .err _, _ => rfl
  | .delay _ _, _ => rfl
  | .cut _ _, _ => rfl
  | .catch_ _ _ _, _ => rfl
  | .rep _, _ => rfl
  | .log _ k, m => by simp only [PTree.evalThunk]; rw [evalThunk_iter k]
  | .set _ _ k, m => by simp only [PTree.evalThunk]; rw [evalThunk_iter k]

theorem C13_pure_iterBounded (c : Nat) : IterBounded PTree.sem c where
  thunk := by
    intro n t m q m' h hm
    simp only [PTree.sem, Option.some.injEq] at h
    have := evalThunk_iter t m
    rw [h] at this
    simp at this
    omega
  recover := by
    intro r e m q m' h hm
    simp only [PTree.sem, PTree.evalRecover] at h
    split at h
    · split at h
      · rename_i t _
        simp only [Prod.mk.injEq] at h
        have := evalThunk_iter t m
        rw [h.2] at this
        omega
      · simp only [Prod.mk.injEq] at h; rw [← h.2]; exact hm
    · simp only [Prod.mk.injEq] at h; rw [← h.2]; exact hm

end PrologVerif.C13

/-! ## the VM instance: cancellation reaches every nested trampoline (proofs: Proofs/VMCancel.lean)

  `IterBounded` is too weak for the VM: the thunks of `\+` and findall/3 run a nested trampoline
  under the context stored in the state (`St.cancelAt`), so they stay within `c` only as long as
  that context is the one cancelled at `c`.  The invariant-carrying form: -/

namespace PrologVerif.C13
open PrologVerif PrologVerif.Promise PrologVerif.VM PrologVerif.VMCancel

/-- **C13_bounded_work_inv** (generic): `C13_bounded_work` relative to a state invariant `Inv` that
    thunks and recovery functions keep (`IterBoundedInv sem c Inv`: started in a state satisfying
    `Inv` within `c`, they end in such a state) -/
theorem C13_bounded_work_inv {τ ρ ε σ : Type} (sem : Sem τ ρ ε σ) (c : Nat) (Inv : σ → Prop)
    (hb : IterBoundedInv sem c Inv) (n : Nat) (stack : List (P τ ρ ε)) (m : M σ) (r : Promise.Res ε) (m' : M σ)
    (h : force sem (some c) n stack m = some (r, m')) (hi : Inv m.user) (hm : m.iter ≤ c) :
    Inv m'.user ∧ m'.iter ≤ c :=
  force_bounded_inv sem c Inv hb n stack m r m' h hi hm

/-- the old form is the instance `Inv = True` -/
theorem C13_iterBounded_iff {τ ρ ε σ : Type} (sem : Sem τ ρ ε σ) (c : Nat) :
    IterBounded sem c ↔ IterBoundedInv sem c (fun _ => True) := iterBounded_iff sem c

/- **C13_vm_context_preserved**: no step of the VM — instruction, continuation, built-in, thunk
    (nested trampolines included), recovery closure, trampoline — ever changes the context
    (`St.cancelAt`); only thunks and the trampoline advance the poll counter -/
restate C13_vm_context_preserved := VMCancel.cancelAt_preserved

/-- the VM semantics satisfies `IterBoundedInv` for the invariant "the context is cancelled at `c`" -/
theorem C13_vm_iterBoundedInv (fuel c : Nat) :
    IterBoundedInv (VM.sem fuel) c (fun s => s.cancelAt = some c) := vm_iterBoundedInv fuel c

/-- **C13_vm_bounded_work**: with the context cancelled at poll `c`, every run of the trampoline
    over the VM semantics — for every program, stack, state and fuel — that starts within `c` ends
    within `c`: the iterations of ALL nested trampolines of `\+` and findall/3 (any depth; they share
    the counter) included.  So the pending call returns after at most `c` more thunks in total. -/
theorem C13_vm_bounded_work (fuel c n : Nat) (stack : List Pr) (m : MS) (r : Promise.Res Err) (m' : MS)
    (h : force (VM.sem fuel) (some c) n stack m = some (r, m'))
    (hc : m.user.cancelAt = some c) (hm : m.iter ≤ c) :
    m'.user.cancelAt = some c ∧ m'.iter ≤ c :=
  vm_force_bounded fuel c n stack m r m' h hc hm

/-- one thunk, whatever it nests -/
theorem C13_vm_thunk_bounded (fuel c : Nat) (t : Thunk) (m : MS) (q : Pr) (m' : MS)
    (h : evalThunk fuel t m = some (q, m')) (hc : m.user.cancelAt = some c) (hm : m.iter ≤ c) :
    m'.user.cancelAt = some c ∧ m'.iter ≤ c :=
  vm_thunk_bounded fuel c t m q m' h hc hm

/-- **C13_vm_cancel_propagates**: a cancelled nested trampoline of `\+` / findall/3 (they run under
    the caller's context) makes the thunk return `Error(ctx.Err())` = "context canceled", in a state
    in which `ctx.Done()` is ready -/
theorem C13_vm_cancel_propagates (n : Nat) (k : Cont) (env : Env) (m m' : MS) :
    (∀ goal, negateRun n goal env m = some (.cancelled, m') →
      evalThunk (n + 1) (.negate goal k env) m = some (errP (.goErr "context canceled"), m') ∧
      isCancelled m.user.cancelAt m'.iter = true) ∧
    (∀ tmpl goal inst, findallRun n tmpl goal env m = some (.cancelled, m') →
      evalThunk (n + 1) (.findall tmpl goal inst k env) m = some (errP (.goErr "context canceled"), m') ∧
      isCancelled m.user.cancelAt m'.iter = true) :=
  vm_cancel_propagates n k env m m'

/-- **C13_vm_cancel_wins**: if the thunk called in an iteration returns in a state in which
    `ctx.Done()` is ready — in particular after a trampoline nested in it (at any depth) was
    cancelled, whatever the thunk made of that — the next iteration of the enclosing trampoline
    returns `.cancelled`, the state exactly as the thunk left it -/
theorem C13_vm_cancel_wins (fuel n : Nat) (ca : Option Nat) (p : Pr) (stack : List Pr) (m : MS)
    (t : Thunk) (ts : List Thunk) (q : Pr) (m' : MS)
    (hnc : isCancelled ca m.iter = false) (hd : p.delayed = t :: ts)
    (hev : evalThunk fuel t { m with iter := m.iter + 1 } = some (q, m'))
    (hc : isCancelled ca m'.iter = true) :
    force (VM.sem fuel) ca (n + 2) (p :: stack) m = some (.cancelled, m') :=
  vm_cancel_wins fuel n ca p stack m t ts q m' hnc hd hev hc

/-- **C13_vm_cancel_never_offered**: the error of a cancelled nested trampoline is never offered to a
    catch/3 frame: replacing what `Catch`'s recovery closures do with "context canceled" by ANY
    function `alt` changes no run of a trampoline under the context of its state (the outermost and,
    being of this form, every nested one) — no catch/3 can swallow a cancellation -/
theorem C13_vm_cancel_never_offered (fuel n : Nat) (alt : Handler → MS → Option Pr × MS)
    (stack : List Pr) (m : MS)
    (hst : ∀ p ∈ stack, p.err = some cancelErr → isCancelled m.user.cancelAt m.iter = true) :
    force (semAlt fuel alt) m.user.cancelAt n stack m = force (VM.sem fuel) m.user.cancelAt n stack m :=
  vm_cancel_never_offered fuel n alt stack m hst

/-- … although the closure by itself would accept it (model and Go code alike: a non-`Exception`
    error is wrapped as `error(system_error, Msg)` and unified with the catcher) -/
theorem C13_vm_cancel_error_is_catchable (h : Handler) (m : MS) (env' : Env)
    (hflag : m.user.flag h.flag = true)
    (hu : unify inner false h.env h.catcher cancelBall = some (env', .ok)) :
    evalRecover h cancelErr m = (some (callGoal h.recover h.k env' m).1, (callGoal h.recover h.k env' m).2) :=
  vm_cancel_error_is_catchable h m env' hflag hu

/-- **C13_vm_no_cancel_leak**: no trampoline under the context of its state ends with
    "context canceled" as an ordinary error result: it ends `.cancelled` -/
theorem C13_vm_no_cancel_leak (fuel n : Nat) (stack : List Pr) (m : MS) (r : Promise.Res Err) (m' : MS)
    (h : force (VM.sem fuel) m.user.cancelAt n stack m = some (r, m'))
    (hst : ∀ p ∈ stack, p.err = some cancelErr → isCancelled m.user.cancelAt m.iter = true) :
    r ≠ .error cancelErr :=
  vm_no_cancel_leak fuel n stack m r m' h hst

/-- `runQuery` = `runQueryM` (which exposes the final machine state) with the answers read off -/
theorem C13_vm_runQuery_eq (fuel : Nat) (prog : List Term) (query : Term) (max : Nat) (cancelAt : Option Nat) :
    runQuery fuel prog query max cancelAt =
      (runQueryM fuel prog query max cancelAt).map (fun rm => (rm.2.user.answers.reverse, endOf rm.1)) :=
  runQuery_eq fuel prog query max cancelAt

/-- **C13_vm_run_cancelled**: for every program, query, answer limit and fuel, a run under a context
    cancelled at poll `c` performs at most `c` successful polls in total (nested trampolines
    included) and ends either `.cancelled`, at poll `c` exactly, or on its own, none of its polls
    having observed the cancellation — never with the error "context canceled" of a nested trampoline -/
theorem C13_vm_run_cancelled (fuel : Nat) (prog : List Term) (query : Term) (max c : Nat)
    (answers : List Term) (e : End) (h : runQuery fuel prog query max (some c) = some (answers, e)) :
    ∃ r m', runQueryM fuel prog query max (some c) = some (r, m') ∧ e = endOf r ∧
      answers = m'.user.answers.reverse ∧ m'.iter ≤ c ∧
      ((r = .cancelled ∧ m'.iter = c) ∨ (r ≠ .cancelled ∧ r ≠ .error cancelErr)) :=
  vm_run_end fuel prog query max c answers e h

/-- in terms of `End` alone -/
theorem C13_vm_run_end_not_goErr (fuel : Nat) (prog : List Term) (query : Term) (max c : Nat)
    (answers : List Term) (e : End) (h : runQuery fuel prog query max (some c) = some (answers, e)) :
    e ≠ .goErr "context canceled" := by
  obtain ⟨r, m', _, he, _, _, hr⟩ := vm_run_end fuel prog query max c answers e h
  subst he
  rcases hr with ⟨rfl, _⟩ | ⟨_, hne⟩
  · simp [endOf]
  · intro heq
    apply hne
    unfold endOf at heq
    split at heq <;> first | cases heq | skip
    rfl

/-- "ends `.cancelled` or after FEWER than `c` polls" would be false: a run may end on its own in the
    iteration that follows the `c`-th successful poll (counter = c, outcome `.yes`) -/
theorem C13_vm_naive_formulation_false :
    ∃ (r : Promise.Res Err) (m' : MS),
      force (VM.sem 1) (some 1) 2 [okP] { user := { cancelAt := some 1 } } = some (r, m') ∧
      r ≠ .cancelled ∧ ¬ m'.iter < 1 :=
  Ex.naive_formulation_false

/-- the worked run: `\+ repeat` under a context cancelled at poll 2 — the nested trampoline is
    cancelled at its second poll, the thunk returns "context canceled", the outer trampoline returns
    `.cancelled`, 2 polls in total -/
theorem C13_vm_worked_run (n : Nat) :
    force (VM.sem (n + 6)) (some 2) (n + 2) [Ex.negP] Ex.m0 = some (.cancelled, Ex.m2) ∧ Ex.m2.iter = 2 :=
  ⟨Ex.outer_run n, rfl⟩

end PrologVerif.C13
