"""Per-property configuration of bin/check (streams, sizes, trusted base). See DESIGN.md §6."""

COMMON_TRUSTED = [
    "Lean 4.33.0 kernel (thorough tier: re-checked with leanchecker); axioms allowed in property theorems: propext, Classical.choice, Quot.sound only (audited on every run by PrologVerif/Audit.lean); no sorry/admit/native_decide/bv_decide/own axioms (grep on every run)",
    "hand-written Lean model mirrors the Go code: CHECKED by the correspondence streams (differential testing, bounded by the generators; distributions are in this file), not proved",
    "/verif/extract (regenerated facts / translated definitions) and /verif/harness (in-process runner, canonicalisation: variables renamed by first occurrence, map-ordered output sorted, error context dropped)",
    "Go compiler/runtime and standard library behave as documented",
]

NOT_APPLICABLE = {}

PROPS = {
    "C18": dict(
        level_text="Proof: the operator-table state machine (Op/validateOp/CurrentOp and the operators methods) is modelled in Lean; for ALL histories of op/3 calls with arbitrary argument terms the ISO invariant (C18_inv), atomicity of failed updates (C18_atomic), the exact effect of successful updates (C18_update_exact: latest wins, 0 removes, other classes kept) and exactness of current_op/3 (C18_current_op_exact) are kernel-checked theorems, the default table being regenerated from bootstrap.pl. The model is tied to the Go code by the c18.hist correspondence stream (impl vs model, plus an independent executable ISO specification as oracle, plus reader/writer probes).",
        level_note="Trusted: Lean kernel; the hand-written model of Op/validateOp/CurrentOp (checked by differential runs, not proved); harness canonicalisation; reader/writer use of the table is only probed, not modelled. Pattern variables of current_op/3 assumed pairwise distinct.",
        technique="Lean 4 invariant proof by induction over op/3 histories + regenerated default table + model/implementation correspondence",
        lean_module="PrologVerif.Properties.C18",
        ns="PrologVerif.C18",
        streams=[dict(name="c18.hist", quick=3000, thorough=40000)],
        rule="histories of 1..8 operations over op/3 (valid and invalid priorities, specifiers, names, lists with invalid members, partial lists, special names , | [] {}), current_op/3 in every instantiation pattern, and a reader/writer probe; generated from one PRNG (VERIF_SEED); non-trivial = at least two op/3 calls in the history changed the table, or one changed it and another was rejected; distinct = distinct case text",
        trusted=[
            "modelled (hand-written, correspondence-checked): engine/builtin.go Op, validateOp, appendUniqNewAtom, CurrentOp; engine/parser.go operators.define/remove/definedInClass; ListIterator as used by Op",
            "regenerated from source on every run: the default operator table = the op/3 directives of bootstrap.pl read by the real parser (Generated/Bootstrap.lean); C18_default_valid is re-proved against it by kernel evaluation",
            "not modelled: the reader and writer themselves (only probed: 'a n b', 'n a', 'a n' parse / writeq(n(a,b)), writeq(n(a)) print according to the table); Go map iteration order (answers compared as sets)",
        ],
        modelled={"hand_modelled": ["Op", "validateOp", "appendUniqNewAtom", "CurrentOp", "operators.define", "operators.remove", "operators.definedInClass"],
                  "regenerated": ["bootstrap.pl op/3 directives"], "observed_only": ["Parser (probe)", "WriteCompound (probe)"]},
        assumptions=["pattern variables of current_op/3 calls are pairwise distinct (the model matches argument-wise)"],
    ),
    "C02": dict(
        lean_module="PrologVerif.Properties.C02",
        ns="PrologVerif.C02",
        streams=[dict(name="c02.unify", quick=6000, thorough=60000),
                 dict(name="c02.env", quick=600, thorough=6000)],
        rule="c02.unify: pairs of random terms (atoms, ints, floats, variables shared within and between the sides, compounds, proper/partial/improper lists), the second often a mutation of the first so that most pairs unify; every list is built through a constructor path drawn per case (bracket list, './2 compound, char/code string, append/3 fast path = partial over another encoding, =../2, findall/3, atom_chars/2, copy_term/2); modes X=Y, Y=X, unify_with_occurs_check, failure observation ((X=Y->R=yes;R=no)), clause-head unification; pairs subject to occurs check are only given to unify_with_occurs_check. Observed: success, X==Y afterwards, bindings of all variables. c02.env: random bind sequences on persistent environments, each bind on the latest or on any older version; every version is dumped (shape, colours, keys, values) with all lookups. Non-trivial: both sides compound or >=2 encodings involved (unify); >=4 versions (env).",
        level_text="Proof: Resolve/unify/contains (engine/env.go) are modelled in Lean over abstract terms with fuel; for ALL terms, environments and fuel a finished run preserves the solution set exactly (C02_unify_preserves_solutions: success = soundness + no unifier lost, failure = not unifiable, occurs = no finite unifier), is symmetric, agrees with the checked version on NSTO pairs (C02_nsto_agrees), and with the occurs check yields an idempotent most general unifier (C02_unify_oc_mgu) after which the terms are identical (C02_identical_after_success). The red-black tree environment is proved to refine a finite map (C02_rbenv_refines_map) and every Go term encoding is proved faithful to its abstract term through the Compound interface (C02_rep_faithful_*). Tied to the code by the correspondence streams c02.unify (with an independent textbook unification algorithm as oracle) and c02.env (tree shape of every version).",
        level_note="Trusted: Lean kernel; hand-written models of unify/Resolve/contains, the tree and the encodings (checked by differential runs); Go's Resolve stop list is not modelled (it matters only for pure variable cycles, which unify cannot create; the model runs out of fuel there); termination of unify on acyclic environments is not proved (fuel); cyclic terms excluded as in the property; -0.0/NaN floats not generated.",
        technique="Lean 4 solution-set preservation proof for unify (induction on fuel), idempotent-mgu invariant, red-black tree refinement, + model/implementation correspondence with an independent reference unifier as oracle",
        trusted=[
            "modelled (hand-written, correspondence-checked): engine/env.go Resolve, unify, contains, lookup, bind, insert, balance, newEnvKey; engine/compound.go list/partial/charList/codeList/compound Functor/Arity/Arg",
            "not modelled: Resolve's stop list (pure variable cycles only); exec's opGet* head unification is observed through mode h of c02.unify and modelled in C01/C10; callers' handling of a failed unification is observed (mode f), not proved here",
        ],
        modelled={"hand_modelled": ["Env.Resolve", "Env.unify", "contains", "Env.lookup", "Env.bind", "Env.insert", "Env.balance", "newEnvKey", "list/partial/charList/codeList/compound methods"],
                  "observed_only": ["opGet* head unification", "Unify/UnifyWithOccursCheck builtins' failure handling"]},
        assumptions=["pairs subject to occurs check are excluded for =/2 (ISO 7.3.3), as the property says", "no -0.0 / NaN floats in generated terms (Go compares floats with IEEE ==)"],
    ),
    "C03": dict(
        lean_module="PrologVerif.Properties.C03",
        ns="PrologVerif.C03",
        streams=[dict(name="c03.force", quick=6000, thorough=80000)],
        rule="c03.force: random promise TREES (Delay with 1..3 alternatives, cut to an ancestor - or, in a malformed share, to a non-ancestor / never-allocated parent -, catch with handler tables and the disarm/re-arm shape of the fixed Catch, repeat, success/failure/error leaves, trace and flag side effects) are built from the real constructors and forced on the real trampoline; the model of Force must produce the same result, iteration count and thunk trace; the recursive reference search (Spec/DFS) judges result and trace. Non-trivial: the tree contains a cut or a catch.",
        level_text="Proof (trampoline level; whole-program refinement staged in C01): Force/child/popUntil are modelled in Lean with pointer identity as ids; theorems for ALL stacks: a cut leaves exactly the exhausted parent marker plus the untouched older part of the stack (C03_cut_pops_exactly), a later cut of the same clause stops at the marker (C03_second_cut_same_clause - false on the pinned tree, defect D21 fixed), a cut only ever removes the newest part of the stack. Tied to the code by c03.force (real trampoline vs model, reference depth-first search with cut barrier as oracle).",
        level_note="Trusted: Lean kernel; the hand-written model of promise.go (checked by differential runs on random promise trees incl. malformed cut parents); Go closures are defunctionalised; the refinement of the VM (exec/clauses.call/Call) onto promise trees and the once/\\+/if-then-else corollaries are checked by the c03.answers stream and stated in C01, not yet proved end to end.",
        technique="Lean 4 theorems about a model of the Force trampoline (ids for pointer identity) + correspondence on random promise trees with a recursive reference search as oracle",
        trusted=["modelled (hand-written, correspondence-checked): engine/promise.go Force, child, popUntil, recover, cut/repeat/catch constructors",
                 "not modelled here: how exec/clauses.call/Call allocate cut parents (VM model, C01/C10)"],
        modelled={"hand_modelled": ["Promise.Force", "Promise.child", "promiseStack.popUntil", "promiseStack.recover", "cut", "repeat", "catch"]},
        assumptions=["cut parents are plain Delay promises (true of every call site: clauses.call, CallNth)"],
    ),
    # TEMPORARY entry: the three answer streams with the reference interpreter Spec/SLD as oracle; the
    # model column is a placeholder (no_model_compare) until the VM model is wired in, and
    # Properties/C01.lean holds only sanity theorems about the reference interpreter.
    "C01": dict(
        lean_module="PrologVerif.Properties.C01",
        ns="PrologVerif.C01",
        streams=[dict(name="c01.answers", quick=3000, thorough=20000, no_model_compare=True, j=6),
                 dict(name="c03.answers", quick=3000, thorough=10000, no_model_compare=True, j=6),
                 dict(name="c04.answers", quick=3000, thorough=20000, no_model_compare=True, j=6)],
        rule="one payload format '<maxAnswers> | Query | Clause | ...' and one runner (fresh interpreter, assertz of every clause, the query run through engine.Call, every answer = the query term as instantiated, at most maxAnswers, 5 s timeout). "
             "c01.answers: pure programs over 2..5 predicates of arity 0..3 with 1..4 clauses, plain or recursive over a list / peano numeral in the first argument (direct and mutual recursion; unguarded recursion in a share), arguments from shared variables, atoms, small integers, f/1 g/2 nesting <= 3, proper and partial lists; bodies of 0..3 goals among user calls, =/2, member/2, append/3, nested conjunction/disjunction without cut, call/N with partially applied closures, goals and conjunctions/disjunctions passed through variables bound at call time (G = (A ; B), call((G ; C)), or/2 and/2 helper predicates); 1..3 query goals; non-trivial = >= 2 answers or backtracking over a clause that failed after its head had unified. "
             "c03.answers: control skeletons t/3 (+ a recursive u/2 in a third) over true, fail, !, a/1 (3 answers), b/1 (2 answers), ==, \\==, =, markers, call/1 with cut inside, \\+, once, ->, if-then-else, nested ;, left-nested conjunction, findall, and control constructs assembled through variables bound at call time (or(A,B) :- call((A;B)) with A = (C -> T), G = (C -> T), call((G ; E)), G = (a, b), call((G, c)), the same inside findall / \\+ / catch, and the stored-clause variants or2(A,B) :- A ; B); ! as direct conjunct of the body or of a top-level disjunct (claimed placements) everywhere, inside nested branches / left-nested conjunctions (opaque placements) in a third of the bodies; queries that backtrack into t, keep older choice points, wrap t in findall / call / \\+ / once / if-then-else; thorough tier adds EVERY program of two clauses t(X,Y) :- Body with bodies of 0..3 goals over the alphabet {!, fail, a(X), b(Y), X==2, Y==2, once(a(X))} followed by t(0,0) (160000 programs); non-trivial = a cut written in the program is executed while an alternative is pending in its scope. "
             "c04.answers: p/3 (+ q/1 in half) with catch/3 nested up to 4 deep, balls b1 b2 bb(X) bb(k) bb(_) error(..) and throw(_), catchers that match / do not match / share variables with the goal / catch everything / error(E,_), recoveries that publish the ball, rethrow, fail, are nondeterministic; throws before exit, in the continuation after exit, after redo, inside findall, \\+, call/N, once, if-then-else; errors of built-ins (unknown procedure, atom_length/2, call/1 of a variable or a number, between/3); cut in a share; a sixth of the bodies are redo-then-throw patterns (the goal of a catch/3 exits leaving a choice point, the continuation fails, the re-entered goal throws a ball the catcher matches, optionally inside an outer catch/3 that must not get it); non-trivial = a ball crossed a catch/3 that did not match or whose goal had exited, or was caught by a catch/3 re-entered by backtracking after its goal had exited. "
             "Every candidate is screened by a Go transcription of the reference interpreter (harness/c01ref.go): searches over 3000 steps or meeting a unification subject to occurs check are dropped at generation time. Tags: answers, end, steps, iso (would ISO cut transparency give another result), stream specific counters.",
        level_text="PLACEHOLDER (components for C01/C03/C04): the reference interpreter Spec/SLD (textbook SLD resolution over resolvents with cut signal, catch/throw per ISO 7.8.9, call/N, findall, if-then-else, \\+) judges every answer sequence of the real interpreter on the three answer streams; Properties/C01.lean holds sanity theorems about the reference interpreter only.",
        level_note="Trusted: Lean kernel; Spec/SLD as the meaning of 'standard Prolog execution' (with the engine's documented cut transparency, iso=false); the Go transcription of it used for screening and tags cannot affect a verdict.",
        technique="executable reference semantics in Lean as oracle for whole-program answer sequences",
        trusted=["Spec/SLD.lean is the authority for the meaning of the properties C01/C03/C04 on the generated programs",
                 "harness/c01ref.go (Go transcription of the specification) only screens candidates and computes tags"],
        modelled={"observed_only": ["whole interpreter through engine.Call + assertz"]},
        assumptions=["programs and queries without unifications subject to occurs check (ISO 7.3.3: undefined)",
                     "the context argument of error(Formal, Context) is implementation defined and not compared"],
    ),
}
