import PrologVerif.Basic
import PrologVerif.Model.Errors
import PrologVerif.Model.Ops
import PrologVerif.Spec.OpTable
import PrologVerif.Spec.Iter
import PrologVerif.Model.Solutions
import PrologVerif.Model.Api
