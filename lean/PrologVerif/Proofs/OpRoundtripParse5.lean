/-
  P2: the parser lemma for `{…}`, lists and functional notation, and the induction over the term.
-/
import PrologVerif.Proofs.OpRoundtripParse4
set_option linter.unusedSimpArgs false
set_option linter.unusedVariables false
namespace PrologVerif.Write
open PrologVerif PrologVerif.Lexer PrologVerif.Ops PrologVerif.Read

/-- an argument ends at `,` `)` `|` `]` at every priority up to 999 -/
theorem stopAt_argStop_le {ops : Table} (hops : tableOK ops = true) {stop : Token} (h : ArgStop stop)
    (dq : DoubleQuotes) (q : Nat) (hq : q ≤ 999) (r : List Token) : StopAt ops dq q (stop :: r) := by
  rcases h with rfl | rfl | rfl | rfl
  · intro b vs nv
    exact infix_of_op_err (op_commaTok_lt dq q (by omega) b r vs nv)
  · exact stopAt_hard (.inr (.inl rfl)) ops dq q r
  · refine stopAt_opTok (s := ['|']) (.inr (.inr ⟨rfl, rfl⟩)) dq q ?_ ?_ r
    · intro o ho
      have := (opFacts hops ho).bar rfl
      omega
    · intro o ho
      have := ((opFacts hops ho).bar rfl).1
      cases this
  · exact stopAt_hard (.inr (.inr (.inr rfl))) ops dq q r

section
variable (e : Env) (G : UInt64 → GText) (P : UInt64 → Bool) (ops : Table) (dq : DoubleQuotes)

/-- options of an argument position -/
structure Opts9 (o : WOpts) : Prop where
  q : QOpts ops o
  pri : o.priority = 999
  left : o.left = none
  right : o.right = none

theorem opts9_o999 {o : WOpts} (hq : QOpts ops o) : Opts9 ops (o999 o) :=
  ⟨⟨hq.ign, hq.quo, hq.nvs, hq.tab, by simp [o999]⟩, rfl, rfl, rfl⟩

theorem o999_idem {o : WOpts} (h : Opts9 ops o) : o999 o = o := by
  cases o
  simp only [o999, WOpts.bare] at *
  obtain ⟨_, hp, hl, hr⟩ := h
  simp only at hp hl hr
  simp [hp, hl, hr]

def QArgSpec (t : Term) (o : WOpts) : Prop :=
  ∀ (stop : Token) (r : List Token) (vs : Vars) (nv : Nat) (seen : List Nat), ArgStop stop → VarsOK e vs nv seen →
    ∃ vs' nv', ArgParsesAs ops dq (qt e G t o) (stop :: r) (t.canonAux seen).1 vs nv vs' nv' ∧
      VarsOK e vs' nv' (t.canonAux seen).2

def QArgsSpec (as : Args) (o : WOpts) : Prop :=
  ∀ (rest : List Token) (vs : Vars) (nv : Nat) (seen : List Nat), VarsOK e vs nv seen →
    ∃ vs' nv', ArgsLoopAs ops dq (qtA e G as o) rest (as.canonAux seen).1.toList vs nv vs' nv' ∧
      VarsOK e vs' nv' (as.canonAux seen).2

def QListSpec (t : Term) (o : WOpts) : Prop :=
  ∀ (rest : List Token) (vs : Vars) (nv : Nat) (seen : List Nat), VarsOK e vs nv seen →
    ∃ vs' nv', ListLoopAs ops dq (qtL e G t o) rest (t.canonAux seen).1 vs nv vs' nv' ∧
      VarsOK e vs' nv' (t.canonAux seen).2

/-- an argument: an atom is taken as it is, anything else goes through `term(999)` -/
theorem qargSpec_of_qspec (he : EnvOK e G P) (hs : SignOK G P) (hops : tableOK ops = true) (t : Term) (o : WOpts)
    (h9 : Opts9 ops o) (hw : wfTerm t = true) (hn : numsOK P t = true) (h : QSpec e G ops dq t o) :
    QArgSpec e G ops dq t o := by
  intro stop r vs nv seen hstop hv
  by_cases hat : isAtomTerm t = true
  · cases t with
    | atom a =>
      refine ⟨vs, nv, ?_, by simpa [Term.canonAux] using hv⟩
      have := argParses_atom (atomToks_atomTokens e G P he a) hops dq hstop r vs nv
      simpa [qt, tAtom, h9.left, h9.right, Term.canonAux] using this
    | var _ => simp [isAtomTerm] at hat
    | int _ => simp [isAtomTerm] at hat
    | flt _ => simp [isAtomTerm] at hat
    | str _ => simp [isAtomTerm] at hat
    | app _ _ => simp [isAtomTerm] at hat
  · obtain ⟨vs', nv', hp, hv'⟩ := h 999 (stop :: r) vs nv seen (by rw [h9.pri]; exact Nat.le_refl _)
      ⟨stop, r, rfl, hstop.follow⟩
      (by intro q hq _; rw [h9.pri] at hq; exact stopAt_argStop_le hops hstop dq q hq r)
      (by intro a ha; subst ha; simp [isAtomTerm] at hat) hv
    refine ⟨vs', nv', argParses_of_parses ?_ hp (stopAt_argStop_le hops hstop dq 999 (Nat.le_refl _) r), hv'⟩
    intro fuel b
    exact arg_of_argLike (qt_argLike e G P he hs ops t o hw hn h9.left h9.q.tab
      (by intro a ha; subst ha; simp [isAtomTerm] at hat) stop r) dq fuel b vs nv

/-! ## `{…}` -/

theorem qspec_curly (he : EnvOK e G P) (hs : SignOK G P) (a0 : Term) (hw : wfTerm a0 = true) (hn : numsOK P a0 = true)
    (o : WOpts) (hq : QOpts ops o) (ih : ∀ o', QOpts ops o' → QSpec e G ops dq a0 o')
    (mp : Nat) (rest : List Token) (vs : Vars) (nv : Nat) (seen : List Nat) (hv : VarsOK e vs nv seen) :
    ∃ vs' nv', ParsesAs ops dq mp ([⟨.openCurly, ['{']⟩] ++ qt e G a0 { o with left := none } ++ [⟨.closeCurly, ['}']⟩])
        rest (.app "{}" (.cons (a0.canonAux seen).1 .nil)) vs nv vs' nv' ∧
      VarsOK e vs' nv' (a0.canonAux seen).2 := by
  obtain ⟨x0, X, hX, hf1, _⟩ := qt_first e G P he hs a0 { o with left := none } hw hn
  have hq' : QOpts ops { o with left := none } := ⟨hq.ign, hq.quo, hq.nvs, hq.tab, hq.pri⟩
  have hpri := hq.pri
  obtain ⟨vs', nv', hp, hv'⟩ := ih _ hq' 1201 (closeCurlyTok :: rest) vs nv seen (by simp; omega)
    ⟨closeCurlyTok, rest, rfl, by simp [FollowTok, closeCurlyTok]⟩
    (rightOK_hard ops dq (.inr (.inr (.inl rfl))) _ rest)
    (by intro a _ _ _ _; exact ⟨rfl, closeCurlyTok, rest, rfl, .inr (.inr (.inl rfl))⟩) hv
  refine ⟨vs', nv', ?_, hv'⟩
  rw [hX] at hp ⊢
  exact parses_curly (startKind_facts hf1).1 hp

/-! ## functional notation -/

theorem qtA_head (as : Args) (o : WOpts) (rest : List Token) :
    ∃ stop r, qtA e G as o ++ closeTok :: rest = stop :: r ∧ ArgStop stop := by
  cases as with
  | nil => exact ⟨closeTok, rest, by simp [qtA], .inr (.inl rfl)⟩
  | cons a r => exact ⟨commaTok, qt e G a o ++ (qtA e G r o ++ closeTok :: rest), by simp [qtA], .inl rfl⟩

theorem qargsSpec_nil (o : WOpts) : QArgsSpec e G ops dq .nil o := by
  intro rest vs nv seen hv
  exact ⟨vs, nv, by simpa [qtA, Args.canonAux, Args.toList] using argsLoop_nil ops dq rest vs nv,
    by simpa [Args.canonAux] using hv⟩

theorem qargsSpec_cons (a : Term) (as : Args) (o : WOpts) (ha : QArgSpec e G ops dq a o)
    (hr : QArgsSpec e G ops dq as o) : QArgsSpec e G ops dq (.cons a as) o := by
  intro rest vs nv seen hv
  obtain ⟨stop, r, hsr, hstop⟩ := qtA_head e G as o rest
  obtain ⟨vs1, nv1, h1, hv1⟩ := ha stop r vs nv seen hstop hv
  obtain ⟨vs2, nv2, h2, hv2⟩ := hr rest vs1 nv1 (a.canonAux seen).2 hv1
  refine ⟨vs2, nv2, ?_, by simpa [Args.canonAux] using hv2⟩
  rw [← hsr] at h1
  have := argsLoop_cons h1 h2
  simpa [qtA, Args.canonAux, Args.toList] using this

theorem qspec_functional (he : EnvOK e G P) (f : String) (a0 : Term) (as : Args) (o : WOpts)
    (ha : QArgSpec e G ops dq a0 o) (hr : QArgsSpec e G ops dq as o)
    (mp : Nat) (rest : List Token) (vs : Vars) (nv : Nat) (seen : List Nat) (hv : VarsOK e vs nv seen) :
    ∃ vs' nv', ParsesAs ops dq mp
        (atomTokens e.cfg f.toList ++ openTok false :: (qt e G a0 o ++ qtA e G as o ++ [closeTok])) rest
        (.app f (.cons (a0.canonAux seen).1 (as.canonAux (a0.canonAux seen).2).1)) vs nv vs' nv' ∧
      VarsOK e vs' nv' (as.canonAux (a0.canonAux seen).2).2 := by
  obtain ⟨stop, r, hsr, hstop⟩ := qtA_head e G as o rest
  obtain ⟨vs1, nv1, h1, hv1⟩ := ha stop r vs nv seen hstop hv
  obtain ⟨vs2, nv2, h2, hv2⟩ := hr rest vs1 nv1 (a0.canonAux seen).2 hv1
  refine ⟨vs2, nv2, ?_, hv2⟩
  rw [← hsr] at h1
  have := parses_functional (mp := mp) (atomToks_atomTokens e G P he f) h1 h2
  simpa [Read.apply, Term.mk, Args.ofList] using this

/-! ## lists -/

theorem qtL_cases (t : Term) (o : WOpts) (hw : wfTerm t = true) :
    (t = .atom "[]" ∧ qtL e G t o = []) ∨
    (∃ h t2, t = .app "." (.cons h (.cons t2 .nil)) ∧ qtL e G t o = commaTok :: (qt e G h o ++ qtL e G t2 o)) ∨
    qtL e G t o = barTok :: qt e G t o := by
  cases t with
  | var v => exact .inr (.inr (by simp [qtL, qt]))
  | atom a =>
    by_cases ha : a = "[]"
    · subst ha; exact .inl ⟨rfl, by simp [qtL]⟩
    · exact .inr (.inr (by simp [qtL, ha, qt]))
  | int i => exact .inr (.inr (by simp [qtL, qt]))
  | flt b => exact .inr (.inr (by simp [qtL, qt]))
  | str n => simp [wfTerm] at hw
  | app f as =>
    cases as with
    | nil => simp [wfTerm] at hw
    | cons h r1 =>
      cases r1 with
      | nil => exact .inr (.inr (by simp [qtL, qt]))
      | cons t2 r2 =>
        cases r2 with
        | nil =>
          by_cases hf : f = "."
          · subst hf; exact .inr (.inl ⟨h, t2, rfl, by simp [qtL]⟩)
          · exact .inr (.inr (by simp [qtL, hf, qt]))
        | cons t3 r3 => exact .inr (.inr (by simp [qtL, qt]))

theorem qtL_head (t : Term) (o : WOpts) (hw : wfTerm t = true) (rest : List Token) :
    ∃ stop r, qtL e G t o ++ closeListTok :: rest = stop :: r ∧ ArgStop stop := by
  rcases qtL_cases e G t o hw with ⟨_, h⟩ | ⟨h1, t2, _, h⟩ | h
  · exact ⟨closeListTok, rest, by simp [h], .inr (.inr (.inr rfl))⟩
  · exact ⟨commaTok, qt e G h1 o ++ (qtL e G t2 o ++ closeListTok :: rest), by simp [h], .inl rfl⟩
  · exact ⟨barTok, qt e G t o ++ closeListTok :: rest, by simp [h], .inr (.inr (.inl rfl))⟩

theorem qlistSpec_nil (o : WOpts) : QListSpec e G ops dq (.atom "[]") o := by
  intro rest vs nv seen hv
  refine ⟨vs, nv, ?_, by simpa [Term.canonAux] using hv⟩
  have := listLoop_nil ops dq rest vs nv
  simpa [qtL, Term.canonAux, Term.nilT] using this

theorem qlistSpec_cons (h t2 : Term) (o : WOpts) (hw2 : wfTerm t2 = true) (ha : QArgSpec e G ops dq h o)
    (ht : QListSpec e G ops dq t2 o) : QListSpec e G ops dq (.app "." (.cons h (.cons t2 .nil))) o := by
  intro rest vs nv seen hv
  obtain ⟨stop, r, hsr, hstop⟩ := qtL_head e G t2 o hw2 rest
  obtain ⟨vs1, nv1, h1, hv1⟩ := ha stop r vs nv seen hstop hv
  obtain ⟨vs2, nv2, h2, hv2⟩ := ht rest vs1 nv1 (h.canonAux seen).2 hv1
  refine ⟨vs2, nv2, ?_, by simpa [Term.canonAux, Args.canonAux] using hv2⟩
  rw [← hsr] at h1
  have := listLoop_cons h1 h2
  simpa [qtL, Term.canonAux, Args.canonAux, Term.consT] using this

theorem qlistSpec_other (t : Term) (o : WOpts) (heq : qtL e G t o = barTok :: qt e G t o)
    (ha : QArgSpec e G ops dq t o) : QListSpec e G ops dq t o := by
  intro rest vs nv seen hv
  obtain ⟨vs1, nv1, h1, hv1⟩ := ha closeListTok rest vs nv seen (.inr (.inr (.inr rfl))) hv
  refine ⟨vs1, nv1, ?_, hv1⟩
  rw [heq]
  exact listLoop_bar h1

theorem qspec_list (he : EnvOK e G P) (hs : SignOK G P) (a0 a1 : Term) (o : WOpts)
    (hw0 : wfTerm a0 = true) (hn0 : numsOK P a0 = true) (hw1 : wfTerm a1 = true)
    (ha : QArgSpec e G ops dq a0 o) (hl : QListSpec e G ops dq a1 o)
    (mp : Nat) (rest : List Token) (vs : Vars) (nv : Nat) (seen : List Nat) (hv : VarsOK e vs nv seen) :
    ∃ vs' nv', ParsesAs ops dq mp
        ([⟨.openList, ['[']⟩] ++ qt e G a0 o ++ qtL e G a1 o ++ [⟨.closeList, [']']⟩]) rest
        (.app "." (.cons (a0.canonAux seen).1 (.cons (a1.canonAux (a0.canonAux seen).2).1 .nil))) vs nv vs' nv' ∧
      VarsOK e vs' nv' (a1.canonAux (a0.canonAux seen).2).2 := by
  obtain ⟨x0, X, hX, hf1, _⟩ := qt_first e G P he hs a0 o hw0 hn0
  obtain ⟨stop, r, hsr, hstop⟩ := qtL_head e G a1 o hw1 rest
  obtain ⟨vs1, nv1, h1, hv1⟩ := ha stop r vs nv seen hstop hv
  obtain ⟨vs2, nv2, h2, hv2⟩ := hl rest vs1 nv1 (a0.canonAux seen).2 hv1
  refine ⟨vs2, nv2, ?_, hv2⟩
  rw [← hsr, hX] at h1
  have := parses_list (mp := mp) (startKind_facts hf1).2.1 h1 h2
  simpa [hX, Term.consT, openListTok, closeListTok] using this

end

end PrologVerif.Write
