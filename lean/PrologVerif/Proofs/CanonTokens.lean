/-
  The token sequence of write_canonical text.
-/
import PrologVerif.Proofs.Canonical
set_option linter.unusedSimpArgs false
set_option linter.unusedVariables false
namespace PrologVerif.Write
open PrologVerif PrologVerif.Lexer PrologVerif.Ops

/-! ## atoms -/

/-- the token(s) of an atom as the writer spells it -/
def atomTokens (cfg : Cfg) (s : List Char) : List Token :=
  if needQuoted cfg s then [⟨.quoted, quote cfg s⟩]
  else if s = ['[', ']'] then [⟨.openList, ['[']⟩, ⟨.closeList, [']']⟩]
  else if s = ['{', '}'] then [⟨.openCurly, ['{']⟩, ⟨.closeCurly, ['}']⟩]
  else if s = [';'] then [⟨.semicolon, s⟩]
  else if s = ['!'] then [⟨.cut, s⟩]
  else
    match s with
    | c :: _ => if isSmallLetterChar cfg c then [⟨.letterDigit, s⟩] else [⟨.graphic, s⟩]
    | [] => []

/-- what the parser needs to know about the tokens of an atom -/
inductive AtomToks (s : List Char) : List Token → Prop
  | name (t : Token) : (t.kind = .letterDigit ∨ t.kind = .graphic ∨ t.kind = .semicolon ∨ t.kind = .cut) →
      t.val = s → AtomToks s [t]
  | quoted (t : Token) : t.kind = .quoted → unquote t.val = s → AtomToks s [t]
  | list (t1 t2 : Token) : t1.kind = .openList → t2.kind = .closeList → s = ['[', ']'] → AtomToks s [t1, t2]
  | curly (t1 t2 : Token) : t1.kind = .openCurly → t2.kind = .closeCurly → s = ['{', '}'] → AtomToks s [t1, t2]

theorem ldName_small {cfg : Cfg} {s : List Char} (h : LDName cfg s) :
    ∃ c w, s = c :: w ∧ isSmallLetterChar cfg c = true := by
  obtain ⟨c, w, e, _, hs, _⟩ := h; exact ⟨c, w, e, hs⟩

theorem graphicName_notSmall {cfg : Cfg} {s : List Char} (h : GraphicName cfg s) :
    ∃ c w, s = c :: w ∧ isSmallLetterChar cfg c = false := by
  obtain ⟨c, w, e, _, _, hs, _⟩ := h; exact ⟨c, w, e, hs⟩

theorem ldName_ne {cfg : Cfg} {s : List Char} (h : LDName cfg s) :
    s ≠ ['[', ']'] ∧ s ≠ ['{', '}'] ∧ s ≠ [';'] ∧ s ≠ ['!'] := by
  obtain ⟨c, w, rfl, _, hs, _⟩ := h
  refine ⟨?_, ?_, ?_, ?_⟩ <;> intro e <;> simp only [List.cons.injEq] at e <;> obtain ⟨rfl, _⟩ := e
  · exact absurd hs (by rw [show isSmallLetterChar cfg '[' = false from rfl]; simp)
  · exact absurd hs (by rw [show isSmallLetterChar cfg '{' = false from rfl]; simp)
  · exact absurd hs (by rw [show isSmallLetterChar cfg ';' = false from rfl]; simp)
  · exact absurd hs (by rw [show isSmallLetterChar cfg '!' = false from rfl]; simp)

theorem graphicName_ne {cfg : Cfg} {s : List Char} (h : GraphicName cfg s) :
    s ≠ ['[', ']'] ∧ s ≠ ['{', '}'] ∧ s ≠ [';'] ∧ s ≠ ['!'] := by
  obtain ⟨c, w, rfl, hg, _⟩ := h
  have hc := hg c (by simp)
  refine ⟨?_, ?_, ?_, ?_⟩ <;> intro e <;> simp only [List.cons.injEq] at e <;> obtain ⟨rfl, _⟩ := e
  · exact absurd hc (by rw [show isGraphicOrBs '[' = false from rfl]; simp)
  · exact absurd hc (by rw [show isGraphicOrBs '{' = false from rfl]; simp)
  · exact absurd hc (by rw [show isGraphicOrBs ';' = false from rfl]; simp)
  · exact absurd hc (by rw [show isGraphicOrBs '!' = false from rfl]; simp)

/-- the tokens of the text the writer emits for an atom, and what the parser can rely on -/
theorem atomTokens_spec (cfg : Cfg) (hconv : ∀ c, cfg.conv c = c) (s tail : List Char) (ht : HeadIs Delim tail) :
    AtomToks s (atomTokens cfg s) ∧ LexSeq cfg (atomText cfg s) (atomTokens cfg s) tail := by
  unfold atomTokens atomText
  by_cases hq : needQuoted cfg s = true
  · simp only [hq, if_true]
    refine ⟨.quoted _ rfl (unquote_quote cfg s), LexSeq.single cfg (lexTok_quote cfg hconv s tail ?_)⟩
    intro h; exact (Delim.facts cfg (ht _ h)).2.2.1 rfl
  · have hq' : needQuoted cfg s = false := by simpa using hq
    simp only [hq', Bool.false_eq_true, if_false]
    rcases unquoted_of_needQuoted cfg s hq' with h | h | h | h | h | h
    · obtain ⟨c, w, e, hsm⟩ := ldName_small h
      obtain ⟨n1, n2, n3, n4⟩ := ldName_ne h
      simp only [n1, n2, n3, n4, if_false]
      subst e
      simp only [hsm, if_true]
      exact ⟨.name _ (.inl rfl) rfl, LexSeq.single cfg (lexTok_ldName cfg hconv _ tail h
        (fun t ht' => (Delim.facts cfg (ht t ht')).1))⟩
    · obtain ⟨c, w, e, hsm⟩ := graphicName_notSmall h
      obtain ⟨n1, n2, n3, n4⟩ := graphicName_ne h
      simp only [n1, n2, n3, n4, if_false]
      subst e
      simp only [hsm, Bool.false_eq_true, if_false]
      exact ⟨.name _ (.inr (.inl rfl)) rfl, LexSeq.single cfg (lexTok_graphicName cfg hconv _ tail h
        (fun t ht' => (Delim.facts cfg (ht t ht')).2.1))⟩
    · subst h
      simp only [show ([';'] : List Char) ≠ ['[', ']'] by decide, show ([';'] : List Char) ≠ ['{', '}'] by decide,
        if_false, if_true]
      exact ⟨.name _ (.inr (.inr (.inl rfl))) rfl, LexSeq.single cfg (lexTok_solo cfg hconv ';' tail (by simp))⟩
    · subst h
      simp only [show (['!'] : List Char) ≠ ['[', ']'] by decide, show (['!'] : List Char) ≠ ['{', '}'] by decide,
        show (['!'] : List Char) ≠ [';'] by decide, if_false, if_true]
      exact ⟨.name _ (.inr (.inr (.inr rfl))) rfl, LexSeq.single cfg (lexTok_solo cfg hconv '!' tail (by simp))⟩
    · subst h
      simp only [if_true]
      exact ⟨.list _ _ rfl rfl rfl, LexSeq.cons (x := ['[']) (y := [']']) (lexTok_solo cfg hconv '[' _ (by simp))
        (LexSeq.single cfg (lexTok_solo cfg hconv ']' tail (by simp)))⟩
    · subst h
      simp only [show (['{', '}'] : List Char) ≠ ['[', ']'] by decide, if_false, if_true]
      exact ⟨.curly _ _ rfl rfl rfl, LexSeq.cons (x := ['{']) (y := ['}']) (lexTok_solo cfg hconv '{' _ (by simp))
        (LexSeq.single cfg (lexTok_solo cfg hconv '}' tail (by simp)))⟩

/-! ## numbers -/

def minusTok : Token := ⟨.graphic, ['-']⟩

theorem Delim.intTail {tail : List Char} (h : HeadIs Delim tail) : HeadIs IntTail tail :=
  fun t ht => (Delim.facts Cfg.ascii (h t ht)).2.2.2

theorem Delim.floatTail {tail : List Char} (h : HeadIs Delim tail) : HeadIs FloatTail tail := by
  intro t ht
  rcases h t ht with h | h | h | h <;> subst h <;> exact ⟨rfl, rfl⟩

theorem lexTok_minus (cfg : Cfg) (hconv : ∀ c, cfg.conv c = c) (d : Char) (rest : List Char) (hd : DecD d) :
    LexTok cfg ['-'] minusTok (d :: rest) :=
  lexTok_graphicName cfg hconv ['-'] _ (graphicName_minus cfg) (HeadIs.cons (decD_not_gbs d hd))

def intTokens (i : Int) : List Token :=
  (if i < 0 then [minusTok] else []) ++ [⟨.integer, decDigits i.natAbs⟩]

theorem lexSeq_int (cfg : Cfg) (hconv : ∀ c, cfg.conv c = c) (i : Int) (hlo : -9223372036854775808 ≤ i)
    (hhi : i ≤ 9223372036854775807) (tail : List Char) (ht : HeadIs Delim tail) :
    LexSeq cfg (formatInt i) (intTokens i) tail := by
  obtain ⟨h1, h2, h3⟩ := decDigits_spec i.natAbs (by omega)
  have hdig : LexSeq cfg (decDigits i.natAbs) [⟨.integer, decDigits i.natAbs⟩] tail :=
    LexSeq.single cfg (lexTok_digits cfg hconv _ _ h1 h2 (Delim.intTail ht))
  unfold formatInt intTokens
  split
  · obtain ⟨d, ds, hds⟩ := List.exists_cons_of_ne_nil h1
    have := LexSeq.cons (cfg := cfg) (x := ['-']) (y := decDigits i.natAbs) (tail := tail)
      (t := minusTok) (ts := [⟨.integer, decDigits i.natAbs⟩])
      (by rw [hds]; exact lexTok_minus cfg hconv d _ (h2 d (by simp [hds]))) hdig
    simpa using this
  · simpa using hdig

def floatTokens (g : GText) : List Token :=
  (if g.neg then [minusTok] else []) ++ [⟨.floatNumber, g.body⟩]

theorem lexSeq_float (cfg : Cfg) (hconv : ∀ c, cfg.conv c = c) (g : GText) (hg : g.WF) (tail : List Char)
    (ht : HeadIs Delim tail) : LexSeq cfg (patchFloat g.render) (floatTokens g) tail := by
  rw [patchFloat_render g hg]
  have hb : LexSeq cfg g.body [⟨.floatNumber, g.body⟩] tail :=
    LexSeq.single cfg (lexTok_floatBody cfg hconv g hg tail (Delim.floatTail ht))
  unfold signText floatTokens
  split
  · obtain ⟨h1, h2, _⟩ := hg
    obtain ⟨d, is, hip⟩ := List.exists_cons_of_ne_nil h1
    have hbody : ∃ rest, g.body = d :: rest := ⟨_, by unfold GText.body; rw [hip]; rfl⟩
    obtain ⟨rest, hr⟩ := hbody
    have := LexSeq.cons (cfg := cfg) (x := ['-']) (y := g.body) (tail := tail)
      (t := minusTok) (ts := [⟨.floatNumber, g.body⟩])
      (by rw [hr]; exact lexTok_minus cfg hconv d _ (h2 d (by simp [hip]))) hb
    simpa using this
  · simpa using hb

/-! ## terms -/

/-- what the round trip assumes about the two parameters of the writer model: the names given to
    variables are distinct variable tokens (`_` followed by at least one alphanumeric), and
    `FormatFloat` returns a text of its grammar that `float()` reads back to the same bits (the
    library law `ParseFloat ∘ FormatFloat(-1) = id`) -/
structure EnvOK (e : Env) (G : UInt64 → GText) (P : UInt64 → Bool) : Prop where
  conv : ∀ c, e.cfg.conv c = c
  varShape : ∀ v, VarName e.cfg (e.varName v) ∧ 2 ≤ (e.varName v).length
  varInj : ∀ v w, e.varName v = e.varName w → v = w
  fltWF : ∀ b, P b = true → (G b).WF
  fltText : ∀ b, P b = true → e.fmtFloat b = (G b).render
  fltLaw : ∀ b, P b = true → Read.float (G b).neg (G b).body = b

mutual
  /-- the tokens of write_canonical text -/
  def ctoks (e : Env) (G : UInt64 → GText) : Term → List Token
    | .var v => [⟨.variable, e.varName v⟩]
    | .atom a => atomTokens e.cfg a.toList
    | .int i => intTokens i
    | .flt b => floatTokens (G b)
    | .str _ => []
    | .app _ .nil => []
    | .app f (.cons a rest) =>
      atomTokens e.cfg f.toList ++ [⟨.openCT, ['(']⟩] ++ ctoks e G a ++ tailToks e G rest ++ [⟨.close, [')']⟩]
  def tailToks (e : Env) (G : UInt64 → GText) : Args → List Token
    | .nil => []
    | .cons a rest => [⟨.comma, [',']⟩] ++ ctoks e G a ++ tailToks e G rest
end

mutual
  /-- all integers in the term are 64-bit and all floats are among those (`P`) the float parameters
      of the writer model are known for -/
  def numsOK (P : UInt64 → Bool) : Term → Bool
    | .int i => decide (-9223372036854775808 ≤ i ∧ i ≤ 9223372036854775807)
    | .flt b => P b
    | .app _ as => numsOKArgs P as
    | _ => true
  def numsOKArgs (P : UInt64 → Bool) : Args → Bool
    | .nil => true
    | .cons t ts => numsOK P t && numsOKArgs P ts
end

theorem headIs_tailText (e : Env) (rest : Args) (tail : List Char) : HeadIs Delim (tailText e rest ++ ')' :: tail) := by
  cases rest with
  | nil => simp [tailText]; exact HeadIs.cons (.inr (.inr (.inl rfl)))
  | cons a r => simp [tailText]; exact HeadIs.cons (.inr (.inr (.inr rfl)))

mutual
  theorem lexSeq_term (e : Env) (G : UInt64 → GText) (P : UInt64 → Bool) (he : EnvOK e G P) : (t : Term) → (tail : List Char) →
      wfTerm t = true → numsOK P t = true → HeadIs Delim tail →
      LexSeq e.cfg (canonText e t) (ctoks e G t) tail
    | .var v, tail, _, _, ht => by
      simp only [canonText, ctoks]
      exact LexSeq.single _ (lexTok_varName e.cfg he.conv _ tail (he.varShape v).1
        (fun t ht' => (Delim.facts e.cfg (ht t ht')).1))
    | .atom a, tail, _, _, ht => by
      simp only [canonText, ctoks]
      exact (atomTokens_spec e.cfg he.conv a.toList tail ht).2
    | .int i, tail, _, hi, ht => by
      simp only [canonText, ctoks]
      simp only [numsOK, decide_eq_true_eq] at hi
      exact lexSeq_int e.cfg he.conv i hi.1 hi.2 tail ht
    | .flt b, tail, _, hi, ht => by
      simp only [numsOK] at hi
      simp only [canonText, ctoks, he.fltText b hi]
      exact lexSeq_float e.cfg he.conv (G b) (he.fltWF b hi) tail ht
    | .str _, _, hw, _, _ => by simp [wfTerm] at hw
    | .app f .nil, _, hw, _, _ => by simp [wfTerm] at hw
    | .app f (.cons a rest), tail, hw, hi, ht => by
      simp only [wfTerm, Bool.and_eq_true] at hw
      simp only [numsOK, numsOKArgs, Bool.and_eq_true] at hi
      simp only [canonText, ctoks, canonArgs_cons]
      have h1 := (atomTokens_spec e.cfg he.conv f.toList ('(' :: (canonText e a ++ tailText e rest ++ ')' :: tail))
        (HeadIs.cons (.inr (.inl rfl)))).2
      have h2 : LexSeq e.cfg ['('] [⟨.openCT, ['(']⟩] (canonText e a ++ tailText e rest ++ ')' :: tail) :=
        LexSeq.single _ (lexTok_openCT e.cfg he.conv _)
      have h3 := lexSeq_term e G P he a (tailText e rest ++ ')' :: tail) hw.1 hi.1 (headIs_tailText e rest tail)
      have h4 := lexSeq_tail e G P he rest (')' :: tail) hw.2 hi.2 (HeadIs.cons (.inr (.inr (.inl rfl))))
      have h5 : LexSeq e.cfg [')'] [⟨.close, [')']⟩] tail :=
        LexSeq.single _ (lexTok_solo e.cfg he.conv ')' tail (by simp))
      have s4 : LexSeq e.cfg (tailText e rest ++ [')']) (tailToks e G rest ++ [⟨.close, [')']⟩]) tail :=
        LexSeq.append e.cfg (y := [')']) (by simpa using h4) h5
      have s3 : LexSeq e.cfg (canonText e a ++ (tailText e rest ++ [')']))
          (ctoks e G a ++ (tailToks e G rest ++ [⟨.close, [')']⟩])) tail :=
        LexSeq.append e.cfg (y := tailText e rest ++ [')']) (by simpa [List.append_assoc] using h3) s4
      have s2 : LexSeq e.cfg (['('] ++ (canonText e a ++ (tailText e rest ++ [')'])))
          ([⟨.openCT, ['(']⟩] ++ (ctoks e G a ++ (tailToks e G rest ++ [⟨.close, [')']⟩]))) tail :=
        LexSeq.append e.cfg (y := canonText e a ++ (tailText e rest ++ [')'])) (by simpa [List.append_assoc] using h2) s3
      have s1 := LexSeq.append e.cfg (y := ['('] ++ (canonText e a ++ (tailText e rest ++ [')'])))
        (by simpa [List.append_assoc] using h1) s2
      simpa [List.append_assoc] using s1
  theorem lexSeq_tail (e : Env) (G : UInt64 → GText) (P : UInt64 → Bool) (he : EnvOK e G P) : (as : Args) → (tail : List Char) →
      wfArgs as = true → numsOKArgs P as = true → HeadIs Delim tail →
      LexSeq e.cfg (tailText e as) (tailToks e G as) tail
    | .nil, tail, _, _, _ => by simp only [tailText, tailToks]; exact .nil tail
    | .cons a rest, tail, hw, hi, ht => by
      simp only [wfArgs, Bool.and_eq_true] at hw
      simp only [numsOKArgs, Bool.and_eq_true] at hi
      simp only [tailText, tailToks]
      have hd : HeadIs Delim (tailText e rest ++ tail) := by
        cases rest with
        | nil => simpa [tailText] using ht
        | cons b r => simp [tailText]; exact HeadIs.cons (.inr (.inr (.inr rfl)))
      have h1 : LexSeq e.cfg [','] [⟨.comma, [',']⟩] (canonText e a ++ tailText e rest ++ tail) :=
        LexSeq.single _ (lexTok_solo e.cfg he.conv ',' _ (by simp))
      have h2 := lexSeq_term e G P he a (tailText e rest ++ tail) hw.1 hi.1 hd
      have h3 := lexSeq_tail e G P he rest tail hw.2 hi.2 ht
      have s2 : LexSeq e.cfg (canonText e a ++ tailText e rest) (ctoks e G a ++ tailToks e G rest) tail :=
        LexSeq.append e.cfg (y := tailText e rest) h2 h3
      have s1 := LexSeq.append e.cfg (y := canonText e a ++ tailText e rest)
        (by simpa [List.append_assoc] using h1) s2
      simpa [List.append_assoc] using s1
end

end PrologVerif.Write
