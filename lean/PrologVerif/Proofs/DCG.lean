/-
  Proofs/DCG — the model of dcg.go (Model/DCG) computes exactly "read the body, then apply the
  reference translation" (Spec/Grammar), errors included; and the reference translation satisfies
  the relational specification `Threads`.  Helper lemmas for Properties/C17.
-/
import PrologVerif.Model.DCG
import PrologVerif.Spec.Grammar
namespace PrologVerif.DCG
open PrologVerif PrologVerif.Grammar

/-- what the specification says `dcgBody` returns -/
def specBody (t l r : Term) (n : Nat) : M (Term × Nat) :=
  match Body.ofTerm t with
  | .ok b => .ok (b.tr l r n)
  | .error e => .error (.exc e)

/-- … and `dcgCBody`: "not applicable" exactly for non-terminals -/
def specC (t l r : Term) (n : Nat) : M (Term × Nat) :=
  match t with
  | .var _ => .error (.exc instErr)
  | t =>
    match Body.ofTerm t with
    | .ok (.nt _ _) => .error .notApplicable
    | .ok b => .ok (b.tr l r n)
    | .error e => .error (.exc e)

@[simp] theorem mkAlt_ne_nt (a b : Body) (f : String) (as : List Term) : mkAlt a b ≠ .nt f as := by
  cases a <;> simp [mkAlt]

theorem ofTerm_nt (t : Term) (f : String) (as : List Term) :
    Body.ofTerm t = .ok (.nt f as) → piArg t = .ok (f, as) := by
  fun_cases Body.ofTerm t <;> simp_all [piArg]

@[simp] theorem mkAlt_ne_var (a b : Body) (v : Nat) : mkAlt a b ≠ .var v := by
  cases a <;> simp [mkAlt]

theorem ofTerm_var (t : Term) (v : Nat) : Body.ofTerm t = .ok (.var v) → t = .var v := by
  fun_cases Body.ofTerm t <;> simp_all

/-! the specification satisfies the recursion equations of dcg.go -/

/-- continuation-style sequencing used by dcg.go: run `x`, then `k` on its result -/
def andK (x : M (Term × Nat)) (k : Term → Nat → M (Term × Nat)) : M (Term × Nat) :=
  match x with
  | .error e => .error e
  | .ok (g, n) => k g n

theorem tr_mkAlt (a b : Body) (l r : Term) (n : Nat) :
    (mkAlt a b).tr l r n =
      (Term.a2 ";" (a.tr l r n).1 (b.tr l r (a.tr l r n).2).1, (b.tr l r (a.tr l r n).2).2) := by
  cases a <;> simp [mkAlt, Body.tr]

theorem specBody_seq (a b l r : Term) (n : Nat) :
    specBody (.app "," (.cons a (.cons b .nil))) l r n =
      andK (specBody a l (.var n) (n + 1)) fun first n1 =>
        andK (specBody b (.var n) r n1) fun second n2 => .ok (Term.a2 "," first second, n2) := by
  simp only [specBody, Body.ofTerm]
  cases Body.ofTerm a <;> cases Body.ofTerm b <;> simp [andK, Body.tr]

theorem specBody_alt (a b l r : Term) (n : Nat) :
    specBody (.app ";" (.cons a (.cons b .nil))) l r n =
      andK (specBody a l r n) fun either n1 =>
        andK (specBody b l r n1) fun or n2 => .ok (Term.a2 ";" either or, n2) := by
  simp only [specBody, Body.ofTerm]
  cases Body.ofTerm a <;> cases Body.ofTerm b <;> simp [andK, tr_mkAlt]

theorem specBody_bar (a b l r : Term) (n : Nat) :
    specBody (.app "|" (.cons a (.cons b .nil))) l r n =
      andK (specBody a l r n) fun either n1 =>
        andK (specBody b l r n1) fun or n2 => .ok (Term.a2 ";" either or, n2) := by
  simp only [specBody, Body.ofTerm]
  cases Body.ofTerm a <;> cases Body.ofTerm b <;> simp [andK, tr_mkAlt]

theorem specBody_not (g l r : Term) (n : Nat) :
    specBody (.app "\\+" (.cons g .nil)) l r n =
      andK (specBody g l (.var n) (n + 1)) fun g' n1 =>
        .ok (Term.a2 "," (Term.a1 "\\+" g') (Term.a2 "=" l r), n1) := by
  simp only [specBody, Body.ofTerm]
  cases Body.ofTerm g <;> simp [andK, Body.tr]

theorem specBody_then (c t l r : Term) (n : Nat) :
    specBody (.app "->" (.cons c (.cons t .nil))) l r n =
      andK (specBody c l (.var n) (n + 1)) fun cond n1 =>
        andK (specBody t (.var n) r n1) fun thn n2 => .ok (Term.a2 "->" cond thn, n2) := by
  simp only [specBody, Body.ofTerm]
  cases Body.ofTerm c <;> cases Body.ofTerm t <;> simp [andK, Body.tr]

/-- for everything that is not a variable and not read as a non-terminal, `dcgCBody` is specified
    like `dcgBody` -/
theorem specC_eq_specBody (t l r : Term) (n : Nat) (hv : ∀ v, t ≠ .var v)
    (hnt : ∀ f as, Body.ofTerm t ≠ .ok (.nt f as)) : specC t l r n = specBody t l r n := by
  unfold specC specBody
  split
  · exact absurd rfl (hv _)
  · split
    · exact absurd (by assumption) (hnt _ _)
    · simp [*]
    · simp [*]

theorem isThen_iff (a : Term) : isThen a = true ↔ ∃ c t, a = .app "->" (.cons c (.cons t .nil)) := by
  constructor
  · intro h
    unfold isThen at h
    split at h
    · exact ⟨_, _, rfl⟩
    · simp at h
  · rintro ⟨c, t, rfl⟩; rfl

theorem specC_isThen (a l r : Term) (n : Nat) (h : isThen a = true) :
    specC a l r n = specBody a l r n := by
  obtain ⟨c, t, rfl⟩ := (isThen_iff a).1 h
  apply specC_eq_specBody
  · intro v; simp
  · intro f as
    simp only [Body.ofTerm]
    cases Body.ofTerm c <;> cases Body.ofTerm t <;> simp

/-- `dcgBodyWith` for a body that is not a variable -/
theorem bodyWith_nonvar (x : M (Term × Nat)) (t l r : Term) (n : Nat) (hv : ∀ v, t ≠ .var v) :
    dcgBodyWith x t l r n =
      (match x with
       | .error .notApplicable =>
         match dcgNonTerminal t l r with
         | .ok g => .ok (g, n)
         | .error e => .error e
       | x => x) := by
  cases t with
  | var v => exact absurd rfl (hv v)
  | _ => rfl

theorem specC_nonvar (t l r : Term) (n : Nat) (hv : ∀ v, t ≠ .var v) :
    specC t l r n =
      (match Body.ofTerm t with
       | .ok (.nt _ _) => .error .notApplicable
       | .ok b => .ok (b.tr l r n)
       | .error e => .error (.exc e)) := by
  cases t with
  | var v => exact absurd rfl (hv v)
  | _ => rfl

/-- `dcgBody` on top of the specified `dcgCBody` is the specified `dcgBody` -/
theorem bodyWith_specC (t l r : Term) (n : Nat) :
    dcgBodyWith (specC t l r n) t l r n = specBody t l r n := by
  by_cases hv : ∃ v, t = .var v
  · obtain ⟨v, rfl⟩ := hv
    simp [dcgBodyWith, specBody, Body.ofTerm, Body.tr]
  · have hv' : ∀ v, t ≠ .var v := fun v h => hv ⟨v, h⟩
    rw [bodyWith_nonvar _ _ _ _ _ hv', specC_nonvar _ _ _ _ hv', specBody]
    cases h : Body.ofTerm t with
    | error e => simp
    | ok b =>
      cases b with
      | nt f as =>
        simp [dcgNonTerminal, ofTerm_nt t f as h, Body.tr]
      | _ => simp

theorem dcgTerminals_eq (t l r : Term) :
    dcgTerminals t l r =
      (match terminalsOf t with
       | .ok ts => .ok (Term.a2 "=" l (Term.list ts r))
       | .error e => .error (.exc e)) := by
  unfold dcgTerminals terminalsOf
  split <;> simp_all
  · split <;> simp_all

theorem ite_then_spec (a l r : Term) (n : Nat) :
    (if isThen a = true then specC a l r n else dcgBodyWith (specC a l r n) a l r n) =
      specBody a l r n := by
  split
  · exact specC_isThen a l r n (by assumption)
  · exact bodyWith_specC a l r n

theorem specC_seq (a b l r : Term) (n : Nat) :
    specC (.app "," (.cons a (.cons b .nil))) l r n = specBody (.app "," (.cons a (.cons b .nil))) l r n := by
  apply specC_eq_specBody
  · intro v; simp
  · intro f as; simp only [Body.ofTerm]; cases Body.ofTerm a <;> cases Body.ofTerm b <;> simp

theorem specC_alt (a b l r : Term) (n : Nat) :
    specC (.app ";" (.cons a (.cons b .nil))) l r n = specBody (.app ";" (.cons a (.cons b .nil))) l r n := by
  apply specC_eq_specBody
  · intro v; simp
  · intro f as; simp only [Body.ofTerm]; cases Body.ofTerm a <;> cases Body.ofTerm b <;> simp

theorem specC_bar (a b l r : Term) (n : Nat) :
    specC (.app "|" (.cons a (.cons b .nil))) l r n = specBody (.app "|" (.cons a (.cons b .nil))) l r n := by
  apply specC_eq_specBody
  · intro v; simp
  · intro f as; simp only [Body.ofTerm]; cases Body.ofTerm a <;> cases Body.ofTerm b <;> simp

theorem specC_not (g l r : Term) (n : Nat) :
    specC (.app "\\+" (.cons g .nil)) l r n = specBody (.app "\\+" (.cons g .nil)) l r n := by
  apply specC_eq_specBody
  · intro v; simp
  · intro f as; simp only [Body.ofTerm]; cases Body.ofTerm g <;> simp

theorem specC_then (c t l r : Term) (n : Nat) :
    specC (.app "->" (.cons c (.cons t .nil))) l r n = specBody (.app "->" (.cons c (.cons t .nil))) l r n :=
  specC_isThen _ l r n rfl

theorem ite_then_spec' (a l r : Term) (n : Nat) :
    (if isThen a = true then specC a l r n else specBody a l r n) = specBody a l r n := by
  split
  · exact specC_isThen a l r n (by assumption)
  · rfl

theorem specC_terminals (h t l r : Term) (n : Nat) :
    specC (.app "." (.cons h (.cons t .nil))) l r n =
      (match dcgTerminals (.app "." (.cons h (.cons t .nil))) l r with
       | .ok g => .ok (g, n)
       | .error e => .error e) := by
  rw [dcgTerminals_eq]
  simp only [specC, Body.ofTerm]
  cases terminalsOf (.app "." (.cons h (.cons t .nil))) <;> simp [Body.tr]

theorem cbody_spec (t l r : Term) (n : Nat) : dcgCBody t l r n = specC t l r n := by
  fun_induction dcgCBody t l r n
  all_goals
    try simp only [*, bodyWith_specC, ite_then_spec'] at *
  all_goals first
    | (simp [specC, Body.ofTerm, Body.tr]; done)
    | (rw [specC_terminals]; simp_all; done)
    | (rw [specC_seq, specBody_seq]; simp_all +zetaDelta [andK]; done)
    | (rw [specC_alt, specBody_alt]; simp_all +zetaDelta [andK]; done)
    | (rw [specC_bar, specBody_bar]; simp_all +zetaDelta [andK]; done)
    | (rw [specC_not, specBody_not]; simp_all +zetaDelta [andK]; done)
    | (rw [specC_then, specBody_then]; simp_all +zetaDelta [andK]; done)

/-- **the model is the specification**: `dcgBody` reads the body (`Body.ofTerm`) and applies the
    reference translation (`Body.tr`), with the same error in the same place -/
theorem body_spec (t l r : Term) (n : Nat) : dcgBody t l r n = specBody t l r n := by
  unfold dcgBody
  rw [cbody_spec, bodyWith_specC]

theorem dcgNonTerminal_eq (h l r : Term) :
    dcgNonTerminal h l r =
      (match headOf h with
       | .ok (f, as) => .ok (Term.mk f (as ++ [l, r]))
       | .error e => .error (.exc e)) := by
  cases h <;> simp [dcgNonTerminal, piArg, headOf]

/-- what the specification says `expandDCG` returns -/
def specRule (t : Term) (n : Nat) : M (Term × Nat) :=
  match Rule.ofTerm t with
  | .ok r => .ok (r.tr n)
  | .error none => .error .notApplicable
  | .error (some e) => .error (.exc e)

theorem expand_spec (t : Term) (n : Nat) : expandDCG t n = specRule t n := by
  unfold specRule
  fun_cases Rule.ofTerm t
  all_goals
    simp_all [expandDCG, dcgNonTerminal_eq, body_spec, specBody, dcgTerminals_eq, Rule.tr]

end PrologVerif.DCG
