/-
  vm_well_scoped, directly on the trampoline — UNCONDITIONAL version (no reference to the recursive
  search, hence also for runs that do not terminate, run out of fuel or are cancelled):

  along EVERY run of `force` over the VM's promises, from a well-scoped stack, every cut step
  `cutStack c stack` finds its parent `c` on the stack (the clause-call promise, or the marker an
  earlier cut of the same activation left in its place) — it never empties the stack by not
  finding it.

  `cutsOK` is `force` (Model/Promise.lean) with the results erased and that one assertion added at
  the cut step.  STATEMENTS in this header section; the proofs follow.
-/
import PrologVerif.Proofs.VMScoped
namespace PrologVerif.VMScoped
open PrologVerif PrologVerif.VM PrologVerif.Promise PrologVerif.DFSG
open PrologVerif.ForceDFSG (ids)

/-- "every cut performed during this run of the trampoline finds its parent on the stack": the
    recursion of `force`, step by step -/
def cutsOK (sem : Sem Thunk Handler Err St) (cancelAt : Option Nat) : Nat → List Pr → MS → Prop
  | 0, _, _ => True
  | _ + 1, [], _ => True
  | n + 1, p :: stack, m =>
    if isCancelled cancelAt m.iter then True
    else
      let m := { m with iter := m.iter + 1 }
      match p.delayed with
      | [] =>
        match p.err with
        | some e =>
          match recoverStack sem e stack m with
          | (none, _) => True
          | (some stack', m') => cutsOK sem cancelAt n stack' m'
        | none => if p.ok then True else cutsOK sem cancelAt n stack m
      | t :: _ =>
        -- the cut step: the parent is on the stack
        (∀ c, p.cutParent = some c → c ∈ ids stack) ∧
        let stack1 := match p.cutParent with
          | some c => cutStack c stack
          | none => stack
        let p1 := { p with cutParent := none }
        match sem.evalThunk n t m with
        | none => True
        | some (q, m') => cutsOK sem cancelAt n (q :: afterChild p1 :: stack1) m'

/-- the frames below the top of the stack: their cut (if any) has been performed; each is
    well-scoped on the frames below it -/
def TailOK : List Pr → Prop
  | [] => True
  | f :: rest => f.cutParent = none ∧ PrOK (ids rest) f ∧ TailOK rest

/-- a well-scoped stack in state `m` -/
structure StackInv (stack : List Pr) (m : MS) : Prop where
  top : ∀ p rest, stack = p :: rest → PrOK (ids rest) p ∧ TailOK rest
  nodup : (ids stack).Nodup
  bound : ∀ x ∈ ids stack, x < m.user.nextId
  pos : 0 < m.user.nextId

/-- **Statement E**: from a well-scoped stack, every cut of every run finds its parent -/
def VmForceCutsStatement : Prop :=
  ∀ (fuel : Nat) (cancelAt : Option Nat) (n : Nat) (stack : List Pr) (m : MS),
    StackInv stack m → cutsOK (VM.sem fuel) cancelAt n stack m

/-- **Statement F**: in particular for `runQuery` (any program, any query, with or without
    cancellation), and for the nested trampolines of `\+` and `findall/3` -/
def VmRunCutsStatement : Prop :=
  (∀ (fuel n : Nat) (prog : List Term) (query : Term) (max : Nat) (cancelAt : Option Nat),
    cutsOK (VM.sem fuel) cancelAt n [(queryPromise prog query max cancelAt).1]
      (queryPromise prog query max cancelAt).2) ∧
  (∀ (fuel n : Nat) (cancelAt : Option Nat) (goal : Term) (kont : Cont) (env : Env) (m : MS),
    ContOK [] kont → 0 < m.user.nextId →
    cutsOK (VM.sem fuel) cancelAt n [(callGoal goal kont env m).1] (callGoal goal kont env m).2)

/-! ## Proofs -/

theorem TailOK_popUntil (c : Nat) : ∀ stack : List Pr, TailOK stack → TailOK (popUntil c stack)
  | [], _ => trivial
  | p :: rest, h => by
    simp only [popUntil]
    split
    · exact h.2.2
    · exact TailOK_popUntil c rest h.2.2

theorem TailOK_cutStack (c : Nat) (stack : List Pr) (h : TailOK stack) : TailOK (cutStack c stack) := by
  unfold cutStack
  split
  · trivial
  · exact ⟨rfl, PrOK_leaf _ rfl rfl rfl, TailOK_popUntil c stack h⟩

theorem ids_sublist_cons (p : Pr) (rest : List Pr) : ∀ x, x ∈ ids rest → x ∈ ids (p :: rest) := by
  intro x hx
  rw [ForceDFSG.ids_cons]
  unfold push
  split
  · exact hx
  · exact List.mem_cons_of_mem _ hx

theorem nodup_ids_tail (p : Pr) (rest : List Pr) (h : (ids (p :: rest)).Nodup) : (ids rest).Nodup := by
  rw [ForceDFSG.ids_cons] at h
  unfold push at h
  split at h
  · exact h
  · exact (List.nodup_cons.1 h).2

/-- pushing a promise with a fresh id -/
theorem nodup_ids_push (q : Pr) (rest : List Pr) (nid : Nat) (m' : MS) (h : (ids rest).Nodup)
    (hb : ∀ x ∈ ids rest, x < nid) (hq : IdOK nid m' q) : (ids (q :: rest)).Nodup := by
  rw [ForceDFSG.ids_cons]
  unfold push
  split
  · exact h
  · rename_i h0
    rcases hq with hq | ⟨hq, _⟩
    · exact absurd hq h0
    · exact List.nodup_cons.2 ⟨fun hm => absurd (hb _ hm) (by omega), h⟩

theorem bound_ids_push (q : Pr) (rest : List Pr) (nid : Nat) (m' : MS) (hle : nid ≤ m'.user.nextId)
    (hb : ∀ x ∈ ids rest, x < nid) (hq : IdOK nid m' q) : ∀ x ∈ ids (q :: rest), x < m'.user.nextId := by
  intro x hx
  rw [ForceDFSG.ids_cons] at hx
  unfold push at hx
  split at hx
  · exact Nat.lt_of_lt_of_le (hb x hx) hle
  · rename_i h0
    rcases List.mem_cons.1 hx with rfl | hx
    · rcases hq with hq | ⟨_, hq⟩
      · exact absurd hq h0
      · exact hq
    · exact Nat.lt_of_lt_of_le (hb x hx) hle

theorem stackInv_of_tail {f : Pr} {rest : List Pr} {m : MS} (ht : TailOK (f :: rest))
    (hn : (ids (f :: rest)).Nodup) (hb : ∀ x ∈ ids (f :: rest), x < m.user.nextId) (h0 : 0 < m.user.nextId) :
    StackInv (f :: rest) m :=
  ⟨fun p r e => (by cases e; exact ⟨ht.2.1, ht.2.2⟩), hn, hb, h0⟩

theorem stackInv_nil {m : MS} (h0 : 0 < m.user.nextId) : StackInv [] m :=
  ⟨fun _ _ e => (by cases e), List.nodup_nil, fun _ h => (by cases h), h0⟩

theorem stackInv_tail {stack : List Pr} {m : MS} (ht : TailOK stack)
    (hn : (ids stack).Nodup) (hb : ∀ x ∈ ids stack, x < m.user.nextId) (h0 : 0 < m.user.nextId) :
    StackInv stack m := by
  cases stack with
  | nil => exact stackInv_nil h0
  | cons f rest => exact stackInv_of_tail ht hn hb h0

/-- `recover`: the stack it leaves (if a handler accepts) is well-scoped -/
theorem recoverStack_inv (fuel : Nat) (e : Err) : ∀ (stack : List Pr) (m : MS) (st' : List Pr) (m' : MS),
    TailOK stack → (ids stack).Nodup → (∀ x ∈ ids stack, x < m.user.nextId) → 0 < m.user.nextId →
    recoverStack (VM.sem fuel) e stack m = (some st', m') → StackInv st' m'
  | [], m, st', m', _, _, _, _, h => by simp [recoverStack] at h
  | p :: rest, m, st', m', ht, hn, hb, h0, h => by
    have hn' := nodup_ids_tail p rest hn
    have hb' : ∀ x ∈ ids rest, x < m.user.nextId := fun x hx => hb x (ids_sublist_cons p rest x hx)
    unfold recoverStack at h
    split at h
    · exact recoverStack_inv fuel e rest m st' m' ht.2.2 hn' hb' h0 h
    · rename_i hd hr
      have hk : ContOK (ids rest) hd.k := by
        have := ht.2.1.2.2 hd hr
        rwa [ht.1] at this
      have hmono := evalRecover_mono hd e m
      split at h
      · rename_i q m1 heq
        have heq' : VM.evalRecover hd e m = (some q, m1) := heq
        simp only [Prod.mk.injEq, Option.some.injEq] at h
        obtain ⟨rfl, rfl⟩ := h
        have hok := evalRecover_ok hd e m hk h0 q (by rw [heq'])
        rw [heq'] at hok hmono
        simp only at hok hmono
        exact ⟨fun p' r' e' => (by cases e'; exact ⟨hok.1, ht.2.2⟩),
          nodup_ids_push q rest _ m1 hn' hb' hok.2,
          bound_ids_push q rest _ m1 hmono hb' hok.2,
          Nat.lt_of_lt_of_le h0 hmono⟩
      · rename_i m1 heq
        have heq' : VM.evalRecover hd e m = (none, m1) := heq
        rw [heq'] at hmono
        simp only at hmono
        exact recoverStack_inv fuel e rest m1 st' m' ht.2.2 hn'
          (fun x hx => Nat.lt_of_lt_of_le (hb' x hx) hmono) (Nat.lt_of_lt_of_le h0 hmono) h

/-- **vm_force_cuts_ok** (Statement E) -/
theorem vm_force_cuts_ok : VmForceCutsStatement := by
  intro fuel cancelAt n
  induction n with
  | zero => intro stack m _; simp [cutsOK]
  | succ n ih =>
    intro stack m inv
    cases stack with
    | nil => simp [cutsOK]
    | cons p rest =>
      obtain ⟨hp, ht⟩ := inv.top p rest rfl
      have hn' := nodup_ids_tail p rest inv.nodup
      have hb' : ∀ x ∈ ids rest, x < m.user.nextId := fun x hx => inv.bound x (ids_sublist_cons p rest x hx)
      simp only [cutsOK]
      split
      · trivial
      · split
        · -- no alternative left
          split
          · rename_i e he
            split
            · trivial
            · rename_i st' m' heq
              exact ih st' m' (recoverStack_inv fuel e rest { m with iter := m.iter + 1 } st' m' ht hn' hb' inv.pos heq)
          · split
            · trivial
            · exact ih rest _ (stackInv_tail ht hn' hb' inv.pos)
        · rename_i t ts hd
          have hcut : ∀ c, p.cutParent = some c → c ∈ ids rest := hp.1
          refine ⟨hcut, ?_⟩
          split
          · trivial
          · rename_i q m' hev
            refine ih _ m' ?_
            have hev' : VM.evalThunk fuel t { m with iter := m.iter + 1 } = some (q, m') := hev
            -- the stack the cut leaves, its ids
            have hids1 : ids (match p.cutParent with | some c => cutStack c rest | none => rest)
                = cutLive p.cutParent (ids rest) := by
              cases hc : p.cutParent with
              | none => rfl
              | some c => exact ForceDFSG.ids_cutStack c rest (hcut c hc)
            have htail1 : TailOK (match p.cutParent with | some c => cutStack c rest | none => rest) := by
              cases p.cutParent with
              | none => exact ht
              | some c => exact TailOK_cutStack c rest ht
            have hsub : ∀ x, x ∈ cutLive p.cutParent (ids rest) → x ∈ ids rest := by
              intro x hx
              cases hc : p.cutParent with
              | none => rw [hc] at hx; exact hx
              | some c => rw [hc] at hx; exact (List.dropWhile_sublist _).subset hx
            have hnd1 : (cutLive p.cutParent (ids rest)).Nodup := by
              cases p.cutParent with
              | none => exact hn'
              | some c => exact (List.dropWhile_sublist _).nodup hn'
            have hf := PrOK_afterChild hp
            have hT : ThunkOK p.id (cutLive p.cutParent (ids rest)) t := hp.2.1 t (by rw [hd]; exact List.mem_cons_self ..)
            obtain ⟨hq, hidq⟩ := (stepOK fuel).evalThunk p.id _ t { m with iter := m.iter + 1 } hT inv.pos q m' hev'
            have hmono : m.user.nextId ≤ m'.user.nextId := (stepMono fuel).evalThunk t { m with iter := m.iter + 1 } q m' hev'
            -- the frame
            have hfids : ids (afterChild { p with cutParent := none } ::
                (match p.cutParent with | some c => cutStack c rest | none => rest))
                = push p.id (cutLive p.cutParent (ids rest)) := by
              rw [ForceDFSG.ids_cons, afterChild_id, hids1]
            have hpid : p.id ≠ 0 → p.id ∉ ids rest ∧ p.id < m.user.nextId := by
              intro h0
              have hnd := inv.nodup
              rw [ForceDFSG.ids_cons_pos p rest h0] at hnd
              exact ⟨(List.nodup_cons.1 hnd).1, inv.bound p.id (by rw [ForceDFSG.ids_cons_pos p rest h0]; exact List.mem_cons_self ..)⟩
            have hfnd : (push p.id (cutLive p.cutParent (ids rest))).Nodup := by
              unfold push
              split
              · exact hnd1
              · rename_i h0
                exact List.nodup_cons.2 ⟨fun hm => (hpid h0).1 (hsub _ hm), hnd1⟩
            have hfb : ∀ x ∈ push p.id (cutLive p.cutParent (ids rest)), x < m.user.nextId := by
              intro x hx
              unfold push at hx
              split at hx
              · exact hb' x (hsub x hx)
              · rename_i h0
                rcases List.mem_cons.1 hx with rfl | hx
                · exact (hpid h0).2
                · exact hb' x (hsub x hx)
            refine ⟨fun p' r' e' => ?_, ?_, ?_, Nat.lt_of_lt_of_le inv.pos hmono⟩
            · cases e'
              rw [hfids]
              refine ⟨hq, afterChild_cutParent p, ?_, htail1⟩
              rw [hids1]
              exact hf
            · exact nodup_ids_push q _ _ m' (hfids ▸ hfnd) (hfids ▸ hfb) hidq
            · exact bound_ids_push q _ _ m' hmono (hfids ▸ hfb) hidq

theorem stackInv_single {p : Pr} {m : MS} (h : ConfOK [] p m) : StackInv [p] m := by
  refine ⟨fun p' r' e' => (by cases e'; exact ⟨h.pr, trivial⟩), ?_, ?_, h.pos⟩
  · rw [ForceDFSG.ids_cons]; unfold push; split
    · exact List.nodup_nil
    · exact List.nodup_cons.2 ⟨by simp [ids], List.nodup_nil⟩
  · intro x hx
    rw [ForceDFSG.ids_cons] at hx; unfold push at hx; split at hx
    · cases hx
    · rcases List.mem_cons.1 hx with rfl | hx
      · exact h.idb
      · cases hx

/-- **vm_run_cuts_ok** (Statement F) -/
theorem vm_run_cuts_ok : VmRunCutsStatement :=
  ⟨fun fuel n prog query max cancelAt =>
      vm_force_cuts_ok fuel cancelAt n _ _ (stackInv_single (confOK_query prog query max cancelAt)),
    fun fuel n cancelAt goal kont env m hk h0 =>
      vm_force_cuts_ok fuel cancelAt n _ _ (stackInv_single (confOK_callGoal goal kont env m hk h0))⟩

/-- non-vacuity: the stack `[exP]`-style configurations exist — e.g. the query promise itself -/
example : StackInv [(queryPromise [] (.atom "!") 1 none).1] (queryPromise [] (.atom "!") 1 none).2 :=
  stackInv_single (confOK_query _ _ _ _)

end PrologVerif.VMScoped
