/-
  decompile_compile — the compiled form of a clause denotes its source term: same head arguments,
  same body goals in order (variable goals wrapped in call/1, `!` as the cut instruction), same
  variable sharing — for every encoding of every argument.

  STATEMENTS in this header section; the proofs follow.
-/
import PrologVerif.Model.Decompile
namespace PrologVerif.DecompileCompile
open PrologVerif PrologVerif.VM

mutual
  /-- encodings as the Go constructors build them: compounds have ≥ 1 argument, `list`/`charList`/
      `codeList` are non-empty, a `*partial`'s prefix is a `list`, `charList` or `codeList`
      (what `PartialList` and `append/3` on strings produce; other prefixes compile to `unsupported`) -/
  def WF : Rep → Bool
    | .compound _ args => args.length ≥ 1 && WFs args
    | .list elems => elems.length ≥ 1 && WFs elems
    | .charList s => !s.isEmpty
    | .codeList s => !s.isEmpty
    | .part pre tail =>
      (match pre with
        | .list elems => elems.length ≥ 1 && WFs elems
        | .charList s => !s.isEmpty
        | .codeList s => !s.isEmpty
        | _ => false) && WF tail
    | _ => true
  def WFs : RepList → Bool
    | .nil => true
    | .cons r rs => WF r && WFs rs
end

/-- the goal a body element denotes: a variable goal V is call(V) -/
def goalTerm : Rep → Term
  | .var v => .app "call" (.cons (.var v) .nil)
  | g => Rep.abs g

/-- the head is callable the way `assert`/`consult` accept it -/
def CallableHead : Rep → Bool
  | .atom _ => true
  | .compound _ _ => true
  | _ => false

/-- a body goal that `compilePred` accepts -/
def CallableGoal : Rep → Bool
  | .int _ => false
  | .flt _ => false
  | .str _ => false
  | _ => true

/-- **the statement**: for a rule `head :- body` -/
def RuleStatement : Prop :=
  ∀ (head body : Rep) (cs : List Clause),
    WF head = true → WF body = true → CallableHead head = true →
    compile (.compound ":-" (.cons head (.cons body .nil))) = .ok cs →
    cs.length = (altBodies body).length ∧
    ∀ (i : Nat) (c : Clause) (alt : Rep), cs[i]? = some c → (altBodies body)[i]? = some alt →
      decompile c = some (Rep.abs head, (seqGoals alt).map goalTerm) ∧
      c.raw = Rep.abs (.compound ":-" (.cons head (.cons body .nil)))

/-- for a fact -/
def FactStatement : Prop :=
  ∀ (t : Rep) (cs : List Clause),
    WF t = true → CallableHead t = true → (∀ h b, t ≠ .compound ":-" (.cons h (.cons b .nil))) →
    compile t = .ok cs →
    ∃ c, cs = [c] ∧ decompile c = some (Rep.abs t, []) ∧ c.raw = Rep.abs t

/-- compilation fails exactly when some top-level body goal is not callable -/
def ErrorStatement : Prop :=
  ∀ (head body : Rep), WF head = true → WF body = true → CallableHead head = true →
    ((∃ e, compile (.compound ":-" (.cons head (.cons body .nil))) = .error e) ↔
      ∃ alt ∈ altBodies body, ∃ g ∈ seqGoals alt, CallableGoal g = false)

end PrologVerif.DecompileCompile
