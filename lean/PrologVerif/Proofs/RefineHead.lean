/-
  Refine, part 2 — head unification, once more: the run of the head code of a clause is a CHAIN of
  successful calls of the model's `unify` (`UChain`), each on terms whose variables are non-zero and
  below the variable counter.  This is `Activation.head_is_mgu` with one more conjunct: besides the
  semantic characterisation `MGUStep` (env' = env + mgu, up to skeleton variables) the new
  environment is known to be reached by `unify` steps, so that every invariant of `unify`
  (acyclicity when solvable, variable bounds, solvability in infinite trees, …) can be transported
  by an induction over the chain — independently of the compiled code.

  The proofs replay those of `GetsR` in Proofs/ActivationLemmas.lean; the compile-time part is the
  generic `compileArgs_sem` / `lift_argSem` of that file, instantiated with the new run-time meaning.
-/
import PrologVerif.Proofs.RefineFrag
import PrologVerif.Proofs.RefineITree
namespace PrologVerif.Refine
open PrologVerif PrologVerif.VM PrologVerif.DecompileCompile PrologVerif.Activation PrologVerif.RefineITree

/-- every variable of `t` is non-zero (variable 0 is the VM's context variable) and below `N` -/
def TOk (N : Nat) (t : Term) : Prop := ∀ v, t.hasVar v = true → 0 < v ∧ v < N

theorem TOk.mono {N N' : Nat} {t : Term} (h : TOk N t) (hN : N ≤ N') : TOk N' t :=
  fun v hv => ⟨(h v hv).1, Nat.lt_of_lt_of_le (h v hv).2 hN⟩

theorem TOk.below {N : Nat} {t : Term} (h : TOk N t) : TBelow N t :=
  TBelow.of_vars (fun v hv => (h v hv).2)

theorem TOk.var {N v : Nat} (h0 : 0 < v) (h : v < N) : TOk N (.var v) := by
  intro w hw
  simp only [Term.hasVar, beq_iff_eq] at hw
  subst hw
  exact ⟨h0, h⟩

/-- a chain of successful unifications leading from `env` (counter `N`) to `env'` (counter `N'`) -/
inductive UChain : Nat → Env → Nat → Env → Prop
  | refl {N N' : Nat} {e : Env} : N ≤ N' → UChain N e N' e
  | step {N N1 N' : Nat} {e e1 e' : Env} {a b : Term} : N ≤ N1 → TOk N1 a → TOk N1 b →
      unify inner false e a b = some (e1, .ok) → UChain N1 e1 N' e' → UChain N e N' e'

theorem UChain.le {N N' : Nat} {e e' : Env} (h : UChain N e N' e') : N ≤ N' := by
  induction h with
  | refl h => exact h
  | step h1 _ _ _ _ ih => exact Nat.le_trans h1 ih

theorem UChain.trans {N N1 N2 : Nat} {e e1 e2 : Env} (h1 : UChain N e N1 e1) (h2 : UChain N1 e1 N2 e2) :
    UChain N e N2 e2 := by
  induction h1 with
  | refl h =>
    cases h2 with
    | refl h' => exact .refl (Nat.le_trans h h')
    | step h' ha hb hu hc => exact .step (Nat.le_trans h h') ha hb hu hc
  | step h' ha hb hu _ ih => exact .step h' ha hb hu (ih h2)

theorem UChain.weaken {N0 N N' : Nat} {e e' : Env} (h : UChain N e N' e') (h0 : N0 ≤ N) : UChain N0 e N' e' := by
  cases h with
  | refl h' => exact .refl (Nat.le_trans h0 h')
  | step h' ha hb hu hc => exact .step (Nat.le_trans h0 h') ha hb hu hc

theorem UChain.single {N : Nat} {e e1 : Env} {a b : Term} (ha : TOk N a) (hb : TOk N b)
    (hu : unify inner false e a b = some (e1, .ok)) : UChain N e N e1 :=
  .step (Nat.le_refl _) ha hb hu (.refl (Nat.le_refl _))

/-- `unifyThen`, keeping the call of `unify` -/
theorem unifyThen_cases2 {env : Env} {a b : Term} {m : MS} {X : Env → Option (Pr × MS)} {res : Pr × MS}
    (h : unifyThen env a b m X = some res) :
    (∃ env', unify inner false env a b = some (env', .ok) ∧
      (∀ θ, Sol env' θ ↔ (Sol env θ ∧ a.subst θ = b.subst θ)) ∧
      (∀ θ : IAsg, ISol env' θ → ISol env θ ∧ interp θ a = interp θ b) ∧ X env' = some res) ∨
    (res = (failP, m) ∧ ∀ θ, Sol env θ → a.subst θ ≠ b.subst θ) := by
  unfold unifyThen at h
  cases hu : unify inner false env a b with
  | none => simp [hu] at h
  | some p =>
    obtain ⟨env', r⟩ := p
    have hs := unify_spec inner false env a b env' r hu
    cases r with
    | ok => rw [hu] at h; exact Or.inl ⟨env', rfl, hs, unify_isound _ _ _ _ _ _ hu, h⟩
    | clash => rw [hu] at h; simp only [Option.some.injEq] at h; exact Or.inr ⟨h.symm, hs⟩
    | occurs => rw [hu] at h; simp only [Option.some.injEq] at h; exact Or.inr ⟨h.symm, hs⟩

/-- θ unifies `xs` and `ys` pointwise, in infinite trees -/
def IUnifiesL (θ : IAsg) (xs ys : List Term) : Prop := xs.map (interp θ) = ys.map (interp θ)

/-- soundness in infinite trees: a tree solution of `env'` solves `env` and the equations `EI` -/
def ISound (env : Env) (EI : IAsg → Prop) (env' : Env) : Prop :=
  ∀ θ : IAsg, ISol env' θ → ISol env θ ∧ EI θ

/-- what running head code ends in: as `HeadOutcome`, with the chain and soundness in trees -/
def HeadOutcome2 (fuel : Nat) (m : MS) (env : Env) (E : Subst → Prop) (EI : IAsg → Prop)
    (cont : Nat → Env → MS → Option (Pr × MS)) (res : Pr × MS) : Prop :=
  (∃ N', m.user.nextVar ≤ N' ∧ res = (failP, bump m N') ∧ ∀ θ, Sol env θ → ¬ E θ) ∨
  (∃ fuel' env' N', fuel' ≤ fuel ∧ cont fuel' env' (bump m N') = some res ∧
    MGUStep m.user.nextVar env E N' env' ∧ UChain m.user.nextVar env N' env' ∧ ISound env EI env')

mutual
  theorem interp_congr {θ θ' : IAsg} : ∀ t : Term, (∀ v, t.hasVar v = true → θ v = θ' v) →
      interp θ t = interp θ' t
    | .var v, h => h v (by simp [Term.hasVar])
    | .atom _, _ => rfl
    | .int _, _ => rfl
    | .flt _, _ => rfl
    | .str _, _ => rfl
    | .app f as, h => by
      simp only [interp]
      exact node_congr (interpArgs_congr as (fun v hv => h v (by simpa [Term.hasVar] using hv)))
  theorem interpArgs_congr {θ θ' : IAsg} : ∀ as : Args, (∀ v, as.hasVar v = true → θ v = θ' v) →
      ∀ i, interpArgs θ as i = interpArgs θ' as i
    | .nil, _, _ => rfl
    | .cons t ts, h, 0 => by
      simp only [interpArgs]
      exact interp_congr t (fun v hv => h v (by simp [Args.hasVar, hv]))
    | .cons t ts, h, i + 1 => by
      simp only [interpArgs]
      exact interpArgs_congr ts (fun v hv => h v (by simp [Args.hasVar, hv])) i
end

def GetsR2 (vars : List Nat) (ops : List Op) (ps : List Term) : Prop :=
  ∀ (fuel : Nat) (rest : List Op) (k : Cont) (as args : List Term) (astack : List Frame)
    (env : Env) (cp : Nat) (m : MS) (res : Pr × MS),
    as.length = ps.length → 0 < m.user.nextVar → (∀ a ∈ as, TOk m.user.nextVar a) →
    (∀ p ∈ ps, TOk m.user.nextVar p) → SolBelow m.user.nextVar env →
    exec fuel (ops ++ rest) vars k (as ++ args) astack env cp m = some res →
    HeadOutcome2 fuel m env (fun θ => UnifiesL θ as ps) (fun θ => IUnifiesL θ as ps)
      (fun f e m' => exec f rest vars k args astack e cp m') res

theorem GetsR2_nil (vars : List Nat) : GetsR2 vars [] [] := by
  intro fuel rest k as args astack env cp m res hl _ _ _ hb h
  have : as = [] := List.eq_nil_of_length_eq_zero hl
  subst this
  exact Or.inr ⟨fuel, env, m.user.nextVar, Nat.le_refl _, by simpa using h,
    (MGUStep.refl hb).congr (fun θ => by simp [UnifiesL]), .refl (Nat.le_refl _),
    fun θ hs => ⟨hs, by simp [IUnifiesL]⟩⟩

theorem GetsR2_unify1 (vars : List Nat) (op : Op) (b : Term)
    (hstep : ∀ n pc k a rest astack env cp m,
      exec (n + 1) (op :: pc) vars k (a :: rest) astack env cp m =
        unifyThen env a b m (fun env' => exec n pc vars k rest astack env' cp m)) :
    GetsR2 vars [op] [b] := by
  intro fuel rest k as args astack env cp m res hl _ ha hp hb h
  obtain ⟨a, rfl⟩ : ∃ a, as = [a] := List.length_eq_one_iff.1 hl
  cases fuel with
  | zero => simp [exec_zero] at h
  | succ n =>
    simp only [List.singleton_append] at h
    rw [hstep] at h
    have haB : TBelow m.user.nextVar a := (ha a (by simp)).below
    have hbB : TBelow m.user.nextVar b := (hp b (by simp)).below
    rcases unifyThen_cases2 h with ⟨env', hu, hiff, hi, hx⟩ | ⟨rfl, hf⟩
    · refine Or.inr ⟨n, env', m.user.nextVar, Nat.le_succ n, by simpa using hx, ?_,
        UChain.single (ha a (by simp)) (hp b (by simp)) hu,
        fun θ hs => ⟨(hi θ hs).1, by simp [IUnifiesL, (hi θ hs).2]⟩⟩
      have : MGUStep m.user.nextVar env (fun θ => a.subst θ = b.subst θ) m.user.nextVar env' :=
        MGUStep.of_iff hiff hb (fun θ θ' hag he => by rw [← haB θ θ' hag, ← hbB θ θ' hag]; exact he)
      exact this.congr (fun θ => UnifiesL.single.symm)
    · exact Or.inl ⟨m.user.nextVar, Nat.le_refl _, rfl, fun θ hs hu => hf θ hs (UnifiesL.single.1 hu)⟩

theorem GetsR2_const (vars : List Nat) (c : Term) : GetsR2 vars [.getConst c] [c] :=
  GetsR2_unify1 vars _ _ (fun n pc k a rest astack env cp m => exec_getConst n pc vars k astack env cp m c a rest)

theorem GetsR2_var (vars : List Nat) (i v : Nat) (hv : vars[i]? = some v) :
    GetsR2 vars [.getVar i] [.var v] :=
  GetsR2_unify1 vars _ _ (fun n pc k a rest astack env cp m => exec_getVar n pc vars k astack env cp m i v a rest hv)

theorem GetsR2_append {vars : List Nat} {ops1 ops2 : List Op} {ps1 ps2 : List Term}
    (h1 : GetsR2 vars ops1 ps1) (h2 : GetsR2 vars ops2 ps2) : GetsR2 vars (ops1 ++ ops2) (ps1 ++ ps2) := by
  intro fuel rest k as args astack env cp m res hl h0 ha hp hb h
  have hl' : as.length = ps1.length + ps2.length := by simpa using hl
  have hsplit : as = as.take ps1.length ++ as.drop ps1.length := (List.take_append_drop _ _).symm
  generalize hA1 : as.take ps1.length = as1 at hsplit
  generalize hA2 : as.drop ps1.length = as2 at hsplit
  have hl1 : as1.length = ps1.length := by rw [← hA1, List.length_take]; omega
  have hl2 : as2.length = ps2.length := by rw [← hA2, List.length_drop]; omega
  subst hsplit
  have hE : ∀ θ, UnifiesL θ (as1 ++ as2) (ps1 ++ ps2) ↔ UnifiesL θ as1 ps1 ∧ UnifiesL θ as2 ps2 :=
    fun θ => UnifiesL.append hl1
  have ha1 : ∀ a ∈ as1, TOk m.user.nextVar a := fun a hm => ha a (by simp [hm])
  have ha2 : ∀ a ∈ as2, TOk m.user.nextVar a := fun a hm => ha a (by simp [hm])
  have hp1 : ∀ p ∈ ps1, TOk m.user.nextVar p := fun p hm => hp p (by simp [hm])
  have hp2 : ∀ p ∈ ps2, TOk m.user.nextVar p := fun p hm => hp p (by simp [hm])
  have ha2B : ∀ a ∈ as2, TBelow m.user.nextVar a := fun a hm => (ha2 a hm).below
  have hp2B : ∀ p ∈ ps2, TBelow m.user.nextVar p := fun p hm => (hp2 p hm).below
  rw [List.append_assoc, List.append_assoc] at h
  rcases h1 fuel (ops2 ++ rest) k as1 (as2 ++ args) astack env cp m res hl1 h0 ha1 hp1 hb h with
    ⟨N1, hN1, hres, hf⟩ | ⟨fuel1, env1, N1, hfu1, hx1, hs1, hc1, hi1⟩
  · exact Or.inl ⟨N1, hN1, hres, fun θ hs hu => hf θ hs ((hE θ).1 hu).1⟩
  · have hle : m.user.nextVar ≤ N1 := hs1.le
    rcases h2 fuel1 rest k as2 args astack env1 cp (bump m N1) res hl2 (Nat.lt_of_lt_of_le h0 hle)
        (fun a hm => (ha2 a hm).mono hle) (fun p hm => (hp2 p hm).mono hle) hs1.below hx1 with
      ⟨N2, hN2, hres, hf⟩ | ⟨fuel2, env2, N2, hfu2, hx2, hs2, hc2, hi2⟩
    · refine Or.inl ⟨N2, Nat.le_trans hle hN2, by simpa using hres, ?_⟩
      intro θ hs hu
      obtain ⟨hu1, hu2⟩ := (hE θ).1 hu
      obtain ⟨θ', hag, hs'⟩ := (hs1.iff θ).2 ⟨hs, hu1⟩
      exact hf θ' hs' (EBelow.unifiesL ha2B hp2B θ θ' hag.symm hu2)
    · refine Or.inr ⟨fuel2, env2, N2, Nat.le_trans hfu2 hfu1, by simpa using hx2, ?_, hc1.trans hc2, ?_⟩
      · exact (hs1.trans hs2 (EBelow.unifiesL ha2B hp2B)).congr (fun θ => (hE θ).symm)
      · intro θ hs
        obtain ⟨hs1', hu2⟩ := hi2 θ hs
        obtain ⟨hs0, hu1⟩ := hi1 θ hs1'
        refine ⟨hs0, ?_⟩
        simp only [IUnifiesL, List.map_append] at hu1 hu2 ⊢
        rw [hu1, hu2]

/-- the builders of get_functor / get_list / get_partial, with their variables -/
structure Builder2 (B : List Term → Term) : Prop extends Builder B where
  hasVar : ∀ (ts : List Term) (v : Nat), (B ts).hasVar v = true ↔ ∃ t ∈ ts, t.hasVar v = true

/-- the tree of a built term only depends on the trees of the components -/
theorem builder_interp_congr {B : List Term → Term} (hB : Builder2 B) {θ : IAsg} {ts ts' : List Term}
    (h : ts.map (interp θ) = ts'.map (interp θ)) : interp θ (B ts) = interp θ (B ts') := by
  have hl : ts.length = ts'.length := by simpa using congrArg List.length h
  have key : ∀ us : List Term, us.length = ts.length →
      B us = (B ((freshL 0 ts.length).map Term.var)).subst (fun v => us.getD v (.atom "")) := by
    intro us hus
    rw [hB.subst]
    congr 1
    apply List.ext_getElem?
    intro i
    by_cases hi : i < ts.length
    · simp [Term.subst, hi, hus, List.getD]
    · have h1 : ts.length ≤ i := by omega
      simp [h1, hus]
  rw [key ts rfl, key ts' hl.symm, interp_subst, interp_subst]
  apply interp_congr
  intro v hv
  obtain ⟨t, ht, htv⟩ := (hB.hasVar _ v).1 hv
  simp only [List.mem_map] at ht
  obtain ⟨w, hw, rfl⟩ := ht
  simp only [Term.hasVar, beq_iff_eq] at htv
  subst htv
  have hlt : w < ts.length := by have := freshL_mem hw; omega
  have := congrArg (fun l => l[w]?) h
  simp only [List.getElem?_map, List.getElem?_eq_getElem hlt, List.getElem?_eq_getElem (hl ▸ hlt),
    Option.map_some, Option.some.injEq] at this
  simp [List.getD, List.getElem?_eq_getElem hlt, List.getElem?_eq_getElem (hl ▸ hlt), this]

theorem fresh_tok {N n : Nat} (h0 : 0 < N) : ∀ x ∈ (freshL N n).map Term.var, TOk (N + n) x := by
  intro x hx
  simp only [List.mem_map] at hx
  obtain ⟨v, hv, rfl⟩ := hx
  have := freshL_mem hv
  exact TOk.var (by omega) this.2

theorem GetsR2_skel {vars : List Nat} {ops : List Op} {ps : List Term} (op : Op)
    (B : List Term → Term) (hB : Builder2 B)
    (hstep : ∀ n pc k a rest astack env cp (m : MS),
      exec (n + 1) (op :: pc) vars k (a :: rest) astack env cp m =
        unifyThen env a (B ((freshL m.user.nextVar ps.length).map Term.var))
          (bump m (m.user.nextVar + ps.length))
          (fun env' => exec n pc vars k ((freshL m.user.nextVar ps.length).map Term.var)
            (.get rest :: astack) env' cp (bump m (m.user.nextVar + ps.length))))
    (h : GetsR2 vars ops ps) : GetsR2 vars (op :: ops ++ [.pop]) [B ps] := by
  intro fuel rest k as args astack env cp m res hl h0 ha hp hb hx
  obtain ⟨a, rfl⟩ : ∃ a, as = [a] := List.length_eq_one_iff.1 hl
  have haT : TOk m.user.nextVar a := ha a (by simp)
  have haB : TBelow m.user.nextVar a := haT.below
  cases fuel with
  | zero => simp [exec_zero] at hx
  | succ n =>
    have e : (op :: ops ++ [Op.pop]) ++ rest = op :: (ops ++ (Op.pop :: rest)) := by simp
    rw [e, List.singleton_append, hstep] at hx
    have hpsT : ∀ p ∈ ps, TOk m.user.nextVar p := by
      intro p hm v hv
      exact hp (B ps) (by simp) v ((hB.hasVar ps v).2 ⟨p, hm, hv⟩)
    have hps : ∀ p ∈ ps, TBelow m.user.nextVar p := fun p hm => (hpsT p hm).below
    have hle : m.user.nextVar ≤ m.user.nextVar + ps.length := Nat.le_add_right _ _
    have hskT : TOk (m.user.nextVar + ps.length) (B ((freshL m.user.nextVar ps.length).map Term.var)) := by
      intro v hv
      obtain ⟨t, hm, ht⟩ := (hB.hasVar _ v).1 hv
      exact fresh_tok h0 t hm v ht
    rcases unifyThen_cases2 hx with ⟨env0, hu0, h0', hi0, hx0⟩ | ⟨rfl, hf⟩
    · have hb0 : SolBelow (m.user.nextVar + ps.length) env0 := by
        intro θ θ' hag hs
        obtain ⟨hs', he⟩ := (h0' θ).1 hs
        refine (h0' θ').2 ⟨hb.mono hle θ θ' hag hs', ?_⟩
        rw [← haB.mono hle θ θ' hag, ← builder_below hB.toBuilder (fresh_below _ _) θ θ' hag]
        exact he
      rcases h n (Op.pop :: rest) k _ [] (.get args :: astack) env0 cp
          (bump m (m.user.nextVar + ps.length)) res (by simp) (Nat.lt_of_lt_of_le h0 hle) (fresh_tok h0)
          (fun p hm => (hpsT p hm).mono hle) hb0 (by simpa using hx0) with
        ⟨N2, hN2, hres, hf⟩ | ⟨fuel1, env', N', hfu, hx1, hs1, hc1, hi1⟩
      · refine Or.inl ⟨N2, Nat.le_trans hle hN2, by simpa using hres, ?_⟩
        intro θ hs hu
        exact skeleton_fail1 hB.toBuilder hb haB hps h0' hf θ hs (UnifiesL.single.1 hu)
      · cases fuel1 with
        | zero => simp [exec_zero] at hx1
        | succ f =>
          simp only [exec_pop_get, bump_bump] at hx1
          refine Or.inr ⟨f, env', N', by omega, hx1, ?_, ?_, ?_⟩
          · exact (MGUStep.skeleton hB.toBuilder hb haB hps h0' hs1).congr (fun θ => UnifiesL.single.symm)
          · exact .step hle (haT.mono hle) hskT hu0 hc1
          · intro θ hs
            obtain ⟨hs0, hu⟩ := hi1 θ hs
            obtain ⟨hse, he⟩ := hi0 θ hs0
            refine ⟨hse, ?_⟩
            simp only [IUnifiesL, List.map_cons, List.map_nil, List.cons.injEq, and_true]
            rw [he]
            exact builder_interp_congr hB hu
    · refine Or.inl ⟨m.user.nextVar + ps.length, hle, rfl, ?_⟩
      intro θ hs hu
      exact skeleton_fail0 hB.toBuilder hb haB hps hf θ hs (UnifiesL.single.1 hu)

/-! ### the three builders, with their variables -/

theorem hasVar_ofList_iff (v : Nat) : ∀ ts : List Term,
    (Args.ofList ts).hasVar v = true ↔ ∃ t ∈ ts, t.hasVar v = true
  | [] => by simp [Args.ofList, Args.hasVar]
  | t :: ts => by simp [Args.ofList, Args.hasVar, hasVar_ofList_iff v ts]

theorem hasVar_list_iff (v : Nat) (tl : Term) : ∀ es : List Term,
    (Term.list es tl).hasVar v = true ↔ (∃ t ∈ es, t.hasVar v = true) ∨ tl.hasVar v = true
  | [] => by simp [Term.list]
  | e :: es => by
    have e1 : Term.list (e :: es) tl = Term.consT e (Term.list es tl) := rfl
    rw [e1]
    simp only [Term.consT, Term.hasVar, Args.hasVar, Bool.or_false, Bool.or_eq_true,
      hasVar_list_iff v tl es, List.mem_cons, exists_eq_or_imp]
    constructor
    · rintro (h | h | h)
      · exact Or.inl (Or.inl h)
      · exact Or.inl (Or.inr h)
      · exact Or.inr h
    · rintro ((h | h) | h)
      · exact Or.inl h
      · exact Or.inr (Or.inl h)
      · exact Or.inr (Or.inr h)

theorem builder2_functor (f : String) : Builder2 (fun ts => Term.app f (Args.ofList ts)) where
  toBuilder := builder_functor f
  hasVar ts v := by simp [Term.hasVar, hasVar_ofList_iff]

theorem builder2_list : Builder2 (fun ts => Term.list ts) where
  toBuilder := builder_list
  hasVar ts v := by
    rw [hasVar_list_iff]
    simp [Term.nilT, Term.hasVar]

theorem builder2_partial : Builder2 (buildCtor .partial_) where
  toBuilder := builder_partial
  hasVar ts v := by
    cases ts with
    | nil => simp [buildCtor, Term.hasVar]
    | cons tl es =>
      simp only [buildCtor, hasVar_list_iff, List.mem_cons, exists_eq_or_imp]
      constructor
      · rintro (h | h)
        · exact Or.inr h
        · exact Or.inl h
      · rintro (h | h)
        · exact Or.inr h
        · exact Or.inl h

theorem GetsR2_functor {vars : List Nat} {ops : List Op} {ps : List Term} (g : String)
    (h : GetsR2 vars ops ps) :
    GetsR2 vars (.getFunctor g ps.length :: ops ++ [.pop]) [.app g (Args.ofList ps)] :=
  GetsR2_skel (.getFunctor g ps.length) (fun ts => Term.app g (Args.ofList ts)) (builder2_functor g)
    (fun n pc k a rest astack env cp m => exec_getFunctor n pc vars k astack env cp m g ps.length a rest) h

theorem GetsR2_list {vars : List Nat} {ops : List Op} {ps : List Term} (h : GetsR2 vars ops ps) :
    GetsR2 vars (.getList ps.length :: ops ++ [.pop]) [Term.list ps] :=
  GetsR2_skel (.getList ps.length) (fun ts => Term.list ts) builder2_list
    (fun n pc k a rest astack env cp m => exec_getList n pc vars k astack env cp m ps.length a rest) h

theorem GetsR2_partial {vars : List Nat} {ops : List Op} {tl : Term} {es : List Term}
    (h : GetsR2 vars ops (tl :: es)) :
    GetsR2 vars (.getPartial es.length :: ops ++ [.pop]) [Term.list es tl] :=
  GetsR2_skel (ps := tl :: es) (.getPartial es.length) (buildCtor .partial_) builder2_partial
    (fun n pc k a rest astack env cp m => exec_getPartial n pc vars k astack env cp m es.length a rest) h

theorem getsR2_runSem : RunSem true GetsR2 where
  nil := GetsR2_nil
  append := GetsR2_append
  const := GetsR2_const
  var := GetsR2_var
  functor g h := GetsR2_functor g h
  list h := GetsR2_list h
  partial_ h := GetsR2_partial h

abbrev Gets2 := Lift GetsR2

theorem headCode_spec2 (hargs : RepList) (c0 : CState) (hwf : WFs hargs = true) :
    Gets2 (compileHeadArgs hargs c0).vars (headCode hargs c0) (Rep.absArgs hargs).toList := by
  rw [compileHeadArgs_eq]
  obtain ⟨ops, hcode, _, _, hg⟩ := compileArgs_sem (lift_argSem getsR2_runSem) hargs c0 hwf
  have : headCode hargs c0 = ops := by simp [headCode, compileHeadArgs_eq, hcode]
  rw [this]
  exact hg

/-- variables of a renamed term are images of variables of the term -/
theorem hasVar_rename {ρ : Nat → Nat} {w : Nat} : ∀ (t : Term), (t.rename ρ).hasVar w = true →
    ∃ v, t.hasVar v = true ∧ ρ v = w := by
  intro t h
  have key : ∀ (σ : Subst) (t : Term), (t.subst σ).hasVar w = true → ∃ v, t.hasVar v = true ∧ (σ v).hasVar w = true := by
    intro σ
    refine fun t => Term.rec (motive_1 := fun t => (t.subst σ).hasVar w = true → ∃ v, t.hasVar v = true ∧ (σ v).hasVar w = true)
      (motive_2 := fun as => (as.subst σ).hasVar w = true → ∃ v, as.hasVar v = true ∧ (σ v).hasVar w = true)
      ?_ ?_ ?_ ?_ ?_ ?_ ?_ ?_ t
    · intro v h; exact ⟨v, by simp [Term.hasVar], by simpa [Term.subst] using h⟩
    · intro s h; simp [Term.subst, Term.hasVar] at h
    · intro s h; simp [Term.subst, Term.hasVar] at h
    · intro s h; simp [Term.subst, Term.hasVar] at h
    · intro s h; simp [Term.subst, Term.hasVar] at h
    · intro f as ih h; simpa [Term.subst, Term.hasVar] using ih (by simpa [Term.subst, Term.hasVar] using h)
    · intro h; simp [Args.subst, Args.hasVar] at h
    · intro t ts iht ihts h
      simp only [Args.subst, Args.hasVar, Bool.or_eq_true] at h
      rcases h with h | h
      · obtain ⟨v, hv, hw⟩ := iht h
        exact ⟨v, by simp [Args.hasVar, hv], hw⟩
      · obtain ⟨v, hv, hw⟩ := ihts h
        exact ⟨v, by simp [Args.hasVar, hv], hw⟩
  obtain ⟨v, hv, hw⟩ := key _ t h
  exact ⟨v, hv, by simpa [Term.hasVar] using hw.symm⟩

/-- **head unification with the chain**: `Activation.activation_head` + `UChain` -/
theorem activation_head2 (c : Clause) (hargs : RepList) (rest : List Op) (hwf : WFs hargs = true)
    (hcode : c.code = headCode hargs {} ++ rest)
    (hpre : (compileHeadArgs hargs {}).vars <+: c.vars) (hnd : c.vars.Nodup)
    (fuel : Nat) (args : List Term) (k : Cont) (env : Env) (parent : Nat) (m : MS) (res : Pr × MS)
    (hlen : args.length = hargs.length) (h0 : 0 < m.user.nextVar)
    (hargsB : ∀ a ∈ args, TOk m.user.nextVar a) (henv : SolBelow m.user.nextVar env)
    (hrun : evalThunk fuel (.clause c args k env parent) m = some res) :
    (∃ N', m.user.nextVar + c.vars.length ≤ N' ∧ res = (failP, bump m N') ∧
      ¬ ∃ θ, Sol env θ ∧ UnifiesL θ args ((Rep.absArgs hargs).toList.map
        (Term.rename (renOf c.vars (freshL m.user.nextVar c.vars.length))))) ∨
    (∃ fuel' env' N', fuel' < fuel ∧
      exec fuel' rest (freshL m.user.nextVar c.vars.length) k [] [] env' parent (bump m N') = some res ∧
      MGUStep (m.user.nextVar + c.vars.length) env
        (fun θ => UnifiesL θ args ((Rep.absArgs hargs).toList.map
          (Term.rename (renOf c.vars (freshL m.user.nextVar c.vars.length))))) N' env' ∧
      UChain (m.user.nextVar + c.vars.length) env N' env' ∧
      ISound env (fun θ => IUnifiesL θ args ((Rep.absArgs hargs).toList.map
          (Term.rename (renOf c.vars (freshL m.user.nextVar c.vars.length))))) env') := by
  cases fuel with
  | zero => simp [evalThunk] at hrun
  | succ n =>
    rw [evalThunk_clause, hcode] at hrun
    obtain ⟨_, hvs, hren, _, _, hE⟩ := activation_fresh_ok c.vars hnd args env _
      (fun a ha => (hargsB a ha).below) henv
    obtain ⟨hv, hr⟩ := headCode_spec2 hargs {} hwf
    have hP : ∀ p ∈ (Rep.absArgs hargs).toList.map
        (Term.rename (renOf c.vars (freshL m.user.nextVar c.vars.length))),
        TOk (m.user.nextVar + c.vars.length) p := by
      intro p hp w hw
      obtain ⟨t, ht, rfl⟩ := List.mem_map.1 hp
      obtain ⟨v, hvv, rfl⟩ := hasVar_rename t hw
      have := hvs _ ((hren.mono hpre).mem (hv t ht v hvv))
      omega
    have := hr _ _ (hren.mono hpre) n rest k args [] [] env parent
      (bump m (m.user.nextVar + c.vars.length)) res (by simp [hlen, absArgs_len])
      (by simp; omega) (fun a ha => (hargsB a ha).mono (by simp)) hP hE (by simpa using hrun)
    rcases this with ⟨N', hN, hres, hf⟩ | ⟨fuel', env', N', hfu, hx, hs, hc, hi⟩
    · exact Or.inl ⟨N', hN, by simpa using hres, fun ⟨θ, hs, hu⟩ => hf θ hs hu⟩
    · exact Or.inr ⟨fuel', env', N', by omega, by simpa using hx, hs, hc, hi⟩

end PrologVerif.Refine
